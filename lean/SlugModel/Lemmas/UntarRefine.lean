import SlugModel.Spec.Untar
import SlugModel.Lemmas.UnpackInv
import SlugModel.Lemmas.UnpackBasic
/-!
# Lemmas/UntarRefine — `Unpack` refines the sequential reading `untar` (C15)

Simulation between the model state (`UState`: a filesystem and the deferred directory records) and
the specification state (`UntarState`: an abstract tree keyed by relative paths and the deferred
metadata).  Both sides are association lists read through `FS.get`, so everything is phrased on
*views* `RelPath → Option Node`:

* `urView dstP fs r = fs.get (dstP ++ r)` — the filesystem below the destination,
* `treeGet t` — the tree.

`UrG G` is the shape invariant of a view during the entry loop (the root is a directory, a bound
path has a directory parent, every directory below the root is `0755`/`nowT`).  `urFill G r` is
"create the missing prefixes of `r` as plain directories" and `urSetAt G p n` "bind `p` to `n`";
`MkdirAll`, `Symlink`, `Create`, `Chmod`, `Chtimes` on a path `dst/r` whose ancestors are real
directories are shown to act on the view exactly like that, and so do `mkParents`, `touchParent`
and `treeSet` on the tree.
-/
namespace Slug

/-! ## prefixes -/

theorem ur_prefix_dropLast_iff {α : Type} (q p : List α) (hp : p ≠ []) :
    q <+: p.dropLast ↔ q <+: p ∧ q ≠ p := by
  rcases ps_eq_nil_or_snoc p with e | ⟨p', c, e⟩
  · exact absurd e hp
  · subst e
    rw [List.dropLast_concat, List.prefix_concat_iff]
    constructor
    · intro h
      refine ⟨Or.inr h, ?_⟩
      intro e
      have := List.IsPrefix.length_le h
      rw [e] at this
      simp only [List.length_append, List.length_cons, List.length_nil] at this
      omega
    · rintro ⟨h | h, hne⟩
      · exact absurd h hne
      · exact h

theorem ur_dropLast_prefix_of_prefix {α : Type} {q r : List α} (h : q <+: r) : q.dropLast <+: r :=
  List.IsPrefix.trans (List.dropLast_prefix q) h

theorem ur_append_ne_self {α : Type} (a q : List α) (hq : q ≠ []) : a ++ q ≠ a := by
  intro e
  have := congrArg List.length e
  rw [List.length_append] at this
  have : q.length = 0 := by omega
  exact hq (List.eq_nil_of_length_eq_zero this)

theorem ur_append_inj {α : Type} (a p q : List α) : a ++ p = a ++ q ↔ p = q :=
  ⟨List.append_cancel_left, fun h => by rw [h]⟩

/-- a prefix of `a ++ r` is a prefix of `a` or `a ++ q` for a prefix `q` of `r` -/
theorem ur_prefix_append_cases {α : Type} {x a r : List α} (h : x <+: a ++ r) :
    x <+: a ∨ ∃ q, x = a ++ q ∧ q <+: r := by
  rcases List.prefix_or_prefix_of_prefix h (List.prefix_append a r) with h1 | ⟨q, hq⟩
  · exact Or.inl h1
  · refine Or.inr ⟨q, hq.symm, ?_⟩
    rw [← hq] at h
    exact (List.prefix_append_right_inj a).mp h

/-! ## views and their shape invariant -/

def urStdDir : Node := .dir 0o755 nowT

/-- the filesystem below `dstP`, keyed by relative paths -/
def urView (dstP : PPath) (fs : FS) : RelPath → Option Node := fun r => fs.get (dstP ++ r)

/-- create the missing prefixes of `r` (including `r`) as plain directories -/
def urFill (G : RelPath → Option Node) (r : RelPath) : RelPath → Option Node :=
  fun q => if q <+: r ∧ G q = none then some urStdDir else G q

/-- bind `p` to `n` -/
def urSetAt (G : RelPath → Option Node) (p : RelPath) (n : Node) : RelPath → Option Node :=
  fun q => if q = p then some n else G q

structure UrG (G : RelPath → Option Node) : Prop where
  root : IsDir (G [])
  phys : ∀ r, r ≠ [] → G r ≠ none → IsDir (G r.dropLast)
  std : ∀ r perm mt, r ≠ [] → G r = some (.dir perm mt) → perm = 0o755 ∧ mt = nowT

/-- along `r`, every prefix is missing or a directory -/
def UrFree (G : RelPath → Option Node) (r : RelPath) : Prop := ∀ q, q <+: r → G q = none ∨ IsDir (G q)

theorem ur_isDir_ne_none {o : Option Node} (h : IsDir o) : o ≠ none := by
  obtain ⟨a, b, h⟩ := h; rw [h]; simp

theorem ur_isDir_std : IsDir (some urStdDir) := ⟨_, _, rfl⟩

theorem UrFree.mono {G : RelPath → Option Node} {q r : RelPath} (h : UrFree G r) (hq : q <+: r) :
    UrFree G q := fun x hx => h x (List.IsPrefix.trans hx hq)

theorem UrG.congr {G G' : RelPath → Option Node} (h : UrG G) (he : ∀ q, q ≠ [] → G' q = G q)
    (hroot : IsDir (G' [])) : UrG G' := by
  refine ⟨hroot, ?_, ?_⟩
  · intro r hr hb
    rw [he r hr] at hb
    have := h.phys r hr hb
    by_cases hd : r.dropLast = []
    · rw [hd]; exact hroot
    · rw [he _ hd]; exact this
  · intro r perm mt hr hg
    rw [he r hr] at hg
    exact h.std r perm mt hr hg

/-- a bound path has only directories above it -/
theorem UrG.above {G : RelPath → Option Node} (h : UrG G) :
    ∀ (r : RelPath), G r ≠ none → ∀ q, q <+: r → q ≠ r → IsDir (G q) := by
  intro r
  induction hlen : r.length generalizing r with
  | zero =>
    intro _ q hq hne
    have : r = [] := List.eq_nil_of_length_eq_zero hlen
    subst this
    exact absurd (List.prefix_nil.mp hq) hne
  | succ k ih =>
    intro hb q hq hne
    have hr : r ≠ [] := by intro e; rw [e] at hlen; simp at hlen
    have hpar := h.phys r hr hb
    have hq' : q <+: r.dropLast := (ur_prefix_dropLast_iff q r hr).mpr ⟨hq, hne⟩
    by_cases he : q = r.dropLast
    · rw [he]; exact hpar
    · exact ih r.dropLast (by rw [List.length_dropLast]; omega) (ur_isDir_ne_none hpar) q hq' he

theorem UrG.free_of_bound {G : RelPath → Option Node} (h : UrG G) {r : RelPath} (hb : G r ≠ none) :
    ∀ q, q <+: r → q ≠ r → G q ≠ none := fun q hq hne => ur_isDir_ne_none (h.above r hb q hq hne)

theorem urFill_of_bound {G : RelPath → Option Node} {r q : RelPath} (hb : G q ≠ none) :
    urFill G r q = G q := by
  unfold urFill
  rw [if_neg (fun h => hb h.2)]

theorem urFill_root {G : RelPath → Option Node} (h : IsDir (G [])) (r : RelPath) :
    urFill G r [] = G [] := urFill_of_bound (ur_isDir_ne_none h)

/-- after filling, every prefix of `r` is a directory -/
theorem urFill_prefix_dir {G : RelPath → Option Node} {r : RelPath} (hf : UrFree G r) :
    ∀ q, q <+: r → IsDir (urFill G r q) := by
  intro q hq
  unfold urFill
  rcases hf q hq with h | h
  · rw [if_pos ⟨hq, h⟩]; exact ur_isDir_std
  · rw [if_neg (fun h' => ur_isDir_ne_none h h'.2)]; exact h

theorem urFill_isDir_mono {G : RelPath → Option Node} {r q : RelPath} (h : IsDir (G q)) :
    IsDir (urFill G r q) := by
  rw [urFill_of_bound (ur_isDir_ne_none h)]; exact h

theorem urG_fill {G : RelPath → Option Node} (h : UrG G) {r : RelPath} (hf : UrFree G r) :
    UrG (urFill G r) := by
  refine ⟨urFill_isDir_mono h.root, ?_, ?_⟩
  · intro x hx hb
    by_cases hc : x <+: r ∧ G x = none
    · exact urFill_prefix_dir hf _ (ur_dropLast_prefix_of_prefix hc.1)
    · have : urFill G r x = G x := by unfold urFill; rw [if_neg hc]
      rw [this] at hb
      exact urFill_isDir_mono (h.phys x hx hb)
  · intro x perm mt hx hg
    by_cases hc : x <+: r ∧ G x = none
    · have : urFill G r x = some urStdDir := by unfold urFill; rw [if_pos hc]
      rw [this] at hg
      unfold urStdDir at hg
      cases hg
      exact ⟨rfl, rfl⟩
    · have : urFill G r x = G x := by unfold urFill; rw [if_neg hc]
      rw [this] at hg
      exact h.std x perm mt hx hg

/-- filling twice along comparable paths -/
theorem urFill_idem_of_dir {G : RelPath → Option Node} (h : UrG G) {r : RelPath} (hb : IsDir (G r)) :
    urFill G r = G := by
  funext q
  unfold urFill
  by_cases hq : q <+: r ∧ G q = none
  · exfalso
    by_cases he : q = r
    · rw [he] at hq; exact ur_isDir_ne_none hb hq.2
    · exact h.free_of_bound (ur_isDir_ne_none hb) q hq.1 he hq.2
  · rw [if_neg hq]

theorem urSetAt_self (G : RelPath → Option Node) (p : RelPath) (n : Node) : urSetAt G p n p = some n := by
  simp [urSetAt]

theorem urSetAt_ne (G : RelPath → Option Node) {p q : RelPath} (n : Node) (h : q ≠ p) :
    urSetAt G p n q = G q := by
  simp [urSetAt, h]

theorem urG_set {G : RelPath → Option Node} (h : UrG G) {p : RelPath} {n : Node} (hp : p ≠ [])
    (hpar : IsDir (G p.dropLast)) (hkeep : IsDir (G p) → IsDir (some n))
    (hstd : ∀ perm mt, n = .dir perm mt → perm = 0o755 ∧ mt = nowT) : UrG (urSetAt G p n) := by
  have hdl : p.dropLast ≠ p := dropLast_ne_self hp
  have hmono : ∀ q, IsDir (G q) → IsDir (urSetAt G p n q) := by
    intro q hq
    by_cases he : q = p
    · rw [he, urSetAt_self]; rw [he] at hq; exact hkeep hq
    · rw [urSetAt_ne G n he]; exact hq
  refine ⟨?_, ?_, ?_⟩
  · rw [urSetAt_ne G n (fun e => hp e.symm)]; exact h.root
  · intro x hx hb
    by_cases he : x = p
    · rw [he]; exact hmono _ hpar
    · rw [urSetAt_ne G n he] at hb
      exact hmono _ (h.phys x hx hb)
  · intro x perm mt hx hg
    by_cases he : x = p
    · rw [he, urSetAt_self] at hg
      cases hg
      exact hstd perm mt rfl
    · rw [urSetAt_ne G n he] at hg
      exact h.std x perm mt hx hg

/-! ## `urFill` one level at a time -/

theorem ur_prefix_iff_last {α : Type} (q p : List α) (hp : p ≠ []) :
    q <+: p ↔ q = p ∨ q <+: p.dropLast := by
  rw [ur_prefix_dropLast_iff q p hp]
  constructor
  · intro h
    by_cases he : q = p
    · exact Or.inl he
    · exact Or.inr ⟨h, he⟩
  · rintro (h | h)
    · rw [h]; exact List.prefix_refl _
    · exact h.1

theorem ur_not_prefix_dropLast {α : Type} (p : List α) (hp : p ≠ []) : ¬ p <+: p.dropLast := by
  intro h
  exact ((ur_prefix_dropLast_iff p p hp).mp h).2 rfl

theorem urFill_last_none {G : RelPath → Option Node} {p : RelPath} (hp : p ≠ []) (hn : G p = none) :
    urFill G p = urSetAt (urFill G p.dropLast) p urStdDir := by
  funext q
  by_cases he : q = p
  · rw [he, urSetAt_self]
    unfold urFill
    rw [if_pos ⟨List.prefix_refl _, hn⟩]
  · rw [urSetAt_ne _ _ he]
    unfold urFill
    have : q <+: p ↔ q <+: p.dropLast := by
      rw [ur_prefix_iff_last q p hp]
      constructor
      · rintro (h | h)
        · exact absurd h he
        · exact h
      · exact Or.inr
    simp only [this]

theorem urFill_last_some {G : RelPath → Option Node} {p : RelPath} (hp : p ≠ []) (hn : G p ≠ none) :
    urFill G p = urFill G p.dropLast := by
  funext q
  by_cases he : q = p
  · rw [he, urFill_of_bound hn, urFill_of_bound hn]
  · unfold urFill
    have : q <+: p ↔ q <+: p.dropLast := by
      rw [ur_prefix_iff_last q p hp]
      constructor
      · rintro (h | h)
        · exact absurd h he
        · exact h
      · exact Or.inr
    simp only [this]

/-- the node at `p` is not affected by filling its proper prefixes -/
theorem urFill_dropLast_self {G : RelPath → Option Node} {p : RelPath} (hp : p ≠ []) :
    urFill G p.dropLast p = G p := by
  unfold urFill
  rw [if_neg (fun h => ur_not_prefix_dropLast p hp h.1)]

/-! ## the tree side -/

theorem ur_treeGet_set (t : Tree) (p : RelPath) (n : Node) :
    treeGet (treeSet t p n) = urSetAt (treeGet t) p n := by
  funext q
  unfold urSetAt
  by_cases h : q = p
  · subst h; simp [treeGet, treeSet, FS.get]
  · have h' : ¬ p = q := fun e => h e.symm
    simp [treeGet, treeSet, FS.get, h, h']

def urMkStep (acc : Tree) (q : RelPath) : Tree :=
  match treeGet acc q with
  | some _ => acc
  | none => treeSet acc q (.dir 0o755 nowT)

theorem ur_mkParents_eq (t : Tree) (p : RelPath) : mkParents t p = (properPrefixes p).foldl urMkStep t := rfl

theorem ur_mkStep_get (acc : Tree) (q x : RelPath) :
    treeGet (urMkStep acc q) x = if x = q ∧ treeGet acc x = none then some urStdDir else treeGet acc x := by
  unfold urMkStep
  cases h : treeGet acc q with
  | some n =>
    simp only
    by_cases hx : x = q
    · subst hx; rw [h]; simp
    · simp [hx]
  | none =>
    simp only
    rw [ur_treeGet_set]
    by_cases hx : x = q
    · subst hx; rw [urSetAt_self, if_pos ⟨rfl, h⟩]; rfl
    · rw [urSetAt_ne _ _ hx]; simp [hx]

theorem ur_foldl_mk_get : ∀ (L : List RelPath) (t : Tree) (x : RelPath),
    treeGet (L.foldl urMkStep t) x =
      if x ∈ L ∧ treeGet t x = none then some urStdDir else treeGet t x := by
  intro L
  induction L with
  | nil => intro t x; simp
  | cons q L ih =>
    intro t x
    rw [List.foldl_cons, ih, ur_mkStep_get]
    by_cases hn : treeGet t x = none
    · by_cases hq : x = q
      · subst hq; simp [hn, urStdDir]
      · by_cases hL : x ∈ L <;> simp [hn, hq, hL]
    · simp [hn]

theorem ur_mem_properPrefixes (p x : RelPath) : x ∈ properPrefixes p ↔ x ≠ [] ∧ x <+: p.dropLast := by
  cases p with
  | nil =>
    simp only [properPrefixes, List.dropLast_nil, List.prefix_nil]
    constructor
    · intro h; cases h
    · rintro ⟨h1, h2⟩; exact absurd h2 h1
  | cons a p' =>
    have hp : a :: p' ≠ [] := by simp
    rw [ur_prefix_dropLast_iff x (a :: p') hp]
    unfold properPrefixes
    rw [List.mem_filterMap]
    constructor
    · rintro ⟨i, hi, he⟩
      rw [List.mem_range] at hi
      by_cases h0 : i = 0
      · rw [if_pos h0] at he; cases he
      · rw [if_neg h0] at he
        cases he
        refine ⟨?_, List.take_prefix _ _, ?_⟩
        · cases i with
          | zero => exact absurd rfl h0
          | succ k => simp
        · intro e
          have := congrArg List.length e
          rw [List.length_take] at this
          omega
    · rintro ⟨h1, h2, h3⟩
      refine ⟨x.length, ?_, ?_⟩
      · rw [List.mem_range]
        have hle := List.IsPrefix.length_le h2
        rcases Nat.lt_or_ge x.length (a :: p').length with h | h
        · exact h
        · exact absurd (List.IsPrefix.eq_of_length_le h2 h) h3
      · have h0 : x.length ≠ 0 := by
          intro e; exact h1 (List.eq_nil_of_length_eq_zero e)
        rw [if_neg h0, ← List.prefix_iff_eq_take.mp h2]

theorem ur_mkParents_get {t : Tree} (hroot : IsDir (treeGet t [])) (p : RelPath) :
    treeGet (mkParents t p) = urFill (treeGet t) p.dropLast := by
  funext x
  rw [ur_mkParents_eq, ur_foldl_mk_get]
  simp only [ur_mem_properPrefixes]
  unfold urFill
  by_cases hx : x = []
  · subst hx
    have := ur_isDir_ne_none hroot
    simp [this]
  · simp [hx]

theorem ur_touchParent_get {t : Tree} (h : UrG (treeGet t)) (p : RelPath) :
    treeGet (touchParent t p) = treeGet t := by
  unfold touchParent
  split
  · rename_i perm mt hg
    split
    · rfl
    · rename_i hne
      rw [ur_treeGet_set]
      funext q
      by_cases hq : q = p.dropLast
      · rw [hq, urSetAt_self, hg]
        obtain ⟨_, h2⟩ := h.std _ perm mt hne hg
        rw [h2]
      · rw [urSetAt_ne _ _ hq]
  · rfl

/-! ## type flags -/

theorem Entry.not_regular_of_symlink {e : Entry} (h : e.isSymlink = true) : e.isRegular = false := by
  cases hr : e.isRegular with
  | false => rfl
  | true => rw [Entry.not_symlink_of_regular hr] at h; cases h

theorem Entry.not_dir_of_symlink {e : Entry} (h : e.isSymlink = true) : e.isDir = false := by
  cases hr : e.isDir with
  | false => rfl
  | true => rw [Entry.not_symlink_of_dir hr] at h; cases h

/-! ## one entry of the sequential reading, on views -/

theorem ur_untar_nil_name (st : UntarState) (e : Entry) (h : e.name = []) : untarEntry st e = some st := by
  unfold untarEntry; rw [if_pos h]

theorem ur_untar_typeX (st : UntarState) (e : Entry) (hn : e.name ≠ []) (hx : e.isTypeX = true) :
    untarEntry st e = some st := by
  unfold untarEntry
  rw [if_neg hn]
  simp [hx]

theorem ur_untar_root_dir (st : UntarState) (e : Entry) (hn : e.name ≠ []) (hd : e.isDir = true)
    (hp : entryRel e.name = []) :
    untarEntry st e = some { st with deferred := st.deferred ++ [([], e.mode, e.mtime)] } := by
  unfold untarEntry
  rw [if_neg hn]
  simp [hd, Entry.not_typeX_of_dir hd, hp]

theorem ur_untar_link (st : UntarState) (e : Entry) (hn : e.name ≠ []) (hs : e.isSymlink = true)
    (hp : entryRel e.name ≠ []) (hG : UrG (treeGet st.tree)) (hfree : UrFree (treeGet st.tree) (entryRel e.name).dropLast) :
    ∃ tree', untarEntry st e = some { tree := tree', deferred := st.deferred } ∧
      treeGet tree' = urSetAt (urFill (treeGet st.tree) (entryRel e.name).dropLast) (entryRel e.name) (.link e.link) := by
  refine ⟨treeSet (touchParent (mkParents st.tree (entryRel e.name)) (entryRel e.name)) (entryRel e.name) (.link e.link), ?_, ?_⟩
  · unfold untarEntry
    rw [if_neg hn]
    simp [hs, Entry.not_typeX_of_symlink hs, hp]
  · have h1 := ur_mkParents_get hG.root (entryRel e.name)
    have hG1 : UrG (treeGet (mkParents st.tree (entryRel e.name))) := by rw [h1]; exact urG_fill hG hfree
    rw [ur_treeGet_set, ur_touchParent_get hG1, h1]

theorem ur_untar_dir (st : UntarState) (e : Entry) (hn : e.name ≠ []) (hd : e.isDir = true)
    (hp : entryRel e.name ≠ []) (hG : UrG (treeGet st.tree)) (hfree : UrFree (treeGet st.tree) (entryRel e.name).dropLast) :
    ∃ tree', untarEntry st e =
        some { tree := tree', deferred := st.deferred ++ [(entryRel e.name, e.mode, e.mtime)] } ∧
      treeGet tree' = urFill (treeGet st.tree) (entryRel e.name) := by
  have h1 := ur_mkParents_get hG.root (entryRel e.name)
  have hG1 : UrG (treeGet (mkParents st.tree (entryRel e.name))) := by rw [h1]; exact urG_fill hG hfree
  have hself : treeGet (mkParents st.tree (entryRel e.name)) (entryRel e.name) = treeGet st.tree (entryRel e.name) := by
    rw [h1]; exact urFill_dropLast_self hp
  refine ⟨(match treeGet (mkParents st.tree (entryRel e.name)) (entryRel e.name) with
          | some _ => mkParents st.tree (entryRel e.name)
          | none => treeSet (touchParent (mkParents st.tree (entryRel e.name)) (entryRel e.name))
              (entryRel e.name) (.dir 0o755 nowT)), ?_, ?_⟩
  · unfold untarEntry
    rw [if_neg hn]
    simp [hd, Entry.not_typeX_of_dir hd, Entry.not_symlink_of_dir hd, hp]
    rfl
  · cases hg : treeGet st.tree (entryRel e.name) with
    | none =>
      rw [hself, hg]
      simp only
      rw [ur_treeGet_set, ur_touchParent_get hG1, h1, urFill_last_none hp hg]
      rfl
    | some n =>
      rw [hself, hg]
      simp only
      rw [h1, urFill_last_some hp (by rw [hg]; simp)]

theorem ur_untar_reg (st : UntarState) (e : Entry) (hn : e.name ≠ []) (hr : e.isRegular = true)
    (hp : entryRel e.name ≠ []) (hG : UrG (treeGet st.tree)) (hfree : UrFree (treeGet st.tree) (entryRel e.name).dropLast) :
    ∃ tree', untarEntry st e = some { tree := tree', deferred := st.deferred } ∧
      treeGet tree' = urSetAt (urFill (treeGet st.tree) (entryRel e.name).dropLast) (entryRel e.name)
        (.file e.mode e.mtime e.body) := by
  have h1 := ur_mkParents_get hG.root (entryRel e.name)
  have hG1 : UrG (treeGet (mkParents st.tree (entryRel e.name))) := by rw [h1]; exact urG_fill hG hfree
  refine ⟨treeSet (match treeGet (mkParents st.tree (entryRel e.name)) (entryRel e.name) with
          | some _ => mkParents st.tree (entryRel e.name)
          | none => touchParent (mkParents st.tree (entryRel e.name)) (entryRel e.name))
            (entryRel e.name) (.file e.mode e.mtime e.body), ?_, ?_⟩
  · unfold untarEntry
    rw [if_neg hn]
    simp [hr, Entry.not_typeX_of_regular hr, Entry.not_symlink_of_regular hr, Entry.not_dir_of_regular hr, hp]
    rfl
  · rw [ur_treeGet_set]
    cases hg : treeGet (mkParents st.tree (entryRel e.name)) (entryRel e.name) with
    | none => simp only; rw [ur_touchParent_get hG1, h1]
    | some n => simp only; rw [h1]

/-! ## exact path resolution through real directories -/

/-- through a chain of directories, with enough fuel, resolution is the identity -/
theorem ur_resolve_exact (fs : FS) :
    ∀ (fuel : Nat) (cur : PPath) (segs : List Seg) (follow : Bool),
      (∀ x ∈ segs, x ≠ dotdot) → segs.length < fuel →
      (∀ a, cur <+: a → a ≠ cur → a <+: cur ++ segs → a ≠ cur ++ segs → IsDir (fs.lookup a)) →
      (follow = true → ∀ t, fs.lookup (cur ++ segs) ≠ some (.link t)) →
      resolve fs fuel cur segs follow = .ok (cur ++ segs) := by
  intro fuel
  induction fuel with
  | zero => intro cur segs follow _ hl; exact absurd hl (Nat.not_lt_zero _)
  | succ fuel ih =>
    intro cur segs follow hn hlen hch hfl
    cases segs with
    | nil => simp [resolve]
    | cons s rest =>
      rw [resolve]
      have hs : s ≠ dotdot := hn s (by simp)
      rw [if_neg hs]
      simp only
      have hassoc : cur ++ s :: rest = (cur ++ [s]) ++ rest := by simp
      have hrest : ∀ x ∈ rest, x ≠ dotdot := fun x hx => hn x (List.mem_cons_of_mem _ hx)
      by_cases hr : rest = []
      · subst hr
        have hfuel : ∃ k, fuel = k + 1 := by
          simp only [List.length_cons, List.length_nil] at hlen
          exact ⟨fuel - 1, by omega⟩
        obtain ⟨k, hk⟩ := hfuel
        cases hl : fs.lookup (cur ++ [s]) with
        | none => simp
        | some n =>
          cases n with
          | dir perm mt => simp [hk, resolve]
          | file perm mt c => simp
          | special => simp
          | link t =>
            cases follow with
            | false => simp
            | true => exact absurd hl (hfl rfl t)
      · have hne1 : cur ++ [s] ≠ cur := ur_append_ne_self cur [s] (by simp)
        have hne2 : cur ++ [s] ≠ cur ++ s :: rest := by
          rw [hassoc]; intro e; exact ur_append_ne_self _ rest hr e.symm
        obtain ⟨perm, mt, hl⟩ := hch (cur ++ [s]) (List.prefix_append _ _) hne1
          (by rw [hassoc]; exact List.prefix_append _ _) hne2
        rw [hl]
        simp only
        rw [hassoc]
        apply ih _ _ _ hrest
        · simp only [List.length_cons] at hlen; omega
        · intro a h1 h2 h3 h4
          apply hch a (List.IsPrefix.trans (List.prefix_append _ _) h1)
          · intro e
            rw [e] at h1
            have := List.IsPrefix.length_le h1
            simp only [List.length_append, List.length_cons, List.length_nil] at this
            omega
          · rw [hassoc]; exact h3
          · rw [hassoc]; exact h4
        · rw [← hassoc]; exact hfl

/-- without links on the way (final component included), a successful resolution is the identity -/
theorem ur_resolve_id (fs : FS) :
    ∀ (fuel : Nat) (cur : PPath) (segs : List Seg) (follow : Bool) (r : PPath),
      (∀ x ∈ segs, x ≠ dotdot) →
      (∀ a, cur <+: a → a ≠ cur → a <+: cur ++ segs → ∀ t, fs.lookup a ≠ some (.link t)) →
      resolve fs fuel cur segs follow = .ok r → r = cur ++ segs := by
  intro fuel
  induction fuel with
  | zero => intro cur segs follow r _ _ h; simp [resolve] at h
  | succ fuel ih =>
    intro cur segs follow r hn hnl h
    cases segs with
    | nil => simp only [resolve] at h; cases h; simp
    | cons s rest =>
      rw [resolve] at h
      have hs : s ≠ dotdot := hn s (by simp)
      rw [if_neg hs] at h
      simp only at h
      have hassoc : cur ++ s :: rest = (cur ++ [s]) ++ rest := by simp
      have hrest : ∀ x ∈ rest, x ≠ dotdot := fun x hx => hn x (List.mem_cons_of_mem _ hx)
      have hend : rest = [] → cur ++ [s] = cur ++ s :: rest := by intro hr; subst hr; rfl
      have hne1 : cur ++ [s] ≠ cur := ur_append_ne_self cur [s] (by simp)
      cases hl : fs.lookup (cur ++ [s]) with
      | none =>
        rw [hl] at h; simp only at h
        split at h
        · rename_i hr; cases h; exact hend hr
        · cases h
      | some n =>
        rw [hl] at h
        cases n with
        | dir perm mt =>
          simp only at h
          rw [hassoc]
          apply ih _ _ _ _ hrest _ h
          intro a h1 h2 h3 t
          apply hnl a (List.IsPrefix.trans (List.prefix_append _ _) h1)
          · intro e
            rw [e] at h1
            have := List.IsPrefix.length_le h1
            simp only [List.length_append, List.length_cons, List.length_nil] at this
            omega
          · rw [hassoc]; exact h3
        | file perm mt c =>
          simp only at h
          split at h
          · rename_i hr; cases h; exact hend hr
          · cases h
        | special =>
          simp only at h
          split at h
          · rename_i hr; cases h; exact hend hr
          · cases h
        | link t =>
          exact absurd hl (hnl _ (List.prefix_append _ _) hne1 (by rw [hassoc]; exact List.prefix_append _ _) t)

/-! ## system calls on a path whose ancestors are real directories -/

/-- every proper prefix of `P` is a directory -/
def UrChainP (fs : FS) (P : PPath) : Prop := ∀ a, a <+: P → a ≠ P → IsDir (fs.lookup a)

theorem ur_names_no_dotdot {P : PPath} (hN : ∀ x ∈ P, NameNS x) : ∀ x ∈ P, x ≠ dotdot :=
  fun x hx => (hN x hx).1.2.2

theorem ur_resolvePath {fs : FS} {P : PPath} (hN : ∀ x ∈ P, NameNS x) (hlen : P.length < resolveFuel)
    (hch : UrChainP fs P) (follow : Bool) (hfl : follow = true → ∀ t, fs.lookup P ≠ some (.link t)) :
    fs.resolvePath (ofSegs P) follow = .ok P := by
  unfold FS.resolvePath
  rw [pathSegs_ofSegs P hN]
  have := ur_resolve_exact fs resolveFuel [] P follow (ur_names_no_dotdot hN) hlen
    (by intro a _ _ h3 h4; rw [List.nil_append] at h3 h4; exact hch a h3 h4)
    (by rw [List.nil_append]; exact hfl)
  rw [List.nil_append] at this
  exact this

theorem ur_lstat_none {fs : FS} {P : PPath} (hN : ∀ x ∈ P, NameNS x) (hlen : P.length < resolveFuel)
    (hch : UrChainP fs P) (hl : fs.lookup P = none) : fs.lstat (ofSegs P) = .error .enoent := by
  unfold FS.lstat
  rw [ur_resolvePath hN hlen hch false (by intro h; cases h)]
  simp only [hl]

theorem ur_lstat_some {fs : FS} {P : PPath} {n : Node} (hN : ∀ x ∈ P, NameNS x) (hlen : P.length < resolveFuel)
    (hch : UrChainP fs P) (hl : fs.lookup P = some n) : fs.lstat (ofSegs P) = .ok n := by
  unfold FS.lstat
  rw [ur_resolvePath hN hlen hch false (by intro h; cases h)]
  simp only [hl]

theorem ur_stat_some {fs : FS} {P : PPath} {n : Node} (hN : ∀ x ∈ P, NameNS x) (hlen : P.length < resolveFuel)
    (hch : UrChainP fs P) (hl : fs.lookup P = some n) (hnl : ∀ t, n ≠ .link t) :
    fs.stat (ofSegs P) = .ok (P, n) := by
  unfold FS.stat
  rw [ur_resolvePath hN hlen hch true (by intro _ t h; rw [hl] at h; cases h; exact hnl t rfl)]
  simp only [hl]

/-- a missing path below non-links cannot be `stat`ed -/
theorem ur_stat_missing {fs : FS} {P : PPath} (hN : ∀ x ∈ P, NameNS x) (hl : fs.lookup P = none)
    (hnl : ∀ a, a <+: P → ∀ t, fs.lookup a ≠ some (.link t)) : ∃ er, fs.stat (ofSegs P) = .error er := by
  unfold FS.stat
  cases hr : fs.resolvePath (ofSegs P) true with
  | error er => exact ⟨er, rfl⟩
  | ok p =>
    have hp : p = [] ++ P := by
      unfold FS.resolvePath at hr
      rw [pathSegs_ofSegs P hN] at hr
      apply ur_resolve_id fs _ _ _ _ _ (ur_names_no_dotdot hN) _ hr
      intro a _ _ h3 t
      rw [List.nil_append] at h3
      exact hnl a h3 t
    rw [List.nil_append] at hp
    subst hp
    simp only [hl]
    exact ⟨_, rfl⟩

theorem ur_lookup_dropLast_of_chain {fs : FS} {P : PPath} (hP : P ≠ []) (hch : UrChainP fs P) :
    IsDir (fs.lookup P.dropLast) := hch _ (List.dropLast_prefix P) (dropLast_ne_self hP)

theorem ur_mkdir_eq {fs : FS} {P : PPath} (hN : ∀ x ∈ P, NameNS x) (hlen : P.length < resolveFuel)
    (hP : P ≠ []) (hch : UrChainP fs P) (hl : fs.lookup P = none) (perm : Nat) (now : Int) :
    fs.mkdir (ofSegs P) perm now = .ok ((fs.touchDir P.dropLast now).set P (.dir (applyUmask perm) now)) := by
  unfold FS.mkdir
  rw [ur_resolvePath hN hlen hch false (by intro h; cases h)]
  obtain ⟨a, b, hpar⟩ := ur_lookup_dropLast_of_chain hP hch
  simp only [hl, hpar]

theorem ur_symlink_eq {fs : FS} {P : PPath} (hN : ∀ x ∈ P, NameNS x) (hlen : P.length < resolveFuel)
    (hP : P ≠ []) (hch : UrChainP fs P) (hl : fs.lookup P = none) (target : Str) (ht : target ≠ [])
    (now : Int) :
    fs.symlink target (ofSegs P) now = .ok ((fs.touchDir P.dropLast now).set P (.link target)) := by
  unfold FS.symlink
  rw [if_neg ht, ur_resolvePath hN hlen hch false (by intro h; cases h)]
  obtain ⟨a, b, hpar⟩ := ur_lookup_dropLast_of_chain hP hch
  simp only [hl, hpar]

theorem ur_create_new {fs : FS} {P : PPath} (hN : ∀ x ∈ P, NameNS x) (hlen : P.length < resolveFuel)
    (hP : P ≠ []) (hch : UrChainP fs P) (hl : fs.lookup P = none) (content : Str) (now : Int) (priv : Bool) :
    fs.create (ofSegs P) content now priv =
      .ok ((fs.touchDir P.dropLast now).set P (.file (applyUmask 0o666) now content)) := by
  unfold FS.create
  rw [ur_resolvePath hN hlen hch true (by intro _ t h; rw [hl] at h; cases h)]
  obtain ⟨a, b, hpar⟩ := ur_lookup_dropLast_of_chain hP hch
  simp only [hl, hpar]

theorem ur_create_over {fs : FS} {P : PPath} (hN : ∀ x ∈ P, NameNS x) (hlen : P.length < resolveFuel)
    (hch : UrChainP fs P) {perm : Nat} {mt : Int} {c : Str} (hl : fs.lookup P = some (.file perm mt c))
    (content : Str) (now : Int) (priv : Bool) :
    fs.create (ofSegs P) content now priv =
      if !priv ∧ perm &&& 0o200 = 0 then .error .eacces else .ok (fs.set P (.file perm now content)) := by
  unfold FS.create
  rw [ur_resolvePath hN hlen hch true (by intro _ t h; rw [hl] at h; cases h)]
  simp only [hl]

theorem ur_chmod_file {fs : FS} {P : PPath} (hN : ∀ x ∈ P, NameNS x) (hlen : P.length < resolveFuel)
    (hch : UrChainP fs P) {perm : Nat} {mt : Int} {c : Str} (hl : fs.lookup P = some (.file perm mt c))
    (perm' : Nat) : fs.chmod (ofSegs P) perm' = .ok (fs.set P (.file perm' mt c)) := by
  unfold FS.chmod
  rw [ur_stat_some hN hlen hch hl (by intro t h; cases h)]

theorem ur_chmod_dir {fs : FS} {P : PPath} (hN : ∀ x ∈ P, NameNS x) (hlen : P.length < resolveFuel)
    (hch : UrChainP fs P) {perm : Nat} {mt : Int} (hl : fs.lookup P = some (.dir perm mt))
    (perm' : Nat) : fs.chmod (ofSegs P) perm' = .ok (fs.set P (.dir perm' mt)) := by
  unfold FS.chmod
  rw [ur_stat_some hN hlen hch hl (by intro t h; cases h)]

theorem ur_chtimes_file {fs : FS} {P : PPath} (hN : ∀ x ∈ P, NameNS x) (hlen : P.length < resolveFuel)
    (hch : UrChainP fs P) {perm : Nat} {mt : Int} {c : Str} (hl : fs.lookup P = some (.file perm mt c))
    (mt' : Int) : fs.chtimes (ofSegs P) mt' = .ok (fs.set P (.file perm mt' c)) := by
  unfold FS.chtimes
  rw [ur_stat_some hN hlen hch hl (by intro t h; cases h)]

theorem ur_chtimes_dir {fs : FS} {P : PPath} (hN : ∀ x ∈ P, NameNS x) (hlen : P.length < resolveFuel)
    (hch : UrChainP fs P) {perm : Nat} {mt : Int} (hl : fs.lookup P = some (.dir perm mt))
    (mt' : Int) : fs.chtimes (ofSegs P) mt' = .ok (fs.set P (.dir perm mt')) := by
  unfold FS.chtimes
  rw [ur_stat_some hN hlen hch hl (by intro t h; cases h)]

/-! ## the effect of the system calls on the view below `dstP` -/

theorem ur_view_nil (dstP : PPath) (fs : FS) : urView dstP fs [] = fs.get dstP := by
  unfold urView; rw [List.append_nil]

theorem ur_view_lookup {dstP : PPath} (hd : dstP ≠ []) (fs : FS) (r : RelPath) :
    fs.lookup (dstP ++ r) = urView dstP fs r := by
  unfold urView
  exact lookup_ne_nil fs _ (by intro e; exact hd (List.append_eq_nil_iff.mp e).1)

theorem ur_view_root_dir {dstP : PPath} (hd : dstP ≠ []) {fs : FS} (hreal : RealDir fs dstP) :
    IsDir (urView dstP fs []) := by
  have := hreal dstP (List.prefix_refl _)
  rw [lookup_ne_nil fs dstP hd] at this
  rw [ur_view_nil]; exact this

theorem ur_chainP {dstP : PPath} (hd : dstP ≠ []) {fs : FS} (hreal : RealDir fs dstP) {r : RelPath}
    (hab : ∀ q, q <+: r → q ≠ r → IsDir (urView dstP fs q)) : UrChainP fs (dstP ++ r) := by
  intro a ha hne
  rcases ur_prefix_append_cases ha with h | ⟨q, rfl, hq⟩
  · exact hreal a h
  · rw [ur_view_lookup hd]
    exact hab q hq (by intro e; exact hne (by rw [e]))

theorem ur_realDir_mono {dstP : PPath} {fs fs' : FS} (hreal : RealDir fs dstP)
    (h : ∀ q, IsDir (fs.get q) → IsDir (fs'.get q)) : RealDir fs' dstP :=
  fun q hq => isDir_lookup_of_get h q (hreal q hq)

theorem ur_touch_dirs (fs : FS) (d : PPath) (now : Int) :
    ∀ q, IsDir (fs.get q) → IsDir ((fs.touchDir d now).get q) := by
  intro q hq
  by_cases he : d = q
  · subst he
    rcases get_touchDir_self fs d now with e | ⟨perm, mt, _, e⟩
    · rw [e]; exact hq
    · rw [e]; exact ⟨_, _, rfl⟩
  · rw [get_touchDir_ne fs d q now he]; exact hq

theorem ur_set_dirs (fs : FS) (P : PPath) (n : Node) (hkeep : IsDir (fs.get P) → IsDir (some n)) :
    ∀ q, IsDir (fs.get q) → IsDir ((fs.set P n).get q) := by
  intro q hq
  by_cases he : P = q
  · subst he; rw [get_set_self]; exact hkeep hq
  · rw [get_set_ne fs P q n he]; exact hq

theorem ur_set_view (dstP : PPath) (fs : FS) (p : RelPath) (n : Node) :
    urView dstP (fs.set (dstP ++ p) n) = urSetAt (urView dstP fs) p n := by
  funext q
  unfold urView urSetAt
  rw [get_set]
  by_cases h : q = p
  · subst h; simp
  · have : ¬ dstP ++ p = dstP ++ q := fun e => h (List.append_cancel_left e).symm
    simp [h, this]

theorem ur_touch_view {dstP : PPath} {fs : FS} (hG : UrG (urView dstP fs)) (d : RelPath) :
    ∀ q, q ≠ [] → urView dstP (fs.touchDir (dstP ++ d) nowT) q = urView dstP fs q := by
  intro q hq
  unfold urView
  by_cases he : d = q
  · subst he
    rcases get_touchDir_self fs (dstP ++ d) nowT with e | ⟨perm, mt, hg, e⟩
    · exact e
    · rw [e, hg]
      obtain ⟨_, h2⟩ := hG.std d perm mt hq hg
      rw [h2]
  · exact get_touchDir_ne fs _ _ nowT (fun e => he (List.append_cancel_left e))

theorem ur_touch_set_view {dstP : PPath} {fs : FS} (hG : UrG (urView dstP fs)) {p : RelPath} (hp : p ≠ [])
    (n : Node) : ∀ q, q ≠ [] →
      urView dstP ((fs.touchDir (dstP ++ p).dropLast nowT).set (dstP ++ p) n) q =
        urSetAt (urView dstP fs) p n q := by
  intro q hq
  rw [ur_set_view, List.dropLast_append_of_ne_nil hp]
  by_cases he : q = p
  · rw [he, urSetAt_self, urSetAt_self]
  · rw [urSetAt_ne _ _ he, urSetAt_ne _ _ he]
    exact ur_touch_view hG _ q hq

theorem ur_touch_set_real {dstP : PPath} {fs : FS} (hreal : RealDir fs dstP) (P : PPath) (n : Node)
    (hnone : fs.get P = none) (now : Int) :
    RealDir ((fs.touchDir P.dropLast now).set P n) dstP := by
  apply ur_realDir_mono hreal
  intro q hq
  by_cases he : P = q
  · subst he; obtain ⟨a, b, h⟩ := hq; rw [hnone] at h; cases h
  · rw [get_set_ne _ P q n he]; exact ur_touch_dirs fs _ now q hq

theorem ur_applyUmask_755 : Node.dir (applyUmask 0o755) nowT = urStdDir := by decide

/-! ## `MkdirAll` on the view -/

theorem ur_mkdirAll_dir {fs : FS} {path : Str} {p : PPath} {a : Nat} {b : Int}
    (h : fs.stat path = .ok (p, .dir a b)) (now : Int) (fuel perm : Nat) :
    fs.mkdirAll now (fuel + 1) path perm = (fs, none) := by
  rw [FS.mkdirAll]
  simp only [h]

theorem ur_mkdirAll_rec {fs fs1 fs2 : FS} {path : Str} {er : Errno} (h : fs.stat path = .error er)
    (hne : pathDir path ≠ path) (hne2 : path ≠ []) {now : Int} {fuel perm : Nat}
    (hrec : fs.mkdirAll now fuel (pathDir path) perm = (fs1, none))
    (hmk : fs1.mkdir path perm now = .ok fs2) :
    fs.mkdirAll now (fuel + 1) path perm = (fs2, none) := by
  rw [FS.mkdirAll]
  simp only [h, hne, hne2, or_self, if_false, hrec, hmk]

theorem ur_ofSegs_ne_nil (P : PPath) : ofSegs P ≠ [] := by simp [ofSegs]

theorem ur_names_append {a b : List Seg} (ha : ∀ x ∈ a, NameNS x) (hb : ∀ x ∈ b, NameNS x) :
    ∀ x ∈ a ++ b, NameNS x := by
  intro x hx
  rcases List.mem_append.mp hx with h | h
  · exact ha x h
  · exact hb x h

theorem ur_mkdirAll_view {dstP : PPath} (hd : dstP ≠ []) (hND : ∀ x ∈ dstP, NameNS x) :
    ∀ (n : Nat) (r : RelPath) (fs : FS) (fuel : Nat), r.length = n → (∀ x ∈ r, NameNS x) →
      (dstP ++ r).length < resolveFuel → r.length < fuel → RealDir fs dstP → UrG (urView dstP fs) →
      UrFree (urView dstP fs) r →
      ∃ fs', fs.mkdirAll nowT fuel (ofSegs (dstP ++ r)) 0o755 = (fs', none) ∧ RealDir fs' dstP ∧
        ∀ q, q ≠ [] → urView dstP fs' q = urFill (urView dstP fs) r q := by
  intro n
  induction n with
  | zero =>
    intro r fs fuel hlen hNr hdep hfuel hreal hG hfree
    have hr : r = [] := List.eq_nil_of_length_eq_zero hlen
    subst hr
    obtain ⟨k, rfl⟩ : ∃ k, fuel = k + 1 := ⟨fuel - 1, by omega⟩
    obtain ⟨a, b, hl⟩ := hreal dstP (List.prefix_refl _)
    have hst : fs.stat (ofSegs (dstP ++ [])) = .ok (dstP ++ [], .dir a b) := by
      apply ur_stat_some (ur_names_append hND hNr) hdep
      · exact ur_chainP hd hreal (by intro q hq hne; exact absurd (List.prefix_nil.mp hq) hne)
      · rw [List.append_nil]; exact hl
      · intro t h; cases h
    refine ⟨fs, ur_mkdirAll_dir hst _ _ _, hreal, ?_⟩
    intro q hq
    unfold urFill
    rw [if_neg (fun h => hq (List.prefix_nil.mp h.1))]
  | succ n ih =>
    intro r fs fuel hlen hNr hdep hfuel hreal hG hfree
    have hrne : r ≠ [] := by intro e; rw [e] at hlen; simp at hlen
    obtain ⟨k, rfl⟩ : ∃ k, fuel = k + 1 := ⟨fuel - 1, by omega⟩
    have hNP := ur_names_append hND hNr
    cases hv : urView dstP fs r with
    | some nd =>
      have hb : urView dstP fs r ≠ none := by rw [hv]; simp
      have hdir : IsDir (urView dstP fs r) := by
        rcases hfree r (List.prefix_refl _) with h | h
        · exact absurd h hb
        · exact h
      obtain ⟨a, b, hab⟩ := hdir
      have hst : fs.stat (ofSegs (dstP ++ r)) = .ok (dstP ++ r, .dir a b) := by
        apply ur_stat_some hNP hdep (ur_chainP hd hreal (hG.above r hb))
        · rw [ur_view_lookup hd]; exact hab
        · intro t h; cases h
      refine ⟨fs, ur_mkdirAll_dir hst _ _ _, hreal, ?_⟩
      intro q _
      rw [urFill_idem_of_dir hG ⟨a, b, hab⟩]
    | none =>
      have hr' : r.dropLast.length = n := by rw [List.length_dropLast]; omega
      have hNr' : ∀ x ∈ r.dropLast, NameNS x := ps_dropLast_names r hNr
      have hPdl : (dstP ++ r).dropLast = dstP ++ r.dropLast := List.dropLast_append_of_ne_nil hrne
      have hlen' : r.dropLast.length < r.length := by rw [List.length_dropLast]; omega
      -- `stat` fails
      obtain ⟨er, hst⟩ : ∃ er, fs.stat (ofSegs (dstP ++ r)) = .error er := by
        apply ur_stat_missing hNP
        · rw [ur_view_lookup hd]; exact hv
        · intro a ha t hl
          rcases ur_prefix_append_cases ha with h | ⟨q, rfl, hq⟩
          · obtain ⟨a', b', h'⟩ := hreal a h
            rw [hl] at h'; cases h'
          · rw [ur_view_lookup hd] at hl
            rcases hfree q hq with h | ⟨a', b', h'⟩
            · rw [hl] at h; cases h
            · rw [hl] at h'; cases h'
      have hpd : pathDir (ofSegs (dstP ++ r)) = ofSegs (dstP ++ r.dropLast) := by
        rw [ps_pathDir_ofSegs _ hNP, hPdl]
      have hne : pathDir (ofSegs (dstP ++ r)) ≠ ofSegs (dstP ++ r) := by
        rw [hpd]
        intro e
        have h1 := congrArg pathSegs e
        rw [pathSegs_ofSegs _ (ur_names_append hND hNr'), pathSegs_ofSegs _ hNP] at h1
        have h2 := congrArg List.length (List.append_cancel_left h1)
        omega
      -- the parent first
      obtain ⟨fs1, hrec, hreal1, hview1⟩ := ih r.dropLast fs k hr' hNr'
        (by rw [List.length_append] at hdep ⊢; omega) (by omega) hreal hG
        (hfree.mono (List.dropLast_prefix r))
      have hG1 : UrG (urView dstP fs1) :=
        (urG_fill hG (hfree.mono (List.dropLast_prefix r))).congr hview1 (ur_view_root_dir hd hreal1)
      have hv1 : urView dstP fs1 r = none := by
        rw [hview1 r hrne, urFill_dropLast_self hrne]; exact hv
      have hch1 : UrChainP fs1 (dstP ++ r) := by
        apply ur_chainP hd hreal1
        intro q hq hne'
        have hq' : q <+: r.dropLast := (ur_prefix_dropLast_iff q r hrne).mpr ⟨hq, hne'⟩
        by_cases hq0 : q = []
        · rw [hq0]; exact ur_view_root_dir hd hreal1
        · rw [hview1 q hq0]
          exact urFill_prefix_dir (hfree.mono (List.dropLast_prefix r)) q hq'
      have hmk := ur_mkdir_eq hNP hdep (by intro e; exact hd (List.append_eq_nil_iff.mp e).1) hch1
        (by rw [ur_view_lookup hd]; exact hv1) 0o755 nowT
      rw [← hpd] at hrec
      refine ⟨_, ur_mkdirAll_rec hst hne (ur_ofSegs_ne_nil _) hrec hmk, ?_, ?_⟩
      · exact ur_touch_set_real hreal1 _ _ hv1 nowT
      · intro q hq
        rw [ur_applyUmask_755, ur_touch_set_view hG1 hrne _ q hq, urFill_last_none hrne hv]
        by_cases he : q = r
        · rw [he, urSetAt_self, urSetAt_self]
        · rw [urSetAt_ne _ _ he, urSetAt_ne _ _ he]
          exact hview1 q hq

/-! ## `Symlink`, `Create` (+ the `EACCES` retry), `Chmod`, `Chtimes` on the view -/

theorem ur_append_ne_nil {dstP : PPath} (hd : dstP ≠ []) (r : RelPath) : dstP ++ r ≠ [] := by
  intro e; exact hd (List.append_eq_nil_iff.mp e).1

theorem ur_symlink_view {dstP : PPath} (hd : dstP ≠ []) (hND : ∀ x ∈ dstP, NameNS x) {fs : FS}
    {p : RelPath} (hp : p ≠ []) (hNp : ∀ x ∈ p, NameNS x) (hdep : (dstP ++ p).length < resolveFuel)
    (hreal : RealDir fs dstP) (hG : UrG (urView dstP fs)) (hnone : urView dstP fs p = none)
    (hab : ∀ q, q <+: p → q ≠ p → IsDir (urView dstP fs q)) (target : Str) (ht : target ≠ []) :
    ∃ fs', fs.symlink target (ofSegs (dstP ++ p)) nowT = .ok fs' ∧ RealDir fs' dstP ∧
      ∀ q, q ≠ [] → urView dstP fs' q = urSetAt (urView dstP fs) p (.link target) q := by
  have hNP := ur_names_append hND hNp
  refine ⟨_, ur_symlink_eq hNP hdep (ur_append_ne_nil hd p) (ur_chainP hd hreal hab)
    (by rw [ur_view_lookup hd]; exact hnone) target ht nowT, ?_, ?_⟩
  · exact ur_touch_set_real hreal _ _ hnone nowT
  · exact ur_touch_set_view hG hp _

theorem ur_chainP_set {fs : FS} {P : PPath} (h : UrChainP fs P) (n : Node) : UrChainP (fs.set P n) P := by
  intro a ha hne
  have := h a ha hne
  unfold FS.lookup at this ⊢
  by_cases ha0 : a = []
  · simp only [ha0, if_true] at this ⊢; exact this
  · simp only [ha0, if_false] at this ⊢
    rw [get_set_ne fs P a n (fun e => hne e.symm)]; exact this

theorem ur_set_real {dstP : PPath} {fs : FS} (hreal : RealDir fs dstP) (P : PPath) (n : Node)
    (hkeep : IsDir (fs.get P) → IsDir (some n)) : RealDir (fs.set P n) dstP :=
  ur_realDir_mono hreal (ur_set_dirs fs P n hkeep)

theorem urSetAt_twice (G : RelPath → Option Node) (p : RelPath) (n m : Node) :
    urSetAt (urSetAt G p n) p m = urSetAt G p m := by
  funext q
  by_cases h : q = p
  · rw [h, urSetAt_self, urSetAt_self]
  · rw [urSetAt_ne _ _ h, urSetAt_ne _ _ h, urSetAt_ne _ _ h]

/-- `os.Create` with the retry after `Chmod 0600` as `Unpack` performs it -/
def urCreated (fs1 : FS) (path body : Str) (priv : Bool) : FS × Option Errno :=
  match fs1.create path body nowT priv with
  | .error .eacces =>
    match fs1.chmod path 0o600 with
    | .ok fs' =>
      (match fs'.create path body nowT priv with
       | .ok f => (f, none)
       | .error e => (fs', some e))
    | .error _ => (fs1, some .eacces)
  | .error e => (fs1, some e)
  | .ok f => (f, none)

theorem ur_file_not_dir {perm : Nat} {mt : Int} {c : Str} {n : Node} :
    IsDir (some (Node.file perm mt c)) → IsDir (some n) := by
  rintro ⟨a, b, h⟩; cases h

/-- a regular entry on a free name or over an existing file: the file ends up with the entry's
mode, time and content — also when the old file was read-only and the caller is unprivileged -/
theorem ur_regular_view {dstP : PPath} (hd : dstP ≠ []) (hND : ∀ x ∈ dstP, NameNS x) {fs : FS}
    {p : RelPath} (hp : p ≠ []) (hNp : ∀ x ∈ p, NameNS x) (hdep : (dstP ++ p).length < resolveFuel)
    (hreal : RealDir fs dstP) (hG : UrG (urView dstP fs))
    (hkind : urView dstP fs p = none ∨ ∃ perm mt c, urView dstP fs p = some (.file perm mt c))
    (hab : ∀ q, q <+: p → q ≠ p → IsDir (urView dstP fs q)) (body : Str) (priv : Bool) (mode : Nat)
    (mtime : Int) :
    ∃ fs2 fs3 fs4, urCreated fs (ofSegs (dstP ++ p)) body priv = (fs2, none) ∧
      fs2.chmod (ofSegs (dstP ++ p)) mode = .ok fs3 ∧ fs3.chtimes (ofSegs (dstP ++ p)) mtime = .ok fs4 ∧
      RealDir fs4 dstP ∧
      ∀ q, q ≠ [] → urView dstP fs4 q = urSetAt (urView dstP fs) p (.file mode mtime body) q := by
  have hNP := ur_names_append hND hNp
  have hPne := ur_append_ne_nil hd p
  have hch := ur_chainP hd hreal hab
  -- after creation: some permission bits, the time of the run, the new content
  have hcreated : ∃ fs2 perm0, urCreated fs (ofSegs (dstP ++ p)) body priv = (fs2, none) ∧
      RealDir fs2 dstP ∧ UrChainP fs2 (dstP ++ p) ∧ fs2.lookup (dstP ++ p) = some (.file perm0 nowT body) ∧
      ∀ q, q ≠ [] → urView dstP fs2 q = urSetAt (urView dstP fs) p (.file perm0 nowT body) q := by
    rcases hkind with hnone | ⟨perm, mt, c, hfile⟩
    · have hc := ur_create_new hNP hdep hPne hch (by rw [ur_view_lookup hd]; exact hnone) body nowT priv
      refine ⟨_, applyUmask 0o666, ?_, ur_touch_set_real hreal _ _ hnone nowT, ?_, ?_,
        ur_touch_set_view hG hp _⟩
      · unfold urCreated; rw [hc]
      · intro a ha hne
        have := hch a ha hne
        unfold FS.lookup at this ⊢
        by_cases ha0 : a = []
        · simp only [ha0, if_true]; exact ⟨_, _, rfl⟩
        · simp only [ha0, if_false] at this ⊢
          rw [get_set_ne _ _ a _ (fun e => hne e.symm)]
          exact ur_touch_dirs fs _ nowT a this
      · rw [lookup_ne_nil _ _ hPne, get_set_self]
    · have hl : fs.lookup (dstP ++ p) = some (.file perm mt c) := by rw [ur_view_lookup hd]; exact hfile
      have hget : fs.get (dstP ++ p) = some (.file perm mt c) := hfile
      have hc := ur_create_over hNP hdep hch hl body nowT priv
      by_cases hro : (!priv) = true ∧ perm &&& 0o200 = 0
      · -- read-only for an unprivileged caller: `EACCES`, `Chmod 0600`, retry
        rw [if_pos hro] at hc
        have hcm := ur_chmod_file hNP hdep hch hl 0o600
        have hch' := ur_chainP_set hch (.file 0o600 mt c)
        have hl' : (fs.set (dstP ++ p) (.file 0o600 mt c)).lookup (dstP ++ p) = some (.file 0o600 mt c) := by
          rw [lookup_ne_nil _ _ hPne, get_set_self]
        have hc2 := ur_create_over hNP hdep hch' hl' body nowT priv
        have h600 : ¬ ((!priv) = true ∧ 0o600 &&& 0o200 = 0) := by
          intro h; exact absurd h.2 (by decide)
        rw [if_neg h600] at hc2
        refine ⟨(fs.set (dstP ++ p) (.file 0o600 mt c)).set (dstP ++ p) (.file 0o600 nowT body), 0o600, ?_, ?_,
          ur_chainP_set hch' _, ?_, ?_⟩
        · unfold urCreated; rw [hc]; simp only; rw [hcm]; simp only; rw [hc2]
        · apply ur_set_real _ _ _ (by rw [get_set_self]; exact ur_file_not_dir)
          exact ur_set_real hreal _ _ (by rw [hget]; exact ur_file_not_dir)
        · rw [lookup_ne_nil _ _ hPne, get_set_self]
        · intro q _
          rw [ur_set_view, ur_set_view, urSetAt_twice]
      · rw [if_neg hro] at hc
        refine ⟨fs.set (dstP ++ p) (.file perm nowT body), perm, ?_, ?_, ur_chainP_set hch _, ?_, ?_⟩
        · unfold urCreated; rw [hc]
        · exact ur_set_real hreal _ _ (by rw [hget]; exact ur_file_not_dir)
        · rw [lookup_ne_nil _ _ hPne, get_set_self]
        · intro q _
          rw [ur_set_view]
  obtain ⟨fs2, perm0, hcr, hreal2, hch2, hl2, hview2⟩ := hcreated
  have hcm := ur_chmod_file hNP hdep hch2 hl2 mode
  have hl3 : (fs2.set (dstP ++ p) (.file mode nowT body)).lookup (dstP ++ p) = some (.file mode nowT body) := by
    rw [lookup_ne_nil _ _ hPne, get_set_self]
  have hct := ur_chtimes_file hNP hdep (ur_chainP_set hch2 _) hl3 mtime
  have hget2 : fs2.get (dstP ++ p) = some (.file perm0 nowT body) := by
    rw [← lookup_ne_nil _ _ hPne]; exact hl2
  refine ⟨fs2, _, _, hcr, hcm, hct, ?_, ?_⟩
  · apply ur_set_real _ _ _ (by rw [get_set_self]; exact ur_file_not_dir)
    exact ur_set_real hreal2 _ _ (by rw [hget2]; exact ur_file_not_dir)
  · intro q hq
    rw [ur_set_view, ur_set_view, urSetAt_twice]
    by_cases he : q = p
    · rw [he, urSetAt_self, urSetAt_self]
    · rw [urSetAt_ne _ _ he, urSetAt_ne _ _ he, hview2 q hq, urSetAt_ne _ _ he]

/-- restoring a directory's metadata: `Chmod` then `Chtimes` -/
theorem ur_restore_view {dstP : PPath} (hd : dstP ≠ []) (hND : ∀ x ∈ dstP, NameNS x) {fs : FS}
    {p : RelPath} (hNp : ∀ x ∈ p, NameNS x) (hdep : (dstP ++ p).length < resolveFuel)
    (hreal : RealDir fs dstP) (hdir : IsDir (urView dstP fs p))
    (hab : ∀ q, q <+: p → q ≠ p → IsDir (urView dstP fs q)) (mode : Nat) (mtime : Int) :
    ∃ fs1 fs2, fs.chmod (ofSegs (dstP ++ p)) mode = .ok fs1 ∧ fs1.chtimes (ofSegs (dstP ++ p)) mtime = .ok fs2 ∧
      RealDir fs2 dstP ∧ urView dstP fs2 = urSetAt (urView dstP fs) p (.dir mode mtime) := by
  have hNP := ur_names_append hND hNp
  have hPne := ur_append_ne_nil hd p
  have hch := ur_chainP hd hreal hab
  obtain ⟨a, b, hab'⟩ := hdir
  have hl : fs.lookup (dstP ++ p) = some (.dir a b) := by rw [ur_view_lookup hd]; exact hab'
  have hcm := ur_chmod_dir hNP hdep hch hl mode
  have hl1 : (fs.set (dstP ++ p) (.dir mode b)).lookup (dstP ++ p) = some (.dir mode b) := by
    rw [lookup_ne_nil _ _ hPne, get_set_self]
  have hct := ur_chtimes_dir hNP hdep (ur_chainP_set hch _) hl1 mtime
  refine ⟨_, _, hcm, hct, ?_, ?_⟩
  · apply ur_set_real _ _ _ (fun _ => ⟨_, _, rfl⟩)
    exact ur_set_real hreal _ _ (fun _ => ⟨_, _, rfl⟩)
  · rw [ur_set_view, ur_set_view, urSetAt_twice]

/-! ## pure path facts for well-formed names -/

theorem ur_entryRel_names {name : Str} (h : dotdot ∉ splitOn '/' name) : ∀ x ∈ entryRel name, NameNS x := by
  intro x hx
  obtain ⟨h1, h2, h3⟩ := pathSegs_mem name x hx
  refine ⟨⟨h2, h3, ?_⟩, h1⟩
  intro e
  apply h
  rw [← e]
  unfold entryRel pathSegs at hx
  exact (List.mem_filter.mp hx).1

theorem ur_entryPath {dst : Str} (hdst : DstOK dst) {e : Entry} (h : dotdot ∉ splitOn '/' e.name) :
    entryPath dst e = ofSegs (pathSegs dst ++ entryRel e.name) := by
  have key : ∀ nm : Str, pathSegs nm = pathSegs e.name →
      pathJoin dst nm = ofSegs (pathSegs dst ++ entryRel e.name) := by
    intro nm hnm
    rw [pathJoin_abs _ _ hdst.1, hnm]
    have hN := ur_names_append (absClean_segs dst hdst.absClean) (ur_entryRel_names h)
    unfold entryRel at hN ⊢
    rw [cleanSegs_plain true _ (fun x hx => (hN x hx).1)]
  unfold entryPath
  split
  · rename_i r heq
    apply key
    rw [heq]
    unfold pathSegs
    rw [splitOn_cons_sep, List.filter_cons_of_neg (by simp)]
  · exact key _ rfl

theorem ur_pathJoin_name {curP : PPath} (hN : ∀ x ∈ curP, NameNS x) {c : Seg} (hc : NameNS c) :
    pathJoin (ofSegs curP) c = ofSegs (curP ++ [c]) := by
  have hA := absClean_ofSegs curP hN
  apply absClean_ext _ _ (pathJoin_absClean _ _ hA.1)
    (absClean_ofSegs _ (ur_names_append hN (by intro x hx; simp at hx; rw [hx]; exact hc)))
  rw [pathSegs_pathJoin_name _ _ hA hc, pathSegs_ofSegs _ hN,
    pathSegs_ofSegs _ (ur_names_append hN (by intro x hx; simp at hx; rw [hx]; exact hc))]

/-! ## the `Lstat` walk passes over directories and stops at the first missing component -/

theorem ur_lstatWalk {fs : FS} :
    ∀ (comps : List Seg) (curP : PPath), (∀ x ∈ curP, NameNS x) → (∀ c ∈ comps, NameNS c) →
      (curP ++ comps).length < resolveFuel →
      (∀ a, a <+: curP → IsDir (fs.lookup a)) →
      (∀ q, q <+: comps → q ≠ comps → q ≠ [] → fs.lookup (curP ++ q) = none ∨ IsDir (fs.lookup (curP ++ q))) →
      lstatWalk fs (ofSegs curP) comps = true := by
  intro comps
  induction comps with
  | nil => intro curP _ _ _ _ _; simp [lstatWalk]
  | cons c rest ih =>
    intro curP hNc hNs hdep hA hB
    cases rest with
    | nil => simp [lstatWalk]
    | cons c' rest' =>
      have hc : NameNS c := hNs c (by simp)
      have hNc' : ∀ x ∈ curP ++ [c], NameNS x :=
        ur_names_append hNc (by intro x hx; simp at hx; rw [hx]; exact hc)
      rw [lstatWalk_cons2, ur_pathJoin_name hNc hc]
      have hch : UrChainP fs (curP ++ [c]) := fun a ha hne => hA a (prefix_of_lt_concat ha hne)
      have hdep' : (curP ++ [c]).length < resolveFuel := by
        simp only [List.length_append, List.length_cons, List.length_nil] at hdep ⊢; omega
      have hassoc : ∀ q : List Seg, (curP ++ [c]) ++ q = curP ++ c :: q := by intro q; simp
      rcases hB [c] (by simp [List.prefix_cons_iff]) (by simp) (by simp) with hl | ⟨a, b, hl⟩
      · rw [ur_lstat_none hNc' hdep' hch hl]
      · rw [ur_lstat_some hNc' hdep' hch hl]
        simp only
        apply ih (curP ++ [c]) hNc' (fun x hx => hNs x (List.mem_cons_of_mem _ hx))
        · rw [hassoc]; exact hdep
        · intro x hx
          rcases List.prefix_concat_iff.mp hx with e | h
          · rw [e]; exact ⟨a, b, hl⟩
          · exact hA x h
        · intro q hq hne hq0
          rw [hassoc]
          apply hB (c :: q)
          · rw [List.prefix_cons_iff]; exact Or.inr ⟨q, rfl, hq⟩
          · intro e; apply hne; exact (List.cons.inj e).2
          · simp

/-! ## `NewUnpackInfo` accepts a well-formed entry -/

theorem ur_newUnpackInfo {fs : FS} {dst : Str} {e : Entry} (hdst : DstOK dst)
    (hplain : dotdot ∉ splitOn '/' e.name) (hsup : e.supported = true)
    (hdep : (pathSegs dst ++ entryRel e.name).length < resolveFuel)
    (hreal : RealDir fs (pathSegs dst))
    (hfree : UrFree (urView (pathSegs dst) fs) (entryRel e.name).dropLast) :
    newUnpackInfo fs dst e = some (ofSegs (pathSegs dst ++ entryRel e.name)) := by
  have hdc := hdst.absClean
  have hd : pathSegs dst ≠ [] := hdst.segs_ne_nil
  have hND := absClean_segs dst hdc
  have hNr := ur_entryRel_names hplain
  have hNP := ur_names_append hND hNr
  have hpc : AbsClean (ofSegs (pathSegs dst ++ entryRel e.name)) := absClean_ofSegs _ hNP
  have hsegs : pathSegs (ofSegs (pathSegs dst ++ entryRel e.name)) = pathSegs dst ++ entryRel e.name :=
    pathSegs_ofSegs _ hNP
  have hpre : pathSegs dst <+: pathSegs (ofSegs (pathSegs dst ++ entryRel e.name)) := by
    rw [hsegs]; exact List.prefix_append _ _
  have key : ∀ nm : Str, pathJoin dst nm = ofSegs (pathSegs dst ++ entryRel e.name) →
      (if !isWithin (pathClean dst) (pathClean (pathJoin dst nm)) then none
       else match pathRel (pathClean dst) (pathClean (pathJoin dst nm)) with
        | none => none
        | some rel =>
          if !lstatWalk fs dst (splitOn '/' rel) then none
          else if !(e.isDir || e.isSymlink || e.isRegular || e.isTypeX) then none
          else some (pathJoin dst nm)) = some (ofSegs (pathSegs dst ++ entryRel e.name)) := by
    intro nm hnm
    rw [hnm, hdc.2, hpc.2]
    have hw : isWithin dst (ofSegs (pathSegs dst ++ entryRel e.name)) = true :=
      (isWithin_iff dst _ hdc hpc).mpr hpre
    obtain ⟨rel, hrel, _, _, hcase⟩ := pathRel_under dst _ hdc hpc hpre
    have hwalk : lstatWalk fs dst (splitOn '/' rel) = true := by
      rcases hcase with ⟨_, hdot⟩ | ⟨hs, hns⟩
      · rw [hdot]
        have : splitOn '/' dot = [dot] := by decide
        rw [this]; simp [lstatWalk]
      · rw [hsegs] at hs
        have hcomps : splitOn '/' rel = entryRel e.name := (List.append_cancel_left hs).symm
        rw [hcomps]
        have hdeq := absClean_eq_ofSegs dst hdc
        have : lstatWalk fs dst (entryRel e.name) = lstatWalk fs (ofSegs (pathSegs dst)) (entryRel e.name) := by
          rw [← hdeq]
        rw [this]
        apply ur_lstatWalk _ _ hND hNr hdep hreal
        intro q hq hne hq0
        rw [ur_view_lookup hd]
        by_cases hr0 : entryRel e.name = []
        · rw [hr0] at hq hne; exact absurd (List.prefix_nil.mp hq) hne
        · exact hfree q ((ur_prefix_dropLast_iff q _ hr0).mpr ⟨hq, hne⟩)
    have hs : (e.isDir || e.isSymlink || e.isRegular || e.isTypeX) = true := hsup
    simp only [hw, hrel, hwalk, hs, Bool.not_true, Bool.false_eq_true, if_false]
  have hpath := ur_entryPath hdst hplain
  unfold entryPath at hpath
  exact key _ hpath

/-! ## `validSymlink` accepts a good relative target -/

theorem ur_clean_ups (dstP names : List Seg) (hnames : ∀ x ∈ names, Plain x) :
    ∀ (ups : Nat) (B : List Seg), (∀ x ∈ dstP ++ B, Plain x) → ups ≤ B.length →
      dstP <+: cleanSegs true ((dstP ++ B) ++ (List.replicate ups dotdot ++ names)) := by
  intro ups
  induction ups with
  | zero =>
    intro B hB _
    rw [List.replicate_zero, List.nil_append, cleanSegs_names true _ (by
      intro x hx
      rcases List.mem_append.mp hx with h | h
      · exact hB x h
      · exact hnames x h), List.append_assoc]
    exact List.prefix_append _ _
  | succ n ih =>
    intro B hB hle
    have hBne : B ≠ [] := by intro e; rw [e] at hle; simp at hle
    rw [List.replicate_succ, List.cons_append, cleanSegs_names_dotdot _ _ hB,
      List.dropLast_append_of_ne_nil hBne]
    apply ih
    · intro x hx
      rcases List.mem_append.mp hx with h | h
      · exact hB x (List.mem_append_left _ h)
      · exact hB x (List.mem_append_right _ (List.dropLast_subset B h))
    · rw [List.length_dropLast]; omega

theorem ur_validSymlink (cwd : Str) {dst : Str} (hdst : DstOK dst) {r : RelPath} (hr : r ≠ [])
    (hNr : ∀ x ∈ r, NameNS x) {t : Str} (habs : isAbs t = false) {ups : Nat} {names : List Seg}
    (hseg : pathSegs t = List.replicate ups dotdot ++ names) (hnames : ∀ s ∈ names, s ≠ dotdot)
    (hups : ups < r.length) :
    ∃ ln, pathRel dst (ofSegs (pathSegs dst ++ r)) = some ln ∧ validSymlink cwd [] dst ln t = true := by
  have hdc := hdst.absClean
  have hND := absClean_segs dst hdc
  have hNP := ur_names_append hND hNr
  have hpc : AbsClean (ofSegs (pathSegs dst ++ r)) := absClean_ofSegs _ hNP
  have hsegs : pathSegs (ofSegs (pathSegs dst ++ r)) = pathSegs dst ++ r := pathSegs_ofSegs _ hNP
  have hpre : pathSegs dst <+: pathSegs (ofSegs (pathSegs dst ++ r)) := by
    rw [hsegs]; exact List.prefix_append _ _
  obtain ⟨ln, hrel, hlnabs, hjoin, _⟩ := pathRel_under dst _ hdc hpc hpre
  refine ⟨ln, hrel, ?_⟩
  rw [validSymlink_eq cwd dst ln t hdst hlnabs, hjoin]
  simp only [habs, Bool.false_eq_true, if_false]
  have hdir := pathDir_absClean _ hpc
  rw [isWithin_iff dst _ hdc (pathJoin_absClean _ t hdir.1), pathSegs_pathJoin _ t hdir.1,
    pathSegs_pathDir _ hpc, hsegs, List.dropLast_append_of_ne_nil hr, hseg]
  have hnp : ∀ x ∈ names, Plain x := by
    intro x hx
    have hm : x ∈ pathSegs t := by rw [hseg]; exact List.mem_append_right _ hx
    obtain ⟨_, h2, h3⟩ := pathSegs_mem t x hm
    exact ⟨h2, h3, hnames x hx⟩
  apply ur_clean_ups _ _ hnp
  · intro x hx
    rcases List.mem_append.mp hx with h | h
    · exact (hND x h).1
    · exact (hNr x (List.dropLast_subset r h)).1
  · rw [List.length_dropLast]; omega

/-- … and so does the link test of `Unpack`: for a relative target it is `validSymlink` -/
theorem ur_unpackLinkOK (cwd : Str) {dst : Str} (hdst : DstOK dst) {r : RelPath} (hr : r ≠ [])
    (hNr : ∀ x ∈ r, NameNS x) {t : Str} (habs : isAbs t = false) {ups : Nat} {names : List Seg}
    (hseg : pathSegs t = List.replicate ups dotdot ++ names) (hnames : ∀ s ∈ names, s ≠ dotdot)
    (hups : ups < r.length) :
    ∃ ln, pathRel dst (ofSegs (pathSegs dst ++ r)) = some ln ∧ unpackLinkOK cwd [] dst ln t = true := by
  obtain ⟨ln, hrel, hv⟩ := ur_validSymlink cwd hdst hr hNr habs hseg hnames hups
  exact ⟨ln, hrel, by rw [unpackLinkOK_of_rel cwd [] dst ln habs]; exact hv⟩

/-! ## the branches of `unpackEntry` -/

section branches
variable {cwd : Str} {allow : List Str} {priv : Bool} {dst : Str} {st : UState} {e : Entry}
  {body : Str} {be : Bool} {path : Str} {fs1 fs2 : FS}

theorem ur_unpackEntry_link {ln : Str} (hn : e.name ≠ []) (hi : newUnpackInfo st.fs dst e = some path)
    (hm : st.fs.mkdirAll nowT (mkdirAllFuel (pathDir path)) (pathDir path) 0o755 = (fs1, none))
    (hs : e.isSymlink = true) (hrel : pathRel dst path = some ln)
    (hv : unpackLinkOK cwd allow dst ln e.link = true) (hsl : fs1.symlink e.link path nowT = .ok fs2) :
    unpackEntry cwd allow priv dst st e body be = ({ fs := fs2, dirs := st.dirs }, none) := by
  unfold unpackEntry
  rw [if_neg hn]
  simp only [hi, Entry.not_typeX_of_symlink hs, hm, hs, hrel, hv, hsl, if_true, Bool.not_true,
    Bool.false_eq_true, if_false]

theorem ur_unpackEntry_dir (hn : e.name ≠ []) (hi : newUnpackInfo st.fs dst e = some path)
    (hm : st.fs.mkdirAll nowT (mkdirAllFuel (pathDir path)) (pathDir path) 0o755 = (fs1, none))
    (hd : e.isDir = true) (hm2 : fs1.mkdirAll nowT (mkdirAllFuel path) path 0o755 = (fs2, none)) :
    unpackEntry cwd allow priv dst st e body be =
      ({ fs := fs2, dirs := st.dirs ++ [(path, e.mode, e.mtime)] }, none) := by
  unfold unpackEntry
  rw [if_neg hn]
  simp only [hi, Entry.not_typeX_of_dir hd, hm, Entry.not_symlink_of_dir hd, hd, hm2, if_true,
    Bool.false_eq_true, if_false]

/-- an extended header record is skipped before anything is created -/
theorem ur_unpackEntry_typeX (hn : e.name ≠ []) (hi : newUnpackInfo st.fs dst e = some path)
    (hx : e.isTypeX = true) :
    unpackEntry cwd allow priv dst st e body be = (st, none) :=
  unpackEntry_typeX cwd allow priv dst st e body be path hn hx hi

theorem ur_unpackEntry_reg {fs3 fs4 : FS} (hn : e.name ≠ []) (hi : newUnpackInfo st.fs dst e = some path)
    (hm : st.fs.mkdirAll nowT (mkdirAllFuel (pathDir path)) (pathDir path) 0o755 = (fs1, none))
    (hr : e.isRegular = true) (hc : urCreated fs1 path body priv = (fs2, none))
    (h3 : fs2.chmod path e.mode = .ok fs3) (h4 : fs3.chtimes path e.mtime = .ok fs4) :
    unpackEntry cwd allow priv dst st e body false = ({ fs := fs4, dirs := st.dirs }, none) := by
  unfold unpackEntry
  rw [if_neg hn]
  simp only [hi, Entry.not_typeX_of_regular hr, hm, Entry.not_symlink_of_regular hr,
    Entry.not_dir_of_regular hr, hr,
    Bool.not_true, Bool.false_eq_true, if_false]
  split
  · rename_i fs2' v heq
    have h : urCreated fs1 path body priv = (fs2', some v) := heq
    rw [hc] at h; cases h
  · rename_i fs2' heq
    have h : urCreated fs1 path body priv = (fs2', none) := heq
    rw [hc] at h; cases h
    simp only [h3, h4]

end branches

/-! ## fuel of `MkdirAll` -/

theorem ur_splitOn_length (c : Char) (s : Str) : (splitOn c s).length ≤ s.length + 1 := by
  induction s with
  | nil => simp [splitOn]
  | cons x xs ih =>
    by_cases hx : x = c
    · subst hx; rw [splitOn_cons_sep]; simp only [List.length_cons]; omega
    · rw [splitOn_cons_ne c x xs hx]
      have hne := splitOn_ne_nil c xs
      cases hs : splitOn c xs with
      | nil => exact absurd hs hne
      | cons a r =>
        rw [hs] at ih
        simp only [List.headD_cons, List.tail_cons, List.length_cons] at ih ⊢
        omega

theorem ur_fuel_ok {a r : List Seg} (hN : ∀ x ∈ a ++ r, NameNS x) :
    r.length < mkdirAllFuel (ofSegs (a ++ r)) := by
  have h1 : (pathSegs (ofSegs (a ++ r))).length ≤ (ofSegs (a ++ r)).length + 1 := by
    unfold pathSegs
    exact Nat.le_trans (List.length_filter_le _ _) (ur_splitOn_length _ _)
  rw [pathSegs_ofSegs _ hN, List.length_append] at h1
  unfold mkdirAllFuel
  omega

theorem ur_mkdirAll_above {dstP : PPath} {fs : FS} (hreal : RealDir fs dstP) {a : PPath}
    (ha : a <+: dstP) (hN : ∀ x ∈ a, NameNS x) (hlen : a.length < resolveFuel) (fuel perm : Nat) (now : Int) :
    fs.mkdirAll now (fuel + 1) (ofSegs a) perm = (fs, none) := by
  obtain ⟨x, y, hl⟩ := hreal a ha
  have hst : fs.stat (ofSegs a) = .ok (a, .dir x y) := by
    apply ur_stat_some hN hlen _ hl (by intro t h; cases h)
    intro b hb _
    exact hreal b (List.IsPrefix.trans hb ha)
  exact ur_mkdirAll_dir hst _ _ _

/-! ## the simulation relation -/

def urDirRec (dstP : PPath) (d : RelPath × Nat × Int) : Str × Nat × Int :=
  (ofSegs (dstP ++ d.1), d.2.1, d.2.2)

/-- model state `st` and specification state `ust` agree below `dstP` -/
structure UrSim (dstP : PPath) (st : UState) (ust : UntarState) : Prop where
  real : RealDir st.fs dstP
  get : ∀ r, r ≠ [] → urView dstP st.fs r = treeGet ust.tree r
  inv : UrG (treeGet ust.tree)
  dirs : st.dirs = ust.deferred.map (urDirRec dstP)
  defd : ∀ d ∈ ust.deferred, IsDir (treeGet ust.tree d.1)
  defn : ∀ d ∈ ust.deferred, (∀ x ∈ d.1, NameNS x) ∧ (dstP ++ d.1).length < resolveFuel

/-- what well-formedness says about one named entry, read in the tree `t` reached before it -/
structure UrEntryOK (dstP : PPath) (t : Tree) (e : Entry) : Prop where
  plain : dotdot ∉ splitOn '/' e.name
  depth : (dstP ++ entryRel e.name).length < resolveFuel
  xfree : e.isTypeX = true → ∀ q, q ≠ [] → q <+: (entryRel e.name).dropLast →
    treeGet t q = none ∨ IsDir (treeGet t q)
  free : (e.isDir || e.isSymlink || e.isRegular) = true → ∀ q, q ≠ [] → q <+: (entryRel e.name).dropLast →
    treeGet t q = none ∨ IsDir (treeGet t q)
  kind : (e.isDir || e.isSymlink || e.isRegular) = true →
    treeGet t (entryRel e.name) = none ∨ (IsDir (treeGet t (entryRel e.name)) ∧ e.isDir = true) ∨
      ((∃ perm mt c, treeGet t (entryRel e.name) = some (.file perm mt c)) ∧ e.isRegular = true)
  link : e.isSymlink = true → e.link ≠ [] ∧ isAbs e.link = false ∧
    ∃ ups names, pathSegs e.link = List.replicate ups dotdot ++ names ∧ (∀ s ∈ names, s ≠ dotdot) ∧
      ups < (entryRel e.name).length

theorem UrSim.viewG {dstP : PPath} (hd : dstP ≠ []) {st : UState} {ust : UntarState} (h : UrSim dstP st ust) :
    UrG (urView dstP st.fs) := h.inv.congr h.get (ur_view_root_dir hd h.real)

theorem ur_free_transfer {G T : RelPath → Option Node} {r : RelPath} (he : ∀ q, q ≠ [] → G q = T q)
    (hroot : IsDir (G [])) (hf : UrFree T r) : UrFree G r := by
  intro q hq
  by_cases h0 : q = []
  · rw [h0]; exact Or.inr hroot
  · rw [he q h0]; exact hf q hq

theorem urFill_congr {G T : RelPath → Option Node} (r : RelPath) {q : RelPath} (he : G q = T q) :
    urFill G r q = urFill T r q := by
  unfold urFill; rw [he]

theorem urFill_fill {G : RelPath → Option Node} {r' r : RelPath} (h : r' <+: r) :
    urFill (urFill G r') r = urFill G r := by
  funext q
  by_cases hn : G q = none
  · by_cases hq' : q <+: r'
    · have h1 : urFill G r' q = some urStdDir := by unfold urFill; rw [if_pos ⟨hq', hn⟩]
      have h2 : urFill G r q = some urStdDir := by
        unfold urFill; rw [if_pos ⟨List.IsPrefix.trans hq' h, hn⟩]
      rw [urFill_of_bound (by rw [h1]; simp), h1, h2]
    · unfold urFill
      simp [hn, hq']
  · rw [urFill_of_bound (by rw [urFill_of_bound hn]; exact hn), urFill_of_bound hn, urFill_of_bound hn]

theorem ur_untar_some_supported {st st' : UntarState} {e : Entry} (hn : e.name ≠ [])
    (h : untarEntry st e = some st') : e.supported = true := by
  unfold untarEntry at h
  rw [if_neg hn] at h
  unfold Entry.supported
  cases hs : (e.isDir || e.isSymlink || e.isRegular || e.isTypeX) with
  | true => rfl
  | false => rw [hs] at h; simp at h

/-- the directory of the extraction path lies at or above the destination when the entry has at
most one component -/
theorem ur_short_dir {dstP : PPath} {r : RelPath} (h : r.length ≤ 1) : (dstP ++ r).dropLast <+: dstP := by
  cases r with
  | nil => rw [List.append_nil]; exact List.dropLast_prefix _
  | cons c r' =>
    cases r' with
    | nil => rw [List.dropLast_concat]; exact List.prefix_refl _
    | cons c' r'' => simp at h

/-! ## one entry -/

theorem ur_step {dstP : PPath} {cwd dst : Str} {priv : Bool} (hdst : DstOK dst) (hdp : dstP = pathSegs dst)
    {st : UState} {ust : UntarState} {e : Entry} (hsim : UrSim dstP st ust) (hn : e.name ≠ [])
    (hsup : e.supported = true) (hok : UrEntryOK dstP ust.tree e) :
    ∃ st' ust', unpackEntry cwd [] priv dst st e e.body false = (st', none) ∧
      untarEntry ust e = some ust' ∧ UrSim dstP st' ust' := by
  subst hdp
  have hdc := hdst.absClean
  have hd : pathSegs dst ≠ [] := hdst.segs_ne_nil
  have hND := absClean_segs dst hdc
  have hNr := ur_entryRel_names hok.plain
  have hNP := ur_names_append hND hNr
  have hV := hsim.viewG hd
  have hrootV := ur_view_root_dir hd hsim.real
  have hpdl : pathDir (ofSegs (pathSegs dst ++ entryRel e.name)) = ofSegs (pathSegs dst ++ entryRel e.name).dropLast :=
    ps_pathDir_ofSegs _ hNP
  have hNdl : ∀ x ∈ (pathSegs dst ++ entryRel e.name).dropLast, NameNS x := ps_dropLast_names _ hNP
  have hdepdl : (pathSegs dst ++ entryRel e.name).dropLast.length < resolveFuel := by
    have := hok.depth
    rw [List.length_dropLast]; omega
  cases hX : e.isTypeX with
  | true =>
    -- a pax header: accepted (the `Lstat` walk of `NewUnpackInfo` runs for it too), nothing happens
    have hfreeT : UrFree (treeGet ust.tree) (entryRel e.name).dropLast := by
      intro q hq
      by_cases hq0 : q = []
      · rw [hq0]; exact Or.inr hsim.inv.root
      · exact hok.xfree hX q hq0 hq
    have hi := ur_newUnpackInfo (fs := st.fs) hdst hok.plain hsup hok.depth hsim.real
      (ur_free_transfer hsim.get hrootV hfreeT)
    refine ⟨st, ust, ur_unpackEntry_typeX hn hi hX, ur_untar_typeX ust e hn hX, ?_⟩
    exact ⟨hsim.real, hsim.get, hsim.inv, hsim.dirs, hsim.defd, hsim.defn⟩
  | false =>
    have hdsr : (e.isDir || e.isSymlink || e.isRegular) = true := by
      have : (e.isDir || e.isSymlink || e.isRegular || e.isTypeX) = true := hsup
      rw [hX, Bool.or_false] at this
      exact this
    have hfreeT : UrFree (treeGet ust.tree) (entryRel e.name).dropLast := by
      intro q hq
      by_cases hq0 : q = []
      · rw [hq0]; exact Or.inr hsim.inv.root
      · exact hok.free hdsr q hq0 hq
    have hfreeV : UrFree (urView (pathSegs dst) st.fs) (entryRel e.name).dropLast :=
      ur_free_transfer hsim.get hrootV hfreeT
    have hi := ur_newUnpackInfo (fs := st.fs) hdst hok.plain hsup hok.depth hsim.real hfreeV
    by_cases hp0 : entryRel e.name = []
    · -- an entry for the destination itself: it can only be a directory entry
      have hisdir : e.isDir = true := by
        rcases hok.kind hdsr with h | ⟨_, h⟩ | ⟨⟨a, b, c, h⟩, _⟩
        · rw [hp0] at h; exact absurd h (ur_isDir_ne_none hsim.inv.root)
        · exact h
        · rw [hp0] at h
          obtain ⟨x, y, h'⟩ := hsim.inv.root
          rw [h] at h'; cases h'
      have hdepD : (pathSegs dst).length < resolveFuel := by
        have := hok.depth; rw [List.length_append] at this; omega
      have hm : st.fs.mkdirAll nowT (mkdirAllFuel (pathDir (ofSegs (pathSegs dst ++ entryRel e.name))))
          (pathDir (ofSegs (pathSegs dst ++ entryRel e.name))) 0o755 = (st.fs, none) := by
        rw [hpdl]
        exact ur_mkdirAll_above hsim.real (ur_short_dir (by rw [hp0]; simp)) hNdl hdepdl _ _ _
      have hm2 : st.fs.mkdirAll nowT (mkdirAllFuel (ofSegs (pathSegs dst ++ entryRel e.name)))
          (ofSegs (pathSegs dst ++ entryRel e.name)) 0o755 = (st.fs, none) := by
        rw [hp0, List.append_nil]
        exact ur_mkdirAll_above hsim.real (List.prefix_refl _) hND hdepD _ _ _
      refine ⟨_, _, ur_unpackEntry_dir hn hi hm hisdir hm2, ur_untar_root_dir ust e hn hisdir hp0, ?_⟩
      refine ⟨hsim.real, hsim.get, hsim.inv, ?_, ?_, ?_⟩
      · simp only [List.map_append, List.map_cons, List.map_nil, ← hsim.dirs, urDirRec, hp0]
      · intro d hdm
        rcases List.mem_append.mp hdm with h | h
        · exact hsim.defd d h
        · simp only [List.mem_cons, List.not_mem_nil, or_false] at h
          rw [h]; exact hsim.inv.root
      · intro d hdm
        rcases List.mem_append.mp hdm with h | h
        · exact hsim.defn d h
        · simp only [List.mem_cons, List.not_mem_nil, or_false] at h
          rw [h]
          exact ⟨(by intro x hx; cases hx), (by rw [List.append_nil]; exact hdepD)⟩
    · -- a path below the destination: parents first
      have hPdl : (pathSegs dst ++ entryRel e.name).dropLast = pathSegs dst ++ (entryRel e.name).dropLast :=
        List.dropLast_append_of_ne_nil hp0
      have hNrdl : ∀ x ∈ (entryRel e.name).dropLast, NameNS x := ps_dropLast_names _ hNr
      obtain ⟨fs1, hm0, hreal1, hview1⟩ := ur_mkdirAll_view hd hND _ (entryRel e.name).dropLast st.fs
        (mkdirAllFuel (ofSegs (pathSegs dst ++ (entryRel e.name).dropLast))) rfl hNrdl
        (by rw [← hPdl]; exact hdepdl) (ur_fuel_ok (ur_names_append hND hNrdl)) hsim.real hV hfreeV
      have hm : st.fs.mkdirAll nowT (mkdirAllFuel (pathDir (ofSegs (pathSegs dst ++ entryRel e.name))))
          (pathDir (ofSegs (pathSegs dst ++ entryRel e.name))) 0o755 = (fs1, none) := by
        rw [hpdl, hPdl]; exact hm0
      have hG1 : UrG (urView (pathSegs dst) fs1) :=
        (urG_fill hV hfreeV).congr hview1 (ur_view_root_dir hd hreal1)
      have hT1 : UrG (urFill (treeGet ust.tree) (entryRel e.name).dropLast) := urG_fill hsim.inv hfreeT
      -- view of `fs1` against the filled tree
      have hget1 : ∀ q, q ≠ [] → urView (pathSegs dst) fs1 q =
          urFill (treeGet ust.tree) (entryRel e.name).dropLast q := by
        intro q hq
        rw [hview1 q hq]; exact urFill_congr _ (hsim.get q hq)
      have hab1 : ∀ q, q <+: entryRel e.name → q ≠ entryRel e.name → IsDir (urView (pathSegs dst) fs1 q) := by
        intro q hq hne
        by_cases hq0 : q = []
        · rw [hq0]; exact ur_view_root_dir hd hreal1
        · rw [hget1 q hq0]
          exact urFill_prefix_dir hfreeT q ((ur_prefix_dropLast_iff q _ hp0).mpr ⟨hq, hne⟩)
      have hself1 : urView (pathSegs dst) fs1 (entryRel e.name) = treeGet ust.tree (entryRel e.name) := by
        rw [hget1 _ hp0]; exact urFill_dropLast_self hp0
      have hpardir : IsDir (urFill (treeGet ust.tree) (entryRel e.name).dropLast (entryRel e.name).dropLast) :=
        urFill_prefix_dir hfreeT _ (List.prefix_refl _)
      have hkinds : e.isSymlink = true ∨ e.isDir = true ∨ e.isRegular = true := by
        have : (e.isDir || e.isSymlink || e.isRegular || e.isTypeX) = true := hsup
        rw [hX] at this
        cases h1 : e.isSymlink
        · cases h2 : e.isDir
          · rw [h1, h2] at this; simp at this; exact Or.inr (Or.inr this)
          · exact Or.inr (Or.inl rfl)
        · exact Or.inl rfl
      rcases hkinds with hs | hdir | hreg
      · -- symbolic link
        have hnoneT : treeGet ust.tree (entryRel e.name) = none := by
          rcases hok.kind hdsr with h | ⟨_, h⟩ | ⟨_, h⟩
          · exact h
          · rw [Entry.not_dir_of_symlink hs] at h; cases h
          · rw [Entry.not_regular_of_symlink hs] at h; cases h
        obtain ⟨hl1, hl2, ups, names, hl3, hl4, hl5⟩ := hok.link hs
        obtain ⟨ln, hrel, hv⟩ := ur_unpackLinkOK cwd hdst hp0 hNr hl2 hl3 hl4 hl5
        obtain ⟨fs2, hsl, hreal2, hview2⟩ := ur_symlink_view hd hND hp0 hNr hok.depth hreal1 hG1
          (by rw [hself1]; exact hnoneT) hab1 e.link hl1
        obtain ⟨tree', hut, htree'⟩ := ur_untar_link ust e hn hs hp0 hsim.inv hfreeT
        refine ⟨_, _, ur_unpackEntry_link hn hi hm hs hrel hv hsl, hut, ?_⟩
        have hinv' : UrG (treeGet tree') := by
          rw [htree']
          apply urG_set hT1 hp0 hpardir
          · intro h; rw [urFill_dropLast_self hp0, hnoneT] at h; exact absurd rfl (ur_isDir_ne_none h)
          · intro a b h; cases h
        refine ⟨hreal2, ?_, hinv', hsim.dirs, ?_, hsim.defn⟩
        · intro q hq
          show urView (pathSegs dst) fs2 q = treeGet tree' q
          rw [hview2 q hq, htree']
          by_cases he : q = entryRel e.name
          · rw [he, urSetAt_self, urSetAt_self]
          · rw [urSetAt_ne _ _ he, urSetAt_ne _ _ he]; exact hget1 q hq
        · intro d hdm
          have hdd := hsim.defd d hdm
          show IsDir (treeGet tree' d.1)
          rw [htree']
          have hne : d.1 ≠ entryRel e.name := by
            intro e'; rw [e', hnoneT] at hdd; exact ur_isDir_ne_none hdd rfl
          rw [urSetAt_ne _ _ hne]
          exact urFill_isDir_mono hdd
      · -- directory
        have hkindT : treeGet ust.tree (entryRel e.name) = none ∨ IsDir (treeGet ust.tree (entryRel e.name)) := by
          rcases hok.kind hdsr with h | ⟨h, _⟩ | ⟨_, h⟩
          · exact Or.inl h
          · exact Or.inr h
          · rw [Entry.not_dir_of_regular h] at hdir; cases hdir
        have hfreeTp : UrFree (treeGet ust.tree) (entryRel e.name) := by
          intro q hq
          rcases (ur_prefix_iff_last q _ hp0).mp hq with h | h
          · rw [h]; exact hkindT
          · exact hfreeT q h
        have hfree1 : UrFree (urView (pathSegs dst) fs1) (entryRel e.name) := by
          intro q hq
          by_cases he : q = entryRel e.name
          · rw [he, hself1]; exact hkindT
          · exact Or.inr (hab1 q hq he)
        obtain ⟨fs2, hm2, hreal2, hview2⟩ := ur_mkdirAll_view hd hND _ (entryRel e.name) fs1
          (mkdirAllFuel (ofSegs (pathSegs dst ++ entryRel e.name))) rfl hNr hok.depth (ur_fuel_ok hNP)
          hreal1 hG1 hfree1
        obtain ⟨tree', hut, htree'⟩ := ur_untar_dir ust e hn hdir hp0 hsim.inv hfreeT
        refine ⟨_, _, ur_unpackEntry_dir hn hi hm hdir hm2, hut, ?_⟩
        have hinv' : UrG (treeGet tree') := by rw [htree']; exact urG_fill hsim.inv hfreeTp
        refine ⟨hreal2, ?_, hinv', ?_, ?_, ?_⟩
        · intro q hq
          show urView (pathSegs dst) fs2 q = treeGet tree' q
          have hff : urFill (treeGet ust.tree) (entryRel e.name) =
              urFill (urFill (treeGet ust.tree) (entryRel e.name).dropLast) (entryRel e.name) :=
            (urFill_fill (List.dropLast_prefix (entryRel e.name))).symm
          rw [hview2 q hq, htree', hff]
          exact urFill_congr _ (hget1 q hq)
        · simp only [List.map_append, List.map_cons, List.map_nil, ← hsim.dirs, urDirRec]
        · intro d hdm
          show IsDir (treeGet tree' d.1)
          rw [htree']
          rcases List.mem_append.mp hdm with h | h
          · exact urFill_isDir_mono (hsim.defd d h)
          · simp only [List.mem_cons, List.not_mem_nil, or_false] at h
            rw [h]; exact urFill_prefix_dir hfreeTp _ (List.prefix_refl _)
        · intro d hdm
          rcases List.mem_append.mp hdm with h | h
          · exact hsim.defn d h
          · simp only [List.mem_cons, List.not_mem_nil, or_false] at h
            rw [h]; exact ⟨hNr, hok.depth⟩
      · -- regular file
        have hkindT : treeGet ust.tree (entryRel e.name) = none ∨
            ∃ perm mt c, treeGet ust.tree (entryRel e.name) = some (.file perm mt c) := by
          rcases hok.kind hdsr with h | ⟨_, h⟩ | ⟨h, _⟩
          · exact Or.inl h
          · rw [Entry.not_dir_of_regular hreg] at h; cases h
          · exact Or.inr h
        have hnodir : ¬ IsDir (treeGet ust.tree (entryRel e.name)) := by
          rintro ⟨a, b, h⟩
          rcases hkindT with h' | ⟨x, y, z, h'⟩ <;> rw [h] at h' <;> cases h'
        obtain ⟨fs2, fs3, fs4, hc, h3, h4, hreal4, hview4⟩ := ur_regular_view hd hND hp0 hNr hok.depth hreal1 hG1
          (by rw [hself1]; exact hkindT) hab1 e.body priv e.mode e.mtime
        obtain ⟨tree', hut, htree'⟩ := ur_untar_reg ust e hn hreg hp0 hsim.inv hfreeT
        refine ⟨_, _, ur_unpackEntry_reg hn hi hm hreg hc h3 h4, hut, ?_⟩
        have hinv' : UrG (treeGet tree') := by
          rw [htree']
          apply urG_set hT1 hp0 hpardir
          · intro h; rw [urFill_dropLast_self hp0] at h; exact absurd h hnodir
          · intro a b h; cases h
        refine ⟨hreal4, ?_, hinv', hsim.dirs, ?_, hsim.defn⟩
        · intro q hq
          show urView (pathSegs dst) fs4 q = treeGet tree' q
          rw [hview4 q hq, htree']
          by_cases he : q = entryRel e.name
          · rw [he, urSetAt_self, urSetAt_self]
          · rw [urSetAt_ne _ _ he, urSetAt_ne _ _ he]; exact hget1 q hq
        · intro d hdm
          have hdd := hsim.defd d hdm
          show IsDir (treeGet tree' d.1)
          rw [htree']
          have hne : d.1 ≠ entryRel e.name := by
            intro e'; rw [e'] at hdd; exact hnodir hdd
          rw [urSetAt_ne _ _ hne]
          exact urFill_isDir_mono hdd

/-! ## the entry loop -/

/-- the state in which the sequential reading starts -/
def urInit : UntarState := { tree := [([], .dir 0o755 nowT)], deferred := [] }

theorem ur_loop {dstP : PPath} {cwd dst : Str} {priv : Bool} (hdst : DstOK dst) (hdp : dstP = pathSegs dst) :
    ∀ (rest : List Entry) (idx : Nat) (st : UState) (ust ustF : UntarState), UrSim dstP st ust →
      (∀ pre e post ust1, rest = pre ++ e :: post → pre.foldlM untarEntry ust = some ust1 →
        e.name ≠ [] → UrEntryOK dstP ust1.tree e) →
      rest.foldlM untarEntry ust = some ustF →
      ∃ stF, unpackLoop cwd [] priv dst .none idx st rest = (stF, none) ∧ UrSim dstP stF ustF := by
  intro rest
  induction rest with
  | nil =>
    intro idx st ust ustF hsim _ hf
    have : ust = ustF := by
      have h : some ust = some ustF := hf
      cases h; rfl
    subst this
    exact ⟨st, by rw [unpackLoop_nil], hsim⟩
  | cons e rest ih =>
    intro idx st ust ustF hsim hH hf
    rw [List.foldlM_cons] at hf
    cases hu : untarEntry ust e with
    | none => rw [hu] at hf; cases hf
    | some ust' =>
      rw [hu] at hf
      have hf' : rest.foldlM untarEntry ust' = some ustF := hf
      have hH' : ∀ pre e' post ust1, rest = pre ++ e' :: post → pre.foldlM untarEntry ust' = some ust1 →
          e'.name ≠ [] → UrEntryOK dstP ust1.tree e' := by
        intro pre e' post ust1 hsplit hpre hne
        apply hH (e :: pre) e' post ust1 (by rw [hsplit]; rfl) _ hne
        rw [List.foldlM_cons, hu]
        exact hpre
      have hfault : Fault.none ≠ Fault.header idx := by intro h; cases h
      by_cases hn : e.name = []
      · rw [ur_untar_nil_name ust e hn] at hu
        cases hu
        have hstep : unpackEntry cwd [] priv dst st e (faultBody .none idx e).1 (faultBody .none idx e).2 = (st, none) :=
          unpackEntry_nil_name cwd [] priv dst st e _ _ hn
        rw [unpackLoop_cons_none cwd [] priv dst rest hfault hstep]
        exact ih (idx + 1) st ust ustF hsim hH' hf'
      · have hsup := ur_untar_some_supported hn hu
        have hok := hH [] e rest ust rfl rfl hn
        obtain ⟨st', ust'', hstep, hut, hsim'⟩ := ur_step (cwd := cwd) (priv := priv) hdst hdp hsim hn hsup hok
        rw [hu] at hut
        cases hut
        have hstep' : unpackEntry cwd [] priv dst st e (faultBody .none idx e).1 (faultBody .none idx e).2 = (st', none) :=
          hstep
        rw [unpackLoop_cons_none cwd [] priv dst rest hfault hstep']
        exact ih (idx + 1) st' ust' ustF hsim' hH' hf'

/-! ## the deferred directory pass -/

theorem ur_restoreDirs_cons_ok {fs fs1 fs2 : FS} {path : Str} {mode : Nat} {mtime : Int}
    (h1 : fs.chmod path mode = .ok fs1) (h2 : fs1.chtimes path mtime = .ok fs2)
    (rest : List (Str × Nat × Int)) :
    restoreDirs fs ((path, mode, mtime) :: rest) = restoreDirs fs2 rest := by
  rw [restoreDirs]
  simp only [h1, h2, Bool.not_true, Bool.false_eq_true, if_false]

theorem ur_applyDeferred_cons_dir {t : Tree} {p : RelPath} {a : Nat} {b : Int} (h : treeGet t p = some (.dir a b))
    (mode : Nat) (mtime : Int) (rest : List (RelPath × Nat × Int)) :
    applyDeferred t ((p, mode, mtime) :: rest) = applyDeferred (treeSet t p (.dir mode mtime)) rest := by
  rw [applyDeferred]
  simp only [h]

theorem ur_restore {dstP : PPath} (hd : dstP ≠ []) (hND : ∀ x ∈ dstP, NameNS x) :
    ∀ (defs : List (RelPath × Nat × Int)) (fs : FS) (tree : Tree), RealDir fs dstP →
      (∀ r, r ≠ [] → urView dstP fs r = treeGet tree r) → IsDir (treeGet tree []) →
      (∀ d ∈ defs, (∀ x ∈ d.1, NameNS x) ∧ (dstP ++ d.1).length < resolveFuel ∧
        ∀ q, q <+: d.1 → IsDir (treeGet tree q)) →
      ∃ fs', restoreDirs fs (defs.map (urDirRec dstP)) = (fs', none) ∧ RealDir fs' dstP ∧
        (∀ r, r ≠ [] → urView dstP fs' r = treeGet (applyDeferred tree defs) r) ∧
        ((urView dstP fs [] = treeGet tree [] ∨ ∃ d ∈ defs, d.1 = []) →
          urView dstP fs' [] = treeGet (applyDeferred tree defs) []) := by
  intro defs
  induction defs with
  | nil =>
    intro fs tree hreal hget _ _
    refine ⟨fs, by rw [List.map_nil, restoreDirs], hreal, by rw [applyDeferred]; exact hget, ?_⟩
    rintro (h | ⟨d, hd', _⟩)
    · rw [applyDeferred]; exact h
    · cases hd'
  | cons d rest ih =>
    intro fs tree hreal hget hroot hdefs
    obtain ⟨p, mode, mtime⟩ := d
    obtain ⟨hNp, hdep, hdirs⟩ := hdefs (p, mode, mtime) (by simp)
    have hrootV := ur_view_root_dir hd hreal
    have hviewdir : ∀ q, q <+: p → IsDir (urView dstP fs q) := by
      intro q hq
      by_cases h0 : q = []
      · rw [h0]; exact hrootV
      · rw [hget q h0]; exact hdirs q hq
    obtain ⟨fs1, fs2, hcm, hct, hreal2, hview2⟩ := ur_restore_view hd hND hNp hdep hreal
      (hviewdir p (List.prefix_refl _)) (fun q hq _ => hviewdir q hq) mode mtime
    obtain ⟨a, b, hpdir⟩ := hdirs p (List.prefix_refl _)
    have hmono : ∀ q, IsDir (treeGet tree q) → IsDir (treeGet (treeSet tree p (.dir mode mtime)) q) := by
      intro q hq
      rw [ur_treeGet_set]
      by_cases he : q = p
      · rw [he, urSetAt_self]; exact ⟨_, _, rfl⟩
      · rw [urSetAt_ne _ _ he]; exact hq
    obtain ⟨fs', hres, hreal', hget', hroot'⟩ := ih fs2 (treeSet tree p (.dir mode mtime)) hreal2
      (by
        intro r hr
        rw [hview2, ur_treeGet_set]
        by_cases he : r = p
        · rw [he, urSetAt_self, urSetAt_self]
        · rw [urSetAt_ne _ _ he, urSetAt_ne _ _ he]; exact hget r hr)
      (hmono [] hroot)
      (by
        intro d hdm
        obtain ⟨h1, h2, h3⟩ := hdefs d (List.mem_cons_of_mem _ hdm)
        exact ⟨h1, h2, fun q hq => hmono q (h3 q hq)⟩)
    refine ⟨fs', ?_, hreal', ?_, ?_⟩
    · rw [List.map_cons]
      show restoreDirs fs ((ofSegs (dstP ++ p), mode, mtime) :: rest.map (urDirRec dstP)) = (fs', none)
      rw [ur_restoreDirs_cons_ok hcm hct]; exact hres
    · rw [ur_applyDeferred_cons_dir hpdir]; exact hget'
    · intro hor
      rw [ur_applyDeferred_cons_dir hpdir]
      apply hroot'
      rw [hview2, ur_treeGet_set]
      by_cases hp0 : p = []
      · left; rw [hp0, urSetAt_self, urSetAt_self]
      · have hne : ([] : RelPath) ≠ p := fun e => hp0 e.symm
        rw [urSetAt_ne _ _ hne, urSetAt_ne _ _ hne]
        rcases hor with h | ⟨d, hdm, hd0⟩
        · exact Or.inl h
        · right
          rcases List.mem_cons.mp hdm with e | hdm'
          · rw [e] at hd0; exact absurd hd0 hp0
          · exact ⟨d, hdm', hd0⟩

/-! ## the deferred list only grows; an entry for the destination itself is recorded -/

theorem ur_untarEntry_deferred_mono {st st' : UntarState} {e : Entry} (h : untarEntry st e = some st') :
    ∀ d ∈ st.deferred, d ∈ st'.deferred := by
  unfold untarEntry at h
  split at h
  · cases h; exact fun d hd => hd
  · split at h
    · cases h
    · simp only at h
      split at h
      · cases h; exact fun d hd => hd
      · split at h
        · split at h
          · cases h; exact fun d hd => List.mem_append_left _ hd
          · cases h; exact fun d hd => hd
        · split at h
          · cases h; exact fun d hd => hd
          · split at h
            · cases h; exact fun d hd => List.mem_append_left _ hd
            · cases h; exact fun d hd => hd

theorem ur_fold_deferred_root : ∀ (es : List Entry) (st st' : UntarState),
    es.foldlM untarEntry st = some st' →
    ((∃ d ∈ st.deferred, d.1 = []) ∨ ∃ e ∈ es, e.name ≠ [] ∧ entryRel e.name = [] ∧ e.isDir = true) →
    ∃ d ∈ st'.deferred, d.1 = [] := by
  intro es
  induction es with
  | nil =>
    intro st st' hf hor
    have : some st = some st' := hf
    cases this
    rcases hor with h | ⟨e, he, _⟩
    · exact h
    · cases he
  | cons x rest ih =>
    intro st st' hf hor
    rw [List.foldlM_cons] at hf
    cases hu : untarEntry st x with
    | none => rw [hu] at hf; cases hf
    | some st1 =>
      rw [hu] at hf
      apply ih st1 st' hf
      rcases hor with ⟨d, hdm, hd0⟩ | ⟨e, he, hn, hp, hdir⟩
      · exact Or.inl ⟨d, ur_untarEntry_deferred_mono hu d hdm, hd0⟩
      · rcases List.mem_cons.mp he with e' | he'
        · subst e'
          rw [ur_untar_root_dir st e hn hdir hp] at hu
          cases hu
          exact Or.inl ⟨([], e.mode, e.mtime), by simp, rfl⟩
        · exact Or.inr ⟨e, he', hn, hp, hdir⟩

/-! ## `Unpack` against `untar` -/

theorem ur_init_sim {dstP : PPath} {fs : FS} (hreal : RealDir fs dstP)
    (hempty : ∀ q, dstP <+: q → q ≠ dstP → fs.get q = none) :
    UrSim dstP { fs := fs, dirs := [] } urInit := by
  have hnone : ∀ r : RelPath, r ≠ [] → treeGet urInit.tree r = none := by
    intro r hr
    have : ¬ ([] : RelPath) = r := fun e => hr e.symm
    simp [urInit, treeGet, FS.get, this]
  refine ⟨hreal, ?_, ⟨⟨_, _, rfl⟩, ?_, ?_⟩, rfl, ?_, ?_⟩
  · intro r hr
    rw [hnone r hr]
    exact hempty _ (List.prefix_append _ _) (ur_append_ne_self dstP r hr)
  · intro r hr hb; exact absurd (hnone r hr) hb
  · intro r perm mt hr hg; rw [hnone r hr] at hg; cases hg
  · intro d hdm; cases hdm
  · intro d hdm; cases hdm

/-- **`Unpack` materialises the tree `untar` describes** (per-entry well-formedness facts given as
`UrEntryOK` for every split of the archive). -/
theorem ur_unpack_refines {cwd dst : Str} {priv : Bool} {fs : FS} {es : List Entry} {t : Tree}
    (hdst : DstOK dst) (hreal : RealDir fs (pathSegs dst))
    (hempty : ∀ q, pathSegs dst <+: q → q ≠ pathSegs dst → fs.get q = none)
    (hok : ∀ pre e post ust1, es = pre ++ e :: post → pre.foldlM untarEntry urInit = some ust1 →
      e.name ≠ [] → UrEntryOK (pathSegs dst) ust1.tree e)
    (hu : untar es = some t) :
    (unpack cwd [] priv dst .none fs es).2 = .ok ∧
    (∀ r, r ≠ [] → ((unpack cwd [] priv dst .none fs es).1).get (pathSegs dst ++ r) = treeGet t r) ∧
    ((∃ e ∈ es, e.name ≠ [] ∧ entryRel e.name = [] ∧ e.isDir = true) →
      ((unpack cwd [] priv dst .none fs es).1).get (pathSegs dst) = treeGet t []) := by
  have hd : pathSegs dst ≠ [] := hdst.segs_ne_nil
  have hND := absClean_segs dst hdst.absClean
  unfold untar at hu
  cases hf : es.foldlM untarEntry { tree := [([], .dir 0o755 nowT)], deferred := [] } with
  | none => rw [hf] at hu; cases hu
  | some ustF =>
    rw [hf] at hu
    simp only [Option.some.injEq] at hu
    obtain ⟨stF, hloop, hsim⟩ := ur_loop (cwd := cwd) (priv := priv) hdst rfl es 0 { fs := fs, dirs := [] }
      urInit ustF (ur_init_sim hreal hempty) hok hf
    obtain ⟨fs', hres, _, hget', hroot'⟩ := ur_restore hd hND ustF.deferred stF.fs ustF.tree hsim.real hsim.get
      hsim.inv.root (by
        intro d hdm
        obtain ⟨h1, h2⟩ := hsim.defn d hdm
        refine ⟨h1, h2, ?_⟩
        intro q hq
        by_cases he : q = d.1
        · rw [he]; exact hsim.defd d hdm
        · exact hsim.inv.above d.1 (ur_isDir_ne_none (hsim.defd d hdm)) q hq he)
    rw [← hsim.dirs] at hres
    rw [unpack_of_loop_none cwd [] priv dst hloop, hres]
    refine ⟨rfl, ?_, ?_⟩
    · intro r hr
      rw [← hu]
      exact hget' r hr
    · intro hex
      rw [← hu]
      have := hroot' (Or.inr (ur_fold_deferred_root es _ _ hf (Or.inr hex)))
      rw [ur_view_nil] at this
      exact this

/-! ## the depth limit of the filesystem model -/

/-- with at least as many directory components as fuel, resolution runs out of fuel -/
theorem ur_resolve_eloop (fs : FS) :
    ∀ (fuel : Nat) (cur : PPath) (segs : List Seg) (follow : Bool),
      (∀ x ∈ segs, x ≠ dotdot) → fuel ≤ segs.length →
      (∀ a, cur <+: a → a ≠ cur → a <+: cur ++ segs → IsDir (fs.lookup a)) →
      resolve fs fuel cur segs follow = .error .eloop := by
  intro fuel
  induction fuel with
  | zero => intro cur segs follow _ _ _; simp [resolve]
  | succ fuel ih =>
    intro cur segs follow hn hlen hch
    cases segs with
    | nil => simp at hlen
    | cons s rest =>
      rw [resolve]
      have hs : s ≠ dotdot := hn s (by simp)
      rw [if_neg hs]
      simp only
      have hassoc : cur ++ s :: rest = (cur ++ [s]) ++ rest := by simp
      obtain ⟨perm, mt, hl⟩ := hch (cur ++ [s]) (List.prefix_append _ _) (ur_append_ne_self cur [s] (by simp))
        (by rw [hassoc]; exact List.prefix_append _ _)
      rw [hl]
      simp only
      apply ih _ _ _ (fun x hx => hn x (List.mem_cons_of_mem _ hx))
      · simp only [List.length_cons] at hlen; omega
      · intro a h1 h2 h3
        apply hch a (List.IsPrefix.trans (List.prefix_append _ _) h1)
        · intro e
          rw [e] at h1
          have := List.IsPrefix.length_le h1
          simp only [List.length_append, List.length_cons, List.length_nil] at this
          omega
        · rw [hassoc]; exact h3

end Slug
