import SlugModel.Props.C13m
import SlugModel.Props.C18b
/-!
# Lemmas/ReopenSorted — `OpenDir` does not depend on the order of the manifest's rows

`openDir` (Bundle.lean) folds `aset` over the rows of the manifest.  This file gives a closed form:

* whether `openDir` fails depends only on the *set* of rows (`rsOpens`, a conjunction of `List.all`);
* when it succeeds the four tables are `bnInsertAll []` of the lists of parsed entries
  (`rsOpened`), so their keys are pairwise distinct (`rs_opened_keys`);
* `aget (bnInsertAll acc l) k` depends only on the set of members of `l` when `l` binds every key
  to one value (`rs_aget_insertAll_set`).

Hence two manifests with the same rows up to order open to the same finite maps
(`rs_openDir_sameRows`), provided rows with the same parsed key are the same row (`rsDistinctKeys`).
-/
namespace Slug

/-! ## tables: `aget` is `assoc`; tables with distinct keys that agree as maps are permutations -/

theorem rs_aget_eq_assoc {α β : Type} [DecidableEq α] (l : List (α × β)) (k : α) :
    aget l k = assoc l k := by
  induction l with
  | nil => rfl
  | cons e r ih =>
    obtain ⟨a, b⟩ := e
    rw [mo_assoc_cons, ← ih]
    unfold aget
    rw [List.find?_cons]
    by_cases h : a = k <;> simp [h]

theorem rs_nodup_of_keys {α β : Type} : ∀ (l : List (α × β)), (l.map Prod.fst).Nodup → l.Nodup
  | [], _ => List.Pairwise.nil
  | e :: l, h => by
    rw [List.map_cons, List.nodup_cons] at h
    exact List.nodup_cons.mpr
      ⟨fun hm => h.1 (List.mem_map.mpr ⟨e, hm, rfl⟩), rs_nodup_of_keys l h.2⟩

theorem rs_aget_of_mem {α β : Type} [DecidableEq α] (l : List (α × β))
    (h : (l.map Prod.fst).Nodup) (k : α) (v : β) (hm : (k, v) ∈ l) : aget l k = some v := by
  rw [rs_aget_eq_assoc]
  exact mo_assoc_of_mem h (k, v) hm

/-- two tables with pairwise distinct keys that agree as finite maps hold the same rows -/
theorem rs_perm_of_aget_eq {α β : Type} [DecidableEq α] (l l' : List (α × β))
    (h : (l.map Prod.fst).Nodup) (h' : (l'.map Prod.fst).Nodup)
    (he : ∀ k, aget l k = aget l' k) : l.Perm l' := by
  refine (List.perm_ext_iff_of_nodup (rs_nodup_of_keys l h) (rs_nodup_of_keys l' h')).mpr ?_
  rintro ⟨k, v⟩
  constructor
  · intro hm
    apply bn_aget_mem
    rw [← he k]
    exact rs_aget_of_mem l h k v hm
  · intro hm
    apply bn_aget_mem
    rw [he k]
    exact rs_aget_of_mem l' h' k v hm

theorem rs_aset_keys_nodup {α β : Type} [DecidableEq α] (l : List (α × β)) (k : α) (v : β)
    (h : (l.map Prod.fst).Nodup) : ((aset l k v).map Prod.fst).Nodup := by
  unfold aset
  rw [List.map_cons, List.nodup_cons]
  constructor
  · intro hm
    obtain ⟨e, he, hk⟩ := List.mem_map.mp hm
    have h2 := (List.mem_filter.mp he).2
    simp only [ne_eq, decide_not, Bool.not_eq_eq_eq_not, Bool.not_true, decide_eq_false_iff_not] at h2
    exact h2 hk
  · exact List.Nodup.sublist (List.Sublist.map _ List.filter_sublist) h

/-- a table built by insertions has pairwise distinct keys -/
theorem rs_insertAll_keys_nodup {α β : Type} [DecidableEq α] (l : List (α × β)) :
    ∀ acc : List (α × β), (acc.map Prod.fst).Nodup → ((bnInsertAll acc l).map Prod.fst).Nodup := by
  induction l with
  | nil => intro acc h; exact h
  | cons e r ih =>
    intro acc h
    rw [bnInsertAll_cons]
    exact ih _ (rs_aset_keys_nodup acc e.1 e.2 h)

/-- **key lemma.** Inserting a list of entries that binds every key to one value: the resulting
finite map depends only on the set of entries, not on their order or multiplicity. -/
theorem rs_aget_insertAll_set {α β : Type} [DecidableEq α] (l l' : List (α × β))
    (hfun : ∀ k v v', (k, v) ∈ l → (k, v') ∈ l → v = v') (hmem : ∀ x, x ∈ l ↔ x ∈ l')
    (acc : List (α × β)) (k : α) :
    aget (bnInsertAll acc l) k = aget (bnInsertAll acc l') k := by
  by_cases h : ∃ v, (k, v) ∈ l
  · obtain ⟨v, hv⟩ := h
    rw [bn_aget_insertAll_mem l k v acc hv (fun v' hv' => hfun k v' v hv' hv),
      bn_aget_insertAll_mem l' k v acc ((hmem _).mp hv)
        (fun v' hv' => hfun k v' v ((hmem _).mpr hv') hv)]
  · have hno : ∀ e ∈ l, e.1 ≠ k := fun e he e1 => h ⟨e.2, by rw [← e1]; exact he⟩
    rw [bn_aget_insertAll_other l k acc hno,
      bn_aget_insertAll_other l' k acc (fun e he => hno e ((hmem e).mpr he))]

/-- on the members of a list whose image under `f` is duplicate-free, `f` is injective -/
theorem rs_inj_of_nodup_map {α β : Type} (f : α → β) : ∀ (l : List α), (l.map f).Nodup →
    ∀ a ∈ l, ∀ b ∈ l, f a = f b → a = b
  | [], _, a, ha, _, _, _ => by cases ha
  | x :: l, h, a, ha, b, hb, e => by
    rw [List.map_cons, List.nodup_cons] at h
    rcases List.mem_cons.mp ha with rfl | ha' <;> rcases List.mem_cons.mp hb with rfl | hb'
    · rfl
    · exact absurd (List.mem_map.mpr ⟨b, hb', e.symm⟩) h.1
    · exact absurd (List.mem_map.mpr ⟨a, ha', e⟩) h.1
    · exact rs_inj_of_nodup_map f l h.2 a ha' b hb' e

/-! ## closed form of `openPackages` -/

/-- a package row `OpenDir` accepts -/
def rsPkgOk (o : BundleOracle) (p : MPkg) : Bool :=
  validLocalDir p.localDir && (o.parsePkg p.source).isSome

/-- the entries `OpenDir` inserts into `pkgDirs`, in row order -/
def rsDirEntries (o : BundleOracle) (pkgs : List MPkg) : List (Str × Str) :=
  pkgs.filterMap (fun p => (o.parsePkg p.source).map (fun k => (k, p.localDir)))

/-- the entries `OpenDir` inserts into `pkgMeta`, in row order -/
def rsMetaEntries (o : BundleOracle) (pkgs : List MPkg) : List (Str × (Str × Str)) :=
  pkgs.filterMap (fun p =>
    if p.commit ≠ [] then (o.parsePkg p.source).map (fun k => (k, (p.commit, p.msg))) else none)

theorem rs_openPackages_eq (o : BundleOracle) : ∀ (pkgs : List MPkg) (b : Bundle),
    openPackages o pkgs b =
      if pkgs.all (rsPkgOk o) then
        some { root := b.root, pkgDirs := bnInsertAll b.pkgDirs (rsDirEntries o pkgs),
               pkgMeta := bnInsertAll b.pkgMeta (rsMetaEntries o pkgs),
               regSources := b.regSources, regDeprec := b.regDeprec }
      else none
  | [], b => rfl
  | p :: rest, b => by
    rw [bn_openPackages_cons, List.all_cons]
    by_cases hv : validLocalDir p.localDir = true
    · cases hk : o.parsePkg p.source with
      | none => simp [rsPkgOk, hv, hk]
      | some key =>
        have hok : rsPkgOk o p = true := by simp [rsPkgOk, hv, hk]
        have e1 : rsDirEntries o (p :: rest) = (key, p.localDir) :: rsDirEntries o rest := by
          simp [rsDirEntries, hk]
        simp only [hv, Bool.not_true, Bool.false_eq_true, if_false, hok, Bool.true_and]
        by_cases hc : p.commit = []
        · have e2 : rsMetaEntries o (p :: rest) = rsMetaEntries o rest := by
            simp [rsMetaEntries, hc]
          simp only [hc, ne_eq, not_true_eq_false, if_false]
          rw [rs_openPackages_eq o rest, e1, e2, bnInsertAll_cons]
        · have e2 : rsMetaEntries o (p :: rest) =
              (key, (p.commit, p.msg)) :: rsMetaEntries o rest := by
            simp [rsMetaEntries, hc, hk]
          simp only [hc, ne_eq, not_false_eq_true, if_true]
          rw [rs_openPackages_eq o rest, e1, e2, bnInsertAll_cons, bnInsertAll_cons]
    · have hv' : validLocalDir p.localDir = false := by
        cases h : validLocalDir p.localDir with
        | false => rfl
        | true => exact absurd h hv
      simp [rsPkgOk, hv']

/-! ## closed form of `openVersions` and `openRegistry` -/

/-- a version row `OpenDir` accepts -/
def rsVerOk (o : BundleOracle) (v : MVer) : Bool :=
  (o.parseVer v.ver).isSome && (o.parseRemoteSrc v.source).isSome

/-- the entries one registry row (parsed key `reg`) inserts into `regSources` -/
def rsSrcEntries (o : BundleOracle) (reg : Str) (vs : List MVer) :
    List ((Str × Str) × (Str × Str)) :=
  vs.filterMap (fun v => (o.parseVer v.ver).bind (fun vk =>
    (o.parseRemoteSrc v.source).map (fun s => ((reg, vk), s))))

/-- the entries one registry row inserts into `regDeprec` -/
def rsDepEntries (o : BundleOracle) (reg : Str) (vs : List MVer) :
    List ((Str × Str) × Option (Str × Str)) :=
  vs.filterMap (fun v => (o.parseVer v.ver).map (fun vk => ((reg, vk), bnVerDeprec v)))

theorem rs_openVersions_eq (o : BundleOracle) (reg : Str) : ∀ (vs : List MVer) (b : Bundle),
    openVersions o reg vs b =
      if vs.all (rsVerOk o) then
        some { root := b.root, pkgDirs := b.pkgDirs, pkgMeta := b.pkgMeta,
               regSources := bnInsertAll b.regSources (rsSrcEntries o reg vs),
               regDeprec := bnInsertAll b.regDeprec (rsDepEntries o reg vs) }
      else none
  | [], b => rfl
  | v :: rest, b => by
    rw [bn_openVersions_cons, List.all_cons]
    cases hv : o.parseVer v.ver with
    | none => simp [rsVerOk, hv]
    | some vk =>
      cases hs : o.parseRemoteSrc v.source with
      | none => simp [rsVerOk, hv, hs]
      | some src =>
        have hok : rsVerOk o v = true := by simp [rsVerOk, hv, hs]
        have e1 : rsSrcEntries o reg (v :: rest) = ((reg, vk), src) :: rsSrcEntries o reg rest := by
          simp [rsSrcEntries, hv, hs]
        have e2 : rsDepEntries o reg (v :: rest) =
            ((reg, vk), bnVerDeprec v) :: rsDepEntries o reg rest := by
          simp [rsDepEntries, hv]
        simp only [hok, Bool.true_and]
        rw [rs_openVersions_eq o reg rest, e1, e2, bnInsertAll_cons, bnInsertAll_cons]
        rfl

/-- a registry row `OpenDir` accepts -/
def rsRegOk (o : BundleOracle) (r : MReg) : Bool :=
  (o.parseRegPkg r.source).isSome && r.versions.all (rsVerOk o)

/-- the entries the registry rows insert into `regSources`, in row order -/
def rsRegSrcEntries (o : BundleOracle) (rs : List MReg) : List ((Str × Str) × (Str × Str)) :=
  rs.flatMap (fun r =>
    match o.parseRegPkg r.source with
    | none => []
    | some rk => rsSrcEntries o rk r.versions)

/-- the entries the registry rows insert into `regDeprec`, in row order -/
def rsRegDepEntries (o : BundleOracle) (rs : List MReg) :
    List ((Str × Str) × Option (Str × Str)) :=
  rs.flatMap (fun r =>
    match o.parseRegPkg r.source with
    | none => []
    | some rk => rsDepEntries o rk r.versions)

theorem rs_openRegistry_eq (o : BundleOracle) : ∀ (rs : List MReg) (b : Bundle),
    openRegistry o rs b =
      if rs.all (rsRegOk o) then
        some { root := b.root, pkgDirs := b.pkgDirs, pkgMeta := b.pkgMeta,
               regSources := bnInsertAll b.regSources (rsRegSrcEntries o rs),
               regDeprec := bnInsertAll b.regDeprec (rsRegDepEntries o rs) }
      else none
  | [], b => rfl
  | r :: rest, b => by
    rw [bn_openRegistry_cons, List.all_cons]
    cases hk : o.parseRegPkg r.source with
    | none => simp [rsRegOk, hk]
    | some rk =>
      have e1 : rsRegSrcEntries o (r :: rest) = rsSrcEntries o rk r.versions ++ rsRegSrcEntries o rest := by
        simp [rsRegSrcEntries, hk]
      have e2 : rsRegDepEntries o (r :: rest) = rsDepEntries o rk r.versions ++ rsRegDepEntries o rest := by
        simp [rsRegDepEntries, hk]
      simp only [rs_openVersions_eq o rk r.versions b]
      by_cases hvs : r.versions.all (rsVerOk o) = true
      · have hok : rsRegOk o r = true := by simp [rsRegOk, hk, hvs]
        simp only [hvs, if_true, hok, Bool.true_and]
        rw [rs_openRegistry_eq o rest, e1, e2, bnInsertAll_append, bnInsertAll_append]
      · have hok : rsRegOk o r = false := by simp [rsRegOk, hk, hvs]
        simp [hvs, hok]

/-! ## closed form of `openDir` -/

/-- whether `OpenDir` accepts the manifest: a statement about the set of rows -/
def rsOpens (o : BundleOracle) (m : Manifest) : Bool :=
  decide (m.format = 1) && m.packages.all (rsPkgOk o) && m.registry.all (rsRegOk o)

/-- the bundle `OpenDir` builds from an accepted manifest -/
def rsOpened (o : BundleOracle) (root : Str) (m : Manifest) : Bundle :=
  { root := root,
    pkgDirs := bnInsertAll [] (rsDirEntries o m.packages),
    pkgMeta := bnInsertAll [] (rsMetaEntries o m.packages),
    regSources := bnInsertAll [] (rsRegSrcEntries o m.registry),
    regDeprec := bnInsertAll [] (rsRegDepEntries o m.registry) }

theorem rs_openDir_eq (o : BundleOracle) (root : Str) (m : Manifest) :
    openDir o root m = if rsOpens o m then some (rsOpened o root m) else none := by
  unfold openDir rsOpens
  by_cases hf : m.format = 1
  · simp only [hf, ne_eq, not_true_eq_false, if_false, decide_true, Bool.true_and]
    rw [rs_openPackages_eq]
    by_cases hp : m.packages.all (rsPkgOk o) = true
    · simp only [hp, if_true, Bool.true_and]
      rw [rs_openRegistry_eq]
      rfl
    · simp [hp]
  · simp [hf]

theorem rs_openDir_none (o : BundleOracle) (root : Str) (m : Manifest) :
    openDir o root m = none ↔ rsOpens o m = false := by
  rw [rs_openDir_eq]
  cases rsOpens o m <;> simp

theorem rs_openDir_some (o : BundleOracle) (root : Str) (m : Manifest) (b : Bundle)
    (h : openDir o root m = some b) : rsOpens o m = true ∧ b = rsOpened o root m := by
  rw [rs_openDir_eq] at h
  cases ho : rsOpens o m with
  | false => rw [ho] at h; cases h
  | true =>
    rw [ho] at h
    simp only [if_true, Option.some.injEq] at h
    exact ⟨rfl, h.symm⟩

/-- every table of an opened bundle has pairwise distinct keys (they are Go maps) -/
theorem rs_opened_keys (o : BundleOracle) (root : Str) (m : Manifest) :
    ((rsOpened o root m).pkgDirs.map Prod.fst).Nodup ∧
    ((rsOpened o root m).pkgMeta.map Prod.fst).Nodup ∧
    ((rsOpened o root m).regSources.map Prod.fst).Nodup ∧
    ((rsOpened o root m).regDeprec.map Prod.fst).Nodup :=
  ⟨rs_insertAll_keys_nodup _ _ List.nodup_nil, rs_insertAll_keys_nodup _ _ List.nodup_nil,
    rs_insertAll_keys_nodup _ _ List.nodup_nil, rs_insertAll_keys_nodup _ _ List.nodup_nil⟩

/-! ## the inserted entries, as sets -/

/-- the version rows with the (unparsed) source of their registry row -/
def rsFlat (rs : List MReg) : List (Str × MVer) :=
  rs.flatMap (fun r => r.versions.map (fun v => (r.source, v)))

theorem rs_mem_flat (rs : List MReg) (y : Str × MVer) :
    y ∈ rsFlat rs ↔ ∃ r ∈ rs, r.source = y.1 ∧ y.2 ∈ r.versions := by
  unfold rsFlat
  rw [List.mem_flatMap]
  constructor
  · rintro ⟨r, hr, hy⟩
    obtain ⟨v, hv, rfl⟩ := List.mem_map.mp hy
    exact ⟨r, hr, rfl, hv⟩
  · rintro ⟨r, hr, h1, h2⟩
    exact ⟨r, hr, List.mem_map.mpr ⟨y.2, h2, by rw [h1]⟩⟩

theorem rs_mem_dirEntries (o : BundleOracle) (pkgs : List MPkg) (x : Str × Str) :
    x ∈ rsDirEntries o pkgs ↔ ∃ p ∈ pkgs, o.parsePkg p.source = some x.1 ∧ p.localDir = x.2 := by
  unfold rsDirEntries
  rw [List.mem_filterMap]
  constructor
  · rintro ⟨p, hp, h⟩
    cases hk : o.parsePkg p.source with
    | none => rw [hk] at h; cases h
    | some k =>
      rw [hk] at h
      simp only [Option.map_some, Option.some.injEq] at h
      subst h
      exact ⟨p, hp, hk, rfl⟩
  · rintro ⟨p, hp, h1, h2⟩
    refine ⟨p, hp, ?_⟩
    rw [h1, h2]
    rfl

theorem rs_mem_metaEntries (o : BundleOracle) (pkgs : List MPkg) (x : Str × (Str × Str)) :
    x ∈ rsMetaEntries o pkgs ↔
      ∃ p ∈ pkgs, p.commit ≠ [] ∧ o.parsePkg p.source = some x.1 ∧ (p.commit, p.msg) = x.2 := by
  unfold rsMetaEntries
  rw [List.mem_filterMap]
  constructor
  · rintro ⟨p, hp, h⟩
    by_cases hc : p.commit = []
    · simp [hc] at h
    · rw [if_pos hc] at h
      cases hk : o.parsePkg p.source with
      | none => rw [hk] at h; cases h
      | some k =>
        rw [hk] at h
        simp only [Option.map_some, Option.some.injEq] at h
        subst h
        exact ⟨p, hp, hc, hk, rfl⟩
  · rintro ⟨p, hp, hc, h1, h2⟩
    refine ⟨p, hp, ?_⟩
    rw [if_pos hc, h1, h2]
    rfl

theorem rs_mem_srcEntries (o : BundleOracle) (reg : Str) (vs : List MVer)
    (x : (Str × Str) × (Str × Str)) :
    x ∈ rsSrcEntries o reg vs ↔ ∃ v ∈ vs, ∃ vk, o.parseVer v.ver = some vk ∧
      o.parseRemoteSrc v.source = some x.2 ∧ x.1 = (reg, vk) := by
  unfold rsSrcEntries
  rw [List.mem_filterMap]
  constructor
  · rintro ⟨v, hv, h⟩
    cases hk : o.parseVer v.ver with
    | none => rw [hk] at h; cases h
    | some vk =>
      cases hs : o.parseRemoteSrc v.source with
      | none => rw [hk, hs] at h; cases h
      | some s =>
        rw [hk, hs] at h
        simp only [Option.bind_some, Option.map_some, Option.some.injEq] at h
        subst h
        exact ⟨v, hv, vk, hk, hs, rfl⟩
  · rintro ⟨v, hv, vk, h1, h2, h3⟩
    refine ⟨v, hv, ?_⟩
    rw [h1, h2]
    show some ((reg, vk), x.2) = some x
    rw [← h3]

theorem rs_mem_depEntries (o : BundleOracle) (reg : Str) (vs : List MVer)
    (x : (Str × Str) × Option (Str × Str)) :
    x ∈ rsDepEntries o reg vs ↔ ∃ v ∈ vs, ∃ vk, o.parseVer v.ver = some vk ∧
      bnVerDeprec v = x.2 ∧ x.1 = (reg, vk) := by
  unfold rsDepEntries
  rw [List.mem_filterMap]
  constructor
  · rintro ⟨v, hv, h⟩
    cases hk : o.parseVer v.ver with
    | none => rw [hk] at h; cases h
    | some vk =>
      rw [hk] at h
      simp only [Option.map_some, Option.some.injEq] at h
      subst h
      exact ⟨v, hv, vk, hk, rfl, rfl⟩
  · rintro ⟨v, hv, vk, h1, h2, h3⟩
    refine ⟨v, hv, ?_⟩
    rw [h1, h2]
    show some ((reg, vk), x.2) = some x
    rw [← h3]

theorem rs_mem_regSrcEntries (o : BundleOracle) (rs : List MReg) (x : (Str × Str) × (Str × Str)) :
    x ∈ rsRegSrcEntries o rs ↔ ∃ y ∈ rsFlat rs, ∃ rk vk, o.parseRegPkg y.1 = some rk ∧
      o.parseVer y.2.ver = some vk ∧ o.parseRemoteSrc y.2.source = some x.2 ∧ x.1 = (rk, vk) := by
  unfold rsRegSrcEntries
  rw [List.mem_flatMap]
  constructor
  · rintro ⟨r, hr, h⟩
    cases hk : o.parseRegPkg r.source with
    | none => rw [hk] at h; cases h
    | some rk =>
      rw [hk] at h
      obtain ⟨v, hv, vk, h1, h2, h3⟩ := (rs_mem_srcEntries o rk r.versions x).mp h
      exact ⟨(r.source, v), (rs_mem_flat rs _).mpr ⟨r, hr, rfl, hv⟩, rk, vk, hk, h1, h2, h3⟩
  · rintro ⟨y, hy, rk, vk, h0, h1, h2, h3⟩
    obtain ⟨r, hr, e1, e2⟩ := (rs_mem_flat rs y).mp hy
    refine ⟨r, hr, ?_⟩
    rw [e1, h0]
    exact (rs_mem_srcEntries o rk r.versions x).mpr ⟨y.2, e2, vk, h1, h2, h3⟩

theorem rs_mem_regDepEntries (o : BundleOracle) (rs : List MReg)
    (x : (Str × Str) × Option (Str × Str)) :
    x ∈ rsRegDepEntries o rs ↔ ∃ y ∈ rsFlat rs, ∃ rk vk, o.parseRegPkg y.1 = some rk ∧
      o.parseVer y.2.ver = some vk ∧ bnVerDeprec y.2 = x.2 ∧ x.1 = (rk, vk) := by
  unfold rsRegDepEntries
  rw [List.mem_flatMap]
  constructor
  · rintro ⟨r, hr, h⟩
    cases hk : o.parseRegPkg r.source with
    | none => rw [hk] at h; cases h
    | some rk =>
      rw [hk] at h
      obtain ⟨v, hv, vk, h1, h2, h3⟩ := (rs_mem_depEntries o rk r.versions x).mp h
      exact ⟨(r.source, v), (rs_mem_flat rs _).mpr ⟨r, hr, rfl, hv⟩, rk, vk, hk, h1, h2, h3⟩
  · rintro ⟨y, hy, rk, vk, h0, h1, h2, h3⟩
    obtain ⟨r, hr, e1, e2⟩ := (rs_mem_flat rs y).mp hy
    refine ⟨r, hr, ?_⟩
    rw [e1, h0]
    exact (rs_mem_depEntries o rk r.versions x).mpr ⟨y.2, e2, vk, h1, h2, h3⟩

/-- acceptance of the registry rows, in terms of the set of sources and the set of version rows -/
theorem rs_all_regOk (o : BundleOracle) (rs : List MReg) :
    rs.all (rsRegOk o) = true ↔
      (∀ s ∈ rs.map (·.source), (o.parseRegPkg s).isSome = true) ∧
      (∀ y ∈ rsFlat rs, rsVerOk o y.2 = true) := by
  rw [List.all_eq_true]
  constructor
  · intro h
    constructor
    · intro s hs
      obtain ⟨r, hr, rfl⟩ := List.mem_map.mp hs
      have := h r hr
      simp only [rsRegOk, Bool.and_eq_true] at this
      exact this.1
    · intro y hy
      obtain ⟨r, hr, _, e2⟩ := (rs_mem_flat rs y).mp hy
      have := h r hr
      simp only [rsRegOk, Bool.and_eq_true, List.all_eq_true] at this
      exact this.2 y.2 e2
  · rintro ⟨h1, h2⟩ r hr
    simp only [rsRegOk, Bool.and_eq_true, List.all_eq_true]
    exact ⟨h1 r.source (List.mem_map.mpr ⟨r, hr, rfl⟩),
      fun v hv => h2 (r.source, v) ((rs_mem_flat rs _).mpr ⟨r, hr, rfl, hv⟩)⟩

/-! ## manifests with the same rows -/

/-- the same rows as sets: the same format, the same package rows, the same registry sources, and
the same version rows under each source -/
structure rsSameRows (m m' : Manifest) : Prop where
  format : m.format = m'.format
  pkgs : ∀ p, p ∈ m.packages ↔ p ∈ m'.packages
  srcs : ∀ s, s ∈ m.registry.map (·.source) ↔ s ∈ m'.registry.map (·.source)
  vers : ∀ y, y ∈ rsFlat m.registry ↔ y ∈ rsFlat m'.registry

/-- rows with the same parsed key are the same row: the package rows have pairwise distinct
package keys, the registry rows pairwise distinct registry packages, the version rows of one
registry row pairwise distinct versions (keys as `OpenDir` parses them) -/
structure rsDistinctKeys (o : BundleOracle) (m : Manifest) : Prop where
  pkgs : ∀ p ∈ m.packages, ∀ q ∈ m.packages, o.parsePkg p.source = o.parsePkg q.source → p = q
  regs : ∀ r ∈ m.registry, ∀ r' ∈ m.registry,
    o.parseRegPkg r.source = o.parseRegPkg r'.source → r = r'
  vers : ∀ r ∈ m.registry, ∀ v ∈ r.versions, ∀ v' ∈ r.versions,
    o.parseVer v.ver = o.parseVer v'.ver → v = v'

/-- the relation `C13_manifestSorted_rows` establishes between the written manifest and
`manifestOf`: the same format, the package rows a permutation, the registry rows' sources a
permutation, the version rows of every registry row a permutation of those of a row with the same
source -/
structure rsManifestEquiv (m m' : Manifest) : Prop where
  format : m.format = m'.format
  packages : m.packages.Perm m'.packages
  sources : (m.registry.map (·.source)).Perm (m'.registry.map (·.source))
  versions : ∀ row ∈ m.registry, ∃ row' ∈ m'.registry,
    row'.source = row.source ∧ row.versions.Perm row'.versions

/-- the Nodup form of the distinct-keys hypothesis -/
theorem rs_distinctKeys_of_nodup (o : BundleOracle) (m : Manifest)
    (h1 : (m.packages.map (fun p => o.parsePkg p.source)).Nodup)
    (h2 : (m.registry.map (fun r => o.parseRegPkg r.source)).Nodup)
    (h3 : ∀ r ∈ m.registry, (r.versions.map (fun v => o.parseVer v.ver)).Nodup) :
    rsDistinctKeys o m :=
  ⟨rs_inj_of_nodup_map _ _ h1, rs_inj_of_nodup_map _ _ h2,
    fun r hr => rs_inj_of_nodup_map _ _ (h3 r hr)⟩

theorem rs_sameRows_of_equiv (o : BundleOracle) (m m' : Manifest) (he : rsManifestEquiv m m')
    (hk : rsDistinctKeys o m') : rsSameRows m m' := by
  refine ⟨he.format, fun p => he.packages.mem_iff, fun s => he.sources.mem_iff, fun y => ?_⟩
  rw [rs_mem_flat, rs_mem_flat]
  constructor
  · rintro ⟨r, hr, e1, e2⟩
    obtain ⟨r', hr', g1, g2⟩ := he.versions r hr
    exact ⟨r', hr', g1.trans e1, g2.mem_iff.mp e2⟩
  · rintro ⟨r', hr', e1, e2⟩
    have hs : y.1 ∈ m.registry.map (·.source) :=
      he.sources.mem_iff.mpr (List.mem_map.mpr ⟨r', hr', e1⟩)
    obtain ⟨r, hr, e3⟩ := List.mem_map.mp hs
    obtain ⟨r'', hr'', g1, g2⟩ := he.versions r hr
    have : r'' = r' := hk.regs r'' hr'' r' hr' (by rw [g1, e3, e1])
    rw [this] at g2
    exact ⟨r, hr, e3, g2.mem_iff.mpr e2⟩

/-! ## the inserted entries bind every key once -/

theorem rs_dirEntries_fun (o : BundleOracle) (m : Manifest) (hk : rsDistinctKeys o m) :
    ∀ k v v', (k, v) ∈ rsDirEntries o m.packages → (k, v') ∈ rsDirEntries o m.packages → v = v' := by
  intro k v v' h1 h2
  obtain ⟨p, hp, e1, e2⟩ := (rs_mem_dirEntries o _ _).mp h1
  obtain ⟨q, hq, f1, f2⟩ := (rs_mem_dirEntries o _ _).mp h2
  have : p = q := hk.pkgs p hp q hq (e1.trans f1.symm)
  subst this
  exact e2.symm.trans f2

theorem rs_metaEntries_fun (o : BundleOracle) (m : Manifest) (hk : rsDistinctKeys o m) :
    ∀ k v v', (k, v) ∈ rsMetaEntries o m.packages → (k, v') ∈ rsMetaEntries o m.packages → v = v' := by
  intro k v v' h1 h2
  obtain ⟨p, hp, _, e1, e2⟩ := (rs_mem_metaEntries o _ _).mp h1
  obtain ⟨q, hq, _, f1, f2⟩ := (rs_mem_metaEntries o _ _).mp h2
  have : p = q := hk.pkgs p hp q hq (e1.trans f1.symm)
  subst this
  exact e2.symm.trans f2

/-- two version rows of the manifest with the same parsed (registry package, version) key are the
same row -/
theorem rs_flat_inj (o : BundleOracle) (m : Manifest) (hk : rsDistinctKeys o m)
    (y y' : Str × MVer) (hy : y ∈ rsFlat m.registry) (hy' : y' ∈ rsFlat m.registry)
    (rk vk : Str) (h1 : o.parseRegPkg y.1 = some rk) (h1' : o.parseRegPkg y'.1 = some rk)
    (h2 : o.parseVer y.2.ver = some vk) (h2' : o.parseVer y'.2.ver = some vk) : y.2 = y'.2 := by
  obtain ⟨r, hr, e1, e2⟩ := (rs_mem_flat _ y).mp hy
  obtain ⟨r', hr', f1, f2⟩ := (rs_mem_flat _ y').mp hy'
  have : r = r' := hk.regs r hr r' hr' (by rw [e1, f1, h1, h1'])
  rw [← this] at f2
  exact hk.vers r hr y.2 e2 y'.2 f2 (h2.trans h2'.symm)

theorem rs_regSrcEntries_fun (o : BundleOracle) (m : Manifest) (hk : rsDistinctKeys o m) :
    ∀ k v v', (k, v) ∈ rsRegSrcEntries o m.registry → (k, v') ∈ rsRegSrcEntries o m.registry →
      v = v' := by
  intro k v v' h1 h2
  obtain ⟨y, hy, rk, vk, a1, a2, a3, a4⟩ := (rs_mem_regSrcEntries o _ _).mp h1
  obtain ⟨y', hy', rk', vk', b1, b2, b3, b4⟩ := (rs_mem_regSrcEntries o _ _).mp h2
  simp only at a3 a4 b3 b4
  rw [a4] at b4
  simp only [Prod.mk.injEq] at b4
  rw [← b4.1] at b1
  rw [← b4.2] at b2
  have := rs_flat_inj o m hk y y' hy hy' rk vk a1 b1 a2 b2
  rw [this, b3] at a3
  exact (Option.some.inj a3).symm

theorem rs_regDepEntries_fun (o : BundleOracle) (m : Manifest) (hk : rsDistinctKeys o m) :
    ∀ k v v', (k, v) ∈ rsRegDepEntries o m.registry → (k, v') ∈ rsRegDepEntries o m.registry →
      v = v' := by
  intro k v v' h1 h2
  obtain ⟨y, hy, rk, vk, a1, a2, a3, a4⟩ := (rs_mem_regDepEntries o _ _).mp h1
  obtain ⟨y', hy', rk', vk', b1, b2, b3, b4⟩ := (rs_mem_regDepEntries o _ _).mp h2
  simp only at a3 a4 b3 b4
  rw [a4] at b4
  simp only [Prod.mk.injEq] at b4
  rw [← b4.1] at b1
  rw [← b4.2] at b2
  have := rs_flat_inj o m hk y y' hy hy' rk vk a1 b1 a2 b2
  rw [this, b3] at a3
  exact a3.symm

/-! ## the result -/

theorem rs_opens_sameRows (o : BundleOracle) (m m' : Manifest) (hs : rsSameRows m m') :
    rsOpens o m = rsOpens o m' := by
  have key : ∀ a a' : Manifest, rsSameRows a a' → rsOpens o a = true → rsOpens o a' = true := by
    intro a a' h ha
    simp only [rsOpens, Bool.and_eq_true, decide_eq_true_eq] at ha ⊢
    obtain ⟨⟨h1, h2⟩, h3⟩ := ha
    rw [List.all_eq_true] at h2 ⊢
    rw [rs_all_regOk] at h3 ⊢
    exact ⟨⟨h.format ▸ h1, fun p hp => h2 p ((h.pkgs p).mpr hp)⟩,
      fun s hs' => h3.1 s ((h.srcs s).mpr hs'), fun y hy => h3.2 y ((h.vers y).mpr hy)⟩
  have hs' : rsSameRows m' m :=
    ⟨hs.format.symm, fun p => (hs.pkgs p).symm, fun s => (hs.srcs s).symm, fun y => (hs.vers y).symm⟩
  cases h : rsOpens o m with
  | true => exact (key m m' hs h).symm
  | false =>
    cases h' : rsOpens o m' with
    | false => rfl
    | true => rw [key m' m hs' h'] at h; cases h

/-- **the general fact, in closed form.** Manifests with the same rows, keys distinct: the same
verdict, and the tables `OpenDir` builds agree as finite maps. -/
theorem rs_opened_sameRows (o : BundleOracle) (root : Str) (m m' : Manifest)
    (hs : rsSameRows m m') (hk : rsDistinctKeys o m') :
    (∀ k, aget (rsOpened o root m).pkgDirs k = aget (rsOpened o root m').pkgDirs k) ∧
    (∀ k, aget (rsOpened o root m).pkgMeta k = aget (rsOpened o root m').pkgMeta k) ∧
    (∀ k, aget (rsOpened o root m).regSources k = aget (rsOpened o root m').regSources k) ∧
    (∀ k, aget (rsOpened o root m).regDeprec k = aget (rsOpened o root m').regDeprec k) := by
  refine ⟨fun k => ?_, fun k => ?_, fun k => ?_, fun k => ?_⟩
  · refine (rs_aget_insertAll_set _ _ (rs_dirEntries_fun o m' hk) (fun x => ?_) [] k).symm
    rw [rs_mem_dirEntries, rs_mem_dirEntries]
    exact ⟨fun ⟨p, hp, h⟩ => ⟨p, (hs.pkgs p).mpr hp, h⟩, fun ⟨p, hp, h⟩ => ⟨p, (hs.pkgs p).mp hp, h⟩⟩
  · refine (rs_aget_insertAll_set _ _ (rs_metaEntries_fun o m' hk) (fun x => ?_) [] k).symm
    rw [rs_mem_metaEntries, rs_mem_metaEntries]
    exact ⟨fun ⟨p, hp, h⟩ => ⟨p, (hs.pkgs p).mpr hp, h⟩, fun ⟨p, hp, h⟩ => ⟨p, (hs.pkgs p).mp hp, h⟩⟩
  · refine (rs_aget_insertAll_set _ _ (rs_regSrcEntries_fun o m' hk) (fun x => ?_) [] k).symm
    rw [rs_mem_regSrcEntries, rs_mem_regSrcEntries]
    exact ⟨fun ⟨y, hy, h⟩ => ⟨y, (hs.vers y).mpr hy, h⟩, fun ⟨y, hy, h⟩ => ⟨y, (hs.vers y).mp hy, h⟩⟩
  · refine (rs_aget_insertAll_set _ _ (rs_regDepEntries_fun o m' hk) (fun x => ?_) [] k).symm
    rw [rs_mem_regDepEntries, rs_mem_regDepEntries]
    exact ⟨fun ⟨y, hy, h⟩ => ⟨y, (hs.vers y).mpr hy, h⟩, fun ⟨y, hy, h⟩ => ⟨y, (hs.vers y).mp hy, h⟩⟩

end Slug
