import SlugModel.ManifestWrite
import SlugModel.Lemmas.BundleReverse
import SlugModel.Props.C09
/-!
# ManifestOrder — lemmas about the row order of `writeManifest` (`ManifestWrite.lean`)

`sortStr` (insertion sort by `strLt`) returns a sorted permutation of its argument; a sorted list
without duplicates is determined by its set of members (`strLt` is a strict total order), hence
`sortStr` of a duplicate-free list depends on the set of members only.  Key lists of association
lists (`assoc`) that agree as finite maps have the same members.
-/
namespace Slug

/-! ## `insertStr`, `sortStr`: permutation, sortedness -/

/-- sorted by `strLt`: no later element is smaller than an earlier one -/
abbrev moSorted (l : List Str) : Prop := List.Pairwise (fun a b => strLt b a = false) l

/-- strictly sorted -/
abbrev moSSorted (l : List Str) : Prop := List.Pairwise (fun a b => strLt a b = true) l

theorem mo_insertStr_perm (x : Str) : ∀ l : List Str, (insertStr x l).Perm (x :: l)
  | [] => List.Perm.refl _
  | y :: ys => by
    unfold insertStr
    split
    · exact ((mo_insertStr_perm x ys).cons y).trans (List.Perm.swap x y ys)
    · exact List.Perm.refl _

theorem mo_sortStr_nil : sortStr [] = [] := rfl

theorem mo_sortStr_cons (x : Str) (l : List Str) : sortStr (x :: l) = insertStr x (sortStr l) := rfl

theorem mo_sortStr_perm : ∀ l : List Str, (sortStr l).Perm l
  | [] => List.Perm.refl _
  | x :: l => by
    rw [mo_sortStr_cons]
    exact (mo_insertStr_perm x (sortStr l)).trans ((mo_sortStr_perm l).cons x)

theorem mo_mem_insertStr {x y : Str} {l : List Str} : y ∈ insertStr x l ↔ y = x ∨ y ∈ l := by
  rw [(mo_insertStr_perm x l).mem_iff, List.mem_cons]

theorem mo_mem_sortStr {y : Str} {l : List Str} : y ∈ sortStr l ↔ y ∈ l :=
  (mo_sortStr_perm l).mem_iff

/-- `¬ (· < ·)` is transitive (uses trichotomy) -/
theorem mo_strLe_trans {a b c : Str} (h1 : strLt b a = false) (h2 : strLt c b = false) :
    strLt c a = false := by
  cases h : strLt c a with
  | false => rfl
  | true =>
    -- a ≤ b: either a = b or a < b
    cases hab : strLt a b with
    | false =>
      have e := br_strLt_trichotomy a b hab h1
      rw [e] at h; rw [h] at h2; cases h2
    | true =>
      have := br_strLt_trans c a b h hab
      rw [this] at h2; cases h2

theorem mo_insertStr_sorted (x : Str) : ∀ l : List Str, moSorted l → moSorted (insertStr x l)
  | [], _ => List.pairwise_singleton _ _
  | y :: ys, h => by
    obtain ⟨hy, hys⟩ := List.pairwise_cons.mp h
    unfold insertStr
    split
    · rename_i hlt
      refine List.pairwise_cons.mpr ⟨fun z hz => ?_, mo_insertStr_sorted x ys hys⟩
      rcases mo_mem_insertStr.mp hz with rfl | hz
      · exact br_strLt_asymm _ _ hlt
      · exact hy z hz
    · rename_i hlt
      have hlt' : strLt y x = false := by
        cases hh : strLt y x with
        | false => rfl
        | true => exact absurd hh hlt
      refine List.pairwise_cons.mpr ⟨fun z hz => ?_, h⟩
      rcases List.mem_cons.mp hz with rfl | hz
      · exact hlt'
      · exact mo_strLe_trans hlt' (hy z hz)

theorem mo_sortStr_sorted : ∀ l : List Str, moSorted (sortStr l)
  | [] => List.Pairwise.nil
  | x :: l => by
    rw [mo_sortStr_cons]
    exact mo_insertStr_sorted x _ (mo_sortStr_sorted l)

/-! ## a strictly sorted list is determined by its members -/

theorem mo_ssorted_of_sorted_nodup {l : List Str} (hs : moSorted l) (hn : l.Nodup) :
    moSSorted l := by
  have := List.Pairwise.and hs hn
  refine this.imp ?_
  intro a b ⟨h1, h2⟩
  rcases br_strLt_total a b h2 with h | h
  · exact h
  · rw [h] at h1; cases h1

theorem mo_ssorted_ext : ∀ (l l' : List Str), moSSorted l → moSSorted l' →
    (∀ x, x ∈ l ↔ x ∈ l') → l = l'
  | [], [], _, _, _ => rfl
  | [], b :: bs, _, _, h => by
    have := (h b).mpr List.mem_cons_self
    cases this
  | a :: as, [], _, _, h => by
    have := (h a).mp List.mem_cons_self
    cases this
  | a :: as, b :: bs, h1, h2, h => by
    obtain ⟨ha, has⟩ := List.pairwise_cons.mp h1
    obtain ⟨hb, hbs⟩ := List.pairwise_cons.mp h2
    have hab : a = b := by
      rcases List.mem_cons.mp ((h a).mp List.mem_cons_self) with e | ha'
      · exact e
      · rcases List.mem_cons.mp ((h b).mpr List.mem_cons_self) with e | hb'
        · exact e.symm
        · have x1 := hb a ha'
          have x2 := ha b hb'
          rw [br_strLt_asymm _ _ x1] at x2; cases x2
    subst hab
    have hrest : ∀ x, x ∈ as ↔ x ∈ bs := by
      intro x
      constructor
      · intro hx
        rcases List.mem_cons.mp ((h x).mp (List.mem_cons_of_mem _ hx)) with e | hx'
        · have := ha x hx
          rw [e, br_strLt_irrefl] at this; cases this
        · exact hx'
      · intro hx
        rcases List.mem_cons.mp ((h x).mpr (List.mem_cons_of_mem _ hx)) with e | hx'
        · have := hb x hx
          rw [e, br_strLt_irrefl] at this; cases this
        · exact hx'
    rw [mo_ssorted_ext as bs has hbs hrest]

theorem mo_sortStr_ssorted {l : List Str} (hn : l.Nodup) : moSSorted (sortStr l) :=
  mo_ssorted_of_sorted_nodup (mo_sortStr_sorted l) ((mo_sortStr_perm l).nodup_iff.mpr hn)

/-- `sortStr` of a duplicate-free list depends on the set of members only -/
theorem mo_sortStr_ext {l l' : List Str} (h : ∀ x, x ∈ l ↔ x ∈ l') (hn : l.Nodup)
    (hn' : l'.Nodup) : sortStr l = sortStr l' :=
  mo_ssorted_ext _ _ (mo_sortStr_ssorted hn) (mo_sortStr_ssorted hn')
    (fun x => by rw [mo_mem_sortStr, mo_mem_sortStr]; exact h x)

theorem mo_sortStr_of_perm {l l' : List Str} (hp : l.Perm l') (hn : l.Nodup) :
    sortStr l = sortStr l' :=
  mo_sortStr_ext (fun _ => hp.mem_iff) hn (hp.nodup_iff.mp hn)

/-- a sorted duplicate-free list is a fixed point -/
theorem mo_sortStr_id_of_ssorted {l : List Str} (h : moSSorted l) : sortStr l = l := by
  have hn : l.Nodup := by
    refine h.imp ?_
    intro a b hab e
    rw [e, br_strLt_irrefl] at hab; cases hab
  exact mo_ssorted_ext _ _ (mo_sortStr_ssorted hn) h (fun _ => mo_mem_sortStr)

/-! ## `eraseDups` -/

theorem mo_nodup_eraseDups {α : Type} [BEq α] [LawfulBEq α] (l : List α) : l.eraseDups.Nodup := by
  generalize hn : l.length = n
  induction n using Nat.strongRecOn generalizing l with
  | _ n ih =>
    cases l with
    | nil => exact List.Pairwise.nil
    | cons a as =>
      rw [List.eraseDups_cons]
      refine List.nodup_cons.mpr ⟨?_, ?_⟩
      · intro hm
        have := (List.mem_filter.mp (List.mem_eraseDups.mp hm)).2
        simp at this
      · have hlen : (as.filter fun b => !b == a).length < n := by
          have := List.length_filter_le (fun b => !b == a) as
          simp only [List.length_cons] at hn
          omega
        exact ih _ hlen _ rfl

/-! ## keys of association lists -/

theorem mo_assoc_cons {α β : Type} [DecidableEq α] (a : α) (b : β) (r : List (α × β)) (k : α) :
    assoc ((a, b) :: r) k = if a = k then some b else assoc r k := rfl

theorem mo_mem_keys_iff {α β : Type} [DecidableEq α] (l : List (α × β)) (k : α) :
    k ∈ l.map Prod.fst ↔ (assoc l k).isSome = true := by
  induction l with
  | nil => simp [assoc]
  | cons e r ih =>
    obtain ⟨a, b⟩ := e
    rw [mo_assoc_cons, List.map_cons, List.mem_cons]
    by_cases hak : a = k
    · simp [hak]
    · rw [if_neg hak, ← ih]
      constructor
      · rintro (e | h)
        · exact absurd e.symm hak
        · exact h
      · exact Or.inr

theorem mo_keys_same {α β : Type} [DecidableEq α] {l l' : List (α × β)}
    (h : ∀ k, assoc l k = assoc l' k) (k : α) : k ∈ l.map Prod.fst ↔ k ∈ l'.map Prod.fst := by
  rw [mo_mem_keys_iff, mo_mem_keys_iff, h k]

/-- members of the list of first components of the keys -/
theorem mo_mem_regs_iff {β : Type} (l : List ((Str × Str) × β)) (r : Str) :
    r ∈ l.map (fun e => e.1.1) ↔ ∃ v, (r, v) ∈ l.map Prod.fst := by
  constructor
  · intro h
    obtain ⟨e, he, rfl⟩ := List.mem_map.mp h
    exact ⟨e.1.2, List.mem_map.mpr ⟨e, he, rfl⟩⟩
  · rintro ⟨v, h⟩
    obtain ⟨e, he, hk⟩ := List.mem_map.mp h
    exact List.mem_map.mpr ⟨e, he, by rw [hk]⟩

/-- members of the list of versions of one registry package -/
theorem mo_mem_vers_iff {β : Type} (l : List ((Str × Str) × β)) (r v : Str) :
    v ∈ (l.filter (fun e => e.1.1 = r)).map (fun e => e.1.2) ↔ (r, v) ∈ l.map Prod.fst := by
  constructor
  · intro h
    obtain ⟨e, he, rfl⟩ := List.mem_map.mp h
    obtain ⟨he1, he2⟩ := List.mem_filter.mp he
    have he2 : e.1.1 = r := of_decide_eq_true he2
    exact List.mem_map.mpr ⟨e, he1, by rw [← he2]⟩
  · intro h
    obtain ⟨e, he, hk⟩ := List.mem_map.mp h
    refine List.mem_map.mpr ⟨e, List.mem_filter.mpr ⟨he, ?_⟩, by rw [hk]⟩
    rw [hk]; exact decide_eq_true rfl

/-- the versions of one registry package are pairwise distinct when the keys are -/
theorem mo_nodup_vers {β : Type} (r : Str) : ∀ (l : List ((Str × Str) × β)),
    (l.map Prod.fst).Nodup → ((l.filter (fun e => e.1.1 = r)).map (fun e => e.1.2)).Nodup
  | [], _ => List.Pairwise.nil
  | e :: l, h => by
    rw [List.map_cons] at h
    obtain ⟨h1, h2⟩ := List.nodup_cons.mp h
    have ih := mo_nodup_vers r l h2
    rw [List.filter_cons]
    split
    · rename_i her
      have her : e.1.1 = r := of_decide_eq_true her
      rw [List.map_cons]
      refine List.nodup_cons.mpr ⟨fun hm => h1 ?_, ih⟩
      have := (mo_mem_vers_iff l r e.1.2).mp hm
      rw [← her] at this
      exact this
    · exact ih

/-- two sorted lists with the same elements counted with multiplicity are equal (equivalent keys
are equal: trichotomy) -/
theorem mo_sorted_perm_eq : ∀ (l l' : List Str), moSorted l → moSorted l' → l.Perm l' → l = l'
  | [], _, _, _, h => h.nil_eq
  | _ :: _, [], _, _, h => by
    have := h.length_eq
    simp at this
  | a :: as, b :: bs, h1, h2, h => by
    obtain ⟨ha, has⟩ := List.pairwise_cons.mp h1
    obtain ⟨hb, hbs⟩ := List.pairwise_cons.mp h2
    have hba : strLt b a = false := by
      rcases List.mem_cons.mp (h.symm.mem_iff.mp (List.mem_cons_self (a := b) (l := bs))) with e | hm
      · rw [e]; exact br_strLt_irrefl a
      · exact ha b hm
    have hab : strLt a b = false := by
      rcases List.mem_cons.mp (h.mem_iff.mp (List.mem_cons_self (a := a) (l := as))) with e | hm
      · rw [e]; exact br_strLt_irrefl b
      · exact hb a hm
    have e := br_strLt_trichotomy a b hab hba
    subst e
    rw [mo_sorted_perm_eq as bs has hbs (List.Perm.cons_inv h)]

/-- `sortStr` depends on the multiset of elements only -/
theorem mo_sortStr_of_perm' {l l' : List Str} (hp : l.Perm l') : sortStr l = sortStr l' :=
  mo_sorted_perm_eq _ _ (mo_sortStr_sorted l) (mo_sortStr_sorted l')
    (((mo_sortStr_perm l).trans hp).trans (mo_sortStr_perm l').symm)

/-! ## rows looked up by key -/

theorem mo_assoc_of_mem {α β : Type} [DecidableEq α] : ∀ {l : List (α × β)},
    (l.map Prod.fst).Nodup → ∀ e ∈ l, assoc l e.1 = some e.2
  | [], _, _, he => by cases he
  | (a, b) :: r, hn, e, he => by
    rw [List.map_cons] at hn
    obtain ⟨h1, h2⟩ := List.nodup_cons.mp hn
    rw [mo_assoc_cons]
    rcases List.mem_cons.mp he with rfl | he'
    · simp
    · have hne : a ≠ e.1 := fun hh => h1 (hh ▸ List.mem_map.mpr ⟨e, he', rfl⟩)
      rw [if_neg hne]
      exact mo_assoc_of_mem h2 e he'

theorem mo_filterMap_eq_map_of {α β : Type} (g : α → Option β) (f : α → β) : ∀ (l : List α),
    (∀ e ∈ l, g e = some (f e)) → l.filterMap g = l.map f
  | [], _ => rfl
  | a :: l, h => by
    rw [List.filterMap_cons, h a List.mem_cons_self, List.map_cons,
      mo_filterMap_eq_map_of g f l (fun e he => h e (List.mem_cons_of_mem _ he))]

/-- looking every key of a table with distinct keys up again gives the table's rows -/
theorem mo_filterMap_keys {α β γ : Type} [DecidableEq α] (l : List (α × β))
    (hn : (l.map Prod.fst).Nodup) (f : α × β → γ) :
    (l.map Prod.fst).filterMap (fun k => (assoc l k).map (fun v => f (k, v))) = l.map f := by
  rw [List.filterMap_map]
  apply mo_filterMap_eq_map_of
  intro e he
  simp [Function.comp, mo_assoc_of_mem hn e he]

/-- the same for the versions of one registry package -/
theorem mo_filterMap_vers {β γ : Type} (l : List ((Str × Str) × β))
    (hn : (l.map Prod.fst).Nodup) (r : Str) (f : (Str × Str) × β → γ) :
    ((l.filter (fun e => e.1.1 = r)).map (fun e => e.1.2)).filterMap
        (fun v => (assoc l (r, v)).map (fun s => f ((r, v), s))) =
      (l.filter (fun e => e.1.1 = r)).map f := by
  rw [List.filterMap_map]
  apply mo_filterMap_eq_map_of
  intro e he
  obtain ⟨he1, he2⟩ := List.mem_filter.mp he
  have he2 : e.1.1 = r := of_decide_eq_true he2
  have hk : (r, e.1.2) = e.1 := by rw [← he2]
  simp [Function.comp, hk, mo_assoc_of_mem hn e he1]

end Slug
