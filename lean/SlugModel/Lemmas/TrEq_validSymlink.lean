import SlugModel.Generated.Tr_validSymlink
import SlugModel.Unpack
import SlugModel.Lemmas.TrEq_allowedSymlinkTarget
/-!
# `validSymlink`: the model function equals the translation of the Go function

The definition `Slug.Gen.validSymlink` (Generated/Tr_validSymlink.lean) is rewritten from /repo by harness/cmd/go2lean on
every run; the theorem here is re-checked against it.
-/
namespace Slug

theorem gen_validSymlink (cwd : Str) (allow : List Str) (root path target : Str) :
    Gen.validSymlink cwd allow root path target =
      (validSymlink cwd allow root path target, !validSymlink cwd allow root path target) := by
  unfold Gen.validSymlink validSymlink isWithin
  simp only [gen_allowedSymlinkTarget, Go.pathAbs, Go.isAbs, Go.pathJoin, Go.pathClean, Go.pathDir,
    Go.hasSuffix, Go.hasPrefix]
  generalize pathAbs cwd root = absRoot
  have key : ∀ absTarget : Str,
      (if (!hasSuffix absRoot ['/']) = true then
        if (absTarget == absRoot || hasPrefix absTarget (absRoot ++ ['/'])) = true then
          (pure (true, false) : Id (Bool × Bool))
        else if allowedTarget allow absRoot absTarget = true then pure (true, false) else pure (false, true)
      else
        if (absTarget == absRoot || hasPrefix absTarget absRoot) = true then pure (true, false)
        else
          if allowedTarget allow absRoot absTarget = true then pure (true, false)
          else pure (false, true)).run =
      (if (decide (absTarget = absRoot) ||
              hasPrefix absTarget (if hasSuffix absRoot ['/'] = true then absRoot else absRoot ++ ['/'])) =
            true then true
        else allowedTarget allow absRoot absTarget,
        !if (decide (absTarget = absRoot) ||
                hasPrefix absTarget (if hasSuffix absRoot ['/'] = true then absRoot else absRoot ++ ['/'])) =
              true then true
          else allowedTarget allow absRoot absTarget) := by
    intro absTarget
    generalize allowedTarget allow absRoot absTarget = c
    by_cases h3 : hasSuffix absRoot ['/'] = true <;>
      simp only [h3, Bool.not_true, Bool.not_false, if_true, if_false, Bool.false_eq_true]
    · generalize hasPrefix absTarget absRoot = b
      by_cases h4 : absTarget = absRoot <;> cases b <;> cases c <;> simp [h4, Id.run] <;> rfl
    · generalize hasPrefix absTarget (absRoot ++ ['/']) = b
      by_cases h4 : absTarget = absRoot <;> cases b <;> cases c <;> simp [h4, Id.run] <;> rfl
  by_cases h1 : isAbs path = true <;> by_cases h2 : isAbs target = true <;>
    simp only [h1, h2, Bool.not_true, Bool.not_false, if_true, if_false, Bool.false_eq_true] <;>
    exact key _

end Slug
