import SlugModel.Pack
import SlugModel.Lemmas.PathSegs
/-!
# Lemmas/PackInv — invariants of the Pack walk

`walkNode` / `walkChildren` / `visit` (Pack.lean) only ever change the state by *pushing* one
entry together with a size increment.  `PackEmit` lists the four ways an entry is produced
(directory, regular file, accepted symlink, dereferenced file), each at an on-disk `path`
satisfying a path predicate `G`; `pk_walk_emitsG` is the simultaneous induction on fuel showing
that the final state is the initial one extended by a list of such emissions.  Props/C20 and most
of Props/C05 are read off that list.  Further sections: `pack` unfolded once (`pk_pack_eq`), the
walk only appends (`pk_walk_grows`), metadata accounting, where `stop illegal` comes from and how
a `stop` travels up, independence of the working directory and of the spelling of the source
(Props/C16), the hop bound of `resolveExternalLink`, termination of the walk (`pkTermBound`,
`pk_walkNode_terminates`) and independence of the fuel (`pk_walk_fuel_succ`) (Props/C19p), the
ignore rules and the names of the entries (`pk_visit_excluded_emits_nothing`,
`pk_walk_names_not_excluded`; finding F43).

The nested walk into a dereferenced directory runs with other options than its caller (a longer
`visiting` list, finding F26), so every induction on fuel quantifies over the options, or over
the list (`PackOpts.vis`), inside; the statements for fixed options are instances.
-/
namespace Slug

/-- `PState` equality is decidable (Pack.lean derives only `Repr`); named, so that it cannot clash
with a derived instance elsewhere -/
instance pkDecEqPState : DecidableEq PState := fun a b =>
  if h : a.entries = b.entries ∧ a.pmeta = b.pmeta then
    isTrue (by cases a; cases b; simp only at h; rw [h.1, h.2])
  else isFalse (by intro e; apply h; rw [e]; exact ⟨rfl, rfl⟩)

/-! ## the filesystem: `Lstat` of a non-link agrees with `Stat` -/

theorem pk_resolve_follow (fs : FS) : ∀ (fuel : Nat) (cur : PPath) (segs : List Seg) (p : PPath),
    resolve fs fuel cur segs false = .ok p → (∀ t, fs.lookup p ≠ some (.link t)) →
    resolve fs fuel cur segs true = .ok p := by
  intro fuel
  induction fuel with
  | zero => intro cur segs p h _; simp [resolve] at h
  | succ fuel ih =>
    intro cur segs p h hl
    cases segs with
    | nil => simpa [resolve] using h
    | cons s rest =>
      rw [resolve] at h ⊢
      split
      · rename_i hs
        rw [if_pos hs] at h
        exact ih _ _ _ h hl
      · rename_i hs
        rw [if_neg hs] at h
        simp only at h ⊢
        split
        · rename_i hlk
          rw [hlk] at h
          simpa using h
        · rename_i pm mt hlk
          rw [hlk] at h
          exact ih _ _ _ h hl
        · rename_i t hlk
          rw [hlk] at h
          simp only at h
          by_cases hr : rest = []
          · subst hr
            simp only [Bool.not_false, and_self, if_true] at h
            cases h
            exact absurd hlk (hl t)
          · simp only [hr, false_and, if_false] at h ⊢
            split
            · rename_i ht
              rw [if_pos ht] at h
              exact h
            · rename_i ht
              rw [if_neg ht] at h
              exact ih _ _ _ h hl
        · rename_i n hn1 hn2 hn3
          rw [hn3] at h
          split at h
          · rename_i h'; cases h'
          · rename_i a b h'; cases h'; exact absurd rfl (hn1 a b)
          · rename_i t h'; cases h'; exact absurd rfl (hn2 t)
          · exact h

theorem pk_lstat_ok {fs : FS} {path : Str} {n : Node} (h : fs.lstat path = .ok n) :
    ∃ p, fs.resolvePath path false = .ok p ∧ fs.lookup p = some n := by
  unfold FS.lstat at h
  split at h
  · cases h
  · rename_i p hp
    split at h
    · cases h
    · rename_i m hm
      cases h
      exact ⟨p, hp, hm⟩

/-- `Lstat` found something that is not a symlink: `Stat` finds the same object -/
theorem pk_stat_of_lstat {fs : FS} {path : Str} {n : Node} (h : fs.lstat path = .ok n)
    (hn : ∀ t, n ≠ .link t) : ∃ p, fs.stat path = .ok (p, n) ∧ fs.lookup p = some n := by
  obtain ⟨p, hp, hl⟩ := pk_lstat_ok h
  refine ⟨p, ?_, hl⟩
  have hf : fs.resolvePath path true = .ok p := by
    unfold FS.resolvePath at hp ⊢
    apply pk_resolve_follow fs _ _ _ _ hp
    intro t ht
    rw [hl] at ht
    cases ht
    exact hn t rfl
  unfold FS.stat
  rw [hf]
  simp only [hl]

/-- reading the regular file that `Lstat` reported at `path` yields that file's content -/
theorem pk_readFile_of_lstat_file {fs : FS} {path : Str} {perm : Nat} {mt : Int} {c : Str}
    (h : fs.lstat path = .ok (.file perm mt c)) : fs.readFile path = .ok c := by
  obtain ⟨p, hs, _⟩ := pk_stat_of_lstat h (by intro t ht; cases ht)
  unfold FS.readFile
  rw [hs]

/-- a successful `resolveExternalLink` returns a path whose `Lstat` is the returned node, and that
node is not a symlink -/
theorem pk_resolveExternalLink_ok (fs : FS) : ∀ (fuel : Nat) (path t : Str) (n : Node),
    resolveExternalLink fs fuel path = .ok (t, n) → fs.lstat t = .ok n ∧ ∀ x, n ≠ .link x := by
  intro fuel
  induction fuel with
  | zero => intro path t n h; simp [resolveExternalLink] at h
  | succ fuel ih =>
    intro path t n h
    rw [resolveExternalLink] at h
    split at h
    · cases h
    · rename_i target _
      simp only at h
      split at h
      · cases h
      · exact ih _ _ _ h
      · rename_i m hnl hm
        cases h
        exact ⟨hm, fun x hx => hnl x hx⟩

/-! ## emissions -/

/-- push one entry and account `k` bytes -/
def pkPush (st : PState) (e : Entry) (k : Nat) : PState :=
  { entries := st.entries ++ [e],
    pmeta := { files := st.pmeta.files ++ [e.name], size := st.pmeta.size + k } }

/-- push a list of (entry, bytes accounted) -/
def pkExtend (st : PState) (L : List (Entry × Nat)) : PState :=
  { entries := st.entries ++ L.map (·.1),
    pmeta := { files := st.pmeta.files ++ L.map (·.1.name),
               size := st.pmeta.size + (L.map (·.2)).sum } }

theorem pkExtend_nil (st : PState) : pkExtend st [] = st := by
  cases st with
  | mk es pm => cases pm; simp [pkExtend]

theorem pkExtend_one (st : PState) (e : Entry) (k : Nat) : pkExtend st [(e, k)] = pkPush st e k := by
  simp [pkExtend, pkPush]

theorem pkExtend_append (st : PState) (L M : List (Entry × Nat)) :
    pkExtend (pkExtend st L) M = pkExtend st (L ++ M) := by
  simp [pkExtend, List.append_assoc, Nat.add_assoc]

/-- The four ways `packWalkFn` writes an entry, with the number of bytes it adds to `Meta.Size`.
`path` is the on-disk path the callback was called with. -/
inductive PackEmit (G : Str → Prop) (fs : FS) (cwd : Str) (o : PackOpts) (root : Str) : Entry → Nat → Prop
  | dir (sub : Str) (perm : Nat) (mt : Int) :
      PackEmit G fs cwd o root
        { name := sub ++ ['/'], typ := tDir, mode := perm &&& 0o777, mtime := roundSec mt, link := [], body := [] } 0
  | file (path sub : Str) (perm : Nat) (mt : Int) (content : Str)
      (hg : G path) (hl : fs.lstat path = .ok (.file perm mt content)) :
      PackEmit G fs cwd o root
        { name := sub, typ := tReg, mode := perm &&& 0o777, mtime := roundSec mt, link := [], body := content }
        (utf8Len content)
  | symlink (path sub target : Str) (hg : G path) (hl : fs.lstat path = .ok (.link target))
      (hv : validSymlink cwd o.allow root path target = true) :
      PackEmit G fs cwd o root
        { name := sub, typ := tSymlink, mode := 0o777, mtime := 0, link := target, body := [] } 0
  | deref (path sub target absTarget : Str) (perm : Nat) (mt : Int) (content body : Str)
      (hd : o.dereference = true) (hg : G path)
      (hl : fs.lstat path = .ok (.link target))
      (hv : validSymlink cwd o.allow root path target = false)
      (ht : fs.lstat absTarget = .ok (.file perm mt content))
      (hb : fs.readFile path = .ok body)
      (hlen : utf8Len body = utf8Len content) :
      PackEmit G fs cwd o root
        { name := sub, typ := tReg, mode := perm &&& 0o777, mtime := roundSec mt, link := [], body := body }
        (utf8Len body)

/-- "the final state is the initial state plus a list of emissions" -/
def PackEmits (G : Str → Prop) (fs : FS) (cwd : Str) (o : PackOpts) (root : Str) (st st' : PState) : Prop :=
  ∃ L : List (Entry × Nat), (∀ x ∈ L, PackEmit G fs cwd o root x.1 x.2) ∧ st' = pkExtend st L

theorem PackEmits.refl {G : Str → Prop} {fs : FS} {cwd : Str} {o : PackOpts} {root : Str} (st : PState) :
    PackEmits G fs cwd o root st st :=
  ⟨[], by simp, (pkExtend_nil st).symm⟩

theorem PackEmits.trans {G : Str → Prop} {fs : FS} {cwd : Str} {o : PackOpts} {root : Str} {a b c : PState}
    (h1 : PackEmits G fs cwd o root a b) (h2 : PackEmits G fs cwd o root b c) : PackEmits G fs cwd o root a c := by
  obtain ⟨L, hL, e1⟩ := h1
  obtain ⟨M, hM, e2⟩ := h2
  refine ⟨L ++ M, ?_, ?_⟩
  · intro x hx
    rcases List.mem_append.mp hx with h | h
    · exact hL x h
    · exact hM x h
  · rw [e2, e1, pkExtend_append]

theorem PackEmits.one {G : Str → Prop} {fs : FS} {cwd : Str} {o : PackOpts} {root : Str} (st : PState) {e : Entry} {k : Nat}
    (h : PackEmit G fs cwd o root e k) : PackEmits G fs cwd o root st (pkPush st e k) :=
  ⟨[(e, k)], by simpa using h, (pkExtend_one st e k).symm⟩

/-! ## the walk only emits -/

/-- what the path predicate `G` must satisfy to be carried along the walk: the children of a
directory satisfying it do, and so does whatever a dereferenced link resolves to -/
structure PackPathInv (G : Str → Prop) (fs : FS) (o : PackOpts) : Prop where
  child : ∀ path p n, G path → fs.resolvePath path true = .ok p → n ∈ fs.readdir p → G (pathJoin path n)
  deref : o.dereference = true → ∀ t, G t

theorem packPathInv_true (fs : FS) (o : PackOpts) : PackPathInv (fun _ => True) fs o :=
  ⟨fun _ _ _ _ _ _ => trivial, fun _ _ => trivial⟩

/-- the options a nested walk runs with: the same options, another `visiting` list.  The walk only
ever changes that field, and nothing an emission records depends on it: the inductions on fuel
below are stated for `o.vis v` with `v` arbitrary and instantiated with `v := o.visiting` at the
end (`o.vis o.visiting` is `o`, by eta). -/
abbrev PackOpts.vis (o : PackOpts) (v : List PPath) : PackOpts := { o with visiting := v }

theorem PackOpts.vis_self (o : PackOpts) : o.vis o.visiting = o := rfl

theorem PackOpts.vis_vis (o : PackOpts) (v w : List PPath) : (o.vis v).vis w = o.vis w := rfl

theorem pk_visit_emits (G : Str → Prop) (fs : FS) (cwd : Str) (o : PackOpts) (rules : Option (List Rule))
    (root : Str) (hG : PackPathInv G fs o) (fuel : Nat)
    (ihN : ∀ v src dst path node st, G path → fs.lstat path = .ok node →
      PackEmits G fs cwd o root st (walkNode fs cwd (o.vis v) rules root src dst fuel path node st).1) :
    ∀ v src dst path node st, G path → fs.lstat path = .ok node →
      PackEmits G fs cwd o root st (visit fs cwd (o.vis v) rules root src dst (fuel + 1) path node st).1 := by
  intro v src dst path node st hg hl
  cases node with
  | special =>
    rw [visit]
    · simp only [↓reduceIte, Bool.false_eq_true]
      repeat' split
      all_goals exact .refl _
    · intro _ _ h; cases h
  | dir perm mt =>
    rw [visit]
    simp only [↓reduceIte]
    repeat' split
    all_goals first | exact .refl _ | skip
    exact .one st (.dir _ _ _)
  | file perm mt content =>
    rw [visit]
    · simp only [↓reduceIte, Bool.false_eq_true]
      repeat' split
      all_goals first | exact .refl _ | skip
      rename_i body hb
      rw [pk_readFile_of_lstat_file hl] at hb
      cases hb
      exact .one st (.file path _ _ _ _ hg hl)
    · intro _ _ h; cases h
  | link target =>
    rw [visit]
    · simp only [↓reduceIte, Bool.false_eq_true]
      repeat' split
      all_goals first | exact .refl _ | skip
      · exact .one st (.symlink path _ _ hg hl ‹validSymlink cwd o.allow root path target = true›)
      · have hd' : o.dereference = true := by
          have : ¬ (!o.dereference) = true := by assumption
          simpa using this
        exact ihN _ _ _ _ _ _ (hG.deref hd' _) ‹fs.lstat _ = Except.ok _›
      · have hd' : o.dereference = true := by
          have : ¬ (!o.dereference) = true := by assumption
          simpa using this
        exact ihN _ _ _ _ _ _ (hG.deref hd' _) ‹fs.lstat _ = Except.ok _›
      · have hd' : o.dereference = true := by
          have : ¬ (!o.dereference) = true := by assumption
          simpa using this
        have hv' : validSymlink cwd o.allow root path target = false := by
          have : ¬ validSymlink cwd o.allow root path target = true := by assumption
          simpa using this
        rename_i at' pm mt' ct hr _ body hb hne
        have hlen : utf8Len body = utf8Len ct := by
          simpa using hne
        exact .one st (.deref path _ target at' pm mt' ct body hd' hg hl hv'
          (pk_resolveExternalLink_ok fs _ _ _ _ hr).1 hb hlen)
    · intro _ _ h; cases h

/-- `pk_walk_emitsG` for every `visiting` list (what the induction on fuel needs: the nested walk
into a dereferenced directory runs with a longer list) -/
theorem pk_walk_emitsG_vis (G : Str → Prop) (fs : FS) (cwd : Str) (o : PackOpts) (rules : Option (List Rule))
    (root : Str) (hG : PackPathInv G fs o) :
    ∀ fuel : Nat,
      (∀ v src dst path node st, G path → fs.lstat path = .ok node →
        PackEmits G fs cwd o root st (walkNode fs cwd (o.vis v) rules root src dst fuel path node st).1) ∧
      (∀ v src dst path names st, (∀ n ∈ names, G (pathJoin path n)) →
        PackEmits G fs cwd o root st (walkChildren fs cwd (o.vis v) rules root src dst fuel path names st).1) ∧
      (∀ v src dst path node st, G path → fs.lstat path = .ok node →
        PackEmits G fs cwd o root st (visit fs cwd (o.vis v) rules root src dst fuel path node st).1) := by
  intro fuel
  induction fuel with
  | zero =>
    refine ⟨?_, ?_, ?_⟩
    · intro v src dst path node st _ _; rw [walkNode]; exact .refl _
    · intro v src dst path names st _; rw [walkChildren]; exact .refl _
    · intro v src dst path node st _ _; rw [visit]; exact .refl _
  | succ fuel ih =>
    obtain ⟨ihN, ihC, ihV⟩ := ih
    refine ⟨?_, ?_, ?_⟩
    · intro v src dst path node st hg hl
      have hv := ihV v src dst path _ st hg hl
      cases node with
      | dir perm mt =>
        rw [walkNode]
        simp only
        split
        · split
          · exact hv
          · rename_i p hp
            exact hv.trans (ihC _ _ _ _ _ _ (fun n hn => hG.child path p n hg hp hn))
        · exact hv
      | file perm mt c => rw [walkNode]; exact hv; intro _ _ h; cases h
      | link t => rw [walkNode]; exact hv; intro _ _ h; cases h
      | special => rw [walkNode]; exact hv; intro _ _ h; cases h
    · intro v src dst path names st hnames
      cases names with
      | nil => rw [walkChildren]; exact .refl _
      | cons name rest =>
        have hrest : ∀ n ∈ rest, G (pathJoin path n) := fun n hn => hnames n (List.mem_cons_of_mem _ hn)
        rw [walkChildren]
        simp only
        split
        · exact .refl _
        · rename_i child hc
          have hn := ihN v src dst _ _ st (hnames name (by simp)) hc
          split
          · exact hn.trans (ihC _ _ _ _ _ _ hrest)
          · split
            · exact hn.trans (ihC _ _ _ _ _ _ hrest)
            · exact hn
          · exact hn
    · exact pk_visit_emits G fs cwd o rules root hG fuel ihN

/-- The simultaneous induction on fuel: each walk function returns its input state extended by
emissions, all of them at paths satisfying `G`. -/
theorem pk_walk_emitsG (G : Str → Prop) (fs : FS) (cwd : Str) (o : PackOpts) (rules : Option (List Rule))
    (root : Str) (hG : PackPathInv G fs o) :
    ∀ fuel : Nat,
      (∀ src dst path node st, G path → fs.lstat path = .ok node →
        PackEmits G fs cwd o root st (walkNode fs cwd o rules root src dst fuel path node st).1) ∧
      (∀ src dst path names st, (∀ n ∈ names, G (pathJoin path n)) →
        PackEmits G fs cwd o root st (walkChildren fs cwd o rules root src dst fuel path names st).1) ∧
      (∀ src dst path node st, G path → fs.lstat path = .ok node →
        PackEmits G fs cwd o root st (visit fs cwd o rules root src dst fuel path node st).1) := by
  intro fuel
  have h := pk_walk_emitsG_vis G fs cwd o rules root hG fuel
  exact ⟨h.1 o.visiting, h.2.1 o.visiting, h.2.2 o.visiting⟩

/-- `pk_walk_emitsG` without a path predicate -/
theorem pk_walk_emits (fs : FS) (cwd : Str) (o : PackOpts) (rules : Option (List Rule)) (root : Str) :
    ∀ fuel : Nat,
      (∀ src dst path node st, fs.lstat path = .ok node →
        PackEmits (fun _ => True) fs cwd o root st (walkNode fs cwd o rules root src dst fuel path node st).1) ∧
      (∀ src dst path names st,
        PackEmits (fun _ => True) fs cwd o root st (walkChildren fs cwd o rules root src dst fuel path names st).1) ∧
      (∀ src dst path node st, fs.lstat path = .ok node →
        PackEmits (fun _ => True) fs cwd o root st (visit fs cwd o rules root src dst fuel path node st).1) := by
  intro fuel
  have h := pk_walk_emitsG (fun _ => True) fs cwd o rules root (packPathInv_true fs o) fuel
  exact ⟨fun src dst path node st hl => h.1 src dst path node st trivial hl,
    fun src dst path names st => h.2.1 src dst path names st (fun _ _ => trivial),
    fun src dst path node st hl => h.2.2 src dst path node st trivial hl⟩

/-! ## `Pack` itself -/

/-- the empty state `Pack` starts from -/
def pkEmpty : PState := { entries := [], pmeta := { files := [], size := 0 } }

/-- `os.Lstat(src)` at the top of `Pack` (a trailing slash makes the kernel follow a final link) -/
def pkRootInfo (fs : FS) (cwd src : Str) : Except Errno Node :=
  if hasSuffix src ['/'] ∧ src ≠ ['/'] then
    match fs.stat (pathAbs cwd src) with
    | .ok (_, .dir pm mt) => .ok (.dir pm mt)
    | .ok _ => .error .enotdir
    | .error e => .error e
  else fs.lstat (pathAbs cwd src)

/-- the source path after the root-symlink step of `Pack` (`src` itself unless `src` is a symlink,
then the link's target as written) -/
def pkSrc1 (fs : FS) (cwd src : Str) : Str :=
  match pkRootInfo fs cwd src with
  | .ok (.link t) => t
  | _ => src

/-- the `root` all three path arguments of `packWalkFn` start as: `filepath.Abs` of `pkSrc1` -/
def pkRoot (fs : FS) (cwd src : Str) : Str := pathAbs cwd (pkSrc1 fs cwd src)

/-- the rule set `Pack` walks with -/
def pkRules (fs : FS) (cwd : Str) (o : PackOpts) (src : Str) : Option (List Rule) :=
  if o.applyIgnore then some (loadIgnore fs cwd (pkSrc1 fs cwd src)) else none

/-- how `Pack` turns the outcome of the walk into its result -/
def pkFinish (x : PState × WalkRes) : PState × PResult :=
  (x.1, match x.2 with
        | .stop r => r
        | _ => .ok)

/-- `Pack` unfolded once: root `Lstat`, `Lstat` of the walk root, one `walkNode`. -/
theorem pk_pack_eq (fs : FS) (cwd : Str) (o : PackOpts) (src : Str) :
    pack fs cwd o src =
      match pkRootInfo fs cwd src with
      | .error _ => (pkEmpty, .ioerr)
      | .ok _ =>
        match fs.lstat (pkRoot fs cwd src) with
        | .error _ => (pkEmpty, .ioerr)
        | .ok n =>
          pkFinish (walkNode fs cwd o (pkRules fs cwd o src) (pkRoot fs cwd src) (pkRoot fs cwd src)
            (pkRoot fs cwd src) packFuel (pkRoot fs cwd src) n pkEmpty) := by
  unfold pack pkRules pkRoot pkSrc1 pkEmpty pkFinish
  generalize hri : (if hasSuffix src ['/'] ∧ src ≠ ['/'] then _ else fs.lstat (pathAbs cwd src)) = ri
  have hri' : pkRootInfo fs cwd src = ri := hri
  simp only [hri']
  cases ri with
  | error e => rfl
  | ok info =>
    cases info with
    | link t =>
      simp only
      generalize fs.lstat (pathAbs cwd t) = l
      cases l with
      | error e => rfl
      | ok n =>
        simp only
        generalize walkNode _ _ _ _ _ _ _ _ _ _ _ = w
        obtain ⟨st, r⟩ := w
        cases r <;> rfl
    | _ =>
      simp only
      generalize fs.lstat (pathAbs cwd src) = l
      cases l with
      | error e => rfl
      | ok n =>
        simp only
        generalize walkNode _ _ _ _ _ _ _ _ _ _ _ = w
        obtain ⟨st, r⟩ := w
        cases r <;> rfl
theorem pkFinish_fst (x : PState × WalkRes) : (pkFinish x).1 = x.1 := rfl

/-- everything `Pack` leaves in its state was emitted by the walk -/
theorem pk_pack_emits (fs : FS) (cwd : Str) (o : PackOpts) (src : Str) :
    PackEmits (fun _ => True) fs cwd o (pkRoot fs cwd src) pkEmpty (pack fs cwd o src).1 := by
  rw [pk_pack_eq]
  split
  · exact .refl _
  · split
    · exact .refl _
    · rename_i n hn
      rw [pkFinish_fst]
      exact (pk_walk_emits fs cwd o _ _ packFuel).1 _ _ _ _ _ hn
/-! ## the walk only appends (no hypothesis on the node) -/

/-- the entry list of `st'` extends that of `st` -/
def PackGrows (st st' : PState) : Prop := ∃ suffix, st'.entries = st.entries ++ suffix

theorem PackGrows.refl (st : PState) : PackGrows st st := ⟨[], by simp⟩

theorem PackGrows.trans {a b c : PState} (h1 : PackGrows a b) (h2 : PackGrows b c) : PackGrows a c := by
  obtain ⟨s1, e1⟩ := h1
  obtain ⟨s2, e2⟩ := h2
  exact ⟨s1 ++ s2, by rw [e2, e1, List.append_assoc]⟩

theorem pk_visit_grows (fs : FS) (cwd : Str) (rules : Option (List Rule)) (root : Str) (fuel : Nat)
    (ihN : ∀ o src dst path node st,
      PackGrows st (walkNode fs cwd o rules root src dst fuel path node st).1) :
    ∀ o src dst path node st,
      PackGrows st (visit fs cwd o rules root src dst (fuel + 1) path node st).1 := by
  intro o src dst path node st
  cases node <;> rw [visit] <;> first | (intro _ _ h; cases h) | skip
  all_goals simp only [↓reduceIte, Bool.false_eq_true]
  all_goals repeat' split
  all_goals first | exact .refl _ | exact ⟨[_], rfl⟩ | exact ihN _ _ _ _ _ _

/-- `pk_walk_grows` with the options quantified inside the induction on fuel (the nested walk
changes them) -/
theorem pk_walk_grows_all (fs : FS) (cwd : Str) (rules : Option (List Rule)) (root : Str) :
    ∀ fuel : Nat,
      (∀ o src dst path node st,
        PackGrows st (walkNode fs cwd o rules root src dst fuel path node st).1) ∧
      (∀ o src dst path names st,
        PackGrows st (walkChildren fs cwd o rules root src dst fuel path names st).1) ∧
      (∀ o src dst path node st,
        PackGrows st (visit fs cwd o rules root src dst fuel path node st).1) := by
  intro fuel
  induction fuel with
  | zero =>
    refine ⟨?_, ?_, ?_⟩
    · intro o src dst path node st; rw [walkNode]; exact .refl _
    · intro o src dst path names st; rw [walkChildren]; exact .refl _
    · intro o src dst path node st; rw [visit]; exact .refl _
  | succ fuel ih =>
    obtain ⟨ihN, ihC, ihV⟩ := ih
    refine ⟨?_, ?_, ?_⟩
    · intro o src dst path node st
      have hv := ihV o src dst path node st
      cases node with
      | dir perm mt =>
        rw [walkNode]
        simp only
        split
        · split
          · exact hv
          · exact hv.trans (ihC _ _ _ _ _ _)
        · exact hv
      | file perm mt c => rw [walkNode]; exact hv; intro _ _ h; cases h
      | link t => rw [walkNode]; exact hv; intro _ _ h; cases h
      | special => rw [walkNode]; exact hv; intro _ _ h; cases h
    · intro o src dst path names st
      cases names with
      | nil => rw [walkChildren]; exact .refl _
      | cons name rest =>
        rw [walkChildren]
        simp only
        split
        · exact .refl _
        · rename_i child hc
          have hn := ihN o src dst (pathJoin path name) child st
          split
          · exact hn.trans (ihC _ _ _ _ _ _)
          · split
            · exact hn.trans (ihC _ _ _ _ _ _)
            · exact hn
          · exact hn
    · exact pk_visit_grows fs cwd rules root fuel ihN

theorem pk_walk_grows (fs : FS) (cwd : Str) (o : PackOpts) (rules : Option (List Rule)) (root : Str) :
    ∀ fuel : Nat,
      (∀ src dst path node st,
        PackGrows st (walkNode fs cwd o rules root src dst fuel path node st).1) ∧
      (∀ src dst path names st,
        PackGrows st (walkChildren fs cwd o rules root src dst fuel path names st).1) ∧
      (∀ src dst path node st,
        PackGrows st (visit fs cwd o rules root src dst fuel path node st).1) := by
  intro fuel
  have h := pk_walk_grows_all fs cwd rules root fuel
  exact ⟨h.1 o, h.2.1 o, h.2.2 o⟩
/-! ## metadata accounting -/

/-- content bytes an entry contributes to `Meta.Size` -/
def pkBytes (e : Entry) : Nat := if e.isRegular then utf8Len e.body else 0

/-- every emission accounts exactly the content bytes of the entry it writes -/
theorem PackEmit.bytes {G : Str → Prop} {fs : FS} {cwd : Str} {o : PackOpts} {root : Str} {e : Entry} {k : Nat}
    (h : PackEmit G fs cwd o root e k) : k = pkBytes e := by
  cases h <;> rfl

/-- the metadata describes the entry list: names in order, and the content bytes of the regular
entries -/
def PackMetaOK (st : PState) : Prop :=
  st.pmeta.files = st.entries.map (·.name) ∧ st.pmeta.size = (st.entries.map pkBytes).sum

theorem packMetaOK_empty : PackMetaOK pkEmpty := ⟨rfl, rfl⟩

theorem PackEmits.metaOK {G : Str → Prop} {fs : FS} {cwd : Str} {o : PackOpts} {root : Str} {st st' : PState}
    (h : PackEmits G fs cwd o root st st') (hm : PackMetaOK st) : PackMetaOK st' := by
  obtain ⟨L, hL, e⟩ := h
  subst e
  have hk : L.map (·.2) = L.map (fun x => pkBytes x.1) :=
    List.map_congr_left (fun x hx => (hL x hx).bytes)
  constructor
  · simp [pkExtend, hm.1]
  · simp [pkExtend, hm.2, hk, List.map_map, Function.comp_def]

/-- the sum of `pkBytes` is the fold over the regular entries -/
theorem pk_sum_bytes (es : List Entry) :
    (es.map pkBytes).sum = (es.filter (·.isRegular)).foldl (fun n e => n + utf8Len e.body) 0 := by
  suffices h : ∀ (acc : Nat), acc + (es.map pkBytes).sum =
      (es.filter (·.isRegular)).foldl (fun n e => n + utf8Len e.body) acc by
    simpa using h 0
  induction es with
  | nil => intro acc; simp
  | cons e es ih =>
    intro acc
    by_cases hr : e.isRegular = true
    · simp only [List.map_cons, List.sum_cons, List.filter_cons_of_pos hr, List.foldl_cons]
      rw [← ih]
      simp [pkBytes, hr, Nat.add_assoc]
    · simp only [List.map_cons, List.sum_cons, List.filter_cons_of_neg hr]
      rw [← ih]
      simp [pkBytes, hr]
/-! ## what the entries are made of -/

theorem pk_readFile_ok {fs : FS} {path c : Str} (h : fs.readFile path = .ok c) :
    ∃ p perm mt, fs.stat path = .ok (p, .file perm mt c) ∧ fs.lookup p = some (.file perm mt c) := by
  unfold FS.readFile at h
  split at h
  · rename_i p perm mt c' hs
    cases h
    refine ⟨p, perm, mt, hs, ?_⟩
    unfold FS.stat at hs
    split at hs
    · cases hs
    · split at hs
      · cases hs
      · rename_i hm
        cases hs
        exact hm
  · cases h
  · cases h
  · cases h

/-- every symlink entry was accepted by `validSymlink` at the on-disk path of a symlink with that
target -/
def PackLinksOK (fs : FS) (cwd : Str) (o : PackOpts) (root : Str) (st : PState) : Prop :=
  ∀ e ∈ st.entries, e.isSymlink = true →
    ∃ path, fs.lstat path = .ok (.link e.link) ∧ validSymlink cwd o.allow root path e.link = true

/-- every regular entry's body is the content of a regular file of the filesystem -/
def PackBodiesOK (fs : FS) (st : PState) : Prop :=
  ∀ e ∈ st.entries, e.isRegular = true → ∃ p perm mt, fs.lookup p = some (.file perm mt e.body)

theorem PackEmit.linkOK {G : Str → Prop} {fs : FS} {cwd : Str} {o : PackOpts} {root : Str} {e : Entry} {k : Nat}
    (h : PackEmit G fs cwd o root e k) (hs : e.isSymlink = true) :
    ∃ path, fs.lstat path = .ok (.link e.link) ∧ validSymlink cwd o.allow root path e.link = true := by
  cases h with
  | dir sub perm mt => exact absurd hs (by simp [Entry.isSymlink, tDir, tSymlink])
  | file path sub perm mt content hg hl => exact absurd hs (by simp [Entry.isSymlink, tReg, tSymlink])
  | symlink path sub target hg hl hv => exact ⟨path, hl, hv⟩
  | deref => exact absurd hs (by simp [Entry.isSymlink, tReg, tSymlink])

theorem PackEmit.bodyOK {G : Str → Prop} {fs : FS} {cwd : Str} {o : PackOpts} {root : Str} {e : Entry} {k : Nat}
    (h : PackEmit G fs cwd o root e k) (hr : e.isRegular = true) :
    ∃ p perm mt, fs.lookup p = some (.file perm mt e.body) := by
  cases h with
  | dir sub perm mt => exact absurd hr (by simp [Entry.isRegular, tDir, tReg, tRegA])
  | file path sub perm mt content hg hl =>
    obtain ⟨p, _, hp⟩ := pk_lstat_ok hl
    exact ⟨p, perm, mt, hp⟩
  | symlink path sub target hg hl hv => exact absurd hr (by simp [Entry.isRegular, tReg, tRegA, tSymlink])
  | deref path sub target absTarget perm mt content body hd hg hl hv ht hb hlen =>
    obtain ⟨p, perm', mt', _, hp⟩ := pk_readFile_ok hb
    exact ⟨p, perm', mt', hp⟩

theorem pkExtend_entries_mem {st : PState} {L : List (Entry × Nat)} {e : Entry}
    (h : e ∈ (pkExtend st L).entries) : e ∈ st.entries ∨ ∃ k, (e, k) ∈ L := by
  simp only [pkExtend, List.mem_append, List.mem_map] at h
  rcases h with h | ⟨x, hx, rfl⟩
  · exact Or.inl h
  · exact Or.inr ⟨x.2, hx⟩

theorem PackEmits.linksOK {G : Str → Prop} {fs : FS} {cwd : Str} {o : PackOpts} {root : Str} {st st' : PState}
    (h : PackEmits G fs cwd o root st st') (hm : PackLinksOK fs cwd o root st) : PackLinksOK fs cwd o root st' := by
  obtain ⟨L, hL, e⟩ := h
  subst e
  intro e he hs
  rcases pkExtend_entries_mem he with h | ⟨k, hk⟩
  · exact hm e h hs
  · exact (hL _ hk).linkOK hs

theorem PackEmits.bodiesOK {G : Str → Prop} {fs : FS} {cwd : Str} {o : PackOpts} {root : Str} {st st' : PState}
    (h : PackEmits G fs cwd o root st st') (hm : PackBodiesOK fs st) : PackBodiesOK fs st' := by
  obtain ⟨L, hL, e⟩ := h
  subst e
  intro e he hs
  rcases pkExtend_entries_mem he with h | ⟨k, hk⟩
  · exact hm e h hs
  · exact (hL _ hk).bodyOK hs
/-- with dereferencing off, a regular entry is a regular file that `Lstat` saw at a walk path -/
theorem PackEmit.bodyDirect {G : Str → Prop} {fs : FS} {cwd : Str} {o : PackOpts} {root : Str} {e : Entry} {k : Nat}
    (h : PackEmit G fs cwd o root e k) (hd : o.dereference = false) (hr : e.isRegular = true) :
    ∃ path perm mt, fs.lstat path = .ok (.file perm mt e.body) := by
  cases h with
  | dir sub perm mt => exact absurd hr (by simp [Entry.isRegular, tDir, tReg, tRegA])
  | file path sub perm mt content hg hl => exact ⟨path, perm, mt, hl⟩
  | symlink path sub target hg hl hv => exact absurd hr (by simp [Entry.isRegular, tReg, tRegA, tSymlink])
  | deref path sub target absTarget perm mt content body hd' => rw [hd] at hd'; cases hd'

theorem PackEmits.bodiesDirect {G : Str → Prop} {fs : FS} {cwd : Str} {o : PackOpts} {root : Str} {st st' : PState}
    (h : PackEmits G fs cwd o root st st') (hd : o.dereference = false)
    (hm : ∀ e ∈ st.entries, e.isRegular = true → ∃ path perm mt, fs.lstat path = .ok (.file perm mt e.body)) :
    ∀ e ∈ st'.entries, e.isRegular = true → ∃ path perm mt, fs.lstat path = .ok (.file perm mt e.body) := by
  obtain ⟨L, hL, e⟩ := h
  subst e
  intro e he hs
  rcases pkExtend_entries_mem he with h | ⟨k, hk⟩
  · exact hm e h hs
  · exact (hL _ hk).bodyDirect hd hs

/-! ## walk paths stay below the root (no dereferencing) -/

/-- every component of every bound path is a plain name without a separator — what a real
filesystem guarantees for directory entries -/
def PackNamesOK (fs : FS) : Prop := ∀ e ∈ fs, ∀ c ∈ e.1, NameNS c

theorem pk_insertSorted_mem (x : Str) (l : List Str) : ∀ y ∈ insertSorted x l, y = x ∨ y ∈ l := by
  induction l with
  | nil => intro y hy; simp [insertSorted] at hy; exact Or.inl hy
  | cons z r ih =>
    intro y hy
    rw [insertSorted] at hy
    split at hy
    · simp only [List.mem_cons] at hy
      rcases hy with h | h | h
      · exact Or.inl h
      · exact Or.inr (by simp [h])
      · exact Or.inr (by simp [h])
    · simp only [List.mem_cons] at hy
      rcases hy with h | h
      · exact Or.inr (by simp [h])
      · rcases ih y h with h' | h'
        · exact Or.inl h'
        · exact Or.inr (by simp [h'])

theorem pk_foldr_insertSorted_mem (l : List Str) : ∀ y ∈ l.foldr insertSorted [], y ∈ l := by
  induction l with
  | nil => intro y hy; cases hy
  | cons x r ih =>
    intro y hy
    rw [List.foldr_cons] at hy
    rcases pk_insertSorted_mem x _ y hy with h | h
    · simp [h]
    · exact List.mem_cons_of_mem _ (ih y h)

theorem pk_dedup_mem (l : List Str) : ∀ (acc : List Str),
    ∀ y ∈ l.foldl (fun acc n => if acc.contains n then acc else acc ++ [n]) acc, y ∈ acc ∨ y ∈ l := by
  induction l with
  | nil => intro acc y hy; exact Or.inl hy
  | cons x r ih =>
    intro acc y hy
    rw [List.foldl_cons] at hy
    rcases ih _ y hy with h | h
    · split at h
      · exact Or.inl h
      · rcases List.mem_append.mp h with h' | h'
        · exact Or.inl h'
        · simp at h'; exact Or.inr (by simp [h'])
    · exact Or.inr (List.mem_cons_of_mem _ h)

theorem pk_readdir_names (fs : FS) (hfs : PackNamesOK fs) (p : PPath) : ∀ n ∈ fs.readdir p, NameNS n := by
  intro n hn
  unfold FS.readdir at hn
  simp only at hn
  have h1 := pk_foldr_insertSorted_mem _ n hn
  rcases pk_dedup_mem _ [] n h1 with h2 | h2
  · cases h2
  · rw [List.mem_filterMap] at h2
    obtain ⟨e, he, hs⟩ := h2
    split at hs
    · exact hfs e he n (List.mem_of_getLast? hs)
    · cases hs

/-- "an absolute clean path at or below `root`" -/
def PkBelow (root : Str) (p : Str) : Prop := AbsClean p ∧ pathSegs root <+: pathSegs p

theorem packPathInv_below (fs : FS) (o : PackOpts) (root : Str) (hfs : PackNamesOK fs)
    (hd : o.dereference = false) : PackPathInv (PkBelow root) fs o := by
  constructor
  · intro path p n hg _ hn
    have hname := pk_readdir_names fs hfs p n hn
    refine ⟨pathJoin_absClean path n hg.1.1, ?_⟩
    rw [pathSegs_pathJoin_name path n hg.1 hname]
    exact List.IsPrefix.trans hg.2 (List.prefix_append _ _)
  · intro h; rw [hd] at h; cases h

theorem pk_root_absClean (fs : FS) (cwd src : Str) (hcwd : isAbs cwd = true) : AbsClean (pkRoot fs cwd src) := by
  unfold pkRoot pathAbs
  split
  · rename_i h; exact pathClean_absClean _ h
  · exact pathJoin_absClean _ _ hcwd

theorem pk_pack_emits_below (fs : FS) (cwd : Str) (o : PackOpts) (src : Str) (hfs : PackNamesOK fs)
    (hd : o.dereference = false) (hcwd : isAbs cwd = true) :
    PackEmits (PkBelow (pkRoot fs cwd src)) fs cwd o (pkRoot fs cwd src) pkEmpty (pack fs cwd o src).1 := by
  rw [pk_pack_eq]
  split
  · exact .refl _
  · split
    · exact .refl _
    · rename_i n hn
      rw [pkFinish_fst]
      exact (pk_walk_emitsG _ fs cwd o _ _ (packPathInv_below fs o _ hfs hd) packFuel).1 _ _ _ _ _
        ⟨pk_root_absClean fs cwd src hcwd, List.prefix_refl _⟩ hn

theorem PackEmit.bodyBelow {G : Str → Prop} {fs : FS} {cwd : Str} {o : PackOpts} {root : Str} {e : Entry} {k : Nat}
    (h : PackEmit G fs cwd o root e k) (hd : o.dereference = false) (hr : e.isRegular = true) :
    ∃ path perm mt, G path ∧ fs.lstat path = .ok (.file perm mt e.body) := by
  cases h with
  | dir sub perm mt => exact absurd hr (by simp [Entry.isRegular, tDir, tReg, tRegA])
  | file path sub perm mt content hg hl => exact ⟨path, perm, mt, hg, hl⟩
  | symlink path sub target hg hl hv => exact absurd hr (by simp [Entry.isRegular, tReg, tRegA, tSymlink])
  | deref path sub target absTarget perm mt content body hd' => rw [hd] at hd'; cases hd'
/-! ## how a result travels up -/

section
variable (fs : FS) (cwd : Str) (o : PackOpts) (rules : Option (List Rule)) (root src dst : Str)

/-- the callback on a symlink that passes the ignore tests (which look at the archive path `sub`
since the repair of finding F43), is not the root itself, fails `validSymlink`, with dereferencing
off: illegal slug, state untouched -/
theorem pk_visit_link_illegal (fuel : Nat) (path target sub0 sub : Str) (st : PState)
    (h1 : pathRel src path = some sub0) (h2 : sub0 ≠ dot)
    (h4 : pathRel root (replaceFirst path src dst) = some sub) (h5 : sub ≠ dot)
    (h3 : (ruleExcludes rules sub).1 = false)
    (hv : validSymlink cwd o.allow root path target = false) (hd : o.dereference = false) :
    visit fs cwd o rules root src dst (fuel + 1) path (.link target) st = (st, .stop .illegal) := by
  rw [visit]
  · simp [h1, h2, h3, h4, h5, hv, hd]
  · intro _ _ h; cases h

theorem pk_walkNode_stop_of_visit (fuel : Nat) (path : Str) (node : Node) (st st' : PState) (x : PResult)
    (h : visit fs cwd o rules root src dst fuel path node st = (st', .stop x)) :
    walkNode fs cwd o rules root src dst (fuel + 1) path node st = (st', .stop x) := by
  cases node with
  | dir perm mt => rw [walkNode]; simp [h]
  | file perm mt c => rw [walkNode]; exact h; intro _ _ h; cases h
  | link t => rw [walkNode]; exact h; intro _ _ h; cases h
  | special => rw [walkNode]; exact h; intro _ _ h; cases h

theorem pk_walkNode_dir_cont (fuel : Nat) (path : Str) (perm : Nat) (mt : Int) (st st1 : PState) (p : PPath)
    (h : visit fs cwd o rules root src dst fuel path (.dir perm mt) st = (st1, .cont))
    (hp : fs.resolvePath path true = .ok p) :
    walkNode fs cwd o rules root src dst (fuel + 1) path (.dir perm mt) st =
      walkChildren fs cwd o rules root src dst fuel path (fs.readdir p) st1 := by
  rw [walkNode]; simp [h, hp]

theorem pk_walkChildren_stop_of_child (fuel : Nat) (path name : Str) (rest : List Str) (child : Node)
    (st st1 : PState) (x : PResult) (hl : fs.lstat (pathJoin path name) = .ok child)
    (h : walkNode fs cwd o rules root src dst fuel (pathJoin path name) child st = (st1, .stop x)) :
    walkChildren fs cwd o rules root src dst (fuel + 1) path (name :: rest) st = (st1, .stop x) := by
  rw [walkChildren]; simp [hl, h]

theorem pk_walkChildren_cont_of_child (fuel : Nat) (path name : Str) (rest : List Str) (child : Node)
    (st st1 : PState) (hl : fs.lstat (pathJoin path name) = .ok child)
    (h : walkNode fs cwd o rules root src dst fuel (pathJoin path name) child st = (st1, .cont)) :
    walkChildren fs cwd o rules root src dst (fuel + 1) path (name :: rest) st =
      walkChildren fs cwd o rules root src dst fuel path rest st1 := by
  rw [walkChildren]; simp [hl, h]

end

theorem pk_pack_stop (fs : FS) (cwd : Str) (o : PackOpts) (src : Str) (info n : Node) (st : PState) (x : PResult)
    (hi : pkRootInfo fs cwd src = .ok info) (hn : fs.lstat (pkRoot fs cwd src) = .ok n)
    (h : walkNode fs cwd o (pkRules fs cwd o src) (pkRoot fs cwd src) (pkRoot fs cwd src) (pkRoot fs cwd src)
      packFuel (pkRoot fs cwd src) n pkEmpty = (st, .stop x)) :
    pack fs cwd o src = (st, x) := by
  rw [pk_pack_eq]; simp [hi, hn, h, pkFinish]
/-! ## where an illegal-slug result comes from -/

/-- every failure of `resolveExternalLink` is an I/O error (a failed `Readlink`/`Lstat`, or "too
many levels of symbolic links" when the hop bound is reached) -/
theorem pk_resolveExternalLink_err_ioerr (fs : FS) : ∀ (fuel : Nat) (path : Str) (r : PResult),
    resolveExternalLink fs fuel path = .error r → r = .ioerr := by
  intro fuel
  induction fuel with
  | zero => intro path r h; simp [resolveExternalLink] at h; exact h.symm
  | succ fuel ih =>
    intro path r h
    rw [resolveExternalLink] at h
    split at h
    · cases h; rfl
    · simp only at h
      split at h
      · cases h; rfl
      · exact ih _ _ h
      · cases h

theorem pk_resolveExternalLink_err (fs : FS) (fuel : Nat) (path : Str) (r : PResult)
    (h : resolveExternalLink fs fuel path = .error r) : r = .ioerr ∨ r = .diverged :=
  Or.inl (pk_resolveExternalLink_err_ioerr fs fuel path r h)

/-- `resolveExternalLink` never reports `diverged`: the chain it follows is bounded -/
theorem pk_resolveExternalLink_never_diverges (fs : FS) (n : Nat) (path : Str) :
    resolveExternalLink fs n path ≠ .error .diverged := by
  intro h
  cases pk_resolveExternalLink_err_ioerr fs n path _ h

/-- the only source of the illegal-slug result: dereferencing is off and some symlink on disk
failed `validSymlink` -/
def PackIllegalCause (fs : FS) (cwd : Str) (o : PackOpts) (root : Str) : Prop :=
  o.dereference = false ∧
    ∃ path target, fs.lstat path = .ok (.link target) ∧ validSymlink cwd o.allow root path target = false

theorem pk_visit_illegal (fs : FS) (cwd : Str) (o : PackOpts) (rules : Option (List Rule)) (root : Str) (fuel : Nat)
    (ihN : ∀ v src dst path node st, fs.lstat path = .ok node →
      (walkNode fs cwd (o.vis v) rules root src dst fuel path node st).2 = .stop .illegal →
      PackIllegalCause fs cwd o root) :
    ∀ v src dst path node st, fs.lstat path = .ok node →
      (visit fs cwd (o.vis v) rules root src dst (fuel + 1) path node st).2 = .stop .illegal →
      PackIllegalCause fs cwd o root := by
  intro v src dst path node st hl
  cases node <;> rw [visit] <;> first | (intro _ _ h; cases h) | skip
  all_goals simp only [↓reduceIte, Bool.false_eq_true]
  all_goals repeat' split
  all_goals first | (intro h; cases h; done) | skip
  · rename_i hv hd
    intro _
    exact ⟨by simpa using hd, path, _, hl, by simpa using hv⟩
  · rename_i r hr
    intro h
    cases h
    rcases pk_resolveExternalLink_err fs _ _ _ hr with h | h <;> cases h
  · rename_i child hc _ _
    exact ihN _ _ _ _ _ _ hc

/-- `pk_walk_illegal` for every `visiting` list -/
theorem pk_walk_illegal_vis (fs : FS) (cwd : Str) (o : PackOpts) (rules : Option (List Rule)) (root : Str) :
    ∀ fuel : Nat,
      (∀ v src dst path node st, fs.lstat path = .ok node →
        (walkNode fs cwd (o.vis v) rules root src dst fuel path node st).2 = .stop .illegal →
        PackIllegalCause fs cwd o root) ∧
      (∀ v src dst path names st,
        (walkChildren fs cwd (o.vis v) rules root src dst fuel path names st).2 = .stop .illegal →
        PackIllegalCause fs cwd o root) ∧
      (∀ v src dst path node st, fs.lstat path = .ok node →
        (visit fs cwd (o.vis v) rules root src dst fuel path node st).2 = .stop .illegal →
        PackIllegalCause fs cwd o root) := by
  intro fuel
  induction fuel with
  | zero =>
    refine ⟨?_, ?_, ?_⟩
    · intro v src dst path node st _; rw [walkNode]; intro h; cases h
    · intro v src dst path names st; rw [walkChildren]; intro h; cases h
    · intro v src dst path node st _; rw [visit]; intro h; cases h
  | succ fuel ih =>
    obtain ⟨ihN, ihC, ihV⟩ := ih
    refine ⟨?_, ?_, ?_⟩
    · intro v src dst path node st hl
      have hv := ihV v src dst path _ st hl
      cases node with
      | dir perm mt =>
        rw [walkNode]
        simp only
        split
        · split
          · intro h; cases h
          · exact ihC _ _ _ _ _ _
        · rename_i hne
          intro h
          exact hv h
      | file perm mt c => rw [walkNode]; exact hv; intro _ _ h; cases h
      | link t => rw [walkNode]; exact hv; intro _ _ h; cases h
      | special => rw [walkNode]; exact hv; intro _ _ h; cases h
    · intro v src dst path names st
      cases names with
      | nil => rw [walkChildren]; intro h; cases h
      | cons name rest =>
        rw [walkChildren]
        simp only
        split
        · intro h; cases h
        · rename_i child hc
          have hn := ihN v src dst _ _ st hc
          split
          · exact ihC _ _ _ _ _ _
          · split
            · exact ihC _ _ _ _ _ _
            · intro h; cases h
          · rename_i x hx
            intro h
            cases h
            exact hn hx
    · exact pk_visit_illegal fs cwd o rules root fuel ihN

theorem pk_walk_illegal (fs : FS) (cwd : Str) (o : PackOpts) (rules : Option (List Rule)) (root : Str) :
    ∀ fuel : Nat,
      (∀ src dst path node st, fs.lstat path = .ok node →
        (walkNode fs cwd o rules root src dst fuel path node st).2 = .stop .illegal →
        PackIllegalCause fs cwd o root) ∧
      (∀ src dst path names st,
        (walkChildren fs cwd o rules root src dst fuel path names st).2 = .stop .illegal →
        PackIllegalCause fs cwd o root) ∧
      (∀ src dst path node st, fs.lstat path = .ok node →
        (visit fs cwd o rules root src dst fuel path node st).2 = .stop .illegal →
        PackIllegalCause fs cwd o root) := by
  intro fuel
  have h := pk_walk_illegal_vis fs cwd o rules root fuel
  exact ⟨h.1 o.visiting, h.2.1 o.visiting, h.2.2 o.visiting⟩

/-- `Pack` reports an illegal slug only when dereferencing is off and some symlink failed
`validSymlink` -/
theorem pk_pack_illegal (fs : FS) (cwd : Str) (o : PackOpts) (src : Str)
    (h : (pack fs cwd o src).2 = .illegal) : PackIllegalCause fs cwd o (pkRoot fs cwd src) := by
  rw [pk_pack_eq] at h
  split at h
  · cases h
  · split at h
    · cases h
    · rename_i n hn
      refine (pk_walk_illegal fs cwd o (pkRules fs cwd o src) (pkRoot fs cwd src) packFuel).1
        (pkRoot fs cwd src) (pkRoot fs cwd src) (pkRoot fs cwd src) n pkEmpty hn ?_
      unfold pkFinish at h
      simp only at h
      split at h
      · rename_i r hr; rw [hr, h]
      · cases h
/-! ## the working directory -/

theorem pk_validSymlink_cwd (cwd cwd' : Str) (allow : List Str) (root p t : Str) (h : AbsClean root) :
    validSymlink cwd allow root p t = validSymlink cwd' allow root p t := by
  unfold validSymlink
  rw [pathAbs_absClean cwd root h, pathAbs_absClean cwd' root h]

/-- `pk_walk_cwd` with the options quantified inside the induction on fuel -/
theorem pk_walk_cwd_all (fs : FS) (cwd cwd' : Str) (rules : Option (List Rule)) (root : Str)
    (hroot : AbsClean root) :
    ∀ fuel : Nat,
      (∀ o src dst path node st, walkNode fs cwd o rules root src dst fuel path node st =
        walkNode fs cwd' o rules root src dst fuel path node st) ∧
      (∀ o src dst path names st, walkChildren fs cwd o rules root src dst fuel path names st =
        walkChildren fs cwd' o rules root src dst fuel path names st) ∧
      (∀ o src dst path node st, visit fs cwd o rules root src dst fuel path node st =
        visit fs cwd' o rules root src dst fuel path node st) := by
  intro fuel
  induction fuel with
  | zero =>
    refine ⟨?_, ?_, ?_⟩
    · intros; rw [walkNode, walkNode]
    · intros; rw [walkChildren, walkChildren]
    · intros; rw [visit, visit]
  | succ fuel ih =>
    obtain ⟨ihN, ihC, ihV⟩ := ih
    refine ⟨?_, ?_, ?_⟩
    · intro o src dst path node st
      cases node with
      | dir perm mt => rw [walkNode, walkNode]; simp only [ihV, ihC]
      | file perm mt c =>
        rw [walkNode, walkNode]
        · exact ihV _ _ _ _ _ _
        · intro _ _ h; cases h
        · intro _ _ h; cases h
      | link t =>
        rw [walkNode, walkNode]
        · exact ihV _ _ _ _ _ _
        · intro _ _ h; cases h
        · intro _ _ h; cases h
      | special =>
        rw [walkNode, walkNode]
        · exact ihV _ _ _ _ _ _
        · intro _ _ h; cases h
        · intro _ _ h; cases h
    · intro o src dst path names st
      cases names with
      | nil => rw [walkChildren, walkChildren]
      | cons name rest => rw [walkChildren, walkChildren]; simp only [ihN, ihC]
    · intro o src dst path node st
      cases node <;> rw [visit, visit] <;>
        first | rfl | (intro _ _ h; cases h) | (simp only [ihN, pk_validSymlink_cwd cwd cwd' _ _ _ _ hroot])

theorem pk_walk_cwd (fs : FS) (cwd cwd' : Str) (o : PackOpts) (rules : Option (List Rule)) (root : Str)
    (hroot : AbsClean root) :
    ∀ fuel : Nat,
      (∀ src dst path node st, walkNode fs cwd o rules root src dst fuel path node st =
        walkNode fs cwd' o rules root src dst fuel path node st) ∧
      (∀ src dst path names st, walkChildren fs cwd o rules root src dst fuel path names st =
        walkChildren fs cwd' o rules root src dst fuel path names st) ∧
      (∀ src dst path node st, visit fs cwd o rules root src dst fuel path node st =
        visit fs cwd' o rules root src dst fuel path node st) := by
  intro fuel
  have h := pk_walk_cwd_all fs cwd cwd' rules root hroot fuel
  exact ⟨h.1 o, h.2.1 o, h.2.2 o⟩
/-- an absolute clean path has no trailing slash (except `/` itself): `Pack` uses `Lstat` on it -/
theorem pk_rootInfo_absClean (fs : FS) (cwd src : Str) (h : AbsClean src) :
    pkRootInfo fs cwd src = fs.lstat src := by
  unfold pkRootInfo
  rw [pathAbs_absClean cwd src h]
  have hc : ¬ (hasSuffix src ['/'] = true ∧ src ≠ ['/']) := by
    intro ⟨h1, h2⟩
    by_cases hn : pathSegs src = []
    · apply h2
      rw [absClean_eq_ofSegs src h, hn]; rfl
    · rw [absClean_eq_ofSegs src h, ps_hasSuffix_ofSegs _ hn (absClean_segs src h)] at h1
      cases h1
  rw [if_neg hc]

theorem pk_loadIgnore_cwd (fs : FS) (cwd cwd' s : Str) (h : isAbs s = true) :
    loadIgnore fs cwd s = loadIgnore fs cwd' s := by
  unfold loadIgnore
  rw [pathAbs_absClean cwd _ (pathJoin_absClean s _ h), pathAbs_absClean cwd' _ (pathJoin_absClean s _ h)]

theorem pk_pathAbs_abs (cwd s : Str) (h : isAbs s = true) : pathAbs cwd s = pathClean s := by
  unfold pathAbs; rw [if_pos h]

/-- `Pack` on an absolute clean source path whose root symlink (if any) has an absolute target does
not look at the working directory -/
theorem pk_pack_cwd (fs : FS) (cwd cwd' : Str) (o : PackOpts) (src : Str) (hs : AbsClean src)
    (hl : ∀ t, fs.lstat src = .ok (.link t) → isAbs t = true) :
    pack fs cwd o src = pack fs cwd' o src := by
  have hi : pkRootInfo fs cwd src = pkRootInfo fs cwd' src := by
    rw [pk_rootInfo_absClean fs cwd src hs, pk_rootInfo_absClean fs cwd' src hs]
  have hs1 : pkSrc1 fs cwd src = pkSrc1 fs cwd' src := by
    unfold pkSrc1; rw [hi]
  have habs : isAbs (pkSrc1 fs cwd src) = true := by
    unfold pkSrc1
    rw [pk_rootInfo_absClean fs cwd src hs]
    split
    · rename_i t ht; exact hl t ht
    · exact hs.1
  have hroot : pkRoot fs cwd src = pkRoot fs cwd' src := by
    unfold pkRoot
    rw [← hs1, pk_pathAbs_abs cwd _ habs, pk_pathAbs_abs cwd' _ habs]
  have hrc : AbsClean (pkRoot fs cwd src) := by
    unfold pkRoot
    rw [pk_pathAbs_abs cwd _ habs]
    exact pathClean_absClean _ habs
  have hrules : pkRules fs cwd o src = pkRules fs cwd' o src := by
    unfold pkRules
    rw [← hs1, pk_loadIgnore_cwd fs cwd cwd' _ habs]
  rw [pk_pack_eq, pk_pack_eq, ← hi, ← hroot, ← hrules]
  simp only [(pk_walk_cwd fs cwd cwd' o _ _ hrc packFuel).1]
/-! ## spellings of the source path -/

theorem pk_resolve_follow_eq (fs : FS) : ∀ (fuel : Nat) (cur : PPath) (segs : List Seg),
    (∀ p t, resolve fs fuel cur segs false = .ok p → fs.lookup p ≠ some (.link t)) →
    resolve fs fuel cur segs true = resolve fs fuel cur segs false := by
  intro fuel
  induction fuel with
  | zero => intro cur segs _; simp [resolve]
  | succ fuel ih =>
    intro cur segs hl
    cases segs with
    | nil => simp [resolve]
    | cons s rest =>
      rw [resolve, resolve] at *
      split
      · rename_i hs
        rw [if_pos hs] at hl
        exact ih _ _ hl
      · rename_i hs
        rw [if_neg hs] at hl
        simp only at hl ⊢
        split
        · rfl
        · rename_i pm mt hlk
          rw [hlk] at hl
          exact ih _ _ hl
        · rename_i t hlk
          rw [hlk] at hl
          simp only at hl
          by_cases hr : rest = []
          · subst hr
            simp only [Bool.not_false, and_self, if_true] at hl
            exact absurd hlk (hl _ t rfl)
          · simp only [hr, false_and, if_false] at hl ⊢
            split
            · rfl
            · rename_i ht
              rw [if_neg ht] at hl
              exact ih _ _ hl
        · rfl

/-- when `Lstat` does not report a symlink, `Stat` reports the same thing -/
theorem pk_stat_eq_lstat (fs : FS) (path : Str) (h : ∀ t, fs.lstat path ≠ .ok (.link t)) :
    (fs.stat path).map (·.2) = fs.lstat path := by
  have hr : fs.resolvePath path true = fs.resolvePath path false := by
    unfold FS.resolvePath
    apply pk_resolve_follow_eq
    intro p t hp hlk
    apply h t
    unfold FS.lstat FS.resolvePath
    rw [hp]
    simp only [hlk]
  unfold FS.stat FS.lstat
  rw [hr]
  cases fs.resolvePath path false with
  | error e => rfl
  | ok p => simp only; cases fs.lookup p <;> rfl
/-- the root `Lstat` of `Pack` is a plain `Lstat` of the absolute path when that is not a symlink —
and, for a spelling with a trailing slash, not a regular or special file either (`Lstat("file/")`
is `ENOTDIR`) -/
theorem pk_rootInfo_nolink (fs : FS) (cwd s : Str) (h : ∀ t, fs.lstat (pathAbs cwd s) ≠ .ok (.link t))
    (hd : hasSuffix s ['/'] = true → ∀ n, fs.lstat (pathAbs cwd s) = .ok n → ∃ pm mt, n = .dir pm mt) :
    pkRootInfo fs cwd s = fs.lstat (pathAbs cwd s) := by
  unfold pkRootInfo
  split
  · rename_i hc
    have hsl := pk_stat_eq_lstat fs _ h
    have hd' := hd hc.1
    revert hsl hd'
    generalize fs.lstat (pathAbs cwd s) = l
    generalize fs.stat (pathAbs cwd s) = st
    intro hsl hd'
    cases st with
    | error e => exact hsl
    | ok pn =>
      obtain ⟨p, n⟩ := pn
      obtain ⟨pm, mt, rfl⟩ := hd' n hsl.symm
      exact hsl
  · rfl

theorem pk_pathJoin_clean_left (a b : Str) (ha : isAbs a = true) : pathJoin (pathClean a) b = pathJoin a b := by
  rw [pathJoin_abs _ _ (pathClean_absClean a ha).1, pathJoin_abs a b ha, pathSegs_pathClean a ha, clean_join]

theorem pk_loadIgnore_spelling (fs : FS) (cwd s s' : Str) (hs : isAbs s = true) (hs' : isAbs s' = true)
    (hc : pathClean s = pathClean s') : loadIgnore fs cwd s = loadIgnore fs cwd s' := by
  unfold loadIgnore
  rw [← pk_pathJoin_clean_left s _ hs, ← pk_pathJoin_clean_left s' _ hs', hc]

/-- two absolute spellings of the same clean path for which the root `Lstat` step gives the same
answer are packed alike -/
theorem pk_pack_spelling_core (fs : FS) (cwd : Str) (o : PackOpts) (s s' : Str)
    (hs : isAbs s = true) (hs' : isAbs s' = true) (hc : pathClean s = pathClean s')
    (hi : pkRootInfo fs cwd s = pkRootInfo fs cwd s') :
    pack fs cwd o s = pack fs cwd o s' := by
  have key : pkRoot fs cwd s = pkRoot fs cwd s' ∧ pkRules fs cwd o s = pkRules fs cwd o s' := by
    unfold pkRoot pkRules pkSrc1
    rw [hi]
    split
    · exact ⟨rfl, rfl⟩
    · rw [pk_pathAbs_abs cwd s hs, pk_pathAbs_abs cwd s' hs', hc, pk_loadIgnore_spelling fs cwd s s' hs hs' hc]
      exact ⟨rfl, rfl⟩
  rw [pk_pack_eq, pk_pack_eq, hi, key.1, key.2]
/-! ## a relative spelling: `Abs` distributes over `Join` -/

/-- a cleaned relative segment: no separator, not empty, not `.` (it may be `..`) -/
def PkSeg (x : Seg) : Prop := '/' ∉ x ∧ x ≠ [] ∧ x ≠ dot

theorem pk_step_false_mem (st : List Seg) (s : Seg) : ∀ x ∈ step false st s, x ∈ st ∨ x = s := by
  intro x hx
  unfold step at hx
  split at hx
  · exact Or.inl hx
  · split at hx
    · rename_i hs
      split at hx
      · simp at hx; exact Or.inr (by rw [hx, hs])
      · split at hx
        · simp only [List.mem_cons] at hx
          rcases hx with h | h | h
          · exact Or.inr (by rw [h, hs])
          · exact Or.inl (by simp [h])
          · exact Or.inl (by simp [h])
        · exact Or.inl (List.mem_cons_of_mem _ hx)
    · simp only [List.mem_cons] at hx
      rcases hx with h | h
      · exact Or.inr h
      · exact Or.inl h

theorem pk_run_false_mem (xs : List Seg) : ∀ st : List Seg, ∀ x ∈ run false st xs, x ∈ st ∨ x ∈ xs := by
  induction xs with
  | nil => intro st x hx; exact Or.inl hx
  | cons y ys ih =>
    intro st x hx
    rw [ps_run_cons] at hx
    rcases ih _ x hx with h | h
    · rcases pk_step_false_mem st y x h with h' | h'
      · exact Or.inl h'
      · exact Or.inr (by simp [h'])
    · exact Or.inr (List.mem_cons_of_mem _ h)

theorem pk_normal_mem (r : Bool) (st : List Seg) (h : Normal r st) : ∀ s ∈ st, Plain s ∨ s = dotdot := by
  induction h with
  | nil => intro s hs; cases hs
  | dots st _ hall => intro s hs; exact Or.inr (hall s hs)
  | name t st hp _ ih =>
    intro s hs
    simp only [List.mem_cons] at hs
    rcases hs with e | e
    · rw [e]; exact Or.inl hp
    · exact ih s e

/-- the segments of a cleaned path -/
theorem pk_cleanSegs_pkSeg (r : Bool) (s : Str) : ∀ x ∈ cleanSegs r (splitOn '/' s), PkSeg x := by
  intro x hx
  unfold cleanSegs at hx
  have hx' := List.mem_reverse.mp hx
  have hp := pk_normal_mem r _ (run_normal r [] (splitOn '/' s) Normal.nil) x hx'
  have hns : '/' ∉ x := by
    rcases hp with hp | hp
    · cases r with
      | false =>
        rcases pk_run_false_mem _ [] x hx' with h | h
        · cases h
        · exact splitOn_noSep '/' s x h
      | true =>
        rcases ps_run_true_mem _ [] x hx' with h | h
        · cases h
        · exact splitOn_noSep '/' s x h
    · rw [hp]; decide
  rcases hp with hp | hp
  · exact ⟨hns, hp.1, hp.2.1⟩
  · exact ⟨hns, by rw [hp]; decide, by rw [hp]; decide⟩

theorem pk_pathSegs_joinWith (N : List Seg) (h : ∀ x ∈ N, PkSeg x) : pathSegs (joinWith '/' N) = N := by
  by_cases hne : N = []
  · subst hne; decide
  · unfold pathSegs
    rw [splitOn_joinWith '/' N hne (fun x hx => (h x hx).1), List.filter_eq_self]
    intro x hx
    simp [(h x hx).2.1, (h x hx).2.2]

/-- cleaning a relative path string, segment-wise -/
theorem pk_pathSegs_pathClean_rel (s : Str) (h : isAbs s = false) :
    pathSegs (pathClean s) = cleanSegs false (pathSegs s) := by
  unfold pathClean
  simp only [h, Bool.false_eq_true, if_false]
  rw [cleanSegs_splitOn]
  split
  · rename_i he; rw [he]; decide
  · rw [← cleanSegs_splitOn]
    exact pk_pathSegs_joinWith _ (pk_cleanSegs_pkSeg false s)

theorem pk_isAbs_joinWith (Q : List Seg) (h : ∀ x ∈ Q, PkSeg x) : isAbs (joinWith '/' Q) = false := by
  cases Q with
  | nil => rfl
  | cons q Q' =>
    have hq := h q (by simp)
    cases q with
    | nil => exact absurd rfl hq.2.1
    | cons c q' =>
      have hc : c ≠ '/' := by intro e; apply hq.1; simp [e]
      cases Q' with
      | nil => simp [joinWith, isAbs, hc]
      | cons t r => simp [joinWith, isAbs, hc]

/-- `Clean` keeps a relative path relative -/
theorem pk_isAbs_pathClean_rel (s : Str) (h : isAbs s = false) : isAbs (pathClean s) = false := by
  unfold pathClean
  simp only [h, Bool.false_eq_true, if_false]
  split
  · decide
  · exact pk_isAbs_joinWith _ (pk_cleanSegs_pkSeg false s)
/-- one step of the two machines side by side: the relative machine on `N ++ ..^k`, the rooted
machine on `N ++ st0.drop k` (`N` names on top; `k` pending `..`) -/
theorem pk_sim_step (st0 N : List Seg) (k : Nat) (x : Seg) (hst0 : ∀ s ∈ st0, Plain s)
    (hN : ∀ s ∈ N, Plain s) :
    ∃ N' k', step false (N ++ List.replicate k dotdot) x = N' ++ List.replicate k' dotdot ∧
      (∀ s ∈ N', Plain s) ∧ step true (N ++ st0.drop k) x = N' ++ st0.drop k' := by
  by_cases hskip : x = [] ∨ x = dot
  · exact ⟨N, k, ps_step_skip _ _ x hskip, hN, ps_step_skip _ _ x hskip⟩
  · by_cases hdd : x = dotdot
    · subst hdd
      cases N with
      | cons t N' =>
        have ht : Plain t := hN t (by simp)
        refine ⟨N', k, ?_, fun s hs => hN s (by simp [hs]), ?_⟩
        · simp [step, ht.2.2]
        · simp [step, ht.2.2]
      | nil =>
        refine ⟨[], k + 1, ?_, by simp, ?_⟩
        · cases k with
          | zero => simp [step]
          | succ k => simp [step, List.replicate_succ]
        · simp only [List.nil_append]
          cases hd : st0.drop k with
          | nil =>
            have : st0.drop (k + 1) = [] := by
              rw [← List.drop_drop, hd]; rfl
            simp [step, this]
          | cons t r =>
            have ht : Plain t := hst0 t (List.mem_of_mem_drop (by rw [hd]; simp))
            have : st0.drop (k + 1) = r := by
              rw [← List.drop_drop, hd]; rfl
            simp [step, ht.2.2, this]
    · have hp : Plain x := ⟨fun h => hskip (Or.inl h), fun h => hskip (Or.inr h), hdd⟩
      refine ⟨x :: N, k, ?_, ?_, ?_⟩
      · rw [ps_step_plain _ _ x hp]; rfl
      · intro s hs
        simp only [List.mem_cons] at hs
        rcases hs with e | e
        · rw [e]; exact hp
        · exact hN s e
      · rw [ps_step_plain _ _ x hp]; rfl

theorem pk_sim_run (st0 : List Seg) (hst0 : ∀ s ∈ st0, Plain s) (B : List Seg) :
    ∀ (N : List Seg) (k : Nat), (∀ s ∈ N, Plain s) →
    ∃ N' k', run false (N ++ List.replicate k dotdot) B = N' ++ List.replicate k' dotdot ∧
      (∀ s ∈ N', Plain s) ∧ run true (N ++ st0.drop k) B = N' ++ st0.drop k' := by
  induction B with
  | nil => intro N k hN; exact ⟨N, k, rfl, hN, rfl⟩
  | cons x B ih =>
    intro N k hN
    obtain ⟨N1, k1, e1, hN1, e2⟩ := pk_sim_step st0 N k x hst0 hN
    obtain ⟨N2, k2, f1, hN2, f2⟩ := ih N1 k1 hN1
    refine ⟨N2, k2, ?_, hN2, ?_⟩
    · rw [ps_run_cons, e1, f1]
    · rw [ps_run_cons, e2, f2]

theorem pk_run_dotdots (st0 : List Seg) (hst0 : ∀ s ∈ st0, Plain s) :
    ∀ k, run true st0 (List.replicate k dotdot) = st0.drop k := by
  intro k
  induction k generalizing st0 with
  | zero => rfl
  | succ k ih =>
    rw [List.replicate_succ, ps_run_cons]
    cases st0 with
    | nil => simp only [step]; simp [ih [] (by simp)]
    | cons t r =>
      have ht : Plain t := hst0 t (by simp)
      have : step true (t :: r) dotdot = r := by simp [step, ht.2.2]
      rw [this, ih r (fun s hs => hst0 s (by simp [hs]))]
      rfl

/-- feeding the rooted machine the cleaned form of a relative path instead of the path itself
makes no difference -/
theorem pk_run_cleanRel (st0 : List Seg) (hst0 : ∀ s ∈ st0, Plain s) (B : List Seg) :
    run true st0 (cleanSegs false B) = run true st0 B := by
  obtain ⟨N, k, e1, hN, e2⟩ := pk_sim_run st0 hst0 B [] 0 (by simp)
  simp only [List.replicate_zero, List.append_nil, List.nil_append, List.drop_zero] at e1 e2
  unfold cleanSegs
  rw [e1, e2, List.reverse_append, List.reverse_replicate, run_append, pk_run_dotdots st0 hst0,
    ps_run_plain true N.reverse _ (fun s hs => hN s (List.mem_reverse.mp hs)), List.reverse_reverse]

theorem pk_cleanSegs_append_cleanRel (A B : List Seg) :
    cleanSegs true (A ++ cleanSegs false B) = cleanSegs true (A ++ B) := by
  unfold cleanSegs
  rw [run_append, run_append]
  have hp := ps_normal_true_plain _ (run_normal true [] A Normal.nil)
  have := pk_run_cleanRel (run true [] A) hp B
  unfold cleanSegs at this
  rw [this]
/-- `filepath.Abs(filepath.Join(rel, x)) = filepath.Join(filepath.Abs(rel), x)` for relative
`rel`, `x` and an absolute working directory -/
theorem pk_pathAbs_pathJoin_rel (cwd rel x : Str) (hcwd : isAbs cwd = true) (hrel : isAbs rel = false)
    (hx : isAbs x = false) (hxne : x ≠ []) :
    pathAbs cwd (pathJoin rel x) = pathJoin (pathAbs cwd rel) x := by
  have hy : ∃ y, pathJoin rel x = pathClean y ∧ isAbs y = false ∧ pathSegs y = pathSegs rel ++ pathSegs x := by
    unfold pathJoin
    by_cases hr : rel = []
    · subst hr
      simp only [if_true, hxne, if_false]
      exact ⟨x, rfl, hx, by rw [ps_pathSegs_nil]; rfl⟩
    · simp only [hr, hxne, if_false]
      refine ⟨rel ++ '/' :: x, rfl, ?_, pathSegs_append_sep rel x⟩
      cases rel with
      | nil => exact absurd rfl hr
      | cons c r => simpa [isAbs] using hrel
  obtain ⟨y, ey, hyabs, hysegs⟩ := hy
  have hcy : isAbs (pathClean y) = false := pk_isAbs_pathClean_rel y hyabs
  have hL : pathAbs cwd (pathJoin rel x) = pathJoin cwd (pathClean y) := by
    rw [ey]; unfold pathAbs; simp [hcy]
  have hR : pathAbs cwd rel = pathJoin cwd rel := by
    unfold pathAbs; simp [hrel]
  rw [hL, hR, pathJoin_abs cwd _ hcwd, pathJoin_abs _ x (pathJoin_absClean cwd rel hcwd).1,
    pathSegs_pathJoin cwd rel hcwd, clean_join, pk_pathSegs_pathClean_rel y hyabs,
    pk_cleanSegs_append_cleanRel, hysegs, List.append_assoc]
/-- a relative spelling of a source that is not a symlink (and, when spelled with a trailing slash,
not a regular or special file) is packed like its absolute form -/
theorem pk_pack_spelling_rel (fs : FS) (cwd : Str) (o : PackOpts) (rel : Str)
    (hcwd : isAbs cwd = true) (hrel : isAbs rel = false)
    (hnl : ∀ t, fs.lstat (pathAbs cwd rel) ≠ .ok (.link t))
    (hd : hasSuffix rel ['/'] = true → ∀ n, fs.lstat (pathAbs cwd rel) = .ok n → ∃ pm mt, n = .dir pm mt) :
    pack fs cwd o rel = pack fs cwd o (pathAbs cwd rel) := by
  have habs : pathAbs cwd rel = pathJoin cwd rel := by unfold pathAbs; simp [hrel]
  have hac : AbsClean (pathAbs cwd rel) := by rw [habs]; exact pathJoin_absClean cwd rel hcwd
  have hfix : pathAbs cwd (pathAbs cwd rel) = pathAbs cwd rel := pathAbs_absClean cwd _ hac
  have hi1 : pkRootInfo fs cwd rel = fs.lstat (pathAbs cwd rel) := pk_rootInfo_nolink fs cwd rel hnl hd
  have hi2 : pkRootInfo fs cwd (pathAbs cwd rel) = fs.lstat (pathAbs cwd rel) :=
    pk_rootInfo_absClean fs cwd _ hac
  have hs1 : pkSrc1 fs cwd rel = rel := by
    unfold pkSrc1; rw [hi1]
    split
    · rename_i t ht; exact absurd ht (hnl t)
    · rfl
  have hs2 : pkSrc1 fs cwd (pathAbs cwd rel) = pathAbs cwd rel := by
    unfold pkSrc1; rw [hi2]
    split
    · rename_i t ht; exact absurd ht (hnl t)
    · rfl
  have hr : pkRoot fs cwd rel = pkRoot fs cwd (pathAbs cwd rel) := by
    unfold pkRoot; rw [hs1, hs2, hfix]
  have hrules : pkRules fs cwd o rel = pkRules fs cwd o (pathAbs cwd rel) := by
    unfold pkRules loadIgnore
    rw [hs1, hs2, pk_pathAbs_pathJoin_rel cwd rel _ hcwd hrel (by decide) (by decide),
      pathAbs_absClean cwd (pathJoin (pathAbs cwd rel) _) (pathJoin_absClean _ _ hac.1)]
  rw [pk_pack_eq, pk_pack_eq, hi1, hi2, hr, hrules]
/-! ## the hop bound of `resolveExternalLink` -/

/-- the chain of symlinks starting at `path` ends within `n` `Readlink` steps: at something that
is not a link, at a dangling target, or because `path` is not a link in the first place -/
def pkChainEnds (fs : FS) : Nat → Str → Bool
  | 0, _ => false
  | n + 1, path =>
    match fs.readlink path with
    | .error _ => true
    | .ok target =>
      match fs.lstat (if isAbs target then target else pathJoin (pathDir path) target) with
      | .ok (.link _) => pkChainEnds fs n (if isAbs target then target else pathJoin (pathDir path) target)
      | _ => true

theorem pk_resolveExternalLink_ends (fs : FS) : ∀ (n : Nat) (path : Str), pkChainEnds fs n path = true →
    resolveExternalLink fs n path ≠ .error .diverged ∧
    ∀ m, n ≤ m → resolveExternalLink fs m path = resolveExternalLink fs n path := by
  intro n
  induction n with
  | zero => intro path h; simp [pkChainEnds] at h
  | succ n ih =>
    intro path h
    rw [pkChainEnds] at h
    constructor
    · rw [resolveExternalLink]
      split
      · intro h'; cases h'
      · rename_i target ht
        rw [ht] at h
        simp only at h ⊢
        split
        · intro h'; cases h'
        · rename_i t hl
          rw [hl] at h
          exact (ih _ h).1
        · intro h'; cases h'
    · intro m hm
      obtain ⟨m', rfl⟩ : ∃ m', m = m' + 1 := ⟨m - 1, by omega⟩
      rw [resolveExternalLink, resolveExternalLink]
      split
      · rfl
      · rename_i target ht
        rw [ht] at h
        simp only at h ⊢
        split
        · rfl
        · rename_i t hl
          rw [hl] at h
          exact (ih _ h).2 m' (by omega)
        · rfl

/-- a chain that does not end within `n` steps exhausts the hop bound `n`: "too many levels of
symbolic links" -/
theorem pk_resolveExternalLink_too_long (fs : FS) : ∀ (n : Nat) (path : Str), pkChainEnds fs n path = false →
    resolveExternalLink fs n path = .error .ioerr := by
  intro n
  induction n with
  | zero => intro path _; rfl
  | succ n ih =>
    intro path h
    rw [pkChainEnds] at h
    rw [resolveExternalLink]
    split
    · rfl
    · rename_i target ht
      rw [ht] at h
      simp only at h ⊢
      split
      · rfl
      · rename_i t hl
        rw [hl] at h
        exact ih _ h
      · rename_i m hnl hm
        rw [hm] at h
        cases m with
        | link t => exact absurd rfl (hnl t)
        | _ => simp at h
/-! ## termination of the walk -/

/-- the physical locations a directory can have: the root and the bound paths -/
def pkLocs (fs : FS) : List PPath := [] :: fs.map (·.1)

/-- the length of the longest bound path -/
def pkMaxLen : FS → Nat
  | [] => 0
  | e :: r => max e.1.length (pkMaxLen r)

/-- how many locations are not on the `visiting` list -/
def pkFree (fs : FS) (v : List PPath) : Nat := ((pkLocs fs).filter (fun p => !v.contains p)).length

theorem pk_get_mem {fs : FS} {q : PPath} {n : Node} (h : fs.get q = some n) : (q, n) ∈ fs := by
  induction fs with
  | nil => cases h
  | cons e r ih =>
    obtain ⟨q', n'⟩ := e
    unfold FS.get at h
    split at h
    · rename_i he; cases h; rw [he]; exact List.mem_cons_self
    · exact List.mem_cons_of_mem _ (ih h)

theorem pk_mem_len {fs : FS} {e : PPath × Node} (h : e ∈ fs) : e.1.length ≤ pkMaxLen fs := by
  induction fs with
  | nil => cases h
  | cons x r ih =>
    unfold pkMaxLen
    rcases List.mem_cons.mp h with h | h
    · rw [h]; exact Nat.le_max_left _ _
    · exact Nat.le_trans (ih h) (Nat.le_max_right _ _)

theorem pk_lookup_len {fs : FS} {q : PPath} {n : Node} (h : fs.lookup q = some n) : q.length ≤ pkMaxLen fs := by
  unfold FS.lookup at h
  split at h
  · rename_i hq; rw [hq]; exact Nat.zero_le _
  · exact pk_mem_len (pk_get_mem h)

theorem pk_lookup_loc {fs : FS} {q : PPath} {n : Node} (h : fs.lookup q = some n) : q ∈ pkLocs fs := by
  unfold FS.lookup at h
  unfold pkLocs
  split at h
  · rename_i hq; rw [hq]; exact List.mem_cons_self
  · exact List.mem_cons_of_mem _ (List.mem_map.mpr ⟨_, pk_get_mem h, rfl⟩)

theorem pkFree_le (fs : FS) (v : List PPath) : pkFree fs v ≤ fs.length + 1 := by
  unfold pkFree
  refine Nat.le_trans (List.length_filter_le _ _) ?_
  simp [pkLocs]

theorem pk_filter_le {α : Type} (p q : α → Bool) (himp : ∀ x, q x = true → p x = true) (l : List α) :
    (l.filter q).length ≤ (l.filter p).length := by
  induction l with
  | nil => exact Nat.le_refl _
  | cons x l ih =>
    by_cases hq : q x = true
    · rw [List.filter_cons_of_pos hq, List.filter_cons_of_pos (himp x hq)]
      simp only [List.length_cons]; omega
    · rw [List.filter_cons_of_neg hq]
      by_cases hp : p x = true
      · rw [List.filter_cons_of_pos hp]; simp only [List.length_cons]; omega
      · rw [List.filter_cons_of_neg hp]; exact ih

theorem pk_filter_lt {α : Type} (p q : α → Bool) (himp : ∀ x, q x = true → p x = true) (a : α)
    (hpa : p a = true) (hqa : q a = false) (l : List α) (ha : a ∈ l) :
    (l.filter q).length < (l.filter p).length := by
  induction l with
  | nil => cases ha
  | cons x l ih =>
    rcases List.mem_cons.mp ha with h | h
    · subst h
      rw [List.filter_cons_of_neg (by simp [hqa]), List.filter_cons_of_pos hpa]
      have := pk_filter_le p q himp l
      simp only [List.length_cons]; omega
    · have := ih h
      by_cases hq : q x = true
      · rw [List.filter_cons_of_pos hq, List.filter_cons_of_pos (himp x hq)]
        simp only [List.length_cons]; omega
      · rw [List.filter_cons_of_neg hq]
        by_cases hp : p x = true
        · rw [List.filter_cons_of_pos hp]; simp only [List.length_cons]; omega
        · rw [List.filter_cons_of_neg hp]; exact this

/-- pushing a location that is not on the list leaves strictly fewer free ones -/
theorem pkFree_push (fs : FS) (v : List PPath) (q : PPath) (hq : q ∈ pkLocs fs) (hv : v.contains q = false) :
    pkFree fs (q :: v) < pkFree fs v := by
  unfold pkFree
  apply pk_filter_lt _ _ _ q _ _ _ hq
  · intro x hx
    simp only [List.contains_cons, Bool.not_eq_eq_eq_not, Bool.not_true, Bool.or_eq_false_iff] at hx
    rw [hx.2]; rfl
  · rw [hv]; rfl
  · simp

/-! ### a directory lists at most as many names as the filesystem has bindings -/

theorem pk_insertSorted_length (x : Str) (l : List Str) : (insertSorted x l).length = l.length + 1 := by
  induction l with
  | nil => rfl
  | cons y r ih =>
    rw [insertSorted]
    split
    · rfl
    · simp [ih]

theorem pk_foldr_insertSorted_length (l : List Str) : (l.foldr insertSorted []).length = l.length := by
  induction l with
  | nil => rfl
  | cons x r ih => rw [List.foldr_cons, pk_insertSorted_length, ih]; rfl

theorem pk_dedup_length (l : List Str) : ∀ acc : List Str,
    (l.foldl (fun acc n => if acc.contains n then acc else acc ++ [n]) acc).length ≤ acc.length + l.length := by
  induction l with
  | nil => intro acc; exact Nat.le_refl _
  | cons x r ih =>
    intro acc
    rw [List.foldl_cons]
    refine Nat.le_trans (ih _) ?_
    split
    · simp only [List.length_cons]; omega
    · simp only [List.length_append, List.length_cons, List.length_nil]; omega

theorem pk_readdir_length (fs : FS) (p : PPath) : (fs.readdir p).length ≤ fs.length := by
  unfold FS.readdir
  simp only
  rw [pk_foldr_insertSorted_length]
  refine Nat.le_trans (pk_dedup_length _ []) ?_
  simp only [List.length_nil, Nat.zero_add]
  exact List.length_filterMap_le _ _


/-- resolving `A ++ [name]` without following the last component ends directly below where `A`
resolves to (following): a child of a directory lies one level below it, physically -/
theorem pk_resolve_snoc (fs : FS) (name : Seg) (hname : name ≠ dotdot) :
    ∀ (n : Nat) (cur : PPath) (A : List Seg) (p q : PPath),
      resolve fs n cur A true = .ok p → resolve fs n cur (A ++ [name]) false = .ok q → q = p ++ [name] := by
  intro n
  induction n with
  | zero => intro cur A p q h; simp [resolve] at h
  | succ n ih =>
    intro cur A p q hp hq
    cases A with
    | nil =>
      simp only [resolve] at hp
      cases hp
      simp only [List.nil_append] at hq
      rw [resolve] at hq
      rw [if_neg hname] at hq
      simp only at hq
      split at hq
      · simpa using hq.symm
      · cases n with
        | zero => simp [resolve] at hq
        | succ n => simp only [resolve] at hq; cases hq; rfl
      · simp only [Bool.not_false, and_self, if_true] at hq
        cases hq; rfl
      · simpa using hq.symm
    | cons s rest =>
      rw [List.cons_append, resolve] at hq
      rw [resolve] at hp
      by_cases hs : s = dotdot
      · rw [if_pos hs] at hp hq
        exact ih _ _ _ _ hp hq
      · rw [if_neg hs] at hp hq
        simp only at hp hq
        have hne : rest ++ [name] ≠ [] := by simp
        split at hq
        · rename_i hlk
          rw [if_neg hne] at hq; cases hq
        · rename_i pm mt hlk
          rw [hlk] at hp
          exact ih _ _ _ _ hp hq
        · rename_i t hlk
          rw [hlk] at hp
          simp only [hne, false_and, if_false] at hq
          simp only [Bool.not_true, Bool.false_eq_true, and_false, if_false] at hp
          split at hq
          · cases hq
          · rename_i ht
            rw [if_neg ht] at hp
            rw [← List.append_assoc] at hq
            exact ih _ _ _ _ hp hq
        · rw [if_neg hne] at hq; cases hq

theorem pk_dropWhile_snoc {α : Type} (p : α → Bool) (x : α) (hx : p x = false) (l : List α) :
    (l ++ [x]).dropWhile p = l.dropWhile p ++ [x] := by
  induction l with
  | nil => simp [List.dropWhile, hx]
  | cons a l ih =>
    by_cases ha : p a = true
    · simp [List.dropWhile, ha, ih]
    · simp [List.dropWhile, ha]

theorem pk_isAbs_pathClean (s : Str) (h : isAbs s = true) : isAbs (pathClean s) = true :=
  (pathClean_absClean s h).1

/-- `filepath.Dir` of an absolute path is absolute -/
theorem pk_isAbs_pathDir (s : Str) (h : isAbs s = true) : isAbs (pathDir s) = true := by
  unfold pathDir
  apply pk_isAbs_pathClean
  cases s with
  | nil => simp [isAbs] at h
  | cons c r =>
    have hc : c = '/' := by simpa [isAbs] using h
    subst hc
    simp only [List.reverse_cons]
    rw [pk_dropWhile_snoc _ _ (by simp)]
    simp [isAbs]

/-- the path `resolveExternalLink` returns is absolute when the link's path is -/
theorem pk_resolveExternalLink_abs (fs : FS) : ∀ (n : Nat) (path t : Str) (nd : Node),
    isAbs path = true → resolveExternalLink fs n path = .ok (t, nd) → isAbs t = true := by
  intro n
  induction n with
  | zero => intro path t nd _ h; simp [resolveExternalLink] at h
  | succ n ih =>
    intro path t nd habs h
    rw [resolveExternalLink] at h
    split at h
    · cases h
    · rename_i target _
      simp only at h
      have ha : isAbs (if isAbs target then target else pathJoin (pathDir path) target) = true := by
        split
        · assumption
        · exact (pathJoin_absClean _ _ (pk_isAbs_pathDir path habs)).1
      split at h
      · cases h
      · exact ih _ _ _ ha h
      · cases h; exact ha

/-! ### the three inductions -/

/-- the loop over the names of a directory, given that every child walk with fuel `≥ C` returns -/
theorem pk_walkChildren_term (fs : FS) (cwd : Str) (o : PackOpts) (rules : Option (List Rule))
    (root src dst path : Str) (C : Nat) :
    ∀ names : List Str,
      (∀ name ∈ names, ∀ g, C ≤ g → ∀ child st, fs.lstat (pathJoin path name) = .ok child →
        (walkNode fs cwd o rules root src dst g (pathJoin path name) child st).2 ≠ .stop .diverged) →
      ∀ g st, names.length + 1 + C ≤ g →
        (walkChildren fs cwd o rules root src dst g path names st).2 ≠ .stop .diverged := by
  intro names
  induction names with
  | nil =>
    intro _ g st hg
    obtain ⟨g', rfl⟩ : ∃ g', g = g' + 1 := ⟨g - 1, by simp at hg; omega⟩
    rw [walkChildren]; intro h; cases h
  | cons name rest ih =>
    intro hchild g st hg
    simp only [List.length_cons] at hg
    obtain ⟨g', rfl⟩ : ∃ g', g = g' + 1 := ⟨g - 1, by omega⟩
    have ihr := ih (fun nm hnm => hchild nm (List.mem_cons_of_mem _ hnm))
    rw [walkChildren]
    simp only
    split
    · intro h; cases h
    · rename_i child hc
      have hn := hchild name (by simp) g' (by omega) child st hc
      split
      · exact ihr _ _ (by omega)
      · split
        · exact ihr _ _ (by omega)
        · intro h; cases h
      · rename_i x hx
        intro h
        cases h
        exact hn hx

/-- the callback, given that every nested walk with fuel `≥ B` and strictly fewer free locations
returns -/
theorem pk_visit_term (fs : FS) (cwd : Str) (rules : Option (List Rule)) (root : Str) (B k : Nat)
    (ihN : ∀ o src dst path node st g, B ≤ g → pkFree fs o.visiting < k → isAbs path = true →
      (walkNode fs cwd o rules root src dst g path node st).2 ≠ .stop .diverged) :
    ∀ o src dst path node st g, B + 1 ≤ g → pkFree fs o.visiting ≤ k → isAbs path = true →
      (visit fs cwd o rules root src dst g path node st).2 ≠ .stop .diverged := by
  intro o src dst path node st g hg hk habs
  obtain ⟨g', rfl⟩ : ∃ g', g = g' + 1 := ⟨g - 1, by omega⟩
  cases node <;> rw [visit] <;> first | (intro _ _ h; cases h) | skip
  all_goals simp only [↓reduceIte, Bool.false_eq_true]
  all_goals repeat' split
  all_goals first | (intro h; cases h; done) | skip
  · rename_i r hr
    intro h
    cases h
    cases pk_resolveExternalLink_err_ioerr fs _ _ _ hr
  · rename_i absTarget pm mt hr _ phys hphys hnv _ child hc _ _
    have hdir := (pk_resolveExternalLink_ok fs _ _ _ _ hr).1
    obtain ⟨q, hs, hq⟩ := pk_stat_of_lstat hdir (by intro t ht; cases ht)
    have hpq : phys = q := by
      unfold FS.stat at hs
      rw [hphys] at hs
      simp only at hs
      split at hs
      · cases hs
      · cases hs; rfl
    have hloc : phys ∈ pkLocs fs := by rw [hpq]; exact pk_lookup_loc hq
    have hlt := pkFree_push fs o.visiting phys hloc (by simpa using hnv)
    exact ihN _ _ _ _ _ _ g' (by omega) (by simp only; omega)
      (pk_resolveExternalLink_abs fs _ _ _ _ habs hr)

/-- a slot of the depth budget: either the whole of it (the root of a nested walk, whose path is
a link target as written), or what is left below the physical location of a clean path -/
def PkSlot (fs : FS) (path : Str) (d : Nat) : Prop :=
  pkMaxLen fs + 1 ≤ d ∨
    (AbsClean path ∧ ∀ p, fs.resolvePath path true = .ok p → pkMaxLen fs ≤ p.length + d)

/-- fuel one level of the recursion uses at most: the loop over the names, and the calls between
two `walkNode`s -/
def pkLevel (fs : FS) : Nat := fs.length + 4

theorem pk_walkNode_term (fs : FS) (hfs : PackNamesOK fs) (cwd : Str) (rules : Option (List Rule)) (root : Str) :
    ∀ r g : Nat, pkLevel fs * r ≤ g → ∀ o src dst path node st k d,
      pkFree fs o.visiting ≤ k → isAbs path = true → PkSlot fs path d →
      k * (pkMaxLen fs + 2) + d < r →
      (walkNode fs cwd o rules root src dst g path node st).2 ≠ .stop .diverged := by
  intro r
  induction r with
  | zero => intro g _ o src dst path node st k d _ _ _ h; omega
  | succ r ih =>
    intro g hg o src dst path node st k d hk habs hslot hrank
    rw [Nat.mul_succ] at hg
    unfold pkLevel at hg
    obtain ⟨f, rfl⟩ : ∃ f, g = f + 1 := ⟨g - 1, by omega⟩
    have hV := pk_visit_term fs cwd rules root ((fs.length + 4) * r) k (by
      intro o' src' dst' path' node' st' g' hg' hfree habs'
      refine ih g' hg' o' src' dst' path' node' st' (pkFree fs o'.visiting) (pkMaxLen fs + 1)
        (Nat.le_refl _) habs' (Or.inl (Nat.le_refl _)) ?_
      have h1 : (pkFree fs o'.visiting + 1) * (pkMaxLen fs + 2) ≤ k * (pkMaxLen fs + 2) :=
        Nat.mul_le_mul_right _ hfree
      rw [Nat.succ_mul] at h1
      omega)
    have hother : ∀ nd : Node, (∀ a b, nd ≠ .dir a b) →
        (walkNode fs cwd o rules root src dst (f + 1) path nd st).2 ≠ .stop .diverged := by
      intro nd hnd
      rw [walkNode]
      · exact hV o src dst path nd st f (by omega) hk habs
      · intro a b h; exact hnd a b h
    cases node with
    | file pm mt c => exact hother _ (by intro a b h; cases h)
    | link t => exact hother _ (by intro a b h; cases h)
    | special => exact hother _ (by intro a b h; cases h)
    | dir pm mt =>
      have hvd := hV o src dst path (.dir pm mt) st f (by omega) hk habs
      rw [walkNode]
      simp only
      split
      · split
        · intro h; cases h
        · rename_i p hp
          have hlen := pk_readdir_length fs p
          refine pk_walkChildren_term fs cwd o rules root src dst path ((fs.length + 4) * r + 2)
            (fs.readdir p) ?_ f _ (by omega)
          intro name hname g' hg' child st' hc
          have habs' : isAbs (pathJoin path name) = true := (pathJoin_absClean path name habs).1
          have hother' : ∀ nd : Node, (∀ a b, nd ≠ .dir a b) →
              (walkNode fs cwd o rules root src dst g' (pathJoin path name) nd st').2 ≠ .stop .diverged := by
            intro nd hnd
            obtain ⟨g'', rfl⟩ : ∃ g'', g' = g'' + 1 := ⟨g' - 1, by omega⟩
            rw [walkNode]
            · exact hV o src dst _ nd st' g'' (by omega) hk habs'
            · intro a b h; exact hnd a b h
          cases child with
          | file pm' mt' c => exact hother' _ (by intro a b h; cases h)
          | link t => exact hother' _ (by intro a b h; cases h)
          | special => exact hother' _ (by intro a b h; cases h)
          | dir pm' mt' =>
            have hclean' : AbsClean (pathJoin path name) := pathJoin_absClean path name habs
            rcases hslot with hd | ⟨hclean, hb⟩
            · -- the root of a nested walk: its children get the whole depth budget
              exact ih g' (by unfold pkLevel; omega) o src dst _ _ st' k (pkMaxLen fs) hk habs'
                (Or.inr ⟨hclean', fun p' _ => Nat.le_add_left _ _⟩) (by omega)
            · -- a clean path: the child lies one level below, physically
              have hns : NameNS name := pk_readdir_names fs hfs p name hname
              obtain ⟨q', hq', hlq'⟩ := pk_lstat_ok hc
              have hq'' := hq'
              unfold FS.resolvePath at hq' hp
              rw [pathSegs_pathJoin_name path name hclean hns] at hq'
              have hqe : q' = p ++ [name] := pk_resolve_snoc fs name hns.1.2.2 _ _ _ _ _ hp hq'
              have hl1 := pk_lookup_len hlq'
              have hl2 := hb p hp
              have hl3 : q'.length = p.length + 1 := by rw [hqe]; simp
              have hfollow : fs.resolvePath (pathJoin path name) true = .ok q' := by
                unfold FS.resolvePath at hq'' ⊢
                apply pk_resolve_follow fs _ _ _ _ hq''
                intro t ht
                rw [hlq'] at ht
                cases ht
              refine ih g' (by unfold pkLevel; omega) o src dst _ _ st' k (d - 1) hk habs'
                (Or.inr ⟨hclean', ?_⟩) (by omega)
              intro p' hp'
              rw [hfollow] at hp'
              cases hp'
              omega
      · exact hvd

/-- fuel that is enough for every walk over `fs`: `pkLevel` for each of at most
`(bindings + 1) * (longest path + 2) + longest path + 2` levels of recursion (every nested walk
takes a location off the free list, every level inside a walk lies deeper, physically) -/
def pkTermBound (fs : FS) : Nat :=
  pkLevel fs * ((fs.length + 1) * (pkMaxLen fs + 2) + (pkMaxLen fs + 2))

/-- with fuel `≥ pkTermBound fs` the walk from an absolute path never runs out of fuel -/
theorem pk_walkNode_terminates (fs : FS) (hfs : PackNamesOK fs) (cwd : Str) (o : PackOpts)
    (rules : Option (List Rule)) (root src dst : Str) (g : Nat) (hg : pkTermBound fs ≤ g)
    (path : Str) (node : Node) (st : PState) (habs : isAbs path = true) :
    (walkNode fs cwd o rules root src dst g path node st).2 ≠ .stop .diverged :=
  pk_walkNode_term fs hfs cwd rules root _ g hg o src dst path node st (fs.length + 1) (pkMaxLen fs + 1)
    (pkFree_le fs _) habs (Or.inl (Nat.le_refl _)) (by omega)

theorem pk_visit_terminates (fs : FS) (hfs : PackNamesOK fs) (cwd : Str) (o : PackOpts)
    (rules : Option (List Rule)) (root src dst : Str) (g : Nat) (hg : pkTermBound fs + 1 ≤ g)
    (path : Str) (node : Node) (st : PState) (habs : isAbs path = true) :
    (visit fs cwd o rules root src dst g path node st).2 ≠ .stop .diverged :=
  pk_visit_term fs cwd rules root (pkTermBound fs) (pkFree fs o.visiting)
    (fun o' src' dst' path' node' st' g' hg' _ habs' =>
      pk_walkNode_terminates fs hfs cwd o' rules root src' dst' g' hg' path' node' st' habs')
    o src dst path node st g hg (Nat.le_refl _) habs

theorem pk_walkChildren_terminates (fs : FS) (hfs : PackNamesOK fs) (cwd : Str) (o : PackOpts)
    (rules : Option (List Rule)) (root src dst : Str) (g : Nat) (path : Str) (names : List Str)
    (hg : pkTermBound fs + names.length + 1 ≤ g) (st : PState) (habs : isAbs path = true) :
    (walkChildren fs cwd o rules root src dst g path names st).2 ≠ .stop .diverged :=
  pk_walkChildren_term fs cwd o rules root src dst path (pkTermBound fs) names
    (fun name _ g' hg' child st' _ =>
      pk_walkNode_terminates fs hfs cwd o rules root src dst g' hg' _ child st'
        (pathJoin_absClean path name habs).1)
    g st (by omega)

/-- `Pack` does not report `diverged` when the fuel the model gives the walk covers the bound
(`packFuel` is an artefact of the model, the bound a property of the filesystem) -/
theorem pk_pack_terminates (fs : FS) (hfs : PackNamesOK fs) (cwd : Str) (o : PackOpts) (src : Str)
    (hcwd : isAbs cwd = true) (hsmall : pkTermBound fs ≤ packFuel) :
    (pack fs cwd o src).2 ≠ .diverged := by
  rw [pk_pack_eq]
  split
  · intro h; cases h
  · split
    · intro h; cases h
    · rename_i n hn
      have := pk_walkNode_terminates fs hfs cwd o (pkRules fs cwd o src) (pkRoot fs cwd src) (pkRoot fs cwd src)
        (pkRoot fs cwd src) packFuel hsmall (pkRoot fs cwd src) n pkEmpty (pk_root_absClean fs cwd src hcwd).1
      unfold pkFinish
      simp only
      split
      · rename_i r hr
        intro h
        rw [h] at hr
        exact this hr
      · intro h; cases h
/-! ### the answer does not depend on the fuel, once there is enough -/

theorem pk_ne_diverged_of_skipDir {x : WalkRes} (h : x = .skipDir) : x ≠ .stop .diverged := by
  rw [h]; intro c; cases c

theorem pk_visit_fuel_succ (fs : FS) (cwd : Str) (rules : Option (List Rule)) (root : Str) (f : Nat)
    (ihN : ∀ o src dst path node st,
      (walkNode fs cwd o rules root src dst f path node st).2 ≠ .stop .diverged →
      walkNode fs cwd o rules root src dst (f + 1) path node st = walkNode fs cwd o rules root src dst f path node st) :
    ∀ o src dst path node st,
      (visit fs cwd o rules root src dst (f + 1) path node st).2 ≠ .stop .diverged →
      visit fs cwd o rules root src dst (f + 2) path node st = visit fs cwd o rules root src dst (f + 1) path node st := by
  intro o src dst path node st
  cases node <;> rw [visit, visit] <;> first | (intro _ _ h; cases h) | skip
  all_goals simp only [↓reduceIte, Bool.false_eq_true]
  all_goals repeat' split
  all_goals first | (intro _; trivial) | (intro _; rfl) | skip
  all_goals
    intro h
    first
    | (have e := ihN _ _ _ _ _ _ h
       simp_all)
    | (have e := ihN _ _ _ _ _ _ (pk_ne_diverged_of_skipDir ‹_ = WalkRes.skipDir›)
       simp_all)

/-- one more unit of fuel does not change an answer that is not "out of fuel" -/
theorem pk_walk_fuel_succ (fs : FS) (cwd : Str) (rules : Option (List Rule)) (root : Str) :
    ∀ f : Nat,
      (∀ o src dst path node st,
        (walkNode fs cwd o rules root src dst f path node st).2 ≠ .stop .diverged →
        walkNode fs cwd o rules root src dst (f + 1) path node st =
          walkNode fs cwd o rules root src dst f path node st) ∧
      (∀ o src dst path names st,
        (walkChildren fs cwd o rules root src dst f path names st).2 ≠ .stop .diverged →
        walkChildren fs cwd o rules root src dst (f + 1) path names st =
          walkChildren fs cwd o rules root src dst f path names st) ∧
      (∀ o src dst path node st,
        (visit fs cwd o rules root src dst f path node st).2 ≠ .stop .diverged →
        visit fs cwd o rules root src dst (f + 1) path node st =
          visit fs cwd o rules root src dst f path node st) := by
  intro f
  induction f with
  | zero =>
    refine ⟨?_, ?_, ?_⟩
    · intro o src dst path node st h; rw [walkNode] at h; exact absurd rfl h
    · intro o src dst path names st h; rw [walkChildren] at h; exact absurd rfl h
    · intro o src dst path node st h; rw [visit] at h; exact absurd rfl h
  | succ f ih =>
    obtain ⟨ihN, ihC, ihV⟩ := ih
    refine ⟨?_, ?_, ?_⟩
    · intro o src dst path node st
      have hother : ∀ nd : Node, (∀ a b, nd ≠ .dir a b) →
          (walkNode fs cwd o rules root src dst (f + 1) path nd st).2 ≠ .stop .diverged →
          walkNode fs cwd o rules root src dst (f + 1 + 1) path nd st =
            walkNode fs cwd o rules root src dst (f + 1) path nd st := by
        intro nd hnd
        rw [walkNode, walkNode]
        · exact ihV o src dst path nd st
        · intro a b h; exact hnd a b h
        · intro a b h; exact hnd a b h
      cases node with
      | file pm mt c => exact hother _ (by intro a b h; cases h)
      | link t => exact hother _ (by intro a b h; cases h)
      | special => exact hother _ (by intro a b h; cases h)
      | dir pm mt =>
        rw [walkNode, walkNode]
        simp only
        intro h
        have hv : (visit fs cwd o rules root src dst f path (.dir pm mt) st).2 ≠ .stop .diverged := by
          intro hv
          apply h
          simp [hv]
        rw [ihV o src dst path _ st hv]
        split
        · split
          · rfl
          · rename_i hc _ p hp
            simp only [hc, hp] at h
            exact ihC _ _ _ _ _ _ h
        · rfl
    · intro o src dst path names st
      cases names with
      | nil => intro _; rw [walkChildren, walkChildren]
      | cons name rest =>
        rw [walkChildren, walkChildren]
        simp only
        split
        · intro _; rfl
        · rename_i child hc
          intro h
          have hn : (walkNode fs cwd o rules root src dst f (pathJoin path name) child st).2 ≠ .stop .diverged := by
            intro hn
            apply h
            simp [hn]
          rw [ihN o src dst _ child st hn]
          split
          · rename_i hr
            simp only [hr] at h
            exact ihC _ _ _ _ _ _ h
          · rename_i hr
            simp only [hr] at h
            split
            · simp only at h
              exact ihC _ _ _ _ _ _ h
            · rfl
          · rfl
    · exact pk_visit_fuel_succ fs cwd rules root f ihN

/-- more fuel does not change an answer that is not "out of fuel" -/
theorem pk_walkNode_fuel_mono (fs : FS) (cwd : Str) (o : PackOpts) (rules : Option (List Rule))
    (root src dst : Str) (f g : Nat) (hfg : f ≤ g) (path : Str) (node : Node) (st : PState)
    (h : (walkNode fs cwd o rules root src dst f path node st).2 ≠ .stop .diverged) :
    walkNode fs cwd o rules root src dst g path node st = walkNode fs cwd o rules root src dst f path node st := by
  obtain ⟨d, rfl⟩ : ∃ d, g = f + d := ⟨g - f, by omega⟩
  induction d with
  | zero => rfl
  | succ d ih =>
    have e := ih (by omega)
    rw [← e] at h
    rw [← e]
    exact (pk_walk_fuel_succ fs cwd rules root (f + d)).1 o src dst path node st h

/-- from `pkTermBound fs` on, the answer of the walk does not depend on the fuel -/
theorem pk_walkNode_fuel_irrelevant (fs : FS) (hfs : PackNamesOK fs) (cwd : Str) (o : PackOpts)
    (rules : Option (List Rule)) (root src dst : Str) (g : Nat) (hg : pkTermBound fs ≤ g)
    (path : Str) (node : Node) (st : PState) (habs : isAbs path = true) :
    walkNode fs cwd o rules root src dst g path node st =
      walkNode fs cwd o rules root src dst (pkTermBound fs) path node st :=
  pk_walkNode_fuel_mono fs cwd o rules root src dst _ g hg path node st
    (pk_walkNode_terminates fs hfs cwd o rules root src dst _ (Nat.le_refl _) path node st habs)

/-! ## the ignore rules see the archive path (finding F43) -/

/-- an entry whose archive path (its name, without the trailing slash of a directory entry) is
excluded by the ignore rules is not written, whatever the options and wherever the walk is: the
callback returns `cont` with the state untouched -/
theorem pk_visit_excluded_emits_nothing (fs : FS) (cwd : Str) (o : PackOpts) (rules : Option (List Rule))
    (root src dst : Str) (fuel : Nat) (path : Str) (node : Node) (st : PState) (sub0 sub : Str)
    (h1 : pathRel src path = some sub0) (h2 : sub0 ≠ dot)
    (h4 : pathRel root (replaceFirst path src dst) = some sub)
    (h3 : (ruleExcludes rules sub).1 = true) :
    visit fs cwd o rules root src dst (fuel + 1) path node st = (st, .cont) := by
  cases node <;> rw [visit] <;> first | (intro _ _ h; cases h) | skip
  all_goals simp only [h1, h2, h4, h3, ↓reduceIte]
  all_goals split <;> rfl

/-- what the rules said about the name of an entry: the archive path `sub` was not excluded; a
directory entry is named `sub/`, and that was not excluded either -/
def PkNotExcluded (rules : Option (List Rule)) (e : Entry) : Prop :=
  ∃ sub, (ruleExcludes rules sub).1 = false ∧
    (e.name = sub ∨ (e.typ = tDir ∧ e.name = sub ++ ['/'] ∧ (ruleExcludes rules (sub ++ ['/'])).1 = false))

/-- the entry list of `st'` extends that of `st` by entries satisfying `Q` -/
def PackGrowsBy (Q : Entry → Prop) (st st' : PState) : Prop :=
  ∃ suffix, st'.entries = st.entries ++ suffix ∧ ∀ e ∈ suffix, Q e

theorem PackGrowsBy.refl {Q : Entry → Prop} (st : PState) : PackGrowsBy Q st st := ⟨[], by simp, by simp⟩

theorem PackGrowsBy.trans {Q : Entry → Prop} {a b c : PState} (h1 : PackGrowsBy Q a b) (h2 : PackGrowsBy Q b c) :
    PackGrowsBy Q a c := by
  obtain ⟨s1, e1, q1⟩ := h1
  obtain ⟨s2, e2, q2⟩ := h2
  refine ⟨s1 ++ s2, by rw [e2, e1, List.append_assoc], ?_⟩
  intro e he
  rcases List.mem_append.mp he with h | h
  · exact q1 e h
  · exact q2 e h

theorem PackGrowsBy.one {Q : Entry → Prop} (st : PState) (e : Entry) (pm : PMeta) (h : Q e) :
    PackGrowsBy Q st { entries := st.entries ++ [e], pmeta := pm } :=
  ⟨[e], rfl, by intro x hx; simp at hx; rw [hx]; exact h⟩

theorem pk_visit_not_excluded (fs : FS) (cwd : Str) (rules : Option (List Rule)) (root : Str) (fuel : Nat)
    (ihN : ∀ o src dst path node st,
      PackGrowsBy (PkNotExcluded rules) st (walkNode fs cwd o rules root src dst fuel path node st).1) :
    ∀ o src dst path node st,
      PackGrowsBy (PkNotExcluded rules) st (visit fs cwd o rules root src dst (fuel + 1) path node st).1 := by
  intro o src dst path node st
  cases node <;> rw [visit] <;> first | (intro _ _ h; cases h) | skip
  all_goals simp only [↓reduceIte, Bool.false_eq_true]
  all_goals repeat' split
  all_goals first | exact .refl _ | exact ihN _ _ _ _ _ _ | skip
  · rename_i hex hexd
    exact .one st _ _ ⟨_, by simpa using hex, Or.inr ⟨rfl, rfl, by simpa using hexd⟩⟩
  · rename_i hex _ _ _
    exact .one st _ _ ⟨_, by simpa using hex, Or.inl rfl⟩
  · rename_i hex _
    exact .one st _ _ ⟨_, by simpa using hex, Or.inl rfl⟩
  · rename_i hex _ _ _ _ _ _ _ _ _ _ _ _
    exact .one st _ _ ⟨_, by simpa using hex, Or.inl rfl⟩

/-- every entry the walk appends — any options, any nesting of dereferenced directories — has a
name the ignore rules did not exclude -/
theorem pk_walk_names_not_excluded (fs : FS) (cwd : Str) (rules : Option (List Rule)) (root : Str) :
    ∀ fuel : Nat,
      (∀ o src dst path node st,
        PackGrowsBy (PkNotExcluded rules) st (walkNode fs cwd o rules root src dst fuel path node st).1) ∧
      (∀ o src dst path names st,
        PackGrowsBy (PkNotExcluded rules) st (walkChildren fs cwd o rules root src dst fuel path names st).1) ∧
      (∀ o src dst path node st,
        PackGrowsBy (PkNotExcluded rules) st (visit fs cwd o rules root src dst fuel path node st).1) := by
  intro fuel
  induction fuel with
  | zero =>
    refine ⟨?_, ?_, ?_⟩
    · intro o src dst path node st; rw [walkNode]; exact .refl _
    · intro o src dst path names st; rw [walkChildren]; exact .refl _
    · intro o src dst path node st; rw [visit]; exact .refl _
  | succ fuel ih =>
    obtain ⟨ihN, ihC, ihV⟩ := ih
    refine ⟨?_, ?_, ?_⟩
    · intro o src dst path node st
      have hv := ihV o src dst path node st
      cases node with
      | dir perm mt =>
        rw [walkNode]
        simp only
        split
        · split
          · exact hv
          · exact hv.trans (ihC _ _ _ _ _ _)
        · exact hv
      | file perm mt c => rw [walkNode]; exact hv; intro _ _ h; cases h
      | link t => rw [walkNode]; exact hv; intro _ _ h; cases h
      | special => rw [walkNode]; exact hv; intro _ _ h; cases h
    · intro o src dst path names st
      cases names with
      | nil => rw [walkChildren]; exact .refl _
      | cons name rest =>
        rw [walkChildren]
        simp only
        split
        · exact .refl _
        · rename_i child hc
          have hn := ihN o src dst (pathJoin path name) child st
          split
          · exact hn.trans (ihC _ _ _ _ _ _)
          · split
            · exact hn.trans (ihC _ _ _ _ _ _)
            · exact hn
          · exact hn
    · exact pk_visit_not_excluded fs cwd rules root fuel ihN

/-- the entries of a slug: none has a name the rule set `Pack` walked with excludes -/
theorem pk_pack_names_not_excluded (fs : FS) (cwd : Str) (o : PackOpts) (src : Str) :
    ∀ e ∈ (pack fs cwd o src).1.entries, PkNotExcluded (pkRules fs cwd o src) e := by
  rw [pk_pack_eq]
  split
  · intro e he; cases he
  · split
    · intro e he; cases he
    · rw [pkFinish_fst]
      obtain ⟨sfx, hs, hq⟩ := (pk_walk_names_not_excluded fs cwd (pkRules fs cwd o src) (pkRoot fs cwd src)
        packFuel).1 o (pkRoot fs cwd src) (pkRoot fs cwd src) (pkRoot fs cwd src) ‹Node› pkEmpty
      intro e he
      rw [hs] at he
      exact hq e (by simpa [pkEmpty] using he)
end Slug
