import SlugModel.Unpack
import SlugModel.Lemmas.Path
/-!
# Lemmas/PathSegs — string ↔ component bridge for absolute clean paths

The `Unpack` model computes with path *strings* (`pathClean`, `pathJoin`, `pathDir`, `pathRel`,
`isWithin`), the filesystem model with component lists (`pathSegs`).  For absolute clean paths the
two views agree; these lemmas are the correctness statements of the separator-aware containment
test `isWithin` and of the string functions at the places `Unpack` uses them.
-/
namespace Slug

/-- an absolute, clean path string (`filepath.IsAbs(s) && filepath.Clean(s) == s`) -/
def AbsClean (s : Str) : Prop := isAbs s = true ∧ pathClean s = s

/-- a plain name without a separator: what a component of a clean absolute path looks like -/
def NameNS (x : Seg) : Prop := Plain x ∧ '/' ∉ x

/-- the absolute path string with the given components -/
def ofSegs (segs : List Seg) : Str := '/' :: joinWith '/' segs


/-! ## tiny facts about the machine -/

theorem ps_run_nil (r : Bool) (st : List Seg) : run r st [] = st := rfl
theorem ps_run_cons (r : Bool) (st : List Seg) (s : Seg) (b : List Seg) :
    run r st (s :: b) = run r (step r st s) b := rfl

theorem ps_step_skip (r : Bool) (st : List Seg) (x : Seg) (h : x = [] ∨ x = dot) :
    step r st x = st := by
  unfold step; simp [h]

theorem ps_step_plain (r : Bool) (st : List Seg) (x : Seg) (h : Plain x) :
    step r st x = x :: st := by
  obtain ⟨h1, h2, h3⟩ := h
  unfold step; simp [h1, h2, h3]

theorem ps_run_filter (r : Bool) (xs : List Seg) : ∀ st : List Seg,
    run r st (xs.filter (fun e => e ≠ [] ∧ e ≠ dot)) = run r st xs := by
  induction xs with
  | nil => intro st; rfl
  | cons x xs ih =>
    intro st
    by_cases hx : x = [] ∨ x = dot
    · have hf : decide (x ≠ [] ∧ x ≠ dot) = false := by
        rcases hx with h | h <;> simp [h]
      rw [List.filter_cons_of_neg (by simp [hf]), ps_run_cons, ps_step_skip r st x hx, ih]
    · have hf : decide (x ≠ [] ∧ x ≠ dot) = true := by
        simp only [not_or] at hx
        simp [hx.1, hx.2]
      rw [List.filter_cons_of_pos (by simp [hf]), ps_run_cons, ps_run_cons, ih]

theorem ps_run_plain (r : Bool) (xs : List Seg) : ∀ st : List Seg, (∀ x ∈ xs, Plain x) →
    run r st xs = xs.reverse ++ st := by
  induction xs with
  | nil => intro st _; rfl
  | cons x xs ih =>
    intro st h
    rw [ps_run_cons, ps_step_plain r st x (h x (by simp)), ih _ (fun y hy => h y (by simp [hy]))]
    simp

theorem ps_normal_true_plain (st : List Seg) (h : Normal true st) : ∀ x ∈ st, Plain x := by
  induction h with
  | nil => intro x hx; simp at hx
  | dots st hr _ => simp at hr
  | name s st hp _ ih =>
    intro x hx
    rcases List.mem_cons.mp hx with e | hx
    · rw [e]; exact hp
    · exact ih x hx

theorem ps_step_true_mem (st : List Seg) (s : Seg) : ∀ x ∈ step true st s, x ∈ st ∨ x = s := by
  intro x hx
  unfold step at hx
  split at hx
  · exact Or.inl hx
  · split at hx
    · cases st with
      | nil => simp at hx
      | cons t rest =>
        simp only at hx
        split at hx
        · rcases List.mem_cons.mp hx with e | hx
          · rename_i ht; exact Or.inl (by rw [e, ← ht]; simp)
          · exact Or.inl hx
        · exact Or.inl (List.mem_cons_of_mem _ hx)
    · rcases List.mem_cons.mp hx with e | hx
      · exact Or.inr e
      · exact Or.inl hx

theorem ps_run_true_mem (xs : List Seg) : ∀ st : List Seg, ∀ x ∈ run true st xs, x ∈ st ∨ x ∈ xs := by
  induction xs with
  | nil => intro st x hx; exact Or.inl hx
  | cons y ys ih =>
    intro st x hx
    rw [ps_run_cons] at hx
    rcases ih _ x hx with h | h
    · rcases ps_step_true_mem st y x h with h | h
      · exact Or.inl h
      · exact Or.inr (by simp [h])
    · exact Or.inr (List.mem_cons_of_mem _ h)

/-! ## segments -/

theorem pathSegs_mem (s : Str) : ∀ x ∈ pathSegs s, '/' ∉ x ∧ x ≠ [] ∧ x ≠ dot := by
  intro x hx
  unfold pathSegs at hx
  rw [List.mem_filter] at hx
  obtain ⟨h1, h2⟩ := hx
  have h3 := splitOn_noSep '/' s x h1
  simp only [decide_eq_true_eq] at h2
  exact ⟨h3, h2.1, h2.2⟩

theorem cleanSegs_filter (r : Bool) (xs : List Seg) :
    cleanSegs r (xs.filter (fun e => e ≠ [] ∧ e ≠ dot)) = cleanSegs r xs := by
  unfold cleanSegs; rw [ps_run_filter]

theorem cleanSegs_splitOn (r : Bool) (s : Str) :
    cleanSegs r (splitOn '/' s) = cleanSegs r (pathSegs s) := by
  unfold pathSegs; rw [cleanSegs_filter]

theorem cleanSegs_plain (r : Bool) (xs : List Seg) (h : ∀ x ∈ xs, Plain x) : cleanSegs r xs = xs := by
  unfold cleanSegs; rw [ps_run_plain r xs [] h]; simp

theorem cleanSegs_true_plain (xs : List Seg) : ∀ x ∈ cleanSegs true xs, Plain x := by
  intro x hx
  unfold cleanSegs at hx
  exact ps_normal_true_plain _ (run_normal true [] xs Normal.nil) x (List.mem_reverse.mp hx)

theorem cleanSegs_true_mem (xs : List Seg) : ∀ x ∈ cleanSegs true xs, x ∈ xs := by
  intro x hx
  unfold cleanSegs at hx
  rcases ps_run_true_mem xs [] x (List.mem_reverse.mp hx) with h | h
  · simp at h
  · exact h

theorem pathSegs_append_sep (a b : Str) : pathSegs (a ++ '/' :: b) = pathSegs a ++ pathSegs b := by
  unfold pathSegs; rw [splitOn_append, List.filter_append]

/-! ## `ofSegs` / `AbsClean` -/

theorem ps_nameNS_keep (x : Seg) (h : NameNS x) : decide (x ≠ [] ∧ x ≠ dot) = true := by
  simp [h.1.1, h.1.2.1]

theorem ps_filter_names (N : List Seg) (h : ∀ x ∈ N, NameNS x) :
    N.filter (fun e => e ≠ [] ∧ e ≠ dot) = N := by
  rw [List.filter_eq_self]
  intro x hx
  exact ps_nameNS_keep x (h x hx)

theorem ps_splitOn_ofSegs (N : List Seg) (hne : N ≠ []) (h : ∀ x ∈ N, NameNS x) :
    splitOn '/' (ofSegs N) = [] :: N := by
  unfold ofSegs
  rw [splitOn_cons_sep, splitOn_joinWith '/' N hne (fun x hx => (h x hx).2)]

theorem pathSegs_ofSegs (N : List Seg) (h : ∀ x ∈ N, NameNS x) : pathSegs (ofSegs N) = N := by
  by_cases hne : N = []
  · subst hne; decide
  · unfold pathSegs
    rw [ps_splitOn_ofSegs N hne h, List.filter_cons_of_neg (by simp), ps_filter_names N h]

theorem ps_isAbs_ofSegs (N : List Seg) : isAbs (ofSegs N) = true := by
  simp [isAbs, ofSegs]

theorem pathClean_abs (s : Str) (h : isAbs s = true) :
    pathClean s = ofSegs (cleanSegs true (pathSegs s)) := by
  unfold pathClean ofSegs
  simp only [h, if_true]
  rw [cleanSegs_splitOn]

theorem absClean_ofSegs (N : List Seg) (h : ∀ x ∈ N, NameNS x) : AbsClean (ofSegs N) := by
  refine ⟨ps_isAbs_ofSegs N, ?_⟩
  rw [pathClean_abs _ (ps_isAbs_ofSegs N), pathSegs_ofSegs N h,
    cleanSegs_plain true N (fun x hx => (h x hx).1)]

theorem ps_clean_names (s : Str) : ∀ x ∈ cleanSegs true (pathSegs s), NameNS x := by
  intro x hx
  exact ⟨cleanSegs_true_plain _ x hx, (pathSegs_mem s x (cleanSegs_true_mem _ x hx)).1⟩

theorem ps_absClean_segs_fix (s : Str) (h : AbsClean s) : cleanSegs true (pathSegs s) = pathSegs s := by
  have h1 : s = ofSegs (cleanSegs true (pathSegs s)) := by
    have := pathClean_abs s h.1
    rw [h.2] at this; exact this
  have h2 := pathSegs_ofSegs _ (ps_clean_names s)
  rw [← h1] at h2
  exact h2.symm

theorem absClean_eq_ofSegs (s : Str) (h : AbsClean s) : s = ofSegs (pathSegs s) := by
  have h1 := pathClean_abs s h.1
  rw [h.2, ps_absClean_segs_fix s h] at h1
  exact h1

theorem absClean_segs (s : Str) (h : AbsClean s) : ∀ x ∈ pathSegs s, NameNS x := by
  have := ps_clean_names s
  rw [ps_absClean_segs_fix s h] at this
  exact this

theorem absClean_ext (a b : Str) (ha : AbsClean a) (hb : AbsClean b) (h : pathSegs a = pathSegs b) :
    a = b := by
  rw [absClean_eq_ofSegs a ha, absClean_eq_ofSegs b hb, h]

theorem absClean_ne_nil (s : Str) (h : AbsClean s) : s ≠ [] := by
  intro e; have := h.1; rw [e] at this; simp [isAbs] at this

theorem pathClean_absClean (s : Str) (h : isAbs s = true) : AbsClean (pathClean s) := by
  rw [pathClean_abs s h]
  exact absClean_ofSegs _ (ps_clean_names s)

theorem pathSegs_pathClean (s : Str) (h : isAbs s = true) :
    pathSegs (pathClean s) = cleanSegs true (pathSegs s) := by
  rw [pathClean_abs s h]
  exact pathSegs_ofSegs _ (ps_clean_names s)

/-! ## Join -/

theorem ps_isAbs_ne_nil (a : Str) (h : isAbs a = true) : a ≠ [] := by
  intro e; rw [e] at h; simp [isAbs] at h

theorem ps_isAbs_append (a b : Str) (h : isAbs a = true) : isAbs (a ++ b) = true := by
  cases a with
  | nil => simp [isAbs] at h
  | cons c r => simpa [isAbs] using h

theorem ps_pathSegs_nil : pathSegs [] = [] := by decide

theorem pathJoin_abs (a b : Str) (ha : isAbs a = true) :
    pathJoin a b = ofSegs (cleanSegs true (pathSegs a ++ pathSegs b)) := by
  unfold pathJoin
  simp only [ps_isAbs_ne_nil a ha, if_false]
  by_cases hb : b = []
  · subst hb
    simp only [if_true, ps_pathSegs_nil, List.append_nil]
    exact pathClean_abs a ha
  · simp only [hb, if_false]
    rw [pathClean_abs _ (ps_isAbs_append a _ ha), pathSegs_append_sep]

theorem ps_cleanJoin_names (a b : Str) : ∀ x ∈ cleanSegs true (pathSegs a ++ pathSegs b), NameNS x := by
  intro x hx
  refine ⟨cleanSegs_true_plain _ x hx, ?_⟩
  rcases List.mem_append.mp (cleanSegs_true_mem _ x hx) with h | h
  · exact (pathSegs_mem a x h).1
  · exact (pathSegs_mem b x h).1

theorem pathJoin_absClean (a b : Str) (ha : isAbs a = true) : AbsClean (pathJoin a b) := by
  rw [pathJoin_abs a b ha]
  exact absClean_ofSegs _ (ps_cleanJoin_names a b)

theorem pathSegs_pathJoin (a b : Str) (ha : isAbs a = true) :
    pathSegs (pathJoin a b) = cleanSegs true (pathSegs a ++ pathSegs b) := by
  rw [pathJoin_abs a b ha]
  exact pathSegs_ofSegs _ (ps_cleanJoin_names a b)

theorem ps_pathSegs_name (c : Seg) (hc : NameNS c) : pathSegs c = [c] := by
  unfold pathSegs
  rw [splitOn_of_noSep '/' c hc.2]
  exact ps_filter_names [c] (by intro x hx; simp at hx; rw [hx]; exact hc)

theorem pathSegs_pathJoin_name (a c : Str) (ha : AbsClean a) (hc : NameNS c) :
    pathSegs (pathJoin a c) = pathSegs a ++ [c] := by
  rw [pathSegs_pathJoin a c ha.1, ps_pathSegs_name c hc]
  apply cleanSegs_plain
  intro x hx
  rcases List.mem_append.mp hx with h | h
  · exact (absClean_segs a ha x h).1
  · simp at h; rw [h]; exact hc.1

/-! ## Abs -/

theorem pathAbs_absClean (cwd s : Str) (h : AbsClean s) : pathAbs cwd s = s := by
  unfold pathAbs
  simp only [h.1, if_true]
  exact h.2

/-! ## the containment test -/

theorem ps_eq_nil_or_snoc {α : Type} (l : List α) : l = [] ∨ ∃ l' b, l = l' ++ [b] := by
  rcases List.eq_nil_or_concat l with e | ⟨l', b, e⟩
  · exact Or.inl e
  · exact Or.inr ⟨l', b, by rw [e, List.concat_eq_append]⟩

theorem ps_joinWith_append (c : Char) (A B : List Str) (hA : A ≠ []) (hB : B ≠ []) :
    joinWith c (A ++ B) = joinWith c A ++ c :: joinWith c B := by
  induction A with
  | nil => exact absurd rfl hA
  | cons a A ih =>
    cases A with
    | nil =>
      cases B with
      | nil => exact absurd rfl hB
      | cons b B => simp [joinWith]
    | cons a' A' =>
      simp only [List.cons_append, joinWith_cons_cons]
      rw [show a' :: (A' ++ B) = (a' :: A') ++ B from rfl, ih (by simp)]
      simp

theorem ps_ofSegs_append (R Q : List Seg) (hR : R ≠ []) (hQ : Q ≠ []) :
    ofSegs (R ++ Q) = ofSegs R ++ '/' :: joinWith '/' Q := by
  unfold ofSegs
  rw [ps_joinWith_append '/' R Q hR hQ]; simp

theorem ps_ofSegs_last (R : List Seg) (hne : R ≠ []) (h : ∀ x ∈ R, NameNS x) :
    ∃ t y, ofSegs R = t ++ [y] ∧ y ≠ '/' := by
  rcases ps_eq_nil_or_snoc R with e | ⟨R', x, e⟩
  · exact absurd e hne
  · have hx : NameNS x := h x (by rw [e]; simp)
    rcases ps_eq_nil_or_snoc x with ex | ⟨x', y, ex⟩
    · exact absurd ex hx.1.1
    · have hy : y ≠ '/' := by
        intro hy; apply hx.2; rw [ex, hy]; simp
      by_cases hR' : R' = []
      · refine ⟨'/' :: x', y, ?_, hy⟩
        rw [e, hR', ex]; simp [ofSegs, joinWith]
      · refine ⟨ofSegs R' ++ '/' :: x', y, ?_, hy⟩
        rw [e, ps_ofSegs_append R' [x] hR' (by simp), ex]; simp [joinWith]

theorem ps_hasSuffix_ofSegs (R : List Seg) (hne : R ≠ []) (h : ∀ x ∈ R, NameNS x) :
    hasSuffix (ofSegs R) ['/'] = false := by
  obtain ⟨t, y, e, hy⟩ := ps_ofSegs_last R hne h
  rw [e]
  simp [hasSuffix, List.isPrefixOf, hy.symm]

theorem isWithin_iff (root p : Str) (hr : AbsClean root) (hp : AbsClean p) :
    isWithin root p = true ↔ pathSegs root <+: pathSegs p := by
  have hR := absClean_segs root hr
  have er := absClean_eq_ofSegs root hr
  have ep := absClean_eq_ofSegs p hp
  by_cases hne : pathSegs root = []
  · rw [hne]
    have e1 : root = ['/'] := by rw [er, hne]; rfl
    constructor
    · intro _; exact List.nil_prefix
    · intro _
      unfold isWithin
      rw [e1]
      have : hasSuffix ['/'] ['/'] = true := by decide
      simp only [this, if_true]
      rw [ep]; simp [hasPrefix, ofSegs]
  · have hsuf : hasSuffix root ['/'] = false := by
      rw [er]; exact ps_hasSuffix_ofSegs _ hne hR
    unfold isWithin
    simp only [hsuf, Bool.false_eq_true, if_false]
    rw [Bool.or_eq_true, decide_eq_true_eq, hasPrefix, List.isPrefixOf_iff_prefix]
    constructor
    · rintro (e | ⟨rest, e⟩)
      · rw [e]; exact List.prefix_refl _
      · have e' : p = root ++ '/' :: rest := by rw [← e]; simp
        rw [e', pathSegs_append_sep]; exact List.prefix_append _ _
    · rintro ⟨Q, e⟩
      by_cases hq : Q = []
      · left
        rw [hq, List.append_nil] at e
        exact absClean_ext p root hp hr e.symm
      · right
        refine ⟨joinWith '/' Q, ?_⟩
        have : p = root ++ '/' :: joinWith '/' Q := by
          calc p = ofSegs (pathSegs p) := ep
            _ = ofSegs (pathSegs root ++ Q) := by rw [e]
            _ = ofSegs (pathSegs root) ++ '/' :: joinWith '/' Q := ps_ofSegs_append _ _ hne hq
            _ = root ++ '/' :: joinWith '/' Q := by rw [← er]
        rw [this]; simp

/-! ## Dir -/

theorem ps_dropWhile_append_all (p : Char → Bool) (a b : Str) (h : ∀ c ∈ a, p c = true) :
    (a ++ b).dropWhile p = b.dropWhile p := by
  induction a with
  | nil => rfl
  | cons c r ih =>
    rw [List.cons_append, List.dropWhile_cons, h c (by simp)]
    simp only [if_true]
    exact ih (fun d hd => h d (by simp [hd]))

theorem ps_pathDir_core (pre x : Str) (hx : '/' ∉ x) :
    pathDir (pre ++ '/' :: x) = pathClean (pre ++ ['/']) := by
  unfold pathDir
  have e : (pre ++ '/' :: x).reverse = x.reverse ++ '/' :: pre.reverse := by simp
  simp only [e]
  rw [ps_dropWhile_append_all _ x.reverse _ (by
    intro c hc
    have : c ≠ '/' := by intro hc'; apply hx; rw [← hc']; exact List.mem_reverse.mp hc
    simp [this])]
  simp

theorem ps_pathDir_ofSegs (N : List Seg) (h : ∀ x ∈ N, NameNS x) :
    pathDir (ofSegs N) = ofSegs N.dropLast := by
  rcases ps_eq_nil_or_snoc N with e | ⟨Q, x, e⟩
  · subst e; decide
  · subst e
    have hx : NameNS x := h x (by simp)
    have hQ : ∀ y ∈ Q, NameNS y := fun y hy => h y (by simp [hy])
    rw [List.dropLast_concat]
    by_cases hq : Q = []
    · subst hq
      have : ofSegs ([] ++ [x]) = [] ++ '/' :: x := by simp [ofSegs, joinWith]
      rw [this, ps_pathDir_core [] x hx.2]; decide
    · rw [ps_ofSegs_append Q [x] hq (by simp)]
      have : joinWith '/' [x] = x := rfl
      rw [this, ps_pathDir_core _ x hx.2,
        pathClean_abs _ (ps_isAbs_append _ _ (ps_isAbs_ofSegs Q)), pathSegs_append_sep,
        pathSegs_ofSegs Q hQ, ps_pathSegs_nil, List.append_nil,
        cleanSegs_plain true Q (fun y hy => (hQ y hy).1)]

theorem ps_dropLast_names (N : List Seg) (h : ∀ x ∈ N, NameNS x) : ∀ x ∈ N.dropLast, NameNS x :=
  fun x hx => h x (List.dropLast_subset N hx)

theorem pathDir_absClean (s : Str) (h : AbsClean s) : AbsClean (pathDir s) := by
  have hs := absClean_segs s h
  have e : pathDir s = ofSegs (pathSegs s).dropLast := by
    rw [← ps_pathDir_ofSegs _ hs, ← absClean_eq_ofSegs s h]
  rw [e]; exact absClean_ofSegs _ (ps_dropLast_names _ hs)

theorem pathSegs_pathDir (s : Str) (h : AbsClean s) : pathSegs (pathDir s) = (pathSegs s).dropLast := by
  have hs := absClean_segs s h
  have e : pathDir s = ofSegs (pathSegs s).dropLast := by
    rw [← ps_pathDir_ofSegs _ hs, ← absClean_eq_ofSegs s h]
  rw [e]; exact pathSegs_ofSegs _ (ps_dropLast_names _ hs)

theorem pathDir_eq_self_iff (s : Str) (h : AbsClean s) : pathDir s = s ↔ pathSegs s = [] := by
  constructor
  · intro e
    have h1 := pathSegs_pathDir s h
    rw [e] at h1
    have h2 := congrArg List.length h1
    rw [List.length_dropLast] at h2
    cases hN : pathSegs s with
    | nil => rfl
    | cons a r => rw [hN] at h2; simp at h2
  · intro e
    apply absClean_ext _ _ (pathDir_absClean s h) h
    rw [pathSegs_pathDir s h, e]; rfl

/-! ## Rel -/

theorem ps_strip_prefix (R Q : List Seg) : pathRel.strip R (R ++ Q) = ([], Q) := by
  induction R with
  | nil => cases Q <;> simp [pathRel.strip]
  | cons r R ih => simp [pathRel.strip, ih]

theorem ps_split_join_filter (N : List Seg) (h : ∀ x ∈ N, NameNS x) :
    (splitOn '/' (joinWith '/' N)).filter (· ≠ []) = N := by
  by_cases hne : N = []
  · subst hne; decide
  · rw [splitOn_joinWith '/' N hne (fun x hx => (h x hx).2), List.filter_eq_self]
    intro x hx
    simp [(h x hx).1.1]

theorem ps_isAbs_joinWith (Q : List Seg) (hq : Q ≠ []) (h : ∀ x ∈ Q, NameNS x) :
    isAbs (joinWith '/' Q) = false := by
  cases Q with
  | nil => exact absurd rfl hq
  | cons q Q' =>
    have hqn := h q (by simp)
    cases q with
    | nil => exact absurd rfl hqn.1.1
    | cons c q' =>
      have hc : c ≠ '/' := by intro e; apply hqn.2; simp [e]
      cases Q' with
      | nil => simp [joinWith, isAbs, hc]
      | cons t r => simp [joinWith, isAbs, hc]

theorem pathRel_under (base targ : Str) (hb : AbsClean base) (ht : AbsClean targ)
    (hpre : pathSegs base <+: pathSegs targ) :
    ∃ rel, pathRel base targ = some rel ∧ isAbs rel = false ∧ pathJoin base rel = targ ∧
      ((pathSegs targ = pathSegs base ∧ rel = dot) ∨
       (pathSegs targ = pathSegs base ++ splitOn '/' rel ∧ ∀ c ∈ splitOn '/' rel, NameNS c)) := by
  obtain ⟨Q, hQ⟩ := hpre
  have hR := absClean_segs base hb
  have hT := absClean_segs targ ht
  have eb := absClean_eq_ofSegs base hb
  have et := absClean_eq_ofSegs targ ht
  by_cases heq : base = targ
  · refine ⟨dot, ?_, by decide, ?_, Or.inl ⟨by rw [heq], rfl⟩⟩
    · unfold pathRel; simp [ht.2, heq]
    · rw [pathJoin_abs base dot hb.1]
      have : pathSegs dot = [] := by decide
      rw [this, List.append_nil, cleanSegs_plain true _ (fun x hx => (hR x hx).1), ← eb, heq]
  · have hqne : Q ≠ [] := by
      intro e; rw [e, List.append_nil] at hQ; exact heq (absClean_ext base targ hb ht hQ)
    have hQn : ∀ x ∈ Q, NameNS x := fun x hx => hT x (by rw [← hQ]; simp [hx])
    have hsplit : splitOn '/' (joinWith '/' Q) = Q :=
      splitOn_joinWith '/' Q hqne (fun x hx => (hQn x hx).2)
    refine ⟨joinWith '/' Q, ?_, ps_isAbs_joinWith Q hqne hQn, ?_, Or.inr ⟨?_, ?_⟩⟩
    · have hbd : base ≠ dot := by intro e; have := hb.1; rw [e] at this; simp [isAbs, dot] at this
      have hbn := absClean_ne_nil base hb
      have hbs : (splitOn '/' (base.drop 1)).filter (· ≠ []) = pathSegs base := by
        have : base.drop 1 = joinWith '/' (pathSegs base) := congrArg (List.drop 1) eb
        rw [this]; exact ps_split_join_filter _ hR
      have hts : (splitOn '/' (targ.drop 1)).filter (· ≠ []) = pathSegs base ++ Q := by
        have : targ.drop 1 = joinWith '/' (pathSegs targ) := congrArg (List.drop 1) et
        rw [this, hQ]; exact ps_split_join_filter _ hT
      unfold pathRel
      simp only [hb.2, ht.2, heq, hbd, hbn, hb.1, ht.1, if_false, if_true]
      rw [hbs, hts, ps_strip_prefix]
      simp
    · have hps : pathSegs (joinWith '/' Q) = Q := by
        unfold pathSegs; rw [hsplit]; exact ps_filter_names Q hQn
      rw [pathJoin_abs base _ hb.1, hps, hQ, cleanSegs_plain true _ (fun x hx => (hT x hx).1), ← et]
    · rw [hsplit, hQ]
    · rw [hsplit]; exact hQn
end Slug
