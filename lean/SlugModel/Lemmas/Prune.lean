import SlugModel.Lemmas.Glob2
/-!
# Lemmas/Prune — helper lemmas for C03, part 3

* `excludes` is "last match wins" (`fold_eq`, `excludes_fst_eq_spec`)
* the `negationsAfter` marking invariant of `readRules` (`MarkedOK`, `markedOK_readRules`)
* every stored pattern produced by `readRules` is non-empty and does not end with `/`
* soundness of pruning under `MarkedOK` and `TailClosed` (`prune_sound`)
-/
namespace Slug

/-! ### last match wins -/

def verdict (r : Rule) : Bool × Bool := (!r.negated, !r.negated && !r.negAfter)

/-- one step of `excludes` -/
def exStep (s : Str) (acc : Bool × Bool) (r : Rule) : Bool × Bool :=
  if ruleMatches r s then verdict r else acc

theorem excludes_eq_foldl (rules : List Rule) (s : Str) :
    excludes rules s = rules.foldl (exStep s) (false, false) := rfl

def lastMatch : List Rule → Str → Option Rule
  | [], _ => none
  | r :: rs, s =>
    match lastMatch rs s with
    | some q => some q
    | none => if ruleMatches r s then some r else none

theorem fold_eq (s : Str) (rules : List Rule) (acc : Bool × Bool) :
    rules.foldl (exStep s) acc =
      match lastMatch rules s with
      | none => acc
      | some r => verdict r := by
  induction rules generalizing acc with
  | nil => simp [lastMatch]
  | cons r rs ih =>
    simp only [List.foldl_cons, lastMatch]
    rw [ih]
    cases h : lastMatch rs s with
    | some q => rfl
    | none =>
      simp only [exStep]
      split <;> rfl

theorem lastMatch_none (s : Str) (rules : List Rule) (h : lastMatch rules s = none) :
    ∀ q ∈ rules, ruleMatches q s = false := by
  induction rules with
  | nil => simp
  | cons y ys ih =>
    simp only [lastMatch] at h
    cases hy : lastMatch ys s with
    | some q => rw [hy] at h; cases h
    | none =>
      rw [hy] at h
      intro q hq
      rcases List.mem_cons.mp hq with rfl | hq
      · cases hq' : ruleMatches q s with
        | false => rfl
        | true => simp [hq'] at h
      · exact ih hy q hq

theorem lastMatch_decomp (s : Str) (rules : List Rule) (r : Rule)
    (h : lastMatch rules s = some r) :
    ∃ pre post, rules = pre ++ r :: post ∧ ruleMatches r s = true ∧
      ∀ q ∈ post, ruleMatches q s = false := by
  induction rules with
  | nil => simp [lastMatch] at h
  | cons x xs ih =>
    simp only [lastMatch] at h
    cases hx : lastMatch xs s with
    | some q =>
      rw [hx] at h
      cases h
      obtain ⟨pre, post, rfl, hm, hp⟩ := ih hx
      exact ⟨x :: pre, post, rfl, hm, hp⟩
    | none =>
      rw [hx] at h
      by_cases hm : ruleMatches x s = true
      · simp only [hm, if_true] at h
        cases h
        exact ⟨[], xs, rfl, hm, lastMatch_none s xs hx⟩
      · simp [hm] at h

/-- once a rule at or after position `r` matches, the last match is at or after `r` -/
theorem lastMatch_from (s : Str) (pre : List Rule) (r : Rule) (post : List Rule)
    (hm : ruleMatches r s = true) :
    ∃ q ∈ r :: post, lastMatch (pre ++ r :: post) s = some q := by
  induction pre with
  | nil =>
    simp only [List.nil_append, lastMatch]
    cases h : lastMatch post s with
    | some q =>
      obtain ⟨p1, p2, rfl, _, _⟩ := lastMatch_decomp s post q h
      exact ⟨q, by simp, rfl⟩
    | none => exact ⟨r, by simp, by simp [hm]⟩
  | cons x xs ih =>
    obtain ⟨q, hq, hl⟩ := ih
    exact ⟨q, hq, by simp [lastMatch, hl]⟩

/-- the first component of `excludes` is the specification's "last matching rule wins",
provided each rule matches exactly what its specification selects -/
theorem excludes_fst_eq_spec (rules : List Rule) (path : Str)
    (h : ∀ r ∈ rules, ruleMatches r path = specMatches r.val path) :
    (excludes rules path).1 = specExcluded (rules.map fun r => ⟨r.val, r.negated⟩) path := by
  unfold excludes specExcluded
  suffices ∀ (acc : Bool × Bool),
      (rules.foldl (fun (acc : Bool × Bool) r =>
        if ruleMatches r path then (!r.negated, !r.negated && !r.negAfter) else acc) acc).1 =
      (rules.map fun r => (⟨r.val, r.negated⟩ : SRule)).foldl
        (fun acc r => if specMatches r.val path then !r.negated else acc) acc.1 from this _
  induction rules with
  | nil => intro acc; rfl
  | cons r rs ih =>
    intro acc
    simp only [List.foldl_cons, List.map_cons]
    rw [ih (fun q hq => h q (by simp [hq])), h r (by simp)]
    split <;> rfl

/-! ### the marking invariant -/

/-- marking invariant established by the parser: a rule followed (later in the list) by a negated
rule has `negAfter` set -/
def MarkedOK : List Rule → Prop
  | [] => True
  | r :: rs => ((∃ q ∈ rs, q.negated = true) → r.negAfter = true) ∧ MarkedOK rs

theorem markedOK_at (pre : List Rule) (r : Rule) (post : List Rule)
    (h : MarkedOK (pre ++ r :: post)) : (∃ q ∈ post, q.negated = true) → r.negAfter = true := by
  induction pre with
  | nil => exact h.1
  | cons x xs ih => exact ih h.2

/-- the invariant of the line loop on the reversed accumulator (most recent rule first):
behind a negated rule, and behind a marked rule, every rule is marked -/
def InvR : List Rule → Prop
  | [] => True
  | r :: rs => ((r.negated = true ∨ r.negAfter = true) → ∀ q ∈ rs, q.negAfter = true) ∧ InvR rs

theorem invR_of_all (l : List Rule) (h : ∀ q ∈ l, q.negAfter = true) : InvR l := by
  induction l with
  | nil => trivial
  | cons r rs ih =>
    exact ⟨fun _ q hq => h q (by simp [hq]), ih (fun q hq => h q (by simp [hq]))⟩

/-- despite its early `break`, the marking loop marks every rule, given the invariant -/
theorem markBack_all (acc : List Rule) (h : InvR acc) : ∀ q ∈ markBack acc, q.negAfter = true := by
  induction acc with
  | nil => simp [markBack]
  | cons r rs ih =>
    unfold markBack
    split
    · rename_i hr
      intro q hq
      rcases List.mem_cons.mp hq with rfl | hq
      · exact hr
      · exact h.1 (Or.inr hr) q hq
    · intro q hq
      rcases List.mem_cons.mp hq with rfl | hq
      · rfl
      · exact ih h.2 q hq

theorem markBack_vals (acc : List Rule) : ∀ q ∈ markBack acc, ∃ q' ∈ acc, q.val = q'.val := by
  induction acc with
  | nil => simp [markBack]
  | cons r rs ih =>
    unfold markBack
    split
    · intro q hq; exact ⟨q, hq, rfl⟩
    · intro q hq
      rcases List.mem_cons.mp hq with rfl | hq
      · exact ⟨r, by simp, rfl⟩
      · obtain ⟨q', hq', e⟩ := ih q hq
        exact ⟨q', by simp [hq'], e⟩

theorem p2_ok (p1 : Str) (h : p1 ≠ []) :
    (if p1.getLast? = some '/' then p1 ++ ['*', '*'] else p1) ≠ [] ∧
    (if p1.getLast? = some '/' then p1 ++ ['*', '*'] else p1).getLast? ≠ some '/' := by
  split
  · refine ⟨by simp, ?_⟩
    rw [show p1 ++ ['*', '*'] = (p1 ++ ['*']) ++ ['*'] by simp, List.getLast?_concat]
    decide
  · exact ⟨h, by assumption⟩

theorem p3_ok (p2 : Str) (h : p2 ≠ []) (hl : p2.getLast? ≠ some '/') :
    (match p2 with
      | '/' :: r => r
      | _ => '*' :: '*' :: '/' :: p2) ≠ [] ∧
    (match p2 with
      | '/' :: r => r
      | _ => '*' :: '*' :: '/' :: p2).getLast? ≠ some '/' := by
  split
  · rename_i r
    cases r with
    | nil => simp at hl
    | cons x r' =>
      refine ⟨by simp, ?_⟩
      rw [List.getLast?_cons_cons] at hl
      exact hl
  · refine ⟨by simp, ?_⟩
    have e := getLast?_append_cons_ne_nil ['*', '*'] '/' p2 h
    simp only [List.cons_append, List.nil_append] at e
    rw [e]
    exact hl

/-- case analysis of one iteration of the line loop: either the accumulator is unchanged, or a
rule with a non-empty pattern not ending in `/` and `negAfter = false` is pushed, after the
marking loop when the rule is negated -/
theorem readLine_cases (P : List Rule → Prop) (acc : List Rule) (line : Str) (h0 : P acc)
    (h1 : ∀ (val : Str) (neg : Bool), val ≠ [] → val.getLast? ≠ some '/' →
      P ({ val := val, negated := neg, negAfter := false } ::
        (if neg then markBack acc else acc))) :
    P (readLine acc line) := by
  unfold readLine
  split
  · exact h0
  · simp only
    split
    · exact h0
    · exact h0
    · rename_i c rest _ _
      by_cases hneg : c = '!'
      · simp only [hneg, if_true, decide_true]
        split
        · exact h0
        · rename_i hne
          have h2 := p2_ok rest hne
          have h3 := p3_ok _ h2.1 h2.2
          exact h1 _ true h3.1 h3.2
      · simp only [hneg, if_false, decide_false]
        split
        · exact h0
        · rename_i hne
          have h2 := p2_ok _ hne
          have h3 := p3_ok _ h2.1 h2.2
          exact h1 _ false h3.1 h3.2

theorem readLine_invR (acc : List Rule) (line : Str) (h : InvR acc) : InvR (readLine acc line) := by
  apply readLine_cases InvR acc line h
  intro val neg _ _
  cases neg with
  | true =>
    have hall := markBack_all acc h
    exact ⟨fun _ => hall, invR_of_all _ hall⟩
  | false =>
    refine ⟨?_, h⟩
    rintro (h' | h') <;> cases h'

theorem foldl_readLine_invR (lines : List Str) (acc : List Rule) (h : InvR acc) :
    InvR (lines.foldl readLine acc) := by
  induction lines generalizing acc with
  | nil => exact h
  | cons l ls ih => exact ih _ (readLine_invR acc l h)

theorem markedOK_concat (l : List Rule) (x : Rule) (h : MarkedOK l)
    (hx : x.negated = true → ∀ q ∈ l, q.negAfter = true) : MarkedOK (l ++ [x]) := by
  induction l with
  | nil => exact ⟨by simp, trivial⟩
  | cons r rs ih =>
    refine ⟨?_, ih h.2 (fun hn q hq => hx hn q (by simp [hq]))⟩
    rintro ⟨q, hq, hqn⟩
    rcases List.mem_append.mp hq with hq | hq
    · exact h.1 ⟨q, hq, hqn⟩
    · simp only [List.mem_singleton] at hq
      subst hq
      exact hx hqn r (by simp)

theorem markedOK_reverse_of_invR (acc : List Rule) (h : InvR acc) : MarkedOK acc.reverse := by
  induction acc with
  | nil => trivial
  | cons r rs ih =>
    rw [List.reverse_cons]
    refine markedOK_concat _ _ (ih h.2) ?_
    intro hn q hq
    exact h.1 (Or.inl hn) q (List.mem_reverse.mp hq)

theorem invR_defaultRules : InvR defaultRules.reverse := by
  simp [defaultRules, Generated.defaultRulesRaw, InvR]

theorem markedOK_readRules (content : Str) : MarkedOK (readRules content) := by
  unfold readRules
  exact markedOK_reverse_of_invR _ (foldl_readLine_invR _ _ invR_defaultRules)

/-! ### stored patterns never end with `/` -/

/-- the stored pattern is non-empty and does not end with `/` -/
def ValOK (r : Rule) : Prop := r.val ≠ [] ∧ r.val.getLast? ≠ some '/'

theorem readLine_valOK (acc : List Rule) (line : Str) (h : ∀ r ∈ acc, ValOK r) :
    ∀ r ∈ readLine acc line, ValOK r := by
  apply readLine_cases (fun l => ∀ r ∈ l, ValOK r) acc line h
  intro val neg h1 h2 r hr
  rcases List.mem_cons.mp hr with rfl | hr
  · exact ⟨h1, h2⟩
  · cases neg with
    | false => exact h r hr
    | true =>
      obtain ⟨q', hq', e⟩ := markBack_vals acc r hr
      have := h q' hq'
      unfold ValOK at this ⊢
      rw [e]; exact this

theorem foldl_readLine_valOK (lines : List Str) (acc : List Rule) (h : ∀ r ∈ acc, ValOK r) :
    ∀ r ∈ lines.foldl readLine acc, ValOK r := by
  induction lines generalizing acc with
  | nil => exact h
  | cons l ls ih => exact ih _ (readLine_valOK acc l h)

theorem valOK_defaultRules : ∀ r ∈ defaultRules, ValOK r := by
  simp [defaultRules, Generated.defaultRulesRaw, ValOK]

theorem valOK_readRules (content : Str) : ∀ r ∈ readRules content, ValOK r := by
  unfold readRules
  intro r hr
  rw [List.mem_reverse] at hr
  exact foldl_readLine_valOK _ _ (fun q hq => valOK_defaultRules q (List.mem_reverse.mp hq)) r hr

/-! ### pruning -/

/-- a match of `… .*` survives any extension of the string -/
theorem tail_ext (ts : List Tok) (w : Str) :
    ∀ s, matchT (ts ++ [.rest]) s = true → matchT (ts ++ [.rest]) (s ++ w) = true := by
  induction ts with
  | nil =>
    intro s _
    simp only [List.nil_append, matchT]
    exact (dotLoop_iff _ _).mpr ⟨s ++ w, [], by simp, by simp⟩
  | cons t ts ih =>
    intro s h
    cases t with
    | lit c =>
      cases s with
      | nil => simp [matchT] at h
      | cons x s' =>
        simp only [List.cons_append, matchT, Bool.and_eq_true] at h ⊢
        exact ⟨h.1, ih s' h.2⟩
    | any1 =>
      cases s with
      | nil => simp [matchT] at h
      | cons x s' =>
        simp only [List.cons_append, matchT, Bool.and_eq_true] at h ⊢
        exact ⟨h.1, ih s' h.2⟩
    | star =>
      simp only [List.cons_append, matchT] at h ⊢
      obtain ⟨u, t, rfl, hu, ht⟩ := (starLoop_iff _ s).mp h
      exact (starLoop_iff _ _).mpr ⟨u, t ++ w, by simp, hu, ih t ht⟩
    | rest =>
      simp only [List.cons_append, matchT] at h ⊢
      obtain ⟨u, t, rfl, ht⟩ := (dotLoop_iff _ s).mp h
      exact (dotLoop_iff _ _).mpr ⟨u, t ++ w, by simp, ih t ht⟩
    | dirs =>
      simp only [List.cons_append, matchT, Bool.or_eq_true] at h ⊢
      rcases h with h | h
      · exact Or.inl (ih s h)
      · right
        have mono : ∀ s, dirsLoop (matchT (ts ++ [.rest])) s = true →
            dirsLoop (matchT (ts ++ [.rest])) (s ++ w) = true := by
          intro s
          induction s with
          | nil => intro h; simp [dirsLoop] at h
          | cons c s ihs =>
            intro h
            simp only [dirsLoop, Bool.or_eq_true, Bool.and_eq_true] at h
            simp only [List.cons_append, dirsLoop, Bool.or_eq_true, Bool.and_eq_true]
            rcases h with ⟨hc, hk⟩ | ⟨hc, hk⟩
            · exact Or.inl ⟨hc, ih s hk⟩
            · exact Or.inr ⟨hc, ihs hk⟩
        exact mono s h

/-- every rule that is not negated and compiles either ends in `.*` or never matches a string
ending in `/` -/
def TailClosed (rules : List Rule) : Prop :=
  ∀ r ∈ rules, r.negated = false → ∀ toks, compileRx r.val = some toks →
    (∃ ts, toks = ts ++ [.rest]) ∨ ∀ d, matchT toks (d ++ ['/']) = false

/-- a decidable sufficient condition for `TailClosed`: every non-negated rule that compiles ends
in `.*` -/
def tailClosedB (rules : List Rule) : Bool :=
  rules.all fun r => r.negated ||
    match compileRx r.val with
    | none => true
    | some toks => toks.getLast? == some Tok.rest

theorem tailClosed_of_check (rules : List Rule) (h : tailClosedB rules = true) :
    TailClosed rules := by
  intro r hr hneg toks hc
  left
  have := List.all_eq_true.mp h r hr
  simp only [hneg, hc, Bool.false_or, beq_iff_eq] at this
  obtain ⟨ts, e⟩ := List.getLast?_eq_some_iff.mp this
  exact ⟨ts, e⟩

/-- Soundness of pruning: a dominating exclusion of `d/` implies every `d/w` is excluded
on its own path. -/
theorem prune_sound (rules : List Rule) (hm : MarkedOK rules) (ht : TailClosed rules)
    (d w : Str) (h : excludes rules (d ++ ['/']) = (true, true)) :
    (excludes rules (d ++ '/' :: w)).1 = true := by
  rw [excludes_eq_foldl, fold_eq] at h ⊢
  cases hl : lastMatch rules (d ++ ['/']) with
  | none => rw [hl] at h; cases h
  | some r =>
    rw [hl] at h
    have hneg : r.negated = false := by
      have := congrArg Prod.fst h; simpa [verdict] using this
    have hna : r.negAfter = false := by
      have := congrArg Prod.snd h; simpa [verdict, hneg] using this
    obtain ⟨pre, post, hrules, hmatch, _⟩ := lastMatch_decomp _ rules r hl
    have hpost : ∀ q ∈ post, q.negated = false := by
      intro q hq
      cases hqn : q.negated with
      | false => rfl
      | true =>
        have := markedOK_at pre r post (hrules ▸ hm) ⟨q, hq, hqn⟩
        simp [hna] at this
    have hmw : ruleMatches r (d ++ '/' :: w) = true := by
      unfold ruleMatches at hmatch ⊢
      cases hc : compileRx r.val with
      | none => rw [hc] at hmatch; cases hmatch
      | some toks =>
        rw [hc] at hmatch
        simp only at hmatch ⊢
        rcases ht r (by rw [hrules]; simp) hneg toks hc with ⟨ts, hts⟩ | hnever
        · rw [hts] at hmatch ⊢
          have := tail_ext ts w _ hmatch
          simpa using this
        · rw [hnever d] at hmatch; cases hmatch
    obtain ⟨q, hq, hlq⟩ := lastMatch_from (d ++ '/' :: w) pre r post hmw
    rw [hrules, hlq]
    have : q.negated = false := by
      rcases List.mem_cons.mp hq with rfl | hq
      · exact hneg
      · exact hpost q hq
    simp [verdict, this]

end Slug
