import SlugModel.Bundle
import SlugModel.Lemmas.PathSegs
import SlugModel.Props.C19a
/-!
# Lemmas/BundlePaths — helper lemmas for C18 (bundle path lookups) and C09 (manifest round trip)

* association tables `aset` / `aget`;
* the directory-name test of `OpenDir` (`validLocalDir`) is exactly "one plain path component";
* what `openPackages` / `openVersions` / `openRegistry` leave untouched;
* `pathJoin3` and `pathRel` on absolute clean paths, component-wise;
* the part of `splitLocalPath` after `filepath.Rel` (`bnSplitRel`).
-/
namespace Slug

/-! ## association tables -/

theorem bn_aget_nil {α β : Type} [DecidableEq α] (k : α) : aget ([] : List (α × β)) k = none := rfl

theorem bn_aget_aset_self {α β : Type} [DecidableEq α] (l : List (α × β)) (k : α) (v : β) :
    aget (aset l k v) k = some v := by
  simp [aget, aset]

theorem bn_aget_aset_ne {α β : Type} [DecidableEq α] (l : List (α × β)) (k k' : α) (v : β)
    (h : k' ≠ k) : aget (aset l k v) k' = aget l k' := by
  unfold aget aset
  have h' : ¬ (k = k') := fun e => h e.symm
  rw [List.find?_cons_of_neg (by simpa using h'), List.find?_filter]
  congr 2
  funext a
  by_cases e : a.1 = k'
  · simp [e, h]
  · simp [e]

theorem bn_aget_mem {α β : Type} [DecidableEq α] (l : List (α × β)) (k : α) (v : β)
    (h : aget l k = some v) : (k, v) ∈ l := by
  unfold aget at h
  cases hf : l.find? (fun e => e.1 = k) with
  | none => rw [hf] at h; cases h
  | some e =>
    rw [hf] at h
    have h1 := List.find?_some hf
    have h2 := List.mem_of_find?_eq_some hf
    simp only [decide_eq_true_eq] at h1
    simp only [Option.map_some, Option.some.injEq] at h
    have : e = (k, v) := by rw [← h1, ← h]
    rw [← this]; exact h2

theorem bn_aget_none_iff {α β : Type} [DecidableEq α] (l : List (α × β)) (k : α) :
    aget l k = none ↔ ∀ e ∈ l, e.1 ≠ k := by
  unfold aget
  rw [Option.map_eq_none_iff, List.find?_eq_none]
  simp

/-- the table after a run of insertions -/
def bnInsertAll {α β : Type} [DecidableEq α] (acc : List (α × β)) (l : List (α × β)) : List (α × β) :=
  l.foldl (fun a e => aset a e.1 e.2) acc

theorem bnInsertAll_nil {α β : Type} [DecidableEq α] (acc : List (α × β)) : bnInsertAll acc [] = acc := rfl

theorem bnInsertAll_cons {α β : Type} [DecidableEq α] (acc : List (α × β)) (e : α × β) (l : List (α × β)) :
    bnInsertAll acc (e :: l) = bnInsertAll (aset acc e.1 e.2) l := rfl

theorem bnInsertAll_append {α β : Type} [DecidableEq α] (acc : List (α × β)) (l1 l2 : List (α × β)) :
    bnInsertAll acc (l1 ++ l2) = bnInsertAll (bnInsertAll acc l1) l2 := by
  simp [bnInsertAll, List.foldl_append]

/-- keys that are not inserted keep their binding -/
theorem bn_aget_insertAll_other {α β : Type} [DecidableEq α] (l : List (α × β)) (k : α) :
    ∀ acc : List (α × β), (∀ e ∈ l, e.1 ≠ k) → aget (bnInsertAll acc l) k = aget acc k := by
  induction l with
  | nil => intro acc _; rfl
  | cons e r ih =>
    intro acc h
    rw [bnInsertAll_cons, ih _ (fun x hx => h x (List.mem_cons_of_mem _ hx))]
    exact bn_aget_aset_ne acc e.1 k e.2 (fun e' => h e (by simp) e'.symm)

/-- an inserted key is bound to its value, provided all insertions for that key agree -/
theorem bn_aget_insertAll_mem {α β : Type} [DecidableEq α] (l : List (α × β)) (k : α) (v : β) :
    ∀ acc : List (α × β), (k, v) ∈ l → (∀ v', (k, v') ∈ l → v' = v) →
      aget (bnInsertAll acc l) k = some v := by
  induction l with
  | nil => intro acc h; cases h
  | cons e r ih =>
    intro acc hm hu
    rw [bnInsertAll_cons]
    by_cases hr : (k, v) ∈ r
    · exact ih _ hr (fun v' hv' => hu v' (List.mem_cons_of_mem _ hv'))
    · have he : e = (k, v) := by
        rcases List.mem_cons.mp hm with h | h
        · exact h.symm
        · exact absurd h hr
      have hnone : ∀ x ∈ r, x.1 ≠ k := by
        intro x hx e1
        have : (k, x.2) ∈ r := by rw [← e1]; exact hx
        have := hu x.2 (List.mem_cons_of_mem _ this)
        apply hr
        rw [← this, ← e1]; exact hx
      rw [bn_aget_insertAll_other r k _ hnone, he]
      exact bn_aget_aset_self acc k v

/-! ## the directory-name test -/

theorem bn_validLocalDir_iff (d : Str) : validLocalDir d = true ↔ NameNS d := by
  unfold validLocalDir NameNS
  constructor
  · intro h
    simp only [Bool.and_eq_true, Bool.not_eq_true', decide_eq_true_eq] at h
    obtain ⟨⟨hv, hd⟩, hc⟩ := h
    have hns : '/' ∉ d := by
      intro hm
      have := List.contains_iff_mem.mpr hm
      rw [this] at hc; cases hc
    refine ⟨?_, hns⟩
    unfold validPath at hv
    rw [splitOn_of_noSep '/' d hns] at hv
    simp only [hd, decide_false, Bool.false_or, List.all_cons, List.all_nil, Bool.and_true] at hv
    exact (plain_iff d).mp hv
  · rintro ⟨hp, hns⟩
    have hc : d.contains '/' = false := by
      apply Bool.eq_false_iff.mpr
      intro h; exact hns (List.contains_iff_mem.mp h)
    have hv : validPath d = true := by
      unfold validPath
      rw [splitOn_of_noSep '/' d hns]
      simp only [List.all_cons, List.all_nil, Bool.and_true, Bool.or_eq_true]
      right; exact (plain_iff d).mpr hp
    simp [hv, hp.2.1, hns]

theorem bn_validLocalDir_bad (d : Str) (h : d = [] ∨ d = dot ∨ d = dotdot ∨ '/' ∈ d) :
    validLocalDir d = false := by
  apply Bool.eq_false_iff.mpr
  intro hv
  obtain ⟨⟨h1, h2, h3⟩, h4⟩ := (bn_validLocalDir_iff d).mp hv
  rcases h with h | h | h | h
  · exact h1 h
  · exact h2 h
  · exact h3 h
  · exact h4 h

/-! ## equations and frame facts of the `open*` loops -/

theorem bn_openPackages_nil (o : BundleOracle) (b : Bundle) : openPackages o [] b = some b := rfl

theorem bn_openPackages_cons (o : BundleOracle) (p : MPkg) (rest : List MPkg) (b : Bundle) :
    openPackages o (p :: rest) b =
      if !validLocalDir p.localDir then none
      else
        match o.parsePkg p.source with
        | none => none
        | some key =>
          openPackages o rest
            (if p.commit ≠ [] then
              { root := b.root, pkgDirs := aset b.pkgDirs key p.localDir,
                pkgMeta := aset b.pkgMeta key (p.commit, p.msg),
                regSources := b.regSources, regDeprec := b.regDeprec }
             else
              { root := b.root, pkgDirs := aset b.pkgDirs key p.localDir,
                pkgMeta := b.pkgMeta, regSources := b.regSources, regDeprec := b.regDeprec }) := by
  rw [openPackages]
  by_cases hv : validLocalDir p.localDir = true
  · simp only [hv, Bool.not_true, Bool.false_eq_true, if_false]
    cases o.parsePkg p.source with
    | none => rfl
    | some key => by_cases hc : p.commit = [] <;> simp [hc]
  · simp [hv]

theorem bn_openVersions_nil (o : BundleOracle) (reg : Str) (b : Bundle) :
    openVersions o reg [] b = some b := rfl

theorem bn_openVersions_cons (o : BundleOracle) (reg : Str) (v : MVer) (rest : List MVer) (b : Bundle) :
    openVersions o reg (v :: rest) b =
      match o.parseVer v.ver with
      | none => none
      | some vk =>
        match o.parseRemoteSrc v.source with
        | none => none
        | some src =>
          openVersions o reg rest
            { root := b.root, pkgDirs := b.pkgDirs, pkgMeta := b.pkgMeta,
              regSources := aset b.regSources (reg, vk) src,
              regDeprec := aset b.regDeprec (reg, vk)
                (if v.deprecated then some (v.reason, v.link) else none) } := by
  rw [openVersions]
  cases o.parseVer v.ver with
  | none => rfl
  | some vk =>
    cases o.parseRemoteSrc v.source with
    | none => rfl
    | some src => rfl

theorem bn_openRegistry_nil (o : BundleOracle) (b : Bundle) : openRegistry o [] b = some b := rfl

theorem bn_openRegistry_cons (o : BundleOracle) (r : MReg) (rest : List MReg) (b : Bundle) :
    openRegistry o (r :: rest) b =
      match o.parseRegPkg r.source with
      | none => none
      | some rk =>
        match openVersions o rk r.versions b with
        | none => none
        | some b1 => openRegistry o rest b1 := by
  rw [openRegistry]
  cases o.parseRegPkg r.source with
  | none => rfl
  | some rk => cases openVersions o rk r.versions b <;> rfl

/-- a bad directory name anywhere in the package list makes `openPackages` fail -/
theorem bn_openPackages_refuse (o : BundleOracle) (p : MPkg) (hbad : validLocalDir p.localDir = false) :
    ∀ (pkgs : List MPkg) (b : Bundle), p ∈ pkgs → openPackages o pkgs b = none := by
  intro pkgs
  induction pkgs with
  | nil => intro b h; cases h
  | cons q rest ih =>
    intro b hm
    rw [bn_openPackages_cons]
    by_cases hq : validLocalDir q.localDir = true
    · have hpq : p ≠ q := by
        intro e; rw [e, hq] at hbad; cases hbad
      have hr : p ∈ rest := by
        rcases List.mem_cons.mp hm with h | h
        · exact absurd h hpq
        · exact h
      simp only [hq, Bool.not_true, Bool.false_eq_true, if_false]
      cases o.parsePkg q.source with
      | none => rfl
      | some key => exact ih _ hr
    · simp [hq]

/-- `openPackages` keeps the root and the registry tables, and stores only accepted names -/
theorem bn_openPackages_inv (o : BundleOracle) : ∀ (pkgs : List MPkg) (b b' : Bundle),
    openPackages o pkgs b = some b' →
    b'.root = b.root ∧ b'.regSources = b.regSources ∧ b'.regDeprec = b.regDeprec ∧
    ((∀ k d, aget b.pkgDirs k = some d → NameNS d) → ∀ k d, aget b'.pkgDirs k = some d → NameNS d) := by
  intro pkgs
  induction pkgs with
  | nil =>
    intro b b' h
    rw [bn_openPackages_nil] at h
    cases h
    exact ⟨rfl, rfl, rfl, fun hh => hh⟩
  | cons q rest ih =>
    intro b b' h
    rw [bn_openPackages_cons] at h
    by_cases hq : validLocalDir q.localDir = true
    · simp only [hq, Bool.not_true, Bool.false_eq_true, if_false] at h
      have hname := (bn_validLocalDir_iff _).mp hq
      cases hk : o.parsePkg q.source with
      | none => rw [hk] at h; cases h
      | some key =>
        rw [hk] at h
        simp only at h
        have hstep : (∀ k d, aget b.pkgDirs k = some d → NameNS d) →
            ∀ k d, aget (aset b.pkgDirs key q.localDir) k = some d → NameNS d := by
          intro hh k d hkd
          by_cases e : k = key
          · rw [e, bn_aget_aset_self] at hkd
            cases hkd; exact hname
          · rw [bn_aget_aset_ne _ _ _ _ e] at hkd
            exact hh k d hkd
        split at h
        · obtain ⟨h1, h2, h3, h4⟩ := ih _ _ h
          exact ⟨h1, h2, h3, fun hh => h4 (hstep hh)⟩
        · obtain ⟨h1, h2, h3, h4⟩ := ih _ _ h
          exact ⟨h1, h2, h3, fun hh => h4 (hstep hh)⟩
    · simp [hq] at h

theorem bn_openVersions_inv (o : BundleOracle) (reg : Str) : ∀ (vs : List MVer) (b b' : Bundle),
    openVersions o reg vs b = some b' →
    b'.root = b.root ∧ b'.pkgDirs = b.pkgDirs ∧ b'.pkgMeta = b.pkgMeta := by
  intro vs
  induction vs with
  | nil => intro b b' h; rw [bn_openVersions_nil] at h; cases h; exact ⟨rfl, rfl, rfl⟩
  | cons v rest ih =>
    intro b b' h
    rw [bn_openVersions_cons] at h
    cases hv : o.parseVer v.ver with
    | none => rw [hv] at h; cases h
    | some vk =>
      rw [hv] at h
      cases hs : o.parseRemoteSrc v.source with
      | none => rw [hs] at h; cases h
      | some src =>
        rw [hs] at h
        simp only at h
        obtain ⟨h1, h2, h3⟩ := ih _ _ h
        exact ⟨h1, h2, h3⟩

theorem bn_openRegistry_inv (o : BundleOracle) : ∀ (rs : List MReg) (b b' : Bundle),
    openRegistry o rs b = some b' →
    b'.root = b.root ∧ b'.pkgDirs = b.pkgDirs ∧ b'.pkgMeta = b.pkgMeta := by
  intro rs
  induction rs with
  | nil => intro b b' h; rw [bn_openRegistry_nil] at h; cases h; exact ⟨rfl, rfl, rfl⟩
  | cons r rest ih =>
    intro b b' h
    rw [bn_openRegistry_cons] at h
    cases hk : o.parseRegPkg r.source with
    | none => rw [hk] at h; cases h
    | some rk =>
      rw [hk] at h
      simp only at h
      cases hv : openVersions o rk r.versions b with
      | none => rw [hv] at h; cases h
      | some b1 =>
        rw [hv] at h
        simp only at h
        obtain ⟨h1, h2, h3⟩ := ih _ _ h
        obtain ⟨g1, g2, g3⟩ := bn_openVersions_inv o rk _ _ _ hv
        exact ⟨h1.trans g1, h2.trans g2, h3.trans g3⟩

/-- what `openDir` is, with the intermediate bundle exposed -/
theorem bn_openDir_some (o : BundleOracle) (root : Str) (m : Manifest) (b : Bundle)
    (h : openDir o root m = some b) :
    m.format = 1 ∧ ∃ b0,
      openPackages o m.packages
        { root := root, pkgDirs := [], pkgMeta := [], regSources := [], regDeprec := [] } = some b0 ∧
      openRegistry o m.registry b0 = some b := by
  unfold openDir at h
  split at h
  · cases h
  · rename_i hf
    refine ⟨Decidable.not_not.mp hf, ?_⟩
    split at h
    · cases h
    · rename_i b0 hb0
      exact ⟨b0, hb0, h⟩

theorem bn_openDir_root (o : BundleOracle) (root : Str) (m : Manifest) (b : Bundle)
    (h : openDir o root m = some b) : b.root = root := by
  obtain ⟨_, b0, h0, h1⟩ := bn_openDir_some o root m b h
  rw [(bn_openRegistry_inv o _ _ _ h1).1, (bn_openPackages_inv o _ _ _ h0).1]

theorem bn_openDir_dirs (o : BundleOracle) (root : Str) (m : Manifest) (b : Bundle)
    (h : openDir o root m = some b) : ∀ k d, aget b.pkgDirs k = some d → NameNS d := by
  obtain ⟨_, b0, h0, h1⟩ := bn_openDir_some o root m b h
  rw [(bn_openRegistry_inv o _ _ _ h1).2.1]
  exact (bn_openPackages_inv o _ _ _ h0).2.2.2 (by intro k d hkd; simp [aget] at hkd)

/-! ## `pathJoin3` with an absolute first argument -/

theorem bn_pathJoin3_abs (a b c : Str) (ha : isAbs a = true) :
    pathJoin3 a b c = ofSegs (cleanSegs true (pathSegs a ++ pathSegs b ++ pathSegs c)) := by
  have hne := ps_isAbs_ne_nil a ha
  unfold pathJoin3
  by_cases hb : b = []
  · by_cases hc : c = []
    · subst hb; subst hc
      simp only [ps_pathSegs_nil, List.append_nil]
      have : [a, [], []].filter (· ≠ []) = [a] := by simp [hne]
      rw [this]
      exact pathClean_abs a ha
    · subst hb
      have : [a, [], c].filter (· ≠ []) = [a, c] := by simp [hne, hc]
      rw [this]
      simp only [ps_pathSegs_nil, List.append_nil]
      show pathClean (a ++ '/' :: c) = _
      rw [pathClean_abs _ (ps_isAbs_append a _ ha), pathSegs_append_sep]
  · by_cases hc : c = []
    · subst hc
      have : [a, b, []].filter (· ≠ []) = [a, b] := by simp [hne, hb]
      rw [this]
      simp only [ps_pathSegs_nil, List.append_nil]
      show pathClean (a ++ '/' :: b) = _
      rw [pathClean_abs _ (ps_isAbs_append a _ ha), pathSegs_append_sep]
    · have : [a, b, c].filter (· ≠ []) = [a, b, c] := by simp [hne, hb, hc]
      rw [this]
      show pathClean (a ++ '/' :: (b ++ '/' :: c)) = _
      rw [pathClean_abs _ (ps_isAbs_append a _ ha), pathSegs_append_sep, pathSegs_append_sep,
        List.append_assoc]

/-- components of a valid sub-path -/
theorem bn_pathSegs_validSub (s : Str) (h : ValidSub s) :
    (∀ x ∈ pathSegs s, NameNS x) ∧ joinWith '/' (pathSegs s) = s := by
  rcases h with rfl | ⟨hv, hd⟩
  · rw [ps_pathSegs_nil]
    exact ⟨fun x hx => absurd hx (List.not_mem_nil), rfl⟩
  · unfold validPath at hv
    simp only [hd, decide_false, Bool.false_or, List.all_eq_true] at hv
    have hplain : ∀ x ∈ splitOn '/' s, Plain x := fun x hx => (plain_iff x).mp (hv x hx)
    have hseg : pathSegs s = splitOn '/' s := by
      unfold pathSegs
      rw [List.filter_eq_self]
      intro x hx
      have := hplain x hx
      simp [this.1, this.2.1]
    rw [hseg]
    exact ⟨fun x hx => ⟨hplain x hx, splitOn_noSep '/' s x hx⟩, joinWith_splitOn '/' s⟩

theorem bn_pathSegs_joinWith (tl : List Seg) (h : ∀ x ∈ tl, NameNS x) :
    pathSegs (joinWith '/' tl) = tl := by
  by_cases hne : tl = []
  · subst hne; exact ps_pathSegs_nil
  · unfold pathSegs
    rw [splitOn_joinWith '/' tl hne (fun x hx => (h x hx).2)]
    exact ps_filter_names tl h

/-- `root/dir/sub` for a one-component `dir` and a sub-path without `..`: the components are
those of the root, then `dir`, then those of `sub` -/
theorem bn_pathJoin3_names (root dir sub : Str) (hr : AbsClean root) (hd : NameNS dir)
    (hs : ∀ x ∈ pathSegs sub, NameNS x) :
    pathJoin3 root dir sub = ofSegs (pathSegs root ++ dir :: pathSegs sub) ∧
    AbsClean (pathJoin3 root dir sub) ∧
    pathSegs (pathJoin3 root dir sub) = pathSegs root ++ dir :: pathSegs sub := by
  have hall : ∀ x ∈ pathSegs root ++ dir :: pathSegs sub, NameNS x := by
    intro x hx
    rcases List.mem_append.mp hx with h | h
    · exact absClean_segs root hr x h
    · rcases List.mem_cons.mp h with h | h
      · rw [h]; exact hd
      · exact hs x h
  have e : pathJoin3 root dir sub = ofSegs (pathSegs root ++ dir :: pathSegs sub) := by
    rw [bn_pathJoin3_abs root dir sub hr.1, ps_pathSegs_name dir hd, List.append_assoc,
      List.singleton_append, cleanSegs_plain true _ (fun x hx => (hall x hx).1)]
  refine ⟨e, ?_, ?_⟩
  · rw [e]; exact absClean_ofSegs _ hall
  · rw [e]; exact pathSegs_ofSegs _ hall

/-! ## `filepath.Rel` from an absolute clean base to an absolute clean target -/

theorem bn_strip_fst_nil : ∀ (bs ts : List Seg), (pathRel.strip bs ts).1 = [] → bs <+: ts := by
  intro bs
  induction bs with
  | nil => intro ts _; exact List.nil_prefix
  | cons x xs ih =>
    intro ts h
    cases ts with
    | nil => simp [pathRel.strip] at h
    | cons y ys =>
      by_cases e : x = y
      · subst e
        simp only [pathRel.strip, if_true] at h
        exact (List.cons_prefix_cons).mpr ⟨rfl, ih ys h⟩
      · simp [pathRel.strip, e] at h

theorem bn_strip_mem : ∀ (bs ts : List Seg),
    (∀ x ∈ (pathRel.strip bs ts).1, x ∈ bs) ∧ (∀ x ∈ (pathRel.strip bs ts).2, x ∈ ts) := by
  intro bs
  induction bs with
  | nil => intro ts; cases ts <;> simp [pathRel.strip]
  | cons x xs ih =>
    intro ts
    cases ts with
    | nil => simp [pathRel.strip]
    | cons y ys =>
      by_cases e : x = y
      · subst e
        simp only [pathRel.strip, if_true]
        obtain ⟨h1, h2⟩ := ih ys
        exact ⟨fun z hz => List.mem_cons_of_mem _ (h1 z hz), fun z hz => List.mem_cons_of_mem _ (h2 z hz)⟩
      · simp [pathRel.strip, e]

theorem bn_drop1_segs (s : Str) (h : AbsClean s) :
    (splitOn '/' (s.drop 1)).filter (· ≠ []) = pathSegs s := by
  have e := absClean_eq_ofSegs s h
  have : s.drop 1 = joinWith '/' (pathSegs s) := congrArg (List.drop 1) e
  rw [this]
  exact ps_split_join_filter _ (absClean_segs s h)

/-- a target that is not under the base is reached through at least one `..` -/
theorem bn_pathRel_outside (root p : Str) (hr : AbsClean root) (hp : AbsClean p)
    (hout : ¬ pathSegs root <+: pathSegs p) :
    ∃ rest, (∀ x ∈ rest, '/' ∉ x) ∧ pathRel root p = some (joinWith '/' (dotdot :: rest)) := by
  have hne : root ≠ p := by
    intro e; apply hout; rw [e]; exact List.prefix_refl _
  have hbd : root ≠ dot := by
    intro e; have := hr.1; rw [e] at this; simp [isAbs, dot] at this
  have hbn := absClean_ne_nil root hr
  cases hst : pathRel.strip (pathSegs root) (pathSegs p) with
  | mk br tr =>
    have hbr : br ≠ [] := by
      intro e
      apply hout
      apply bn_strip_fst_nil
      rw [hst]; exact e
    have hmem := bn_strip_mem (pathSegs root) (pathSegs p)
    rw [hst] at hmem
    have hany : br.any (· = dotdot) = false := by
      simp only [List.any_eq_false, decide_eq_true_eq]
      intro x hx
      exact (absClean_segs root hr x (hmem.1 x hx)).1.2.2
    cases br with
    | nil => exact absurd rfl hbr
    | cons b0 br' =>
      refine ⟨br'.map (fun _ => dotdot) ++ tr, ?_, ?_⟩
      · intro x hx
        rcases List.mem_append.mp hx with h | h
        · obtain ⟨_, _, e⟩ := List.mem_map.mp h
          rw [← e]; decide
        · exact (absClean_segs p hp x (hmem.2 x h)).2
      · unfold pathRel
        simp only [hr.2, hp.2, hne, hbd, hbn, hr.1, hp.1, if_false, if_true]
        rw [bn_drop1_segs root hr, bn_drop1_segs p hp, hst]
        simp [hany]

/-- the shape of `filepath.Rel(root, p)` for absolute clean arguments -/
theorem bn_pathRel_cases (root p : Str) (hr : AbsClean root) (hp : AbsClean p) :
    (p = root ∧ pathRel root p = some dot) ∨
    (∃ d tl, (∀ x ∈ d :: tl, NameNS x) ∧ pathSegs p = pathSegs root ++ d :: tl ∧
      pathRel root p = some (joinWith '/' (d :: tl))) ∨
    (¬ pathSegs root <+: pathSegs p ∧
      ∃ rest, (∀ x ∈ rest, '/' ∉ x) ∧ pathRel root p = some (joinWith '/' (dotdot :: rest))) := by
  by_cases hpre : pathSegs root <+: pathSegs p
  · obtain ⟨rel, h1, _, _, h4⟩ := pathRel_under root p hr hp hpre
    rcases h4 with ⟨e, hd⟩ | ⟨e, hn⟩
    · left
      exact ⟨absClean_ext p root hp hr e, by rw [h1, hd]⟩
    · right; left
      have hj := joinWith_splitOn '/' rel
      cases hs : splitOn '/' rel with
      | nil => exact absurd hs (splitOn_ne_nil '/' rel)
      | cons d tl =>
        rw [hs] at e hn hj
        exact ⟨d, tl, hn, e, by rw [h1, hj]⟩
  · right; right
    exact ⟨hpre, bn_pathRel_outside root p hr hp hpre⟩

/-! ## the part of `splitLocalPath` after `filepath.Rel` -/

def bnSplitRel (dirs : List (Str × Str)) (rel : Str) : Option (Str × Str) :=
  let sp := pathClean rel
  if !validPath sp || sp = dot then none
  else
    let dir := sp.takeWhile (· ≠ '/')
    let sub := (sp.dropWhile (· ≠ '/')).drop 1
    if dirs.any (fun e => e.2 = dir) then some (dir, sub) else none

theorem bn_splitLocalPath_eq (b : Bundle) (p : Str) :
    splitLocalPath b p =
      match pathRel b.root p with
      | none => none
      | some rel => bnSplitRel b.pkgDirs rel := rfl

theorem bn_splitRel_dot (dirs : List (Str × Str)) : bnSplitRel dirs dot = none := by
  have : pathClean dot = dot := by decide
  unfold bnSplitRel
  simp [this]

theorem bn_isAbs_joinWith_dd (rest : List Seg) : isAbs (joinWith '/' (dotdot :: rest)) = false := by
  obtain ⟨t, ht⟩ := lc_joinWith_head (dotdot :: rest) '.' ['.'] rest rfl
  rw [ht]; simp [isAbs]

/-- a relative path that starts with `..` is never a bundle path -/
theorem bn_splitRel_up (dirs : List (Str × Str)) (rest : List Seg) (hns : ∀ x ∈ rest, '/' ∉ x) :
    bnSplitRel dirs (joinWith '/' (dotdot :: rest)) = none := by
  have habs := bn_isAbs_joinWith_dd rest
  have hsplit : splitOn '/' (joinWith '/' (dotdot :: rest)) = dotdot :: rest := by
    apply splitOn_joinWith '/' _ (by simp)
    intro x hx
    rcases List.mem_cons.mp hx with h | h
    · rw [h]; decide
    · exact hns x h
  have hdd : dotdot ∈ cleanSegs false (dotdot :: rest) := by
    unfold cleanSegs
    rw [List.mem_reverse, run_cons]
    have : step false [] dotdot = [] ++ [dotdot] := by simp [step]
    rw [this]
    exact dd_persist rest [] [dotdot] (by intro y hy; cases hy) (by simp) (by simp)
  unfold bnSplitRel
  simp only
  rcases pathClean_rel_segs _ habs with ⟨_, h⟩ | ⟨_, _, h, _, _⟩
  · simp [h]
  · by_cases hd : pathClean (joinWith '/' (dotdot :: rest)) = dot
    · simp [hd]
    · have hv : validPath (pathClean (joinWith '/' (dotdot :: rest))) = false := by
        unfold validPath
        rw [h, hsplit]
        simp only [hd, decide_false, Bool.false_or]
        apply Bool.eq_false_iff.mpr
        intro hall
        rw [List.all_eq_true] at hall
        have := hall dotdot hdd
        simp at this
      simp [hv]

theorem bn_takeWhile_seg (d r : Str) (h : '/' ∉ d) :
    (d ++ '/' :: r).takeWhile (· ≠ '/') = d ∧ ((d ++ '/' :: r).dropWhile (· ≠ '/')).drop 1 = r := by
  induction d with
  | nil => simp
  | cons c d ih =>
    have hc : c ≠ '/' := fun e => h (by simp [e])
    have hd : '/' ∉ d := fun hm => h (List.mem_cons_of_mem _ hm)
    obtain ⟨h1, h2⟩ := ih hd
    constructor
    · rw [List.cons_append, List.takeWhile_cons]
      simp only [ne_eq, hc, not_false_eq_true, decide_true, if_true, h1]
    · rw [List.cons_append, List.dropWhile_cons]
      simp only [ne_eq, hc, not_false_eq_true, decide_true, if_true, h2]

theorem bn_takeWhile_seg_nil (d : Str) (h : '/' ∉ d) :
    d.takeWhile (· ≠ '/') = d ∧ (d.dropWhile (· ≠ '/')).drop 1 = [] := by
  induction d with
  | nil => simp
  | cons c d ih =>
    have hc : c ≠ '/' := fun e => h (by simp [e])
    have hd : '/' ∉ d := fun hm => h (List.mem_cons_of_mem _ hm)
    obtain ⟨h1, h2⟩ := ih hd
    constructor
    · rw [List.takeWhile_cons]
      simp only [ne_eq, hc, not_false_eq_true, decide_true, if_true, h1]
    · rw [List.dropWhile_cons]
      simp only [ne_eq, hc, not_false_eq_true, decide_true, if_true, h2]

/-- a relative path made of plain names: first name = directory, the rest = sub-path -/
theorem bn_splitRel_names (dirs : List (Str × Str)) (d : Seg) (tl : List Seg)
    (hn : ∀ x ∈ d :: tl, NameNS x) :
    bnSplitRel dirs (joinWith '/' (d :: tl)) =
      if dirs.any (fun e => e.2 = d) then some (d, joinWith '/' tl) else none := by
  have hsplit : splitOn '/' (joinWith '/' (d :: tl)) = d :: tl :=
    splitOn_joinWith '/' _ (by simp) (fun x hx => (hn x hx).2)
  have hnd : joinWith '/' (d :: tl) ≠ dot :=
    joinWith_ne_dot _ (by simp) (fun _ _ => Or.inr trivial) (fun x hx => (hn x hx).1.2.1)
  have hv : validPath (joinWith '/' (d :: tl)) = true := by
    unfold validPath
    rw [hsplit]
    simp only [hnd, decide_false, Bool.false_or, List.all_eq_true]
    intro x hx
    exact (plain_iff x).mpr (hn x hx).1
  have hd := hn d (by simp)
  have hparts : (joinWith '/' (d :: tl)).takeWhile (· ≠ '/') = d ∧
      ((joinWith '/' (d :: tl)).dropWhile (· ≠ '/')).drop 1 = joinWith '/' tl := by
    cases tl with
    | nil => exact bn_takeWhile_seg_nil d hd.2
    | cons t r => rw [joinWith_cons_cons]; exact bn_takeWhile_seg d _ hd.2
  unfold bnSplitRel
  simp only [pathClean_of_validPath _ hv, hv, hnd, hparts.1, hparts.2]
  simp

theorem bn_validSub_joinWith (tl : List Seg) (hn : ∀ x ∈ tl, NameNS x) : ValidSub (joinWith '/' tl) := by
  cases tl with
  | nil => exact Or.inl rfl
  | cons t r =>
    right
    have hsplit : splitOn '/' (joinWith '/' (t :: r)) = t :: r :=
      splitOn_joinWith '/' _ (by simp) (fun x hx => (hn x hx).2)
    have hnd : joinWith '/' (t :: r) ≠ dot :=
      joinWith_ne_dot _ (by simp) (fun _ _ => Or.inr trivial) (fun x hx => (hn x hx).1.2.1)
    refine ⟨?_, hnd⟩
    unfold validPath
    rw [hsplit]
    simp only [hnd, decide_false, Bool.false_or, List.all_eq_true]
    intro x hx
    exact (plain_iff x).mpr (hn x hx).1

/-! ## the lookups on a bundle whose stored directory names are single components -/

/-- `LocalPathForRemoteSource`: the answer is `root/dir/sub`, component-wise, hence below the root -/
theorem bn_remote_inside (b : Bundle) (pkg sub p : Str) (hr : AbsClean b.root)
    (hdirs : ∀ k d, aget b.pkgDirs k = some d → NameNS d)
    (hl : localPathForRemote b pkg sub = some p) (hs : ValidSub sub) :
    ∃ dir, aget b.pkgDirs pkg = some dir ∧ p = pathJoin3 b.root dir sub ∧ AbsClean p ∧
      pathSegs p = pathSegs b.root ++ dir :: pathSegs sub ∧
      isWithin b.root p = true ∧ p ≠ b.root := by
  unfold localPathForRemote at hl
  cases hd : aget b.pkgDirs pkg with
  | none => rw [hd] at hl; cases hl
  | some dir =>
    rw [hd] at hl
    simp only [Option.some.injEq] at hl
    have hname := hdirs pkg dir hd
    obtain ⟨_, hp, hsegs⟩ := bn_pathJoin3_names b.root dir sub hr hname (bn_pathSegs_validSub sub hs).1
    rw [hl] at hp hsegs
    refine ⟨dir, rfl, hl.symm, hp, hsegs, ?_, ?_⟩
    · exact (isWithin_iff b.root p hr hp).mpr ⟨dir :: pathSegs sub, hsegs.symm⟩
    · intro e
      have := congrArg List.length hsegs
      rw [e] at this
      simp only [List.length_append, List.length_cons] at this
      omega

/-! ## the `open*` loops under an oracle that accepts every row (used by C09) -/

theorem bn_openPackages_ok (o : BundleOracle) : ∀ (pkgs : List MPkg) (b : Bundle),
    (∀ p ∈ pkgs, validLocalDir p.localDir = true ∧ o.parsePkg p.source = some p.source) →
    ∃ b', openPackages o pkgs b = some b' ∧ b'.root = b.root ∧
      b'.regSources = b.regSources ∧ b'.regDeprec = b.regDeprec ∧
      b'.pkgDirs = bnInsertAll b.pkgDirs (pkgs.map (fun p => (p.source, p.localDir))) ∧
      b'.pkgMeta = bnInsertAll b.pkgMeta
        ((pkgs.filter (fun p => p.commit ≠ [])).map (fun p => (p.source, (p.commit, p.msg)))) := by
  intro pkgs
  induction pkgs with
  | nil => intro b _; exact ⟨b, rfl, rfl, rfl, rfl, rfl, rfl⟩
  | cons q rest ih =>
    intro b h
    obtain ⟨hv, hk⟩ := h q (by simp)
    have hrest : ∀ p ∈ rest, validLocalDir p.localDir = true ∧ o.parsePkg p.source = some p.source :=
      fun p hp => h p (List.mem_cons_of_mem _ hp)
    rw [bn_openPackages_cons]
    simp only [hv, Bool.not_true, Bool.false_eq_true, if_false, hk]
    by_cases hc : q.commit = []
    · simp only [hc, ne_eq, not_true_eq_false, if_false]
      obtain ⟨b', h0, h1, h2, h3, h4, h5⟩ := ih _ hrest
      refine ⟨b', h0, h1, h2, h3, ?_, ?_⟩
      · rw [h4, List.map_cons, bnInsertAll_cons]
      · rw [h5, List.filter_cons_of_neg (by simp [hc])]
    · simp only [hc, ne_eq, not_false_eq_true, if_true]
      obtain ⟨b', h0, h1, h2, h3, h4, h5⟩ := ih _ hrest
      refine ⟨b', h0, h1, h2, h3, ?_, ?_⟩
      · rw [h4, List.map_cons, bnInsertAll_cons]
      · rw [h5, List.filter_cons_of_pos (by simp [hc]), List.map_cons, bnInsertAll_cons]

/-- the deprecation value `OpenDir` stores for a version row -/
def bnVerDeprec (v : MVer) : Option (Str × Str) := if v.deprecated then some (v.reason, v.link) else none

theorem bn_openVersions_ok (o : BundleOracle) (reg : Str) (g : MVer → Str × Str) :
    ∀ (vs : List MVer) (b : Bundle),
    (∀ v ∈ vs, o.parseVer v.ver = some v.ver ∧ o.parseRemoteSrc v.source = some (g v)) →
    ∃ b', openVersions o reg vs b = some b' ∧ b'.root = b.root ∧
      b'.pkgDirs = b.pkgDirs ∧ b'.pkgMeta = b.pkgMeta ∧
      b'.regSources = bnInsertAll b.regSources (vs.map (fun v => ((reg, v.ver), g v))) ∧
      b'.regDeprec = bnInsertAll b.regDeprec (vs.map (fun v => ((reg, v.ver), bnVerDeprec v))) := by
  intro vs
  induction vs with
  | nil => intro b _; exact ⟨b, rfl, rfl, rfl, rfl, rfl, rfl⟩
  | cons v rest ih =>
    intro b h
    obtain ⟨hv, hs⟩ := h v (by simp)
    rw [bn_openVersions_cons]
    simp only [hv, hs]
    obtain ⟨b', h0, h1, h2, h3, h4, h5⟩ := ih _ (fun x hx => h x (List.mem_cons_of_mem _ hx))
    refine ⟨b', h0, h1, h2, h3, ?_, ?_⟩
    · rw [h4, List.map_cons, bnInsertAll_cons]
    · rw [h5, List.map_cons, bnInsertAll_cons]; rfl

theorem bn_openRegistry_ok (o : BundleOracle) (g : MVer → Str × Str) :
    ∀ (rs : List MReg) (b : Bundle),
    (∀ r ∈ rs, o.parseRegPkg r.source = some r.source ∧
      ∀ v ∈ r.versions, o.parseVer v.ver = some v.ver ∧ o.parseRemoteSrc v.source = some (g v)) →
    ∃ b', openRegistry o rs b = some b' ∧ b'.root = b.root ∧
      b'.pkgDirs = b.pkgDirs ∧ b'.pkgMeta = b.pkgMeta ∧
      b'.regSources = bnInsertAll b.regSources
        (rs.flatMap (fun r => r.versions.map (fun v => ((r.source, v.ver), g v)))) ∧
      b'.regDeprec = bnInsertAll b.regDeprec
        (rs.flatMap (fun r => r.versions.map (fun v => ((r.source, v.ver), bnVerDeprec v)))) := by
  intro rs
  induction rs with
  | nil => intro b _; exact ⟨b, rfl, rfl, rfl, rfl, rfl, rfl⟩
  | cons r rest ih =>
    intro b h
    obtain ⟨hk, hvs⟩ := h r (by simp)
    rw [bn_openRegistry_cons]
    simp only [hk]
    obtain ⟨b1, g0, g1, g2, g3, g4, g5⟩ := bn_openVersions_ok o r.source g r.versions b hvs
    simp only [g0]
    obtain ⟨b', h0, h1, h2, h3, h4, h5⟩ := ih b1 (fun x hx => h x (List.mem_cons_of_mem _ hx))
    refine ⟨b', h0, h1.trans g1, h2.trans g2, h3.trans g3, ?_, ?_⟩
    · rw [h4, g4, List.flatMap_cons, bnInsertAll_append]
    · rw [h5, g5, List.flatMap_cons, bnInsertAll_append]

end Slug
