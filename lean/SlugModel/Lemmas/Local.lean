import SlugModel.Addr
import SlugModel.Lemmas.AddrJoin
/-!
# Lemmas/Local — sub-path normalisation, `splitSubPath`, local sources

Helper lemmas for C06 (round trips), C19 (the panicking branches of the address code are
unreachable) and the sub-path clause of C07.
-/
namespace Slug

/-! ## `normalizeSubpath` is the identity on its domain -/

theorem lc_run_plain (r : Bool) (xs : List Seg) : ∀ st : List Seg, (∀ x ∈ xs, Plain x) →
    run r st xs = xs.reverse ++ st := by
  induction xs with
  | nil => intro st _; rfl
  | cons x xs ih =>
    intro st h
    obtain ⟨h1, h2, h3⟩ := h x (by simp)
    have : step r st x = x :: st := by unfold step; simp [h1, h2, h3]
    rw [run_cons, this, ih _ (fun y hy => h y (by simp [hy]))]
    simp

theorem lc_cleanSegs_plain (r : Bool) (xs : List Seg) (h : ∀ x ∈ xs, Plain x) :
    cleanSegs r xs = xs := by
  unfold cleanSegs; rw [lc_run_plain r xs [] h]; simp

/-- a valid path is already clean -/
theorem pathClean_of_validPath (s : Str) (h : validPath s = true) : pathClean s = s := by
  by_cases hd : s = dot
  · subst hd; decide
  · have habs := validPath_not_abs s h
    unfold validPath at h
    simp only [hd, decide_false, Bool.false_or, List.all_eq_true] at h
    have hplain : ∀ x ∈ splitOn '/' s, Plain x := fun x hx => (plain_iff x).mp (h x hx)
    unfold pathClean
    simp only [habs, Bool.false_eq_true, if_false]
    rw [lc_cleanSegs_plain false _ hplain]
    simp [splitOn_ne_nil, joinWith_splitOn]

theorem normalizeSubpath_some (s n : Str) (h : normalizeSubpath s = some n) : n = s ∧ ValidSub s := by
  unfold normalizeSubpath at h
  split at h
  · rename_i h0; cases h; exact ⟨h0.symm, Or.inl h0⟩
  · split at h
    · cases h
    · rename_i hv
      simp only [Bool.not_eq_true', Bool.not_eq_false] at hv
      simp only [pathClean_of_validPath s hv] at h
      split at h
      · cases h
      · rename_i hd; cases h; exact ⟨rfl, Or.inr ⟨hv, hd⟩⟩

theorem normalizeSubpath_of_validSub (s : Str) (h : ValidSub s) : normalizeSubpath s = some s := by
  unfold normalizeSubpath
  rcases h with rfl | ⟨hv, hd⟩
  · rfl
  · by_cases h0 : s = []
    · simp [h0]
    · simp [h0, hv, pathClean_of_validPath s hv, hd]

theorem validSubPath_iff (s : Str) : validSubPath s = true ↔ ValidSub s := by
  unfold validSubPath
  constructor
  · intro h
    cases hn : normalizeSubpath s with
    | none => rw [hn] at h; cases h
    | some n => exact (normalizeSubpath_some s n hn).2
  · intro h; rw [normalizeSubpath_of_validSub s h]; rfl

/-! ## `indexOf` (`strings.Index`) -/

theorem indexOf_nil_pat (s : Str) : indexOf [] s = some 0 := by
  cases s <;> simp [indexOf]

theorem indexOf_cons (p : Str) (x : Char) (xs : Str) :
    indexOf p (x :: xs) = if p.isPrefixOf (x :: xs) then some 0 else (indexOf p xs).map (· + 1) := rfl

theorem indexOf_bound (p : Str) : ∀ (s : Str) (i : Nat), indexOf p s = some i → i + p.length ≤ s.length := by
  intro s
  induction s with
  | nil =>
    intro i h
    unfold indexOf at h
    split at h
    · rename_i hp; cases h; simp [hp]
    · cases h
  | cons x xs ih =>
    intro i h
    rw [indexOf_cons] at h
    split at h
    · rename_i hp
      cases h
      have := (List.isPrefixOf_iff_prefix.mp hp).length_le
      simpa using this
    · cases hj : indexOf p xs with
      | none => rw [hj] at h; cases h
      | some j =>
        rw [hj] at h
        cases h
        have := ih j hj
        simp only [List.length_cons]; omega

theorem indexOf_append_left (p : Str) (b : Str) : ∀ (a : Str) (i : Nat),
    indexOf p a = some i → indexOf p (a ++ b) = some i := by
  intro a
  induction a with
  | nil =>
    intro i h
    unfold indexOf at h
    split at h
    · rename_i hp; cases h; subst hp; exact indexOf_nil_pat _
    · cases h
  | cons x xs ih =>
    intro i h
    rw [indexOf_cons] at h
    rw [List.cons_append, indexOf_cons]
    split at h
    · rename_i hp
      cases h
      have h1 : p <+: x :: xs := List.isPrefixOf_iff_prefix.mp hp
      have h2 : p <+: x :: (xs ++ b) := h1.trans (List.prefix_append (x :: xs) b)
      simp [List.isPrefixOf_iff_prefix.mpr h2]
    · rename_i hp
      cases hj : indexOf p xs with
      | none => rw [hj] at h; cases h
      | some j =>
        rw [hj] at h
        cases h
        have hb := indexOf_bound p xs j hj
        have hnp : p.isPrefixOf (x :: (xs ++ b)) = false := by
          apply Bool.eq_false_iff.mpr
          intro hq
          have h2 : p <+: (x :: xs) ++ b := List.isPrefixOf_iff_prefix.mp hq
          have h3 : p <+: x :: xs :=
            List.prefix_of_prefix_length_le h2 (List.prefix_append _ _) (by simp only [List.length_cons]; omega)
          exact hp (List.isPrefixOf_iff_prefix.mpr h3)
        simp [hnp, ih j hj]

theorem indexOf_split (p : Str) : ∀ (s : Str) (i : Nat), indexOf p s = some i →
    ∃ a r, s = a ++ p ++ r ∧ a.length = i := by
  intro s
  induction s with
  | nil =>
    intro i h
    unfold indexOf at h
    split at h
    · rename_i hp; cases h; exact ⟨[], [], by simp [hp], rfl⟩
    · cases h
  | cons x xs ih =>
    intro i h
    rw [indexOf_cons] at h
    split at h
    · rename_i hp
      cases h
      obtain ⟨r, hr⟩ := List.isPrefixOf_iff_prefix.mp hp
      exact ⟨[], r, by simp [hr], rfl⟩
    · cases hj : indexOf p xs with
      | none => rw [hj] at h; cases h
      | some j =>
        rw [hj] at h
        cases h
        obtain ⟨a, r, e, hl⟩ := ih j hj
        exact ⟨x :: a, r, by simp [e], by simp [hl]⟩

theorem indexOf_occ (p r : Str) : ∀ a : Str, ∃ i, indexOf p (a ++ p ++ r) = some i ∧ i ≤ a.length := by
  intro a
  induction a with
  | nil =>
    refine ⟨0, ?_, Nat.le_refl _⟩
    cases hp : p with
    | nil => exact indexOf_nil_pat _
    | cons c p' =>
      simp only [List.nil_append, List.cons_append, indexOf_cons]
      have : (c :: p').isPrefixOf (c :: (p' ++ r)) = true :=
        List.isPrefixOf_iff_prefix.mpr (List.prefix_append (c :: p') r)
      simp [this]
  | cons x xs ih =>
    obtain ⟨j, hj, hle⟩ := ih
    simp only [List.cons_append, indexOf_cons]
    split
    · exact ⟨0, rfl, Nat.zero_le _⟩
    · refine ⟨j + 1, ?_, by simp [hle]⟩
      simp only [List.append_assoc] at hj
      simp [hj]

theorem indexOf_none_append (p a b : Str) (h : indexOf p (a ++ b) = none) : indexOf p a = none := by
  cases ha : indexOf p a with
  | none => rfl
  | some i => rw [indexOf_append_left p b a i ha] at h; cases h

theorem indexOf_of_append (p a b : Str) (i : Nat) (h : indexOf p (a ++ b) = some i)
    (hle : i + p.length ≤ a.length) : indexOf p a = some i := by
  cases ha : indexOf p a with
  | some j => rw [indexOf_append_left p b a j ha] at h; exact h
  | none =>
    exfalso
    obtain ⟨a0, r, e, hl⟩ := indexOf_split p _ i h
    have h1 : a0 ++ p <+: a ++ b := ⟨r, by rw [e]⟩
    have h2 : a0 ++ p <+: a :=
      List.prefix_of_prefix_length_le h1 (List.prefix_append a b) (by simp [hl]; omega)
    obtain ⟨r', hr'⟩ := h2
    obtain ⟨k, hk, _⟩ := indexOf_occ p r' a0
    rw [hr', ha] at hk
    cases hk


/-- the occurrence found is the first: nothing is found in the part before its last character -/
theorem indexOf_take_none (p s : Str) (i : Nat) (hp : p ≠ []) (h : indexOf p s = some i) :
    indexOf p (s.take (i + p.length - 1)) = none := by
  cases ht : indexOf p (s.take (i + p.length - 1)) with
  | none => rfl
  | some j =>
    exfalso
    have hb := indexOf_bound p _ j ht
    have h2 := indexOf_append_left p (s.drop (i + p.length - 1)) _ j ht
    rw [List.take_append_drop, h] at h2
    cases h2
    have : p.length > 0 := List.length_pos_iff.mpr hp
    simp only [List.length_take] at hb
    omega

theorem indexOf_first (p a : Str) (hp : p ≠ []) (h : indexOf p (a ++ p.dropLast) = none) :
    indexOf p (a ++ p) = some a.length := by
  obtain ⟨i, hi, hle⟩ := indexOf_occ p [] a
  rw [List.append_nil] at hi
  by_cases hlt : i < a.length
  · exfalso
    have e : a ++ p = (a ++ p.dropLast) ++ [p.getLast hp] := by
      rw [List.append_assoc, List.dropLast_concat_getLast]
    rw [e] at hi
    have hpl : p.length > 0 := List.length_pos_iff.mpr hp
    have := indexOf_of_append p _ _ i hi (by simp; omega)
    rw [h] at this; cases this
  · have : i = a.length := by omega
    rw [hi, this]

theorem indexOf_char_none_iff (c : Char) (s : Str) : indexOf [c] s = none ↔ c ∉ s := by
  constructor
  · intro h hm
    obtain ⟨a, r, e⟩ := List.append_of_mem hm
    obtain ⟨i, hi, _⟩ := indexOf_occ [c] r a
    rw [e] at h
    simp only [List.append_assoc, List.singleton_append] at hi
    rw [h] at hi; cases hi
  · intro h
    cases hi : indexOf [c] s with
    | none => rfl
    | some i =>
      obtain ⟨a, r, e, _⟩ := indexOf_split [c] s i hi
      exact absurd (by rw [e]; simp) h

theorem indexOf_char_first (c : Char) (a r : Str) (h : c ∉ a) :
    indexOf [c] (a ++ c :: r) = some a.length := by
  have h1 : indexOf [c] (a ++ [c]) = some a.length := by
    apply indexOf_first [c] a (by simp)
    simpa using (indexOf_char_none_iff c a).mpr h
  have := indexOf_append_left [c] r _ _ h1
  simpa using this


/-! ## `splitSubPath` -/

/-- the offset just after the first `://`, or 0 -/
def schemeOffset (pre : Str) : Nat :=
  match indexOf [':', '/', '/'] pre with
  | some i => i + 3
  | none => 0

/-- `splitSubPath` on the part of the address before the query string -/
def splitPre (pre : Str) : Str × Str :=
  match indexOf ['/', '/'] (pre.drop (schemeOffset pre)) with
  | none => (pre, [])
  | some i => (pre.take (i + schemeOffset pre), pre.drop (i + schemeOffset pre + 2))

/-- every string is a `?`-free part followed by nothing or by a query string -/
theorem query_decomp (s : Str) : ∃ pre qs, s = pre ++ qs ∧ '?' ∉ pre ∧ (qs = [] ∨ ∃ t, qs = '?' :: t) := by
  induction s with
  | nil => exact ⟨[], [], rfl, by simp, Or.inl rfl⟩
  | cons x xs ih =>
    by_cases hx : x = '?'
    · exact ⟨[], x :: xs, rfl, by simp, Or.inr ⟨xs, by rw [hx]⟩⟩
    · obtain ⟨pre, qs, e, hp, hq⟩ := ih
      refine ⟨x :: pre, qs, by simp [e], ?_, hq⟩
      intro hm
      rcases List.mem_cons.mp hm with h | h
      · exact hx h.symm
      · exact hp h

def splitWith (src pre : Str) : Str × Str :=
  match indexOf ['/', '/'] (pre.drop (schemeOffset pre)) with
  | none => (src, [])
  | some i =>
    match indexOf ['?'] (src.drop (i + schemeOffset pre + 2)) with
    | some q => (src.take (i + schemeOffset pre) ++ (src.drop (i + schemeOffset pre + 2)).drop q,
        (src.drop (i + schemeOffset pre + 2)).take q)
    | none => (src.take (i + schemeOffset pre), src.drop (i + schemeOffset pre + 2))

theorem splitSubPath_unfold (src : Str) :
    splitSubPath src = splitWith src (src.take (match indexOf ['?'] src with
      | some i => i
      | none => src.length)) := rfl

theorem splitSubPath_eq (pre qs : Str) (hpre : '?' ∉ pre) (hqs : qs = [] ∨ ∃ t, qs = '?' :: t) :
    splitSubPath (pre ++ qs) = ((splitPre pre).1 ++ qs, (splitPre pre).2) := by
  have htake : (pre ++ qs).take (match indexOf ['?'] (pre ++ qs) with
      | some i => i
      | none => (pre ++ qs).length) = pre := by
    rcases hqs with rfl | ⟨t, rfl⟩
    · rw [List.append_nil, (indexOf_char_none_iff '?' pre).mpr hpre]; simp
    · rw [indexOf_char_first '?' pre t hpre]; simp
  rw [splitSubPath_unfold, htake]
  unfold splitWith splitPre
  generalize schemeOffset pre = off
  cases hi : indexOf ['/', '/'] (pre.drop off) with
  | none => simp
  | some i =>
    simp only
    have hb := indexOf_bound _ _ _ hi
    simp only [List.length_drop, List.length_cons, List.length_nil] at hb
    have hle : i + off + 2 ≤ pre.length := by omega
    rw [List.take_append_of_le_length (by omega), List.drop_append_of_le_length hle]
    have hnq : '?' ∉ pre.drop (i + off + 2) := fun hm => hpre (List.mem_of_mem_drop hm)
    rcases hqs with rfl | ⟨t, rfl⟩
    · rw [List.append_nil, (indexOf_char_none_iff '?' _).mpr hnq]; simp
    · rw [indexOf_char_first '?' _ t hnq]; simp

theorem schemeOffset_take (pre : Str) (n : Nat) (h : schemeOffset pre ≤ n) :
    schemeOffset (pre.take n) = schemeOffset pre := by
  unfold schemeOffset at *
  cases hk : indexOf [':', '/', '/'] pre with
  | none =>
    have := indexOf_none_append [':', '/', '/'] (pre.take n) (pre.drop n) (by rw [List.take_append_drop]; exact hk)
    rw [this]
  | some k =>
    rw [hk] at h
    simp only at h
    have hb := indexOf_bound _ _ _ hk
    simp only [List.length_cons, List.length_nil] at hb
    have := indexOf_of_append [':', '/', '/'] (pre.take n) (pre.drop n) k
      (by rw [List.take_append_drop]; exact hk) (by simp [List.length_take]; omega)
    rw [this]

theorem splitPre_fixed (pre : Str) : splitPre (splitPre pre).1 = ((splitPre pre).1, []) := by
  unfold splitPre
  cases hi : indexOf ['/', '/'] (pre.drop (schemeOffset pre)) with
  | none => simp only [hi]
  | some i =>
    simp only
    rw [schemeOffset_take pre _ (Nat.le_add_left _ _), List.drop_take, Nat.add_sub_cancel]
    have h0 := indexOf_take_none ['/', '/'] _ i (by simp) hi
    simp only [List.length_cons, List.length_nil] at h0
    have h1 : indexOf ['/', '/'] ((pre.drop (schemeOffset pre)).take i) = none := by
      have e : (pre.drop (schemeOffset pre)).take (i + (0 + 1 + 1) - 1) =
          (pre.drop (schemeOffset pre)).take i ++ ((pre.drop (schemeOffset pre)).drop i).take 1 := by
        rw [show i + (0 + 1 + 1) - 1 = i + 1 by omega, List.take_add]
      rw [e] at h0
      exact indexOf_none_append _ _ _ h0
    simp only [h1]

theorem splitPre_idem (pre : Str) : (splitPre (splitPre pre).1).2 = [] := by
  rw [splitPre_fixed]

/-- joining two valid non-empty sub-paths with a slash gives a valid path -/
theorem validPath_join (a b : Str) (ha : validPath a = true) (ha' : a ≠ dot)
    (hb : validPath b = true) (hb' : b ≠ dot) : validPath (a ++ '/' :: b) = true := by
  unfold validPath at *
  simp only [ha', hb', decide_false, Bool.false_or, List.all_eq_true] at ha hb
  simp only [Bool.or_eq_true, List.all_eq_true]
  right
  rw [splitOn_append]
  intro x hx
  rcases List.mem_append.mp hx with h | h
  · exact ha x h
  · exact hb x h

/-! ## printing then splitting -/

theorem schemeOffset_none (s : Str) (h : indexOf [':', '/', '/'] s = none) : schemeOffset s = 0 := by
  unfold schemeOffset; rw [h]

theorem schemeOffset_url (sch r : Str) (h : indexOf [':', '/', '/'] (sch ++ [':', '/']) = none) :
    schemeOffset (sch ++ ':' :: '/' :: '/' :: r) = sch.length + 3 := by
  have h1 := indexOf_first [':', '/', '/'] sch (by simp) (by simpa using h)
  have h2 := indexOf_append_left _ r _ _ h1
  unfold schemeOffset
  simp only [List.append_assoc, List.cons_append, List.nil_append] at h2
  rw [h2]

theorem indexOf_ss_join (pk sub : Str) (h : indexOf ['/', '/'] (pk ++ ['/']) = none) :
    indexOf ['/', '/'] (pk ++ '/' :: '/' :: sub) = some pk.length := by
  have h1 := indexOf_first ['/', '/'] pk (by simp) (by simpa using h)
  have h2 := indexOf_append_left _ sub _ _ h1
  simpa using h2

theorem no_scheme_of_no_ss (s : Str) (h : indexOf ['/', '/'] s = none) :
    indexOf [':', '/', '/'] s = none := by
  cases hi : indexOf [':', '/', '/'] s with
  | none => rfl
  | some i =>
    exfalso
    obtain ⟨a, r, e, _⟩ := indexOf_split _ s i hi
    obtain ⟨k, hk, _⟩ := indexOf_occ ['/', '/'] r (a ++ [':'])
    have : a ++ [':'] ++ ['/', '/'] ++ r = s := by rw [e]; simp
    rw [this, h] at hk
    cases hk

theorem splitPre_join_plain (pkg sub : Str)
    (hsch : indexOf [':', '/', '/'] (pkg ++ '/' :: '/' :: sub) = none)
    (hss : indexOf ['/', '/'] (pkg ++ ['/']) = none) :
    splitPre (pkg ++ '/' :: '/' :: sub) = (pkg, sub) := by
  unfold splitPre
  rw [schemeOffset_none _ hsch, List.drop_zero, indexOf_ss_join pkg sub hss]
  simp

theorem splitPre_join_url (sch rest sub : Str)
    (hsch : indexOf [':', '/', '/'] (sch ++ [':', '/']) = none)
    (hss : indexOf ['/', '/'] (rest ++ ['/']) = none) :
    splitPre (sch ++ ':' :: '/' :: '/' :: (rest ++ '/' :: '/' :: sub)) =
      (sch ++ ':' :: '/' :: '/' :: rest, sub) := by
  unfold splitPre
  rw [schemeOffset_url sch _ hsch]
  have e : (sch ++ ':' :: '/' :: '/' :: (rest ++ '/' :: '/' :: sub)).drop (sch.length + 3) =
      rest ++ '/' :: '/' :: sub := by
    rw [show sch ++ ':' :: '/' :: '/' :: (rest ++ '/' :: '/' :: sub) =
      (sch ++ [':', '/', '/']) ++ (rest ++ '/' :: '/' :: sub) by simp]
    exact List.drop_left' (by simp)
  rw [e, indexOf_ss_join rest sub hss]
  simp only
  have e1 : sch ++ ':' :: '/' :: '/' :: (rest ++ '/' :: '/' :: sub) =
      (sch ++ ':' :: '/' :: '/' :: rest) ++ ('/' :: '/' :: sub) := by simp
  have e2 : sch ++ ':' :: '/' :: '/' :: (rest ++ '/' :: '/' :: sub) =
      (sch ++ ':' :: '/' :: '/' :: rest ++ ['/', '/']) ++ sub := by simp
  congr 1
  · rw [e1]; exact List.take_left' (by simp; omega)
  · rw [e2]; exact List.drop_left' (by simp; omega)

theorem splitPre_none_plain (pkg : Str) (hss : indexOf ['/', '/'] pkg = none) :
    splitPre pkg = (pkg, []) := by
  unfold splitPre
  rw [schemeOffset_none _ (no_scheme_of_no_ss pkg hss), List.drop_zero, hss]

theorem splitPre_none_url (sch rest : Str)
    (hsch : indexOf [':', '/', '/'] (sch ++ [':', '/']) = none)
    (hss : indexOf ['/', '/'] rest = none) :
    splitPre (sch ++ ':' :: '/' :: '/' :: rest) = (sch ++ ':' :: '/' :: '/' :: rest, []) := by
  unfold splitPre
  rw [schemeOffset_url sch _ hsch]
  have e : (sch ++ ':' :: '/' :: '/' :: rest).drop (sch.length + 3) = rest := by
    rw [show sch ++ ':' :: '/' :: '/' :: rest = (sch ++ [':', '/', '/']) ++ rest by simp]
    exact List.drop_left' (by simp)
  rw [e, hss]

/-! ## `ParseLocalSource` -/

/-- the canonical form `ParseLocalSource` compares its argument with -/
def canonLocal (given : Str) : Str :=
  let clean0 := pathClean given
  let clean1 := if clean0 = dotdot then ['.', '.', '/'] else if clean0 = dot then ['.', '/'] else clean0
  if !looksLikeLocal clean1 then '.' :: '/' :: clean1 else clean1

theorem parseLocal_eq (given : Str) : parseLocal given =
    if given.any (fun c => c = ':' || c = '\\') then none
    else if !looksLikeLocal given && given ≠ dot && given ≠ dotdot then none
    else if canonLocal given ≠ given then none else some (canonLocal given) := rfl

theorem parseLocal_some (s a : Str) (h : parseLocal s = some a) :
    a = s ∧ canonLocal s = s ∧ s.any (fun c => c = ':' || c = '\\') = false ∧
      (looksLikeLocal s = true ∨ s = dot ∨ s = dotdot) := by
  rw [parseLocal_eq] at h
  split at h
  · cases h
  · rename_i h1
    split at h
    · cases h
    · rename_i h2
      split at h
      · cases h
      · rename_i h3
        simp only [ne_eq, Decidable.not_not] at h3
        cases h
        refine ⟨h3, h3, by simpa using h1, ?_⟩
        simp only [Bool.and_eq_true, Bool.not_eq_true', decide_eq_true_eq, not_and, ne_eq] at h2
        cases hl : looksLikeLocal s with
        | true => exact Or.inl rfl
        | false =>
          right
          by_cases hd : s = dot
          · exact Or.inl hd
          · exact Or.inr (Decidable.not_not.mp (h2 ⟨hl, hd⟩))

/-! ### characters of joined / split strings -/

theorem lc_mem_joinWith (sep : Char) (l : List Str) (c : Char) (h : c ∈ joinWith sep l) :
    c = sep ∨ ∃ x ∈ l, c ∈ x := by
  induction l with
  | nil => simp [joinWith] at h
  | cons s r ih =>
    cases r with
    | nil => exact Or.inr ⟨s, by simp, by simpa [joinWith] using h⟩
    | cons t r' =>
      rw [joinWith_cons_cons] at h
      rcases List.mem_append.mp h with h | h
      · exact Or.inr ⟨s, by simp, h⟩
      · rcases List.mem_cons.mp h with h | h
        · exact Or.inl h
        · rcases ih h with h | ⟨x, hx, hc⟩
          · exact Or.inl h
          · exact Or.inr ⟨x, List.mem_cons_of_mem _ hx, hc⟩

theorem lc_mem_of_mem_joinWith (sep : Char) (l : List Str) (x : Str) (c : Char) (hx : x ∈ l) (hc : c ∈ x) :
    c ∈ joinWith sep l := by
  induction l with
  | nil => cases hx
  | cons s r ih =>
    cases r with
    | nil =>
      simp only [List.mem_singleton] at hx
      subst hx; simpa [joinWith] using hc
    | cons t r' =>
      rw [joinWith_cons_cons]
      rcases List.mem_cons.mp hx with rfl | hx
      · exact List.mem_append_left _ hc
      · exact List.mem_append_right _ (List.mem_cons_of_mem _ (ih hx))

theorem lc_mem_of_mem_splitOn (sep : Char) (s x : Str) (c : Char) (hx : x ∈ splitOn sep s) (hc : c ∈ x) :
    c ∈ s := by
  have := lc_mem_of_mem_joinWith sep _ x c hx hc
  rwa [joinWith_splitOn] at this

/-! ### local sources -/

/-- the two characters `ParseLocalSource` rejects outright -/
def badLocalChar (c : Char) : Bool := c = ':' || c = '\\'

/-- what the local case of `ResolveRelativeSource` does with the joined path -/
def relocalise (n : Str) : Str :=
  if n = dot ∨ n = dotdot then n ++ ['/']
  else if !looksLikeLocal n then '.' :: '/' :: n else n

theorem resolveLocalLocal_eq (a b : Str) : resolveLocalLocal a b = relocalise (pathJoin a b) := rfl

theorem looksLikeLocal_not_abs (n : Str) (h : looksLikeLocal n = true) : isAbs n = false := by
  cases n with
  | nil => rfl
  | cons c r =>
    by_cases hc : c = '/'
    · subst hc; simp [looksLikeLocal, hasPrefix, List.isPrefixOf] at h
    · simp [isAbs, hc]

/-- a cleaned relative path, re-localised, is in the canonical form of `ParseLocalSource` -/
theorem parseLocal_relocalise (t : Str) (habs : isAbs t = false)
    (hbad : t.any badLocalChar = false) :
    parseLocal (relocalise (pathClean t)) = some (relocalise (pathClean t)) := by
  by_cases hd : pathClean t = dot
  · rw [hd]; decide
  by_cases hdd : pathClean t = dotdot
  · rw [hdd]; decide
  -- the cleaned segments
  have hn : pathClean t = (if cleanSegs false (splitOn '/' t) = [] then dot
      else joinWith '/' (cleanSegs false (splitOn '/' t))) := by
    unfold pathClean; simp [habs]
  generalize hsegs : cleanSegs false (splitOn '/' t) = segs at hn
  have hne : segs ≠ [] := by
    intro e; rw [e] at hn; simp only [if_true] at hn; exact hd hn
  simp only [hne, if_false] at hn
  have hidem : cleanSegs false segs = segs := by rw [← hsegs]; exact clean_idem false _
  have hmem : ∀ s ∈ segs, s ∈ splitOn '/' t ∨ s = dotdot := by
    intro s hs
    rw [← hsegs] at hs
    unfold cleanSegs at hs
    rcases run_mem false _ [] s (List.mem_reverse.mp hs) with h | h | h
    · cases h
    · exact Or.inl h
    · exact Or.inr h
  have hnoslash : ∀ s ∈ segs, '/' ∉ s := by
    intro s hs
    rcases hmem s hs with h | h
    · exact splitOn_noSep '/' t s h
    · rw [h]; decide
  have hsplit : splitOn '/' (joinWith '/' segs) = segs := splitOn_joinWith '/' segs hne hnoslash
  have hchars : ∀ c ∈ joinWith '/' segs, badLocalChar c = false := by
    intro c hc
    rcases lc_mem_joinWith '/' segs c hc with rfl | ⟨x, hx, hcx⟩
    · decide
    · rcases hmem x hx with h | h
      · have := lc_mem_of_mem_splitOn '/' t x c h hcx
        simp only [List.any_eq_false] at hbad
        simpa using hbad c this
      · rw [h] at hcx
        simp only [dotdot, List.mem_cons, List.not_mem_nil, or_false, or_self] at hcx
        subst hcx; decide
  rw [hn] at hd hdd ⊢
  generalize hjn : joinWith '/' segs = n at *
  -- cleaning `n` or `./n` gives `n` back
  have hclean1 : isAbs n = false → pathClean n = n := by
    intro h
    unfold pathClean
    simp only [h, Bool.false_eq_true, if_false, hsplit, hidem, hne, hjn]
  have hclean2 : pathClean ('.' :: '/' :: n) = n := by
    have e : splitOn '/' ('.' :: '/' :: n) = dot :: segs := by
      have := splitOn_append '/' ['.'] n
      simp only [List.cons_append, List.nil_append] at this
      rw [this, hsplit]; rfl
    have e2 : cleanSegs false (dot :: segs) = segs := by
      have : cleanSegs false (dot :: segs) = cleanSegs false segs := by
        unfold cleanSegs; rw [run_cons]; simp [step]
      rw [this, hidem]
    unfold pathClean
    have : isAbs ('.' :: '/' :: n) = false := by simp [isAbs]
    simp only [this, Bool.false_eq_true, if_false, e, e2, hne, hjn]
  have hany : n.any badLocalChar = false := by
    simp only [List.any_eq_false]
    intro c hc; simp [hchars c hc]
  have hd' : ¬(n = dot ∨ n = dotdot) := fun h => h.elim hd hdd
  unfold relocalise
  simp only [hd', if_false]
  cases hl : looksLikeLocal n with
  | true =>
    simp only [Bool.not_true, Bool.false_eq_true, if_false]
    rw [parseLocal_eq]
    have hc : canonLocal n = n := by
      unfold canonLocal
      simp only [hclean1 (looksLikeLocal_not_abs n hl), hd, hdd, if_false, hl, Bool.not_true,
        Bool.false_eq_true]
    have hany' : (n.any fun c => c = ':' || c = '\\') = false := hany
    simp [hany', hl, hc]
  | false =>
    simp only [Bool.not_false, if_true]
    rw [parseLocal_eq]
    have hl2 : looksLikeLocal ('.' :: '/' :: n) = true := by
      simp [looksLikeLocal, hasPrefix, List.isPrefixOf]
    have hc : canonLocal ('.' :: '/' :: n) = '.' :: '/' :: n := by
      unfold canonLocal
      simp only [hclean2, hd, hdd, if_false, hl, Bool.not_false, if_true]
    have hany' : (('.' :: '/' :: n).any fun c => c = ':' || c = '\\') = false := by
      have : (('.' :: '/' :: n).any badLocalChar) = false := by
        simp only [List.any_cons, hany]; decide
      exact this
    simp [hany', hl2, hc]


theorem local_start (a : Str) (h : looksLikeLocal a = true ∨ a = dot ∨ a = dotdot) :
    a ≠ [] ∧ isAbs a = false := by
  rcases h with h | rfl | rfl
  · refine ⟨?_, looksLikeLocal_not_abs a h⟩
    intro e; rw [e] at h; simp [looksLikeLocal, hasPrefix, List.isPrefixOf] at h
  · decide
  · decide

/-! ## shape of cleaned relative paths -/

theorem lc_joinWith_head (l : List Str) (c : Char) (s' : Str) (r : List Str) (h : l = (c :: s') :: r) :
    ∃ t, joinWith '/' l = c :: t := by
  subst h
  cases r with
  | nil => exact ⟨s', rfl⟩
  | cons t r' => exact ⟨s' ++ '/' :: joinWith '/' (t :: r'), rfl⟩

/-- shape of a cleaned relative path: `.` or its non-empty list of cleaned segments joined -/
theorem pathClean_rel_segs (t : Str) (habs : isAbs t = false) :
    (cleanSegs false (splitOn '/' t) = [] ∧ pathClean t = dot) ∨
    (cleanSegs false (splitOn '/' t) ≠ [] ∧
      pathClean t = joinWith '/' (cleanSegs false (splitOn '/' t)) ∧
      splitOn '/' (pathClean t) = cleanSegs false (splitOn '/' t) ∧
      pathClean t ≠ [] ∧ isAbs (pathClean t) = false) := by
  have hn : pathClean t = (if cleanSegs false (splitOn '/' t) = [] then dot
      else joinWith '/' (cleanSegs false (splitOn '/' t))) := by
    unfold pathClean; simp [habs]
  generalize hsegs : cleanSegs false (splitOn '/' t) = segs at hn
  by_cases hne : segs = []
  · left; simp only [hne, if_true] at hn; exact ⟨hne, hn⟩
  · right
    simp only [hne, if_false] at hn
    have hnorm : Normal false (run false [] (splitOn '/' t)) := run_normal false [] _ Normal.nil
    have hmem : ∀ s ∈ segs, (s ∈ splitOn '/' t ∨ s = dotdot) ∧ s ≠ [] := by
      intro s hs
      rw [← hsegs] at hs
      unfold cleanSegs at hs
      have hs' := List.mem_reverse.mp hs
      constructor
      · rcases run_mem false _ [] s hs' with h | h | h
        · cases h
        · exact Or.inl h
        · exact Or.inr h
      · rcases normal_mem _ hnorm s hs' with h | h
        · exact h.1
        · rw [h]; decide
    have hnoslash : ∀ s ∈ segs, '/' ∉ s := by
      intro s hs
      rcases (hmem s hs).1 with h | h
      · exact splitOn_noSep '/' t s h
      · rw [h]; decide
    refine ⟨hne, hn, ?_, ?_, ?_⟩
    · rw [hn]; exact splitOn_joinWith '/' segs hne hnoslash
    all_goals
      cases segs with
      | nil => exact absurd rfl hne
      | cons s r =>
        have hs := (hmem s (by simp)).2
        have hsl := hnoslash s (by simp)
        cases s with
        | nil => exact absurd rfl hs
        | cons c s' =>
          obtain ⟨tl, htl⟩ := lc_joinWith_head _ c s' r rfl
          rw [hn, htl]
          first
            | exact List.cons_ne_nil _ _
            | (have hc : c ≠ '/' := by intro e; apply hsl; simp [e]
               simp [isAbs, hc])

end Slug
