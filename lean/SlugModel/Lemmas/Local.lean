import SlugModel.Addr
import SlugModel.Lemmas.AddrJoin
/-!
# Lemmas/Local — sub-path normalisation, `splitSubPath`, local sources

Helper lemmas for C06 (round trips), C19 (the panicking branches of the address code are
unreachable) and the sub-path clause of C07.
-/
namespace Slug

/-! ## `normalizeSubpath` is the identity on its domain -/

theorem lc_run_plain (r : Bool) (xs : List Seg) : ∀ st : List Seg, (∀ x ∈ xs, Plain x) →
    run r st xs = xs.reverse ++ st := by
  induction xs with
  | nil => intro st _; rfl
  | cons x xs ih =>
    intro st h
    obtain ⟨h1, h2, h3⟩ := h x (by simp)
    have : step r st x = x :: st := by unfold step; simp [h1, h2, h3]
    rw [run_cons, this, ih _ (fun y hy => h y (by simp [hy]))]
    simp

theorem lc_cleanSegs_plain (r : Bool) (xs : List Seg) (h : ∀ x ∈ xs, Plain x) :
    cleanSegs r xs = xs := by
  unfold cleanSegs; rw [lc_run_plain r xs [] h]; simp

/-- a valid path is already clean -/
theorem pathClean_of_validPath (s : Str) (h : validPath s = true) : pathClean s = s := by
  by_cases hd : s = dot
  · subst hd; decide
  · have habs := validPath_not_abs s h
    unfold validPath at h
    simp only [hd, decide_false, Bool.false_or, List.all_eq_true] at h
    have hplain : ∀ x ∈ splitOn '/' s, Plain x := fun x hx => (plain_iff x).mp (h x hx)
    unfold pathClean
    simp only [habs, Bool.false_eq_true, if_false]
    rw [lc_cleanSegs_plain false _ hplain]
    simp [splitOn_ne_nil, joinWith_splitOn]

theorem normalizeSubpath_some (s n : Str) (h : normalizeSubpath s = some n) : n = s ∧ ValidSub s := by
  unfold normalizeSubpath at h
  split at h
  · rename_i h0; cases h; exact ⟨h0.symm, Or.inl h0⟩
  · split at h
    · cases h
    · rename_i hv
      simp only [Bool.not_eq_true', Bool.not_eq_false] at hv
      simp only [pathClean_of_validPath s hv] at h
      split at h
      · cases h
      · rename_i hd; cases h; exact ⟨rfl, Or.inr ⟨hv, hd⟩⟩

theorem normalizeSubpath_of_validSub (s : Str) (h : ValidSub s) : normalizeSubpath s = some s := by
  unfold normalizeSubpath
  rcases h with rfl | ⟨hv, hd⟩
  · rfl
  · by_cases h0 : s = []
    · simp [h0]
    · simp [h0, hv, pathClean_of_validPath s hv, hd]

theorem validSubPath_iff (s : Str) : validSubPath s = true ↔ ValidSub s := by
  unfold validSubPath
  constructor
  · intro h
    cases hn : normalizeSubpath s with
    | none => rw [hn] at h; cases h
    | some n => exact (normalizeSubpath_some s n hn).2
  · intro h; rw [normalizeSubpath_of_validSub s h]; rfl

end Slug
