import SlugModel.Sanitise
import SlugModel.Lemmas.FSFrame
import SlugModel.Lemmas.PathSegs
import SlugModel.Lemmas.UnpackInv
/-!
# Lemmas/SanitiseInv — what the package preparation walk changes, and what it checks

Helper lemmas for `Props/C10`.
* `SnSub fs' fs`: `fs'` is `fs` with some bindings removed (the walk only deletes; `snSub_walk`).
* `SanAt W fs path`: `path` is an absolute clean path at or below the work directory none of whose
  proper prefixes is a link — what every path handed to `prepVisit` satisfies, so `RemoveAll(path)`
  acts at the physical location `pathSegs path`.  `SanNames W fs`: keys below `W` consist of names.
* `SnStep W fs fs'`: only bindings at or below `W` are removed, `KeysPhysical` is kept
  (`snStep_walk`: the frame induction over `prepWalk`/`prepChildren`).
* `sn_prepVisit_eq`, `sn_ensurePrepared_eq`: the callback and `ensurePrepared` in normal form
  (`snIsDir`, `snCheck`, `snRules`, `snFinish`), with inversion lemmas.
* `sn_mem_readdir`, `sn_mem_filesBelow`, `sn_hashable`: directory listings and the hash.
* `sn_renameDir_*`: `renameDir` as a re-keying map (frame, source gone, subtree moved).
* `SanCtx`, `SanKind`, `SanGood`, `SanPost`, `sn_walk_post`: every binding a non-failing walk leaves
  below the work directory has passed the callback (completeness of the walk).
* `sn_resolve_mono`: a resolution that still succeeds after deletions went the same way before.
* `SnLocalLink`, `sn_resolve_rekey`, `sn_resolve_spine_*`: resolution commutes with re-keying a
  subtree whose links are local.
* `SanCheck`: decidable form of the hypotheses, for closed examples.
* `snLinkOK`: the lexical check of the callback on a link (relative target, `filepath.IsLocal` of the
  target joined to the link's directory); `sn_linkOK_go`: on segments, the target never climbs above
  the package root (`isLocal.go depth (pathSegs t)`).
* `sn_resolve_file_blocks`, `sn_link_blocks`: a path (a link) that leads to a regular file cannot serve
  as a directory.  `sn_resolve_rekey_go`: resolution inside a subtree all of whose links are relative,
  lexically local and lead to files never leaves the subtree, hence commutes with `renameDir`.
-/
namespace Slug

/-! ## association-list facts -/

theorem sn_get_cons (q : PPath) (n : Node) (r : FS) (p : PPath) :
    FS.get ((q, n) :: r) p = if q = p then some n else FS.get r p := rfl

theorem sn_get_filter (f : PPath → Bool) (fs : FS) (q : PPath) :
    FS.get (fs.filter (fun e => f e.1)) q = if f q then fs.get q else none := by
  induction fs with
  | nil => simp [FS.get]
  | cons e r ih =>
    obtain ⟨k, n⟩ := e
    by_cases hk : f k = true
    · rw [List.filter_cons_of_pos (by simpa using hk), sn_get_cons, sn_get_cons]
      by_cases hq : k = q
      · subst hq; simp [hk]
      · simp only [hq, if_false]; exact ih
    · rw [List.filter_cons_of_neg (by simpa using hk), sn_get_cons]
      by_cases hq : k = q
      · subst hq
        have : f k = false := by simpa using hk
        rw [ih]; simp [this]
      · simp only [hq, if_false]; exact ih

theorem sn_get_delTree (fs : FS) (p q : PPath) :
    (fs.delTree p).get q = if p <+: q then none else fs.get q := by
  unfold FS.delTree
  rw [sn_get_filter (fun k => !(p.isPrefixOf k)) fs q]
  by_cases h : p <+: q
  · have : p.isPrefixOf q = true := List.isPrefixOf_iff_prefix.mpr h
    simp [h, this]
  · have : p.isPrefixOf q = false := by
      cases hb : p.isPrefixOf q with
      | false => rfl
      | true => exact absurd (List.isPrefixOf_iff_prefix.mp hb) h
    simp [h, this]

theorem sn_get_eq_none (fs : FS) (q : PPath) : fs.get q = none ↔ ∀ e ∈ fs, e.1 ≠ q := by
  induction fs with
  | nil => simp [FS.get]
  | cons e r ih =>
    obtain ⟨k, n⟩ := e
    rw [sn_get_cons]
    by_cases hq : k = q
    · subst hq; simp
    · simp only [hq, if_false, ih, List.mem_cons, forall_eq_or_imp, ne_eq, not_false_eq_true, true_and]

theorem sn_mem_get_isSome {fs : FS} {k : PPath} {n : Node} (h : (k, n) ∈ fs) : (fs.get k).isSome = true := by
  cases hg : fs.get k with
  | some m => rfl
  | none => exact absurd rfl ((sn_get_eq_none fs k).mp hg (k, n) h)

theorem sn_get_some_mem {fs : FS} {k : PPath} {n : Node} (h : fs.get k = some n) : (k, n) ∈ fs := get_mem h

/-! ## `SnSub`: only deletions -/

/-- `fs'` is `fs` with some bindings removed -/
def SnSub (fs' fs : FS) : Prop := ∀ q, fs'.get q = fs.get q ∨ fs'.get q = none

theorem SnSub.refl (fs : FS) : SnSub fs fs := fun _ => Or.inl rfl

theorem SnSub.trans {a b c : FS} (h1 : SnSub b a) (h2 : SnSub c b) : SnSub c a := by
  intro q
  rcases h2 q with e | e
  · rcases h1 q with e' | e'
    · exact Or.inl (e.trans e')
    · exact Or.inr (e.trans e')
  · exact Or.inr e

theorem SnSub.get_some {fs' fs : FS} (h : SnSub fs' fs) {q : PPath} {n : Node} (hq : fs'.get q = some n) :
    fs.get q = some n := by
  rcases h q with e | e
  · rw [← e]; exact hq
  · rw [e] at hq; cases hq

theorem SnSub.lookup {fs' fs : FS} (h : SnSub fs' fs) (q : PPath) :
    fs'.lookup q = fs.lookup q ∨ fs'.lookup q = none := by
  unfold FS.lookup
  by_cases hq : q = []
  · simp [hq]
  · simp only [hq, if_false]; exact h q

theorem SnSub.lookup_some {fs' fs : FS} (h : SnSub fs' fs) {q : PPath} {n : Node} (hq : fs'.lookup q = some n) :
    fs.lookup q = some n := by
  rcases h.lookup q with e | e
  · rw [← e]; exact hq
  · rw [e] at hq; cases hq

theorem snSub_delTree (fs : FS) (p : PPath) : SnSub (fs.delTree p) fs := by
  intro q
  rw [sn_get_delTree]
  split
  · exact Or.inr rfl
  · exact Or.inl rfl

/-- `RemoveAll` either does nothing or deletes the subtree at the place `Lstat`-style resolution finds -/
theorem sn_removeAll_cases (fs : FS) (path : Str) :
    fs.removeAll path = fs ∨
    ∃ p, fs.resolvePath path false = .ok p ∧ p ≠ [] ∧ fs.removeAll path = fs.delTree p := by
  unfold FS.removeAll
  split
  · rename_i p hp
    split
    · exact Or.inl rfl
    · rename_i hne
      exact Or.inr ⟨p, hp, hne, rfl⟩
  · exact Or.inl rfl

theorem snSub_removeAll (fs : FS) (path : Str) : SnSub (fs.removeAll path) fs := by
  rcases sn_removeAll_cases fs path with e | ⟨p, _, _, e⟩
  · rw [e]; exact SnSub.refl _
  · rw [e]; exact snSub_delTree fs p

/-! ## the callback in normal form -/

def snIsDir : Node → Bool
  | .dir _ _ => true
  | _ => false

/-- the containment and kind check of `packagePrepareWalkFn`: both the root and the visited path are
resolved physically in the current state -/
def snCheck (fs : FS) (root rel : Str) : SRes :=
  match fs.evalSymlinks root with
  | none => .fail
  | some absRoot =>
    match fs.evalSymlinks (pathJoin (ofSegs absRoot) rel) with
    | none => .fail
    | some real =>
      if !(absRoot.isPrefixOf real) then .fail
      else
        match fs.lookup real with
        | some (.file _ _ _) => .cont
        | some (.dir _ _) => .cont
        | _ => .fail

/-- the lexical check on a link of `packagePrepareWalkFn`: the target is relative and, joined to the
directory of the link (relative to the package root), stays inside the package as written -/
def snLinkOK (rel : Str) : Node → Bool
  | .link t => !isAbs t && isLocal (pathJoin (pathDir rel) t)
  | _ => true

theorem sn_prepVisit_eq (rules : List Rule) (root : Str) (fs : FS) (absPath : Str) (node : Node) :
    prepVisit rules root fs absPath node =
      match pathRel root absPath with
      | none => (fs, .fail)
      | some rel =>
        if rel = dot then (fs, .cont)
        else if (excludes rules rel).1 then (fs.removeAll absPath, .cont)
        else if snIsDir node && (excludes rules (rel ++ ['/'])).1 then (fs.removeAll absPath, .skipDir)
        else (fs, if snLinkOK rel node then snCheck fs root rel else .fail) := by
  unfold prepVisit
  cases hrel : pathRel root absPath with
  | none => rfl
  | some rel =>
    simp only
    by_cases h1 : rel = dot
    · simp only [h1, if_true]
    · simp only [h1, if_false]
      cases h2 : (excludes rules rel).1 with
      | true => simp only [if_true]
      | false =>
        simp only [Bool.false_eq_true, if_false]
        have tail : ∀ b : Bool, (match fs.evalSymlinks root with
            | none => (fs, SRes.fail)
            | some absRoot =>
              match fs.evalSymlinks (pathJoin ('/' :: joinWith '/' absRoot) rel) with
              | none => (fs, SRes.fail)
              | some real =>
                if (!List.isPrefixOf absRoot real) = true then (fs, SRes.fail)
                else
                  if (!b) = true then (fs, SRes.fail)
                  else
                  match fs.lookup real with
                  | some (Node.file _ _ _) => (fs, SRes.cont)
                  | some (Node.dir _ _) => (fs, SRes.cont)
                  | _ => (fs, SRes.fail)) = (fs, if b then snCheck fs root rel else .fail) := by
          intro b
          unfold snCheck ofSegs
          cases fs.evalSymlinks root with
          | none => cases b <;> rfl
          | some absRoot =>
            simp only
            cases fs.evalSymlinks (pathJoin ('/' :: joinWith '/' absRoot) rel) with
            | none => cases b <;> rfl
            | some real =>
              simp only
              cases h4 : (!(absRoot.isPrefixOf real)) with
              | true => cases b <;> simp only [if_true, Bool.false_eq_true, if_false]
              | false =>
                cases b with
                | false => simp only [Bool.false_eq_true, if_false, Bool.not_false, if_true]
                | true =>
                  simp only [Bool.false_eq_true, if_false, Bool.not_true, if_true]
                  cases fs.lookup real with
                  | none => rfl
                  | some n => cases n <;> rfl
        cases node with
        | dir pm mt =>
          simp only [snIsDir, Bool.true_and]
          cases (excludes rules (rel ++ ['/'])).1 with
          | true => simp only [if_true]
          | false => simp only [Bool.false_eq_true, if_false]; exact tail true
        | file pm mt c => simp only [snIsDir, Bool.false_and, Bool.false_eq_true, if_false]; exact tail true
        | link t =>
          simp only [snIsDir, Bool.false_and, Bool.false_eq_true, if_false]
          exact tail (!isAbs t && isLocal (pathJoin (pathDir rel) t))
        | special => simp only [snIsDir, Bool.false_and, Bool.false_eq_true, if_false]; exact tail true

/-- when the containment-and-kind check fails, the callback's verdict is `fail` whatever the lexical
check says -/
theorem sn_visit_tail_fail {fs : FS} {root rel : Str} {node : Node} (h : snCheck fs root rel = .fail) :
    (if snLinkOK rel node then snCheck fs root rel else SRes.fail) = .fail := by
  rw [h]; split <;> rfl

/-- the callback either leaves the filesystem alone or removes the visited path -/
theorem sn_prepVisit_fst_cases (rules : List Rule) (root : Str) (fs : FS) (absPath : Str) (node : Node) :
    (prepVisit rules root fs absPath node).1 = fs ∨
    (prepVisit rules root fs absPath node).1 = fs.removeAll absPath := by
  rw [sn_prepVisit_eq]
  split
  · exact Or.inl rfl
  · split
    · exact Or.inl rfl
    · split
      · exact Or.inr rfl
      · split
        · exact Or.inr rfl
        · exact Or.inl rfl

theorem snSub_prepVisit (rules : List Rule) (root : Str) (fs : FS) (absPath : Str) (node : Node) :
    SnSub (prepVisit rules root fs absPath node).1 fs := by
  rcases sn_prepVisit_fst_cases rules root fs absPath node with e | e
  · rw [e]; exact SnSub.refl _
  · rw [e]; exact snSub_removeAll _ _

/-! ## the walk only deletes -/

theorem snSub_walk (rules : List Rule) (root : Str) :
    ∀ fuel : Nat,
      (∀ fs path node, SnSub (prepWalk rules root fuel fs path node).1 fs) ∧
      (∀ fs path names, SnSub (prepChildren rules root fuel fs path names).1 fs) := by
  intro fuel
  induction fuel with
  | zero =>
    refine ⟨?_, ?_⟩
    · intro fs path node; rw [prepWalk]; exact SnSub.refl _
    · intro fs path names; rw [prepChildren]; exact SnSub.refl _
  | succ fuel ih =>
    obtain ⟨ihW, ihC⟩ := ih
    refine ⟨?_, ?_⟩
    · intro fs path node
      have hv := snSub_prepVisit rules root fs path node
      cases node with
      | dir pm mt =>
        rw [prepWalk]
        simp only
        split
        · exact hv.trans (ihC _ _ _)
        · exact hv
      | file pm mt c => rw [prepWalk]; exact hv; intro _ _ h; cases h
      | link t => rw [prepWalk]; exact hv; intro _ _ h; cases h
      | special => rw [prepWalk]; exact hv; intro _ _ h; cases h
    · intro fs path names
      cases names with
      | nil => rw [prepChildren]; exact SnSub.refl _
      | cons name rest =>
        rw [prepChildren]
        simp only
        split
        · exact SnSub.refl _
        · rename_i child hc
          have hn := ihW fs (pathJoin path name) child
          split
          · exact hn.trans (ihC _ _ _)
          · split
            · exact hn.trans (ihC _ _ _)
            · exact hn
          · exact hn

/-! ## paths handed to the callback -/

/-- `path` is an absolute clean path at or below `W` and no proper prefix of it is a link: `Lstat`
and `RemoveAll` act at the physical location `pathSegs path` -/
structure SanAt (W : PPath) (fs : FS) (path : Str) : Prop where
  clean : AbsClean path
  under : W <+: pathSegs path
  nolink : ∀ q, q <+: pathSegs path → q ≠ pathSegs path → ∀ t, fs.lookup q ≠ some (.link t)

/-- the components of every key at or below `W` are names a directory entry can have -/
def SanNames (W : PPath) (fs : FS) : Prop :=
  ∀ k n, fs.get k = some n → W <+: k → ∀ x ∈ k, NameNS x

theorem SanNames.sub {W : PPath} {fs fs' : FS} (h : SanNames W fs) (hs : SnSub fs' fs) : SanNames W fs' :=
  fun k n hk hu => h k n (hs.get_some hk) hu

theorem SanAt.sub {W : PPath} {fs fs' : FS} {path : Str} (h : SanAt W fs path) (hs : SnSub fs' fs) :
    SanAt W fs' path :=
  ⟨h.clean, h.under, fun q h1 h2 t hl => h.nolink q h1 h2 t (hs.lookup_some hl)⟩

theorem sn_notLink_sub {fs fs' : FS} (hs : SnSub fs' fs) {q : PPath} (h : ∀ t, fs.lookup q ≠ some (.link t)) :
    ∀ t, fs'.lookup q ≠ some (.link t) := fun t hl => h t (hs.lookup_some hl)

theorem SanAt.between {W : PPath} {fs : FS} {path : Str} (h : SanAt W fs path) :
    NoLinkBetween fs [] (pathSegs path) := by
  intro q _ h2 h3 h4 t hg
  rw [List.nil_append] at h3 h4
  apply h.nolink q h3 h4 t
  rw [lookup_ne_nil fs q h2]; exact hg

theorem SanAt.resolve_false {W : PPath} {fs : FS} {path : Str} (h : SanAt W fs path) {p : PPath}
    (hr : fs.resolvePath path false = .ok p) : p = pathSegs path := by
  unfold FS.resolvePath at hr
  have := resolve_nolink fs _ [] _ p (absClean_no_dotdot h.clean) h.between hr
  simpa using this

/-- with no link on the way, the final component included, following the final link or not makes no
difference -/
theorem sn_resolve_plain (fs : FS) : ∀ (fuel : Nat) (cur : PPath) (segs : List Seg),
    (∀ x ∈ segs, x ≠ dotdot) →
    (∀ q, cur <+: q → q ≠ cur → q <+: cur ++ segs → ∀ t, fs.lookup q ≠ some (.link t)) →
    resolve fs fuel cur segs true = resolve fs fuel cur segs false := by
  intro fuel
  induction fuel with
  | zero => intro cur segs _ _; simp [resolve]
  | succ fuel ih =>
    intro cur segs hn hnl
    cases segs with
    | nil => simp [resolve]
    | cons s rest =>
      have hs : s ≠ dotdot := hn s (by simp)
      have hassoc : cur ++ s :: rest = (cur ++ [s]) ++ rest := by simp
      rw [resolve, resolve, if_neg hs, if_neg hs]
      simp only
      cases hl : fs.lookup (cur ++ [s]) with
      | none => rfl
      | some n =>
        cases n with
        | dir pm mt =>
          simp only
          apply ih _ _ (fun x hx => hn x (List.mem_cons_of_mem _ hx))
          intro q h1 h2 h3 t
          apply hnl q (List.IsPrefix.trans (List.prefix_append _ _) h1)
          · intro e
            rw [e] at h1
            have := List.IsPrefix.length_le h1
            simp only [List.length_append, List.length_cons, List.length_nil] at this
            omega
          · rw [hassoc]; exact h3
        | file pm mt c => rfl
        | special => rfl
        | link t =>
          exfalso
          refine hnl (cur ++ [s]) (List.prefix_append _ _) ?_ ?_ t hl
          · intro e
            have := congrArg List.length e
            simp only [List.length_append, List.length_cons, List.length_nil] at this
            omega
          · rw [hassoc]; exact List.prefix_append _ _

/-- a path as in `SanAt` whose last component is not a link either resolves the same way in both
modes -/
theorem SanAt.resolve_eq {W : PPath} {fs : FS} {path : Str} (h : SanAt W fs path)
    (hl : ∀ t, fs.lookup (pathSegs path) ≠ some (.link t)) :
    fs.resolvePath path true = fs.resolvePath path false := by
  unfold FS.resolvePath
  apply sn_resolve_plain fs _ _ _ (absClean_no_dotdot h.clean)
  intro q _ _ h3 t
  rw [List.nil_append] at h3
  by_cases he : q = pathSegs path
  · rw [he]; exact hl t
  · exact h.nolink q h3 he t

theorem SanAt.lstat {W : PPath} {fs : FS} {path : Str} (h : SanAt W fs path) {n : Node}
    (hl : fs.lstat path = .ok n) :
    fs.resolvePath path false = .ok (pathSegs path) ∧ fs.lookup (pathSegs path) = some n := by
  obtain ⟨p, hp, hn⟩ := lstat_ok hl
  have := h.resolve_false hp
  subst this
  exact ⟨hp, hn⟩

/-! ## directory listings -/

theorem sn_mem_dedup {α β : Type} [BEq β] [LawfulBEq β] (f : α → β) (l : List α) :
    ∀ (init : List β) (y : β),
      y ∈ l.foldl (fun acc e => if acc.contains (f e) then acc else acc ++ [f e]) init ↔
        y ∈ init ∨ ∃ e ∈ l, f e = y := by
  induction l with
  | nil => intro init y; simp
  | cons a l ih =>
    intro init y
    rw [List.foldl_cons, ih]
    by_cases hc : init.contains (f a) = true
    · simp only [hc, if_true]
      constructor
      · rintro (h | ⟨e, he, hf⟩)
        · exact Or.inl h
        · exact Or.inr ⟨e, List.mem_cons_of_mem _ he, hf⟩
      · rintro (h | ⟨e, he, hf⟩)
        · exact Or.inl h
        · rcases List.mem_cons.mp he with rfl | he
          · left; rw [← hf]; exact List.contains_iff_mem.mp hc |> fun h => by simpa using h
          · exact Or.inr ⟨e, he, hf⟩
    · simp only [hc]
      constructor
      · rintro (h | ⟨e, he, hf⟩)
        · rcases List.mem_append.mp h with h | h
          · exact Or.inl h
          · simp only [List.mem_singleton] at h
            exact Or.inr ⟨a, by simp, h.symm⟩
        · exact Or.inr ⟨e, List.mem_cons_of_mem _ he, hf⟩
      · rintro (h | ⟨e, he, hf⟩)
        · exact Or.inl (List.mem_append_left _ h)
        · rcases List.mem_cons.mp he with rfl | he
          · left; rw [← hf]; simp
          · exact Or.inr ⟨e, he, hf⟩

theorem sn_mem_insertSorted (x y : Str) (l : List Str) : y ∈ insertSorted x l ↔ y = x ∨ y ∈ l := by
  induction l with
  | nil => simp [insertSorted]
  | cons a l ih =>
    unfold insertSorted
    split
    · simp
    · simp only [List.mem_cons, ih]
      constructor
      · rintro (h | h | h)
        · exact Or.inr (Or.inl h)
        · exact Or.inl h
        · exact Or.inr (Or.inr h)
      · rintro (h | h | h)
        · exact Or.inr (Or.inl h)
        · exact Or.inl h
        · exact Or.inr (Or.inr h)

theorem sn_mem_sorted (l : List Str) (y : Str) : y ∈ l.foldr insertSorted [] ↔ y ∈ l := by
  induction l with
  | nil => simp
  | cons a l ih => rw [List.foldr_cons, sn_mem_insertSorted, ih]; simp

/-- `readdir` lists exactly the names bound directly below `p` -/
theorem sn_mem_readdir (fs : FS) (p : PPath) (name : Str) :
    name ∈ fs.readdir p ↔ (fs.get (p ++ [name])).isSome = true := by
  unfold FS.readdir
  rw [sn_mem_sorted]
  have := sn_mem_dedup (fun x : Str => x)
    (fs.filterMap fun e => if e.1.dropLast = p ∧ e.1 ≠ [] ∧ (fs.get e.1).isSome then e.1.getLast? else none)
    [] name
  rw [this]
  simp only [List.not_mem_nil, false_or, List.mem_filterMap, exists_eq_right]
  constructor
  · rintro ⟨e, _, he⟩
    split at he
    · rename_i hc
      obtain ⟨h1, _, h3⟩ := hc
      obtain ⟨ys, hys⟩ := List.getLast?_eq_some_iff.mp he
      rw [hys, List.dropLast_concat] at h1
      rw [← h1, ← hys]; exact h3
    · cases he
  · intro h
    cases hg : fs.get (p ++ [name]) with
    | none => rw [hg] at h; cases h
    | some n =>
      refine ⟨(p ++ [name], n), get_mem hg, ?_⟩
      simp [hg]

/-! ## `SnStep`: only bindings at or below `W` are removed -/

structure SnStep (W : PPath) (fs fs' : FS) : Prop where
  shrink : ∀ q, fs'.get q = fs.get q ∨ (W <+: q ∧ fs'.get q = none)
  keys : KeysPhysical fs → KeysPhysical fs'

theorem SnStep.refl (W : PPath) (fs : FS) : SnStep W fs fs := ⟨fun _ => Or.inl rfl, fun h => h⟩

theorem SnStep.trans {W : PPath} {a b c : FS} (h1 : SnStep W a b) (h2 : SnStep W b c) : SnStep W a c := by
  refine ⟨?_, fun h => h2.keys (h1.keys h)⟩
  intro q
  rcases h2.shrink q with e | e
  · rcases h1.shrink q with e' | ⟨hu, e'⟩
    · exact Or.inl (e.trans e')
    · exact Or.inr ⟨hu, e.trans e'⟩
  · exact Or.inr e

theorem SnStep.sub {W : PPath} {fs fs' : FS} (h : SnStep W fs fs') : SnSub fs' fs := by
  intro q
  rcases h.shrink q with e | ⟨_, e⟩
  · exact Or.inl e
  · exact Or.inr e

theorem SnStep.frame {W : PPath} {fs fs' : FS} (h : SnStep W fs fs') (q : PPath) (hq : ¬ W <+: q) :
    fs'.get q = fs.get q := by
  rcases h.shrink q with e | ⟨hu, _⟩
  · exact e
  · exact absurd hu hq

theorem snStep_delTree (W : PPath) (fs : FS) (p : PPath) (hu : W <+: p) : SnStep W fs (fs.delTree p) := by
  refine ⟨?_, ?_⟩
  · intro q
    rw [sn_get_delTree]
    split
    · rename_i hp
      exact Or.inr ⟨List.IsPrefix.trans hu hp, rfl⟩
    · exact Or.inl rfl
  · intro hk k n hg
    rw [sn_get_delTree] at hg
    split at hg
    · cases hg
    · rename_i hp
      obtain ⟨h1, pm, mt, h2⟩ := hk k n hg
      refine ⟨h1, ?_⟩
      by_cases h0 : k.dropLast = []
      · exact ⟨0o755, 0, by simp [FS.lookup, h0]⟩
      · refine ⟨pm, mt, ?_⟩
        rw [lookup_ne_nil _ _ h0] at h2 ⊢
        rw [sn_get_delTree, if_neg]
        · exact h2
        · intro hpd
          exact hp (List.IsPrefix.trans hpd (List.dropLast_prefix k))

theorem snStep_removeAll {W : PPath} {fs : FS} {path : Str} (h : SanAt W fs path) :
    SnStep W fs (fs.removeAll path) := by
  rcases sn_removeAll_cases fs path with e | ⟨p, hp, _, e⟩
  · rw [e]; exact SnStep.refl _ _
  · rw [e]
    have := h.resolve_false hp
    subst this
    exact snStep_delTree W fs _ h.under

theorem snStep_prepVisit (rules : List Rule) (root : Str) {W : PPath} {fs : FS} {path : Str} (node : Node)
    (h : SanAt W fs path) : SnStep W fs (prepVisit rules root fs path node).1 := by
  rcases sn_prepVisit_fst_cases rules root fs path node with e | e
  · rw [e]; exact SnStep.refl _ _
  · rw [e]; exact snStep_removeAll h

/-- the child `path/name` of a walked directory -/
theorem sanAt_child {W : PPath} {fs : FS} {path : Str} (h : SanAt W fs path)
    (hl : ∀ t, fs.lookup (pathSegs path) ≠ some (.link t)) {name : Str} (hn : NameNS name) :
    SanAt W fs (pathJoin path name) ∧ pathSegs (pathJoin path name) = pathSegs path ++ [name] := by
  have hsegs := pathSegs_pathJoin_name path name h.clean hn
  refine ⟨⟨pathJoin_absClean path name h.clean.1, ?_, ?_⟩, hsegs⟩
  · rw [hsegs]; exact List.IsPrefix.trans h.under (List.prefix_append _ _)
  · rw [hsegs]
    intro q h1 h2 t
    have h3 := prefix_of_lt_concat h1 h2
    by_cases he : q = pathSegs path
    · rw [he]; exact hl t
    · exact h.nolink q h3 he t

/-- the names `filepath.Walk` reads in a directory it found by `Lstat` -/
theorem sn_walk_names {W : PPath} {fs : FS} {path : Str} (hN : SanNames W fs) (h : SanAt W fs path)
    {pm : Nat} {mt : Int} (hl : fs.lstat path = .ok (.dir pm mt)) :
    fs.resolvePath path true = .ok (pathSegs path) ∧
    (∀ n ∈ fs.readdir (pathSegs path), NameNS n) ∧
    (∀ t, fs.lookup (pathSegs path) ≠ some (.link t)) := by
  obtain ⟨hr, hlk⟩ := h.lstat hl
  have hnl : ∀ t, fs.lookup (pathSegs path) ≠ some (.link t) := by
    intro t ht; rw [hlk] at ht; cases ht
  refine ⟨?_, ?_, hnl⟩
  · rw [h.resolve_eq hnl, hr]
  · intro n hn
    rw [sn_mem_readdir] at hn
    cases hg : fs.get (pathSegs path ++ [n]) with
    | none => rw [hg] at hn; cases hn
    | some m =>
      exact hN _ m hg (List.IsPrefix.trans h.under (List.prefix_append _ _)) n (by simp)

/-! ## the walk changes nothing outside the work directory -/

theorem snStep_walk (rules : List Rule) (root : Str) (W : PPath) :
    ∀ fuel : Nat,
      (∀ fs path node, SanNames W fs → SanAt W fs path → fs.lstat path = .ok node →
        SnStep W fs (prepWalk rules root fuel fs path node).1) ∧
      (∀ fs path names, SanNames W fs → SanAt W fs path →
        (∀ t, fs.lookup (pathSegs path) ≠ some (.link t)) → (∀ n ∈ names, NameNS n) →
        SnStep W fs (prepChildren rules root fuel fs path names).1) := by
  intro fuel
  induction fuel with
  | zero =>
    refine ⟨?_, ?_⟩
    · intro fs path node _ _ _; rw [prepWalk]; exact SnStep.refl _ _
    · intro fs path names _ _ _ _; rw [prepChildren]; exact SnStep.refl _ _
  | succ fuel ih =>
    obtain ⟨ihW, ihC⟩ := ih
    refine ⟨?_, ?_⟩
    · intro fs path node hN hA hl
      have hv := snStep_prepVisit rules root node hA
      cases node with
      | dir pm mt =>
        obtain ⟨hnames, hns, hnl⟩ := sn_walk_names hN hA hl
        rw [prepWalk]
        simp only [hnames]
        split
        · exact hv.trans (ihC _ _ _ (hN.sub hv.sub) (hA.sub hv.sub) (sn_notLink_sub hv.sub hnl) hns)
        · exact hv
      | file pm mt c => rw [prepWalk]; exact hv; intro _ _ h; cases h
      | link t => rw [prepWalk]; exact hv; intro _ _ h; cases h
      | special => rw [prepWalk]; exact hv; intro _ _ h; cases h
    · intro fs path names hN hA hnl hns
      cases names with
      | nil => rw [prepChildren]; exact SnStep.refl _ _
      | cons name rest =>
        rw [prepChildren]
        simp only
        split
        · exact SnStep.refl _ _
        · rename_i child hc
          obtain ⟨hA', _⟩ := sanAt_child hA hnl (hns name (by simp))
          have hn := ihW fs (pathJoin path name) child hN hA' hc
          have hrest : ∀ n ∈ rest, NameNS n := fun n hn => hns n (List.mem_cons_of_mem _ hn)
          have hgo := ihC _ path rest (hN.sub hn.sub) (hA.sub hn.sub) (sn_notLink_sub hn.sub hnl) hrest
          split
          · exact hn.trans hgo
          · split
            · exact hn.trans hgo
            · exact hn
          · exact hn

/-- the work directory itself: its components are real directories -/
theorem sanAt_root {fs : FS} {work : Str} (hc : AbsClean work) (hreal : RealDir fs (pathSegs work)) :
    SanAt (pathSegs work) fs work := by
  refine ⟨hc, List.prefix_refl _, ?_⟩
  intro q hq _ t hl
  obtain ⟨a, b, h⟩ := hreal q hq
  rw [h] at hl; cases hl

theorem sn_root_notLink {fs : FS} {W : PPath} (hreal : RealDir fs W) : ∀ t, fs.lookup W ≠ some (.link t) := by
  intro t hl
  obtain ⟨a, b, h⟩ := hreal W (List.prefix_refl _)
  rw [h] at hl; cases hl

/-! ## `hashable` -/

theorem sn_mem_filesBelow (fs : FS) (p k : PPath) :
    k ∈ fs.filesBelow p ↔ p <+: k ∧ k ≠ p ∧ ∃ n, fs.get k = some n ∧ ∀ a b, n ≠ .dir a b := by
  unfold FS.filesBelow
  simp only [List.mem_filter]
  have hkeys := sn_mem_dedup (fun e : PPath × Node => e.1) fs [] k
  rw [hkeys]
  simp only [List.not_mem_nil, false_or, Bool.and_eq_true, decide_eq_true_eq, List.isPrefixOf_iff_prefix]
  constructor
  · rintro ⟨_, ⟨h1, h2⟩, h3⟩
    refine ⟨h1, h2, ?_⟩
    cases hg : fs.get k with
    | none => rw [hg] at h3; cases h3
    | some n =>
      refine ⟨n, rfl, ?_⟩
      intro a b e
      subst e
      rw [hg] at h3; cases h3
  · rintro ⟨h1, h2, n, hg, hn⟩
    refine ⟨⟨(k, n), get_mem hg, rfl⟩, ⟨h1, h2⟩, ?_⟩
    rw [hg]
    cases n with
    | dir a b => exact absurd rfl (hn a b)
    | file a b c => rfl
    | link t => rfl
    | special => rfl

/-- a successful hash has opened and read every non-directory below `dir` -/
theorem sn_hashable {fs : FS} {dir : PPath} (h : hashable fs dir = true) :
    ∀ k n, fs.get k = some n → dir <+: k → k ≠ dir → (∀ a b, n ≠ .dir a b) →
      ∃ c, fs.readFile (ofSegs k) = .ok c := by
  intro k n hg hu hne hn
  unfold hashable at h
  rw [List.all_eq_true] at h
  have := h k ((sn_mem_filesBelow fs dir k).mpr ⟨hu, hne, n, hg, hn⟩)
  unfold ofSegs
  cases hr : fs.readFile ('/' :: joinWith '/' k) with
  | ok c => exact ⟨c, rfl⟩
  | error e => rw [hr] at this; cases this

theorem sn_readFile_ok {fs : FS} {path c : Str} (h : fs.readFile path = .ok c) :
    ∃ p pm mt, fs.resolvePath path true = .ok p ∧ fs.lookup p = some (.file pm mt c) := by
  unfold FS.readFile at h
  split at h
  · rename_i p pm mt c' hs
    cases h
    obtain ⟨h1, h2⟩ := stat_ok hs
    exact ⟨p, pm, mt, h1, h2⟩
  · cases h
  · cases h
  · cases h

theorem sn_evalSymlinks_of_resolve {fs : FS} {path : Str} {p : PPath} {n : Node}
    (h1 : fs.resolvePath path true = .ok p) (h2 : fs.lookup p = some n) : fs.evalSymlinks path = some p := by
  unfold FS.evalSymlinks
  rw [h1]; simp [h2]

theorem sn_evalSymlinks_some {fs : FS} {path : Str} {p : PPath} (h : fs.evalSymlinks path = some p) :
    fs.resolvePath path true = .ok p ∧ ∃ n, fs.lookup p = some n := by
  unfold FS.evalSymlinks at h
  split at h
  · rename_i q hq
    split at h
    · rename_i hs
      cases h
      cases hl : fs.lookup p with
      | none => rw [hl] at hs; cases hs
      | some n => exact ⟨hq, n, rfl⟩
    · cases h
  · cases h

/-! ## `renameDir` -/

/-- what `renameDir` does to one binding -/
def snRekey (src dst : PPath) (e : PPath × Node) : PPath × Node :=
  if src.isPrefixOf e.1 then (dst ++ e.1.drop src.length, e.2) else e

theorem sn_filterMap_map {α β : Type} (f : α → Option β) (g : α → β) (l : List α)
    (h : ∀ e ∈ l, f e = some (g e)) : l.filterMap f = l.map g := by
  induction l with
  | nil => rfl
  | cons a l ih =>
    rw [List.filterMap_cons, h a (by simp), List.map_cons, ih (fun e he => h e (List.mem_cons_of_mem _ he))]

theorem sn_renameDir_eq (fs : FS) (src dst : PPath) : fs.renameDir src dst = fs.map (snRekey src dst) := by
  unfold FS.renameDir
  apply sn_filterMap_map
  intro e he
  obtain ⟨k, n⟩ := e
  have := sn_mem_get_isSome he
  cases hg : fs.get k with
  | none => rw [hg] at this; cases this
  | some m =>
    simp only [Option.isNone_some, Bool.false_eq_true, if_false, snRekey]
    split <;> rfl

theorem sn_snRekey_key (src dst : PPath) (e : PPath × Node) :
    (¬ src <+: e.1 ∧ snRekey src dst e = e) ∨
    (∃ x, e.1 = src ++ x ∧ snRekey src dst e = (dst ++ x, e.2)) := by
  unfold snRekey
  by_cases h : src <+: e.1
  · right
    obtain ⟨x, hx⟩ := h
    refine ⟨x, hx.symm, ?_⟩
    have : src.isPrefixOf e.1 = true := List.isPrefixOf_iff_prefix.mpr ⟨x, hx⟩
    rw [if_pos this, ← hx]
    simp
  · left
    refine ⟨h, ?_⟩
    have : ¬ src.isPrefixOf e.1 = true := fun hb => h (List.isPrefixOf_iff_prefix.mp hb)
    rw [if_neg this]

theorem sn_get_map (g : PPath × Node → PPath × Node) (fs : FS) (q : PPath) :
    FS.get (fs.map g) q = none ↔ ∀ e ∈ fs, (g e).1 ≠ q := by
  rw [sn_get_eq_none]
  simp only [List.mem_map, forall_exists_index, and_imp, forall_apply_eq_imp_iff₂]

/-- nothing outside the source and the destination changes -/
theorem sn_renameDir_frame (fs : FS) (src dst q : PPath) (h1 : ¬ src <+: q) (h2 : ¬ dst <+: q) :
    (fs.renameDir src dst).get q = fs.get q := by
  rw [sn_renameDir_eq]
  induction fs with
  | nil => rfl
  | cons e r ih =>
    rw [List.map_cons]
    rcases sn_snRekey_key src dst e with ⟨_, he⟩ | ⟨x, hx, he⟩
    · rw [he]
      obtain ⟨k, n⟩ := e
      rw [sn_get_cons, sn_get_cons, ih]
    · rw [he]
      obtain ⟨k, n⟩ := e
      simp only at hx
      rw [sn_get_cons, sn_get_cons, ih]
      have e1 : dst ++ x ≠ q := by
        intro e; exact h2 ⟨x, e⟩
      have e2 : k ≠ q := by
        intro e; rw [e] at hx; exact h1 ⟨x, hx.symm⟩
      simp [e1, e2]

theorem sn_prefix_append_cases {a b x : PPath} (h : a <+: b ++ x) : a <+: b ∨ b <+: a :=
  List.prefix_or_prefix_of_prefix h (List.prefix_append _ _)

/-- no name below the source stays bound -/
theorem sn_renameDir_src_gone (fs : FS) (src dst q : PPath) (h1 : ¬ src <+: dst) (h2 : ¬ dst <+: src)
    (hq : src <+: q) : (fs.renameDir src dst).get q = none := by
  rw [sn_renameDir_eq, sn_get_map]
  intro e _ heq
  rcases sn_snRekey_key src dst e with ⟨hn, he⟩ | ⟨x, _, he⟩
  · rw [he] at heq; rw [heq] at hn; exact hn hq
  · rw [he] at heq
    simp only at heq
    rw [← heq] at hq
    rcases sn_prefix_append_cases hq with h | h
    · exact h1 h
    · exact h2 h

/-- every binding after the rename is an old one outside the source, or a re-keyed one -/
theorem sn_renameDir_get {fs : FS} {src dst q : PPath} {n : Node}
    (h : (fs.renameDir src dst).get q = some n) :
    (¬ src <+: q ∧ (q, n) ∈ fs) ∨ ∃ x, q = dst ++ x ∧ (src ++ x, n) ∈ fs := by
  have hm := get_mem h
  rw [sn_renameDir_eq, List.mem_map] at hm
  obtain ⟨e, he, heq⟩ := hm
  rcases sn_snRekey_key src dst e with ⟨hn, hk⟩ | ⟨x, hx, hk⟩
  · rw [hk] at heq
    subst heq
    exact Or.inl ⟨hn, he⟩
  · rw [hk] at heq
    obtain ⟨k, m⟩ := e
    simp only at hx heq
    cases heq
    exact Or.inr ⟨x, rfl, by rw [← hx]; exact he⟩

/-- with nothing bound at or below the destination, the subtree is moved as it is -/
theorem sn_renameDir_moved (fs : FS) (src dst x : PPath)
    (hfree : ∀ e ∈ fs, ¬ dst <+: e.1) : (fs.renameDir src dst).get (dst ++ x) = fs.get (src ++ x) := by
  rw [sn_renameDir_eq]
  induction fs with
  | nil => rfl
  | cons e r ih =>
    have ih' := ih (fun e he => hfree e (List.mem_cons_of_mem _ he))
    have hfe := hfree e (by simp)
    rw [List.map_cons]
    rcases sn_snRekey_key src dst e with ⟨hn, he⟩ | ⟨y, hy, he⟩
    · rw [he]
      obtain ⟨k, n⟩ := e
      rw [sn_get_cons, sn_get_cons, ih']
      have e1 : k ≠ dst ++ x := by
        intro e; apply hfe; simp only; rw [e]; exact List.prefix_append _ _
      have e2 : k ≠ src ++ x := by
        intro e; apply hn; simp only; rw [e]; exact List.prefix_append _ _
      simp [e1, e2]
    · rw [he]
      obtain ⟨k, n⟩ := e
      simp only at hy
      rw [sn_get_cons, sn_get_cons, ih']
      by_cases hxy : y = x
      · subst hxy; simp [hy]
      · have e1 : dst ++ y ≠ dst ++ x := by
          intro e; exact hxy (List.append_cancel_left e)
        have e2 : k ≠ src ++ x := by
          intro e; rw [hy] at e; exact hxy (List.append_cancel_left e)
        simp [e1, e2]

/-! ## `ensurePrepared` in normal form -/

/-- the ignore rules of the fetched package -/
def snRules (fs : FS) (work : Str) : List Rule :=
  match fs.readFile (pathJoin work ".terraformignore".toList) with
  | .ok content => readRules content
  | .error _ => defaultRules

/-- hash, then rename (or drop the work directory when the final name exists) -/
def snFinish (fs1 : FS) (work final : Str) : FS × EnsureRes :=
  match fs1.resolvePath work true with
  | .error _ => (fs1, .fail)
  | .ok wp =>
    if !hashable fs1 wp then (fs1, .fail)
    else
      match fs1.lstat final with
      | .ok (.dir _ _) => (fs1.removeAll work, .ok (pathSegs final))
      | _ => (fs1.renameDir wp (pathSegs final), .ok (pathSegs final))

theorem sn_ensurePrepared_eq (fs : FS) (work final : Str) :
    ensurePrepared fs work final =
      match fs.lstat work with
      | .error _ => (fs, .fail)
      | .ok n =>
        match prepWalk (snRules fs work) work prepFuel fs work n with
        | (fs1, .fail) => (fs1, .fail)
        | (fs1, .diverged) => (fs1, .diverged)
        | (fs1, _) => snFinish fs1 work final := by
  unfold ensurePrepared snRules
  cases fs.readFile (pathJoin work ".terraformignore".toList) with
  | ok c =>
    simp only
    cases fs.lstat work with
    | error e => rfl
    | ok n =>
      simp only
      generalize prepWalk (readRules c) work prepFuel fs work n = x
      obtain ⟨fs1, r⟩ := x
      cases r <;> rfl
  | error e =>
    cases e <;> simp only <;>
    (cases fs.lstat work with
     | error e => rfl
     | ok n =>
       simp only
       generalize prepWalk defaultRules work prepFuel fs work n = x
       obtain ⟨fs1, r⟩ := x
       cases r <;> rfl)

theorem sn_finish_ok {fs1 : FS} {work final : Str} {fs' : FS} {d : PPath}
    (h : snFinish fs1 work final = (fs', .ok d)) :
    ∃ wp, fs1.resolvePath work true = .ok wp ∧ hashable fs1 wp = true ∧ d = pathSegs final ∧
      (fs' = fs1.removeAll work ∨ fs' = fs1.renameDir wp (pathSegs final)) := by
  unfold snFinish at h
  split at h
  · cases h
  · rename_i wp hwp
    split at h
    · cases h
    · rename_i hh
      have hh' : hashable fs1 wp = true := by simpa using hh
      split at h
      · cases h; exact ⟨wp, hwp, hh', rfl, Or.inl rfl⟩
      · cases h; exact ⟨wp, hwp, hh', rfl, Or.inr rfl⟩

theorem sn_finish_fst (fs1 : FS) (work final : Str) :
    (snFinish fs1 work final).1 = fs1 ∨ (snFinish fs1 work final).1 = fs1.removeAll work ∨
    ∃ wp, fs1.resolvePath work true = .ok wp ∧
      (snFinish fs1 work final).1 = fs1.renameDir wp (pathSegs final) := by
  unfold snFinish
  split
  · exact Or.inl rfl
  · rename_i wp hwp
    split
    · exact Or.inl rfl
    · split
      · exact Or.inr (Or.inl rfl)
      · exact Or.inr (Or.inr ⟨wp, hwp, rfl⟩)

theorem sn_ensure_ok {fs : FS} {work final : Str} {fs' : FS} {d : PPath}
    (h : ensurePrepared fs work final = (fs', .ok d)) :
    ∃ n fs1 r, fs.lstat work = .ok n ∧
      prepWalk (snRules fs work) work prepFuel fs work n = (fs1, r) ∧ (r = .cont ∨ r = .skipDir) ∧
      snFinish fs1 work final = (fs', .ok d) := by
  rw [sn_ensurePrepared_eq] at h
  split at h
  · cases h
  · rename_i n hn
    generalize hx : prepWalk (snRules fs work) work prepFuel fs work n = x at h
    obtain ⟨fs1, r⟩ := x
    cases r with
    | fail => cases h
    | diverged => cases h
    | cont => exact ⟨n, fs1, .cont, hn, hx, Or.inl rfl, h⟩
    | skipDir => exact ⟨n, fs1, .skipDir, hn, hx, Or.inr rfl, h⟩

theorem sn_ensure_fst (fs : FS) (work final : Str) :
    (ensurePrepared fs work final).1 = fs ∨
    ∃ n, fs.lstat work = .ok n ∧
      ((ensurePrepared fs work final).1 = (prepWalk (snRules fs work) work prepFuel fs work n).1 ∨
       (ensurePrepared fs work final).1 =
         (snFinish (prepWalk (snRules fs work) work prepFuel fs work n).1 work final).1) := by
  rw [sn_ensurePrepared_eq]
  split
  · exact Or.inl rfl
  · rename_i n hn
    right
    refine ⟨n, hn, ?_⟩
    generalize prepWalk (snRules fs work) work prepFuel fs work n = x
    obtain ⟨fs1, r⟩ := x
    cases r with
    | fail => exact Or.inl rfl
    | diverged => exact Or.inl rfl
    | cont => exact Or.inr rfl
    | skipDir => exact Or.inr rfl

/-! ## removal really removes -/

theorem sn_removeAll_eq {W : PPath} {fs : FS} {path : Str} (h : SanAt W fs path) (hne : pathSegs path ≠ [])
    {node : Node} (hl : fs.lstat path = .ok node) : fs.removeAll path = fs.delTree (pathSegs path) := by
  unfold FS.removeAll
  rw [(h.lstat hl).1]
  simp only [hne, if_false]

theorem sn_removeAll_gone {W : PPath} {fs : FS} {path : Str} (h : SanAt W fs path) (hne : pathSegs path ≠ [])
    {node : Node} (hl : fs.lstat path = .ok node) :
    ∀ q, pathSegs path <+: q → (fs.removeAll path).get q = none := by
  intro q hq
  rw [sn_removeAll_eq h hne hl, sn_get_delTree, if_pos hq]

/-- a clean path whose parent's components are real directories -/
theorem sanAt_of_realParent {fs : FS} {path : Str} (hc : AbsClean path)
    (hreal : RealDir fs (pathSegs path).dropLast) : SanAt [] fs path := by
  refine ⟨hc, List.nil_prefix, ?_⟩
  intro q hq hne t hl
  have hq' : q <+: (pathSegs path).dropLast := by
    obtain ⟨x, hx⟩ := hq
    have hxne : x ≠ [] := by
      intro e; apply hne; rw [← hx, e]; simp
    rw [← hx, List.dropLast_append_of_ne_nil hxne]
    exact List.prefix_append _ _
  obtain ⟨a, b, hd⟩ := hreal q hq'
  rw [hd] at hl; cases hl

/-- after the walk the work directory still resolves to itself -/
theorem sn_work_resolves {fs fs1 : FS} {work : Str} (hc : AbsClean work) (hreal : RealDir fs (pathSegs work))
    (hs : SnSub fs1 fs) {wp : PPath} (h : fs1.resolvePath work true = .ok wp) :
    wp = pathSegs work ∧ fs1.resolvePath work false = .ok (pathSegs work) := by
  have hA : SanAt (pathSegs work) fs1 work := (sanAt_root hc hreal).sub hs
  have hnl := sn_notLink_sub hs (sn_root_notLink hreal)
  rw [hA.resolve_eq hnl] at h
  have := hA.resolve_false h
  subst this
  exact ⟨rfl, h⟩

/-! ## checking the hypotheses on a concrete filesystem (for closed examples) -/

instance snDecNameNS (x : Seg) : Decidable (NameNS x) := by unfold NameNS; infer_instance

instance snDecAbsClean (s : Str) : Decidable (AbsClean s) := by unfold AbsClean; infer_instance

/-- decidable form of `RealDir ∧ KeysPhysical ∧ SanNames` (checks shadowed bindings too) -/
def SanCheck (fs : FS) (W : PPath) : Prop :=
  (∀ k, k < W.length + 1 → isDirB (fs.lookup (W.take k)) = true) ∧
  (∀ e ∈ fs, e.1 ≠ [] ∧ isDirB (fs.lookup e.1.dropLast) = true) ∧
  (∀ e ∈ fs, W <+: e.1 → ∀ x ∈ e.1, NameNS x)

instance snDecSanCheck (fs : FS) (W : PPath) : Decidable (SanCheck fs W) := by
  unfold SanCheck; infer_instance

theorem sanCheck_sound {fs : FS} {W : PPath} (h : SanCheck fs W) :
    RealDir fs W ∧ KeysPhysical fs ∧ SanNames W fs := by
  obtain ⟨h1, h2, h3⟩ := h
  refine ⟨realDir_of_check h1, keysPhysical_of_check h2, ?_⟩
  intro k n hg hu
  exact h3 (k, n) (get_mem hg) hu

/-! ## the check, read backwards -/

theorem sn_check_cont {fs : FS} {root rel : Str} (h : snCheck fs root rel = .cont) :
    ∃ absRoot real, fs.evalSymlinks root = some absRoot ∧
      fs.evalSymlinks (pathJoin (ofSegs absRoot) rel) = some real ∧ absRoot <+: real ∧
      ((∃ pm mt c, fs.lookup real = some (.file pm mt c)) ∨ (∃ pm mt, fs.lookup real = some (.dir pm mt))) := by
  unfold snCheck at h
  split at h
  · cases h
  · rename_i absRoot hroot
    split at h
    · cases h
    · rename_i real hreal
      split at h
      · cases h
      · rename_i hpre
        have hpre' : absRoot <+: real := by
          apply List.isPrefixOf_iff_prefix.mp
          cases hb : absRoot.isPrefixOf real with
          | true => rfl
          | false => rw [hb] at hpre; simp at hpre
        refine ⟨absRoot, real, hroot, hreal, hpre', ?_⟩
        split at h
        · rename_i pm mt c hl; exact Or.inl ⟨pm, mt, c, hl⟩
        · rename_i pm mt hl; exact Or.inr ⟨pm, mt, hl⟩
        · cases h

theorem sn_check_cases (fs : FS) (root rel : Str) : snCheck fs root rel = .cont ∨ snCheck fs root rel = .fail := by
  unfold snCheck
  repeat' split
  all_goals first | exact Or.inl rfl | exact Or.inr rfl

/-- the callback never answers `SkipDir` for anything but a directory -/
theorem sn_skipDir_only_dirs {rules : List Rule} {root : Str} {fs fs' : FS} {absPath : Str} {node : Node}
    (h : prepVisit rules root fs absPath node = (fs', .skipDir)) : snIsDir node = true := by
  rw [sn_prepVisit_eq] at h
  split at h
  · cases h
  · split at h
    · cases h
    · split at h
      · cases h
      · split at h
        · rename_i hc
          simp only [Bool.and_eq_true] at hc
          exact hc.1
        · rename_i rel _ _ _ _
          have h2 : (if snLinkOK rel node then snCheck fs root rel else .fail) = SRes.skipDir :=
            congrArg Prod.snd h
          split at h2
          · rcases sn_check_cases fs root rel with e | e <;> rw [e] at h2 <;> cases h2
          · cases h2

theorem sn_walk_nondir_noskip {rules : List Rule} {root : Str} {fuel : Nat} {fs fs' : FS} {path : Str}
    {node : Node} (hn : snIsDir node = false)
    (h : prepWalk rules root fuel fs path node = (fs', .skipDir)) : False := by
  cases fuel with
  | zero => rw [prepWalk] at h; cases h
  | succ fuel =>
    cases node with
    | dir pm mt => cases hn
    | file pm mt c =>
      rw [prepWalk] at h
      · have := sn_skipDir_only_dirs h; cases this
      · intro _ _ e; cases e
    | link t =>
      rw [prepWalk] at h
      · have := sn_skipDir_only_dirs h; cases this
      · intro _ _ e; cases e
    | special =>
      rw [prepWalk] at h
      · have := sn_skipDir_only_dirs h; cases this
      · intro _ _ e; cases e

/-! ## resolution in a filesystem with fewer bindings -/

/-- a resolution that succeeds and finds something after bindings were removed went the same way
before -/
theorem sn_resolve_mono {fs' fs : FS} (hs : SnSub fs' fs) :
    ∀ (fuel : Nat) (cur : PPath) (segs : List Seg) (follow : Bool) (p : PPath),
      resolve fs' fuel cur segs follow = .ok p → (fs'.lookup p).isSome = true →
      resolve fs fuel cur segs follow = .ok p := by
  intro fuel
  induction fuel with
  | zero => intro cur segs follow p h _; simp [resolve] at h
  | succ fuel ih =>
    intro cur segs follow p h hp
    cases segs with
    | nil => simpa [resolve] using h
    | cons s rest =>
      rw [resolve] at h ⊢
      by_cases hs' : s = dotdot
      · rw [if_pos hs'] at h ⊢
        exact ih _ _ _ _ h hp
      · rw [if_neg hs'] at h ⊢
        simp only at h ⊢
        cases hl : fs'.lookup (cur ++ [s]) with
        | none =>
          rw [hl] at h
          simp only at h
          split at h
          · cases h; rw [hl] at hp; cases hp
          · cases h
        | some n =>
          rw [hl] at h
          rw [hs.lookup_some hl]
          cases n with
          | dir pm mt => simp only at h ⊢; exact ih _ _ _ _ h hp
          | file pm mt c => exact h
          | special => exact h
          | link t =>
            simp only at h ⊢
            split
            · rename_i hc; rw [if_pos hc] at h; exact h
            · rename_i hc
              rw [if_neg hc] at h
              split
              · rename_i ht; rw [if_pos ht] at h; exact h
              · rename_i ht; rw [if_neg ht] at h; exact ih _ _ _ _ h hp

theorem sn_evalSymlinks_mono {fs' fs : FS} (hs : SnSub fs' fs) {path : Str} {p : PPath}
    (h : fs'.evalSymlinks path = some p) : fs.evalSymlinks path = some p := by
  obtain ⟨h1, n, h2⟩ := sn_evalSymlinks_some h
  have := sn_resolve_mono hs _ _ _ _ _ h1 (by rw [h2]; rfl)
  exact sn_evalSymlinks_of_resolve this (hs.lookup_some h2)

/-! ## what a successful walk has checked -/

/-- the standing facts during the walk of `work`: `fs0` is the fetched tree, `fs` the current state -/
structure SanCtx (work : Str) (fs0 fs : FS) : Prop where
  clean : AbsClean work
  real : RealDir fs0 (pathSegs work)
  sub : SnSub fs fs0
  names : SanNames (pathSegs work) fs
  keys : KeysPhysical fs

theorem SanCtx.step {work : Str} {fs0 fs fs' : FS} (h : SanCtx work fs0 fs)
    (hs : SnStep (pathSegs work) fs fs') : SanCtx work fs0 fs' :=
  ⟨h.clean, h.real, h.sub.trans hs.sub, h.names.sub hs.sub, hs.keys h.keys⟩

/-- the kind of a node that passed: a regular file, a directory, or a link that resolved — in some
state `fsk` between then and now — to a regular file or directory physically inside the package -/
def SanKind (work : Str) (fs' : FS) (k : PPath) : Node → Prop
  | .file _ _ _ => True
  | .dir _ _ => True
  | .special => False
  | .link _ => ∃ fsk real, SnSub fs' fsk ∧ fsk.evalSymlinks (ofSegs k) = some real ∧
      pathSegs work <+: real ∧
      ((∃ pm mt c, fsk.lookup real = some (.file pm mt c)) ∨ (∃ pm mt, fsk.lookup real = some (.dir pm mt)))

/-- the binding `k ↦ n` has passed the callback: it is the root, or it is not excluded and of an
admissible kind -/
def SanGood (rules : List Rule) (work : Str) (fs' : FS) (k : PPath) (n : Node) : Prop :=
  ∃ rel, pathRel work (ofSegs k) = some rel ∧
    (rel = dot ∨
      ((excludes rules rel).1 = false ∧ (snIsDir n && (excludes rules (rel ++ ['/'])).1) = false ∧
        SanKind work fs' k n ∧ snLinkOK rel n = true))

theorem SanKind.mono {work : Str} {fs1 fs2 : FS} {k : PPath} {n : Node} (h : SanKind work fs1 k n)
    (hs : SnSub fs2 fs1) : SanKind work fs2 k n := by
  cases n with
  | file pm mt c => trivial
  | dir pm mt => trivial
  | special => exact h
  | link t =>
    obtain ⟨fsk, real, h1, h2⟩ := h
    exact ⟨fsk, real, h1.trans hs, h2⟩

theorem SanGood.mono {rules : List Rule} {work : Str} {fs1 fs2 : FS} {k : PPath} {n : Node}
    (h : SanGood rules work fs1 k n) (hs : SnSub fs2 fs1) : SanGood rules work fs2 k n := by
  obtain ⟨rel, h1, h2⟩ := h
  refine ⟨rel, h1, ?_⟩
  rcases h2 with e | ⟨a, b, c, d⟩
  · exact Or.inl e
  · exact Or.inr ⟨a, b, c.mono hs, d⟩

theorem sn_pathRel_self (a : Str) : pathRel a a = some dot := by
  unfold pathRel; simp

/-- the callback on a visited path: either the path is removed with everything below it, or nothing
changes and the binding has passed -/
theorem sn_visit_post {rules : List Rule} {work : Str} {fs0 fs : FS} {path : Str} {node : Node} {fs1 : FS}
    {r : SRes} (hctx : SanCtx work fs0 fs) (hA : SanAt (pathSegs work) fs path)
    (hl : fs.lstat path = .ok node) (hv : prepVisit rules work fs path node = (fs1, r))
    (hr : r = .cont ∨ r = .skipDir) :
    (fs1 = fs.removeAll path ∧ ∀ q, pathSegs path <+: q → fs1.get q = none) ∨
    (fs1 = fs ∧ r = .cont ∧ SanGood rules work fs (pathSegs path) node) := by
  have hofs : ofSegs (pathSegs path) = path := (absClean_eq_ofSegs path hA.clean).symm
  obtain ⟨rel, hrel, _, hjoin, _⟩ := pathRel_under work path hctx.clean hA.clean hA.under
  rw [sn_prepVisit_eq] at hv
  simp only [hrel] at hv
  have hgone : rel ≠ dot → ∀ q, pathSegs path <+: q → (fs.removeAll path).get q = none := by
    intro hdot
    apply sn_removeAll_gone hA _ hl
    intro e
    have hW : pathSegs work = [] := by
      have := hA.under; rw [e] at this; exact List.prefix_nil.mp this
    have : path = work := absClean_ext _ _ hA.clean hctx.clean (by rw [e, hW])
    rw [this, sn_pathRel_self] at hrel
    cases hrel; exact hdot rfl
  by_cases hdot : rel = dot
  · rw [if_pos hdot] at hv
    cases hv
    exact Or.inr ⟨rfl, rfl, rel, by rw [hofs]; exact hrel, Or.inl hdot⟩
  · rw [if_neg hdot] at hv
    cases hex : (excludes rules rel).1 with
    | true =>
      rw [hex, if_pos rfl] at hv
      cases hv
      exact Or.inl ⟨rfl, hgone hdot⟩
    | false =>
      rw [hex] at hv
      simp only [Bool.false_eq_true, if_false] at hv
      cases hexd : (snIsDir node && (excludes rules (rel ++ ['/'])).1) with
      | true =>
        rw [hexd, if_pos rfl] at hv
        cases hv
        exact Or.inl ⟨rfl, hgone hdot⟩
      | false =>
        rw [hexd] at hv
        simp only [Bool.false_eq_true, if_false] at hv
        have h1 : fs = fs1 := congrArg Prod.fst hv
        have h2 : (if snLinkOK rel node then snCheck fs work rel else .fail) = r := congrArg Prod.snd hv
        subst h1
        have hlok : snLinkOK rel node = true := by
          cases hb : snLinkOK rel node with
          | true => rfl
          | false =>
            rw [hb] at h2
            simp only [Bool.false_eq_true, if_false] at h2
            rcases hr with rfl | rfl <;> cases h2
        rw [hlok, if_pos rfl] at h2
        have hcont : snCheck fs work rel = .cont := by
          rcases sn_check_cases fs work rel with e | e
          · exact e
          · rw [e] at h2; rcases hr with rfl | rfl <;> cases h2
        have hrc : r = .cont := by rw [← h2, hcont]
        obtain ⟨absRoot, real, hroot, hreal, hpre, hkind⟩ := sn_check_cont hcont
        obtain ⟨hrr, _⟩ := sn_evalSymlinks_some hroot
        obtain ⟨rfl, _⟩ := sn_work_resolves hctx.clean hctx.real hctx.sub hrr
        rw [← absClean_eq_ofSegs work hctx.clean, hjoin] at hreal
        refine Or.inr ⟨rfl, hrc, rel, by rw [hofs]; exact hrel, Or.inr ⟨hex, hexd, ?_, hlok⟩⟩
        cases node with
        | file pm mt c => trivial
        | dir pm mt => trivial
        | link t => exact ⟨fs, real, SnSub.refl _, by rw [hofs]; exact hreal, hpre, hkind⟩
        | special =>
          exfalso
          obtain ⟨hres, hlk⟩ := hA.lstat hl
          have hnl : ∀ t, fs.lookup (pathSegs path) ≠ some (.link t) := by
            intro t ht; rw [hlk] at ht; cases ht
          have htrue : fs.resolvePath path true = .ok (pathSegs path) := by
            rw [hA.resolve_eq hnl]; exact hres
          have := sn_evalSymlinks_of_resolve htrue hlk
          rw [this] at hreal
          cases hreal
          rcases hkind with ⟨pm, mt, c, e⟩ | ⟨pm, mt, e⟩ <;> rw [hlk] at e <;> cases e

/-- a binding strictly below `P` lies at or below a bound child of `P` -/
theorem sn_child_of_key {fs : FS} (hk : KeysPhysical fs) {k P : PPath} {n : Node} (hg : fs.get k = some n)
    (hpre : P <+: k) (hne : k ≠ P) : ∃ c, P ++ [c] <+: k ∧ (fs.get (P ++ [c])).isSome = true := by
  obtain ⟨x, rfl⟩ := hpre
  cases x with
  | nil => exact absurd (by simp) hne
  | cons c x' =>
    have hassoc : P ++ c :: x' = (P ++ [c]) ++ x' := by simp
    refine ⟨c, by rw [hassoc]; exact List.prefix_append _ _, ?_⟩
    by_cases hx : x' = []
    · subst hx; rw [hg]; rfl
    · obtain ⟨pm, mt, hd⟩ := keys_ancestors hk _ n hg (P ++ [c]) (by rw [hassoc]; exact List.prefix_append _ _)
        (by
          intro e
          rw [hassoc] at e
          have := congrArg List.length e
          simp only [List.length_append, List.length_cons, List.length_nil] at this
          exact hx (List.eq_nil_of_length_eq_zero (by omega)))
      rw [lookup_ne_nil fs _ (by simp)] at hd
      rw [hd]; rfl

/-- nothing is bound below a non-directory -/
theorem sn_nondir_leaf {fs : FS} (hk : KeysPhysical fs) {P k : PPath} {node n : Node}
    (hP : fs.lookup P = some node) (hnd : snIsDir node = false) (hg : fs.get k = some n) (hpre : P <+: k) :
    k = P := by
  by_cases he : k = P
  · exact he
  · obtain ⟨pm, mt, hd⟩ := keys_ancestors hk k n hg P hpre (fun e => he e.symm)
    rw [hP] at hd; cases hd; cases hnd

/-- everything still bound at or below `P` has passed the callback -/
def SanPost (rules : List Rule) (work : Str) (fs' : FS) (P : PPath) : Prop :=
  ∀ k n, fs'.get k = some n → P <+: k → SanGood rules work fs' k n

theorem sn_walk_post (rules : List Rule) (work : Str) (fs0 : FS) :
    ∀ fuel : Nat,
      (∀ fs path node fs' r, SanCtx work fs0 fs → SanAt (pathSegs work) fs path → fs.lstat path = .ok node →
        prepWalk rules work fuel fs path node = (fs', r) → (r = .cont ∨ r = .skipDir) →
        SanPost rules work fs' (pathSegs path)) ∧
      (∀ fs path names fs' r, SanCtx work fs0 fs → SanAt (pathSegs work) fs path →
        (∀ t, fs.lookup (pathSegs path) ≠ some (.link t)) → (∀ n ∈ names, NameNS n) →
        prepChildren rules work fuel fs path names = (fs', r) → (r = .cont ∨ r = .skipDir) →
        ∀ name ∈ names, SanPost rules work fs' (pathSegs path ++ [name])) := by
  intro fuel
  induction fuel with
  | zero =>
    refine ⟨?_, ?_⟩
    · intro fs path node fs' r _ _ _ hw hr
      rw [prepWalk] at hw; cases hw; rcases hr with h | h <;> cases h
    · intro fs path names fs' r _ _ _ _ hw hr
      rw [prepChildren] at hw; cases hw; rcases hr with h | h <;> cases h
  | succ fuel ih =>
    obtain ⟨ihW, ihC⟩ := ih
    refine ⟨?_, ?_⟩
    · intro fs path node fs' r hctx hA hl hw hr
      -- a node that is not a directory: the callback alone
      have hleaf : snIsDir node = false → prepVisit rules work fs path node = (fs', r) →
          SanPost rules work fs' (pathSegs path) := by
        intro hnd hv k n hg hpre
        rcases sn_visit_post hctx hA hl hv hr with ⟨_, hgone⟩ | ⟨rfl, _, hgood⟩
        · rw [hgone k hpre] at hg; cases hg
        · have hk := sn_nondir_leaf hctx.keys (hA.lstat hl).2 hnd hg hpre
          subst hk
          have : fs'.lookup (pathSegs path) = some n := by
            rw [lookup_ne_nil _ _ (hctx.keys _ _ hg).1]; exact hg
          rw [(hA.lstat hl).2] at this
          cases this
          exact hgood
      cases node with
      | file pm mt c => rw [prepWalk] at hw; exact hleaf rfl hw; intro _ _ h; cases h
      | link t => rw [prepWalk] at hw; exact hleaf rfl hw; intro _ _ h; cases h
      | special => rw [prepWalk] at hw; exact hleaf rfl hw; intro _ _ h; cases h
      | dir pm mt =>
        obtain ⟨hnames, hns, hnl⟩ := sn_walk_names hctx.names hA hl
        rw [prepWalk] at hw
        simp only [hnames] at hw
        generalize hv : prepVisit rules work fs path (.dir pm mt) = v at hw
        obtain ⟨fs1, rv⟩ := v
        have hstep1 : SnStep (pathSegs work) fs fs1 := by
          have := snStep_prepVisit rules work (.dir pm mt) hA
          rw [hv] at this; exact this
        have hvanish : (∀ q, pathSegs path <+: q → fs1.get q = none) → SnSub fs' fs1 →
            SanPost rules work fs' (pathSegs path) := by
          intro hgone hs k n hg hpre
          have := hs.get_some hg
          rw [hgone k hpre] at this; cases this
        cases rv with
        | fail => simp only at hw; cases hw; rcases hr with h | h <;> cases h
        | diverged => simp only at hw; cases hw; rcases hr with h | h <;> cases h
        | skipDir =>
          simp only at hw
          cases hw
          rcases sn_visit_post hctx hA hl hv (Or.inr rfl) with ⟨_, hgone⟩ | ⟨_, h, _⟩
          · exact hvanish hgone (SnSub.refl _)
          · cases h
        | cont =>
          simp only at hw
          have hsub : SnSub fs' fs1 := by
            have := (snSub_walk rules work fuel).2 fs1 path (fs.readdir (pathSegs path))
            rw [hw] at this; exact this
          rcases sn_visit_post hctx hA hl hv (Or.inl rfl) with ⟨_, hgone⟩ | ⟨rfl, _, hgood⟩
          · exact hvanish hgone hsub
          · have hkeys' : KeysPhysical fs' := by
              have := (snStep_walk rules work (pathSegs work) fuel).2 fs1 path _ hctx.names hA hnl hns
              rw [hw] at this
              exact this.keys hctx.keys
            have hC := ihC fs1 path _ fs' r hctx hA hnl hns hw hr
            intro k n hg hpre
            by_cases hk : k = pathSegs path
            · subst hk
              have h0 := hsub.get_some hg
              have : fs1.lookup (pathSegs path) = some n := by
                rw [lookup_ne_nil _ _ (hctx.keys _ _ h0).1]; exact h0
              rw [(hA.lstat hl).2] at this
              cases this
              exact hgood.mono hsub
            · obtain ⟨c, hc1, hc2⟩ := sn_child_of_key hkeys' hg hpre hk
              have hc3 : (fs1.get (pathSegs path ++ [c])).isSome = true := by
                cases hgc : fs'.get (pathSegs path ++ [c]) with
                | none => rw [hgc] at hc2; cases hc2
                | some m => rw [hsub.get_some hgc]; rfl
              exact hC c ((sn_mem_readdir fs1 _ c).mpr hc3) k n hg hc1
    · intro fs path names fs' r hctx hA hnl hns hw hr name hmem
      cases names with
      | nil => cases hmem
      | cons nm rest =>
        rw [prepChildren] at hw
        simp only at hw
        cases hc : fs.lstat (pathJoin path nm) with
        | error e =>
          rw [hc] at hw; simp only at hw; cases hw; rcases hr with h | h <;> cases h
        | ok child =>
          rw [hc] at hw
          simp only at hw
          obtain ⟨hA', hsegs⟩ := sanAt_child hA hnl (hns nm (by simp))
          generalize hwk : prepWalk rules work fuel fs (pathJoin path nm) child = v at hw
          obtain ⟨fs1, rc⟩ := v
          have hstep1 : SnStep (pathSegs work) fs fs1 := by
            have := (snStep_walk rules work (pathSegs work) fuel).1 fs _ child hctx.names hA' hc
            rw [hwk] at this; exact this
          have hrest : ∀ n ∈ rest, NameNS n := fun n hn => hns n (List.mem_cons_of_mem _ hn)
          -- the loop goes on with the remaining names
          have hgo : prepChildren rules work fuel fs1 path rest = (fs', r) →
              (rc = .cont ∨ rc = .skipDir) → SanPost rules work fs' (pathSegs path ++ [name]) := by
            intro hw' hrc
            have hsub : SnSub fs' fs1 := by
              have := (snSub_walk rules work fuel).2 fs1 path rest
              rw [hw'] at this; exact this
            rcases List.mem_cons.mp hmem with rfl | hmem'
            · have hP := ihW fs _ child fs1 rc hctx hA' hc hwk hrc
              rw [hsegs] at hP
              intro k n hg hpre
              exact (hP k n (hsub.get_some hg) hpre).mono hsub
            · exact ihC fs1 path rest fs' r (hctx.step hstep1) (hA.sub hstep1.sub)
                (sn_notLink_sub hstep1.sub hnl) hrest hw' hr name hmem'
          cases rc with
          | cont => simp only at hw; exact hgo hw (Or.inl rfl)
          | fail => simp only at hw; cases hw; rcases hr with h | h <;> cases h
          | diverged => simp only at hw; cases hw; rcases hr with h | h <;> cases h
          | skipDir =>
            simp only at hw
            cases child with
            | dir pm mt => simp only at hw; exact hgo hw (Or.inr rfl)
            | file pm mt c => exact (sn_walk_nondir_noskip rfl hwk).elim
            | link t => exact (sn_walk_nondir_noskip rfl hwk).elim
            | special => exact (sn_walk_nondir_noskip rfl hwk).elim

/-- the relative path `filepath.Rel` computes for a name strictly below the work directory -/
theorem sn_pathRel_below {work : Str} (hc : AbsClean work) {x : List Seg} (hx : ∀ c ∈ x, NameNS c)
    (hne : x ≠ []) :
    pathRel work (ofSegs (pathSegs work ++ x)) = some (joinWith '/' x) ∧ joinWith '/' x ≠ dot := by
  have hall : ∀ c ∈ pathSegs work ++ x, NameNS c := by
    intro c hcm
    rcases List.mem_append.mp hcm with h | h
    · exact absClean_segs work hc c h
    · exact hx c h
  have hT : AbsClean (ofSegs (pathSegs work ++ x)) := absClean_ofSegs _ hall
  have hsegs : pathSegs (ofSegs (pathSegs work ++ x)) = pathSegs work ++ x := pathSegs_ofSegs _ hall
  obtain ⟨rel, hrel, _, _, hcase⟩ := pathRel_under work _ hc hT (by rw [hsegs]; exact List.prefix_append _ _)
  rw [hsegs] at hcase
  rcases hcase with ⟨e, _⟩ | ⟨e, hn⟩
  · exfalso
    have := congrArg List.length e
    simp only [List.length_append] at this
    exact hne (List.eq_nil_of_length_eq_zero (by omega))
  · have hx' : x = splitOn '/' rel := List.append_cancel_left e
    have hj : joinWith '/' x = rel := by rw [hx']; exact joinWith_splitOn '/' rel
    rw [hj]
    refine ⟨hrel, ?_⟩
    intro hd
    rw [hd] at hn
    have : NameNS dot := hn dot (by decide)
    exact this.1.2.1 rfl

/-! ## resolution commutes with re-keying a closed subtree -/

/-- number of leading `..` segments -/
def snUps : List Seg → Nat
  | [] => 0
  | s :: r => if s = dotdot then snUps r + 1 else 0

theorem snUps_append_names (a b : List Seg) (hb : ∀ x ∈ b, x ≠ dotdot) : snUps (a ++ b) = snUps a := by
  induction a with
  | nil =>
    cases b with
    | nil => rfl
    | cons x r => simp [snUps, hb x (by simp)]
  | cons s a ih =>
    simp only [List.cons_append, snUps]
    split
    · rw [ih]
    · rfl

/-- a link at physical path `p` below `W` whose target is relative, tidy, and climbs no higher than
`W`: following it never leaves the subtree -/
def SnLocalLink (W p : PPath) (t : Str) : Prop :=
  isAbs t = false ∧ Tidy t ∧ W.length + snUps (pathSegs t) + 1 ≤ p.length

theorem sn_renameDir_lookup_moved (fs : FS) (src dst x : PPath) (hx : x ≠ [])
    (hfree : ∀ e ∈ fs, ¬ dst <+: e.1) :
    (fs.renameDir src dst).lookup (dst ++ x) = fs.lookup (src ++ x) := by
  rw [lookup_ne_nil _ _ (by simp [hx]), lookup_ne_nil _ _ (by simp [hx])]
  exact sn_renameDir_moved fs src dst x hfree

/-- a walk inside the subtree at `W`, all of whose links are local, goes the same way in the
subtree re-keyed to `F` -/
theorem sn_resolve_rekey {fs : FS} {W F : PPath} (hfree : ∀ e ∈ fs, ¬ F <+: e.1)
    (hloc : ∀ p t, fs.get p = some (.link t) → W <+: p → SnLocalLink W p t) :
    ∀ (fuel : Nat) (c : PPath) (segs : List Seg) (follow : Bool) (r : PPath),
      tidySegs segs = true → snUps segs ≤ c.length →
      resolve fs fuel (W ++ c) segs follow = .ok r →
      ∃ r', r = W ++ r' ∧ resolve (fs.renameDir W F) fuel (F ++ c) segs follow = .ok (F ++ r') := by
  intro fuel
  induction fuel with
  | zero => intro c segs follow r _ _ h; simp [resolve] at h
  | succ fuel ih =>
    intro c segs follow r htidy hups h
    cases segs with
    | nil =>
      simp only [resolve] at h ⊢
      cases h
      exact ⟨c, rfl, rfl⟩
    | cons s rest =>
      rw [resolve] at h ⊢
      by_cases hs : s = dotdot
      · subst hs
        rw [if_pos rfl] at h ⊢
        have hc : c ≠ [] := by
          intro e; rw [e] at hups; simp [snUps] at hups
        rw [List.dropLast_append_of_ne_nil hc] at h ⊢
        apply ih _ _ _ _ (by rwa [tidySegs_dotdot] at htidy) _ h
        simp only [snUps, if_true] at hups
        rw [List.length_dropLast]; omega
      · rw [if_neg hs] at h ⊢
        simp only at h ⊢
        have hnames := tidySegs_name_cons s rest hs htidy
        have hrest : ∀ x ∈ rest, Plain x := fun x hx => hnames x (List.mem_cons_of_mem _ hx)
        have hrestdd : ∀ x ∈ rest, x ≠ dotdot := fun x hx => (hrest x hx).2.2
        have hups0 : snUps rest = 0 := by
          have := snUps_append_names [] rest hrestdd
          simpa [snUps] using this
        have hlk : (fs.renameDir W F).lookup (F ++ c ++ [s]) = fs.lookup (W ++ c ++ [s]) := by
          rw [List.append_assoc, List.append_assoc]
          exact sn_renameDir_lookup_moved fs W F (c ++ [s]) (by simp) hfree
        rw [hlk]
        have hend : ∃ r', W ++ c ++ [s] = W ++ r' ∧ F ++ c ++ [s] = F ++ r' :=
          ⟨c ++ [s], by simp, by simp⟩
        cases hl : fs.lookup (W ++ c ++ [s]) with
        | none =>
          rw [hl] at h
          simp only at h ⊢
          split
          · rename_i hr
            rw [if_pos hr] at h; cases h
            obtain ⟨r', e1, e2⟩ := hend
            exact ⟨r', e1, by rw [e2]⟩
          · rename_i hr; rw [if_neg hr] at h; cases h
        | some n =>
          rw [hl] at h
          cases n with
          | dir pm mt =>
            simp only at h ⊢
            rw [List.append_assoc] at h ⊢
            exact ih _ _ _ _ (tidySegs_names rest hrest) (by rw [hups0]; exact Nat.zero_le _) h
          | file pm mt c' =>
            simp only at h ⊢
            split
            · rename_i hr
              rw [if_pos hr] at h; cases h
              obtain ⟨r', e1, e2⟩ := hend
              exact ⟨r', e1, by rw [e2]⟩
            · rename_i hr; rw [if_neg hr] at h; cases h
          | special =>
            simp only at h ⊢
            split
            · rename_i hr
              rw [if_pos hr] at h; cases h
              obtain ⟨r', e1, e2⟩ := hend
              exact ⟨r', e1, by rw [e2]⟩
            · rename_i hr; rw [if_neg hr] at h; cases h
          | link t =>
            simp only at h ⊢
            have hget : fs.get (W ++ c ++ [s]) = some (.link t) := by
              rw [← lookup_ne_nil fs _ (by simp)]; exact hl
            obtain ⟨habs, httidy, hlen⟩ := hloc _ t hget (by rw [List.append_assoc]; exact List.prefix_append _ _)
            split
            · rename_i hr
              rw [if_pos hr] at h; cases h
              obtain ⟨r', e1, e2⟩ := hend
              exact ⟨r', e1, by rw [e2]⟩
            · rename_i hr
              rw [if_neg hr] at h
              simp only [habs, Bool.false_eq_true, if_false] at h ⊢
              split
              · rename_i ht; rw [if_pos ht] at h; cases h
              · rename_i ht
                rw [if_neg ht] at h
                apply ih _ _ _ _ (tidySegs_append_names _ _ httidy hrest) _ h
                rw [snUps_append_names _ _ hrestdd]
                simp only [List.length_append, List.length_cons, List.length_nil] at hlen
                omega

/-- through a chain of real directories the walk just descends, one unit of fuel per component -/
theorem sn_resolve_spine_eq (fs : FS) : ∀ (P : List Seg) (n : Nat) (cur : PPath) (x : List Seg) (f : Bool),
    (∀ s ∈ P, s ≠ dotdot) →
    (∀ q, cur <+: q → q ≠ cur → q <+: cur ++ P → ∃ pm mt, fs.lookup q = some (.dir pm mt)) →
    resolve fs (n + P.length) cur (P ++ x) f = resolve fs n (cur ++ P) x f := by
  intro P
  induction P with
  | nil => intro n cur x f _ _; simp
  | cons s P ih =>
    intro n cur x f hdd hsp
    have hs : s ≠ dotdot := hdd s (by simp)
    have hassoc : cur ++ s :: P = (cur ++ [s]) ++ P := by simp
    obtain ⟨pm, mt, hl⟩ := hsp (cur ++ [s]) (List.prefix_append _ _)
      (by
        intro e
        have := congrArg List.length e
        simp only [List.length_append, List.length_cons, List.length_nil] at this
        omega)
      (by rw [hassoc]; exact List.prefix_append _ _)
    have hlen : n + (s :: P).length = (n + P.length) + 1 := by simp; omega
    rw [hlen, List.cons_append, resolve, if_neg hs]
    simp only [hl]
    rw [hassoc]
    apply ih _ _ _ _ (fun y hy => hdd y (List.mem_cons_of_mem _ hy))
    intro q h1 h2 h3
    apply hsp q (List.IsPrefix.trans (List.prefix_append _ _) h1)
    · intro e
      rw [e] at h1
      have := List.IsPrefix.length_le h1
      simp only [List.length_append, List.length_cons, List.length_nil] at this
      omega
    · rw [hassoc]; exact h3

/-- … and a successful walk through such a chain had the fuel for it -/
theorem sn_resolve_spine_split (fs : FS) : ∀ (P : List Seg) (fuel : Nat) (cur : PPath) (x : List Seg) (f : Bool)
    (r : PPath), (∀ s ∈ P, s ≠ dotdot) →
    (∀ q, cur <+: q → q ≠ cur → q <+: cur ++ P → ∃ pm mt, fs.lookup q = some (.dir pm mt)) →
    resolve fs fuel cur (P ++ x) f = .ok r →
    ∃ n, fuel = n + P.length ∧ resolve fs n (cur ++ P) x f = .ok r := by
  intro P
  induction P with
  | nil => intro fuel cur x f r _ _ h; exact ⟨fuel, rfl, by simpa using h⟩
  | cons s P ih =>
    intro fuel cur x f r hdd hsp h
    have hs : s ≠ dotdot := hdd s (by simp)
    have hassoc : cur ++ s :: P = (cur ++ [s]) ++ P := by simp
    obtain ⟨pm, mt, hl⟩ := hsp (cur ++ [s]) (List.prefix_append _ _)
      (by
        intro e
        have := congrArg List.length e
        simp only [List.length_append, List.length_cons, List.length_nil] at this
        omega)
      (by rw [hassoc]; exact List.prefix_append _ _)
    cases fuel with
    | zero => simp [resolve] at h
    | succ k =>
      rw [List.cons_append, resolve, if_neg hs] at h
      simp only [hl] at h
      obtain ⟨n, hn, hr⟩ := ih k (cur ++ [s]) x f r (fun y hy => hdd y (List.mem_cons_of_mem _ hy))
        (by
          intro q h1 h2 h3
          apply hsp q (List.IsPrefix.trans (List.prefix_append _ _) h1)
          · intro e
            rw [e] at h1
            have := List.IsPrefix.length_le h1
            simp only [List.length_append, List.length_cons, List.length_nil] at this
            omega
          · rw [hassoc]; exact h3) h
      refine ⟨n, by simp only [List.length_cons]; omega, ?_⟩
      rw [hassoc]; exact hr

/-! ## the lexical check on segments -/

theorem sn_go_nil (d : Nat) : isLocal.go d [] = true := by rw [isLocal.go]

theorem sn_go_skip (d : Nat) (e : Seg) (r : List Seg) (h : e = [] ∨ e = dot) :
    isLocal.go d (e :: r) = isLocal.go d r := by
  rw [isLocal.go, if_pos h]

theorem sn_go_dotdot (d : Nat) (r : List Seg) :
    isLocal.go d (dotdot :: r) = (if d = 0 then false else isLocal.go (d - 1) r) := by
  rw [isLocal.go, if_neg (by simp), if_pos rfl]

theorem sn_go_plain (d : Nat) (e : Seg) (r : List Seg) (h : Plain e) :
    isLocal.go d (e :: r) = isLocal.go (d + 1) r := by
  rw [isLocal.go, if_neg (by intro h'; rcases h' with h' | h'; exact h.1 h'; exact h.2.1 h'), if_neg h.2.2]

theorem sn_go_names (xs : List Seg) (h : ∀ x ∈ xs, Plain x) : ∀ d : Nat, isLocal.go d xs = true := by
  induction xs with
  | nil => intro d; exact sn_go_nil d
  | cons x xs ih =>
    intro d
    rw [sn_go_plain d x xs (h x (by simp))]
    exact ih (fun y hy => h y (List.mem_cons_of_mem _ hy)) _

theorem sn_go_filter (xs : List Seg) : ∀ d : Nat,
    isLocal.go d (xs.filter (fun e => e ≠ [] ∧ e ≠ dot)) = isLocal.go d xs := by
  induction xs with
  | nil => intro d; rfl
  | cons x xs ih =>
    intro d
    by_cases hx : x = [] ∨ x = dot
    · have hf : decide (x ≠ [] ∧ x ≠ dot) = false := by
        rcases hx with h | h <;> simp [h]
      rw [List.filter_cons_of_neg (by simp [hf]), sn_go_skip d x xs hx, ih]
    · have hf : decide (x ≠ [] ∧ x ≠ dot) = true := by
        simp only [not_or] at hx
        simp [hx.1, hx.2]
      rw [List.filter_cons_of_pos (by simp [hf])]
      simp only [not_or] at hx
      by_cases hdd : x = dotdot
      · subst hdd
        rw [sn_go_dotdot, sn_go_dotdot, ih]
      · rw [sn_go_plain d x _ ⟨hx.1, hx.2, hdd⟩, sn_go_plain d x _ ⟨hx.1, hx.2, hdd⟩, ih]

theorem sn_go_pathSegs (d : Nat) (t : Str) : isLocal.go d (pathSegs t) = isLocal.go d (splitOn '/' t) := by
  unfold pathSegs; exact sn_go_filter _ d

/-- a `..` at the bottom of the (relative) cleaning stack stays there -/
theorem sn_step_bottom (st : List Seg) (s : Seg) (h : st.getLast? = some dotdot) :
    (step false st s).getLast? = some dotdot := by
  unfold step
  split
  · exact h
  · split
    · cases st with
      | nil => simp at h
      | cons t r =>
        simp only
        split
        · rw [List.getLast?_cons_cons]; exact h
        · rename_i ht
          cases r with
          | nil => simp at h; exact absurd h ht
          | cons u r' => rw [List.getLast?_cons_cons] at h; exact h
    · cases st with
      | nil => simp at h
      | cons t r => rw [List.getLast?_cons_cons]; exact h

theorem sn_run_bottom (xs : List Seg) : ∀ st : List Seg, st.getLast? = some dotdot →
    (run false st xs).getLast? = some dotdot := by
  induction xs with
  | nil => intro st h; exact h
  | cons x xs ih => intro st h; rw [ps_run_cons]; exact ih _ (sn_step_bottom st x h)

/-- if cleaning `xs` on top of the names `st` leaves no `..` at the bottom, `xs` never climbs above
the bottom of `st` -/
theorem sn_go_of_run (xs : List Seg) : ∀ st : List Seg, (∀ s ∈ st, Plain s) →
    (run false st xs).getLast? ≠ some dotdot → isLocal.go st.length xs = true := by
  induction xs with
  | nil => intro st _ _; exact sn_go_nil _
  | cons x xs ih =>
    intro st hst h
    rw [ps_run_cons] at h
    by_cases hx : x = [] ∨ x = dot
    · rw [ps_step_skip false st x hx] at h
      rw [sn_go_skip _ x xs hx]; exact ih st hst h
    · simp only [not_or] at hx
      by_cases hdd : x = dotdot
      · subst hdd
        cases st with
        | nil =>
          exfalso; apply h
          apply sn_run_bottom
          simp [step]
        | cons t r =>
          have ht : t ≠ dotdot := (hst t (by simp)).2.2
          have : step false (t :: r) dotdot = r := by simp [step, ht]
          rw [this] at h
          rw [sn_go_dotdot]
          simp only [List.length_cons, Nat.add_one_ne_zero, if_false, Nat.add_sub_cancel]
          exact ih r (fun s hs => hst s (List.mem_cons_of_mem _ hs)) h
      · have hp : Plain x := ⟨hx.1, hx.2, hdd⟩
        rw [ps_step_plain false st x hp] at h
        rw [sn_go_plain _ x xs hp]
        have := ih (x :: st) (by
          intro s hs
          rcases List.mem_cons.mp hs with rfl | hs
          · exact hp
          · exact hst s hs) h
        simpa using this

theorem sn_isLocal_bottom (segs : List Seg) (h : segs.head? = some dotdot) :
    isLocal (joinWith '/' segs) = false := by
  cases segs with
  | nil => simp at h
  | cons s rest =>
    simp only [List.head?_cons, Option.some.injEq] at h
    subst h
    cases rest with
    | nil => decide
    | cons t r =>
      rw [joinWith_cons_cons]
      unfold isLocal
      rw [splitOn_append]
      have : splitOn '/' dotdot = [dotdot] := by decide
      rw [this]
      simp only [List.singleton_append]
      rw [sn_go_dotdot]
      simp

theorem sn_joinWith_ne_nil (c : List Seg) (hcn : c ≠ []) (hc : ∀ x ∈ c, NameNS x) : joinWith '/' c ≠ [] := by
  intro e
  have := splitOn_joinWith '/' c hcn (fun x hx => (hc x hx).2)
  rw [e] at this
  have hc1 : c = [[]] := this.symm
  exact (hc [] (by rw [hc1]; simp)).1.1 rfl

/-- `filepath.Dir` of the relative path of a name below the package root -/
theorem sn_pathDir_rel (c : List Seg) (s : Seg) (hc : ∀ x ∈ c, NameNS x) (hs : NameNS s) :
    pathDir (joinWith '/' (c ++ [s])) = if c = [] then dot else joinWith '/' c := by
  by_cases hcn : c = []
  · subst hcn
    simp only [List.nil_append, if_true]
    have : joinWith '/' [s] = s := rfl
    rw [this]
    unfold pathDir
    have e : s.reverse = s.reverse ++ [] := by simp
    rw [e, ps_dropWhile_append_all _ s.reverse [] (by
      intro ch hch
      have : ch ≠ '/' := by intro e'; apply hs.2; rw [← e']; exact List.mem_reverse.mp hch
      simp [this])]
    decide
  · rw [if_neg hcn, ps_joinWith_append '/' c [s] hcn (by simp)]
    have : joinWith '/' [s] = s := rfl
    rw [this, ps_pathDir_core _ s hs.2]
    have habs : isAbs (joinWith '/' c ++ ['/']) = false := by
      have h0 := ps_isAbs_joinWith c hcn hc
      cases hj : joinWith '/' c with
      | nil => exact absurd hj (sn_joinWith_ne_nil c hcn hc)
      | cons a r => rw [hj] at h0; simpa [isAbs] using h0
    unfold pathClean
    rw [habs]
    simp only [Bool.false_eq_true, if_false]
    have hsp : splitOn '/' (joinWith '/' c ++ ['/']) = c ++ [[]] := by
      rw [splitOn_append, splitOn_joinWith '/' c hcn (fun x hx => (hc x hx).2)]; rfl
    have hcl : cleanSegs false (c ++ [[]]) = c := by
      unfold cleanSegs
      rw [run_append, ps_run_plain false c [] (fun x hx => (hc x hx).1)]
      simp [run, step]
    rw [hsp, hcl, if_neg hcn]

/-- the lexical check of the callback, on segments: from a link `depth` names below the package
root, the target never climbs above the root -/
theorem sn_linkOK_go (c : List Seg) (s : Seg) (t : Str) (hc : ∀ x ∈ c, NameNS x) (hs : NameNS s)
    (hloc : isLocal (pathJoin (pathDir (joinWith '/' (c ++ [s]))) t) = true) :
    isLocal.go c.length (pathSegs t) = true := by
  rw [sn_pathDir_rel c s hc hs] at hloc
  by_cases ht : t = []
  · subst ht; exact sn_go_nil _
  · -- the directory of the link, as a string and as segments
    have hd : ∃ d : Str, (if c = [] then dot else joinWith '/' c) = d ∧ d ≠ [] ∧ isAbs d = false ∧
        run false [] (splitOn '/' d) = c.reverse := by
      by_cases hcn : c = []
      · subst hcn; exact ⟨dot, by simp, by decide, by decide, by decide⟩
      · refine ⟨joinWith '/' c, by simp [hcn], ?_, ps_isAbs_joinWith c hcn hc, ?_⟩
        · exact sn_joinWith_ne_nil c hcn hc
        · rw [splitOn_joinWith '/' c hcn (fun x hx => (hc x hx).2),
            ps_run_plain false c [] (fun x hx => (hc x hx).1)]
          simp
    obtain ⟨d, hde, hdne, hdabs, hdrun⟩ := hd
    rw [hde] at hloc
    rw [sn_go_pathSegs]
    cases hgo : isLocal.go c.length (splitOn '/' t) with
    | true => rfl
    | false =>
      exfalso
      have hbot : (run false c.reverse (splitOn '/' t)).getLast? = some dotdot := by
        cases hb : decide ((run false c.reverse (splitOn '/' t)).getLast? = some dotdot) with
        | true => exact of_decide_eq_true hb
        | false =>
          have := sn_go_of_run (splitOn '/' t) c.reverse
            (fun x hx => (hc x (List.mem_reverse.mp hx)).1) (of_decide_eq_false hb)
          rw [List.length_reverse, hgo] at this
          cases this
      have habs' : isAbs (d ++ '/' :: t) = false := by
        cases d with
        | nil => exact absurd rfl hdne
        | cons a r => simpa [isAbs] using hdabs
      have hj : pathJoin d t = pathClean (d ++ '/' :: t) := by
        unfold pathJoin; simp [hdne, ht]
      have hsegs : cleanSegs false (splitOn '/' (d ++ '/' :: t)) =
          (run false c.reverse (splitOn '/' t)).reverse := by
        unfold cleanSegs
        rw [splitOn_append, run_append, hdrun]
      have hhead : (cleanSegs false (splitOn '/' (d ++ '/' :: t))).head? = some dotdot := by
        rw [hsegs, List.head?_reverse]; exact hbot
      have hne : cleanSegs false (splitOn '/' (d ++ '/' :: t)) ≠ [] := by
        intro e; rw [e] at hhead; simp at hhead
      have hcl : pathClean (d ++ '/' :: t) = joinWith '/' (cleanSegs false (splitOn '/' (d ++ '/' :: t))) := by
        unfold pathClean
        rw [habs']
        simp only [Bool.false_eq_true, if_false, hne]
      rw [hj, hcl, sn_isLocal_bottom _ hhead] at hloc
      cases hloc

/-! ## resolution inside a subtree whose links are relative, lexically local, and lead to files -/

theorem sn_dir_parent {fs : FS} (hk : KeysPhysical fs) {cur : PPath}
    (h : ∃ pm mt, fs.lookup cur = some (.dir pm mt)) : ∃ pm mt, fs.lookup cur.dropLast = some (.dir pm mt) := by
  by_cases hc : cur = []
  · subst hc; exact h
  · obtain ⟨pm, mt, hl⟩ := h
    rw [lookup_ne_nil _ _ hc] at hl
    exact (hk cur _ hl).2

/-- a path that resolves to a regular file cannot serve as a directory: with anything appended, the
resolution fails (whatever the fuel) -/
theorem sn_resolve_file_blocks {fs : FS} (hk : KeysPhysical fs) :
    ∀ (n : Nat) (cur : PPath) (segs : List Seg) (p : PPath),
      (∃ pm mt, fs.lookup cur = some (.dir pm mt)) →
      resolve fs n cur segs true = .ok p → (∃ pm mt c, fs.lookup p = some (.file pm mt c)) →
      ∀ (m : Nat) (rest : List Seg) (f : Bool) (r : PPath), rest ≠ [] →
        resolve fs m cur (segs ++ rest) f ≠ .ok r := by
  intro n
  induction n with
  | zero => intro cur segs p _ h; simp [resolve] at h
  | succ n ih =>
    intro cur segs p hcur h hfile m rest f r hrest
    cases m with
    | zero => simp [resolve]
    | succ m =>
      cases segs with
      | nil =>
        simp only [resolve] at h
        cases h
        obtain ⟨pm, mt, hd⟩ := hcur
        obtain ⟨pm', mt', c', hf⟩ := hfile
        rw [hd] at hf; cases hf
      | cons s rest' =>
        rw [List.cons_append, resolve]
        rw [resolve] at h
        by_cases hs : s = dotdot
        · rw [if_pos hs] at h ⊢
          exact ih _ _ _ (sn_dir_parent hk hcur) h hfile m rest f r hrest
        · rw [if_neg hs] at h ⊢
          simp only at h ⊢
          have hne : rest' ++ rest ≠ [] := by
            intro e; exact hrest (List.append_eq_nil_iff.mp e).2
          cases hl : fs.lookup (cur ++ [s]) with
          | none =>
            rw [hl] at h
            simp only at h ⊢
            rw [if_neg hne]; intro e; cases e
          | some nd =>
            rw [hl] at h
            cases nd with
            | dir pm mt =>
              simp only at h ⊢
              exact ih _ _ _ ⟨pm, mt, hl⟩ h hfile m rest f r hrest
            | file pm mt c =>
              simp only at h ⊢
              rw [if_neg hne]; intro e; cases e
            | special =>
              simp only at h ⊢
              rw [if_neg hne]; intro e; cases e
            | link t =>
              simp only at h ⊢
              have hc1 : ¬ (rest' = [] ∧ (!true) = true) := by simp
              have hc2 : ¬ (rest' ++ rest = [] ∧ (!f) = true) := fun e => hne e.1
              rw [if_neg hc1] at h
              rw [if_neg hc2]
              by_cases ht : t = []
              · rw [if_pos ht]; intro e; cases e
              · rw [if_neg ht] at h ⊢
                rw [← List.append_assoc]
                refine ih _ _ _ ?_ h hfile m rest f r hrest
                split
                · exact ⟨0o755, 0, rfl⟩
                · exact hcur

/-- a walk inside the subtree at `W` goes the same way in the subtree re-keyed to `F`, when every link
of the subtree is relative, never climbs above `W` as written (`isLocal.go`), and cannot serve as a
directory (`hblock`; e.g. because it leads to a regular file) -/
theorem sn_resolve_rekey_go {fs : FS} {W F : PPath} (hfree : ∀ e ∈ fs, ¬ F <+: e.1)
    (hloc : ∀ c s t, fs.get (W ++ c ++ [s]) = some (.link t) →
      isAbs t = false ∧ isLocal.go c.length (pathSegs t) = true)
    (hblock : ∀ c s t, fs.get (W ++ c ++ [s]) = some (.link t) →
      ∀ (m : Nat) (rest : List Seg) (f : Bool) (r : PPath), rest ≠ [] →
        resolve fs m (W ++ c) (pathSegs t ++ rest) f ≠ .ok r) :
    ∀ (fuel : Nat) (c : PPath) (segs : List Seg) (follow : Bool) (r : PPath),
      (∀ x ∈ segs, x ≠ [] ∧ x ≠ dot) → isLocal.go c.length segs = true →
      resolve fs fuel (W ++ c) segs follow = .ok r →
      ∃ r', r = W ++ r' ∧ resolve (fs.renameDir W F) fuel (F ++ c) segs follow = .ok (F ++ r') := by
  intro fuel
  induction fuel with
  | zero => intro c segs follow r _ _ h; simp [resolve] at h
  | succ fuel ih =>
    intro c segs follow r hseg hgo h
    cases segs with
    | nil =>
      simp only [resolve] at h ⊢
      cases h
      exact ⟨c, rfl, rfl⟩
    | cons s rest =>
      have hrestseg : ∀ x ∈ rest, x ≠ [] ∧ x ≠ dot := fun x hx => hseg x (List.mem_cons_of_mem _ hx)
      rw [resolve] at h ⊢
      by_cases hs : s = dotdot
      · subst hs
        rw [if_pos rfl] at h ⊢
        rw [sn_go_dotdot] at hgo
        have hc0 : c.length ≠ 0 := by
          intro e; rw [e] at hgo; simp at hgo
        rw [if_neg hc0] at hgo
        have hc : c ≠ [] := by
          intro e; rw [e] at hc0; exact hc0 rfl
        rw [List.dropLast_append_of_ne_nil hc] at h ⊢
        exact ih _ _ _ _ hrestseg (by rw [List.length_dropLast]; exact hgo) h
      · rw [if_neg hs] at h ⊢
        simp only at h ⊢
        have hp : Plain s := ⟨(hseg s (by simp)).1, (hseg s (by simp)).2, hs⟩
        rw [sn_go_plain _ s rest hp] at hgo
        have hlk : (fs.renameDir W F).lookup (F ++ c ++ [s]) = fs.lookup (W ++ c ++ [s]) := by
          rw [List.append_assoc, List.append_assoc]
          exact sn_renameDir_lookup_moved fs W F (c ++ [s]) (by simp) hfree
        rw [hlk]
        have hend : ∃ r', W ++ c ++ [s] = W ++ r' ∧ F ++ c ++ [s] = F ++ r' :=
          ⟨c ++ [s], by simp, by simp⟩
        cases hl : fs.lookup (W ++ c ++ [s]) with
        | none =>
          rw [hl] at h
          simp only at h ⊢
          split
          · rename_i hr
            rw [if_pos hr] at h; cases h
            obtain ⟨r', e1, e2⟩ := hend
            exact ⟨r', e1, by rw [e2]⟩
          · rename_i hr; rw [if_neg hr] at h; cases h
        | some n =>
          rw [hl] at h
          cases n with
          | dir pm mt =>
            simp only at h ⊢
            rw [List.append_assoc] at h ⊢
            exact ih _ _ _ _ hrestseg (by simpa using hgo) h
          | file pm mt c' =>
            simp only at h ⊢
            split
            · rename_i hr
              rw [if_pos hr] at h; cases h
              obtain ⟨r', e1, e2⟩ := hend
              exact ⟨r', e1, by rw [e2]⟩
            · rename_i hr; rw [if_neg hr] at h; cases h
          | special =>
            simp only at h ⊢
            split
            · rename_i hr
              rw [if_pos hr] at h; cases h
              obtain ⟨r', e1, e2⟩ := hend
              exact ⟨r', e1, by rw [e2]⟩
            · rename_i hr; rw [if_neg hr] at h; cases h
          | link t =>
            simp only at h ⊢
            have hget : fs.get (W ++ c ++ [s]) = some (.link t) := by
              rw [← lookup_ne_nil fs _ (by simp)]; exact hl
            obtain ⟨habs, htgo⟩ := hloc c s t hget
            split
            · rename_i hr
              rw [if_pos hr] at h; cases h
              obtain ⟨r', e1, e2⟩ := hend
              exact ⟨r', e1, by rw [e2]⟩
            · rename_i hr
              rw [if_neg hr] at h
              simp only [habs, Bool.false_eq_true, if_false] at h ⊢
              split
              · rename_i ht; rw [if_pos ht] at h; cases h
              · rename_i ht
                rw [if_neg ht] at h
                have hrest0 : rest = [] := by
                  cases hre : rest with
                  | nil => rfl
                  | cons a b =>
                    exact absurd h (hblock c s t hget fuel rest follow r (by rw [hre]; simp))
                subst hrest0
                refine ih _ _ _ _ ?_ (by rw [List.append_nil]; exact htgo) h
                intro x hx
                rw [List.append_nil] at hx
                exact ⟨(pathSegs_mem t x hx).2.1, (pathSegs_mem t x hx).2.2⟩

/-- a link that reads as a regular file (what a successful hash has checked) cannot serve as a
directory -/
theorem sn_link_blocks {fs : FS} (hk : KeysPhysical fs) {P : PPath} {s : Seg} {t : Str}
    (hnames : ∀ x ∈ P ++ [s], NameNS x) (hget : fs.get (P ++ [s]) = some (.link t))
    (habs : isAbs t = false) {p : PPath} (hres : fs.resolvePath (ofSegs (P ++ [s])) true = .ok p)
    (hfile : ∃ pm mt c, fs.lookup p = some (.file pm mt c)) :
    ∀ (m : Nat) (rest : List Seg) (f : Bool) (r : PPath), rest ≠ [] →
      resolve fs m P (pathSegs t ++ rest) f ≠ .ok r := by
  unfold FS.resolvePath at hres
  rw [pathSegs_ofSegs _ hnames] at hres
  have hspine : ∀ q, [] <+: q → q ≠ [] → q <+: [] ++ P → ∃ pm mt, fs.lookup q = some (.dir pm mt) := by
    intro q _ _ hq
    rw [List.nil_append] at hq
    apply keys_ancestors hk _ _ hget q (List.IsPrefix.trans hq (List.prefix_append _ _))
    intro e
    rw [e] at hq
    have := List.IsPrefix.length_le hq
    simp only [List.length_append, List.length_cons, List.length_nil] at this
    omega
  have hPdir : ∃ pm mt, fs.lookup P = some (.dir pm mt) := by
    apply keys_ancestors hk _ _ hget P (List.prefix_append _ _)
    intro e
    have := congrArg List.length e
    simp only [List.length_append, List.length_cons, List.length_nil] at this
    omega
  obtain ⟨n, _, hin⟩ := sn_resolve_spine_split fs P resolveFuel [] [s] true p
    (fun x hx => (hnames x (List.mem_append_left _ hx)).1.2.2) hspine hres
  rw [List.nil_append] at hin
  have hs : s ≠ dotdot := (hnames s (by simp)).1.2.2
  cases n with
  | zero => simp [resolve] at hin
  | succ k =>
    rw [resolve, if_neg hs] at hin
    simp only at hin
    rw [lookup_ne_nil _ _ (by simp), hget] at hin
    simp only at hin
    simp only [Bool.not_true, Bool.false_eq_true, and_false, if_false, habs, List.append_nil] at hin
    by_cases ht : t = []
    · rw [if_pos ht] at hin; cases hin
    · rw [if_neg ht] at hin
      intro m rest f r hrest
      exact sn_resolve_file_blocks hk k P (pathSegs t) p hPdir hin hfile m rest f r hrest

end Slug
