import SlugModel.Sanitise
import SlugModel.Lemmas.FSFrame
import SlugModel.Lemmas.PathSegs
import SlugModel.Lemmas.UnpackInv
/-!
# Lemmas/SanitiseInv — what the package preparation walk changes, and what it checks

Helper lemmas for `Props/C10`.  `SnSub fs' fs`: `fs'` is `fs` with some bindings removed (the walk
only deletes).  `SanAt W fs path`: `path` is an absolute clean path at or below the work directory
none of whose proper prefixes is a link — what every path handed to `prepVisit` satisfies, so
`RemoveAll(path)` acts at the physical location `pathSegs path`.  `SnStep W fs fs'`: only bindings
at or below `W` are removed.
-/
namespace Slug

/-! ## association-list facts -/

theorem sn_get_cons (q : PPath) (n : Node) (r : FS) (p : PPath) :
    FS.get ((q, n) :: r) p = if q = p then some n else FS.get r p := rfl

theorem sn_get_filter (f : PPath → Bool) (fs : FS) (q : PPath) :
    FS.get (fs.filter (fun e => f e.1)) q = if f q then fs.get q else none := by
  induction fs with
  | nil => simp [FS.get]
  | cons e r ih =>
    obtain ⟨k, n⟩ := e
    by_cases hk : f k = true
    · rw [List.filter_cons_of_pos (by simpa using hk), sn_get_cons, sn_get_cons]
      by_cases hq : k = q
      · subst hq; simp [hk]
      · simp only [hq, if_false]; exact ih
    · rw [List.filter_cons_of_neg (by simpa using hk), sn_get_cons]
      by_cases hq : k = q
      · subst hq
        have : f k = false := by simpa using hk
        rw [ih]; simp [this]
      · simp only [hq, if_false]; exact ih

theorem sn_get_delTree (fs : FS) (p q : PPath) :
    (fs.delTree p).get q = if p <+: q then none else fs.get q := by
  unfold FS.delTree
  rw [sn_get_filter (fun k => !(p.isPrefixOf k)) fs q]
  by_cases h : p <+: q
  · have : p.isPrefixOf q = true := List.isPrefixOf_iff_prefix.mpr h
    simp [h, this]
  · have : p.isPrefixOf q = false := by
      cases hb : p.isPrefixOf q with
      | false => rfl
      | true => exact absurd (List.isPrefixOf_iff_prefix.mp hb) h
    simp [h, this]

theorem sn_get_eq_none (fs : FS) (q : PPath) : fs.get q = none ↔ ∀ e ∈ fs, e.1 ≠ q := by
  induction fs with
  | nil => simp [FS.get]
  | cons e r ih =>
    obtain ⟨k, n⟩ := e
    rw [sn_get_cons]
    by_cases hq : k = q
    · subst hq; simp
    · simp only [hq, if_false, ih, List.mem_cons, forall_eq_or_imp, ne_eq, not_false_eq_true, true_and]

theorem sn_mem_get_isSome {fs : FS} {k : PPath} {n : Node} (h : (k, n) ∈ fs) : (fs.get k).isSome = true := by
  cases hg : fs.get k with
  | some m => rfl
  | none => exact absurd rfl ((sn_get_eq_none fs k).mp hg (k, n) h)

theorem sn_get_some_mem {fs : FS} {k : PPath} {n : Node} (h : fs.get k = some n) : (k, n) ∈ fs := get_mem h

/-! ## `SnSub`: only deletions -/

/-- `fs'` is `fs` with some bindings removed -/
def SnSub (fs' fs : FS) : Prop := ∀ q, fs'.get q = fs.get q ∨ fs'.get q = none

theorem SnSub.refl (fs : FS) : SnSub fs fs := fun _ => Or.inl rfl

theorem SnSub.trans {a b c : FS} (h1 : SnSub b a) (h2 : SnSub c b) : SnSub c a := by
  intro q
  rcases h2 q with e | e
  · rcases h1 q with e' | e'
    · exact Or.inl (e.trans e')
    · exact Or.inr (e.trans e')
  · exact Or.inr e

theorem SnSub.get_some {fs' fs : FS} (h : SnSub fs' fs) {q : PPath} {n : Node} (hq : fs'.get q = some n) :
    fs.get q = some n := by
  rcases h q with e | e
  · rw [← e]; exact hq
  · rw [e] at hq; cases hq

theorem SnSub.lookup {fs' fs : FS} (h : SnSub fs' fs) (q : PPath) :
    fs'.lookup q = fs.lookup q ∨ fs'.lookup q = none := by
  unfold FS.lookup
  by_cases hq : q = []
  · simp [hq]
  · simp only [hq, if_false]; exact h q

theorem SnSub.lookup_some {fs' fs : FS} (h : SnSub fs' fs) {q : PPath} {n : Node} (hq : fs'.lookup q = some n) :
    fs.lookup q = some n := by
  rcases h.lookup q with e | e
  · rw [← e]; exact hq
  · rw [e] at hq; cases hq

theorem snSub_delTree (fs : FS) (p : PPath) : SnSub (fs.delTree p) fs := by
  intro q
  rw [sn_get_delTree]
  split
  · exact Or.inr rfl
  · exact Or.inl rfl

/-- `RemoveAll` either does nothing or deletes the subtree at the place `Lstat`-style resolution finds -/
theorem sn_removeAll_cases (fs : FS) (path : Str) :
    fs.removeAll path = fs ∨
    ∃ p, fs.resolvePath path false = .ok p ∧ p ≠ [] ∧ fs.removeAll path = fs.delTree p := by
  unfold FS.removeAll
  split
  · rename_i p hp
    split
    · exact Or.inl rfl
    · rename_i hne
      exact Or.inr ⟨p, rfl, hne, rfl⟩
  · exact Or.inl rfl

theorem snSub_removeAll (fs : FS) (path : Str) : SnSub (fs.removeAll path) fs := by
  rcases sn_removeAll_cases fs path with e | ⟨p, _, _, e⟩
  · rw [e]; exact SnSub.refl _
  · rw [e]; exact snSub_delTree fs p

end Slug
