import SlugModel.FS
import SlugModel.Lemmas.Path
/-!
# Lemmas/Resolve — where kernel path resolution lands (heart of C01 / C04)

`Heading dstP cur segs`: the walk is at a position `cur` comparable with the destination
(`cur` above `dst` on the way down, or inside it), the remaining segments are *tidy* (a block of
`..`, then plain names only) and lexically end inside `dst`.  Under `RealDir` (the components of
`dst` are real directories) and `AllGood` (every link physically under `dst` is tidy and
lexically inside from its own directory), every successful `resolve` from a `Heading` state ends
physically under `dst` — through any chain of links.
-/
namespace Slug

/-! ## definitions shared by C01 / C04 -/

/-- `p` is physically at or below `dstP` -/
def Under (dstP p : PPath) : Prop := dstP <+: p

instance (dstP p : PPath) : Decidable (Under dstP p) := by unfold Under; infer_instance

def isPlainB (s : Seg) : Bool := decide (s ≠ [] ∧ s ≠ dot ∧ s ≠ dotdot)

/-- a block of `..` followed by plain names only -/
def tidySegs : List Seg → Bool
  | [] => true
  | s :: r => if s = dotdot then tidySegs r else (s :: r).all isPlainB

/-- a link target all of whose `..` segments come first -/
def Tidy (t : Str) : Prop := tidySegs (pathSegs t) = true

instance (t : Str) : Decidable (Tidy t) := by unfold Tidy; infer_instance

/-- the lexical (rooted, clamped at the root) resolution of `segs` from `cur` lands in `dstP` -/
def LexInside (dstP cur : PPath) (segs : List Seg) : Prop := dstP <+: cleanSegs true (cur ++ segs)

instance (dstP cur : PPath) (segs : List Seg) : Decidable (LexInside dstP cur segs) := by
  unfold LexInside; infer_instance

/-- a link at physical path `p` with target `t`: plain physical components, tidy target, and
lexically inside `dstP` from the link's directory (from the root for an absolute target) -/
def GoodLink (dstP p : PPath) (t : Str) : Prop :=
  (∀ s ∈ p, Plain s) ∧ Tidy t ∧ LexInside dstP (if isAbs t then [] else p.dropLast) (pathSegs t)

/-- every prefix of `dstP` (the root and `dstP` itself included) is a directory -/
def RealDir (fs : FS) (dstP : PPath) : Prop :=
  ∀ q, q <+: dstP → ∃ perm mt, fs.lookup q = some (.dir perm mt)

/-- every bound path's parent is bound to a directory -/
def KeysPhysical (fs : FS) : Prop :=
  ∀ p n, fs.get p = some n → p ≠ [] ∧ ∃ perm mt, fs.lookup p.dropLast = some (.dir perm mt)

/-- every link physically under `dstP` is good -/
def AllGood (fs : FS) (dstP : PPath) : Prop :=
  ∀ p t, fs.get p = some (.link t) → Under dstP p → GoodLink dstP p t

/-! ## plain names and the cleaning machine -/

theorem isPlainB_iff (s : Seg) : isPlainB s = true ↔ Plain s := by simp [isPlainB, Plain]

theorem step_name (r : Bool) (st : List Seg) (s : Seg) (h : Plain s) : step r st s = s :: st := by
  obtain ⟨h1, h2, h3⟩ := h
  simp [step, h1, h2, h3]

theorem run_names (r : Bool) (xs : List Seg) (h : ∀ x ∈ xs, Plain x) :
    ∀ st, run r st xs = xs.reverse ++ st := by
  induction xs with
  | nil => intro st; simp [run]
  | cons x xs ih =>
    intro st
    have hx : Plain x := h x (by simp)
    have : run r st (x :: xs) = run r (step r st x) xs := rfl
    rw [this, step_name r st x hx, ih (fun y hy => h y (List.mem_cons_of_mem _ hy))]
    simp

theorem cleanSegs_names (r : Bool) (xs : List Seg) (h : ∀ x ∈ xs, Plain x) : cleanSegs r xs = xs := by
  unfold cleanSegs
  rw [run_names r xs h]; simp

/-- appending plain names after anything just appends them to the cleaned result -/
theorem cleanSegs_append_names (r : Bool) (xs ys : List Seg) (h : ∀ x ∈ ys, Plain x) :
    cleanSegs r (xs ++ ys) = cleanSegs r xs ++ ys := by
  unfold cleanSegs
  rw [run_append, run_names r ys h]; simp

/-- a `..` after plain names pops the last one (or stays at the root) -/
theorem cleanSegs_names_dotdot (cur rest : List Seg) (h : ∀ x ∈ cur, Plain x) :
    cleanSegs true (cur ++ dotdot :: rest) = cleanSegs true (cur.dropLast ++ rest) := by
  have hd : ∀ x ∈ cur.dropLast, Plain x := fun x hx => h x (List.dropLast_subset _ hx)
  unfold cleanSegs
  rw [run_append, run_append, run_names true cur h, run_names true _ hd]
  have : run true (cur.reverse ++ []) (dotdot :: rest) = run true (step true (cur.reverse ++ []) dotdot) rest := rfl
  rw [this]
  congr 2
  rcases List.eq_nil_or_concat cur with rfl | ⟨ys, y, rfl⟩
  · simp [step]
  · have hy : y ≠ dotdot := (h y (by simp)).2.2
    simp [step, hy]

/-! ## tidy segment lists -/

theorem tidySegs_dotdot (r : List Seg) : tidySegs (dotdot :: r) = tidySegs r := by
  simp [tidySegs]

theorem tidySegs_names (r : List Seg) (h : ∀ x ∈ r, Plain x) : tidySegs r = true := by
  cases r with
  | nil => rfl
  | cons s r =>
    have hs : s ≠ dotdot := (h s (by simp)).2.2
    simp only [tidySegs, hs, if_false, List.all_eq_true]
    intro x hx; exact (isPlainB_iff x).mpr (h x hx)

theorem tidySegs_name_cons (s : Seg) (r : List Seg) (hs : s ≠ dotdot) (h : tidySegs (s :: r) = true) :
    ∀ x ∈ s :: r, Plain x := by
  simp only [tidySegs, hs, if_false, List.all_eq_true] at h
  intro x hx; exact (isPlainB_iff x).mp (h x hx)

theorem tidySegs_append_names (a b : List Seg) (ha : tidySegs a = true) (hb : ∀ x ∈ b, Plain x) :
    tidySegs (a ++ b) = true := by
  induction a with
  | nil => exact tidySegs_names b hb
  | cons s r ih =>
    by_cases hs : s = dotdot
    · subst hs
      rw [List.cons_append, tidySegs_dotdot]
      rw [tidySegs_dotdot] at ha
      exact ih ha
    · have hall := tidySegs_name_cons s r hs ha
      apply tidySegs_names
      intro x hx
      rcases List.mem_append.mp hx with hx | hx
      · exact hall x hx
      · exact hb x hx

/-! ## the walk invariant -/

structure Heading (dstP cur : PPath) (segs : List Seg) : Prop where
  plain : ∀ s ∈ cur, Plain s
  pos : cur <+: dstP ∨ dstP <+: cur
  tidy : tidySegs segs = true
  inside : LexInside dstP cur segs

theorem prefix_dropLast_of_prefix {a b : PPath} (h : a <+: b) : a.dropLast <+: b :=
  List.IsPrefix.trans (List.dropLast_prefix a) h

theorem heading_up {dstP cur : PPath} {rest : List Seg} (h : Heading dstP cur (dotdot :: rest)) :
    Heading dstP cur.dropLast rest := by
  refine ⟨fun s hs => h.plain s (List.dropLast_subset _ hs), ?_, ?_, ?_⟩
  · rcases h.pos with hp | hp
    · exact Or.inl (prefix_dropLast_of_prefix hp)
    · -- dstP <+: cur: both dstP and cur.dropLast are prefixes of cur
      rcases List.prefix_or_prefix_of_prefix hp (List.dropLast_prefix cur) with h1 | h1
      · exact Or.inr h1
      · exact Or.inl h1
  · have := h.tidy; rwa [tidySegs_dotdot] at this
  · have := h.inside
    unfold LexInside at this ⊢
    rwa [cleanSegs_names_dotdot cur rest h.plain] at this

theorem heading_names {dstP cur : PPath} {s : Seg} {rest : List Seg} (h : Heading dstP cur (s :: rest))
    (hs : s ≠ dotdot) : ∀ x ∈ s :: rest, Plain x := tidySegs_name_cons s rest hs h.tidy

/-- with names only ahead, the lexical result is the plain concatenation -/
theorem heading_prefix {dstP cur : PPath} {s : Seg} {rest : List Seg} (h : Heading dstP cur (s :: rest))
    (hs : s ≠ dotdot) : dstP <+: cur ++ s :: rest := by
  have hn := heading_names h hs
  have := h.inside
  unfold LexInside at this
  rwa [cleanSegs_names true (cur ++ s :: rest) (by
    intro x hx
    rcases List.mem_append.mp hx with hx | hx
    · exact h.plain x hx
    · exact hn x hx)] at this

theorem heading_down {dstP cur : PPath} {s : Seg} {rest : List Seg} (h : Heading dstP cur (s :: rest))
    (hs : s ≠ dotdot) : Heading dstP (cur ++ [s]) rest := by
  have hn := heading_names h hs
  have hpre := heading_prefix h hs
  refine ⟨?_, ?_, ?_, ?_⟩
  · intro x hx
    rcases List.mem_append.mp hx with hx | hx
    · exact h.plain x hx
    · simp at hx; subst hx; exact hn _ (by simp)
  · have h2 : cur ++ [s] <+: cur ++ s :: rest := by
      have : cur ++ s :: rest = (cur ++ [s]) ++ rest := by simp
      rw [this]; exact List.prefix_append _ _
    rcases List.prefix_or_prefix_of_prefix hpre h2 with h1 | h1
    · exact Or.inr h1
    · exact Or.inl h1
  · exact tidySegs_names rest (fun x hx => hn x (List.mem_cons_of_mem _ hx))
  · have := h.inside
    unfold LexInside at this ⊢
    simpa using this

/-- a name step from a position that is not yet inside `dst` stays on the spine of `dst` -/
theorem heading_spine {dstP cur : PPath} {s : Seg} {rest : List Seg} (h : Heading dstP cur (s :: rest))
    (hs : s ≠ dotdot) : cur ++ [s] <+: dstP ∨ dstP <+: cur ++ [s] := (heading_down h hs).pos

theorem heading_end {dstP cur : PPath} (h : Heading dstP cur []) : Under dstP cur := by
  have := h.inside
  unfold LexInside at this
  rwa [List.append_nil, cleanSegs_names true cur h.plain] at this

/-- splicing the target of a good link -/
theorem heading_splice {dstP cur : PPath} {s : Seg} {rest : List Seg} {t : Str}
    (h : Heading dstP cur (s :: rest)) (hs : s ≠ dotdot) (hg : GoodLink dstP (cur ++ [s]) t) :
    Heading dstP (if isAbs t then [] else cur) (pathSegs t ++ rest) := by
  have hn := heading_names h hs
  have hrest : ∀ x ∈ rest, Plain x := fun x hx => hn x (List.mem_cons_of_mem _ hx)
  obtain ⟨_, htidy, hin⟩ := hg
  rw [List.dropLast_concat] at hin
  refine ⟨?_, ?_, ?_, ?_⟩
  · split
    · intro x hx; cases hx
    · exact h.plain
  · split
    · exact Or.inl (List.nil_prefix)
    · exact h.pos
  · exact tidySegs_append_names _ _ htidy hrest
  · unfold LexInside at hin ⊢
    rw [← List.append_assoc, cleanSegs_append_names true _ rest hrest]
    exact List.IsPrefix.trans hin (List.prefix_append _ _)

/-! ## the resolution lemma -/

theorem lookup_ne_nil (fs : FS) (p : PPath) (h : p ≠ []) : fs.lookup p = fs.get p := by
  simp [FS.lookup, h]

/-- **Every successful resolution from a `Heading` state ends under `dst`.** -/
theorem resolve_under (fs : FS) (dstP : PPath) (hreal : RealDir fs dstP) (hgood : AllGood fs dstP) :
    ∀ (fuel : Nat) (cur : PPath) (segs : List Seg) (follow : Bool) (r : PPath),
      Heading dstP cur segs → resolve fs fuel cur segs follow = .ok r → Under dstP r := by
  intro fuel
  induction fuel with
  | zero => intro cur segs follow r _ h; simp [resolve] at h
  | succ fuel ih =>
    intro cur segs follow r hh h
    cases segs with
    | nil =>
      simp only [resolve] at h
      cases h
      exact heading_end hh
    | cons s rest =>
      rw [resolve] at h
      by_cases hs : s = dotdot
      · subst hs
        rw [if_pos rfl] at h
        exact ih _ _ _ _ (heading_up hh) h
      · rw [if_neg hs] at h
        simp only at h
        have hdown := heading_down hh hs
        have hpne : cur ++ [s] ≠ [] := by simp
        -- where the name leads: under dst, unless it is a real directory on the spine
        have hunder_or : Under dstP (cur ++ [s]) ∨ ∃ perm mt, fs.lookup (cur ++ [s]) = some (.dir perm mt) := by
          rcases hdown.pos with hp | hp
          · exact Or.inr (hreal _ hp)
          · exact Or.inl hp
        have hend : rest = [] → Under dstP (cur ++ [s]) := by
          intro hr; subst hr; exact heading_end hdown
        cases hl : fs.lookup (cur ++ [s]) with
        | none =>
          rw [hl] at h
          simp only at h
          split at h
          · rename_i hr; cases h; exact hend hr
          · cases h
        | some n =>
          rw [hl] at h
          cases n with
          | dir perm mt =>
            simp only at h
            exact ih _ _ _ _ hdown h
          | file perm mt c =>
            simp only at h
            split at h
            · rename_i hr; cases h; exact hend hr
            · cases h
          | special =>
            simp only at h
            split at h
            · rename_i hr; cases h; exact hend hr
            · cases h
          | link t =>
            simp only at h
            split at h
            · rename_i hr; cases h; exact hend hr.1
            · split at h
              · cases h
              · have hu : Under dstP (cur ++ [s]) := by
                  rcases hunder_or with hu | ⟨perm, mt, hd⟩
                  · exact hu
                  · rw [hl] at hd; cases hd
                have hget : fs.get (cur ++ [s]) = some (.link t) := by
                  rw [← lookup_ne_nil fs _ hpne]; exact hl
                exact ih _ _ _ _ (heading_splice hh hs (hgood _ _ hget hu)) h

/-- the state in which a system call starts on a clean absolute path inside `dst` -/
theorem heading_start (dstP : PPath) (segs : List Seg) (hn : ∀ x ∈ segs, Plain x) (hpre : dstP <+: segs) :
    Heading dstP [] segs := by
  refine ⟨(by intro s hs; cases hs), Or.inl List.nil_prefix, tidySegs_names segs hn, ?_⟩
  unfold LexInside
  rw [List.nil_append, cleanSegs_names true segs hn]
  exact hpre

/-- the state in which the kernel starts following a good link -/
theorem heading_link (dstP p : PPath) (t : Str) (hu : Under dstP p) (hg : GoodLink dstP p t) :
    Heading dstP (if isAbs t then [] else p.dropLast) (pathSegs t) := by
  obtain ⟨hp, htidy, hin⟩ := hg
  refine ⟨?_, ?_, htidy, hin⟩
  · split
    · intro x hx; cases hx
    · exact fun s hs => hp s (List.dropLast_subset _ hs)
  · split
    · exact Or.inl List.nil_prefix
    · rcases List.prefix_or_prefix_of_prefix hu (List.dropLast_prefix p) with h1 | h1
      · exact Or.inr h1
      · exact Or.inl h1

/-! ## resolution along real directories / without links -/

/-- along the spine of real directories resolution is the identity (or fails) -/
theorem resolve_spine (fs : FS) (dstP : PPath) (hreal : RealDir fs dstP) :
    ∀ (fuel : Nat) (cur : PPath) (segs : List Seg) (follow : Bool) (r : PPath),
      (∀ x ∈ segs, x ≠ dotdot) → cur ++ segs <+: dstP →
      resolve fs fuel cur segs follow = .ok r → r = cur ++ segs := by
  intro fuel
  induction fuel with
  | zero => intro cur segs follow r _ _ h; simp [resolve] at h
  | succ fuel ih =>
    intro cur segs follow r hn hpre h
    cases segs with
    | nil => simp only [resolve] at h; cases h; simp
    | cons s rest =>
      rw [resolve] at h
      have hs : s ≠ dotdot := hn s (by simp)
      rw [if_neg hs] at h
      simp only at h
      have hassoc : cur ++ s :: rest = (cur ++ [s]) ++ rest := by simp
      have hp : cur ++ [s] <+: dstP :=
        List.IsPrefix.trans (by rw [hassoc]; exact List.prefix_append _ _) hpre
      obtain ⟨perm, mt, hl⟩ := hreal _ hp
      rw [hl] at h
      simp only at h
      rw [hassoc]
      exact ih _ _ _ _ (fun x hx => hn x (List.mem_cons_of_mem _ hx)) (by rw [← hassoc]; exact hpre) h

/-- no link strictly between `cur` and `cur ++ segs` -/
def NoLinkBetween (fs : FS) (cur : PPath) (segs : List Seg) : Prop :=
  ∀ q, cur <+: q → q ≠ cur → q <+: cur ++ segs → q ≠ cur ++ segs → ∀ t, fs.get q ≠ some (.link t)

theorem noLinkBetween_down {fs : FS} {cur : PPath} {s : Seg} {rest : List Seg}
    (h : NoLinkBetween fs cur (s :: rest)) : NoLinkBetween fs (cur ++ [s]) rest := by
  intro q h1 h2 h3 h4 t
  have hassoc : cur ++ s :: rest = (cur ++ [s]) ++ rest := by simp
  apply h q (List.IsPrefix.trans (List.prefix_append _ _) h1)
  · intro e
    rw [e] at h1
    have := List.IsPrefix.length_le h1
    simp only [List.length_append, List.length_cons, List.length_nil] at this
    omega
  · rw [hassoc]; exact h3
  · rw [hassoc]; exact h4

/-- if no proper intermediate component is a link, `lstat`-style resolution is the identity -/
theorem resolve_nolink (fs : FS) :
    ∀ (fuel : Nat) (cur : PPath) (segs : List Seg) (r : PPath),
      (∀ x ∈ segs, x ≠ dotdot) → NoLinkBetween fs cur segs →
      resolve fs fuel cur segs false = .ok r → r = cur ++ segs := by
  intro fuel
  induction fuel with
  | zero => intro cur segs r _ _ h; simp [resolve] at h
  | succ fuel ih =>
    intro cur segs r hn hnl h
    cases segs with
    | nil => simp only [resolve] at h; cases h; simp
    | cons s rest =>
      rw [resolve] at h
      have hs : s ≠ dotdot := hn s (by simp)
      rw [if_neg hs] at h
      simp only at h
      have hassoc : cur ++ s :: rest = (cur ++ [s]) ++ rest := by simp
      have hrest : ∀ x ∈ rest, x ≠ dotdot := fun x hx => hn x (List.mem_cons_of_mem _ hx)
      have hend : rest = [] → cur ++ [s] = cur ++ s :: rest := by intro hr; subst hr; rfl
      cases hl : fs.lookup (cur ++ [s]) with
      | none =>
        rw [hl] at h; simp only at h
        split at h
        · rename_i hr; cases h; exact hend hr
        · cases h
      | some n =>
        rw [hl] at h
        cases n with
        | dir perm mt =>
          simp only at h
          rw [hassoc]
          exact ih _ _ _ hrest (noLinkBetween_down hnl) h
        | file perm mt c =>
          simp only at h
          split at h
          · rename_i hr; cases h; exact hend hr
          · cases h
        | special =>
          simp only at h
          split at h
          · rename_i hr; cases h; exact hend hr
          · cases h
        | link t =>
          simp only at h
          split at h
          · rename_i hr; cases h; exact hend hr.1
          · rename_i hr
            have hrne : rest ≠ [] := by
              intro e; apply hr; exact ⟨e, by simp⟩
            exfalso
            have hget : fs.get (cur ++ [s]) = some (.link t) := by
              rw [← lookup_ne_nil fs _ (by simp)]; exact hl
            refine hnl (cur ++ [s]) (List.prefix_append _ _) ?_ ?_ ?_ t hget
            · intro e
              have := congrArg List.length e
              simp only [List.length_append, List.length_cons, List.length_nil] at this
              omega
            · rw [hassoc]; exact List.prefix_append _ _
            · intro e
              rw [hassoc] at e
              have := congrArg List.length e
              simp only [List.length_append, List.length_cons, List.length_nil] at this
              exact hrne (List.eq_nil_of_length_eq_zero (by omega))

/-- every proper ancestor of a bound path is a directory -/
theorem keys_ancestors {fs : FS} (hk : KeysPhysical fs) :
    ∀ (q : PPath) (n : Node), fs.get q = some n → ∀ a, a <+: q → a ≠ q →
      ∃ perm mt, fs.lookup a = some (.dir perm mt) := by
  intro q
  induction hlen : q.length generalizing q with
  | zero =>
    intro n _ a ha hne
    have : q = [] := List.eq_nil_of_length_eq_zero hlen
    subst this
    exact absurd (List.prefix_nil.mp ha) hne
  | succ k ih =>
    intro n hq a ha hne
    obtain ⟨hq0, perm, mt, hpar⟩ := hk q n hq
    -- a is a prefix of q.dropLast
    have ha' : a <+: q.dropLast := by
      obtain ⟨t, rfl⟩ := ha
      have ht : t ≠ [] := by intro h0; apply hne; simp [h0]
      rw [List.dropLast_append_of_ne_nil ht]
      exact List.prefix_append _ _
    by_cases he : a = q.dropLast
    · rw [he]; exact ⟨perm, mt, hpar⟩
    · have hdl : q.dropLast.length = k := by rw [List.length_dropLast]; omega
      by_cases hd0 : q.dropLast = []
      · rw [hd0] at ha' he
        exact absurd (List.prefix_nil.mp ha') he
      · rw [lookup_ne_nil fs _ hd0] at hpar
        exact ih q.dropLast hdl _ hpar a ha' he

/-- through a chain of directories, `lstat`-style resolution reaches the path itself unless the
fuel runs out -/
theorem resolve_dirchain (fs : FS) :
    ∀ (fuel : Nat) (cur : PPath) (segs : List Seg),
      (∀ x ∈ segs, x ≠ dotdot) →
      (∀ a, a <+: cur ++ segs → a ≠ cur ++ segs → cur <+: a → a ≠ cur →
        ∃ perm mt, fs.lookup a = some (.dir perm mt)) →
      resolve fs fuel cur segs false = .ok (cur ++ segs) ∨ resolve fs fuel cur segs false = .error .eloop := by
  intro fuel
  induction fuel with
  | zero => intro cur segs _ _; right; simp [resolve]
  | succ fuel ih =>
    intro cur segs hn hch
    cases segs with
    | nil => left; simp [resolve]
    | cons s rest =>
      rw [resolve]
      have hs : s ≠ dotdot := hn s (by simp)
      rw [if_neg hs]
      simp only
      have hassoc : cur ++ s :: rest = (cur ++ [s]) ++ rest := by simp
      have hrest : ∀ x ∈ rest, x ≠ dotdot := fun x hx => hn x (List.mem_cons_of_mem _ hx)
      by_cases hr : rest = []
      · subst hr
        cases fs.lookup (cur ++ [s]) with
        | none => left; simp
        | some n =>
          cases n with
          | dir perm mt =>
            cases fuel with
            | zero => right; simp [resolve]
            | succ k => left; simp [resolve]
          | file perm mt c => left; simp
          | link t => left; simp
          | special => left; simp
      · obtain ⟨perm, mt, hl⟩ := hch (cur ++ [s]) (by rw [hassoc]; exact List.prefix_append _ _)
          (by
            intro e
            rw [hassoc] at e
            have := congrArg List.length e
            simp only [List.length_append, List.length_cons, List.length_nil] at this
            exact hr (List.eq_nil_of_length_eq_zero (by omega)))
          (List.prefix_append _ _)
          (by
            intro e
            have := congrArg List.length e
            simp only [List.length_append, List.length_cons, List.length_nil] at this
            omega)
        rw [hl]
        simp only
        rw [hassoc]
        apply ih _ _ hrest
        intro a h1 h2 h3 h4
        apply hch a (by rw [hassoc]; exact h1) (by rw [hassoc]; exact h2)
          (List.IsPrefix.trans (List.prefix_append _ _) h3)
        intro e
        rw [e] at h3
        have := List.IsPrefix.length_le h3
        simp only [List.length_append, List.length_cons, List.length_nil] at this
        omega

end Slug
