import SlugModel.Generated.Tr_isTypeX
import SlugModel.Unpack
/-!
# `isTypeX`: the model function equals the translation of the Go function

The definition `Slug.Gen.isTypeX` (Generated/Tr_isTypeX.lean) is rewritten from /repo by harness/cmd/go2lean on
every run; the theorems here are re-checked against it.

`gen_isTypeX_flag` states the translation over the type flag, `gen_isTypeX` over an `Entry` with that type flag
(the model's `Entry.isTypeX`), `gen_isTypeX_mk` is the form met in `NewUnpackInfo` (the `UnpackInfo` built from the header).
-/
namespace Slug

theorem gen_isTypeX_flag (i : Go.UnpackInfo) : Gen.isTypeX i = (decide (i.typeflag = tXGlobal) || decide (i.typeflag = tXHeader)) := by
  simp [Gen.isTypeX, Id.run, tXGlobal, tXHeader]; rfl

theorem gen_isTypeX (i : Go.UnpackInfo) (e : Entry) (h : e.typ = i.typeflag) :
    Gen.isTypeX i = e.isTypeX := by
  rw [gen_isTypeX_flag, Entry.isTypeX, h]

theorem gen_isTypeX_mk (p : Str) (e : Entry) :
    Gen.isTypeX { path := p, typeflag := e.typ } = e.isTypeX := gen_isTypeX _ e rfl

end Slug
