import SlugModel.Generated.Tr_joinSubPath
import SlugModel.Addr
/-!
# `joinSubPath`: the model function equals the translation of the Go function

The definition `Slug.Gen.joinSubPath` (Generated/Tr_joinSubPath.lean) is rewritten from /repo by harness/cmd/go2lean on
every run; the theorem here is re-checked against it.
-/
namespace Slug

theorem gen_joinSubPath (a b : Str) :
    Gen.joinSubPath a b = (match joinSubPath a b with | some r => (r, false) | none => ([], true)) := by
  unfold Gen.joinSubPath joinSubPath
  by_cases h1 : pathJoin a b = ['.']
  · simp [h1, Id.run, dot, Go.pathJoin]; rfl
  · by_cases h2 : validPath (pathJoin a b) = true
    · simp [h1, h2, Id.run, dot, Go.pathJoin, Go.validPath]; rfl
    · simp [h1, h2, Id.run, dot, Go.pathJoin, Go.validPath]; rfl

end Slug
