import SlugModel.Addr
import SlugModel.Lemmas.SubPath
/-! String-level `joinSubPath` equals the segment-level `joinSub` (bridge for C11). -/
namespace Slug

def ValidSub (a : Str) : Prop := a = [] ∨ (validPath a = true ∧ a ≠ dot)

theorem plain_iff (e : Seg) : (decide (e ≠ [] ∧ e ≠ dot ∧ e ≠ dotdot) = true) ↔ Plain e := by
  simp [Plain]

theorem validSub_allPlain (a : Str) (h : ValidSub a) : AllPlain (segsOf a) := by
  unfold segsOf
  rcases h with rfl | ⟨hv, hd⟩
  · intro s hs; simp at hs
  · by_cases ha : a = []
    · subst ha; intro s hs; simp at hs
    · simp only [ha, if_false]
      unfold validPath at hv
      simp only [hd, decide_false, Bool.false_or, List.all_eq_true] at hv
      intro s hs
      exact (plain_iff s).mp (hv s hs)

theorem validPath_not_abs (a : Str) (hv : validPath a = true) : isAbs a = false := by
  cases a with
  | nil => rfl
  | cons c r =>
    by_cases hc : c = '/'
    · subst hc
      unfold validPath at hv
      rw [splitOn_cons_sep] at hv
      simp at hv
      have : ('/' :: r) = dot := hv
      simp [dot] at this
    · simp [isAbs, hc]

theorem run_mem (r : Bool) (xs : List Seg) : ∀ st : List Seg, ∀ s ∈ run r st xs, s ∈ st ∨ s ∈ xs ∨ s = dotdot := by
  induction xs with
  | nil => intro st s hs; exact Or.inl hs
  | cons x xs ih =>
    intro st s hs
    rw [run_cons] at hs
    rcases ih _ s hs with h | h | h
    · unfold step at h
      split at h
      · exact Or.inl h
      · split at h
        · cases st with
          | nil =>
            simp only at h
            split at h
            · simp at h
            · simp at h; exact Or.inr (Or.inr h)
          | cons t rest =>
            simp only at h
            split at h
            · rcases List.mem_cons.mp h with e | h
              · exact Or.inr (Or.inr e)
              · exact Or.inl h
            · exact Or.inl (List.mem_cons_of_mem _ h)
        · rcases List.mem_cons.mp h with e | h
          · exact Or.inr (Or.inl (by simp [e]))
          · exact Or.inl h
    · exact Or.inr (Or.inl (List.mem_cons_of_mem _ h))
    · exact Or.inr (Or.inr h)

theorem normal_mem (st : List Seg) (h : Normal false st) : ∀ s ∈ st, Plain s ∨ s = dotdot := by
  induction h with
  | nil => intro s hs; simp at hs
  | dots st _ hall => intro s hs; exact Or.inr (hall s hs)
  | name t st hp _ ih =>
    intro s hs
    rcases List.mem_cons.mp hs with e | hs
    · exact Or.inl (e ▸ hp)
    · exact ih s hs

theorem slash_not_mem_dotdot : '/' ∉ dotdot := by decide

theorem joinWith_ne_dot (segs : List Seg) (hne : segs ≠ []) (h : ∀ s ∈ segs, s ≠ dot ∧ '/' ∉ s ∨ True)
    (hd : ∀ s ∈ segs, s ≠ dot) : joinWith '/' segs ≠ dot := by
  cases segs with
  | nil => exact absurd rfl hne
  | cons s r =>
    cases r with
    | nil => simpa [joinWith] using hd s (by simp)
    | cons t r' =>
      rw [joinWith_cons_cons]
      intro e
      have : '/' ∈ s ++ '/' :: joinWith '/' (t :: r') := by simp
      rw [e] at this
      simp [dot] at this

/-- the string the code computes, in terms of the cleaned segments -/
theorem pathJoin_segs (a b : Str) (ha : ValidSub a) (hb : b ≠ []) (hab : isAbs b = false) :
    pathJoin a b =
      (if cleanSegs false (segsOf a ++ splitOn '/' b) = [] then dot
       else joinWith '/' (cleanSegs false (segsOf a ++ splitOn '/' b))) := by
  unfold pathJoin segsOf
  by_cases h0 : a = []
  · subst h0
    simp only [if_true, hb, if_false, List.nil_append]
    unfold pathClean
    simp [hab]
  · simp only [h0, if_false, hb]
    have hva : validPath a = true := by
      rcases ha with e | ⟨hv, _⟩
      · exact absurd e h0
      · exact hv
    have habs : isAbs (a ++ '/' :: b) = false := by
      have := validPath_not_abs a hva
      cases a with
      | nil => exact absurd rfl h0
      | cons c r => simpa [isAbs] using this
    unfold pathClean
    simp only [habs, splitOn_append]
    simp

theorem joinSubPath_eq_joinSub (a b : Str) (ha : ValidSub a) (hb : b ≠ []) (hab : isAbs b = false) :
    joinSubPath a b = (joinSub (segsOf a) (splitOn '/' b)).map (joinWith '/') := by
  unfold joinSubPath
  simp only
  rw [pathJoin_segs a b ha hb hab]
  unfold joinSub cleanSegs
  generalize hxs : segsOf a ++ splitOn '/' b = xs
  have hnorm : Normal false (run false [] xs) := run_normal false [] xs Normal.nil
  have hmem := normal_mem _ hnorm
  have hnoslash : ∀ s ∈ run false [] xs, '/' ∉ s := by
    intro s hs
    rcases run_mem false xs [] s hs with h | h | h
    · simp at h
    · rw [← hxs] at h
      rcases List.mem_append.mp h with h | h
      · unfold segsOf at h
        split at h
        · simp at h
        · exact splitOn_noSep '/' a s h
      · exact splitOn_noSep '/' b s h
    · rw [h]; exact slash_not_mem_dotdot
  by_cases hempty : run false [] xs = []
  · simp [hempty, joinWith]
  · have hrevne : (run false [] xs).reverse ≠ [] := by simpa using hempty
    simp only [hrevne, if_false]
    have hnd : joinWith '/' (run false [] xs).reverse ≠ dot := by
      apply joinWith_ne_dot _ hrevne (fun _ _ => Or.inr trivial)
      intro s hs
      rcases hmem s (List.mem_reverse.mp hs) with hp | hp
      · exact hp.2.1
      · rw [hp]; exact dotdot_ne_dot
    simp only [hnd, if_false]
    have hsplit : splitOn '/' (joinWith '/' (run false [] xs).reverse) = (run false [] xs).reverse :=
      splitOn_joinWith '/' _ hrevne (fun s hs => hnoslash s (List.mem_reverse.mp hs))
    by_cases hdd : dotdot ∈ run false [] xs
    · have : validPath (joinWith '/' (run false [] xs).reverse) = false := by
        unfold validPath
        rw [hsplit]
        simp only [hnd, decide_false, Bool.false_or]
        apply Bool.eq_false_iff.mpr
        intro hall
        rw [List.all_eq_true] at hall
        have := hall dotdot (List.mem_reverse.mpr hdd)
        simp at this
      simp [this, hdd]
    · have : validPath (joinWith '/' (run false [] xs).reverse) = true := by
        unfold validPath
        rw [hsplit]
        simp only [hnd, decide_false, Bool.false_or, List.all_eq_true]
        intro s hs
        rcases hmem s (List.mem_reverse.mp hs) with hp | hp
        · exact (plain_iff s).mpr hp
        · exact absurd (hp ▸ List.mem_reverse.mp hs) hdd
      simp [this, hdd]

end Slug
