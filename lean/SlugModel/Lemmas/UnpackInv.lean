import SlugModel.Lemmas.PathSegs
import SlugModel.Lemmas.FSFrame
import SlugModel.Lemmas.UnpackBasic
/-!
# Lemmas/UnpackInv — the filesystem invariant is kept by every step of `Unpack`

`UInv dstP fs` (real destination, physical keys, all links under `dst` good) is preserved by one
archive entry, by the entry loop and by the deferred directory pass, and nothing outside `dst`
changes on the way (`FsFrame`).  Hypotheses: `DstOK dst`, no allow-list, tidy link targets.
-/
namespace Slug

/-- the destination is an absolute clean path other than the root -/
def DstOK (dst : Str) : Prop := isAbs dst = true ∧ pathClean dst = dst ∧ dst ≠ ['/']

instance (dst : Str) : Decidable (DstOK dst) := by unfold DstOK; infer_instance

/-- every symlink entry has a tidy target (all `..` first) -/
def TidyLinks (es : List Entry) : Prop := ∀ e ∈ es, e.isSymlink = true → Tidy e.link

instance (es : List Entry) : Decidable (TidyLinks es) := by unfold TidyLinks; infer_instance

theorem DstOK.absClean {dst : Str} (h : DstOK dst) : AbsClean dst := ⟨h.1, h.2.1⟩

theorem DstOK.segs_ne_nil {dst : Str} (h : DstOK dst) : pathSegs dst ≠ [] := by
  intro e
  have := absClean_eq_ofSegs dst h.absClean
  rw [e] at this
  exact h.2.2 (by simpa [ofSegs, joinWith] using this)

theorem absClean_aim {dstP : PPath} {path : Str} (hp : AbsClean path) (hpre : dstP <+: pathSegs path) :
    Aim dstP path := ⟨fun x hx => (absClean_segs path hp x hx).1, hpre⟩

theorem absClean_no_dotdot {path : Str} (hp : AbsClean path) : ∀ x ∈ pathSegs path, x ≠ dotdot :=
  fun x hx => (absClean_segs path hp x hx).1.2.2

/-! ## `MkdirAll` -/

theorem mkdir_spine_fails {dstP : PPath} {fs fs' : FS} (hreal : RealDir fs dstP) {path : Str}
    (hp : AbsClean path) (hsp : pathSegs path <+: dstP) {perm : Nat} {now : Int} :
    fs.mkdir path perm now ≠ .ok fs' := by
  intro h
  unfold FS.mkdir at h
  split at h
  · cases h
  · rename_i p hr
    have hpe : p = [] ++ pathSegs path :=
      resolve_spine fs dstP hreal _ _ _ _ _ (absClean_no_dotdot hp) (by simpa using hsp) hr
    rw [List.nil_append] at hpe
    subst hpe
    obtain ⟨a, b, hl⟩ := hreal _ hsp
    rw [hl] at h
    simp at h

theorem mkdirAll_step {dstP : PPath} (hd : dstP ≠ []) (now : Int) (perm : Nat) :
    ∀ (fuel : Nat) (fs : FS) (path : Str), UInv dstP fs → AbsClean path →
      (pathSegs path <+: dstP ∨ dstP <+: pathSegs path) →
      FsStep dstP fs (fs.mkdirAll now fuel path perm).1 := by
  intro fuel
  induction fuel with
  | zero => intro fs path _ _ _; simp only [FS.mkdirAll]; exact FsStep.refl _ _
  | succ fuel ih =>
    intro fs path hinv hp hcmp
    rw [FS.mkdirAll]
    split
    · exact FsStep.refl _ _
    · exact FsStep.refl _ _
    · simp only
      have hr : FsStep dstP fs (if pathDir path = path ∨ path = [] then ((fs, none) : FS × Option Errno)
          else FS.mkdirAll fs now fuel (pathDir path) perm).1 := by
        split
        · exact FsStep.refl _ _
        · apply ih fs _ hinv (pathDir_absClean path hp)
          rw [pathSegs_pathDir path hp]
          rcases hcmp with h | h
          · exact Or.inl (List.IsPrefix.trans (List.dropLast_prefix _) h)
          · rcases List.prefix_or_prefix_of_prefix h (List.dropLast_prefix (pathSegs path)) with h1 | h1
            · exact Or.inr h1
            · exact Or.inl h1
      generalize (if pathDir path = path ∨ path = [] then ((fs, none) : FS × Option Errno)
          else FS.mkdirAll fs now fuel (pathDir path) perm) = r at hr
      obtain ⟨fs1, oe⟩ := r
      cases oe with
      | some e => exact hr
      | none =>
        simp only
        have hinv1 := hinv.step hr
        cases hm : fs1.mkdir path perm now with
        | ok fs2 =>
          simp only
          rcases hcmp with h | h
          · exact absurd hm (mkdir_spine_fails hinv1.real hp h)
          · exact hr.trans (step_mkdir hd hinv1 (absClean_aim hp h) hm)
        | error e =>
          simp only
          split <;> exact hr

/-! ## the per-component `Lstat` walk -/

theorem lstatWalk_cons2 (fs : FS) (cur : Str) (c c' : Seg) (rest : List Seg) :
    lstatWalk fs cur (c :: c' :: rest) =
      (match fs.lstat (pathJoin cur c) with
        | .error .enoent => true
        | .error _ => false
        | .ok (.link _) => false
        | .ok _ => lstatWalk fs (pathJoin cur c) (c' :: rest)) := by
  rw [lstatWalk]
  · rfl
  · intro h; cases h

theorem lstat_ok {fs : FS} {path : Str} {n : Node} (h : fs.lstat path = .ok n) :
    ∃ p, fs.resolvePath path false = .ok p ∧ fs.lookup p = some n := by
  unfold FS.lstat at h
  split at h
  · cases h
  · rename_i p hp
    split at h
    · cases h
    · rename_i m hm
      cases h
      exact ⟨p, hp, hm⟩

theorem prefix_of_lt_concat {q l : PPath} {c : Seg} (h : q <+: l ++ [c]) (hne : q ≠ l ++ [c]) : q <+: l := by
  rcases List.prefix_concat_iff.mp h with e | h
  · exact absurd e hne
  · exact h

/-- If the walk accepts, no proper prefix of the walked path is a link (given that nothing at or
above the starting directory is).  Components past the first missing one are unbound because keys
are physical. -/
theorem lstatWalk_nolink {fs : FS} (hk : KeysPhysical fs) :
    ∀ (comps : List Seg) (cur : Str), AbsClean cur → (∀ c ∈ comps, NameNS c) →
      (∀ q, q <+: pathSegs cur → ∀ t, fs.get q ≠ some (.link t)) →
      lstatWalk fs cur comps = true →
      ∀ q, q <+: pathSegs cur ++ comps → q ≠ pathSegs cur ++ comps → ∀ t, fs.get q ≠ some (.link t) := by
  intro comps
  induction comps with
  | nil =>
    intro cur _ _ habove _ q hq _ t
    rw [List.append_nil] at hq
    exact habove q hq t
  | cons c rest ih =>
    intro cur hcur hns habove hw q hq hne t
    cases rest with
    | nil => exact habove q (prefix_of_lt_concat hq hne) t
    | cons c' rest' =>
      have hc : NameNS c := hns c (by simp)
      have hcur' : AbsClean (pathJoin cur c) := pathJoin_absClean cur c hcur.1
      have hsegs' : pathSegs (pathJoin cur c) = pathSegs cur ++ [c] := pathSegs_pathJoin_name cur c hcur hc
      have hnodd : ∀ x ∈ pathSegs cur ++ [c], x ≠ dotdot := by
        rw [← hsegs']; exact absClean_no_dotdot hcur'
      have hassoc : pathSegs cur ++ c :: c' :: rest' = (pathSegs cur ++ [c]) ++ c' :: rest' := by simp
      rw [lstatWalk_cons2] at hw
      split at hw
      · -- ENOENT: nothing at or below `cur/c` is bound
        rename_i hen
        intro hlink
        -- q is not above cur (else `habove`), so cur ++ [c] is a prefix of q
        have hcq : pathSegs cur ++ [c] <+: q := by
          have h2 : pathSegs cur ++ [c] <+: pathSegs cur ++ c :: c' :: rest' := by
            rw [hassoc]; exact List.prefix_append _ _
          rcases List.prefix_or_prefix_of_prefix hq h2 with h1 | h1
          · rcases List.prefix_concat_iff.mp h1 with e | h1
            · rw [e]; exact List.prefix_refl _
            · exact absurd hlink (habove q h1 t)
          · exact h1
        have hanc := keys_ancestors hk q _ hlink
        have hbound : ∃ n, fs.lookup (pathSegs cur ++ [c]) = some n := by
          by_cases he : pathSegs cur ++ [c] = q
          · rw [he, lookup_ne_nil fs q (hk q _ hlink).1]; exact ⟨_, hlink⟩
          · obtain ⟨a, b, h⟩ := hanc _ hcq he
            exact ⟨_, h⟩
        have hres := resolve_dirchain fs resolveFuel [] (pathSegs cur ++ [c]) hnodd (by
          intro a h1 h2 _ _
          rw [List.nil_append] at h1 h2
          apply hanc a (List.IsPrefix.trans h1 hcq)
          intro e; subst e
          exact h2 (List.IsPrefix.eq_of_length_le h1 (List.IsPrefix.length_le hcq)))
        rw [List.nil_append] at hres
        obtain ⟨n, hn⟩ := hbound
        unfold FS.lstat FS.resolvePath at hen
        rw [hsegs'] at hen
        rcases hres with hres | hres
        · rw [hres] at hen; simp only [hn] at hen; cases hen
        · rw [hres] at hen; cases hen
      · cases hw
      · cases hw
      · rename_i n hnl hok
        -- `cur/c` exists and is not a link: continue below it
        obtain ⟨p, hp, hlp⟩ := lstat_ok hok
        unfold FS.resolvePath at hp
        rw [hsegs'] at hp
        have hpe : p = [] ++ (pathSegs cur ++ [c]) := by
          apply resolve_nolink fs _ _ _ _ hnodd _ hp
          intro q' _ _ h3 h4 t'
          rw [List.nil_append] at h3 h4
          exact habove q' (prefix_of_lt_concat h3 h4) t'
        rw [List.nil_append] at hpe
        subst hpe
        have habove' : ∀ q, q <+: pathSegs (pathJoin cur c) → ∀ t, fs.get q ≠ some (.link t) := by
          intro q' hq' t'
          rw [hsegs'] at hq'
          rcases List.prefix_concat_iff.mp hq' with e | hq'
          · rw [e, ← lookup_ne_nil fs _ (by simp), hlp]
            intro e'; cases e'
            exact hnl t' rfl
          · exact habove q' hq' t'
        have := ih (pathJoin cur c) hcur' (fun x hx => hns x (List.mem_cons_of_mem _ hx)) habove' hw q
        rw [hsegs', ← hassoc] at this
        exact this hq hne t

/-! ## `NewUnpackInfo` -/

/-- no proper prefix of `segs` is bound to a link -/
def NoLinkAbove (fs : FS) (segs : PPath) : Prop :=
  ∀ q, q <+: segs → q ≠ segs → ∀ t, fs.get q ≠ some (.link t)

theorem realDir_nolink {fs : FS} {dstP : PPath} (hk : KeysPhysical fs) (hreal : RealDir fs dstP) :
    ∀ q, q <+: dstP → ∀ t, fs.get q ≠ some (.link t) := by
  intro q hq t hl
  have hq0 : q ≠ [] := (hk q _ hl).1
  obtain ⟨a, b, h⟩ := hreal q hq
  rw [lookup_ne_nil fs q hq0, hl] at h
  cases h

/-- What a successful `NewUnpackInfo` guarantees: the extraction path is an absolute clean path
whose components extend those of `dst`, and (the `Lstat` walk) none of its proper prefixes is a
link. -/
theorem newUnpackInfo_facts {fs : FS} {dst : Str} {e : Entry} {path : Str} (hdst : DstOK dst)
    (h : newUnpackInfo fs dst e = some path) :
    AbsClean path ∧ pathSegs dst <+: pathSegs path ∧
    (KeysPhysical fs → RealDir fs (pathSegs dst) → NoLinkAbove fs (pathSegs path)) := by
  have hdc := hdst.absClean
  have key : ∀ nm : Str,
      (if !isWithin (pathClean dst) (pathClean (pathJoin dst nm)) then none
       else match pathRel (pathClean dst) (pathClean (pathJoin dst nm)) with
        | none => none
        | some rel =>
          if !lstatWalk fs dst (splitOn '/' rel) then none
          else if !(e.isDir || e.isSymlink || e.isRegular || e.isTypeX) then none
          else some (pathJoin dst nm)) = some path →
      AbsClean path ∧ pathSegs dst <+: pathSegs path ∧
      (KeysPhysical fs → RealDir fs (pathSegs dst) → NoLinkAbove fs (pathSegs path)) := by
    intro nm h
    have hpc : AbsClean (pathJoin dst nm) := pathJoin_absClean dst nm hdc.1
    rw [hdc.2, hpc.2] at h
    split at h
    · cases h
    · rename_i hw
      split at h
      · cases h
      · rename_i rel hrel
        split at h
        · cases h
        · rename_i hwalk
          split at h
          · cases h
          · cases h
            have hw' : isWithin dst (pathJoin dst nm) = true := by simpa using hw
            have hpre := (isWithin_iff dst _ hdc hpc).mp hw'
            refine ⟨hpc, hpre, ?_⟩
            intro hk hreal
            obtain ⟨rel', hrel', _, _, hcase⟩ := pathRel_under dst _ hdc hpc hpre
            rw [hrel] at hrel'; cases hrel'
            have habove := realDir_nolink hk hreal
            rcases hcase with ⟨hs, _⟩ | ⟨hs, hns⟩
            · intro q hq _ t; rw [hs] at hq; exact habove q hq t
            · rw [hs]
              exact lstatWalk_nolink hk _ dst hdc hns habove (by simpa using hwalk)
  exact key _ h

/-! ## `validSymlink` -/

/-- with an absolute clean root, a relative link name and no allow-list, `validSymlink` is the
containment test on the lexically joined target -/
theorem validSymlink_eq (cwd dst ln t : Str) (hdst : DstOK dst) (hln : isAbs ln = false) :
    validSymlink cwd [] dst ln t =
      isWithin dst (if isAbs t then pathClean t else pathJoin (pathDir (pathJoin dst ln)) t) := by
  unfold validSymlink
  simp only [pathAbs_absClean cwd dst hdst.absClean, hln, allowedTarget_nil, Bool.false_eq_true, if_false]
  cases isWithin dst (if isAbs t = true then pathClean t else pathJoin (pathDir (pathJoin dst ln)) t) <;> rfl

/-- an accepted link target is lexically inside `dst` from the directory of the extraction path -/
theorem validSymlink_lexInside {cwd dst path ln t : Str} (hdst : DstOK dst) (hpc : AbsClean path)
    (hpre : pathSegs dst <+: pathSegs path) (hrel : pathRel dst path = some ln)
    (hv : validSymlink cwd [] dst ln t = true) :
    LexInside (pathSegs dst) (if isAbs t then [] else (pathSegs path).dropLast) (pathSegs t) := by
  have hdc := hdst.absClean
  obtain ⟨rel', hrel', habs, hjoin, _⟩ := pathRel_under dst path hdc hpc hpre
  rw [hrel] at hrel'; cases hrel'
  rw [validSymlink_eq cwd dst ln t hdst habs, hjoin] at hv
  unfold LexInside
  by_cases ht : isAbs t = true
  · simp only [ht, if_true] at hv ⊢
    have := (isWithin_iff dst _ hdc (pathClean_absClean t ht)).mp hv
    rwa [pathSegs_pathClean t ht] at this
  · simp only [ht] at hv ⊢
    have hdir := pathDir_absClean path hpc
    have := (isWithin_iff dst _ hdc (pathJoin_absClean _ t hdir.1)).mp hv
    rwa [pathSegs_pathJoin _ t hdir.1, pathSegs_pathDir path hpc] at this

/-! ## one archive entry -/

/-- every deferred directory record aims into `dst` -/
def DirsAim (dstP : PPath) (dirs : List (Str × Nat × Int)) : Prop := ∀ d ∈ dirs, Aim dstP d.1

/-- the state after some steps: invariants hold, nothing outside `dst` changed -/
structure StOK (dstP : PPath) (st st' : UState) : Prop where
  inv : UInv dstP st'.fs
  frame : FsFrame dstP st.fs st'.fs
  dirs : DirsAim dstP st'.dirs

theorem StOK.refl {dstP : PPath} {st : UState} (hinv : UInv dstP st.fs) (hdirs : DirsAim dstP st.dirs) :
    StOK dstP st st := ⟨hinv, FsFrame.refl _ _, hdirs⟩

theorem StOK.of_step {dstP : PPath} {st : UState} {fs' : FS} {dirs' : List (Str × Nat × Int)}
    (hinv : UInv dstP st.fs) (hs : FsStep dstP st.fs fs') (hdirs : DirsAim dstP dirs') :
    StOK dstP st { fs := fs', dirs := dirs' } := ⟨hinv.step hs, hs.frame, hdirs⟩

theorem StOK.trans {dstP : PPath} {a b c : UState} (h1 : StOK dstP a b) (h2 : StOK dstP b c) :
    StOK dstP a c := ⟨h2.inv, h1.frame.trans h2.frame, h2.dirs⟩

/-- the `os.Create` (+ retry after `Chmod 0600`) part of a regular entry -/
theorem created_step {dstP : PPath} (hd : dstP ≠ []) {fs1 : FS} (hinv1 : UInv dstP fs1) {path : Str}
    (ha : Aim dstP path) (body : Str) (now : Int) (priv : Bool) :
    FsStep dstP fs1
      (match fs1.create path body now priv with
        | .error .eacces =>
          (match fs1.chmod path 0o600 with
            | .ok fs' =>
              (match fs'.create path body now priv with
               | .ok f => (f, none)
               | .error e => (fs', some e))
            | .error _ => (fs1, some .eacces))
        | .error e => (fs1, some e)
        | .ok f => (f, none) : FS × Option Errno).1 := by
  split
  · split
    · rename_i fs' hc
      have h1 := step_chmod hd hinv1 ha hc
      split
      · rename_i f hf
        exact h1.trans (step_create hd (hinv1.step h1) ha hf)
      · exact h1
    · exact FsStep.refl _ _
  · exact FsStep.refl _ _
  · rename_i f hf
    exact step_create hd hinv1 ha hf

theorem noLinkAbove_between {fs : FS} {segs : PPath} (h : NoLinkAbove fs segs) : NoLinkBetween fs [] segs := by
  intro q _ _ h3 h4 t
  rw [List.nil_append] at h3 h4
  exact h q h3 h4 t

theorem unpackEntry_ok {dstP : PPath} {cwd dst : Str} {priv : Bool} {st : UState} {e : Entry}
    {body : Str} {be : Bool} (hdst : DstOK dst) (hdp : dstP = pathSegs dst)
    (hinv : UInv dstP st.fs) (hdirs : DirsAim dstP st.dirs) (htidy : e.isSymlink = true → Tidy e.link) :
    StOK dstP st (unpackEntry cwd [] priv dst st e body be).1 := by
  subst hdp
  have hd : pathSegs dst ≠ [] := hdst.segs_ne_nil
  unfold unpackEntry
  split
  · exact StOK.refl hinv hdirs
  · split
    · exact StOK.refl hinv hdirs
    · rename_i path hi
      obtain ⟨hpc, hpre, hnl⟩ := newUnpackInfo_facts hdst hi
      have haim : Aim (pathSegs dst) path := absClean_aim hpc hpre
      have hdircmp : pathSegs (pathDir path) <+: pathSegs dst ∨ pathSegs dst <+: pathSegs (pathDir path) := by
        rw [pathSegs_pathDir path hpc]
        rcases List.prefix_or_prefix_of_prefix hpre (List.dropLast_prefix (pathSegs path)) with h1 | h1
        · exact Or.inr h1
        · exact Or.inl h1
      have hm := mkdirAll_step hd nowT 0o755 (mkdirAllFuel (pathDir path)) st.fs (pathDir path) hinv
        (pathDir_absClean path hpc) hdircmp
      simp only
      split
      · -- extended header record: nothing happens
        exact StOK.refl hinv hdirs
      split
      · rename_i fs1 _ heq
        rw [heq] at hm
        exact StOK.of_step hinv hm hdirs
      · rename_i fs1 heq
        rw [heq] at hm
        simp only at hm
        have hinv1 : UInv (pathSegs dst) fs1 := hinv.step hm
        have hst1 : StOK (pathSegs dst) st { fs := fs1, dirs := st.dirs } := StOK.of_step hinv hm hdirs
        split
        · -- symlink entry
          rename_i hsym
          split
          · exact hst1
          · rename_i ln hrel
            split
            · exact hst1
            · rename_i hv
              have hv' : validSymlink cwd [] dst ln e.link = true :=
                unpackLinkOK_valid (by simpa using hv)
              split
              · exact hst1
              · rename_i fs2 hs2
                have hnl1 : NoLinkAbove fs1 (pathSegs path) := by
                  intro q h1 h2 t hl
                  exact hnl hinv.keys hinv.real q h1 h2 t (hm.links q t hl)
                have hgood : ∀ p, fs1.resolvePath path false = .ok p → fs1.lookup p = none →
                    GoodLink (pathSegs dst) p e.link := by
                  intro p hp _
                  have hpe : p = [] ++ pathSegs path :=
                    resolve_nolink fs1 _ _ _ _ (absClean_no_dotdot hpc) (noLinkAbove_between hnl1) hp
                  rw [List.nil_append] at hpe
                  subst hpe
                  exact ⟨fun x hx => (absClean_segs path hpc x hx).1, htidy hsym,
                    validSymlink_lexInside hdst hpc hpre hrel hv'⟩
                obtain ⟨hi2, hf2⟩ := inv_symlink hd hinv1 haim hgood hs2
                exact ⟨hi2, hm.frame.trans hf2, hdirs⟩
        · split
          · -- directory entry
            have hm2 := mkdirAll_step hd nowT 0o755 (mkdirAllFuel path) fs1 path hinv1 hpc (Or.inr hpre)
            split
            · rename_i fs2 _ heq2
              rw [heq2] at hm2
              exact StOK.of_step hinv (hm.trans hm2) hdirs
            · rename_i fs2 heq2
              rw [heq2] at hm2
              refine StOK.of_step hinv (hm.trans hm2) ?_
              intro d hdm
              rcases List.mem_append.mp hdm with h | h
              · exact hdirs d h
              · simp at h; subst h; exact haim
          · split
            · exact hst1
            · -- regular entry
              have hc := created_step hd hinv1 haim body nowT priv
              split
              · rename_i fs2 _ heq2
                have hc' : FsStep (pathSegs dst) fs1 fs2 := by
                  have h := congrArg Prod.fst heq2
                  simp only at h
                  rw [← h]; exact hc
                exact StOK.of_step hinv (hm.trans hc') hdirs
              · rename_i fs2 heq2
                have hc' : FsStep (pathSegs dst) fs1 fs2 := by
                  have h := congrArg Prod.fst heq2
                  simp only at h
                  rw [← h]; exact hc
                have hs2 := hm.trans hc'
                have hinv2 := hinv.step hs2
                split
                · exact StOK.of_step hinv hs2 hdirs
                · split
                  · exact StOK.of_step hinv hs2 hdirs
                  · rename_i fs3 h3
                    have hs3 := hs2.trans (step_chmod hd hinv2 haim h3)
                    split
                    · exact StOK.of_step hinv hs3 hdirs
                    · rename_i fs4 h4
                      exact StOK.of_step hinv (hs3.trans (step_chtimes hd (hinv.step hs3) haim h4)) hdirs

/-! ## the deferred directory pass -/

def chmodIgn (fs : FS) (path : Str) (mode : Nat) : FS × Bool :=
  match fs.chmod path mode with
  | .ok f => (f, true)
  | .error .enoent => (fs, true)
  | .error _ => (fs, false)

def chtimesIgn (fs : FS) (path : Str) (mtime : Int) : FS × Bool :=
  match fs.chtimes path mtime with
  | .ok f => (f, true)
  | .error .enoent => (fs, true)
  | .error _ => (fs, false)

theorem restoreDirs_cons (fs : FS) (path : Str) (mode : Nat) (mtime : Int)
    (rest : List (Str × Nat × Int)) :
    restoreDirs fs ((path, mode, mtime) :: rest) =
      if !(chmodIgn fs path mode).2 then ((chmodIgn fs path mode).1, some .ioerr)
      else if !(chtimesIgn (chmodIgn fs path mode).1 path mtime).2 then
        ((chtimesIgn (chmodIgn fs path mode).1 path mtime).1, some .ioerr)
      else restoreDirs (chtimesIgn (chmodIgn fs path mode).1 path mtime).1 rest := by
  rw [restoreDirs]; rfl

theorem chmodIgn_step {dstP : PPath} (hd : dstP ≠ []) {fs : FS} (hinv : UInv dstP fs) {path : Str}
    (ha : Aim dstP path) (mode : Nat) : FsStep dstP fs (chmodIgn fs path mode).1 := by
  unfold chmodIgn
  split
  · rename_i f hf; exact step_chmod hd hinv ha hf
  · exact FsStep.refl _ _
  · exact FsStep.refl _ _

theorem chtimesIgn_step {dstP : PPath} (hd : dstP ≠ []) {fs : FS} (hinv : UInv dstP fs) {path : Str}
    (ha : Aim dstP path) (mtime : Int) : FsStep dstP fs (chtimesIgn fs path mtime).1 := by
  unfold chtimesIgn
  split
  · rename_i f hf; exact step_chtimes hd hinv ha hf
  · exact FsStep.refl _ _
  · exact FsStep.refl _ _

theorem restoreDirs_step {dstP : PPath} (hd : dstP ≠ []) :
    ∀ (dirs : List (Str × Nat × Int)) (fs : FS), UInv dstP fs → DirsAim dstP dirs →
      FsStep dstP fs (restoreDirs fs dirs).1 := by
  intro dirs
  induction dirs with
  | nil => intro fs _ _; rw [restoreDirs]; exact FsStep.refl _ _
  | cons d rest ih =>
    intro fs hinv hdirs
    obtain ⟨path, mode, mtime⟩ := d
    have ha : Aim dstP path := hdirs (path, mode, mtime) (by simp)
    have hrest : DirsAim dstP rest := fun x hx => hdirs x (List.mem_cons_of_mem _ hx)
    rw [restoreDirs_cons]
    have h1 := chmodIgn_step hd hinv ha mode
    have h2 := chtimesIgn_step hd (hinv.step h1) ha mtime
    split
    · exact h1
    · split
      · exact h1.trans h2
      · exact (h1.trans h2).trans (ih _ (hinv.step (h1.trans h2)) hrest)

/-! ## the entry loop and `Unpack` -/

theorem unpackLoop_cons_ex (cwd : Str) (allow : List Str) (priv : Bool) (dst : Str) (fault : Fault)
    (idx : Nat) (st : UState) (e : Entry) (rest : List Entry) :
    ∃ body be, unpackLoop cwd allow priv dst fault idx st (e :: rest) =
      if fault = .header idx then (st, some .ioerr)
      else
        match unpackEntry cwd allow priv dst st e body be with
        | (st', some r) => (st', some r)
        | (st', none) => unpackLoop cwd allow priv dst fault (idx + 1) st' rest := by
  cases fault with
  | none =>
    refine ⟨e.body, false, ?_⟩
    rw [unpackLoop]
    · rfl
    · intro k n h; cases h
  | header k =>
    refine ⟨e.body, false, ?_⟩
    rw [unpackLoop]
    · rfl
    · intro k n h; cases h
  | body k n =>
    by_cases hc : k = idx ∧ e.isRegular = true
    · refine ⟨e.body.take n, true, ?_⟩
      rw [unpackLoop]
      simp only [hc, and_self, if_true]
      rfl
    · refine ⟨e.body, false, ?_⟩
      rw [unpackLoop]
      simp only [hc, if_false]
      rfl

theorem unpackLoop_ok {dstP : PPath} {cwd dst : Str} {priv : Bool} {fault : Fault}
    (hdst : DstOK dst) (hdp : dstP = pathSegs dst) :
    ∀ (es : List Entry) (idx : Nat) (st : UState), UInv dstP st.fs → DirsAim dstP st.dirs →
      TidyLinks es → StOK dstP st (unpackLoop cwd [] priv dst fault idx st es).1 := by
  intro es
  induction es with
  | nil =>
    intro idx st hinv hdirs _
    cases fault with
    | none =>
      rw [unpackLoop]
      · exact StOK.refl hinv hdirs
      · intro k h; cases h
    | body k n =>
      rw [unpackLoop]
      · exact StOK.refl hinv hdirs
      · intro k h; cases h
    | header k =>
      rw [unpackLoop]
      split <;> exact StOK.refl hinv hdirs
  | cons e rest ih =>
    intro idx st hinv hdirs htl
    obtain ⟨body, be, heq⟩ := unpackLoop_cons_ex cwd [] priv dst fault idx st e rest
    rw [heq]
    have hstep : StOK dstP st (unpackEntry cwd [] priv dst st e body be).1 :=
      unpackEntry_ok hdst hdp hinv hdirs (htl e (by simp))
    split
    · exact StOK.refl hinv hdirs
    · split
      · rename_i st' r heq'
        rw [heq'] at hstep
        exact hstep
      · rename_i st' heq'
        rw [heq'] at hstep
        exact hstep.trans (ih (idx + 1) st' hstep.inv hstep.dirs
          (fun x hx => htl x (List.mem_cons_of_mem _ hx)))

/-- **`Unpack` keeps the invariants and changes nothing outside `dst`** — whatever the result and
the reader fault. -/
theorem unpack_ok {dstP : PPath} {cwd dst : Str} {priv : Bool} {fault : Fault} {fs : FS}
    {es : List Entry} (hdst : DstOK dst) (hdp : dstP = pathSegs dst)
    (hinv : UInv dstP fs) (htl : TidyLinks es) :
    UInv dstP (unpack cwd [] priv dst fault fs es).1 ∧
    FsFrame dstP fs (unpack cwd [] priv dst fault fs es).1 := by
  have hd : dstP ≠ [] := by rw [hdp]; exact hdst.segs_ne_nil
  have hloop := unpackLoop_ok (cwd := cwd) (priv := priv) (fault := fault) hdst hdp es 0
    { fs := fs, dirs := [] } hinv (by intro d hd; cases hd) htl
  unfold unpack
  split
  · rename_i st r heq
    rw [heq] at hloop
    exact ⟨hloop.inv, hloop.frame⟩
  · rename_i st heq
    rw [heq] at hloop
    have hr := restoreDirs_step hd st.dirs st.fs hloop.inv hloop.dirs
    have hres : UInv dstP (restoreDirs st.fs st.dirs).1 ∧ FsFrame dstP fs (restoreDirs st.fs st.dirs).1 :=
      ⟨hloop.inv.step hr, hloop.frame.trans hr.frame⟩
    split
    · rename_i fs' r heq2
      rw [heq2] at hres
      exact hres
    · rename_i fs' heq2
      rw [heq2] at hres
      exact hres

/-! ## checking the hypotheses on a concrete filesystem (for closed examples) -/

def isDirB : Option Node → Bool
  | some (.dir _ _) => true
  | _ => false

theorem isDirB_iff (o : Option Node) : isDirB o = true ↔ ∃ perm mt, o = some (.dir perm mt) := by
  unfold isDirB
  split
  · rename_i a b; simp
  · rename_i h
    constructor
    · intro h'; cases h'
    · rintro ⟨a, b, rfl⟩; exact absurd rfl (h a b)

instance (s : Seg) : Decidable (Plain s) := by unfold Plain; infer_instance

instance (dstP p : PPath) (t : Str) : Decidable (GoodLink dstP p t) := by unfold GoodLink; infer_instance

/-- the binding `e` is not a link under `dstP`, or it is a good one -/
def linkOK (dstP : PPath) (e : PPath × Node) : Prop :=
  match e.2 with
  | .link t => Under dstP e.1 → GoodLink dstP e.1 t
  | _ => True

instance (dstP : PPath) (e : PPath × Node) : Decidable (linkOK dstP e) := by
  unfold linkOK; split <;> infer_instance

/-- decidable form of `RealDir ∧ KeysPhysical ∧ AllGood` (checks shadowed bindings too) -/
def FsCheck (fs : FS) (dstP : PPath) : Prop :=
  (∀ k, k < dstP.length + 1 → isDirB (fs.lookup (dstP.take k)) = true) ∧
  (∀ e ∈ fs, e.1 ≠ [] ∧ isDirB (fs.lookup e.1.dropLast) = true) ∧
  (∀ e ∈ fs, linkOK dstP e)

instance (fs : FS) (dstP : PPath) : Decidable (FsCheck fs dstP) := by unfold FsCheck; infer_instance

theorem get_mem {fs : FS} {p : PPath} {n : Node} (h : fs.get p = some n) : (p, n) ∈ fs := by
  induction fs with
  | nil => simp [FS.get] at h
  | cons x r ih =>
    obtain ⟨q, m⟩ := x
    unfold FS.get at h
    split at h
    · rename_i hq; cases h; subst hq; simp
    · exact List.mem_cons_of_mem _ (ih h)

theorem realDir_of_check {fs : FS} {dstP : PPath}
    (h1 : ∀ k, k < dstP.length + 1 → isDirB (fs.lookup (dstP.take k)) = true) : RealDir fs dstP := by
  intro q hq
  have hlen := List.IsPrefix.length_le hq
  have := h1 q.length (by omega)
  rw [← List.prefix_iff_eq_take.mp hq] at this
  exact (isDirB_iff _).mp this

theorem keysPhysical_of_check {fs : FS}
    (h2 : ∀ e ∈ fs, e.1 ≠ [] ∧ isDirB (fs.lookup e.1.dropLast) = true) : KeysPhysical fs := by
  intro p n hp
  obtain ⟨a, b⟩ := h2 (p, n) (get_mem hp)
  exact ⟨a, (isDirB_iff _).mp b⟩

theorem fsCheck_sound {fs : FS} {dstP : PPath} (h : FsCheck fs dstP) :
    RealDir fs dstP ∧ KeysPhysical fs ∧ AllGood fs dstP := by
  obtain ⟨h1, h2, h3⟩ := h
  refine ⟨realDir_of_check h1, keysPhysical_of_check h2, ?_⟩
  intro p t hp hu
  have := h3 (p, .link t) (get_mem hp)
  exact this hu

theorem fsCheck_inv {fs : FS} {dstP : PPath} (h : FsCheck fs dstP) : UInv dstP fs :=
  let ⟨a, b, c⟩ := fsCheck_sound h
  ⟨a, b, c⟩

/-! ## shared closed examples: a destination `/t/dst` inside `/t` -/

def cexFs0 : FS :=
  [(["t","dst"].map String.toList, .dir 0o755 0), (["t"].map String.toList, .dir 0o755 0)]
def cexDst : Str := "/t/dst".toList
def cexCwd : Str := "/".toList
def cexDstP : PPath := ["t","dst"].map String.toList
def cexTP : PPath := ["t"].map String.toList

def cexLink (name target : String) : Entry :=
  { name := name.toList, typ := tSymlink, mode := 0o777, mtime := 0, link := target.toList, body := [] }
def cexReg (name body : String) (mode : Nat) (mtime : Int) : Entry :=
  { name := name.toList, typ := tReg, mode := mode, mtime := mtime, link := [], body := body.toList }
def cexDir (name : String) (mode : Nat) (mtime : Int) : Entry :=
  { name := name.toList, typ := tDir, mode := mode, mtime := mtime, link := [], body := [] }

/-- a directory, a file in it, and a link to the file -/
def cexEsGood : List Entry :=
  [cexDir "d" 0o755 5, cexReg "d/a" "hi" 0o644 7, cexLink "l" "d/a"]

/-- what `Unpack` makes of `cexEsGood` in the empty destination -/
def cexGoodFS : FS :=
  [(["t","dst","d"].map String.toList, .dir 0o755 5),
   (["t","dst","d"].map String.toList, .dir 0o755 (-1)),
   (["t","dst","l"].map String.toList, .link "d/a".toList),
   (["t","dst"].map String.toList, .dir 0o755 (-1)),
   (["t","dst","d","a"].map String.toList, .file 0o644 7 "hi".toList),
   (["t","dst","d","a"].map String.toList, .file 0o644 (-1) "hi".toList),
   (["t","dst","d","a"].map String.toList, .file 0o644 (-1) "hi".toList),
   (["t","dst","d"].map String.toList, .dir 0o755 (-1)),
   (["t","dst","d"].map String.toList, .dir 0o755 (-1)),
   (["t","dst"].map String.toList, .dir 0o755 (-1)),
   (["t","dst"].map String.toList, .dir 0o755 0),
   (["t"].map String.toList, .dir 0o755 0)]

theorem cex_good_run :
    unpack cexCwd [] true cexDst .none cexFs0 cexEsGood = (cexGoodFS, .ok) := by
  decide

theorem cex_dstP : pathSegs cexDst = cexDstP := by decide

theorem cex_hyps : DstOK cexDst ∧ FsCheck cexFs0 cexDstP ∧ TidyLinks cexEsGood := by decide

/-- the hypotheses also hold for a non-empty destination that contains a link -/
theorem cex_hyps_good : FsCheck cexGoodFS cexDstP := by decide

end Slug
