import SlugModel.Base.Str
/-! Helper lemmas about `splitOn` / `joinWith`. -/
namespace Slug

theorem splitOn_nil (c : Char) : splitOn c [] = [[]] := rfl

theorem splitOn_cons_sep (c : Char) (xs : Str) : splitOn c (c :: xs) = [] :: splitOn c xs := by
  simp [splitOn]

theorem splitOn_cons_ne (c x : Char) (xs : Str) (h : x ≠ c) :
    splitOn c (x :: xs) = ((x :: (splitOn c xs).headD []) :: (splitOn c xs).tail) := by
  have hne := splitOn_ne_nil c xs
  rw [splitOn]
  simp only [h, if_false]
  cases hs : splitOn c xs with
  | nil => exact absurd hs hne
  | cons s r => simp

/-- no piece produced by `splitOn c` contains `c` -/
theorem splitOn_noSep (c : Char) (s : Str) : ∀ x ∈ splitOn c s, c ∉ x := by
  induction s with
  | nil => intro x hx; simp [splitOn] at hx; subst hx; simp
  | cons y ys ih =>
    intro x hx
    by_cases hy : y = c
    · subst hy
      rw [splitOn_cons_sep] at hx
      rcases List.mem_cons.mp hx with rfl | hx
      · simp
      · exact ih x hx
    · have hne := splitOn_ne_nil c ys
      rw [splitOn_cons_ne c y ys hy] at hx
      cases hs : splitOn c ys with
      | nil => exact absurd hs hne
      | cons s r =>
        rw [hs] at hx ih
        simp only [List.headD_cons, List.tail_cons, List.mem_cons] at hx
        rcases hx with rfl | hx
        · intro hm
          rcases List.mem_cons.mp hm with e | hm
          · exact hy e.symm
          · exact ih s (by simp) hm
        · exact ih x (by simp [hx])

/-- splitting a concatenation at an explicit separator -/
theorem splitOn_append (c : Char) (a b : Str) :
    splitOn c (a ++ c :: b) = splitOn c a ++ splitOn c b := by
  induction a with
  | nil => simp [splitOn]
  | cons y ys ih =>
    by_cases hy : y = c
    · subst hy
      simp only [List.cons_append, splitOn_cons_sep, ih]
    · have h1 := splitOn_cons_ne c y (ys ++ c :: b) hy
      have h2 := splitOn_cons_ne c y ys hy
      simp only [List.cons_append]
      rw [h1, h2, ih]
      have hne := splitOn_ne_nil c ys
      cases hs : splitOn c ys with
      | nil => exact absurd hs hne
      | cons s r => simp

theorem joinWith_cons_cons (c : Char) (s t : Str) (r : List Str) :
    joinWith c (s :: t :: r) = s ++ c :: joinWith c (t :: r) := rfl

theorem splitOn_of_noSep (c : Char) (s : Str) (h : c ∉ s) : splitOn c s = [s] := by
  induction s with
  | nil => rfl
  | cons y ys ih =>
    have hy : y ≠ c := fun e => h (by simp [e])
    have hys : c ∉ ys := fun hm => h (List.mem_cons_of_mem _ hm)
    rw [splitOn_cons_ne c y ys hy, ih hys]
    simp

/-- `Split (Join xs) = xs` when no element contains the separator -/
theorem splitOn_joinWith (c : Char) (xs : List Str) (hne : xs ≠ [])
    (h : ∀ x ∈ xs, c ∉ x) : splitOn c (joinWith c xs) = xs := by
  induction xs with
  | nil => exact absurd rfl hne
  | cons s r ih =>
    cases r with
    | nil => simp [joinWith]; exact splitOn_of_noSep c s (h s (by simp))
    | cons t r' =>
      rw [joinWith_cons_cons, splitOn_append, splitOn_of_noSep c s (h s (by simp)),
        ih (by simp) (fun x hx => h x (List.mem_cons_of_mem _ hx))]
      simp

/-- `Join (Split s) = s` -/
theorem joinWith_splitOn (c : Char) (s : Str) : joinWith c (splitOn c s) = s := by
  induction s with
  | nil => rfl
  | cons y ys ih =>
    by_cases hy : y = c
    · subst hy
      rw [splitOn_cons_sep]
      have hne := splitOn_ne_nil y ys
      cases hs : splitOn y ys with
      | nil => exact absurd hs hne
      | cons s r => rw [joinWith_cons_cons, ← hs, ih]; simp
    · rw [splitOn_cons_ne c y ys hy]
      have hne := splitOn_ne_nil c ys
      cases hs : splitOn c ys with
      | nil => exact absurd hs hne
      | cons s r =>
        rw [hs] at ih
        simp only [List.headD_cons, List.tail_cons]
        cases r with
        | nil => simp [joinWith] at ih ⊢; exact ih
        | cons t r' =>
          rw [joinWith_cons_cons] at ih ⊢
          simp [← ih]

end Slug
