import SlugModel.Spec.Policy
import SlugModel.Lemmas.Local
/-!
# Lemmas/Remote — what each stage of `ParseRemoteSource` / `MakeRemoteSource` guarantees

The statements are about the model as parameterised by the extracted tables (`Generated.*`);
the proofs evaluate the tables (`simp [Generated.…]` / `decide`), so they are re-checked against
whatever the extractor finds in the Go source.
-/
namespace Slug

/-! ## `normaliseRaw` only touches the raw spellings -/

theorem normaliseRaw_fields (u : UrlRec) :
    (normaliseRaw u).scheme = u.scheme ∧ (normaliseRaw u).hasUser = u.hasUser ∧
    (normaliseRaw u).query = u.query ∧ (normaliseRaw u).escapedPath = u.escapedPath ∧
    (normaliseRaw u).rawQuery = u.rawQuery ∧ (normaliseRaw u).tgzQuery = u.tgzQuery ∧
    (normaliseRaw u).host = u.host ∧ (normaliseRaw u).path = u.path := by
  unfold normaliseRaw
  dsimp only
  split <;> split <;> simp

/-! ## the two `PrepareURL` methods -/

theorem prepareGit_some (u u' : UrlRec) (h : prepareGit u = some u') :
    u' = u ∧ (u.scheme = "https".toList ∨ u.scheme = "ssh".toList) ∧
    ∀ kv ∈ u.query, kv.1 = "ref".toList ∧ kv.2.length ≤ 1 := by
  unfold prepareGit at h
  split at h
  · cases h
  · rename_i hs
    split at h
    · cases h
    · rename_i hq
      cases h
      refine ⟨rfl, ?_, ?_⟩
      · simp [Generated.gitSchemes] at hs
        by_cases h1 : u.scheme = "ssh".toList
        · exact Or.inr h1
        · exact Or.inl (hs h1)
      · intro kv hkv
        simp only [Bool.not_eq_true, List.any_eq_false] at hq
        have := hq kv hkv
        simp [Generated.gitQueryKeys] at this
        exact ⟨this.1, this.2⟩

theorem prepareHttp_some (u u' : UrlRec) (h : prepareHttp u = some u') :
    u.scheme = "https".toList ∧ lookupQ u.query "checksum".toList = [] ∧
    ((lookupQ u.query "archive".toList = [] ∧ u' = u ∧
        (hasSuffix u.escapedPath ".tar.gz".toList = true ∨
         hasSuffix u.escapedPath ".tgz".toList = true)) ∨
     (∃ v, lookupQ u.query "archive".toList = [v] ∧ (v = "tar.gz".toList ∨ v = "tgz".toList) ∧
        u' = { u with rawQuery := u.tgzQuery })) := by
  unfold prepareHttp at h
  split at h
  · cases h
  · split at h
    · cases h
    · rename_i hs2
      simp only [ne_eq, Decidable.not_not] at hs2
      refine ⟨hs2, ?_⟩
      simp only at h
      generalize hA : lookupQ u.query "archive".toList = arch at h
      generalize hC : lookupQ u.query "checksum".toList = chk at h
      cases arch with
      | nil =>
        simp only [List.length_nil, Nat.lt_irrefl, if_false] at h
        by_cases hsuf : (Generated.httpSuffixes.any fun s => hasSuffix u.escapedPath s.toList) = true
        · simp only [hsuf, if_true] at h
          by_cases hc : chk.length ≠ 0
          · simp [hc] at h
          · simp only [hc, if_false, Option.some.injEq] at h
            simp only [ne_eq, Decidable.not_not, List.length_eq_zero_iff] at hc
            refine ⟨hc, Or.inl ⟨rfl, h.symm, ?_⟩⟩
            simpa [Generated.httpSuffixes] using hsuf
        · simp [hsuf] at h
      | cons v vs =>
        cases vs with
        | cons w ws => simp at h
        | nil =>
          simp only [List.length_cons, List.length_nil, Nat.zero_add, Nat.lt_irrefl, if_false,
            Nat.lt_add_one, if_true, List.headD_cons] at h
          cases hb : (List.map String.toList Generated.httpArchiveValues).contains v with
          | false => simp only [hb, Bool.not_false, if_true] at h; cases h
          | true =>
            simp only [hb, Bool.not_true, Bool.false_eq_true, if_false] at h
            by_cases hc : chk.length ≠ 0
            · simp [hc] at h
            · simp only [hc, if_false, Option.some.injEq] at h
              simp only [ne_eq, Decidable.not_not, List.length_eq_zero_iff] at hc
              refine ⟨hc, Or.inr ⟨v, rfl, ?_, h.symm⟩⟩
              have : v = "tar.gz".toList ∨ v = "tgz".toList := by
                simp [Generated.httpArchiveValues] at hb
                rcases hb with e | e
                · exact Or.inl e
                · exact Or.inr e
              exact this

/-! ## `makeRemoteSource` -/

/-- the transport clauses of the policy (everything except the sub-path) hold of whatever
`makeRemoteSource` returns; user information and sub-path are passed through -/
theorem makeRemoteCore_some (t : Str) (u : UrlRec) (sub : Str) (a : RemoteAddr)
    (h : makeRemoteCore t u sub = some a) :
    (ValidSub sub → Policy a) ∧ a.url.hasUser = u.hasUser ∧ a.subPath = sub ∧ a.sourceType = t := by
  unfold makeRemoteCore at h
  split at h
  · cases h
  · rename_i nm impl hfind
    simp only at h
    split at h
    · cases h
    · rename_i u' hprep
      cases h
      obtain ⟨hsch, huser, hq, hep, hrq, htq, _, _⟩ := normaliseRaw_fields u'
      -- which table row was found
      simp only [Generated.sourceTypes, List.find?] at hfind
      have hrow : (t = "git".toList ∧ impl = "gitSourceType") ∨
          ((t = "http".toList ∨ t = "https".toList) ∧ impl = "httpSourceType") := by
        split at hfind
        · rename_i h1; cases hfind; exact Or.inl ⟨(of_decide_eq_true h1).symm, rfl⟩
        · split at hfind
          · rename_i h1; cases hfind; exact Or.inr ⟨Or.inl (of_decide_eq_true h1).symm, rfl⟩
          · split at hfind
            · rename_i h1; cases hfind; exact Or.inr ⟨Or.inr (of_decide_eq_true h1).symm, rfl⟩
            · cases hfind
      rcases hrow with ⟨ht, himpl⟩ | ⟨ht, himpl⟩
      · subst himpl
        simp only [if_true] at hprep
        obtain ⟨rfl, hs, hqk⟩ := prepareGit_some u u' hprep
        have hnotArch : ¬ IsArchive { sourceType := t, url := normaliseRaw u', subPath := sub } := by
          subst ht; unfold IsArchive; simp
        refine ⟨fun hsub => ?_, huser, rfl, rfl⟩
        exact {
          type_ok := Or.inl ht
          git_scheme := fun _ => by simp only [hsch]; exact hs
          archive_scheme := fun h => absurd h hnotArch
          git_query := fun _ => by simp only [hq]; exact hqk
          no_checksum := fun h => absurd h hnotArch
          archive_kind := fun h => absurd h hnotArch
          sub_ok := hsub
          archive_stored := fun h => absurd h hnotArch }
      · subst himpl
        simp only [show ("httpSourceType" = "gitSourceType") = False by decide, if_false] at hprep
        obtain ⟨hs, hchk, hkind⟩ := prepareHttp_some u u' hprep
        have hnotGit : ¬ IsGit { sourceType := t, url := normaliseRaw u', subPath := sub } := by
          unfold IsGit; rcases ht with rfl | rfl <;> simp
        have hu'q : u'.query = u.query := by
          rcases hkind with ⟨_, e, _⟩ | ⟨_, _, _, e⟩ <;> rw [e]
        have hu's : u'.scheme = u.scheme := by
          rcases hkind with ⟨_, e, _⟩ | ⟨_, _, _, e⟩ <;> rw [e]
        have hu'u : u'.hasUser = u.hasUser := by
          rcases hkind with ⟨_, e, _⟩ | ⟨_, _, _, e⟩ <;> rw [e]
        refine ⟨fun hsub => ?_, by rw [huser, hu'u], rfl, rfl⟩
        exact {
          type_ok := Or.inr ht
          git_scheme := fun h => absurd h hnotGit
          archive_scheme := fun _ => by simp only [hsch, hu's]; exact hs
          git_query := fun h => absurd h hnotGit
          no_checksum := fun _ => by
            simp only [hq, hu'q, valuesOf_eq_lookupQ]; exact hchk
          archive_kind := fun _ => by
            simp only [hq, hu'q, hep, valuesOf_eq_lookupQ]
            rcases hkind with ⟨ha, e, hsuf⟩ | ⟨v, ha, hv, e⟩
            · left; subst e; exact ⟨ha, hsuf⟩
            · right; subst e; exact ⟨v, ha, hv⟩
          sub_ok := hsub
          archive_stored := fun _ => by
            simp only [hq, hu'q, hrq, htq, valuesOf_eq_lookupQ]
            rcases hkind with ⟨ha, _, _⟩ | ⟨v, _, _, e⟩
            · intro hne; exact absurd ha hne
            · intro _; subst e; rfl }

/-! ## `ParseRemoteSource` after the front end -/

theorem parseRemoteWith_some (ty sub : Str) (p : Option UrlRec) (a : RemoteAddr)
    (h : parseRemoteWith ty sub p = some a) :
    ∃ u t, p = some u ∧ u.hasUser = false ∧ u.scheme ≠ [] ∧ u.queryErr = false ∧
      makeRemoteCore t { u with scheme := toLowerAscii u.scheme } sub = some a := by
  unfold parseRemoteWith at h
  split at h
  · cases h
  · rename_i u
    split at h
    · cases h
    · rename_i hsch
      split at h
      · cases h
      · rename_i huser
        simp only at h
        split at h
        · cases h
        · rename_i t _
          split at h
          · cases h
          · rename_i hqe
            exact ⟨u, t, rfl, by simpa using huser, hsch, by simpa using hqe, h⟩

/-- the front end only hands out normalised sub-paths -/
theorem remoteFront_sub (given ty pkgRaw sub : Str) (h : remoteFront given = .url ty pkgRaw sub) :
    ValidSub sub := by
  unfold remoteFront at h
  split at h
  · cases h
  · simp only at h
    split at h
    · cases h
    · rename_i sub' hn
      have hv := normalizeSubpath_some _ _ hn
      split at h
      · cases h; rw [hv.1]; exact hv.2
      · cases h; rw [hv.1]; exact hv.2

/-! ## completeness: what follows the grammar is accepted -/

theorem prepareGit_complete (u : UrlRec)
    (hs : u.scheme = "https".toList ∨ u.scheme = "ssh".toList)
    (hq : ∀ kv ∈ u.query, kv.1 = "ref".toList ∧ kv.2.length ≤ 1) : prepareGit u = some u := by
  unfold prepareGit
  have h1 : (Generated.gitSchemes.map String.toList).contains u.scheme = true := by
    rcases hs with e | e <;> rw [e] <;> decide
  have h2 : u.query.any (fun kv =>
      !(Generated.gitQueryKeys.map String.toList).contains kv.1 || decide (kv.2.length > 1)) = false := by
    rw [List.any_eq_false]
    intro kv hkv
    obtain ⟨e1, e2⟩ := hq kv hkv
    have : (Generated.gitQueryKeys.map String.toList).contains kv.1 = true := by rw [e1]; decide
    simp only [this, Bool.not_true, Bool.false_or]
    simp only [decide_eq_true_eq]; omega
  simp only [h1, Bool.not_true, Bool.false_eq_true, if_false, h2]

theorem prepareHttp_complete_suffix (u : UrlRec) (hs : u.scheme = "https".toList)
    (hc : lookupQ u.query "checksum".toList = []) (ha : lookupQ u.query "archive".toList = [])
    (hsuf : hasSuffix u.escapedPath ".tar.gz".toList = true ∨
      hasSuffix u.escapedPath ".tgz".toList = true) : prepareHttp u = some u := by
  unfold prepareHttp
  have h1 : ¬ u.scheme = "http".toList := by rw [hs]; decide
  have h3 : Generated.httpSuffixes.any (fun s => hasSuffix u.escapedPath s.toList) = true := by
    simp only [Generated.httpSuffixes, List.any_cons, List.any_nil, Bool.or_false, Bool.or_eq_true]
    exact hsuf
  have h2 : (u.scheme ≠ "https".toList) = False := by simp [hs]
  simp only [h1, h2, if_false, ha, hc, List.length_nil, Nat.lt_irrefl, h3, if_true, ne_eq,
    not_true_eq_false]

theorem prepareHttp_complete_archive (u : UrlRec) (v : Str) (hs : u.scheme = "https".toList)
    (hc : lookupQ u.query "checksum".toList = []) (ha : lookupQ u.query "archive".toList = [v])
    (hv : v = "tar.gz".toList ∨ v = "tgz".toList) :
    prepareHttp u = some { u with rawQuery := u.tgzQuery } := by
  unfold prepareHttp
  have h1 : ¬ u.scheme = "http".toList := by rw [hs]; decide
  have h3 : (Generated.httpArchiveValues.map String.toList).contains v = true := by
    rcases hv with e | e <;> rw [e] <;> decide
  have h2 : (u.scheme ≠ "https".toList) = False := by simp [hs]
  simp only [h1, h2, ne_eq, not_true_eq_false, if_false, ha, hc, List.length_nil, Nat.lt_irrefl,
    List.length_cons, Nat.zero_add, Nat.lt_add_one, if_true, List.headD_cons, h3, Bool.not_true,
    Bool.false_eq_true]

theorem makeRemoteCore_git (u : UrlRec) (sub : Str)
    (hs : u.scheme = "https".toList ∨ u.scheme = "ssh".toList)
    (hq : ∀ kv ∈ u.query, kv.1 = "ref".toList ∧ kv.2.length ≤ 1) :
    makeRemoteCore "git".toList u sub =
      some { sourceType := "git".toList, url := normaliseRaw u, subPath := sub } := by
  unfold makeRemoteCore
  have hf : Generated.sourceTypes.find? (·.1.toList = "git".toList) = some ("git", "gitSourceType") := by
    decide
  simp only [hf, if_true]
  rw [prepareGit_complete u hs hq]

theorem makeRemoteCore_http (ty : Str) (u u' : UrlRec) (sub : Str)
    (ht : ty = "http".toList ∨ ty = "https".toList) (hp : prepareHttp u = some u') :
    makeRemoteCore ty u sub = some { sourceType := ty, url := normaliseRaw u', subPath := sub } := by
  unfold makeRemoteCore
  have hf : ∃ nm, Generated.sourceTypes.find? (·.1.toList = ty) = some (nm, "httpSourceType") := by
    rcases ht with rfl | rfl
    · exact ⟨"http", by decide⟩
    · exact ⟨"https", by decide⟩
  obtain ⟨nm, hf⟩ := hf
  simp only [hf, show ("httpSourceType" = "gitSourceType") = False by decide, if_false, hp]

/-- whatever follows the documented grammar is accepted by `makeRemoteSource` -/
theorem makeRemoteCore_complete (ty : Str) (u : UrlRec) (sub : Str)
    (g : Grammar { sourceType := ty, url := u, subPath := sub }) :
    ∃ u', makeRemoteCore ty u sub = some { sourceType := ty, url := normaliseRaw u', subPath := sub } ∧
      (u' = u ∨ u' = { u with rawQuery := u.tgzQuery }) := by
  rcases g.type_ok with hg | ha
  · have ht : ty = "git".toList := hg
    subst ht
    exact ⟨u, makeRemoteCore_git u sub (g.git_scheme hg) (g.git_query hg), Or.inl rfl⟩
  · have hs : u.scheme = "https".toList := g.archive_scheme ha
    have hc : lookupQ u.query "checksum".toList = [] := by
      rw [← valuesOf_eq_lookupQ]; exact g.no_checksum ha
    rcases g.archive_kind ha with ⟨h0, hsuf⟩ | ⟨v, hv, hvv⟩
    · exact ⟨u, makeRemoteCore_http ty u u sub ha
        (prepareHttp_complete_suffix u hs hc (by rw [← valuesOf_eq_lookupQ]; exact h0) hsuf), Or.inl rfl⟩
    · exact ⟨_, makeRemoteCore_http ty u _ sub ha
        (prepareHttp_complete_archive u v hs hc (by rw [← valuesOf_eq_lookupQ]; exact hv) hvv), Or.inr rfl⟩

/-- `ParseRemoteSource` after the front end, for a URL whose scheme is already lower-case -/
theorem parseRemoteWith_lowerScheme (p sub : Str) (u : UrlRec) (hne : u.scheme ≠ [])
    (hlow : toLowerAscii u.scheme = u.scheme) (huser : u.hasUser = false) (hqe : u.queryErr = false) :
    parseRemoteWith p sub (some u) =
      (if toLowerAscii p = [] then makeRemoteCore u.scheme u sub
       else if toLowerAscii p = u.scheme then none
       else makeRemoteCore (toLowerAscii p) u sub) := by
  rcases u with ⟨scheme, opaq, hasUser, host, path, rawPath, forceQuery, rawQuery, fragment,
    rawFragment, query, queryErr, escapedPath, escapedFragment, tgzQuery⟩
  simp only at hne hlow huser hqe
  subst huser hqe
  unfold parseRemoteWith
  simp only [hne, if_false, Bool.false_eq_true, hlow]
  by_cases h1 : toLowerAscii p = []
  · simp only [h1, if_true]
  · by_cases h2 : toLowerAscii p = scheme
    · simp only [h2, hne, if_false, if_true]
    · simp only [h1, h2, if_false]

/-! ## ASCII lower-casing -/
def lowerChar (c : Char) : Char := if 'A' ≤ c ∧ c ≤ 'Z' then Char.ofNat (c.toNat + 32) else c
theorem toLowerAscii_eq_map (s : Str) : toLowerAscii s = s.map lowerChar := rfl

theorem lowerChar_table : ∀ n : Fin 26, lowerChar (lowerChar (Char.ofNat (65 + n.val))) = lowerChar (Char.ofNat (65 + n.val)) := by
  decide

theorem lowerChar_idem (c : Char) : lowerChar (lowerChar c) = lowerChar c := by
  by_cases h : 'A' ≤ c ∧ c ≤ 'Z'
  · have h1 : 65 ≤ c.toNat ∧ c.toNat ≤ 90 := by
      obtain ⟨a, b⟩ := h
      rw [Char.le_def] at a b
      exact ⟨a, b⟩
    have e : c = Char.ofNat (65 + (c.toNat - 65)) := by
      rw [show 65 + (c.toNat - 65) = c.toNat by omega, Char.ofNat_toNat]
    have := lowerChar_table ⟨c.toNat - 65, by omega⟩
    simp only at this
    rw [← e] at this
    exact this
  · have : lowerChar c = c := by simp [lowerChar, h]
    rw [this, this]

theorem toLowerAscii_idem (s : Str) : toLowerAscii (toLowerAscii s) = toLowerAscii s := by
  simp only [toLowerAscii_eq_map, List.map_map]
  apply List.map_congr_left
  intro c _
  exact lowerChar_idem c

theorem toLowerAscii_eq_nil (s : Str) : toLowerAscii s = [] ↔ s = [] := by
  simp [toLowerAscii]
/-! ## the front end: host shorthands -/

/-- the two shorthand hosts -/
def IsShortHost (host : Str) : Prop := host = "github.com".toList ∨ host = "gitlab.com".toList

/-- characters that may not occur in the organisation / repository part of a shorthand -/
def ShortPart (s : Str) : Prop := s ≠ [] ∧ '/' ∉ s ∧ '?' ∉ s ∧ '\n' ∉ s

theorem shortHost_noSlash (host : Str) (h : IsShortHost host) : '/' ∉ host ∧ '?' ∉ host ∧ '\n' ∉ host := by
  rcases h with rfl | rfl <;> decide

theorem splitOn_short3 (host org repo : Str) (hh : IsShortHost host) (ho : ShortPart org)
    (hr : ShortPart repo) :
    splitOn '/' (host ++ '/' :: (org ++ '/' :: repo)) = [host, org, repo] := by
  rw [splitOn_append, splitOn_append, splitOn_of_noSep '/' host (shortHost_noSlash host hh).1,
    splitOn_of_noSep '/' org ho.2.1, splitOn_of_noSep '/' repo hr.2.1]
  rfl

theorem splitOn_short4 (host org repo sub : Str) (hh : IsShortHost host) (ho : ShortPart org)
    (hr : ShortPart repo) :
    splitOn '/' (host ++ '/' :: (org ++ '/' :: (repo ++ '/' :: sub))) =
      host :: org :: repo :: splitOn '/' sub := by
  rw [splitOn_append, splitOn_append, splitOn_append,
    splitOn_of_noSep '/' host (shortHost_noSlash host hh).1,
    splitOn_of_noSep '/' org ho.2.1, splitOn_of_noSep '/' repo hr.2.1]
  rfl

/-- `.git` is appended unless the URL already ends in `git` -/
def withDotGit (url0 : Str) : Str := if hasSuffix url0 "git".toList then url0 else url0 ++ ".git".toList

theorem shorthand_other (host rest : Str) (hh : IsShortHost host) (pre : String)
    (hp : pre ∈ Generated.shorthandPrefixes) (hne : pre.toList ≠ host ++ ['/']) :
    shorthand pre.toList (host ++ '/' :: rest) = none := by
  unfold shorthand
  have : hasPrefix (host ++ '/' :: rest) pre.toList = false := by
    simp only [Generated.shorthandPrefixes, List.mem_cons, List.not_mem_nil, or_false] at hp
    rcases hh with rfl | rfl <;> rcases hp with rfl | rfl <;>
      first
        | exact absurd rfl hne
        | simp [hasPrefix, List.isPrefixOf]
  simp [this]

theorem shorthand_hit3 (host org repo : Str) (hh : IsShortHost host) (ho : ShortPart org)
    (hr : ShortPart repo) :
    shorthand (host ++ ['/']) (host ++ '/' :: (org ++ '/' :: repo)) =
      some (some ("git::".toList ++ withDotGit ("https://".toList ++ (host ++ '/' :: (org ++ '/' :: repo))))) := by
  unfold shorthand
  have h1 : hasPrefix (host ++ '/' :: (org ++ '/' :: repo)) (host ++ ['/']) = true := by
    unfold hasPrefix
    rw [List.isPrefixOf_iff_prefix]
    exact ⟨org ++ '/' :: repo, by simp⟩
  simp only [h1, Bool.not_true, Bool.false_eq_true, if_false, splitOn_short3 host org repo hh ho hr]
  have e1 : [host, org, repo].length = 3 := rfl
  have e2 : List.take 3 [host, org, repo] = [host, org, repo] := rfl
  have e3 : joinWith '/' [host, org, repo] = host ++ '/' :: (org ++ '/' :: repo) := rfl
  simp only [e1, Nat.lt_irrefl, if_false, e2, e3, gt_iff_lt]
  rfl

theorem shorthand_hit4 (host org repo sub : Str) (hh : IsShortHost host) (ho : ShortPart org)
    (hr : ShortPart repo) :
    shorthand (host ++ ['/']) (host ++ '/' :: (org ++ '/' :: (repo ++ '/' :: sub))) =
      some (some ("git::".toList ++ (withDotGit ("https://".toList ++ (host ++ '/' :: (org ++ '/' :: repo)))
        ++ '/' :: '/' :: sub))) := by
  unfold shorthand
  have h1 : hasPrefix (host ++ '/' :: (org ++ '/' :: (repo ++ '/' :: sub))) (host ++ ['/']) = true := by
    unfold hasPrefix
    rw [List.isPrefixOf_iff_prefix]
    exact ⟨org ++ '/' :: (repo ++ '/' :: sub), by simp⟩
  have hlen : (splitOn '/' sub).length > 0 := List.length_pos_iff.mpr (splitOn_ne_nil '/' sub)
  simp only [h1, Bool.not_true, Bool.false_eq_true, if_false, splitOn_short4 host org repo sub hh ho hr]
  have h3 : ¬ (host :: org :: repo :: splitOn '/' sub).length < 3 := by
    simp only [List.length_cons]; omega
  have h4 : (host :: org :: repo :: splitOn '/' sub).length > 3 := by
    simp only [List.length_cons]; omega
  have e2 : List.take 3 (host :: org :: repo :: splitOn '/' sub) = [host, org, repo] := rfl
  have e2' : List.drop 3 (host :: org :: repo :: splitOn '/' sub) = splitOn '/' sub := rfl
  have e3 : joinWith '/' [host, org, repo] = host ++ '/' :: (org ++ '/' :: repo) := rfl
  simp only [h3, h4, if_false, if_true, e2, e2', e3, joinWith_splitOn]
  have e4 : "//".toList = ['/', '/'] := rfl
  rw [e4]
  unfold withDotGit
  simp only [List.append_assoc, List.cons_append, List.nil_append]


theorem expandShorthands_short (host rest r : Str) (hh : IsShortHost host)
    (hit : shorthand (host ++ ['/']) (host ++ '/' :: rest) = some (some r)) :
    expandShorthands (host ++ '/' :: rest) = some r := by
  unfold expandShorthands
  simp only [Generated.shorthandPrefixes, List.foldl]
  rcases hh with rfl | rfl
  · have e1 : "github.com/".toList = "github.com".toList ++ ['/'] := by decide
    have h2 := shorthand_other "github.com".toList rest (Or.inl rfl) "gitlab.com/" (by decide) (by decide)
    rw [e1, hit, h2]
  · have e1 : "gitlab.com/".toList = "gitlab.com".toList ++ ['/'] := by decide
    have h2 := shorthand_other "gitlab.com".toList rest (Or.inr rfl) "github.com/" (by decide) (by decide)
    rw [e1, hit, h2]

/-! no double slash in `host/org/repo` -/

theorem indexOf_ss_of_noSlash (s : Str) (h : '/' ∉ s) : indexOf ['/', '/'] s = none := by
  cases hi : indexOf ['/', '/'] s with
  | none => rfl
  | some i =>
    obtain ⟨a, r, e, _⟩ := indexOf_split _ s i hi
    exact absurd (by rw [e]; simp) h

theorem indexOf_ss_cons (s X : Str) (hs : '/' ∉ s) (hX : X.head? ≠ some '/')
    (hi : indexOf ['/', '/'] X = none) : indexOf ['/', '/'] (s ++ '/' :: X) = none := by
  induction s with
  | nil =>
    rw [List.nil_append, indexOf_cons]
    have : List.isPrefixOf ['/', '/'] ('/' :: X) = false := by
      cases X with
      | nil => rfl
      | cons y X' =>
        have : y ≠ '/' := by intro e; apply hX; simp [e]
        simp [List.isPrefixOf, this.symm]
    simp [this, hi]
  | cons c s' ih =>
    have hc : c ≠ '/' := by intro e; apply hs; simp [e]
    have hs' : '/' ∉ s' := fun hm => hs (List.mem_cons_of_mem _ hm)
    rw [List.cons_append, indexOf_cons]
    have : List.isPrefixOf ['/', '/'] (c :: (s' ++ '/' :: X)) = false := by
      simp [List.isPrefixOf, hc.symm]
    simp [this, ih hs']

theorem rm_head_ne_slash (p t : Str) (hne : p ≠ []) (hp : '/' ∉ p) : (p ++ t).head? ≠ some '/' := by
  cases p with
  | nil => exact absurd rfl hne
  | cons c p' =>
    have hc : c ≠ '/' := by intro e; apply hp; simp [e]
    simp [hc]

/-- `host/org/last` has no `//`, also when followed by one `/` -/
theorem indexOf_ss_three (host org last : Str) (hh : host ≠ [] ∧ '/' ∉ host) (ho : org ≠ [] ∧ '/' ∉ org)
    (hl : last ≠ [] ∧ '/' ∉ last) :
    indexOf ['/', '/'] (host ++ '/' :: (org ++ '/' :: last)) = none ∧
    indexOf ['/', '/'] (host ++ '/' :: (org ++ '/' :: last) ++ ['/']) = none := by
  constructor
  · apply indexOf_ss_cons host _ hh.2 (rm_head_ne_slash org _ ho.1 ho.2)
    apply indexOf_ss_cons org _ ho.2
    · have := rm_head_ne_slash last [] hl.1 hl.2; simpa using this
    · exact indexOf_ss_of_noSlash last hl.2
  · have e : host ++ '/' :: (org ++ '/' :: last) ++ ['/'] = host ++ '/' :: (org ++ '/' :: (last ++ '/' :: [])) := by
      simp
    rw [e]
    apply indexOf_ss_cons host _ hh.2 (rm_head_ne_slash org _ ho.1 ho.2)
    apply indexOf_ss_cons org _ ho.2 (rm_head_ne_slash last _ hl.1 hl.2)
    exact indexOf_ss_cons last [] hl.2 (by simp) rfl

theorem splitSourceType_git (r : Str) (hne : r ≠ []) (hnl : '\n' ∉ r) :
    splitSourceType ("git::".toList ++ r) = some ("git".toList, r) := by
  have e : "git::".toList ++ r = 'g' :: 'i' :: 't' :: ':' :: ':' :: r := rfl
  have h1 : isAlnumAscii 'g' = true := by decide
  have h2 : isAlnumAscii 'i' = true := by decide
  have h3 : isAlnumAscii 't' = true := by decide
  have h4 : isAlnumAscii ':' = false := by decide
  have hc : r.contains '\n' = false := by
    apply Bool.eq_false_iff.mpr
    intro h; exact hnl (List.contains_iff_mem.mp h)
  rw [e]
  unfold splitSourceType
  simp only [List.takeWhile_cons, List.dropWhile_cons, h1, h2, h3, h4, if_true, Bool.false_eq_true,
    if_false]
  simp [hne, hnl]


theorem withDotGit_shape (host org repo : Str) (hr : ShortPart repo) :
    ∃ last, ShortPart last ∧
      withDotGit ("https://".toList ++ (host ++ '/' :: (org ++ '/' :: repo))) =
        "https".toList ++ ':' :: '/' :: '/' :: (host ++ '/' :: (org ++ '/' :: last)) := by
  unfold withDotGit
  split
  · exact ⟨repo, hr, by simp⟩
  · refine ⟨repo ++ ".git".toList, ⟨by simp [hr.1], ?_, ?_, ?_⟩, by simp⟩
    · simp [hr.2.1]
    · simp [hr.2.2.1]
    · simp [hr.2.2.2]

/-- the expanded shorthand without sub-directory: package part and source type -/
theorem front_of_expanded (host org last sub : Str) (hh : IsShortHost host) (ho : ShortPart org)
    (hl : ShortPart last) (hsub : '?' ∉ sub) :
    splitSubPath ("git::".toList ++ ("https".toList ++ ':' :: '/' :: '/' :: (host ++ '/' :: (org ++ '/' :: last)))) =
      ("git::".toList ++ ("https".toList ++ ':' :: '/' :: '/' :: (host ++ '/' :: (org ++ '/' :: last))), []) ∧
    splitSubPath ("git::".toList ++ ("https".toList ++ ':' :: '/' :: '/' :: (host ++ '/' :: (org ++ '/' :: last)) ++
        '/' :: '/' :: sub)) =
      ("git::".toList ++ ("https".toList ++ ':' :: '/' :: '/' :: (host ++ '/' :: (org ++ '/' :: last))), sub) ∧
    splitSourceType ("git::".toList ++ ("https".toList ++ ':' :: '/' :: '/' :: (host ++ '/' :: (org ++ '/' :: last)))) =
      some ("git".toList, "https".toList ++ ':' :: '/' :: '/' :: (host ++ '/' :: (org ++ '/' :: last))) := by
  obtain ⟨hh1, hh2, hh3⟩ := shortHost_noSlash host hh
  have hhne : host ≠ [] := by rcases hh with rfl | rfl <;> decide
  obtain ⟨hss1, hss2⟩ := indexOf_ss_three host org last ⟨hhne, hh1⟩ ⟨ho.1, ho.2.1⟩ ⟨hl.1, hl.2.1⟩
  have hsch : indexOf [':', '/', '/'] ("git::https".toList ++ [':', '/']) = none := by decide
  have hq : '?' ∉ "git::https".toList ++ ':' :: '/' :: '/' :: (host ++ '/' :: (org ++ '/' :: last)) := by
    simp only [List.mem_append, List.mem_cons, not_or]
    exact ⟨by decide, by decide, by decide, by decide, hh2, by decide, ho.2.2.1, by decide, hl.2.2.1⟩
  have e1 : "git::".toList ++ ("https".toList ++ ':' :: '/' :: '/' :: (host ++ '/' :: (org ++ '/' :: last))) =
      "git::https".toList ++ ':' :: '/' :: '/' :: (host ++ '/' :: (org ++ '/' :: last)) := by
    have : "git::https".toList = "git::".toList ++ "https".toList := by decide
    rw [this]; simp
  refine ⟨?_, ?_, ?_⟩
  · rw [e1]
    have := splitSubPath_eq _ [] hq (Or.inl rfl)
    rw [List.append_nil] at this
    rw [this, splitPre_none_url _ _ hsch hss1]
    simp
  · have e2 : "git::".toList ++ ("https".toList ++ ':' :: '/' :: '/' :: (host ++ '/' :: (org ++ '/' :: last)) ++
        '/' :: '/' :: sub) =
        "git::https".toList ++ ':' :: '/' :: '/' :: ((host ++ '/' :: (org ++ '/' :: last)) ++ '/' :: '/' :: sub) := by
      have : "git::https".toList = "git::".toList ++ "https".toList := by decide
      rw [this]; simp
    have hq2 : '?' ∉ "git::https".toList ++ ':' :: '/' :: '/' ::
        ((host ++ '/' :: (org ++ '/' :: last)) ++ '/' :: '/' :: sub) := by
      simp only [List.mem_append, List.mem_cons, not_or]
      exact ⟨by decide, by decide, by decide, by decide, ⟨hh2, by decide, ho.2.2.1, by decide, hl.2.2.1⟩,
        by decide, by decide, hsub⟩
    rw [e2, e1]
    have := splitSubPath_eq _ [] hq2 (Or.inl rfl)
    rw [List.append_nil] at this
    rw [this, splitPre_join_url _ _ _ hsch hss2]
    simp
  · apply splitSourceType_git
    · simp
    · simp only [List.mem_append, List.mem_cons, not_or]
      exact ⟨by decide, by decide, by decide, by decide, hh3, by decide, ho.2.2.2, by decide, hl.2.2.2⟩

end Slug
