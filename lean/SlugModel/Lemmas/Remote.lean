import SlugModel.Spec.Policy
import SlugModel.Lemmas.Local
/-!
# Lemmas/Remote — what each stage of `ParseRemoteSource` / `MakeRemoteSource` guarantees

The statements are about the model as parameterised by the extracted tables (`Generated.*`);
the proofs evaluate the tables (`simp [Generated.…]` / `decide`), so they are re-checked against
whatever the extractor finds in the Go source.
-/
namespace Slug

/-! ## `normaliseRaw` only touches the raw spellings -/

theorem normaliseRaw_fields (u : UrlRec) :
    (normaliseRaw u).scheme = u.scheme ∧ (normaliseRaw u).hasUser = u.hasUser ∧
    (normaliseRaw u).query = u.query ∧ (normaliseRaw u).escapedPath = u.escapedPath ∧
    (normaliseRaw u).rawQuery = u.rawQuery ∧ (normaliseRaw u).tgzQuery = u.tgzQuery ∧
    (normaliseRaw u).host = u.host ∧ (normaliseRaw u).path = u.path := by
  unfold normaliseRaw
  dsimp only
  split <;> split <;> simp

/-! ## the two `PrepareURL` methods -/

theorem prepareGit_some (u u' : UrlRec) (h : prepareGit u = some u') :
    u' = u ∧ (u.scheme = "https".toList ∨ u.scheme = "ssh".toList) ∧
    ∀ kv ∈ u.query, kv.1 = "ref".toList ∧ kv.2.length ≤ 1 := by
  unfold prepareGit at h
  split at h
  · cases h
  · rename_i hs
    split at h
    · cases h
    · rename_i hq
      cases h
      refine ⟨rfl, ?_, ?_⟩
      · simp [Generated.gitSchemes] at hs
        by_cases h1 : u.scheme = "ssh".toList
        · exact Or.inr h1
        · exact Or.inl (hs h1)
      · intro kv hkv
        simp only [Bool.not_eq_true, List.any_eq_false] at hq
        have := hq kv hkv
        simp [Generated.gitQueryKeys] at this
        exact ⟨this.1, this.2⟩

theorem prepareHttp_some (u u' : UrlRec) (h : prepareHttp u = some u') :
    u.scheme = "https".toList ∧ lookupQ u.query "checksum".toList = [] ∧
    ((lookupQ u.query "archive".toList = [] ∧ u' = u ∧
        (hasSuffix u.escapedPath ".tar.gz".toList = true ∨
         hasSuffix u.escapedPath ".tgz".toList = true)) ∨
     (∃ v, lookupQ u.query "archive".toList = [v] ∧ (v = "tar.gz".toList ∨ v = "tgz".toList) ∧
        u' = { u with rawQuery := u.tgzQuery })) := by
  unfold prepareHttp at h
  split at h
  · cases h
  · split at h
    · cases h
    · rename_i hs2
      simp only [ne_eq, Decidable.not_not] at hs2
      refine ⟨hs2, ?_⟩
      simp only at h
      generalize hA : lookupQ u.query "archive".toList = arch at h
      generalize hC : lookupQ u.query "checksum".toList = chk at h
      cases arch with
      | nil =>
        simp only [List.length_nil, Nat.lt_irrefl, if_false] at h
        by_cases hsuf : (Generated.httpSuffixes.any fun s => hasSuffix u.escapedPath s.toList) = true
        · simp only [hsuf, if_true] at h
          by_cases hc : chk.length ≠ 0
          · simp [hc] at h
          · simp only [hc, if_false, Option.some.injEq] at h
            simp only [ne_eq, Decidable.not_not, List.length_eq_zero_iff] at hc
            refine ⟨hc, Or.inl ⟨rfl, h.symm, ?_⟩⟩
            simpa [Generated.httpSuffixes] using hsuf
        · simp [hsuf] at h
      | cons v vs =>
        cases vs with
        | cons w ws => simp at h
        | nil =>
          simp only [List.length_cons, List.length_nil, Nat.zero_add, Nat.lt_irrefl, if_false,
            Nat.lt_add_one, if_true, List.headD_cons] at h
          cases hb : (List.map String.toList Generated.httpArchiveValues).contains v with
          | false => simp only [hb, Bool.not_false, if_true] at h; cases h
          | true =>
            simp only [hb, Bool.not_true, Bool.false_eq_true, if_false] at h
            by_cases hc : chk.length ≠ 0
            · simp [hc] at h
            · simp only [hc, if_false, Option.some.injEq] at h
              simp only [ne_eq, Decidable.not_not, List.length_eq_zero_iff] at hc
              refine ⟨hc, Or.inr ⟨v, rfl, ?_, h.symm⟩⟩
              have : v = "tar.gz".toList ∨ v = "tgz".toList := by
                simp [Generated.httpArchiveValues] at hb
                rcases hb with e | e
                · exact Or.inl e
                · exact Or.inr e
              exact this

/-! ## `makeRemoteSource` -/

/-- the transport clauses of the policy (everything except the sub-path) hold of whatever
`makeRemoteSource` returns; user information and sub-path are passed through -/
theorem makeRemoteCore_some (t : Str) (u : UrlRec) (sub : Str) (a : RemoteAddr)
    (h : makeRemoteCore t u sub = some a) :
    (ValidSub sub → Policy a) ∧ a.url.hasUser = u.hasUser ∧ a.subPath = sub ∧ a.sourceType = t := by
  unfold makeRemoteCore at h
  split at h
  · cases h
  · rename_i nm impl hfind
    simp only at h
    split at h
    · cases h
    · rename_i u' hprep
      cases h
      obtain ⟨hsch, huser, hq, hep, hrq, htq, _, _⟩ := normaliseRaw_fields u'
      -- which table row was found
      simp only [Generated.sourceTypes, List.find?] at hfind
      have hrow : (t = "git".toList ∧ impl = "gitSourceType") ∨
          ((t = "http".toList ∨ t = "https".toList) ∧ impl = "httpSourceType") := by
        split at hfind
        · rename_i h1; cases hfind; exact Or.inl ⟨(of_decide_eq_true h1).symm, rfl⟩
        · split at hfind
          · rename_i h1; cases hfind; exact Or.inr ⟨Or.inl (of_decide_eq_true h1).symm, rfl⟩
          · split at hfind
            · rename_i h1; cases hfind; exact Or.inr ⟨Or.inr (of_decide_eq_true h1).symm, rfl⟩
            · cases hfind
      rcases hrow with ⟨ht, himpl⟩ | ⟨ht, himpl⟩
      · subst himpl
        simp only [if_true] at hprep
        obtain ⟨rfl, hs, hqk⟩ := prepareGit_some u u' hprep
        have hnotArch : ¬ IsArchive { sourceType := t, url := normaliseRaw u', subPath := sub } := by
          subst ht; unfold IsArchive; simp
        refine ⟨fun hsub => ?_, huser, rfl, rfl⟩
        exact {
          type_ok := Or.inl ht
          git_scheme := fun _ => by simp only [hsch]; exact hs
          archive_scheme := fun h => absurd h hnotArch
          git_query := fun _ => by simp only [hq]; exact hqk
          no_checksum := fun h => absurd h hnotArch
          archive_kind := fun h => absurd h hnotArch
          sub_ok := hsub }
      · subst himpl
        simp only [show ("httpSourceType" = "gitSourceType") = False by decide, if_false] at hprep
        obtain ⟨hs, hchk, hkind⟩ := prepareHttp_some u u' hprep
        have hnotGit : ¬ IsGit { sourceType := t, url := normaliseRaw u', subPath := sub } := by
          unfold IsGit; rcases ht with rfl | rfl <;> simp
        have hu'q : u'.query = u.query := by
          rcases hkind with ⟨_, e, _⟩ | ⟨_, _, _, e⟩ <;> rw [e]
        have hu's : u'.scheme = u.scheme := by
          rcases hkind with ⟨_, e, _⟩ | ⟨_, _, _, e⟩ <;> rw [e]
        have hu'u : u'.hasUser = u.hasUser := by
          rcases hkind with ⟨_, e, _⟩ | ⟨_, _, _, e⟩ <;> rw [e]
        refine ⟨fun hsub => ?_, by rw [huser, hu'u], rfl, rfl⟩
        exact {
          type_ok := Or.inr ht
          git_scheme := fun h => absurd h hnotGit
          archive_scheme := fun _ => by simp only [hsch, hu's]; exact hs
          git_query := fun h => absurd h hnotGit
          no_checksum := fun _ => by
            simp only [hq, hu'q, valuesOf_eq_lookupQ]; exact hchk
          archive_kind := fun _ => by
            simp only [hq, hu'q, hep, hrq, htq, valuesOf_eq_lookupQ]
            rcases hkind with ⟨ha, e, hsuf⟩ | ⟨v, ha, hv, e⟩
            · left; subst e; exact ⟨ha, hsuf⟩
            · right; subst e; exact ⟨v, ha, hv, rfl⟩
          sub_ok := hsub }

/-! ## `ParseRemoteSource` after the front end -/

theorem parseRemoteWith_some (ty sub : Str) (p : Option UrlRec) (a : RemoteAddr)
    (h : parseRemoteWith ty sub p = some a) :
    ∃ u t, p = some u ∧ u.hasUser = false ∧ u.scheme ≠ [] ∧ u.queryErr = false ∧
      makeRemoteCore t { u with scheme := toLowerAscii u.scheme } sub = some a := by
  unfold parseRemoteWith at h
  split at h
  · cases h
  · rename_i u
    split at h
    · cases h
    · rename_i hsch
      split at h
      · cases h
      · rename_i huser
        simp only at h
        split at h
        · cases h
        · rename_i t _
          split at h
          · cases h
          · rename_i hqe
            exact ⟨u, t, rfl, by simpa using huser, hsch, by simpa using hqe, h⟩

/-- the front end only hands out normalised sub-paths -/
theorem remoteFront_sub (given ty pkgRaw sub : Str) (h : remoteFront given = .url ty pkgRaw sub) :
    ValidSub sub := by
  unfold remoteFront at h
  split at h
  · cases h
  · simp only at h
    split at h
    · cases h
    · rename_i sub' hn
      have hv := normalizeSubpath_some _ _ hn
      split at h
      · cases h; rw [hv.1]; exact hv.2
      · cases h; rw [hv.1]; exact hv.2

end Slug
