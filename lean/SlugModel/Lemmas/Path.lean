import SlugModel.Base.Path
import SlugModel.Lemmas.Str
/-! Lemmas about the path-cleaning stack machine (`step`, `run`, `cleanSegs`). -/
namespace Slug

@[simp] theorem dotdot_ne_nil : dotdot ≠ [] := by decide
@[simp] theorem dotdot_ne_dot : dotdot ≠ dot := by decide
@[simp] theorem dot_ne_nil : dot ≠ [] := by decide
@[simp] theorem dot_ne_dotdot : dot ≠ dotdot := by decide
@[simp] theorem nil_ne_dotdot : ([] : Seg) ≠ dotdot := by decide
@[simp] theorem nil_ne_dot : ([] : Seg) ≠ dot := by decide

def Plain (s : Seg) : Prop := s ≠ [] ∧ s ≠ dot ∧ s ≠ dotdot

/-- a "normal" stack (top first): names on top of a block of dotdot (only if not rooted) -/
inductive Normal (rooted : Bool) : List Seg → Prop
  | nil : Normal rooted []
  | dots (st) : rooted = false → (∀ s ∈ st, s = dotdot) → Normal rooted st
  | name (s st) : Plain s → Normal rooted st → Normal rooted (s :: st)

theorem run_append (r : Bool) (st : List Seg) (xs ys : List Seg) :
    run r st (xs ++ ys) = run r (run r st xs) ys := by
  simp [run, List.foldl_append]

theorem step_normal (r : Bool) (st : List Seg) (s : Seg) (h : Normal r st) : Normal r (step r st s) := by
  unfold step
  split
  · exact h
  · split
    · cases h with
      | nil => cases r <;> simp <;> first | exact Normal.nil | exact Normal.dots _ rfl (by simp)
      | dots st hr hall =>
        cases st with
        | nil => subst hr; simp; exact Normal.dots _ rfl (by simp)
        | cons t rest =>
          have : t = dotdot := hall t (by simp)
          simp [this]
          exact Normal.dots _ hr (by
            intro s hs
            simp only [List.mem_cons] at hs
            rcases hs with e | e | e
            · exact e
            · exact e
            · exact hall s (by simp [e]))
      | name t rest hp hn =>
        have : t ≠ dotdot := hp.2.2
        simp [this]; exact hn
    · rename_i h1 h2
      exact Normal.name s st ⟨by intro h; exact h1 (Or.inl h), by intro h; exact h1 (Or.inr h), h2⟩ h

theorem run_normal (r : Bool) (st : List Seg) (xs : List Seg) (h : Normal r st) : Normal r (run r st xs) := by
  induction xs generalizing st with
  | nil => simpa [run]
  | cons x xs ih => simp only [run, List.foldl_cons]; exact ih _ (step_normal r st x h)

/-- replaying a normal stack (bottom first) rebuilds it -/
theorem replay (r : Bool) (st : List Seg) (h : Normal r st) : run r [] st.reverse = st := by
  induction h with
  | nil => simp [run]
  | dots st hr hall =>
    subst hr
    induction st with
    | nil => simp [run]
    | cons t rest ih =>
      have ht : t = dotdot := hall t (by simp)
      have hrest : ∀ s ∈ rest, s = dotdot := fun s hs => hall s (by simp [hs])
      rw [List.reverse_cons, run_append, ih hrest]
      subst ht
      simp only [run, List.foldl_cons, List.foldl_nil, step]
      cases rest with
      | nil => simp
      | cons u rest' =>
        have : u = dotdot := hrest u (by simp)
        simp [this]
  | name s st hp hn ih =>
    rw [List.reverse_cons, run_append, ih]
    obtain ⟨h1, h2, h3⟩ := hp
    simp [run, step, h1, h2, h3]

theorem clean_idem (r : Bool) (xs : List Seg) : cleanSegs r (cleanSegs r xs) = cleanSegs r xs := by
  unfold cleanSegs
  rw [replay r _ (run_normal r [] xs Normal.nil)]

/-- Join-then-clean composes: cleaning (clean X ++ Y) = cleaning (X ++ Y). -/
theorem clean_join (r : Bool) (xs ys : List Seg) :
    cleanSegs r (cleanSegs r xs ++ ys) = cleanSegs r (xs ++ ys) := by
  unfold cleanSegs
  rw [run_append, replay r _ (run_normal r [] xs Normal.nil), ← run_append]




end Slug
