import SlugModel.Generated.Tr_excludes
import SlugModel.Ignore
/-!
# `excludes`: the model function equals the translation of the Go function

The definition `Slug.Gen.excludes` (Generated/Tr_excludes.lean) is rewritten from /repo by harness/cmd/go2lean on
every run; the theorem here is re-checked against it.
-/
namespace Slug

/-- one iteration of the translated loop, as a pure function of the loop state -/
def exclStep (path : Str) (acc : Bool × Bool × Bool) (rule : Rule) : Bool × Bool × Bool :=
  if ruleMatches rule path then (acc.1, !rule.negated, !rule.negated && !rule.negAfter) else acc

theorem gen_excludes_loop (path : Str) (rules : List Rule) (acc : Bool × Bool × Bool) :
    (forIn (m := Id) rules acc fun rule₀ __s =>
            have retErr := __s.fst;
            have __s := __s.snd;
            have foundMatch := __s.fst;
            have dominating := __s.snd;
            have rule := rule₀;
            match Slug.Go.ruleMatch rule path with
            | (r'_1, r'_2) =>
              have match' := r'_1;
              have err := r'_2;
              have __do_jp := fun (__r : Unit) retErr =>
                if match' = true then
                  have foundMatch := !rule.negated;
                  have dominating := foundMatch && !rule.negAfter;
                  pure (ForInStep.yield (retErr, foundMatch, dominating))
                else pure (ForInStep.yield (retErr, foundMatch, dominating));
              if err = true then
                if (!retErr) = true then
                  have retErr := true;
                  __do_jp () retErr
                else __do_jp () retErr
              else __do_jp () retErr) = pure (rules.foldl (exclStep path) acc) := by
  induction rules generalizing acc with
  | nil => simp
  | cons r rs ih =>
    simp only [List.forIn_cons, List.foldl_cons, Go.ruleMatch]
    by_cases hm : ruleMatches r path = true
    · simp [hm, exclStep]
      exact ih _
    · simp [hm, exclStep]
      exact ih _

theorem exclStep_fold (path : Str) (rules : List Rule) (e : Bool) (acc : Bool × Bool) :
    rules.foldl (exclStep path) (e, acc) =
      (e, rules.foldl (fun (acc : Bool × Bool) r =>
        if ruleMatches r path then (!r.negated, !r.negated && !r.negAfter) else acc) acc) := by
  induction rules generalizing acc with
  | nil => rfl
  | cons r rs ih =>
    simp only [List.foldl_cons, exclStep]
    by_cases hm : ruleMatches r path = true
    · simp [hm]; exact ih _
    · simp [hm]; exact ih _

theorem gen_excludes (rules : List Rule) (path : Str) :
    Gen.excludes rules path = (excludes rules path, false) := by
  unfold Gen.excludes
  simp only [Id.run]
  have h := gen_excludes_loop path rules (false, false, false)
  simp only [Bool.false_eq_true, ↓reduceIte] at h ⊢
  rw [show (forIn (m := Id) rules (false, false, false) _) = _ from h]
  rw [exclStep_fold]
  rfl

end Slug
