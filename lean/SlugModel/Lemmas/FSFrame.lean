import SlugModel.Lemmas.Resolve
/-!
# Lemmas/FSFrame — what each filesystem operation changes, and which invariants it keeps

`UInv dstP fs` bundles the three filesystem invariants of C01 / C04.  `FsStep dstP fs fs'` says that
`fs'` differs from `fs` only at paths under `dst`, that directories stay directories, that no link
appears, and that `KeysPhysical` is kept.  Every operation of the model whose path argument *aims*
into `dst` (clean absolute path with the components of `dst` as a prefix) is a `FsStep`; `symlink`
adds one link and keeps `UInv` when the link is good.
-/
namespace Slug

def IsDir (o : Option Node) : Prop := ∃ perm mt, o = some (.dir perm mt)

structure UInv (dstP : PPath) (fs : FS) : Prop where
  real : RealDir fs dstP
  keys : KeysPhysical fs
  good : AllGood fs dstP

/-- nothing outside `dst` changes -/
def FsFrame (dstP : PPath) (fs fs' : FS) : Prop := ∀ q, ¬ Under dstP q → fs'.get q = fs.get q

theorem FsFrame.refl (dstP : PPath) (fs : FS) : FsFrame dstP fs fs := fun _ _ => rfl

theorem FsFrame.trans {dstP : PPath} {a b c : FS} (h1 : FsFrame dstP a b) (h2 : FsFrame dstP b c) :
    FsFrame dstP a c := fun q hq => (h2 q hq).trans (h1 q hq)

structure FsStep (dstP : PPath) (fs fs' : FS) : Prop where
  frame : FsFrame dstP fs fs'
  dirs : ∀ q, IsDir (fs.get q) → IsDir (fs'.get q)
  links : ∀ q t, fs'.get q = some (.link t) → fs.get q = some (.link t)
  keys : KeysPhysical fs → KeysPhysical fs'

theorem FsStep.refl (dstP : PPath) (fs : FS) : FsStep dstP fs fs :=
  ⟨FsFrame.refl _ _, fun _ h => h, fun _ _ h => h, fun h => h⟩

theorem FsStep.trans {dstP : PPath} {a b c : FS} (h1 : FsStep dstP a b) (h2 : FsStep dstP b c) :
    FsStep dstP a c :=
  ⟨h1.frame.trans h2.frame, fun q h => h2.dirs q (h1.dirs q h),
   fun q t h => h1.links q t (h2.links q t h), fun h => h2.keys (h1.keys h)⟩

theorem isDir_lookup_of_get {fs fs' : FS} (h : ∀ q, IsDir (fs.get q) → IsDir (fs'.get q)) (q : PPath) :
    IsDir (fs.lookup q) → IsDir (fs'.lookup q) := by
  unfold FS.lookup
  by_cases hq : q = []
  · simp [hq]
  · simp only [hq, if_false]; exact h q

theorem FsStep.lookup_dirs {dstP : PPath} {fs fs' : FS} (h : FsStep dstP fs fs') (q : PPath) :
    IsDir (fs.lookup q) → IsDir (fs'.lookup q) := isDir_lookup_of_get h.dirs q

theorem UInv.step {dstP : PPath} {fs fs' : FS} (hi : UInv dstP fs) (hs : FsStep dstP fs fs') : UInv dstP fs' := by
  refine ⟨?_, hs.keys hi.keys, ?_⟩
  · intro q hq
    exact hs.lookup_dirs q (hi.real q hq)
  · intro p t hp hu
    exact hi.good p t (hs.links p t hp) hu

/-! ## pointwise description of a step -/

/-- admissible change of the binding of `q` from `fs.get q` to `o` -/
def ChangeOK (dstP : PPath) (fs : FS) (q : PPath) (o : Option Node) : Prop :=
  o = fs.get q ∨
  (Under dstP q ∧ (∀ t, o ≠ some (.link t)) ∧ (IsDir (fs.get q) → IsDir o) ∧
    (fs.get q = none → q ≠ [] ∧ IsDir (fs.lookup q.dropLast)))

theorem step_of_pointwise {dstP : PPath} {fs fs' : FS} (h : ∀ q, ChangeOK dstP fs q (fs'.get q)) :
    FsStep dstP fs fs' := by
  have hdirs : ∀ q, IsDir (fs.get q) → IsDir (fs'.get q) := by
    intro q hd
    rcases h q with e | ⟨_, _, h3, _⟩
    · rw [e]; exact hd
    · exact h3 hd
  refine ⟨?_, hdirs, ?_, ?_⟩
  · intro q hq
    rcases h q with e | ⟨hu, _⟩
    · exact e
    · exact absurd hu hq
  · intro q t hl
    rcases h q with e | ⟨_, h2, _⟩
    · rw [← e]; exact hl
    · exact absurd hl (h2 t)
  · intro hk p n hp
    have hold : ∀ m, fs.get p = some m → p ≠ [] ∧ ∃ perm mt, fs'.lookup p.dropLast = some (.dir perm mt) := by
      intro m hm
      obtain ⟨h1, h2⟩ := hk p m hm
      exact ⟨h1, isDir_lookup_of_get hdirs _ h2⟩
    rcases h p with e | ⟨_, _, _, h4⟩
    · rw [hp] at e; exact hold n e.symm
    · cases hg : fs.get p with
      | none =>
        obtain ⟨h1, h2⟩ := h4 hg
        exact ⟨h1, isDir_lookup_of_get hdirs _ h2⟩
      | some m => exact hold m hg

/-! ## `set` and `touchDir` -/

theorem get_set (fs : FS) (p q : PPath) (n : Node) :
    (fs.set p n).get q = if p = q then some n else fs.get q := by
  simp [FS.set, FS.get]

theorem get_set_self (fs : FS) (p : PPath) (n : Node) : (fs.set p n).get p = some n := by
  simp [get_set]

theorem get_set_ne (fs : FS) (p q : PPath) (n : Node) (h : p ≠ q) : (fs.set p n).get q = fs.get q := by
  simp [get_set, h]

theorem get_touchDir_ne (fs : FS) (p q : PPath) (now : Int) (h : p ≠ q) :
    (fs.touchDir p now).get q = fs.get q := by
  unfold FS.touchDir
  split
  · exact get_set_ne _ _ _ _ h
  · rfl

theorem get_touchDir_self (fs : FS) (p : PPath) (now : Int) :
    (fs.touchDir p now).get p = fs.get p ∨
    ∃ perm mt, fs.get p = some (.dir perm mt) ∧ (fs.touchDir p now).get p = some (.dir perm now) := by
  unfold FS.touchDir
  split
  · rename_i perm mt hg
    exact Or.inr ⟨perm, mt, hg, get_set_self _ _ _⟩
  · exact Or.inl rfl

theorem under_ne_nil {dstP p : PPath} (hd : dstP ≠ []) (hu : Under dstP p) : p ≠ [] := by
  intro hp; subst hp
  exact hd (List.prefix_nil.mp hu)

theorem under_dropLast {dstP p : PPath} (hu : Under dstP p) (hne : p ≠ dstP) : Under dstP p.dropLast := by
  obtain ⟨t, rfl⟩ := hu
  have ht : t ≠ [] := by intro h0; apply hne; simp [h0]
  rw [List.dropLast_append_of_ne_nil ht]
  exact List.prefix_append _ _

theorem dropLast_ne_self {p : PPath} (h : p ≠ []) : p.dropLast ≠ p := by
  intro e
  have := congrArg List.length e
  rw [List.length_dropLast] at this
  have : p.length ≠ 0 := by simpa using h
  omega

theorem step_touchDir {dstP : PPath} (fs : FS) (d : PPath) (now : Int) (hu : Under dstP d) :
    FsStep dstP fs (fs.touchDir d now) := by
  apply step_of_pointwise
  intro q
  by_cases hq : d = q
  · subst hq
    rcases get_touchDir_self fs d now with e | ⟨perm, mt, hg, e⟩
    · exact Or.inl e
    · refine Or.inr ⟨hu, ?_, ?_, ?_⟩
      · intro t; rw [e]; simp
      · intro _; exact ⟨perm, now, e⟩
      · intro hn; rw [hn] at hg; cases hg
  · exact Or.inl (get_touchDir_ne fs d q now hq)

theorem step_set_new {dstP : PPath} (fs : FS) (p : PPath) (n : Node) (hu : Under dstP p) (hp : p ≠ [])
    (hnone : fs.get p = none) (hpar : IsDir (fs.lookup p.dropLast)) (hn : ∀ t, n ≠ .link t) :
    FsStep dstP fs (fs.set p n) := by
  apply step_of_pointwise
  intro q
  by_cases hq : p = q
  · subst hq
    rw [get_set_self]
    refine Or.inr ⟨hu, ?_, ?_, ?_⟩
    · intro t h; cases h; exact hn t rfl
    · intro hd
      obtain ⟨perm, mt, hg⟩ := hd
      rw [hnone] at hg; cases hg
    · intro _; exact ⟨hp, hpar⟩
  · exact Or.inl (get_set_ne fs p q n hq)

theorem step_set_dir {dstP : PPath} (fs : FS) (p : PPath) (perm perm' : Nat) (mt mt' : Int)
    (hu : Under dstP p) (hg : fs.get p = some (.dir perm mt)) :
    FsStep dstP fs (fs.set p (.dir perm' mt')) := by
  apply step_of_pointwise
  intro q
  by_cases hq : p = q
  · subst hq
    rw [get_set_self]
    refine Or.inr ⟨hu, ?_, ?_, ?_⟩
    · intro t h; cases h
    · intro _; exact ⟨perm', mt', rfl⟩
    · intro hn; rw [hn] at hg; cases hg
  · exact Or.inl (get_set_ne fs p q _ hq)

theorem step_set_file {dstP : PPath} (fs : FS) (p : PPath) (perm perm' : Nat) (mt mt' : Int) (c c' : Str)
    (hu : Under dstP p) (hg : fs.get p = some (.file perm mt c)) :
    FsStep dstP fs (fs.set p (.file perm' mt' c')) := by
  apply step_of_pointwise
  intro q
  by_cases hq : p = q
  · subst hq
    rw [get_set_self]
    refine Or.inr ⟨hu, ?_, ?_, ?_⟩
    · intro t h; cases h
    · intro hd; obtain ⟨a, b, hd⟩ := hd; rw [hg] at hd; cases hd
    · intro hn; rw [hn] at hg; cases hg
  · exact Or.inl (get_set_ne fs p q _ hq)

/-- create a new non-link node at `p` (parent directory touched): the common tail of `mkdir` and
`create` -/
theorem step_new_node {dstP : PPath} (fs : FS) (p : PPath) (n : Node) (now : Int) (hd : dstP ≠ [])
    (hreal : RealDir fs dstP) (hu : Under dstP p)
    (hnone : fs.lookup p = none) (hpar : IsDir (fs.lookup p.dropLast)) (hn : ∀ t, n ≠ .link t) :
    FsStep dstP fs ((fs.touchDir p.dropLast now).set p n) := by
  have hp : p ≠ [] := under_ne_nil hd hu
  have hne : p ≠ dstP := by
    intro e; subst e
    obtain ⟨a, b, h⟩ := hreal p (List.prefix_refl _)
    rw [hnone] at h; cases h
  have hud : Under dstP p.dropLast := under_dropLast hu hne
  have h1 : FsStep dstP fs (fs.touchDir p.dropLast now) := step_touchDir fs _ now hud
  refine h1.trans (step_set_new _ p n hu hp ?_ (h1.lookup_dirs _ hpar) hn)
  rw [get_touchDir_ne fs _ _ now (dropLast_ne_self hp)]
  rw [← lookup_ne_nil fs p hp]; exact hnone

/-! ## system calls aimed into `dst` -/

/-- the path string is made of plain names and starts with the components of `dst` -/
def Aim (dstP : PPath) (path : Str) : Prop := (∀ x ∈ pathSegs path, Plain x) ∧ dstP <+: pathSegs path

theorem resolvePath_under {dstP : PPath} {fs : FS} (hinv : UInv dstP fs) {path : Str} (ha : Aim dstP path)
    {follow : Bool} {r : PPath} (h : fs.resolvePath path follow = .ok r) : Under dstP r :=
  resolve_under fs dstP hinv.real hinv.good _ _ _ _ _ (heading_start dstP _ ha.1 ha.2) h

theorem stat_ok {fs : FS} {path : Str} {p : PPath} {n : Node} (h : fs.stat path = .ok (p, n)) :
    fs.resolvePath path true = .ok p ∧ fs.lookup p = some n := by
  unfold FS.stat at h
  split at h
  · cases h
  · rename_i q hq
    split at h
    · cases h
    · rename_i m hm
      cases h
      exact ⟨hq, hm⟩

theorem step_mkdir {dstP : PPath} {fs fs' : FS} (hd : dstP ≠ []) (hinv : UInv dstP fs) {path : Str}
    (ha : Aim dstP path) {perm : Nat} {now : Int} (h : fs.mkdir path perm now = .ok fs') :
    FsStep dstP fs fs' := by
  unfold FS.mkdir at h
  split at h
  · cases h
  · rename_i p hp
    have hu := resolvePath_under hinv ha hp
    split at h
    · cases h
    · rename_i hnone
      split at h
      · rename_i a b hpar
        cases h
        exact step_new_node fs p _ now hd hinv.real hu hnone ⟨a, b, hpar⟩ (by intro t h; cases h)
      · cases h
      · cases h

theorem step_create {dstP : PPath} {fs fs' : FS} (hd : dstP ≠ []) (hinv : UInv dstP fs) {path : Str}
    (ha : Aim dstP path) {content : Str} {now : Int} {priv : Bool}
    (h : fs.create path content now priv = .ok fs') : FsStep dstP fs fs' := by
  unfold FS.create at h
  split at h
  · cases h
  · rename_i p hp
    have hu := resolvePath_under hinv ha hp
    have hpne := under_ne_nil hd hu
    split at h
    · cases h
    · rename_i perm mt c hl
      split at h
      · cases h
      · cases h
        rw [lookup_ne_nil fs p hpne] at hl
        exact step_set_file fs p _ _ _ _ _ _ hu hl
    · cases h
    · cases h; exact FsStep.refl _ _
    · rename_i hnone
      split at h
      · rename_i a b hpar
        cases h
        exact step_new_node fs p _ now hd hinv.real hu hnone ⟨a, b, hpar⟩ (by intro t h; cases h)
      · cases h
      · cases h

theorem step_chmod {dstP : PPath} {fs fs' : FS} (hd : dstP ≠ []) (hinv : UInv dstP fs) {path : Str}
    (ha : Aim dstP path) {perm : Nat} (h : fs.chmod path perm = .ok fs') : FsStep dstP fs fs' := by
  unfold FS.chmod at h
  split at h
  · cases h
  · rename_i p a m hs
    obtain ⟨hr, hl⟩ := stat_ok hs
    have hu := resolvePath_under hinv ha hr
    rw [lookup_ne_nil fs p (under_ne_nil hd hu)] at hl
    cases h
    exact step_set_dir fs p _ _ _ _ hu hl
  · rename_i p a m c hs
    obtain ⟨hr, hl⟩ := stat_ok hs
    have hu := resolvePath_under hinv ha hr
    rw [lookup_ne_nil fs p (under_ne_nil hd hu)] at hl
    cases h
    exact step_set_file fs p _ _ _ _ _ _ hu hl
  · cases h; exact FsStep.refl _ _

theorem step_chtimes {dstP : PPath} {fs fs' : FS} (hd : dstP ≠ []) (hinv : UInv dstP fs) {path : Str}
    (ha : Aim dstP path) {mtime : Int} (h : fs.chtimes path mtime = .ok fs') : FsStep dstP fs fs' := by
  unfold FS.chtimes at h
  split at h
  · cases h
  · rename_i p a m hs
    obtain ⟨hr, hl⟩ := stat_ok hs
    have hu := resolvePath_under hinv ha hr
    rw [lookup_ne_nil fs p (under_ne_nil hd hu)] at hl
    cases h
    exact step_set_dir fs p _ _ _ _ hu hl
  · rename_i p a m c hs
    obtain ⟨hr, hl⟩ := stat_ok hs
    have hu := resolvePath_under hinv ha hr
    rw [lookup_ne_nil fs p (under_ne_nil hd hu)] at hl
    cases h
    exact step_set_file fs p _ _ _ _ _ _ hu hl
  · cases h; exact FsStep.refl _ _

/-! ## `symlink` -/

/-- binding an unbound name under `dst` to a good link keeps the invariants and the frame -/
theorem inv_set_link {dstP : PPath} {fs : FS} (hinv : UInv dstP fs) (p : PPath) (t : Str)
    (hu : Under dstP p) (hp : p ≠ []) (hnone : fs.get p = none) (hpar : IsDir (fs.lookup p.dropLast))
    (hg : GoodLink dstP p t) :
    UInv dstP (fs.set p (.link t)) ∧ FsFrame dstP fs (fs.set p (.link t)) := by
  have hdirs : ∀ q, IsDir (fs.get q) → IsDir ((fs.set p (.link t)).get q) := by
    intro q hd
    by_cases hq : p = q
    · subst hq; obtain ⟨a, b, hd⟩ := hd; rw [hnone] at hd; cases hd
    · rw [get_set_ne fs p q _ hq]; exact hd
  refine ⟨⟨?_, ?_, ?_⟩, ?_⟩
  · intro q hq
    exact isDir_lookup_of_get hdirs q (hinv.real q hq)
  · intro q n hq
    by_cases hpq : p = q
    · subst hpq
      exact ⟨hp, isDir_lookup_of_get hdirs _ hpar⟩
    · rw [get_set_ne fs p q _ hpq] at hq
      obtain ⟨h1, h2⟩ := hinv.keys q n hq
      exact ⟨h1, isDir_lookup_of_get hdirs _ h2⟩
  · intro q t' hq huq
    by_cases hpq : p = q
    · subst hpq
      rw [get_set_self] at hq
      cases hq
      exact hg
    · rw [get_set_ne fs p q _ hpq] at hq
      exact hinv.good q t' hq huq
  · intro q hq
    by_cases hpq : p = q
    · subst hpq; exact absurd hu hq
    · exact get_set_ne fs p q _ hpq

/-- `symlink` whose new link is good (at the place where it is physically created) -/
theorem inv_symlink {dstP : PPath} {fs fs' : FS} (hd : dstP ≠ []) (hinv : UInv dstP fs) {path target : Str}
    (ha : Aim dstP path) {now : Int}
    (hgood : ∀ p, fs.resolvePath path false = .ok p → fs.lookup p = none → GoodLink dstP p target)
    (h : fs.symlink target path now = .ok fs') :
    UInv dstP fs' ∧ FsFrame dstP fs fs' := by
  unfold FS.symlink at h
  split at h
  · cases h
  · split at h
    · cases h
    · rename_i p hp
      have hu := resolvePath_under hinv ha hp
      have hpne := under_ne_nil hd hu
      split at h
      · cases h
      · rename_i hnone
        split at h
        · rename_i a b hpar
          cases h
          have hne : p ≠ dstP := by
            intro e; subst e
            obtain ⟨a, b, h⟩ := hinv.real p (List.prefix_refl _)
            rw [hnone] at h; cases h
          have h1 : FsStep dstP fs (fs.touchDir p.dropLast now) :=
            step_touchDir fs _ now (under_dropLast hu hne)
          have hnone' : (fs.touchDir p.dropLast now).get p = none := by
            rw [get_touchDir_ne fs _ _ now (dropLast_ne_self hpne), ← lookup_ne_nil fs p hpne]
            exact hnone
          obtain ⟨hi, hf⟩ := inv_set_link (hinv.step h1) p target hu hpne hnone'
            (h1.lookup_dirs _ ⟨a, b, hpar⟩) (hgood p hp hnone)
          exact ⟨hi, h1.frame.trans hf⟩
        · cases h
        · cases h

end Slug
