import SlugModel.Generated.Trans
import SlugModel.Addr
import SlugModel.Unpack
/-!
# Lemmas/TransEq — the hand-written model functions equal the translated Go functions

`Generated/Trans.lean` is written by `harness/cmd/go2lean` from the Go source on every run: each
definition of `Slug.Gen` is the Go function of the same name in `Id.run do` notation over the
operations of `GoLib.lean`.  The theorems here say that each of them computes, on every input,
exactly what the hand-written model function (`Addr.lean`, `Unpack.lean`) computes.  Go's
`(value, error)` results are read as `(value, true)` for an error (the value then being the zero
value) and `(value, false)` otherwise; the model's `Option` results are compared through that reading.

If the Go function changes, the translated definition changes and the proof here no longer checks.
-/
namespace Slug


theorem gen_normalizeSubpath (g : Str) :
    Gen.normalizeSubpath g = (match normalizeSubpath g with | some r => (r, false) | none => ([], true)) := by
  unfold Gen.normalizeSubpath normalizeSubpath
  by_cases h1 : g = []
  · simp [h1, Id.run]; rfl
  · by_cases h2 : validPath g = true
    · by_cases h3 : pathClean g = ['.']
      · simp [h1, h2, h3, Id.run, dot, Go.validPath, Go.pathClean]; rfl
      · simp [h1, h2, h3, Id.run, dot, Go.validPath, Go.pathClean]; rfl
    · simp [h1, h2, Id.run, Go.validPath]; rfl

theorem gen_joinSubPath (a b : Str) :
    Gen.joinSubPath a b = (match joinSubPath a b with | some r => (r, false) | none => ([], true)) := by
  unfold Gen.joinSubPath joinSubPath
  by_cases h1 : pathJoin a b = ['.']
  · simp [h1, Id.run, dot, Go.pathJoin]; rfl
  · by_cases h2 : validPath (pathJoin a b) = true
    · simp [h1, h2, Id.run, dot, Go.pathJoin, Go.validPath]; rfl
    · simp [h1, h2, Id.run, dot, Go.pathJoin, Go.validPath]; rfl

theorem gen_looksLikeLocalSource (s : Str) : Gen.looksLikeLocalSource s = looksLikeLocal s := by
  unfold Gen.looksLikeLocalSource looksLikeLocal
  simp [Id.run, Go.hasPrefix]; rfl

theorem gen_isWithin (r p : Str) : Gen.isWithin r p = isWithin r p := by
  unfold Gen.isWithin isWithin
  by_cases h1 : p = r
  · simp [h1, Id.run]; rfl
  · by_cases h2 : hasSuffix r ['/'] = true
    · simp [h1, h2, Id.run, Go.hasSuffix, Go.hasPrefix]; rfl
    · simp [h1, h2, Id.run, Go.hasSuffix, Go.hasPrefix]; rfl


set_option hygiene false in
/-- one iteration of the loop of `allowedSymlinkTarget`, the prefix after the `IsAbs` test being `$pre` -/
local macro "loop_iter" pre:term : tactic => `(tactic|
  (by_cases h2 : t = $pre
   · simp [h2, Id.run]; rfl
   · by_cases h3 : hasSuffix $pre ['/'] = true
     · by_cases h4 : hasPrefix t $pre = true
       · simp [h2, h3, h4, Id.run]; rfl
       · simp [h2, h3, h4, Id.run]
     · by_cases h4 : hasPrefix t ($pre ++ ['/']) = true
       · simp [h2, h3, h4, Id.run]; rfl
       · simp [h2, h3, h4, Id.run]))

theorem gen_allowedSymlinkTarget (allow : List Str) (r t : Str) :
    Gen.allowedSymlinkTarget allow r t = allowedTarget allow r t := by
  unfold Gen.allowedSymlinkTarget allowedTarget
  induction allow with
  | nil => simp [Id.run]; rfl
  | cons a rest ih =>
    simp only [List.forIn_cons, List.any_cons]
    simp only [] at ih
    rw [← ih]
    simp only [Go.isAbs, Go.hasSuffix, Go.hasPrefix, Go.pathJoin]
    by_cases h1 : isAbs a = true <;>
      simp only [h1, Bool.not_true, Bool.not_false, if_true, if_false, Bool.false_eq_true]
    · loop_iter a
    · loop_iter (pathJoin r a)

theorem gen_validSymlink (cwd : Str) (allow : List Str) (root path target : Str) :
    Gen.validSymlink cwd allow root path target =
      (validSymlink cwd allow root path target, !validSymlink cwd allow root path target) := by
  unfold Gen.validSymlink validSymlink isWithin
  simp only [gen_allowedSymlinkTarget, Go.pathAbs, Go.isAbs, Go.pathJoin, Go.pathClean, Go.pathDir,
    Go.hasSuffix, Go.hasPrefix]
  generalize pathAbs cwd root = absRoot
  have key : ∀ absTarget : Str,
      (if (!hasSuffix absRoot ['/']) = true then
        if (absTarget == absRoot || hasPrefix absTarget (absRoot ++ ['/'])) = true then
          (pure (true, false) : Id (Bool × Bool))
        else if allowedTarget allow absRoot absTarget = true then pure (true, false) else pure (false, true)
      else
        if (absTarget == absRoot || hasPrefix absTarget absRoot) = true then pure (true, false)
        else
          if allowedTarget allow absRoot absTarget = true then pure (true, false)
          else pure (false, true)).run =
      (if (decide (absTarget = absRoot) ||
              hasPrefix absTarget (if hasSuffix absRoot ['/'] = true then absRoot else absRoot ++ ['/'])) =
            true then true
        else allowedTarget allow absRoot absTarget,
        !if (decide (absTarget = absRoot) ||
                hasPrefix absTarget (if hasSuffix absRoot ['/'] = true then absRoot else absRoot ++ ['/'])) =
              true then true
          else allowedTarget allow absRoot absTarget) := by
    intro absTarget
    generalize allowedTarget allow absRoot absTarget = c
    by_cases h3 : hasSuffix absRoot ['/'] = true <;>
      simp only [h3, Bool.not_true, Bool.not_false, if_true, if_false, Bool.false_eq_true]
    · generalize hasPrefix absTarget absRoot = b
      by_cases h4 : absTarget = absRoot <;> cases b <;> cases c <;> simp [h4, Id.run] <;> rfl
    · generalize hasPrefix absTarget (absRoot ++ ['/']) = b
      by_cases h4 : absTarget = absRoot <;> cases b <;> cases c <;> simp [h4, Id.run] <;> rfl
  by_cases h1 : isAbs path = true <;> by_cases h2 : isAbs target = true <;>
    simp only [h1, h2, Bool.not_true, Bool.not_false, if_true, if_false, Bool.false_eq_true] <;>
    exact key _

theorem gen_parseLocalSource (s : Str) :
    Gen.parseLocalSource s = (match parseLocal s with | some r => (r, false) | none => ([], true)) := by
  unfold Gen.parseLocalSource parseLocal
  simp only [gen_looksLikeLocalSource, Go.pathClean, Go.containsAny]
  have e1 : (fun c : Char => [':', '\\'].contains c) = (fun c => decide (c = ':') || decide (c = '\\')) := by
    funext c; simp
  rw [e1]
  by_cases h1 : (List.any s fun c => decide (c = ':') || decide (c = '\\')) = true
  · simp [h1, Id.run]; rfl
  · have e2 : (!looksLikeLocal s && s != ['.'] && s != ['.', '.']) =
        (!looksLikeLocal s && decide (s ≠ dot) && decide (s ≠ dotdot)) := by
      have a : (s != ['.']) = decide (s ≠ dot) := by by_cases a : s = ['.'] <;> simp [a, dot]
      have b : (s != ['.', '.']) = decide (s ≠ dotdot) := by by_cases b : s = ['.', '.'] <;> simp [b, dotdot]
      rw [a, b]
    rw [e2]
    by_cases h2 : (!looksLikeLocal s && decide (s ≠ dot) && decide (s ≠ dotdot)) = true
    · simp only [h1, h2, if_true]; rfl
    · simp only [h1, h2, if_false, Bool.false_eq_true]
      have l1 : looksLikeLocal ['.', '.', '/'] = true := by decide
      have l2 : looksLikeLocal ['.', '/'] = true := by decide
      have n1 : (['.'] : Str) ≠ ['.', '.'] := by decide
      by_cases h3 : pathClean s = ['.', '.']
      · simp only [h3, l1, dotdot, beq_self_eq_true, if_true, Bool.not_true, Bool.false_eq_true, if_false]
        by_cases h6 : ['.', '.', '/'] = s
        · simp [h6, Id.run]; rfl
        · simp [h6, Id.run]; rfl
      · by_cases h4 : pathClean s = ['.']
        · simp only [h4, l2, n1, dot, dotdot, beq_self_eq_true, if_true, Bool.not_true, Bool.false_eq_true,
            if_false, beq_iff_eq]
          by_cases h6 : ['.', '/'] = s
          · simp [h6, Id.run]; rfl
          · simp [h6, Id.run]; rfl
        · by_cases h5 : looksLikeLocal (pathClean s) = true
          · simp only [h3, h4, h5, dot, dotdot, beq_iff_eq, Bool.not_true, Bool.false_eq_true, if_false]
            by_cases h6 : pathClean s = s
            · simp [h6, Id.run]; rfl
            · simp [h6, Id.run]; rfl
          · simp only [h3, h4, h5, dot, dotdot, beq_iff_eq, if_true, Bool.not_false, if_false]
            by_cases h6 : '.' :: '/' :: pathClean s = s
            · simp [h6, Id.run]; rfl
            · simp [h6, Id.run]; rfl

private theorem neg_one_lt_natCast (n : Nat) : ((-1 : Int) < (n : Int)) = True := by
  simp only [eq_iff_iff, iff_true]; omega

/-- normal form after one `strings.Index` result has been substituted: the `idx > -1` tests are decided
and `Int` positions made of natural numbers are read back as natural numbers -/
local macro "gnorm" : tactic => `(tactic|
  (try simp only [neg_one_lt_natCast, Int.lt_irrefl, if_true, if_false, decide_true, decide_false,
      Bool.false_eq_true, Int.toNat_natCast, List.take_length, List.drop_zero, Int.add_zero, Int.zero_add,
      Int.toNat_zero, beq_self_eq_true, gt_iff_lt]
   try norm_cast
   try simp only [Int.toNat_natCast, Nat.add_zero, if_false]))

set_option hygiene false in
/-- the last two searches of `splitSubPath`: `//` in `$X`, then `?` in `$Y` (which may mention `k`) -/
local macro "tail34" X:term ", " Y:term : tactic => `(tactic|
  (rcases h3 : indexOf ['/', '/'] $X with _ | k
   · simp only [Go.index_none h3]; gnorm; try rfl
   · simp only [Go.index_some h3]; gnorm
     rcases h4 : indexOf ['?'] $Y with _ | q
     · simp only [Go.index_none h4]; gnorm; try rfl
     · simp only [Go.index_some h4]; gnorm; try rfl))

theorem gen_splitSubPath (s : Str) : Gen.splitSubPath s = splitSubPath s := by
  unfold Gen.splitSubPath splitSubPath
  simp only [Id.run, Go.len, Go.sliceTo, Go.slice, Go.sliceFrom]
  rcases h1 : indexOf ['?'] s with _ | i
  · simp only [Go.index_none h1]; gnorm
    rcases h2 : indexOf [':', '/', '/'] s with _ | j
    · simp only [Go.index_none h2]; gnorm
      tail34 s, (s.drop (k + 2))
    · simp only [Go.index_some h2]; gnorm
      tail34 (s.drop (j + 3)), (s.drop (k + (j + 3) + 2))
  · simp only [Go.index_some h1]; gnorm
    rcases h2 : indexOf [':', '/', '/'] (s.take i) with _ | j
    · simp only [Go.index_none h2]; gnorm
      tail34 (s.take i), (s.drop (k + 2))
    · simp only [Go.index_some h2]; gnorm
      tail34 ((s.take i).drop (j + 3)), (s.drop (k + (j + 3) + 2))
/-! ## `Ruleset.Excludes` -/

/-- one iteration of the translated loop, as a pure function of the loop state -/
def exclStep (path : Str) (acc : Bool × Bool × Bool) (rule : Rule) : Bool × Bool × Bool :=
  if ruleMatches rule path then (acc.1, !rule.negated, !rule.negated && !rule.negAfter) else acc

theorem gen_excludes_loop (path : Str) (rules : List Rule) (acc : Bool × Bool × Bool) :
    (forIn (m := Id) rules acc fun rule₀ __s =>
            have retErr := __s.fst;
            have __s := __s.snd;
            have foundMatch := __s.fst;
            have dominating := __s.snd;
            have rule := rule₀;
            match Slug.Go.ruleMatch rule path with
            | (r'_1, r'_2) =>
              have match' := r'_1;
              have err := r'_2;
              have __do_jp := fun (__r : Unit) retErr =>
                if match' = true then
                  have foundMatch := !rule.negated;
                  have dominating := foundMatch && !rule.negAfter;
                  pure (ForInStep.yield (retErr, foundMatch, dominating))
                else pure (ForInStep.yield (retErr, foundMatch, dominating));
              if err = true then
                if (!retErr) = true then
                  have retErr := true;
                  __do_jp () retErr
                else __do_jp () retErr
              else __do_jp () retErr) = pure (rules.foldl (exclStep path) acc) := by
  induction rules generalizing acc with
  | nil => simp
  | cons r rs ih =>
    simp only [List.forIn_cons, List.foldl_cons, Go.ruleMatch]
    by_cases hm : ruleMatches r path = true
    · simp [hm, exclStep]
      exact ih _
    · simp [hm, exclStep]
      exact ih _

theorem exclStep_fold (path : Str) (rules : List Rule) (e : Bool) (acc : Bool × Bool) :
    rules.foldl (exclStep path) (e, acc) =
      (e, rules.foldl (fun (acc : Bool × Bool) r =>
        if ruleMatches r path then (!r.negated, !r.negated && !r.negAfter) else acc) acc) := by
  induction rules generalizing acc with
  | nil => rfl
  | cons r rs ih =>
    simp only [List.foldl_cons, exclStep]
    by_cases hm : ruleMatches r path = true
    · simp [hm]; exact ih _
    · simp [hm]; exact ih _

theorem gen_excludes (rules : List Rule) (path : Str) :
    Gen.excludes rules path = (excludes rules path, false) := by
  unfold Gen.excludes
  simp only [Id.run]
  have h := gen_excludes_loop path rules (false, false, false)
  simp only [Bool.false_eq_true, ↓reduceIte] at h ⊢
  rw [show (forIn (m := Id) rules (false, false, false) _) = _ from h]
  rw [exclStep_fold]
  rfl
end Slug
