import SlugModel.Lemmas.TrEq_normalizeSubpath
import SlugModel.Lemmas.TrEq_joinSubPath
import SlugModel.Lemmas.TrEq_looksLikeLocalSource
import SlugModel.Lemmas.TrEq_isWithin
import SlugModel.Lemmas.TrEq_allowedSymlinkTarget
import SlugModel.Lemmas.TrEq_validSymlink
import SlugModel.Lemmas.TrEq_parseLocalSource
import SlugModel.Lemmas.TrEq_splitSubPath
import SlugModel.Lemmas.TrEq_excludes
import SlugModel.Lemmas.TrEq_isSymlink
import SlugModel.Lemmas.TrEq_isDirectory
import SlugModel.Lemmas.TrEq_isTypeX
import SlugModel.Lemmas.TrEq_isRegular
import SlugModel.Lemmas.TrEq_newUnpackInfo
import SlugModel.Lemmas.TrEq_finalSourceAddr
import SlugModel.Lemmas.TrEq_validSubPath
import SlugModel.Lemmas.TrEq_readRules
/-! All translation equalities (one file per function, so that a function that changes breaks only
the obligations stated over it). -/
