import SlugModel.Generated.Tr_splitSubPath
import SlugModel.Addr
/-!
# `splitSubPath`: the model function equals the translation of the Go function

The definition `Slug.Gen.splitSubPath` (Generated/Tr_splitSubPath.lean) is rewritten from /repo by harness/cmd/go2lean on
every run; the theorem here is re-checked against it.
-/
namespace Slug

private theorem neg_one_lt_natCast (n : Nat) : ((-1 : Int) < (n : Int)) = True := by
  simp only [eq_iff_iff, iff_true]; omega

/-- normal form after one `strings.Index` result has been substituted: the `idx > -1` tests are decided
and `Int` positions made of natural numbers are read back as natural numbers -/
local macro "gnorm" : tactic => `(tactic|
  (try simp only [neg_one_lt_natCast, Int.lt_irrefl, if_true, if_false, decide_true, decide_false,
      Bool.false_eq_true, Int.toNat_natCast, List.take_length, List.drop_zero, Int.add_zero, Int.zero_add,
      Int.toNat_zero, beq_self_eq_true, gt_iff_lt]
   try norm_cast
   try simp only [Int.toNat_natCast, Nat.add_zero, if_false]))

set_option hygiene false in
/-- the last two searches of `splitSubPath`: `//` in `$X`, then `?` in `$Y` (which may mention `k`) -/
local macro "tail34" X:term ", " Y:term : tactic => `(tactic|
  (rcases h3 : indexOf ['/', '/'] $X with _ | k
   · simp only [Go.index_none h3]; gnorm; try rfl
   · simp only [Go.index_some h3]; gnorm
     rcases h4 : indexOf ['?'] $Y with _ | q
     · simp only [Go.index_none h4]; gnorm; try rfl
     · simp only [Go.index_some h4]; gnorm; try rfl))

theorem gen_splitSubPath (s : Str) : Gen.splitSubPath s = splitSubPath s := by
  unfold Gen.splitSubPath splitSubPath
  simp only [Id.run, Go.len, Go.sliceTo, Go.slice, Go.sliceFrom]
  rcases h1 : indexOf ['?'] s with _ | i
  · simp only [Go.index_none h1]; gnorm
    rcases h2 : indexOf [':', '/', '/'] s with _ | j
    · simp only [Go.index_none h2]; gnorm
      tail34 s, (s.drop (k + 2))
    · simp only [Go.index_some h2]; gnorm
      tail34 (s.drop (j + 3)), (s.drop (k + (j + 3) + 2))
  · simp only [Go.index_some h1]; gnorm
    rcases h2 : indexOf [':', '/', '/'] (s.take i) with _ | j
    · simp only [Go.index_none h2]; gnorm
      tail34 (s.take i), (s.drop (k + 2))
    · simp only [Go.index_some h2]; gnorm
      tail34 ((s.take i).drop (j + 3)), (s.drop (k + (j + 3) + 2))

end Slug
