import SlugModel.Lemmas.WalkFilter
import SlugModel.Lemmas.UntarRefine
/-!
# Lemmas/FilteredTrip — `untar` of a pre-order archive with missing directory entries (C02, ignore on)

`Lemmas/RoundTrip` reads `untar` on *listings*: every path once, every parent directory written before
its children (`RtListing`).  An archive written with ignore processing on is a listing with holes: the
entry of a directory may be missing (its path with a trailing `/` is excluded) while entries below it
are present (re-included by a later `!` rule, or simply not excluded).  This file reads `untar` on such
archives.

* `FtArch es` (the domain): every entry is named, lies below the root and is a directory, file or link
  (`ftPlain`); and for `d` before `e` in the list (`ftBefore d e`) the path of `e` is not at or above
  the path of `d`, and if the path of `d` is above the path of `e` then `d` is a directory entry.
  Nothing is asked about the *presence* of parents.  The class is closed under sublists
  (`FtArch.filter`), contains every name-sorted pre-order listing (`ft_arch_of_preorder`), and every
  member whose names have no `..` and whose links are tidy is a `WellFormedArchive`
  (`ft_arch_wellFormed`): Spec/Untar states its no-conflict clause on the abstract run, where
  `mkParents` has already created the missing parents as directories.
* `ft_untar_arch`: `untar` succeeds; an entry's path carries the entry's node (`rtNodeOf`: directories
  get their own mode and time through the deferred records); a path that has no entry but lies above
  an entry's path is a directory `0755` with the time of the run (`nowT`); every other path is absent.
  The proof runs on the views of Lemmas/UntarRefine (`UrG`, `urFill`, `urSetAt`), invariant `FtInv`.
* `ftShips`, `ft_pack_arch`, `ft_pack_untar`: the statements for `pack` with ignore processing on, from
  `wf_pack_listing` (Lemmas/WalkFilter).
-/
namespace Slug

/-! ## pre-order archives, possibly with missing directory entries -/

/-- `d` may come before `e`: the path of `e` is not at or above the path of `d`; and if the path of
`d` is above the path of `e`, then `d` is a directory entry -/
def ftBefore (d e : Entry) : Prop :=
  ¬ entryRel e.name <+: entryRel d.name ∧ (entryRel d.name <+: entryRel e.name → d.isDir = true)

/-- named, below the root, and a directory, a link or a regular file -/
def ftPlain (e : Entry) : Prop :=
  e.name ≠ [] ∧ entryRel e.name ≠ [] ∧ (e.isDir || e.isSymlink || e.isRegular) = true

/-- a pre-order archive (parents are NOT required to have entries) -/
structure FtArch (es : List Entry) : Prop where
  plain : ∀ e ∈ es, ftPlain e
  order : es.Pairwise ftBefore

theorem FtArch.filter {es : List Entry} (h : FtArch es) (keep : Entry → Bool) : FtArch (es.filter keep) :=
  ⟨fun e he => h.plain e (List.mem_filter.mp he).1, h.order.sublist List.filter_sublist⟩

theorem FtArch.append_left {A B : List Entry} (h : FtArch (A ++ B)) : FtArch A :=
  ⟨fun e he => h.plain e (List.mem_append_left _ he), (List.pairwise_append.mp h.order).1⟩

theorem FtArch.nil : FtArch [] := ⟨fun _ h => (nomatch h), List.Pairwise.nil⟩

theorem FtArch.nodup {es : List Entry} (h : FtArch es) : (es.map (fun e => entryRel e.name)).Nodup := by
  have : es.Pairwise (fun d e => entryRel d.name ≠ entryRel e.name) :=
    h.order.imp (fun hb e1 => hb.1 (by rw [e1]; exact List.prefix_refl _))
  exact List.pairwise_map.mpr this

theorem ft_key_inj {α β : Type} (f : α → β) : ∀ (l : List α), (l.map f).Nodup →
    ∀ a ∈ l, ∀ b ∈ l, f a = f b → a = b := by
  intro l
  induction l with
  | nil => intro _ a ha; cases ha
  | cons x l ih =>
    intro hnd a ha b hb hab
    rw [List.map_cons, List.nodup_cons] at hnd
    rcases List.mem_cons.mp ha with rfl | ha' <;> rcases List.mem_cons.mp hb with rfl | hb'
    · rfl
    · exact absurd (List.mem_map.mpr ⟨b, hb', hab.symm⟩) hnd.1
    · exact absurd (List.mem_map.mpr ⟨a, ha', hab⟩) hnd.1
    · exact ih hnd.2 a ha' b hb' hab

/-- the node `untarEntry` binds at the entry's path: directories start as `0755`/`nowT` -/
def ftNode0 (e : Entry) : Node := if e.isDir then urStdDir else rtNodeOf e

/-- the deferred record of an entry -/
def ftDefer (e : Entry) : Option (RelPath × Nat × Int) :=
  if e.isDir then some (entryRel e.name, e.mode, e.mtime) else none

/-- one plain entry at a free path whose ancestors are missing or directories, on views -/
theorem ft_untarEntry (st : UntarState) (e : Entry) (hpl : ftPlain e) (hG : UrG (treeGet st.tree))
    (hfree : UrFree (treeGet st.tree) (entryRel e.name).dropLast)
    (hnone : treeGet st.tree (entryRel e.name) = none) :
    ∃ tree', untarEntry st e = some { tree := tree', deferred := st.deferred ++ (ftDefer e).toList } ∧
      treeGet tree' =
        urSetAt (urFill (treeGet st.tree) (entryRel e.name).dropLast) (entryRel e.name) (ftNode0 e) := by
  obtain ⟨hn, hp, hk⟩ := hpl
  cases hd : e.isDir with
  | true =>
    obtain ⟨tree', h1, h2⟩ := ur_untar_dir st e hn hd hp hG hfree
    refine ⟨tree', ?_, ?_⟩
    · rw [h1]; simp [ftDefer, hd]
    · rw [h2, urFill_last_none hp hnone]; simp [ftNode0, hd]
  | false =>
    cases hs : e.isSymlink with
    | true =>
      obtain ⟨tree', h1, h2⟩ := ur_untar_link st e hn hs hp hG hfree
      refine ⟨tree', ?_, ?_⟩
      · rw [h1]; simp [ftDefer, hd]
      · rw [h2]; simp [ftNode0, rtNodeOf, hd, hs]
    | false =>
      have hr : e.isRegular = true := by simpa [hd, hs] using hk
      obtain ⟨tree', h1, h2⟩ := ur_untar_reg st e hn hr hp hG hfree
      refine ⟨tree', ?_, ?_⟩
      · rw [h1]; simp [ftDefer, hd]
      · rw [h2]; simp [ftNode0, rtNodeOf, hd, hs]

/-- the state of `untar` after the entries `pre` -/
structure FtInv (pre : List Entry) (st : UntarState) : Prop where
  G : UrG (treeGet st.tree)
  bound : ∀ r, r ≠ [] → (treeGet st.tree r ≠ none ↔ ∃ e ∈ pre, r <+: entryRel e.name)
  nodes : ∀ e ∈ pre, treeGet st.tree (entryRel e.name) = some (ftNode0 e)
  deferred : st.deferred = pre.filterMap ftDefer

theorem ft_node0_dir {e : Entry} (h : e.isDir = true) : ftNode0 e = urStdDir := by
  unfold ftNode0; rw [if_pos h]

/-- before an entry that may follow all of `pre`: its path is free, its ancestors missing or directories -/
theorem ft_pre_facts {pre : List Entry} {st : UntarState} {e : Entry} (hinv : FtInv pre st) (hpl : ftPlain e)
    (hb : ∀ d ∈ pre, ftBefore d e) :
    treeGet st.tree (entryRel e.name) = none ∧ UrFree (treeGet st.tree) (entryRel e.name).dropLast := by
  constructor
  · cases hg : treeGet st.tree (entryRel e.name) with
    | none => rfl
    | some n =>
      obtain ⟨d, hd, hpre⟩ := (hinv.bound _ hpl.2.1).mp (by rw [hg]; simp)
      exact absurd hpre (hb d hd).1
  · intro q hq
    by_cases hq0 : q = []
    · rw [hq0]; exact Or.inr hinv.G.root
    · by_cases hn : treeGet st.tree q = none
      · exact Or.inl hn
      · right
        obtain ⟨d, hd, hqd⟩ := (hinv.bound q hq0).mp hn
        by_cases he : q = entryRel d.name
        · have hdir : d.isDir = true :=
            (hb d hd).2 (by rw [← he]; exact hq.trans (List.dropLast_prefix _))
          rw [he, hinv.nodes d hd, ft_node0_dir hdir]
          exact ur_isDir_std
        · exact hinv.G.above (entryRel d.name) (by rw [hinv.nodes d hd]; simp) q hqd he

theorem ft_inv_step {pre : List Entry} {st : UntarState} {e : Entry} (hinv : FtInv pre st) (hpl : ftPlain e)
    (hb : ∀ d ∈ pre, ftBefore d e) :
    ∃ st', untarEntry st e = some st' ∧ FtInv (pre ++ [e]) st' := by
  obtain ⟨hnone, hfree⟩ := ft_pre_facts hinv hpl hb
  obtain ⟨tree', h1, h2⟩ := ft_untarEntry st e hpl hinv.G hfree hnone
  have hp := hpl.2.1
  refine ⟨_, h1, ?_, ?_, ?_, ?_⟩
  · show UrG (treeGet tree')
    rw [h2]
    apply urG_set (urG_fill hinv.G hfree) hp
    · exact urFill_prefix_dir hfree _ (List.prefix_refl _)
    · intro h
      rw [urFill_dropLast_self hp, hnone] at h
      obtain ⟨_, _, h⟩ := h
      cases h
    · intro perm mt h
      unfold ftNode0 at h
      split at h
      · unfold urStdDir at h; cases h; exact ⟨rfl, rfl⟩
      · rename_i hd
        unfold rtNodeOf at h
        rw [if_neg hd] at h
        split at h <;> cases h
  · intro r hr
    show treeGet tree' r ≠ none ↔ _
    rw [h2]
    constructor
    · intro h
      by_cases e1 : r = entryRel e.name
      · exact ⟨e, by simp, by rw [e1]; exact List.prefix_refl _⟩
      · rw [urSetAt_ne _ _ e1] at h
        unfold urFill at h
        by_cases hc : r <+: (entryRel e.name).dropLast ∧ treeGet st.tree r = none
        · exact ⟨e, by simp, hc.1.trans (List.dropLast_prefix _)⟩
        · rw [if_neg hc] at h
          obtain ⟨d, hd, hpre⟩ := (hinv.bound r hr).mp h
          exact ⟨d, List.mem_append_left _ hd, hpre⟩
    · rintro ⟨d, hd, hpre⟩
      by_cases e1 : r = entryRel e.name
      · rw [e1, urSetAt_self]; simp
      · rw [urSetAt_ne _ _ e1]
        rcases List.mem_append.mp hd with hd | hd
        · have hb' := (hinv.bound r hr).mpr ⟨d, hd, hpre⟩
          rw [urFill_of_bound hb']; exact hb'
        · rw [List.mem_singleton] at hd
          subst hd
          have hpd : r <+: (entryRel d.name).dropLast := (ur_prefix_dropLast_iff r _ hp).mpr ⟨hpre, e1⟩
          by_cases hg : treeGet st.tree r = none
          · unfold urFill; rw [if_pos ⟨hpd, hg⟩]; simp
          · rw [urFill_of_bound hg]; exact hg
  · intro d hd
    show treeGet tree' (entryRel d.name) = some (ftNode0 d)
    rw [h2]
    rcases List.mem_append.mp hd with hd | hd
    · have hne : entryRel d.name ≠ entryRel e.name :=
        fun e1 => (hb d hd).1 (by rw [e1]; exact List.prefix_refl _)
      rw [urSetAt_ne _ _ hne, urFill_of_bound (by rw [hinv.nodes d hd]; simp), hinv.nodes d hd]
    · rw [List.mem_singleton] at hd
      subst hd
      rw [urSetAt_self]
  · show st.deferred ++ (ftDefer e).toList = (pre ++ [e]).filterMap ftDefer
    rw [List.filterMap_append, hinv.deferred]
    congr 1

theorem ft_inv_init : FtInv [] { tree := [([], .dir 0o755 nowT)], deferred := [] } := by
  have hnone : ∀ r : RelPath, r ≠ [] → treeGet [(([] : RelPath), Node.dir 0o755 nowT)] r = none := by
    intro r hr
    have : ¬ ([] : RelPath) = r := fun e => hr e.symm
    simp [treeGet, FS.get, this]
  refine ⟨⟨⟨_, _, rfl⟩, ?_, ?_⟩, ?_, fun _ h => (nomatch h), rfl⟩
  · intro r hr hb; exact absurd (hnone r hr) hb
  · intro r perm mt hr hg
    have := hnone r hr
    rw [this] at hg; cases hg
  · intro r hr
    constructor
    · intro h; exact absurd (hnone r hr) h
    · rintro ⟨_, h, _⟩; cases h

theorem ft_untar_fold : ∀ (post pre : List Entry) (st : UntarState), FtArch (pre ++ post) → FtInv pre st →
    ∃ st', post.foldlM untarEntry st = some st' ∧ FtInv (pre ++ post) st' := by
  intro post
  induction post with
  | nil =>
    intro pre st _ hinv
    rw [List.append_nil]
    exact ⟨st, rfl, hinv⟩
  | cons e post ih =>
    intro pre st harch hinv
    have hpl : ftPlain e := harch.plain e (by simp)
    have hb : ∀ d ∈ pre, ftBefore d e := fun d hd =>
      (List.pairwise_append.mp harch.order).2.2 d hd e (by simp)
    obtain ⟨st1, hs, hinv1⟩ := ft_inv_step hinv hpl hb
    have e1 : pre ++ e :: post = (pre ++ [e]) ++ post := by simp
    obtain ⟨st', hf, hinv'⟩ := ih (pre ++ [e]) st1 (by rw [← e1]; exact harch) hinv1
    refine ⟨st', ?_, by rw [e1]; exact hinv'⟩
    rw [List.foldlM_cons]
    show (untarEntry st e).bind _ = _
    rw [hs]
    exact hf

theorem ft_defer_fst {e : Entry} {d : RelPath × Nat × Int} (h : ftDefer e = some d) :
    e.isDir = true ∧ d = (entryRel e.name, e.mode, e.mtime) := by
  unfold ftDefer at h
  split at h
  · rename_i hd; cases h; exact ⟨hd, rfl⟩
  · cases h

theorem ft_defer_sublist (es : List Entry) :
    ((es.filterMap ftDefer).map (·.1)).Sublist (es.map (fun e => entryRel e.name)) := by
  induction es with
  | nil => exact List.Sublist.slnil
  | cons x M ih =>
    rw [List.filterMap_cons]
    split
    · exact List.Sublist.cons _ ih
    · rename_i d hd
      obtain ⟨_, e2⟩ := ft_defer_fst hd
      rw [List.map_cons, List.map_cons, e2]
      exact List.Sublist.cons_cons _ ih

theorem ft_nodeOf_dir {e : Entry} (h : e.isDir = true) : rtNodeOf e = .dir e.mode e.mtime := by
  unfold rtNodeOf; rw [if_pos h]

/-- **`untar` on a pre-order archive with missing directory entries** -/
theorem ft_untar_arch (es : List Entry) (h : FtArch es) :
    ∃ t, untar es = some t ∧
      (∀ e ∈ es, treeGet t (entryRel e.name) = some (rtNodeOf e)) ∧
      (∀ r, r ≠ [] → r ∉ es.map (fun e => entryRel e.name) → (∃ e ∈ es, r <+: entryRel e.name) →
        treeGet t r = some (.dir 0o755 nowT)) ∧
      (∀ r, r ≠ [] → (∀ e ∈ es, ¬ r <+: entryRel e.name) → treeGet t r = none) := by
  obtain ⟨st, hf, hinv⟩ := ft_untar_fold es [] _ (by simpa using h) ft_inv_init
  rw [List.nil_append] at hinv
  have hnd := h.nodup
  have hdnd : (st.deferred.map (·.1)).Nodup := by
    rw [hinv.deferred]; exact hnd.sublist (ft_defer_sublist es)
  have hdirs : ∀ x ∈ st.deferred, ∃ pm mt, treeGet st.tree x.1 = some (.dir pm mt) := by
    intro x hx
    rw [hinv.deferred, List.mem_filterMap] at hx
    obtain ⟨y, hy, hd⟩ := hx
    obtain ⟨hdir, e1⟩ := ft_defer_fst hd
    rw [e1, hinv.nodes y hy, ft_node0_dir hdir]
    exact ⟨_, _, rfl⟩
  obtain ⟨hA, hB⟩ := rt_applyDeferred st.deferred st.tree hdnd hdirs
  have hnot : ∀ r, r ∉ es.map (fun e => entryRel e.name) → r ∉ st.deferred.map (·.1) := by
    intro r hr hmem
    exact hr ((ft_defer_sublist es).subset (by rw [← hinv.deferred]; exact hmem))
  refine ⟨applyDeferred st.tree st.deferred, by unfold untar; rw [hf], ?_, ?_, ?_⟩
  · intro e he
    cases hd : e.isDir with
    | true =>
      have : (entryRel e.name, e.mode, e.mtime) ∈ st.deferred := by
        rw [hinv.deferred, List.mem_filterMap]
        exact ⟨e, he, by unfold ftDefer; rw [if_pos hd]⟩
      rw [ft_nodeOf_dir hd]
      exact hA _ this
    | false =>
      rw [hB]
      · rw [hinv.nodes e he]; unfold ftNode0; rw [if_neg (by rw [hd]; simp)]
      · intro hmem
        obtain ⟨d, hdm, e1⟩ := List.mem_map.mp hmem
        rw [hinv.deferred, List.mem_filterMap] at hdm
        obtain ⟨y, hy, hyd⟩ := hdm
        obtain ⟨hydir, e2⟩ := ft_defer_fst hyd
        have hk : entryRel y.name = entryRel e.name := by rw [← e1, e2]
        have := ft_key_inj (fun e : Entry => entryRel e.name) es hnd y hy e he hk
        rw [this, hd] at hydir
        cases hydir
  · rintro r hr hnk ⟨e, he, hpre⟩
    rw [hB r (hnot r hnk)]
    have hne : r ≠ entryRel e.name := fun e1 => hnk (List.mem_map.mpr ⟨e, he, e1.symm⟩)
    obtain ⟨pm, mt, hg⟩ := hinv.G.above (entryRel e.name) (by rw [hinv.nodes e he]; simp) r hpre hne
    obtain ⟨h1, h2⟩ := hinv.G.std r pm mt hr hg
    rw [hg, h1, h2]
  · intro r hr hno
    have hnk : r ∉ es.map (fun e => entryRel e.name) := by
      intro hm
      obtain ⟨e, he, e1⟩ := List.mem_map.mp hm
      exact hno e he (by rw [e1]; exact List.prefix_refl _)
    rw [hB r (hnot r hnk)]
    cases hg : treeGet st.tree r with
    | none => rfl
    | some n =>
      obtain ⟨e, he, hpre⟩ := (hinv.bound r hr).mp (by rw [hg]; simp)
      exact absurd hpre (hno e he)

/-- a pre-order archive whose names have no `..` and whose links are tidy is well formed in the sense
of Spec/Untar — whether or not the parents of its entries have entries -/
theorem ft_arch_wellFormed (es : List Entry) (h : FtArch es)
    (hnames : ∀ e ∈ es, dotdot ∉ splitOn '/' e.name)
    (hlinks : ∀ e ∈ es, e.isSymlink = true → e.link ≠ [] ∧ isAbs e.link = false ∧
      (∃ ups names, pathSegs e.link = List.replicate ups dotdot ++ names ∧ (∀ s ∈ names, s ≠ dotdot) ∧
        ups < (entryRel e.name).length)) :
    WellFormedArchive es := by
  refine ⟨fun e he _ => hnames e he, ?_, fun e he hs _ => hlinks e he hs⟩
  intro pre e post st hes hpre _ _
  have harch : FtArch (pre ++ e :: post) := by rw [← hes]; exact h
  obtain ⟨st', hf, hinv⟩ := ft_untar_fold pre [] _ (by simpa using harch.append_left) ft_inv_init
  rw [List.nil_append] at hinv
  rw [hpre] at hf
  cases hf
  have hpl : ftPlain e := harch.plain e (by simp)
  have hb : ∀ d ∈ pre, ftBefore d e := fun d hd =>
    (List.pairwise_append.mp harch.order).2.2 d hd e (by simp)
  obtain ⟨hnone, hfree⟩ := ft_pre_facts hinv hpl hb
  constructor
  · intro q hq n hn
    obtain ⟨_, hq2⟩ := (ur_mem_properPrefixes _ q).mp hq
    rcases hfree q hq2 with h0 | ⟨pm, mt, h1⟩
    · rw [h0] at hn; cases hn
    · rw [h1] at hn; cases hn; exact ⟨pm, mt, rfl⟩
  · rw [hnone]
    trivial

/-! ## name-sorted pre-order listings are pre-order archives -/

theorem ft_not_lt_of_prefix {p q : RelPath} (h : q <+: p) : ¬ p < q := by
  obtain ⟨s, rfl⟩ := h
  cases s with
  | nil => rw [List.append_nil]; exact List.lt_irrefl _
  | cons n a =>
    intro hlt
    exact List.lt_irrefl _ (List.lt_trans hlt (rt_lt_below q n a))

/-- the clauses of `C02_pack_preorder` that do not mention the filesystem make a pre-order archive -/
theorem ft_arch_of_preorder (es : List Entry) (hpl : ∀ e ∈ es, ftPlain e)
    (hpar : ∀ A e B, es = A ++ e :: B → ∀ q ∈ properPrefixes (entryRel e.name),
      ∃ d ∈ A, d.isDir = true ∧ entryRel d.name = q)
    (hsorted : (es.map (fun e => entryRel e.name)).Pairwise (· < ·)) : FtArch es := by
  have hnd : (es.map (fun e => entryRel e.name)).Nodup :=
    hsorted.imp (fun {a b} hlt e1 => by rw [e1] at hlt; exact List.lt_irrefl _ hlt)
  refine ⟨hpl, ?_⟩
  refine (List.pairwise_map.mp hsorted).imp_of_mem ?_
  intro d e hd he hlt
  refine ⟨fun hpre => ft_not_lt_of_prefix hpre hlt, fun hpre => ?_⟩
  obtain ⟨A, B, hsplit⟩ := List.append_of_mem he
  have hne : entryRel d.name ≠ entryRel e.name := fun e1 => by rw [e1] at hlt; exact List.lt_irrefl _ hlt
  have hlen : (entryRel d.name).length < (entryRel e.name).length := by
    rcases Nat.lt_or_ge (entryRel d.name).length (entryRel e.name).length with h' | h'
    · exact h'
    · exact absurd (hpre.eq_of_length (Nat.le_antisymm hpre.length_le h')) hne
  obtain ⟨d', hd', hdir, hk⟩ := hpar A e B hsplit _ (rt_properPrefixes_of (hpl d hd).2.1 hpre hlen)
  have hd'm : d' ∈ es := by rw [hsplit]; exact List.mem_append_left _ hd'
  have := ft_key_inj (fun e : Entry => entryRel e.name) es hnd d' hd'm d hd hk
  rw [← this]; exact hdir

/-! ## `Pack` with ignore processing on -/

/-- the node at `r` ships: reachable through real directories, not special, own path passes the
callback's tests, no ancestor directory skipped -/
def ftShips (rs : List Rule) (fs : FS) (P : PPath) (r : RelPath) : Prop :=
  ∃ nd, rtRaw fs P r = some nd ∧ nd ≠ .special ∧ wfKept rs r nd ∧ wfOpenFrom 1 rs r

theorem ftShips_iff_shipB (rs : List Rule) (fs : FS) (P : PPath) (r : RelPath) :
    ftShips rs fs P r ↔ ∃ nd, rtRaw fs P r = some nd ∧ nd ≠ .special ∧ wfShipB rs r (wfIsDir nd) = true := by
  unfold ftShips
  constructor
  · rintro ⟨nd, h1, h2, h3, h4⟩; exact ⟨nd, h1, h2, (wfShipB_iff rs r nd).mpr ⟨h3, h4⟩⟩
  · rintro ⟨nd, h1, h2, h3⟩
    obtain ⟨h4, h5⟩ := (wfShipB_iff rs r nd).mp h3
    exact ⟨nd, h1, h2, h4, h5⟩

theorem ft_plain_rtEntry (r : RelPath) (nd : Node) (hne : r ≠ []) (hr : ∀ c ∈ r, NameNS c) (hs : nd ≠ .special) :
    ftPlain (rtEntry r nd) := by
  refine ⟨rt_rtEntry_name_ne_nil r nd hne hr, by rw [rt_entryRel_rtEntry r nd hr]; exact hne, ?_⟩
  cases nd with
  | special => exact absurd rfl hs
  | dir perm mt => rfl
  | file perm mt c => rfl
  | link t => rfl

/-- a list of reachable non-special nodes sorted by path gives a pre-order archive -/
theorem ft_arch_of_sorted {fs : FS} {P : PPath} (hnames : PackNamesOK fs) (M : List (RelPath × Node))
    (hraw : ∀ x ∈ M, rtRaw fs P x.1 = some x.2 ∧ x.2 ≠ .special)
    (hsorted : (M.map (·.1)).Pairwise (· < ·)) : FtArch (M.map rtEntryP) := by
  have hN : ∀ x ∈ M, ∀ c ∈ x.1, NameNS c := fun x hx c hc =>
    rt_raw_names hnames (hraw x hx).1 c (List.mem_append_right _ hc)
  have hkey : ∀ x ∈ M, entryRel (rtEntryP x).name = x.1 := fun x hx => rt_entryRel_rtEntry x.1 x.2 (hN x hx)
  constructor
  · intro e he
    obtain ⟨x, hx, rfl⟩ := List.mem_map.mp he
    exact ft_plain_rtEntry x.1 x.2 (rt_raw_some.mp (hraw x hx).1).1 (hN x hx) (hraw x hx).2
  · rw [List.pairwise_map]
    refine (List.pairwise_map.mp hsorted).imp_of_mem ?_
    intro x y hx hy hlt
    unfold ftBefore
    rw [hkey x hx, hkey y hy]
    refine ⟨fun hpre => ft_not_lt_of_prefix hpre hlt, fun hpre => ?_⟩
    have hne : x.1 ≠ y.1 := fun e1 => by rw [e1] at hlt; exact List.lt_irrefl _ hlt
    have hlen : x.1.length < y.1.length := by
      rcases Nat.lt_or_ge x.1.length y.1.length with h' | h'
      · exact h'
      · exact absurd (hpre.eq_of_length (Nat.le_antisymm hpre.length_le h')) hne
    obtain ⟨pm, mt, hd⟩ := rt_raw_prefix (hraw y hy).1
      (rt_properPrefixes_of (rt_raw_some.mp (hraw x hx).1).1 hpre hlen)
    rw [(hraw x hx).1] at hd
    have : x.2 = .dir pm mt := Option.some.inj hd
    show (rtEntry x.1 x.2).isDir = true
    rw [this]; rfl

/-- **the entries of `Pack` with ignore processing on** form a pre-order archive; each is the entry of
a node that ships, and every node that ships has its entry -/
theorem ft_pack_arch {fs : FS} {cwd : Str} {o : PackOpts} {src : Str}
    (ctx : WfCtx fs cwd o src (loadIgnore fs cwd src)) (hon : o.applyIgnore = true)
    (hfuel : (pack fs cwd o src).2 ≠ .diverged) :
    (pack fs cwd o src).2 = .ok ∧ FtArch (pack fs cwd o src).1.entries ∧
    (∀ e ∈ (pack fs cwd o src).1.entries, ∃ nd, rtRaw fs (pathSegs src) (entryRel e.name) = some nd ∧
      nd ≠ .special ∧ wfKept (loadIgnore fs cwd src) (entryRel e.name) nd ∧
      wfOpenFrom 1 (loadIgnore fs cwd src) (entryRel e.name) ∧ e = rtEntry (entryRel e.name) nd) ∧
    (∀ r nd, rtRaw fs (pathSegs src) r = some nd → nd ≠ .special →
      wfKept (loadIgnore fs cwd src) r nd → wfOpenFrom 1 (loadIgnore fs cwd src) r →
      rtEntry r nd ∈ (pack fs cwd o src).1.entries ∧ entryRel (rtEntry r nd).name = r) := by
  obtain ⟨hok, M, hent, hsub⟩ := wf_pack_listing ctx hon hfuel
  have hraw : ∀ x ∈ M, rtRaw fs (pathSegs src) x.1 = some x.2 ∧ x.2 ≠ .special := fun x hx =>
    ⟨(hsub.sound x hx).2.1, (hsub.sound x hx).2.2.1⟩
  have hN : ∀ x ∈ M, ∀ c ∈ x.1, NameNS c := fun x hx c hc =>
    rt_raw_names ctx.names (hraw x hx).1 c (List.mem_append_right _ hc)
  refine ⟨hok, by rw [hent]; exact ft_arch_of_sorted ctx.names M hraw hsub.sorted, ?_, ?_⟩
  · intro e he
    rw [hent] at he
    obtain ⟨x, hx, rfl⟩ := List.mem_map.mp he
    obtain ⟨_, h2, h3, h4, h5⟩ := hsub.sound x hx
    have hk : entryRel (rtEntryP x).name = x.1 := rt_entryRel_rtEntry x.1 x.2 (hN x hx)
    rw [hk]
    exact ⟨x.2, h2, h3, h4, h5, rfl⟩
  · intro r nd h1 h2 h3 h4
    have hx := hsub.complete r nd (rt_raw_some.mp h1).1 h1 h2 h3 h4
    rw [hent]
    exact ⟨List.mem_map.mpr ⟨(r, nd), hx, rfl⟩, rt_entryRel_rtEntry r nd (hN _ hx)⟩

/-- the names of `Pack`'s entries have no `..` component -/
theorem ft_rtEntry_no_dotdot (r : RelPath) (nd : Node) (hne : r ≠ []) (hr : ∀ c ∈ r, NameNS c) :
    dotdot ∉ splitOn '/' (rtEntry r nd).name := by
  intro hdd
  rcases rt_splitOn_rtEntry r nd hne hr dotdot hdd with h | h
  · exact (hr _ h).1.2.2 rfl
  · exact absurd h (by decide)

/-- **`untar` of what `Pack` writes with ignore processing on**: the nodes that ship as they are in the
source tree (`srcNode`), their ancestors that do not ship as plain directories `0755` with the time of
the run, nothing else; and the archive is well formed when the links that ship are tidy -/
theorem ft_pack_untar {fs : FS} {cwd : Str} {o : PackOpts} {src : Str}
    (ctx : WfCtx fs cwd o src (loadIgnore fs cwd src)) (hon : o.applyIgnore = true)
    (hfuel : (pack fs cwd o src).2 ≠ .diverged) :
    (∃ t, untar (pack fs cwd o src).1.entries = some t ∧
      (∀ r, ftShips (loadIgnore fs cwd src) fs (pathSegs src) r → treeGet t r = srcNode fs (pathSegs src) r) ∧
      (∀ r, r ≠ [] → ¬ ftShips (loadIgnore fs cwd src) fs (pathSegs src) r →
        (∃ r', ftShips (loadIgnore fs cwd src) fs (pathSegs src) r' ∧ r <+: r') →
        treeGet t r = some (.dir 0o755 nowT)) ∧
      (∀ r, r ≠ [] → (∀ r', ftShips (loadIgnore fs cwd src) fs (pathSegs src) r' → ¬ r <+: r') →
        treeGet t r = none)) ∧
    ((∀ r t, rtRaw fs (pathSegs src) r = some (.link t) →
        ftShips (loadIgnore fs cwd src) fs (pathSegs src) r → t ≠ [] ∧ isAbs t = false ∧
        ∃ ups names, pathSegs t = List.replicate ups dotdot ++ names ∧ (∀ s ∈ names, s ≠ dotdot) ∧
          ups < r.length) →
      WellFormedArchive (pack fs cwd o src).1.entries) ∧
    (∀ e ∈ (pack fs cwd o src).1.entries, e.isTypeX = false) := by
  obtain ⟨_, harch, hsound, hcomplete⟩ := ft_pack_arch ctx hon hfuel
  obtain ⟨t, ht, h1, h2, h3⟩ := ft_untar_arch _ harch
  have hkeys : ∀ r, r ∈ (pack fs cwd o src).1.entries.map (fun e => entryRel e.name) ↔
      ftShips (loadIgnore fs cwd src) fs (pathSegs src) r := by
    intro r
    constructor
    · intro hm
      obtain ⟨e, he, e1⟩ := List.mem_map.mp hm
      obtain ⟨nd, g1, g2, g3, g4, _⟩ := hsound e he
      rw [← e1]
      exact ⟨nd, g1, g2, g3, g4⟩
    · rintro ⟨nd, g1, g2, g3, g4⟩
      obtain ⟨hm, hk⟩ := hcomplete r nd g1 g2 g3 g4
      exact List.mem_map.mpr ⟨_, hm, hk⟩
  refine ⟨⟨t, ht, ?_, ?_, ?_⟩, ?_, ?_⟩
  · rintro r ⟨nd, g1, g2, g3, g4⟩
    obtain ⟨hm, hk⟩ := hcomplete r nd g1 g2 g3 g4
    have := h1 _ hm
    rw [hk, rt_nodeOf_rtEntry r nd g2] at this
    rw [this]; unfold srcNode; rw [g1]; rfl
  · rintro r hr hns ⟨r', hs', hpre⟩
    obtain ⟨e, he, e1⟩ := List.mem_map.mp ((hkeys r').mpr hs')
    exact h2 r hr (fun hm => hns ((hkeys r).mp hm)) ⟨e, he, by rw [e1]; exact hpre⟩
  · intro r hr hno
    apply h3 r hr
    intro e he hpre
    exact hno _ ((hkeys _).mp (List.mem_map.mpr ⟨e, he, rfl⟩)) hpre
  · intro htidy
    apply ft_arch_wellFormed _ harch
    · intro e he
      obtain ⟨nd, g1, _, _, _, g5⟩ := hsound e he
      rw [g5]
      exact ft_rtEntry_no_dotdot _ nd (rt_raw_some.mp g1).1
        (fun c hc => rt_raw_names ctx.names g1 c (List.mem_append_right _ hc))
    · intro e he hs
      obtain ⟨nd, g1, g2, g3, g4, g5⟩ := hsound e he
      have hs' : (rtEntry (entryRel e.name) nd).isSymlink = true := by rw [← g5]; exact hs
      obtain ⟨tg, rfl⟩ := rt_isSymlink_rtEntry _ nd hs'
      have hl : e.link = tg := by rw [g5]; rfl
      rw [hl]
      exact htidy _ tg g1 ⟨_, g1, g2, g3, g4⟩
  · intro e he
    obtain ⟨nd, _, g2, _, _, g5⟩ := hsound e he
    rw [g5]
    cases nd with
    | special => exact absurd rfl g2
    | dir perm mt => rfl
    | file perm mt c => rfl
    | link t => rfl

/-! ## paths that are certainly absent -/

/-- nothing ships at or below a path where the source has nothing (or nothing reachable) -/
theorem ft_absent_of_raw_none {rs : List Rule} {fs : FS} {P : PPath} {r : RelPath} (hr : r ≠ [])
    (h : rtRaw fs P r = none) : ∀ r', ftShips rs fs P r' → ¬ r <+: r' := by
  rintro r' ⟨nd, g1, _⟩ hpre
  by_cases e1 : r = r'
  · rw [e1, g1] at h; cases h
  · have hlen : r.length < r'.length := by
      rcases Nat.lt_or_ge r.length r'.length with h' | h'
      · exact h'
      · exact absurd (hpre.eq_of_length (Nat.le_antisymm hpre.length_le h')) e1
    obtain ⟨pm, mt, hd⟩ := rt_raw_prefix g1 (rt_properPrefixes_of hr hpre hlen)
    rw [h] at hd; cases hd

/-- nothing ships at or below a file, link or special file that does not ship itself -/
theorem ft_absent_of_leaf {rs : List Rule} {fs : FS} {P : PPath} {r : RelPath} {nd : Node}
    (h : rtRaw fs P r = some nd) (hnd : wfIsDir nd = false) (hns : ¬ ftShips rs fs P r) :
    ∀ r', ftShips rs fs P r' → ¬ r <+: r' := by
  rintro r' hs' hpre
  obtain ⟨nd', g1, _⟩ := id hs'
  have := wf_leaf_only h hnd hpre g1
  rw [this] at hs'
  exact hns hs'

/-- nothing ships below a skipped directory, nor the directory itself -/
theorem ft_absent_of_pruned {rs : List Rule} {fs : FS} {P : PPath} {r : RelPath} {pm : Nat} {mt : Int}
    (h : rtRaw fs P r = some (.dir pm mt)) (hp : wfPruned rs r) : ∀ r', ftShips rs fs P r' → ¬ r <+: r' := by
  have hr : r ≠ [] := (rt_raw_some.mp h).1
  rintro r' ⟨nd, g1, _, g3, g4⟩ hpre
  by_cases e1 : r = r'
  · subst e1
    rw [h] at g1
    cases g1
    have := g3.2 rfl
    rw [hp.2] at this
    cases this
  · have hlen : 1 ≤ r.length := by
      cases r with
      | nil => exact absurd rfl hr
      | cons a l => simp
    exact g4 r hpre e1 hlen hp

/-! ## decidable forms (for closed examples) -/

/-- `ftShips` as a Boolean -/
def ftShipsB (rs : List Rule) (fs : FS) (P : PPath) (r : RelPath) : Bool :=
  match rtRaw fs P r with
  | some nd => decide (nd ≠ .special) && wfShipB rs r (wfIsDir nd)
  | none => false

theorem ftShipsB_iff (rs : List Rule) (fs : FS) (P : PPath) (r : RelPath) :
    ftShipsB rs fs P r = true ↔ ftShips rs fs P r := by
  rw [ftShips_iff_shipB]
  unfold ftShipsB
  cases h : rtRaw fs P r with
  | none => simp
  | some nd => simp

instance ftDecShips (rs : List Rule) (fs : FS) (P : PPath) (r : RelPath) : Decidable (ftShips rs fs P r) :=
  decidable_of_iff _ (ftShipsB_iff rs fs P r)

/-- "nothing ships at or below `r`" as a finite check over the bindings of the filesystem -/
def ftAbsentB (rs : List Rule) (fs : FS) (P : PPath) (r : RelPath) : Bool :=
  fs.all fun b => !(P ++ r).isPrefixOf b.1 || !ftShipsB rs fs P (b.1.drop P.length)

theorem ft_absent_of_check {rs : List Rule} {fs : FS} {P : PPath} {r : RelPath}
    (h : ftAbsentB rs fs P r = true) : ∀ r', ftShips rs fs P r' → ¬ r <+: r' := by
  intro r' hs hpre
  obtain ⟨nd, g1, _⟩ := id hs
  have hm := rt_get_mem (rt_raw_some.mp g1).2.2
  unfold ftAbsentB at h
  rw [List.all_eq_true] at h
  have := h _ hm
  simp only [Bool.or_eq_true, Bool.not_eq_true'] at this
  rcases this with h' | h'
  · have hp : (P ++ r).isPrefixOf (P ++ r') = true :=
      List.isPrefixOf_iff_prefix.mpr ((List.prefix_append_right_inj P).mpr hpre)
    rw [hp] at h'; cases h'
  · rw [List.drop_left] at h'
    rw [(ftShipsB_iff rs fs P r').mpr hs] at h'
    cases h'

end Slug
