import SlugModel.Generated.Tr_isSymlink
import SlugModel.Unpack
/-!
# `isSymlink`: the model function equals the translation of the Go function

The definition `Slug.Gen.isSymlink` (Generated/Tr_isSymlink.lean) is rewritten from /repo by harness/cmd/go2lean on
every run; the theorems here are re-checked against it.

`gen_isSymlink_flag` states the translation over the type flag, `gen_isSymlink` over an `Entry` with that type flag
(the model's `Entry.isSymlink`), `gen_isSymlink_mk` is the form met in `NewUnpackInfo` (the `UnpackInfo` built from the header).
-/
namespace Slug

theorem gen_isSymlink_flag (i : Go.UnpackInfo) : Gen.isSymlink i = decide (i.typeflag = tSymlink) := by
  simp [Gen.isSymlink, Id.run, tSymlink]; rfl

theorem gen_isSymlink (i : Go.UnpackInfo) (e : Entry) (h : e.typ = i.typeflag) :
    Gen.isSymlink i = e.isSymlink := by
  rw [gen_isSymlink_flag, Entry.isSymlink, h]

theorem gen_isSymlink_mk (p : Str) (e : Entry) :
    Gen.isSymlink { path := p, typeflag := e.typ } = e.isSymlink := gen_isSymlink _ e rfl

end Slug
