import SlugModel.Generated.Tr_isRegular
import SlugModel.Unpack
/-!
# `isRegular`: the model function equals the translation of the Go function

The definition `Slug.Gen.isRegular` (Generated/Tr_isRegular.lean) is rewritten from /repo by harness/cmd/go2lean on
every run; the theorems here are re-checked against it.

`gen_isRegular_flag` states the translation over the type flag, `gen_isRegular` over an `Entry` with that type flag
(the model's `Entry.isRegular`), `gen_isRegular_mk` is the form met in `NewUnpackInfo` (the `UnpackInfo` built from the header).
-/
namespace Slug

theorem gen_isRegular_flag (i : Go.UnpackInfo) : Gen.isRegular i = (decide (i.typeflag = tReg) || decide (i.typeflag = tRegA)) := by
  simp [Gen.isRegular, Id.run, tReg, tRegA]; rfl

theorem gen_isRegular (i : Go.UnpackInfo) (e : Entry) (h : e.typ = i.typeflag) :
    Gen.isRegular i = e.isRegular := by
  rw [gen_isRegular_flag, Entry.isRegular, h]

theorem gen_isRegular_mk (p : Str) (e : Entry) :
    Gen.isRegular { path := p, typeflag := e.typ } = e.isRegular := gen_isRegular _ e rfl

end Slug
