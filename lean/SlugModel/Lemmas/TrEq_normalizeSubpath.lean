import SlugModel.Generated.Tr_normalizeSubpath
import SlugModel.Addr
/-!
# `normalizeSubpath`: the model function equals the translation of the Go function

The definition `Slug.Gen.normalizeSubpath` (Generated/Tr_normalizeSubpath.lean) is rewritten from /repo by harness/cmd/go2lean on
every run; the theorem here is re-checked against it.
-/
namespace Slug

theorem gen_normalizeSubpath (g : Str) :
    Gen.normalizeSubpath g = (match normalizeSubpath g with | some r => (r, false) | none => ([], true)) := by
  unfold Gen.normalizeSubpath normalizeSubpath
  by_cases h1 : g = []
  · simp [h1, Id.run]; rfl
  · by_cases h2 : validPath g = true
    · by_cases h3 : pathClean g = ['.']
      · simp [h1, h2, h3, Id.run, dot, Go.validPath, Go.pathClean]; rfl
      · simp [h1, h2, h3, Id.run, dot, Go.validPath, Go.pathClean]; rfl
    · simp [h1, h2, Id.run, Go.validPath]; rfl

end Slug
