import SlugModel.Unpack
/-!
# Lemmas/UnpackBasic — step and loop facts about the `Unpack` model

Everything here is about the control structure of `unpackEntry` / `unpackLoop` / `unpack`
(which result is returned where, what the deferred directory list contains, how a reader
`Fault` changes a run).  No fact about the filesystem model is needed.
-/
namespace Slug

/-- the entry types `Unpack` can represent: directory, symlink, regular file, and the pax
extended headers (which are accepted and ignored) -/
def Entry.supported (e : Entry) : Bool := e.isDir || e.isSymlink || e.isRegular || e.isTypeX

/-- the extraction path `NewUnpackInfo` computes: `filepath.Join(dst, name)` after removing one
leading `/` from the name -/
def entryPath (dst : Str) (e : Entry) : Str :=
  pathJoin dst (match e.name with
    | '/' :: r => r
    | n => n)

/-- what the loop hands to the body of entry `e` at index `idx`: the (possibly truncated) body and
whether reading it ends in an error -/
def faultBody (fault : Fault) (idx : Nat) (e : Entry) : Str × Bool :=
  match fault with
  | .body k n => if k = idx ∧ e.isRegular then (e.body.take n, true) else (e.body, false)
  | _ => (e.body, false)

/-! ## type flags -/

theorem Entry.not_symlink_of_dir {e : Entry} (h : e.isDir = true) : e.isSymlink = false := by
  have h' : e.typ = tDir := by simpa [Entry.isDir] using h
  simp [Entry.isSymlink, h']; decide

theorem Entry.not_symlink_of_regular {e : Entry} (h : e.isRegular = true) : e.isSymlink = false := by
  have h' : e.typ = tReg ∨ e.typ = tRegA := by simpa [Entry.isRegular] using h
  rcases h' with h' | h' <;> simp [Entry.isSymlink, h'] <;> decide

theorem Entry.not_dir_of_regular {e : Entry} (h : e.isRegular = true) : e.isDir = false := by
  have h' : e.typ = tReg ∨ e.typ = tRegA := by simpa [Entry.isRegular] using h
  rcases h' with h' | h' <;> simp [Entry.isDir, h'] <;> decide

theorem Entry.not_typeX_of_symlink {e : Entry} (h : e.isSymlink = true) : e.isTypeX = false := by
  have h' : e.typ = tSymlink := by simpa [Entry.isSymlink] using h
  simp [Entry.isTypeX, h']; decide

theorem Entry.not_typeX_of_dir {e : Entry} (h : e.isDir = true) : e.isTypeX = false := by
  have h' : e.typ = tDir := by simpa [Entry.isDir] using h
  simp [Entry.isTypeX, h']; decide

theorem Entry.not_typeX_of_regular {e : Entry} (h : e.isRegular = true) : e.isTypeX = false := by
  have h' : e.typ = tReg ∨ e.typ = tRegA := by simpa [Entry.isRegular] using h
  rcases h' with h' | h' <;> simp [Entry.isTypeX, h'] <;> decide

theorem Entry.not_symlink_of_typeX {e : Entry} (h : e.isTypeX = true) : e.isSymlink = false := by
  cases hs : e.isSymlink with
  | false => rfl
  | true => rw [Entry.not_typeX_of_symlink hs] at h; cases h

theorem Entry.not_dir_of_typeX {e : Entry} (h : e.isTypeX = true) : e.isDir = false := by
  cases hs : e.isDir with
  | false => rfl
  | true => rw [Entry.not_typeX_of_dir hs] at h; cases h

theorem Entry.not_regular_of_typeX {e : Entry} (h : e.isTypeX = true) : e.isRegular = false := by
  cases hs : e.isRegular with
  | false => rfl
  | true => rw [Entry.not_typeX_of_regular hs] at h; cases h

/-! ## `newUnpackInfo` -/

/-- when `NewUnpackInfo` succeeds the path is `entryPath` (it does not depend on the filesystem)
and the entry type is one of the supported ones -/
theorem newUnpackInfo_some {fs : FS} {dst : Str} {e : Entry} {path : Str}
    (h : newUnpackInfo fs dst e = some path) : path = entryPath dst e ∧ e.supported = true := by
  have key : ∀ nm : Str,
      (if !isWithin (pathClean dst) (pathClean (pathJoin dst nm)) then none
       else match pathRel (pathClean dst) (pathClean (pathJoin dst nm)) with
        | none => none
        | some rel =>
          if !lstatWalk fs dst (splitOn '/' rel) then none
          else if !(e.isDir || e.isSymlink || e.isRegular || e.isTypeX) then none
          else some (pathJoin dst nm)) = some path →
      path = pathJoin dst nm ∧ e.supported = true := by
    intro nm h
    split at h
    · cases h
    · split at h
      · cases h
      · split at h
        · cases h
        · split at h
          · cases h
          · rename_i hs
            cases h
            refine ⟨rfl, ?_⟩
            unfold Entry.supported
            cases hb : (e.isDir || e.isSymlink || e.isRegular || e.isTypeX) with
            | true => rfl
            | false => rw [hb] at hs; exact absurd rfl hs
  exact key _ h

theorem newUnpackInfo_unsupported (fs : FS) (dst : Str) (e : Entry) (h : e.supported = false) :
    newUnpackInfo fs dst e = none := by
  cases hn : newUnpackInfo fs dst e with
  | none => rfl
  | some p => have := (newUnpackInfo_some hn).2; simp [h] at this

/-! ## the link test of `Unpack` -/

/-- what `Unpack` accepts, `validSymlink` accepts -/
theorem unpackLinkOK_valid {cwd : Str} {allow : List Str} {dst ln t : Str}
    (h : unpackLinkOK cwd allow dst ln t = true) : validSymlink cwd allow dst ln t = true := by
  unfold unpackLinkOK at h
  exact (Bool.and_eq_true _ _ ▸ h).1

/-- … and the target is relative or allow-listed -/
theorem unpackLinkOK_rel_or_allowed {cwd : Str} {allow : List Str} {dst ln t : Str}
    (h : unpackLinkOK cwd allow dst ln t = true) :
    isAbs t = false ∨ allowedTarget allow (pathAbs cwd dst) (pathClean t) = true := by
  unfold unpackLinkOK at h
  have h2 := (Bool.and_eq_true _ _ ▸ h).2
  cases ha : isAbs t with
  | false => exact Or.inl rfl
  | true => right; simpa [ha] using h2

/-- an accepted absolute target is allow-listed -/
theorem unpackLinkOK_abs_allowed {cwd : Str} {allow : List Str} {dst ln t : Str}
    (h : unpackLinkOK cwd allow dst ln t = true) (ha : isAbs t = true) :
    allowedTarget allow (pathAbs cwd dst) (pathClean t) = true := by
  rcases unpackLinkOK_rel_or_allowed h with h' | h'
  · rw [ha] at h'; cases h'
  · exact h'

/-- the empty allow-list allows nothing -/
theorem allowedTarget_nil (absRoot absTarget : Str) : allowedTarget [] absRoot absTarget = false := rfl

/-- with no allow-list an accepted target is relative -/
theorem unpackLinkOK_nil_rel {cwd dst ln t : Str} (h : unpackLinkOK cwd [] dst ln t = true) :
    isAbs t = false := by
  rcases unpackLinkOK_rel_or_allowed h with h' | h'
  · exact h'
  · rw [allowedTarget_nil] at h'; cases h'

/-- with no allow-list an absolute target is refused -/
theorem unpackLinkOK_nil_abs (cwd dst ln : Str) {t : Str} (ha : isAbs t = true) :
    unpackLinkOK cwd [] dst ln t = false := by
  cases h : unpackLinkOK cwd [] dst ln t with
  | false => rfl
  | true => rw [unpackLinkOK_nil_rel h] at ha; cases ha

/-- the test, taken apart -/
theorem unpackLinkOK_iff {cwd : Str} {allow : List Str} {dst ln t : Str} :
    unpackLinkOK cwd allow dst ln t = true ↔
      validSymlink cwd allow dst ln t = true ∧
        (isAbs t = false ∨ allowedTarget allow (pathAbs cwd dst) (pathClean t) = true) := by
  constructor
  · exact fun h => ⟨unpackLinkOK_valid h, unpackLinkOK_rel_or_allowed h⟩
  · rintro ⟨h1, h2⟩
    unfold unpackLinkOK
    rw [h1]
    rcases h2 with h2 | h2 <;> simp [h2]

/-- a relative target: the test of `Unpack` is `validSymlink` -/
theorem unpackLinkOK_of_rel (cwd : Str) (allow : List Str) (dst ln : Str) {t : Str} (hr : isAbs t = false) :
    unpackLinkOK cwd allow dst ln t = validSymlink cwd allow dst ln t := by
  simp [unpackLinkOK, hr]

/-- why the test fails: `validSymlink` says no, or the target is absolute and not allow-listed -/
theorem unpackLinkOK_false {cwd : Str} {allow : List Str} {dst ln t : Str}
    (h : unpackLinkOK cwd allow dst ln t = false) :
    validSymlink cwd allow dst ln t = false ∨
      (isAbs t = true ∧ allowedTarget allow (pathAbs cwd dst) (pathClean t) = false) := by
  cases hv : validSymlink cwd allow dst ln t with
  | false => exact Or.inl rfl
  | true =>
    right
    cases ha : isAbs t with
    | false => rw [unpackLinkOK_of_rel cwd allow dst ln ha, hv] at h; cases h
    | true =>
      refine ⟨rfl, ?_⟩
      cases hal : allowedTarget allow (pathAbs cwd dst) (pathClean t) with
      | false => rfl
      | true => rw [unpackLinkOK_iff.2 ⟨hv, Or.inr hal⟩] at h; cases h

/-! ## one entry -/

section step
variable (cwd : Str) (allow : List Str) (priv : Bool) (dst : Str)

theorem unpackEntry_nil_name (st : UState) (e : Entry) (body : Str) (be : Bool)
    (h : e.name = []) : unpackEntry cwd allow priv dst st e body be = (st, none) := by
  simp [unpackEntry, h]

theorem unpackEntry_info_none (st : UState) (e : Entry) (body : Str) (be : Bool)
    (hn : e.name ≠ []) (h : newUnpackInfo st.fs dst e = none) :
    unpackEntry cwd allow priv dst st e body be = (st, some .illegal) := by
  simp [unpackEntry, hn, h]

/-- an extended (pax) header record that `NewUnpackInfo` accepts is skipped: the state is unchanged,
not even the parent directories of its name are created -/
theorem unpackEntry_typeX (st : UState) (e : Entry) (body : Str) (be : Bool) (path : Str)
    (hn : e.name ≠ []) (hx : e.isTypeX = true) (hi : newUnpackInfo st.fs dst e = some path) :
    unpackEntry cwd allow priv dst st e body be = (st, none) := by
  simp [unpackEntry, hn, hi, hx]

end step

/-- Everything `unpackEntry` can do with a named entry that `NewUnpackInfo` accepted (with path
`path`), as one case list: the result, the shape of the new state, and the facts about the entry
that select the case.  The filesystem in the new state is left abstract. -/
inductive StepOutcome (cwd : Str) (allow : List Str) (dst : Str) (st : UState) (e : Entry) (be : Bool) (path : Str) :
    UState × Option UResult → Prop
  | io (fs' : FS) : StepOutcome cwd allow dst st e be path ({ fs := fs', dirs := st.dirs }, some .ioerr)
  | relFail (fs' : FS) : e.isSymlink = true → pathRel dst path = none →
      StepOutcome cwd allow dst st e be path ({ fs := fs', dirs := st.dirs }, some .illegal)
  | linkBad (fs' : FS) (ln : Str) : e.isSymlink = true → pathRel dst path = some ln →
      unpackLinkOK cwd allow dst ln e.link = false →
      StepOutcome cwd allow dst st e be path ({ fs := fs', dirs := st.dirs }, some .illegal)
  | linkOk (fs' : FS) (ln : Str) : e.isSymlink = true → pathRel dst path = some ln →
      unpackLinkOK cwd allow dst ln e.link = true →
      StepOutcome cwd allow dst st e be path ({ fs := fs', dirs := st.dirs }, none)
  | dirOk (fs' : FS) : e.isSymlink = false → e.isDir = true →
      StepOutcome cwd allow dst st e be path ({ fs := fs', dirs := st.dirs ++ [(path, e.mode, e.mtime)] }, none)
  | typeX : e.isTypeX = true → StepOutcome cwd allow dst st e be path (st, none)
  | fileOk (fs' : FS) : e.isSymlink = false → e.isDir = false → e.isRegular = true → be = false →
      StepOutcome cwd allow dst st e be path ({ fs := fs', dirs := st.dirs }, none)

variable (cwd : Str) (allow : List Str) (priv : Bool) (dst : Str)

theorem unpackEntry_outcome (st : UState) (e : Entry) (body : Str) (be : Bool) (path : Str)
    (hn : e.name ≠ []) (hi : newUnpackInfo st.fs dst e = some path) :
    StepOutcome cwd allow dst st e be path (unpackEntry cwd allow priv dst st e body be) := by
  unfold unpackEntry
  rw [if_neg hn]
  simp only [hi]
  by_cases hx : e.isTypeX = true
  · rw [if_pos hx]; exact .typeX hx
  rw [if_neg hx]
  have hx' : e.isTypeX = false := by simpa using hx
  rcases hm : FS.mkdirAll st.fs nowT (mkdirAllFuel (pathDir path)) (pathDir path) 0o755 with ⟨fs1, _ | err⟩
  · simp only []
    by_cases hs : e.isSymlink = true
    · rw [if_pos hs]
      cases hr : pathRel dst path with
      | none => exact .relFail _ hs hr
      | some ln =>
        simp only []
        cases hv : unpackLinkOK cwd allow dst ln e.link with
        | false => exact .linkBad _ ln hs hr hv
        | true =>
          simp only [Bool.not_true, Bool.false_eq_true, if_false]
          cases FS.symlink fs1 e.link path nowT with
          | error _ => exact .io _
          | ok fs2 => exact .linkOk _ ln hs hr hv
    · rw [if_neg hs]
      have hs' : e.isSymlink = false := by simpa using hs
      by_cases hd : e.isDir = true
      · rw [if_pos hd]
        rcases FS.mkdirAll fs1 nowT (mkdirAllFuel path) path 0o755 with ⟨fs2, _ | err⟩
        · exact .dirOk _ hs' hd
        · exact .io _
      · rw [if_neg hd]
        have hd' : e.isDir = false := by simpa using hd
        cases hreg : e.isRegular with
        | false =>
          have hsup := (newUnpackInfo_some hi).2
          simp [Entry.supported, hs', hd', hreg, hx'] at hsup
        | true =>
          simp only [Bool.not_true, Bool.false_eq_true, if_false]
          split
          · exact .io _
          · cases be with
            | true => exact .io _
            | false =>
              simp only [Bool.false_eq_true, if_false]
              rename_i fs2 _
              cases FS.chmod fs2 path e.mode with
              | error _ => exact .io _
              | ok fs3 =>
                simp only []
                cases FS.chtimes fs3 path e.mtime with
                | error _ => exact .io _
                | ok fs4 => exact .fileOk _ hs' hd' hreg rfl
  · exact .io _


/-- `unpackEntry` never says "return success now" -/
theorem unpackEntry_ne_ok (st : UState) (e : Entry) (body : Str) (be : Bool) :
    (unpackEntry cwd allow priv dst st e body be).2 ≠ some .ok := by
  by_cases hn : e.name = []
  · rw [unpackEntry_nil_name cwd allow priv dst st e body be hn]; simp
  · cases hi : newUnpackInfo st.fs dst e with
    | none => rw [unpackEntry_info_none cwd allow priv dst st e body be hn hi]; simp
    | some path =>
      have ho := unpackEntry_outcome cwd allow priv dst st e body be path hn hi
      generalize unpackEntry cwd allow priv dst st e body be = r at ho ⊢
      cases ho <;> simp

/-- a named regular entry whose body read fails never lets the loop continue: either
`NewUnpackInfo` refuses it (whatever the body) or the step is an I/O error -/
theorem unpackEntry_regular_bodyErr (st : UState) (e : Entry) (body : Str)
    (hn : e.name ≠ []) (hreg : e.isRegular = true) :
    (newUnpackInfo st.fs dst e = none ∧
      ∀ body' be', unpackEntry cwd allow priv dst st e body' be' = (st, some .illegal)) ∨
    (unpackEntry cwd allow priv dst st e body true).2 = some .ioerr := by
  cases hi : newUnpackInfo st.fs dst e with
  | none => exact Or.inl ⟨rfl, fun b' be' => unpackEntry_info_none cwd allow priv dst st e b' be' hn hi⟩
  | some path =>
    right
    have hs := Entry.not_symlink_of_regular hreg
    have hd := Entry.not_dir_of_regular hreg
    have hx := Entry.not_typeX_of_regular hreg
    have ho := unpackEntry_outcome cwd allow priv dst st e body true path hn hi
    generalize unpackEntry cwd allow priv dst st e body true = r at ho ⊢
    cases ho <;> simp_all

/-- the step the loop performs under a reader fault equals the fault-free step whenever it lets
the loop continue or reports an illegal slug -/
theorem unpackEntry_fault_same (fault : Fault) (idx : Nat) (st : UState) (e : Entry)
    (h : (unpackEntry cwd allow priv dst st e (faultBody fault idx e).1 (faultBody fault idx e).2).2 = none ∨
         (unpackEntry cwd allow priv dst st e (faultBody fault idx e).1 (faultBody fault idx e).2).2
            = some .illegal) :
    unpackEntry cwd allow priv dst st e (faultBody fault idx e).1 (faultBody fault idx e).2 =
      unpackEntry cwd allow priv dst st e e.body false := by
  cases fault with
  | none => rfl
  | header k => rfl
  | body k n =>
    by_cases hc : k = idx ∧ e.isRegular = true
    · have hfb : faultBody (.body k n) idx e = (e.body.take n, true) := by
        simp only [faultBody]; rw [if_pos hc]
      rw [hfb] at h ⊢
      by_cases hn : e.name = []
      · rw [unpackEntry_nil_name cwd allow priv dst st e _ _ hn,
          unpackEntry_nil_name cwd allow priv dst st e _ _ hn]
      · rcases unpackEntry_regular_bodyErr cwd allow priv dst st e (e.body.take n) hn hc.2 with
          ⟨_, hall⟩ | hio
        · rw [hall, hall]
        · simp only at h
          rw [hio] at h
          simp at h
    · have hfb : faultBody (.body k n) idx e = (e.body, false) := by
        simp only [faultBody]; rw [if_neg hc]
      rw [hfb]

/-- shape of a continuing step: the deferred list grows by exactly the record of a named
directory entry -/
theorem unpackEntry_dirs (st st' : UState) (e : Entry) (body : Str) (be : Bool)
    (h : unpackEntry cwd allow priv dst st e body be = (st', none)) :
    st'.dirs = st.dirs ++
      (if e.name ≠ [] ∧ e.isDir = true then [(entryPath dst e, e.mode, e.mtime)] else []) := by
  by_cases hn : e.name = []
  · rw [unpackEntry_nil_name cwd allow priv dst st e body be hn] at h
    cases h; simp [hn]
  · cases hi : newUnpackInfo st.fs dst e with
    | none => rw [unpackEntry_info_none cwd allow priv dst st e body be hn hi] at h; cases h
    | some path =>
      have hp := (newUnpackInfo_some hi).1
      have ho := unpackEntry_outcome cwd allow priv dst st e body be path hn hi
      rw [h] at ho
      cases ho with
      | linkOk fs' ln hs _ _ =>
        have : ¬ e.isDir = true := fun hd => by simp [Entry.not_symlink_of_dir hd] at hs
        simp [this]
      | dirOk fs' hs hd => simp [hn, hd, hp]
      | typeX hx => simp [Entry.not_dir_of_typeX hx]
      | fileOk fs' hs hd hr hb => simp [hd]

/-- why a step reports an illegal slug -/
theorem unpackEntry_illegal_cause (st : UState) (e : Entry) (body : Str) (be : Bool)
    (h : (unpackEntry cwd allow priv dst st e body be).2 = some .illegal) :
    e.name ≠ [] ∧
    (newUnpackInfo st.fs dst e = none ∨
     (e.isSymlink = true ∧ ∀ path, newUnpackInfo st.fs dst e = some path →
        (pathRel dst path = none ∨
         ∃ ln, pathRel dst path = some ln ∧ unpackLinkOK cwd allow dst ln e.link = false))) := by
  by_cases hn : e.name = []
  · rw [unpackEntry_nil_name cwd allow priv dst st e body be hn] at h; simp at h
  · refine ⟨hn, ?_⟩
    cases hi : newUnpackInfo st.fs dst e with
    | none => exact Or.inl rfl
    | some path =>
      right
      have ho := unpackEntry_outcome cwd allow priv dst st e body be path hn hi
      generalize unpackEntry cwd allow priv dst st e body be = r at h ho
      cases ho with
      | relFail fs' hs hr =>
        exact ⟨hs, fun p hp => by cases hp; exact Or.inl hr⟩
      | linkBad fs' ln hs hr hv =>
        exact ⟨hs, fun p hp => by cases hp; exact Or.inr ⟨ln, hr, hv⟩⟩
      | io => simp at h
      | linkOk => simp at h
      | dirOk => simp at h
      | typeX => simp at h
      | fileOk => simp at h

/-- a named symlink entry that lets the loop continue passed the link test of `Unpack`, with the
link name `filepath.Rel(dst, path)` of its extraction path -/
theorem unpackEntry_link_accepted (st st' : UState) (e : Entry) (body : Str) (be : Bool)
    (hn : e.name ≠ []) (hs : e.isSymlink = true)
    (h : unpackEntry cwd allow priv dst st e body be = (st', none)) :
    ∃ ln, newUnpackInfo st.fs dst e = some (entryPath dst e) ∧
      pathRel dst (entryPath dst e) = some ln ∧ unpackLinkOK cwd allow dst ln e.link = true := by
  cases hi : newUnpackInfo st.fs dst e with
  | none => rw [unpackEntry_info_none cwd allow priv dst st e body be hn hi] at h; cases h
  | some path =>
    have hp := (newUnpackInfo_some hi).1
    have ho := unpackEntry_outcome cwd allow priv dst st e body be path hn hi
    rw [h] at ho
    subst hp
    cases ho with
    | linkOk fs' ln _ hr hv => exact ⟨ln, rfl, hr, hv⟩
    | dirOk fs' hs' _ => rw [hs] at hs'; cases hs'
    | typeX hx => rw [Entry.not_typeX_of_symlink hs] at hx; cases hx
    | fileOk fs' hs' _ _ _ => rw [hs] at hs'; cases hs'

/-- a named symlink entry whose link test fails never lets the loop continue: the step is an
error (illegal slug, or an earlier I/O error of `MkdirAll`) -/
theorem unpackEntry_link_refused (st : UState) (e : Entry) (body : Str) (be : Bool)
    (hn : e.name ≠ []) (hs : e.isSymlink = true)
    (hv : ∀ ln, pathRel dst (entryPath dst e) = some ln → unpackLinkOK cwd allow dst ln e.link = false) :
    (unpackEntry cwd allow priv dst st e body be).2 = some .illegal ∨
      (unpackEntry cwd allow priv dst st e body be).2 = some .ioerr := by
  rcases hu : unpackEntry cwd allow priv dst st e body be with ⟨st', _ | r⟩
  · obtain ⟨ln, _, hr, hok⟩ := unpackEntry_link_accepted cwd allow priv dst st st' e body be hn hs hu
    rw [hv ln hr] at hok; cases hok
  · have hne := unpackEntry_ne_ok cwd allow priv dst st e body be
    rw [hu] at hne
    cases r with
    | ok => exact absurd rfl hne
    | illegal => exact Or.inl rfl
    | ioerr => exact Or.inr rfl

/-! ## `restoreDirs` -/

/-- the deferred pass either completes or fails with an I/O error -/
theorem restoreDirs_result (fs : FS) (ds : List (Str × Nat × Int)) :
    (restoreDirs fs ds).2 = none ∨ (restoreDirs fs ds).2 = some .ioerr := by
  induction ds generalizing fs with
  | nil => left; rfl
  | cons d rest ih =>
    obtain ⟨path, mode, mtime⟩ := d
    unfold restoreDirs
    cases hc : fs.chmod path mode with
    | ok f =>
      simp only [Bool.not_true, Bool.false_eq_true, if_false]
      cases ht : f.chtimes path mtime with
      | ok g => simp only [Bool.not_true, Bool.false_eq_true, if_false]; exact ih _
      | error er =>
        cases er <;> first | exact ih _ | exact Or.inr rfl
    | error er =>
      cases er
      case enoent =>
        simp only [Bool.not_true, Bool.false_eq_true, if_false]
        cases ht : fs.chtimes path mtime with
        | ok g => simp only [Bool.not_true, Bool.false_eq_true, if_false]; exact ih _
        | error er =>
          cases er <;> first | exact ih _ | exact Or.inr rfl
      all_goals exact Or.inr rfl

/-! ## the loop -/

theorem unpackLoop_nil (fault : Fault) (idx : Nat) (st : UState) :
    unpackLoop cwd allow priv dst fault idx st [] =
      match fault with
      | .header k => if k ≤ idx then (st, some .ioerr) else (st, none)
      | _ => (st, none) := by
  unfold unpackLoop; rfl

theorem unpackLoop_cons (fault : Fault) (idx : Nat) (st : UState) (e : Entry) (rest : List Entry) :
    unpackLoop cwd allow priv dst fault idx st (e :: rest) =
      if fault = .header idx then (st, some .ioerr)
      else
        match unpackEntry cwd allow priv dst st e (faultBody fault idx e).1 (faultBody fault idx e).2 with
        | (st', some r) => (st', some r)
        | (st', none) => unpackLoop cwd allow priv dst fault (idx + 1) st' rest := by
  cases fault
  · rfl
  · rfl
  · rename_i k n
    by_cases hc : k = idx ∧ e.isRegular = true
    · simp only [unpackLoop, faultBody, if_pos hc]; rfl
    · simp only [unpackLoop, faultBody, if_neg hc]; rfl

theorem unpackLoop_cons_header (idx : Nat) (st : UState) (e : Entry) (rest : List Entry) :
    unpackLoop cwd allow priv dst (.header idx) idx st (e :: rest) = (st, some .ioerr) := by
  rw [unpackLoop_cons, if_pos rfl]

theorem unpackLoop_cons_some {fault : Fault} {idx : Nat} {st st' : UState} {e : Entry} {r : UResult}
    (rest : List Entry) (hf : fault ≠ .header idx)
    (hu : unpackEntry cwd allow priv dst st e (faultBody fault idx e).1 (faultBody fault idx e).2
      = (st', some r)) :
    unpackLoop cwd allow priv dst fault idx st (e :: rest) = (st', some r) := by
  rw [unpackLoop_cons, if_neg hf, hu]

theorem unpackLoop_cons_none {fault : Fault} {idx : Nat} {st st' : UState} {e : Entry}
    (rest : List Entry) (hf : fault ≠ .header idx)
    (hu : unpackEntry cwd allow priv dst st e (faultBody fault idx e).1 (faultBody fault idx e).2
      = (st', none)) :
    unpackLoop cwd allow priv dst fault idx st (e :: rest) =
      unpackLoop cwd allow priv dst fault (idx + 1) st' rest := by
  rw [unpackLoop_cons, if_neg hf, hu]

/-- the loop never says "return success now" either -/
theorem unpackLoop_ne_ok (fault : Fault) (idx : Nat) (st : UState) (es : List Entry) :
    (unpackLoop cwd allow priv dst fault idx st es).2 ≠ some .ok := by
  induction es generalizing idx st with
  | nil =>
    rw [unpackLoop_nil]
    cases fault with
    | header k => simp only; split <;> simp
    | none => simp
    | body k n => simp
  | cons e rest ih =>
    by_cases hf : fault = .header idx
    · subst hf; rw [unpackLoop_cons_header]; simp
    · have hne := unpackEntry_ne_ok cwd allow priv dst st e (faultBody fault idx e).1 (faultBody fault idx e).2
      rcases hu : unpackEntry cwd allow priv dst st e (faultBody fault idx e).1 (faultBody fault idx e).2
        with ⟨st1, _ | r⟩
      · rw [unpackLoop_cons_none cwd allow priv dst rest hf hu]; exact ih _ _
      · rw [unpackLoop_cons_some cwd allow priv dst rest hf hu]
        rw [hu] at hne; exact hne

/-- A faulty run whose loop ends without a result, or with an illegal-slug result, is step for
step the fault-free run. -/
theorem unpackLoop_fault_same (fault : Fault) (idx : Nat) (st st' : UState) (es : List Entry)
    (r : Option UResult) (hr : r = none ∨ r = some .illegal)
    (h : unpackLoop cwd allow priv dst fault idx st es = (st', r)) :
    unpackLoop cwd allow priv dst .none idx st es = (st', r) := by
  induction es generalizing idx st with
  | nil =>
    rw [unpackLoop_nil] at h ⊢
    cases fault with
    | header k =>
      simp only at h
      split at h
      · cases h; simp at hr
      · exact h
    | none => exact h
    | body k n => exact h
  | cons e rest ih =>
    by_cases hf : fault = .header idx
    · subst hf; rw [unpackLoop_cons_header] at h; cases h; simp at hr
    · have hsame := unpackEntry_fault_same cwd allow priv dst fault idx st e
      rcases hu : unpackEntry cwd allow priv dst st e (faultBody fault idx e).1 (faultBody fault idx e).2
        with ⟨st1, _ | r1⟩
      · rw [unpackLoop_cons_none cwd allow priv dst rest hf hu] at h
        rw [hu] at hsame
        have hu' := (hsame (Or.inl rfl)).symm
        rw [unpackLoop_cons_none cwd allow priv dst rest (by simp) (by exact hu')]
        exact ih _ _ h
      · rw [unpackLoop_cons_some cwd allow priv dst rest hf hu] at h
        cases h
        rcases hr with hr | hr
        · cases hr
        · cases hr
          rw [hu] at hsame
          have hu' := (hsame (Or.inr rfl)).symm
          exact unpackLoop_cons_some cwd allow priv dst rest (by simp) (by exact hu')

/-- a header fault inside (or right at the end of) the archive always surfaces as a result -/
theorem unpackLoop_header (k idx : Nat) (st : UState) (es : List Entry)
    (h1 : idx ≤ k) (h2 : k ≤ idx + es.length) :
    ∃ r, (unpackLoop cwd allow priv dst (.header k) idx st es).2 = some r := by
  induction es generalizing idx st with
  | nil =>
    rw [unpackLoop_nil]
    simp only [List.length_nil, Nat.add_zero] at h2
    simp only [if_pos h2]
    exact ⟨_, rfl⟩
  | cons e rest ih =>
    by_cases hk : k = idx
    · subst hk; rw [unpackLoop_cons_header]; exact ⟨_, rfl⟩
    · have hf : Fault.header k ≠ Fault.header idx := by
        intro hh; cases hh; exact hk rfl
      rcases hu : unpackEntry cwd allow priv dst st e (faultBody (.header k) idx e).1
        (faultBody (.header k) idx e).2 with ⟨st1, _ | r1⟩
      · rw [unpackLoop_cons_none cwd allow priv dst rest hf hu]
        apply ih
        · omega
        · simp only [List.length_cons] at h2; omega
      · rw [unpackLoop_cons_some cwd allow priv dst rest hf hu]; exact ⟨_, rfl⟩

/-- a body fault in a named regular entry that the fault-free run reaches always surfaces -/
theorem unpackLoop_body (n : Nat) (e : Entry) (hn : e.name ≠ []) (hreg : e.isRegular = true)
    (es : List Entry) (j idx : Nat) (st0 st : UState)
    (hpre : unpackLoop cwd allow priv dst .none idx st0 (es.take j) = (st, none))
    (hj : es[j]? = some e) :
    ∃ r, (unpackLoop cwd allow priv dst (.body (idx + j) n) idx st0 es).2 = some r := by
  induction es generalizing j idx st0 with
  | nil => simp at hj
  | cons x rest ih =>
    cases j with
    | zero =>
      simp only [List.getElem?_cons_zero, Option.some.injEq] at hj
      subst hj
      have hfb : faultBody (.body (idx + 0) n) idx x = (x.body.take n, true) := by
        simp only [faultBody]; rw [if_pos ⟨rfl, hreg⟩]
      rw [unpackLoop_cons, if_neg (by simp), hfb]
      rcases unpackEntry_regular_bodyErr cwd allow priv dst st0 x (x.body.take n) hn hreg with
        ⟨_, hall⟩ | hio
      · rw [hall]; exact ⟨_, rfl⟩
      · rcases hu : unpackEntry cwd allow priv dst st0 x (x.body.take n) true with ⟨st1, _ | r1⟩
        · rw [hu] at hio; simp at hio
        · exact ⟨_, rfl⟩
    | succ j' =>
      simp only [List.getElem?_cons_succ] at hj
      simp only [List.take_succ_cons] at hpre
      have hfb : faultBody (.body (idx + (j' + 1)) n) idx x = (x.body, false) := by
        simp only [faultBody]; rw [if_neg (by omega)]
      have hfb0 : faultBody .none idx x = (x.body, false) := rfl
      rw [unpackLoop_cons, if_neg (by simp), hfb0] at hpre
      rw [unpackLoop_cons, if_neg (by simp), hfb]
      rcases hu : unpackEntry cwd allow priv dst st0 x x.body false with ⟨st1, _ | r1⟩
      · rw [hu] at hpre
        simp only at hpre ⊢
        have := ih j' (idx + 1) st1 hpre hj
        rw [show idx + 1 + j' = idx + (j' + 1) by omega] at this
        exact this
      · exact ⟨_, rfl⟩

/-- the `(path, mode, mtime)` records of the named directory entries of `es`, in archive order -/
def dirRecords (dst : Str) (es : List Entry) : List (Str × Nat × Int) :=
  (es.filter (fun e => e.name ≠ [] ∧ e.isDir = true)).map (fun e => (entryPath dst e, e.mode, e.mtime))

theorem dirRecords_cons (e : Entry) (rest : List Entry) :
    dirRecords dst (e :: rest) =
      (if e.name ≠ [] ∧ e.isDir = true then [(entryPath dst e, e.mode, e.mtime)] else []) ++
        dirRecords dst rest := by
  unfold dirRecords
  by_cases h : e.name ≠ [] ∧ e.isDir = true
  · rw [List.filter_cons_of_pos (by simpa using h), if_pos h]; rfl
  · rw [List.filter_cons_of_neg (by simpa using h), if_neg h]; rfl

/-- a loop that runs to the end has appended exactly the records of the named directory entries -/
theorem unpackLoop_dirs (fault : Fault) (idx : Nat) (st st' : UState) (es : List Entry)
    (h : unpackLoop cwd allow priv dst fault idx st es = (st', none)) :
    st'.dirs = st.dirs ++ dirRecords dst es := by
  induction es generalizing idx st with
  | nil =>
    rw [unpackLoop_nil] at h
    have : st' = st := by
      cases fault with
      | header k =>
        simp only at h
        split at h
        · cases h
        · cases h; rfl
      | none => cases h; rfl
      | body k n => cases h; rfl
    subst this
    simp [dirRecords]
  | cons e rest ih =>
    by_cases hf : fault = .header idx
    · subst hf; rw [unpackLoop_cons_header] at h; cases h
    · rcases hu : unpackEntry cwd allow priv dst st e (faultBody fault idx e).1 (faultBody fault idx e).2
        with ⟨st1, _ | r1⟩
      · rw [unpackLoop_cons_none cwd allow priv dst rest hf hu] at h
        rw [ih _ _ h, unpackEntry_dirs cwd allow priv dst st st1 e _ _ hu, dirRecords_cons,
          List.append_assoc]
      · rw [unpackLoop_cons_some cwd allow priv dst rest hf hu] at h; cases h

/-- a loop that runs to the end saw only unnamed or supported entries -/
theorem unpackLoop_none_supported (fault : Fault) (idx : Nat) (st st' : UState) (es : List Entry)
    (h : unpackLoop cwd allow priv dst fault idx st es = (st', none)) :
    ∀ e ∈ es, e.name = [] ∨ e.supported = true := by
  induction es generalizing idx st with
  | nil => intro e he; cases he
  | cons x rest ih =>
    by_cases hf : fault = .header idx
    · subst hf; rw [unpackLoop_cons_header] at h; cases h
    · rcases hu : unpackEntry cwd allow priv dst st x (faultBody fault idx x).1 (faultBody fault idx x).2
        with ⟨st1, _ | r1⟩
      · rw [unpackLoop_cons_none cwd allow priv dst rest hf hu] at h
        intro e he
        rcases List.mem_cons.1 he with rfl | he
        · by_cases hn : e.name = []
          · exact Or.inl hn
          · right
            cases hs : e.supported with
            | true => rfl
            | false =>
              rw [unpackEntry_info_none cwd allow priv dst st e _ _ hn
                (newUnpackInfo_unsupported st.fs dst e hs)] at hu
              cases hu
        · exact ih _ _ h e he
      · rw [unpackLoop_cons_some cwd allow priv dst rest hf hu] at h; cases h

/-- a loop that runs to the end accepted the target of every named symlink entry -/
theorem unpackLoop_none_links (fault : Fault) (idx : Nat) (st st' : UState) (es : List Entry)
    (h : unpackLoop cwd allow priv dst fault idx st es = (st', none)) :
    ∀ e ∈ es, e.name ≠ [] → e.isSymlink = true →
      ∃ ln, pathRel dst (entryPath dst e) = some ln ∧ unpackLinkOK cwd allow dst ln e.link = true := by
  induction es generalizing idx st with
  | nil => intro e he; cases he
  | cons x rest ih =>
    by_cases hf : fault = .header idx
    · subst hf; rw [unpackLoop_cons_header] at h; cases h
    · rcases hu : unpackEntry cwd allow priv dst st x (faultBody fault idx x).1 (faultBody fault idx x).2
        with ⟨st1, _ | r1⟩
      · rw [unpackLoop_cons_none cwd allow priv dst rest hf hu] at h
        intro e he hn hs
        rcases List.mem_cons.1 he with rfl | he
        · obtain ⟨ln, _, hr, hv⟩ := unpackEntry_link_accepted cwd allow priv dst st st1 e _ _ hn hs hu
          exact ⟨ln, hr, hv⟩
        · exact ih _ _ h e he hn hs
      · rw [unpackLoop_cons_some cwd allow priv dst rest hf hu] at h; cases h

/-- an illegal-slug result of the fault-free loop comes from one entry, examined in the state the
loop reached after the entries before it -/
theorem unpackLoop_illegal_culprit (idx : Nat) (st st' : UState) (es : List Entry)
    (h : unpackLoop cwd allow priv dst .none idx st es = (st', some .illegal)) :
    ∃ pre e post st1, es = pre ++ e :: post ∧
      unpackLoop cwd allow priv dst .none idx st pre = (st1, none) ∧
      unpackEntry cwd allow priv dst st1 e e.body false = (st', some .illegal) := by
  induction es generalizing idx st with
  | nil => rw [unpackLoop_nil] at h; cases h
  | cons x rest ih =>
    have hfb0 : faultBody .none idx x = (x.body, false) := rfl
    rw [unpackLoop_cons, if_neg (by simp), hfb0] at h
    rcases hu : unpackEntry cwd allow priv dst st x x.body false with ⟨st1, _ | r1⟩
    · rw [hu] at h
      simp only at h
      obtain ⟨pre, e, post, st2, hes, hpre, hstep⟩ := ih _ _ h
      refine ⟨x :: pre, e, post, st2, by rw [hes]; rfl, ?_, hstep⟩
      rw [unpackLoop_cons, if_neg (by simp), hfb0, hu]
      exact hpre
    · rw [hu] at h
      cases h
      exact ⟨[], x, rest, st, rfl, by rw [unpackLoop_nil], hu⟩

/-! ## `unpack` = loop, then the deferred directory pass -/

theorem unpack_of_loop_some {fault : Fault} {fs : FS} {es : List Entry} {st : UState} {r : UResult}
    (h : unpackLoop cwd allow priv dst fault 0 { fs := fs, dirs := [] } es = (st, some r)) :
    unpack cwd allow priv dst fault fs es = (st.fs, r) := by
  unfold unpack; rw [h]

theorem unpack_of_loop_none {fault : Fault} {fs : FS} {es : List Entry} {st : UState}
    (h : unpackLoop cwd allow priv dst fault 0 { fs := fs, dirs := [] } es = (st, none)) :
    unpack cwd allow priv dst fault fs es =
      ((restoreDirs st.fs st.dirs).1, ((restoreDirs st.fs st.dirs).2).getD .ok) := by
  unfold unpack; rw [h]
  simp only []
  rcases restoreDirs st.fs st.dirs with ⟨fs', _ | r⟩ <;> rfl

/-- `Unpack` returns success exactly when the loop ran to the end and the deferred pass completed -/
theorem unpack_ok_iff (fault : Fault) (fs fs' : FS) (es : List Entry) :
    unpack cwd allow priv dst fault fs es = (fs', .ok) ↔
      ∃ st, unpackLoop cwd allow priv dst fault 0 { fs := fs, dirs := [] } es = (st, none) ∧
        restoreDirs st.fs st.dirs = (fs', none) := by
  rcases hl : unpackLoop cwd allow priv dst fault 0 { fs := fs, dirs := [] } es with ⟨st, _ | r⟩
  · rw [unpack_of_loop_none cwd allow priv dst hl]
    rcases hr : restoreDirs st.fs st.dirs with ⟨fs2, _ | r2⟩
    · constructor
      · intro h; cases h; exact ⟨st, rfl, hr⟩
      · rintro ⟨st2, h1, h2⟩; cases h1; rw [hr] at h2; cases h2; rfl
    · have := restoreDirs_result st.fs st.dirs
      rw [hr] at this
      constructor
      · intro h
        simp only [Option.getD_some, Prod.mk.injEq] at h
        rcases this with h' | h' <;> simp at h'
        rw [h'] at h; simp at h
      · rintro ⟨st2, h1, h2⟩; cases h1; rw [hr] at h2; cases h2
  · rw [unpack_of_loop_some cwd allow priv dst hl]
    have hne := unpackLoop_ne_ok cwd allow priv dst fault 0 { fs := fs, dirs := [] } es
    rw [hl] at hne
    constructor
    · intro h; cases h; exact absurd rfl hne
    · rintro ⟨st2, h1, _⟩; cases h1

/-- `Unpack` reports an illegal slug exactly when the loop does -/
theorem unpack_illegal_iff (fault : Fault) (fs : FS) (es : List Entry) :
    (unpack cwd allow priv dst fault fs es).2 = .illegal ↔
      ∃ st, unpackLoop cwd allow priv dst fault 0 { fs := fs, dirs := [] } es = (st, some .illegal) := by
  rcases hl : unpackLoop cwd allow priv dst fault 0 { fs := fs, dirs := [] } es with ⟨st, _ | r⟩
  · rw [unpack_of_loop_none cwd allow priv dst hl]
    constructor
    · intro h
      rcases restoreDirs_result st.fs st.dirs with h' | h' <;> rw [h'] at h <;> simp at h
    · rintro ⟨st2, h1⟩; cases h1
  · rw [unpack_of_loop_some cwd allow priv dst hl]
    constructor
    · intro h; cases h; exact ⟨st, rfl⟩
    · rintro ⟨st2, h1⟩; cases h1; rfl

/-- if the loop surfaces a result, `Unpack` does not return success -/
theorem unpack_ne_ok_of_loop_some {fault : Fault} {fs : FS} {es : List Entry} {r : UResult}
    (h : (unpackLoop cwd allow priv dst fault 0 { fs := fs, dirs := [] } es).2 = some r) :
    (unpack cwd allow priv dst fault fs es).2 ≠ .ok := by
  rcases hl : unpackLoop cwd allow priv dst fault 0 { fs := fs, dirs := [] } es with ⟨st, _ | r1⟩
  · rw [hl] at h; cases h
  · rw [unpack_of_loop_some cwd allow priv dst hl]
    have hne := unpackLoop_ne_ok cwd allow priv dst fault 0 { fs := fs, dirs := [] } es
    rw [hl] at hne
    intro hh; exact hne (by simp only at hh; rw [hh])

end Slug
