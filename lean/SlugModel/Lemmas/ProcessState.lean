import SlugModel.Generated.State
/-!
# ProcessState — the only process-level state of the library is what the model knows about

The model treats `Pack`, `Unpack`, rule-file parsing and matching, and address parsing as functions of
their arguments.  What could make the real functions depend on earlier calls in the same process is state
kept in package-level variables.  `Generated.packageVars` (rewritten from every non-test source file on
every run) lists them; this file says which are known and why they are harmless:

* `defaultExclusions`, `DefaultRuleset` (ignorefiles): the built-in rules; read-only since the repair F24
  (`readRules` works on a copy) — the `ignore` lane's call histories are what checks that;
* `remoteSourceTypes`, `remoteSourceShorthands`, the two compiled patterns (sourceaddrs): tables that are
  only read;
* `noopBuildTrace` (sourcebundle): the zero tracer.

A variable of an immutable-by-construction kind (a compiled regular expression, an error value) may be
added without notice; anything else — a map, a `sync.Map`, a `sync.Once`, a slice, a pointer, a counter —
is new process-level state and makes `no_new_process_state` fail.
-/
namespace Slug

def knownPackageVars : List (String × String × String) :=
  [("internal/ignorefiles", "DefaultRuleset", "*Ruleset"),
   ("internal/ignorefiles", "defaultExclusions", "[]rule"),
   ("sourceaddrs", "finalRegistrySourcePattern", "regexp.MustCompile()"),
   ("sourceaddrs", "remoteSourceShorthands", "[]remoteSourceShorthand"),
   ("sourceaddrs", "remoteSourceTypePattern", "regexp.MustCompile()"),
   ("sourceaddrs", "remoteSourceTypes", "map"),
   ("sourcebundle", "noopBuildTrace", "BuildTracer")]

def immutableKinds : List String := ["regexp.MustCompile()", "errors.New()", "fmt.Errorf()"]

def harmlessVar (v : String × String × String) : Bool :=
  knownPackageVars.contains v || immutableKinds.contains v.2.2

theorem no_new_process_state : Generated.packageVars.all harmlessVar = true := by decide

/-- the root package (Pack, Unpack) and unpackinfo keep no package-level variable at all -/
theorem root_package_stateless :
    (Generated.packageVars.filter (fun v => v.1 == "." || v.1 == "internal/unpackinfo")) = [] := by decide

end Slug
