import SlugModel.Generated.Tr_validSubPath
import SlugModel.Lemmas.TrEq_normalizeSubpath
import SlugModel.Addr
/-!
# `validSubPath`: the model function equals the translation of the Go function

The definition `Slug.Gen.validSubPath` (Generated/Tr_validSubPath.lean) is rewritten from /repo by harness/cmd/go2lean on
every run; the theorem here is re-checked against it.

The translated `ValidSubPath` calls the translated `normalizeSubpath`, which is the model's (`gen_normalizeSubpath`).
-/
namespace Slug

theorem gen_validSubPath (s : Str) : Gen.validSubPath s = validSubPath s := by
  unfold Gen.validSubPath validSubPath
  simp only [gen_normalizeSubpath]
  cases normalizeSubpath s <;> rfl

end Slug
