import SlugModel.Generated.Tr_looksLikeLocalSource
import SlugModel.Addr
/-!
# `looksLikeLocalSource`: the model function equals the translation of the Go function

The definition `Slug.Gen.looksLikeLocalSource` (Generated/Tr_looksLikeLocalSource.lean) is rewritten from /repo by harness/cmd/go2lean on
every run; the theorem here is re-checked against it.
-/
namespace Slug

theorem gen_looksLikeLocalSource (s : Str) : Gen.looksLikeLocalSource s = looksLikeLocal s := by
  unfold Gen.looksLikeLocalSource looksLikeLocal
  simp [Id.run, Go.hasPrefix]; rfl

end Slug
