import SlugModel.Lemmas.BundlePaths
/-!
# Lemmas/BundleReverse — the alias choice of `SourceForLocalPath`

`strLt` is a strict total order on strings, hence so is `addrBefore` (length first, then `strLt`);
`pickAddr` returns the least element of its candidates, which therefore depends only on the set
of candidates; the reverse lookup is invariant under permutation of the directory table.
-/
namespace Slug

/-! ## `strLt` -/

theorem br_strLt_irrefl : ∀ (a : Str), strLt a a = false
  | [] => rfl
  | c :: cs => by
    unfold strLt
    simp only [Nat.lt_irrefl, if_false]
    exact br_strLt_irrefl cs

theorem br_strLt_cons (a b : Char) (as bs : Str) :
    strLt (a :: as) (b :: bs) =
      if a.toNat < b.toNat then true else if b.toNat < a.toNat then false else strLt as bs := by
  rw [strLt]

theorem br_strLt_asymm : ∀ (a b : Str), strLt a b = true → strLt b a = false
  | [], [], _ => rfl
  | [], _ :: _, _ => rfl
  | _ :: _, [], h => by simp [strLt] at h
  | a :: as, b :: bs, h => by
    rw [br_strLt_cons] at h ⊢
    by_cases h1 : a.toNat < b.toNat
    · have h2 : ¬ b.toNat < a.toNat := by omega
      simp only [h2, if_false, h1, if_true]
    · by_cases h2 : b.toNat < a.toNat
      · simp [h1, h2] at h
      · simp only [h1, h2, if_false] at h ⊢
        exact br_strLt_asymm as bs h

theorem br_strLt_trans : ∀ (a b c : Str), strLt a b = true → strLt b c = true → strLt a c = true
  | [], [], _, h, _ => by simp [strLt] at h
  | [], _ :: _, [], _, h => by simp [strLt] at h
  | [], _ :: _, _ :: _, _, _ => rfl
  | _ :: _, [], _, h, _ => by simp [strLt] at h
  | _ :: _, _ :: _, [], _, h => by simp [strLt] at h
  | a :: as, b :: bs, c :: cs, h1, h2 => by
    rw [br_strLt_cons] at h1 h2 ⊢
    by_cases hab : a.toNat < b.toNat
    · by_cases hbc : b.toNat < c.toNat
      · have : a.toNat < c.toNat := by omega
        simp [this]
      · by_cases hcb : c.toNat < b.toNat
        · simp [hbc, hcb] at h2
        · have : a.toNat < c.toNat := by omega
          simp [this]
    · by_cases hba : b.toNat < a.toNat
      · simp [hab, hba] at h1
      · simp only [hab, hba, if_false] at h1
        by_cases hbc : b.toNat < c.toNat
        · have : a.toNat < c.toNat := by omega
          simp [this]
        · by_cases hcb : c.toNat < b.toNat
          · simp [hbc, hcb] at h2
          · simp only [hbc, hcb, if_false] at h2
            have e1 : ¬ a.toNat < c.toNat := by omega
            have e2 : ¬ c.toNat < a.toNat := by omega
            simp only [e1, e2, if_false]
            exact br_strLt_trans as bs cs h1 h2

/-- trichotomy: two strings neither of which is below the other are equal -/
theorem br_strLt_trichotomy : ∀ (a b : Str), strLt a b = false → strLt b a = false → a = b
  | [], [], _, _ => rfl
  | [], _ :: _, h, _ => by simp [strLt] at h
  | _ :: _, [], _, h => by simp [strLt] at h
  | a :: as, b :: bs, h1, h2 => by
    rw [br_strLt_cons] at h1 h2
    by_cases hab : a.toNat < b.toNat
    · simp [hab] at h1
    · by_cases hba : b.toNat < a.toNat
      · simp [hba] at h2
      · simp only [hab, hba, if_false] at h1 h2
        have hc : a = b := Char.toNat_inj.mp (by omega)
        rw [hc, br_strLt_trichotomy as bs h1 h2]

theorem br_strLt_total (a b : Str) (h : a ≠ b) : strLt a b = true ∨ strLt b a = true := by
  cases h1 : strLt a b with
  | true => exact Or.inl rfl
  | false =>
    cases h2 : strLt b a with
    | true => exact Or.inr rfl
    | false => exact absurd (br_strLt_trichotomy a b h1 h2) h

/-! ## `addrBefore` -/

theorem br_addrBefore_iff (a b : Str) :
    addrBefore a b = true ↔
      utf8Len a < utf8Len b ∨ (utf8Len a = utf8Len b ∧ strLt a b = true) := by
  unfold addrBefore
  simp only [Bool.or_eq_true, Bool.and_eq_true, decide_eq_true_eq, beq_iff_eq]

theorem br_addrBefore_irrefl (a : Str) : addrBefore a a = false := by
  cases h : addrBefore a a with
  | false => rfl
  | true =>
    rw [br_addrBefore_iff] at h
    rcases h with h | ⟨_, h⟩
    · omega
    · rw [br_strLt_irrefl] at h; cases h

theorem br_addrBefore_trans (a b c : Str) (h1 : addrBefore a b = true) (h2 : addrBefore b c = true) :
    addrBefore a c = true := by
  rw [br_addrBefore_iff] at h1 h2 ⊢
  rcases h1 with h1 | ⟨e1, s1⟩
  · rcases h2 with h2 | ⟨e2, _⟩
    · exact Or.inl (by omega)
    · exact Or.inl (by omega)
  · rcases h2 with h2 | ⟨e2, s2⟩
    · exact Or.inl (by omega)
    · exact Or.inr ⟨by omega, br_strLt_trans a b c s1 s2⟩

theorem br_addrBefore_asymm (a b : Str) (h : addrBefore a b = true) : addrBefore b a = false := by
  cases h' : addrBefore b a with
  | false => rfl
  | true =>
    have := br_addrBefore_trans a b a h h'
    rw [br_addrBefore_irrefl] at this
    cases this

theorem br_addrBefore_connected (a b : Str) (h : a ≠ b) :
    addrBefore a b = true ∨ addrBefore b a = true := by
  simp only [br_addrBefore_iff]
  rcases Nat.lt_trichotomy (utf8Len a) (utf8Len b) with hl | hl | hl
  · exact Or.inl (Or.inl hl)
  · rcases br_strLt_total a b h with s | s
    · exact Or.inl (Or.inr ⟨hl, s⟩)
    · exact Or.inr (Or.inr ⟨hl.symm, s⟩)
  · exact Or.inr (Or.inl hl)

/-- for distinct strings exactly one of the two directions holds -/
theorem br_addrBefore_total (a b : Str) (h : a ≠ b) :
    (addrBefore a b = true ∧ addrBefore b a = false) ∨
      (addrBefore a b = false ∧ addrBefore b a = true) := by
  rcases br_addrBefore_connected a b h with h1 | h1
  · exact Or.inl ⟨h1, br_addrBefore_asymm a b h1⟩
  · exact Or.inr ⟨br_addrBefore_asymm b a h1, h1⟩

/-- "not after" : equal or before -/
theorem br_not_before (a b : Str) (h : addrBefore a b = false) : b = a ∨ addrBefore b a = true := by
  by_cases e : b = a
  · exact Or.inl e
  · rcases br_addrBefore_connected a b (fun e' => e e'.symm) with h1 | h1
    · rw [h] at h1; cases h1
    · exact Or.inr h1

/-! ## `pickAddr` returns the least candidate -/

/-- `m` is the least element of `l` for `addrBefore` -/
def brLeast (m : Str) (l : List Str) : Prop :=
  m ∈ l ∧ ∀ x ∈ l, x ≠ m → addrBefore m x = true

theorem br_pickAddr_nil (c : Str) : pickAddr c [] = c := rfl

theorem br_pickAddr_cons (c x : Str) (xs : List Str) :
    pickAddr c (x :: xs) = pickAddr (if addrBefore x c then x else c) xs := rfl

theorem br_pickAddr_mem : ∀ (cs : List Str) (c : Str), pickAddr c cs ∈ c :: cs
  | [], c => by simp [pickAddr]
  | x :: xs, c => by
    rw [br_pickAddr_cons]
    have ih := br_pickAddr_mem xs (if addrBefore x c then x else c)
    rcases List.mem_cons.mp ih with e | hm
    · rw [e]
      split
      · exact List.mem_cons_of_mem _ List.mem_cons_self
      · exact List.mem_cons_self
    · exact List.mem_cons_of_mem _ (List.mem_cons_of_mem _ hm)

theorem br_pickAddr_le : ∀ (cs : List Str) (c : Str),
    ∀ y ∈ c :: cs, y = pickAddr c cs ∨ addrBefore (pickAddr c cs) y = true
  | [], c => by
    intro y hy
    simp only [List.mem_singleton] at hy
    exact Or.inl (by rw [hy]; rfl)
  | x :: xs, c => by
    intro y hy
    rw [br_pickAddr_cons]
    have ih := br_pickAddr_le xs (if addrBefore x c then x else c)
    -- the new best is equal to or before both `c` and `x`
    have hbest : ∀ z, z = c ∨ z = x →
        z = (if addrBefore x c then x else c) ∨ addrBefore (if addrBefore x c then x else c) z = true := by
      intro z hz
      cases hxc : addrBefore x c with
      | true =>
        simp only [if_true]
        rcases hz with e | e
        · exact Or.inr (by rw [e]; exact hxc)
        · exact Or.inl e
      | false =>
        simp only [Bool.false_eq_true, if_false]
        rcases hz with e | e
        · exact Or.inl e
        · rw [e]; exact (br_not_before x c hxc).imp Eq.symm id
    have hstep : ∀ z, z = c ∨ z = x →
        z = pickAddr (if addrBefore x c then x else c) xs ∨
          addrBefore (pickAddr (if addrBefore x c then x else c) xs) z = true := by
      intro z hz
      rcases ih _ List.mem_cons_self with e | hb
      · rw [← e]; exact hbest z hz
      · rcases hbest z hz with e | hb'
        · rw [e]; exact Or.inr hb
        · exact Or.inr (br_addrBefore_trans _ _ _ hb hb')
    rcases List.mem_cons.mp hy with e | hy
    · exact hstep y (Or.inl e)
    · rcases List.mem_cons.mp hy with e | hy
      · exact hstep y (Or.inr e)
      · exact ih y (List.mem_cons_of_mem _ hy)

theorem br_pickAddr_least (c : Str) (cs : List Str) : brLeast (pickAddr c cs) (c :: cs) := by
  refine ⟨br_pickAddr_mem cs c, ?_⟩
  intro x hx hne
  rcases br_pickAddr_le cs c x hx with e | h
  · exact absurd e hne
  · exact h

/-- the least element only depends on the set of members -/
theorem br_least_unique (m1 m2 : Str) (l1 l2 : List Str) (hmem : ∀ x, x ∈ l1 ↔ x ∈ l2)
    (h1 : brLeast m1 l1) (h2 : brLeast m2 l2) : m1 = m2 := by
  by_cases e : m1 = m2
  · exact e
  · exfalso
    have a := h1.2 m2 ((hmem m2).mpr h2.1) (fun e' => e e'.symm)
    have b := h2.2 m1 ((hmem m1).mp h1.1) e
    rw [br_addrBefore_asymm _ _ a] at b
    cases b

theorem br_pickAddr_set (c d : Str) (cs ds : List Str) (hmem : ∀ x, x ∈ c :: cs ↔ x ∈ d :: ds) :
    pickAddr c cs = pickAddr d ds :=
  br_least_unique _ _ _ _ hmem (br_pickAddr_least c cs) (br_pickAddr_least d ds)

/-! ## the reverse lookup -/

/-- the candidate addresses for a directory, in stored order -/
def brCands (dirs : List (Str × Str)) (dir : Str) : List Str :=
  (dirs.filter (fun e => e.2 = dir)).map (·.1)

theorem br_mem_cands (dirs : List (Str × Str)) (dir a : Str) :
    a ∈ brCands dirs dir ↔ (a, dir) ∈ dirs := by
  unfold brCands
  simp only [List.mem_map, List.mem_filter, decide_eq_true_eq]
  constructor
  · rintro ⟨⟨k, d⟩, ⟨hm, hd⟩, hk⟩
    simp only at hd hk
    rw [← hd, ← hk]; exact hm
  · intro h
    exact ⟨(a, dir), ⟨h, rfl⟩, rfl⟩

theorem br_cands_perm (d1 d2 : List (Str × Str)) (dir : Str) (h : List.Perm d1 d2) :
    List.Perm (brCands d1 dir) (brCands d2 dir) :=
  (h.filter _).map _

theorem br_source_eq (b : Bundle) (p : Str) :
    sourceForLocalPath b p =
      match splitLocalPath b p with
      | none => none
      | some (dir, sub) =>
        match brCands b.pkgDirs dir with
        | [] => none
        | c :: cs => some (pickAddr c cs, sub) := rfl

/-- `splitLocalPath` only reads the root and the set of stored directory names -/
theorem br_split_congr (b b' : Bundle) (p : Str) (hroot : b.root = b'.root)
    (hany : ∀ dir, b.pkgDirs.any (fun e => e.2 = dir) = b'.pkgDirs.any (fun e => e.2 = dir)) :
    splitLocalPath b p = splitLocalPath b' p := by
  unfold splitLocalPath
  rw [hroot]
  cases pathRel b'.root p with
  | none => rfl
  | some rel =>
    simp only
    rw [hany]

/-- what `splitLocalPath` answers is a stored directory name -/
theorem br_split_any (b : Bundle) (p dir sub : Str) (h : splitLocalPath b p = some (dir, sub)) :
    b.pkgDirs.any (fun e => e.2 = dir) = true := by
  unfold splitLocalPath at h
  cases hrel : pathRel b.root p with
  | none => rw [hrel] at h; cases h
  | some rel =>
    rw [hrel] at h
    simp only at h
    split at h
    · cases h
    · split at h
      · rename_i hany
        simp only [Option.some.injEq, Prod.mk.injEq] at h
        rw [← h.1]; exact hany
      · cases h

theorem br_cands_ne_nil (dirs : List (Str × Str)) (dir : Str)
    (h : dirs.any (fun e => e.2 = dir) = true) : brCands dirs dir ≠ [] := by
  rw [List.any_eq_true] at h
  obtain ⟨⟨k, d⟩, hm, hd⟩ := h
  simp only [decide_eq_true_eq] at hd
  intro e
  have : k ∈ brCands dirs dir := (br_mem_cands dirs dir k).mpr (by rw [← hd]; exact hm)
  rw [e] at this
  cases this

/-- with distinct keys, membership in the table is what `aget` answers -/
theorem br_aget_of_mem : ∀ (l : List (Str × Str)) (k v : Str),
    (l.map Prod.fst).Nodup → (k, v) ∈ l → aget l k = some v
  | [], _, _, _, h => by cases h
  | (k', v') :: l, k, v, hnd, h => by
    simp only [List.map_cons, List.nodup_cons] at hnd
    unfold aget
    rw [List.find?_cons]
    by_cases e : k' = k
    · simp only [e, decide_true]
      rcases List.mem_cons.mp h with h | h
      · simp only [Prod.mk.injEq] at h
        simp [h.2]
      · exfalso
        apply hnd.1
        rw [e]
        exact List.mem_map.mpr ⟨(k, v), h, rfl⟩
    · simp only [e, decide_false]
      rcases List.mem_cons.mp h with h | h
      · simp only [Prod.mk.injEq] at h
        exact absurd h.1.symm e
      · exact br_aget_of_mem l k v hnd.2 h

end Slug
