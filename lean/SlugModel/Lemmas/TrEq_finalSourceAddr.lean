import SlugModel.Generated.Tr_finalSourceAddr
import SlugModel.Addr
/-!
# `finalSourceAddr`: the model function equals the translation of the Go function

The definition `Slug.Gen.finalSourceAddr` (Generated/Tr_finalSourceAddr.lean) is rewritten from /repo by harness/cmd/go2lean on
every run; the theorem here is re-checked against it.

An address is the pair (package as printed, sub-path): the translated `RegistrySource.FinalSourceAddr` keeps the
package of the real source and joins the sub-paths as the model's `finalSourceSub` does.
-/
namespace Slug

theorem gen_finalSourceAddr (s real : Str × Str) :
    Gen.finalSourceAddr s real = (real.1, finalSourceSub s.2 real.2) := by
  unfold Gen.finalSourceAddr finalSourceSub
  by_cases h1 : s.2 = []
  · simp [h1, Id.run]; rfl
  · by_cases h2 : real.2 = []
    · simp [h1, h2, Id.run]; rfl
    · simp [h1, h2, Id.run, Go.pathJoin]; rfl

end Slug
