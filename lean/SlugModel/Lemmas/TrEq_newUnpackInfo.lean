import SlugModel.Generated.Tr_newUnpackInfo
import SlugModel.Unpack
import SlugModel.Lemmas.TrEq_isWithin
import SlugModel.Lemmas.TrEq_isSymlink
import SlugModel.Lemmas.TrEq_isDirectory
import SlugModel.Lemmas.TrEq_isRegular
import SlugModel.Lemmas.TrEq_isTypeX
/-!
# `newUnpackInfo`: the model function equals the translation of the Go function

The definition `Slug.Gen.newUnpackInfo` (Generated/Tr_newUnpackInfo.lean) is rewritten from /repo by harness/cmd/go2lean on
every run; the theorem here is re-checked against it.

The translation returns `(UnpackInfo, error non-nil)`, the model `Option Str` (the extraction path); the
`UnpackInfo` of a normal return is the path and the header's type flag.  The equality holds for every
filesystem, destination and entry, the empty name included (there both sides pass the name on unchanged:
`Go.byteAt [] 0` is not `'/'`).

The loop `for i := 0; i < len(components)-1; i++` of the Go function is the model's `lstatWalk`:
`walk_forIn_range0` (the index loop reads the components other than the last one in order, `range0_map_listAt`;
over that list the loop body `walkBody` is one step of `lstatWalk`, `walk_forIn`, by induction on the components).
-/
namespace Slug

/-- the index loop reads the components other than the last one, in order -/
theorem range0_map_listAt (cs : List Str) :
    (Go.range0 (Go.lenList cs - 1)).map (Go.listAt cs) = cs.dropLast := by
  unfold Go.range0 Go.lenList
  apply List.ext_getElem
  · simp
  · intro i h1 h2
    simp at h1 h2
    simp [Go.listAt]
    have h3 : ¬ ((i : Int) < 0) := by omega
    have h4 : i < cs.length := by omega
    simp [h3, List.getElem?_eq_getElem h4]

/-- the zero `UnpackInfo` with a non-nil error -/
abbrev nuiErr : Go.UnpackInfo × Bool := (({ path := [], typeflag := Char.ofNat 0 } : Go.UnpackInfo), true)

/-- the body of the loop of `NewUnpackInfo` for the component `c` (the loop of the translation runs it
with `c := Go.listAt components i`) -/
def walkBody (fs : FS) (c : Str) (s : Option (Go.UnpackInfo × Bool) × Str) :
    Id (ForInStep (Option (Go.UnpackInfo × Bool) × Str)) :=
  have currentPath := s.snd
  have currentPath := Go.pathJoin currentPath c
  match Go.lstat fs currentPath with
  | (r'_3, r'_4) =>
    have fi := r'_3
    have err_1 := r'_4
    if Go.isNotExist err_1 = true then pure (ForInStep.done (none, currentPath))
    else
      if Go.nonNil err_1 = true then
        pure (ForInStep.done (some ({ path := [], typeflag := Char.ofNat 0 }, true), currentPath))
      else
        if Go.isSymlinkMode fi = true then
          pure (ForInStep.done (some ({ path := [], typeflag := Char.ofNat 0 }, true), currentPath))
        else pure (ForInStep.yield (none, currentPath))

/-- the loop over the components other than the last one is `lstatWalk` -/
theorem walk_forIn (fs : FS) : ∀ (cs : List Str) (cur : Str),
    (forIn (m := Id) cs.dropLast ((none : Option (Go.UnpackInfo × Bool)), cur) (walkBody fs)).fst =
      if lstatWalk fs cur cs then none else some nuiErr
  | [], _ => by simp [lstatWalk]; rfl
  | [_], _ => by simp [lstatWalk]; rfl
  | c :: c' :: rest, cur => by
    have ih := walk_forIn fs (c' :: rest) (pathJoin cur c)
    rw [List.dropLast_cons_cons, List.forIn_cons]
    rw [lstatWalk.eq_3 fs cur c (c' :: rest) (by simp)]
    cases h : fs.lstat (pathJoin cur c) with
    | error er =>
      cases er <;> simp [walkBody, Go.lstat, Go.pathJoin, h, Go.isNotExist, Go.nonNil] <;> rfl
    | ok nd =>
      cases nd <;> simp [walkBody, Go.lstat, Go.pathJoin, h, Go.isNotExist, Go.nonNil, Go.isSymlinkMode] <;> first | exact ih | rfl

/-- the loop of the translation (over the indices `0 … len components - 2`) is `lstatWalk` -/
theorem walk_forIn_range0 (fs : FS) (comps : List Str) (cur : Str) :
    (forIn (m := Id) (Go.range0 (Go.lenList comps - 1)) ((none : Option (Go.UnpackInfo × Bool)), cur)
        (fun i s => walkBody fs (Go.listAt comps i) s)).fst =
      if lstatWalk fs cur comps then none else some nuiErr := by
  rw [← walk_forIn, ← range0_map_listAt, List.forIn_map]

/-- `newUnpackInfo` after the leading `/` of the name is removed: `name1` is the remaining name -/
def newUnpackInfoFrom (fs : FS) (dst : Str) (e : Entry) (name1 : Str) : Option Str :=
  let path := pathJoin dst name1
  let target := pathClean path
  if !isWithin (pathClean dst) target then none
  else
    match pathRel (pathClean dst) target with
    | none => none
    | some rel =>
      if !lstatWalk fs dst (splitOn '/' rel) then none
      else if !(e.isDir || e.isSymlink || e.isRegular || e.isTypeX) then none
      else some path

theorem newUnpackInfo_eq_from (fs : FS) (dst : Str) (e : Entry) :
    newUnpackInfo fs dst e = newUnpackInfoFrom fs dst e (match e.name with | '/' :: r => r | n => n) := rfl

/-- the first statement of `NewUnpackInfo` (`if path[0] == '/' { path = path[1:] }`) and the model's
`match e.name with | '/' :: r => r | n => n` (the empty name included) -/
theorem name1_eq (n : Str) :
    (if (Go.byteAt n 0 == '/') = true then Go.sliceFrom n 1 else n) = (match n with | '/' :: r => r | n => n) := by
  cases n with
  | nil => simp [Go.byteAt]
  | cons c r =>
    by_cases hc : c = '/'
    · subst hc; simp [Go.byteAt, Go.sliceFrom]
    · simp [Go.byteAt, hc]

theorem gen_newUnpackInfo (fs : FS) (dst : Str) (e : Entry) :
    Gen.newUnpackInfo fs dst e.name e.typ =
      (match newUnpackInfo fs dst e with
       | some p => (({ path := p, typeflag := e.typ } : Go.UnpackInfo), false)
       | none => (({ path := [], typeflag := Char.ofNat 0 } : Go.UnpackInfo), true)) := by
  unfold Gen.newUnpackInfo
  extract_lets d p cur jp p1
  have key : ∀ n : Str, (jp () n).run =
      (match newUnpackInfoFrom fs dst e n with
       | some p => (({ path := p, typeflag := e.typ } : Go.UnpackInfo), false)
       | none => nuiErr) := by
    intro n
    simp only [jp, d, cur, newUnpackInfoFrom, gen_isWithin, Go.pathClean, Go.pathJoin]
    clear p1 jp p
    by_cases hW : isWithin (pathClean dst) (pathClean (pathJoin dst n)) = true
    · cases hR : pathRel (pathClean dst) (pathClean (pathJoin dst n)) with
      | none => simp [hW, Go.pathRel, hR, Id.run]; rfl
      | some rel =>
        generalize hL : forIn (m := Id) (ρ := List Int) (α := Int) _ _ _ = L
        have hfst : L.fst = if lstatWalk fs dst (splitOn '/' rel) then none else some nuiErr := by
          rw [← hL]
          have := walk_forIn_range0 fs (splitOn '/' rel) dst
          simp [Go.pathRel, hR, Go.split]
          exact this
        clear hL
        have hb : ∀ f : Option (Go.UnpackInfo × Bool) × Str → Id (Go.UnpackInfo × Bool), (L >>= f) = f L :=
          fun _ => rfl
        have hB : (!e.isDir && !e.isSymlink && !e.isRegular && !e.isTypeX) =
            !(e.isDir || e.isSymlink || e.isRegular || e.isTypeX) := by simp [Bool.not_or]
        simp only [hW, Go.pathRel, hR, Id.run, hb, hfst, gen_isDirectory_mk, gen_isSymlink_mk,
          gen_isRegular_mk, gen_isTypeX_mk, hB]
        by_cases hK : lstatWalk fs dst (splitOn '/' rel) = true
        · by_cases hF : (e.isDir || e.isSymlink || e.isRegular || e.isTypeX) = true
          · simp only [hK, hF]; rfl
          · simp only [hK, hF]; rfl
        · simp [hK]; rfl
    · simp [hW, Id.run]; rfl
  rw [newUnpackInfo_eq_from, ← name1_eq, ← key]
  simp only [p1, p]
  split <;> rfl

end Slug
