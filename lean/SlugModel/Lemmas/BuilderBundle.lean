import SlugModel.Lemmas.BuilderClosure
import SlugModel.Props.C09
import SlugModel.Props.C18
/-!
# Lemmas/BuilderBundle — from the builder's tables to the consumer's lookups (behind C08b)

* `bbKeys`: the keys of `pkgDirs` and of `resolved` are pairwise distinct in every state of every
  run (an entry is consed only after its key was looked up and not found); preserved by every
  `Step`, hence by `drain`, `applyOp`, `runOps` — the same induction scheme as `SInv`.
* `bbParses o w`: what the re-opening theorems assume of the external parsers, stated on the
  tables of the *world* only.
* `bb_hpkg`, `bb_hreg`: the row hypotheses of the C09 theorems, derived for the state of any run
  from `SInv` (every entry of `pkgDirs` is an answer of the fetcher, every entry of `resolved`
  an answer of the registry).
-/
namespace Slug

/-! ## 0. association lists -/

theorem bb_assoc_none_not_mem {α β : Type} [DecidableEq α] {l : List (α × β)} {k : α}
    (h : assoc l k = none) : k ∉ l.map Prod.fst := by
  intro hm
  obtain ⟨e, he, rfl⟩ := List.mem_map.mp hm
  exact bn_assoc_none l _ h e he rfl

/-- with distinct keys, membership is lookup -/
theorem bb_assoc_of_mem {α β : Type} [DecidableEq α] {l : List (α × β)}
    (hnd : (l.map Prod.fst).Nodup) {k : α} {v : β} (h : (k, v) ∈ l) : assoc l k = some v := by
  cases ha : assoc l k with
  | none => exact absurd rfl (bn_assoc_none l k ha (k, v) h)
  | some v' =>
    have := bn_assoc_mem l k v' ha
    rw [bn_nodup_fun l hnd k v v' h this]

theorem bb_isSome_eq_of_none_iff {α β : Type} {a : Option α} {b : Option β}
    (h : a = none ↔ b = none) : a.isSome = b.isSome := by
  cases a with
  | none => rw [h.mp rfl]; rfl
  | some x =>
    cases b with
    | none => exact absurd (h.mpr rfl) (by simp)
    | some y => rfl

/-! ## 1. distinct keys: holds in every state of every run -/

structure bbKeys (st : BState) : Prop where
  dirs : (st.pkgDirs.map Prod.fst).Nodup
  res : (st.resolved.map Prod.fst).Nodup

theorem bbKeys.init : bbKeys BState.init := ⟨List.nodup_nil, List.nodup_nil⟩

theorem bbKeys.ensure {w : World} {st st1 : BState} {p : PkgAddr} {r : Option ContentId}
    (h : bbKeys st) (he : ensurePackage w st p = (st1, r)) : bbKeys st1 := by
  rcases ensurePackage_cases he with ⟨d, l, hd, rfl, rfl⟩ | ⟨c, pm, l, hd, hf, rfl, rfl⟩ |
      ⟨l, hd, hf, rfl, rfl⟩
  · exact ⟨h.dirs, h.res⟩
  · refine ⟨?_, h.res⟩
    show (((p, c) :: st.pkgDirs).map Prod.fst).Nodup
    rw [List.map_cons, List.nodup_cons]
    exact ⟨bb_assoc_none_not_mem hd, h.dirs⟩
  · exact ⟨h.dirs, h.res⟩

theorem bbKeys.findReg {w : World} {st st2 : BState} {rs : RegSrc} {al : List VerS}
    {r : Option RemoteSrc} (h : bbKeys st) (he : findRegistrySource w st rs al = (st2, r)) :
    bbKeys st2 := by
  obtain ⟨st1, o, h1, h2⟩ := findRegistrySource_cases he
  obtain ⟨_, _, _, e4, _, _, e7, _⟩ := listVersions_frame h1
  have h1' : bbKeys st1 := ⟨by rw [e4]; exact h.dirs, by rw [e7]; exact h.res⟩
  rcases h2 with ⟨_, rfl, _⟩ | ⟨_, _, _, rfl, _⟩ | ⟨vs, sel, o2, _, _, h3, _⟩
  · exact h1'
  · exact h1'
  · rcases lookupSource_cases h3 with ⟨real, l, hr, _, rfl⟩ | ⟨real, l, hr, hw, _, rfl⟩ |
        ⟨l, hr, hw, _, rfl⟩
    · exact ⟨h1'.dirs, h1'.res⟩
    · refine ⟨h1'.dirs, ?_⟩
      show ((((rs.pkg, sel.ver), real) :: st1.resolved).map Prod.fst).Nodup
      rw [List.map_cons, List.nodup_cons]
      exact ⟨bb_assoc_none_not_mem hr, h1'.res⟩
    · exact ⟨h1'.dirs, h1'.res⟩

/-- every step of the loop keeps the keys distinct -/
theorem bb_step_keys {w : World} {ph ph' : Bool} {st st' : BState} {ds ds' : List Diag}
    (hs : Step w ph st ds ph' st' ds') (h : bbKeys st) : bbKeys st' := by
  cases hs with
  | regEmpty _ _ hq => exact h
  | regFail _ _ q rs al f st1 hq hf =>
    exact bbKeys.findReg (st := { st with pendingRegistry := q }) ⟨h.dirs, h.res⟩ hf
  | regOk _ _ q rs al f st1 real hq hf =>
    have h1 := bbKeys.findReg (st := { st with pendingRegistry := q }) ⟨h.dirs, h.res⟩ hf
    exact ⟨h1.dirs, h1.res⟩
  | switch _ _ hr hg => exact h
  | fetchFail _ _ q src f st1 hq hf =>
    exact bbKeys.ensure (st := { st with pendingRemote := q }) ⟨h.dirs, h.res⟩ hf
  | skip _ _ q src f st1 c hq hf ha =>
    exact bbKeys.ensure (st := { st with pendingRemote := q }) ⟨h.dirs, h.res⟩ hf
  | analyse _ _ q src f st1 c decls hq hf ha hd =>
    have h1 := bbKeys.ensure (st := { st with pendingRemote := q }) ⟨h.dirs, h.res⟩ hf
    exact ⟨h1.dirs, h1.res⟩

theorem bb_drain_keys {w : World} {n : Nat} {ph : Bool} {st st' : BState} {ds ds' : List Diag}
    (h : bbKeys st) (hd : drain w n ph st ds = .done st' ds') : bbKeys st' :=
  (drain_inv w (fun _ st _ => bbKeys st) (fun _ _ _ _ _ _ hs hi => bb_step_keys hs hi)
    n ph st ds st' ds' h hd).1

theorem bb_applyOp_keys {w : World} {fuel : Nat} {st : BState} {op : Op} (h : bbKeys st) :
    bbKeys (applyOp w fuel st op).1 := by
  unfold applyOp
  by_cases hp : st.poisoned = true
  · simp only [hp, if_true]; exact h
  · rw [if_neg hp]
    have key : ∀ st1 : BState, bbKeys st1 →
        bbKeys (match drain w fuel false st1 [] with
          | .diverged => (st1, OpResult.diverged)
          | .done st2 ds => ({ st2 with poisoned := hasErrors ds }, .diags ds)).1 := by
      intro st1 h1
      cases hd : drain w fuel false st1 [] with
      | diverged => exact h1
      | done st2 ds =>
        have h2 := bb_drain_keys h1 hd
        exact ⟨h2.dirs, h2.res⟩
    cases op with
    | addRemote src f =>
      by_cases ha : st.analyzed.contains (src, f) = true
      · simp only [ha, if_true]; exact h
      · simp only [ha]
        exact key _ ⟨h.dirs, h.res⟩
    | addRegistry rs al f =>
      simp only
      exact key _ ⟨h.dirs, h.res⟩

theorem bb_runOps_keys {w : World} {fuel : Nat} (ops : List Op) :
    ∀ st, bbKeys st → bbKeys (runOps w fuel st ops).1 := by
  induction ops with
  | nil => intro st h; exact h
  | cons op r ih =>
    intro st h
    simp only [runOps]
    exact ih _ (bb_applyOp_keys h)

/-- the state of any run from the empty builder: `SInv` and distinct keys -/
theorem bb_run_sinv (w : World) (fuel : Nat) (ops : List Op) :
    SInv w ops (runOps w fuel BState.init ops).1 :=
  runOps_sinv (w := w) (ops := ops) (fuel := fuel) ops BState.init (SInv.init w ops) (fun _ h => h)

theorem bb_run_keys (w : World) (fuel : Nat) (ops : List Op) :
    bbKeys (runOps w fuel BState.init ops).1 :=
  bb_runOps_keys ops BState.init bbKeys.init

/-! ## 2. the parsers on the world's tables -/

/-- what the re-opening theorems assume of the external parsers, on the world's tables only:
every package the fetcher knows parses to itself and every content id it returns is usable as a
directory name; every (registry package, version) the registry's source endpoint knows parses to
itself, and the printed form of every source it names parses back to that source. -/
structure bbParses (o : BundleOracle) (w : World) : Prop where
  fetch : ∀ e ∈ w.fetch, o.parsePkg e.1 = some e.1 ∧
    ∀ c pm, e.2 = some (c, pm) → validLocalDir c = true
  sources : ∀ e ∈ w.sources, o.parseRegPkg e.1.1 = some e.1.1 ∧ o.parseVer e.1.2 = some e.1.2 ∧
    ∀ real, e.2 = some real → o.parseRemoteSrc (printSrc real) = some (real.pkg, real.sub)

/-- the package-row hypothesis of the C09 theorems, for any state coherent with the world -/
theorem bb_hpkg {o : BundleOracle} {w : World} {ops : List Op} {st : BState}
    (hp : bbParses o w) (s : SInv w ops st) (k : bbKeys st) :
    ∀ e ∈ st.pkgDirs, o.parsePkg e.1 = some e.1 ∧ validLocalDir e.2 = true := by
  intro e he
  obtain ⟨p, c⟩ := e
  obtain ⟨pm, h1, _⟩ := s.dirs p c (bb_assoc_of_mem k.dirs he)
  obtain ⟨g1, g2⟩ := hp.fetch _ (assoc_mem h1)
  exact ⟨g1, g2 c pm rfl⟩

/-- the registry-row hypothesis of the C09 theorems, for any state coherent with the world -/
theorem bb_hreg {o : BundleOracle} {w : World} {ops : List Op} {st : BState}
    (hp : bbParses o w) (s : SInv w ops st) (k : bbKeys st) :
    ∀ e ∈ st.resolved, o.parseRegPkg e.1.1 = some e.1.1 ∧ o.parseVer e.1.2 = some e.1.2 ∧
      o.parseRemoteSrc (printSrc e.2) = some (e.2.pkg, e.2.sub) := by
  intro e he
  obtain ⟨key, real⟩ := e
  obtain ⟨h1, _⟩ := s.res key real (bb_assoc_of_mem k.res he)
  obtain ⟨g1, g2, g3⟩ := hp.sources _ (assoc_mem h1)
  exact ⟨g1, g2, g3 real rfl⟩

/-! ## 3. reachable artefacts have normalised sub-paths when the environment's addresses have -/

/-- the sub-paths of the addresses the environment supplies are normalised (what the real address
parsers guarantee of every `RemoteSource` / `RegistrySource` value): those of the calls, those in
the finders' reports, and those of the sources the registry names -/
def bbOpSubOK : Op → Bool
  | .addRemote s _ => validSubPath s.sub
  | .addRegistry rs _ _ => validSubPath rs.sub

def bbDeclSubOK : Decl → Bool
  | .remote s _ => validSubPath s.sub
  | .registry rs _ _ => validSubPath rs.sub
  | _ => true

structure bbSubsValid (w : World) (ops : List Op) : Prop where
  ops : ∀ op ∈ ops, bbOpSubOK op = true
  decls : ∀ row ∈ w.deps, ∀ d ∈ row.2, bbDeclSubOK d = true
  srcs : ∀ e ∈ w.sources, ∀ real, e.2 = some real → validSubPath real.sub = true

/-- `bbSubsValid` from facts `decide` can check on a closed world -/
theorem bbSubsValid.ofCheck {w : World} {ops : List Op}
    (h1 : ∀ op ∈ ops, bbOpSubOK op = true)
    (h2 : ∀ row ∈ w.deps, ∀ d ∈ row.2, bbDeclSubOK d = true)
    (h3 : ∀ e ∈ w.sources, e.2.all (fun real => validSubPath real.sub) = true) :
    bbSubsValid w ops :=
  ⟨h1, h2, fun e he real hr => by have := h3 e he; rw [hr] at this; simpa using this⟩

/-- `bbParses` from facts `decide` can check on a closed world and a computable oracle -/
theorem bbParses.ofCheck {o : BundleOracle} {w : World}
    (h1 : ∀ e ∈ w.fetch, o.parsePkg e.1 = some e.1 ∧ e.2.all (fun x => validLocalDir x.1) = true)
    (h2 : ∀ e ∈ w.sources, o.parseRegPkg e.1.1 = some e.1.1 ∧ o.parseVer e.1.2 = some e.1.2 ∧
      e.2.all (fun real => decide (o.parseRemoteSrc (printSrc real) = some (real.pkg, real.sub))) = true) :
    bbParses o w where
  fetch e he := ⟨(h1 e he).1, fun c pm hr => by have := (h1 e he).2; rw [hr] at this; simpa using this⟩
  sources e he := ⟨(h2 e he).1, (h2 e he).2.1, fun real hr => by
    have := (h2 e he).2.2; rw [hr] at this; simpa using this⟩

theorem bb_mem_declsOf {w : World} {a : Art} {d : Decl} (h : d ∈ declsOf w a) :
    ∃ row ∈ w.deps, d ∈ row.2 := by
  unfold declsOf at h
  split at h
  · rename_i c _
    cases hrow : assoc w.deps (c, a.1.sub, a.2) with
    | none => rw [hrow] at h; cases h
    | some decls =>
      rw [hrow] at h
      exact ⟨_, assoc_mem hrow, h⟩
  · cases h

theorem bb_resolveReg_validSub {w : World} {ops : List Op} {rs : RegSrc} {al : List VerS}
    {r : RemoteSrc} (hv : bbSubsValid w ops) (hs : validSubPath rs.sub = true)
    (h : resolveReg w rs al = some r) : validSubPath r.sub = true := by
  obtain ⟨vs, sel, real, _, _, hsrc, _, rfl⟩ := resolveReg_some h
  exact C19_finalSourceSub_valid _ _ ((validSubPath_iff _).mp hs)
    ((validSubPath_iff _).mp (hv.srcs _ (assoc_mem hsrc) real rfl))

/-- every reachable artefact has a normalised sub-path -/
theorem bb_reach_validSub {w : World} {ops : List Op} (hv : bbSubsValid w ops) {a : Art}
    (hr : Reach w ops a) : validSubPath a.1.sub = true := by
  induction hr with
  | start op a hm hs =>
    cases hs with
    | remote s f => exact hv.ops _ hm
    | registry rs al f r hres => exact bb_resolveReg_validSub hv (hv.ops _ hm) hres
  | step a b _ hy ih =>
    cases hy with
    | remote s g hd =>
      obtain ⟨row, hrow, hmem⟩ := bb_mem_declsOf hd
      exact hv.decls row hrow _ hmem
    | loc rel g sub' hd hj => exact C19_joinSubPath_valid _ _ _ hj
    | registry rs al g r hd hres =>
      obtain ⟨row, hrow, hmem⟩ := bb_mem_declsOf hd
      exact bb_resolveReg_validSub hv (hv.decls row hrow _ hmem) hres

/-- every registry request met has a normalised sub-path -/
theorem bb_req_validSub {w : World} {ops : List Op} (hv : bbSubsValid w ops) {rs : RegSrc}
    {al : List VerS} {f : FinderId} (hr : ReqMet w ops (rs, al, f)) :
    validSubPath rs.sub = true := by
  cases hr with
  | op _ _ _ hm => exact hv.ops _ hm
  | decl a _ _ _ ha hd =>
    obtain ⟨row, hrow, hmem⟩ := bb_mem_declsOf hd
    exact hv.decls row hrow _ hmem

end Slug
