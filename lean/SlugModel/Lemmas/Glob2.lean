import SlugModel.Lemmas.Glob
/-!
# Lemmas/Glob2 — helper lemmas for C03, part 2

The compiled token list decides the segment-wise glob (`matchT_compileSegs`), for every string.
-/
namespace Slug

/-- `.*` followed by `k`: `k` holds on some suffix (every character is accepted by `.`) -/
theorem dotLoop_iff (k : Str → Bool) (s : Str) :
    dotLoop k s = true ↔ ∃ w t, s = w ++ t ∧ k t = true := by
  induction s with
  | nil =>
    simp only [dotLoop]
    constructor
    · intro h; exact ⟨[], [], rfl, h⟩
    · rintro ⟨w, t, h, hk⟩
      have : w = [] ∧ t = [] := by simpa using h.symm
      simpa [this.2] using hk
  | cons c s ih =>
    simp only [dotLoop, dotOK_true, Bool.true_and, Bool.or_eq_true, ih]
    constructor
    · rintro (h | ⟨w, t, rfl, hk⟩)
      · exact ⟨[], c :: s, rfl, h⟩
      · exact ⟨c :: w, t, rfl, hk⟩
    · rintro ⟨w, t, h, hk⟩
      cases w with
      | nil => left; simp at h; simpa [h] using hk
      | cons x w' =>
        right
        simp only [List.cons_append, List.cons.injEq] at h
        obtain ⟨rfl, rfl⟩ := h
        exact ⟨w', t, rfl, hk⟩

/-- first segment and the remainder after the first slash -/
def firstSeg : Str → Str
  | [] => []
  | c :: s => if c = '/' then [] else c :: firstSeg s

def afterSlash : Str → Option Str
  | [] => none
  | c :: s => if c = '/' then some s else afterSlash s

theorem splitSlash_eq (s : Str) :
    splitOn '/' s = match afterSlash s with
      | none => [firstSeg s]
      | some t => firstSeg s :: splitOn '/' t := by
  induction s with
  | nil => simp [splitOn, afterSlash, firstSeg]
  | cons c s ih =>
    by_cases hc : c = '/'
    · simp [splitOn, afterSlash, firstSeg, hc]
    · simp only [splitOn, afterSlash, firstSeg, hc, if_false]
      rw [ih]
      cases afterSlash s <;> simp

theorem firstSeg_noslash (s : Str) : ∀ c ∈ firstSeg s, c ≠ '/' := by
  induction s with
  | nil => simp [firstSeg]
  | cons x s ih =>
    by_cases hx : x = '/'
    · simp [firstSeg, hx]
    · intro c hc
      simp only [firstSeg, hx, if_false, List.mem_cons] at hc
      rcases hc with rfl | hc
      · exact hx
      · exact ih c hc

/-- decomposition of a string at its first slash -/
theorem decomp (s : Str) :
    match afterSlash s with
    | none => s = firstSeg s
    | some t => s = firstSeg s ++ '/' :: t := by
  induction s with
  | nil => simp [afterSlash, firstSeg]
  | cons c s ih =>
    by_cases hc : c = '/'
    · simp [afterSlash, firstSeg, hc]
    · simp only [afterSlash, firstSeg, hc, if_false]
      cases h : afterSlash s with
      | none => simp only [h] at ih; simp [← ih]
      | some t => simp only [h] at ih; simp [← ih]

/-- a slash-free prefix followed by a slash is exactly the first-slash decomposition -/
theorem split_unique (u v s : Str) (hu : ∀ c ∈ u, c ≠ '/') (h : s = u ++ '/' :: v) :
    firstSeg s = u ∧ afterSlash s = some v := by
  subst h
  induction u with
  | nil => simp [firstSeg, afterSlash]
  | cons x u ih =>
    have hx : x ≠ '/' := hu x (by simp)
    have := ih (fun c hc => hu c (by simp [hc]))
    simp [firstSeg, afterSlash, hx, this.1, this.2]

theorem noslash_after (s : Str) (h : ∀ c ∈ s, c ≠ '/') :
    afterSlash s = none ∧ firstSeg s = s := by
  induction s with
  | nil => simp [afterSlash, firstSeg]
  | cons x s ih =>
    have hx : x ≠ '/' := h x (by simp)
    have := ih (fun c hc => h c (by simp [hc]))
    simp [afterSlash, firstSeg, hx, this.1, this.2]

theorem afterSlash_none_noslash (s : Str) (h : afterSlash s = none) : ∀ c ∈ s, c ≠ '/' := by
  induction s with
  | nil => simp
  | cons x s ih =>
    by_cases hx : x = '/'
    · simp [afterSlash, hx] at h
    · simp only [afterSlash, hx, if_false] at h
      intro c hc
      rcases List.mem_cons.mp hc with rfl | hc
      · exact hx
      · exact ih h c hc

/-- `(.*/)?`-loop: succeeds iff the continuation succeeds right after *some* slash -/
theorem dirsLoop_step (k : Str → Bool) (s : Str) :
    dirsLoop k s = match afterSlash s with
      | none => false
      | some t => k t || dirsLoop k t := by
  induction s with
  | nil => simp [dirsLoop, afterSlash]
  | cons c s ih =>
    by_cases hsl : c = '/'
    · subst hsl
      simp [dirsLoop, afterSlash, dotOK_true]
    · have e1 : (c == '/') = false := by simp [hsl]
      simp only [dirsLoop, afterSlash, hsl, if_false, e1, dotOK_true, Bool.false_and,
        Bool.false_or, Bool.true_and]
      exact ih

/-- last segment: tokens of one segment against a whole string -/
theorem toks_last (as : List Atom) (h : NoSlashLit as) (s : Str) :
    matchT (toks as) s = true ↔ (∀ c ∈ s, c ≠ '/') ∧ segMatch as s = true := by
  have := toks_append_iff as h [] s
  simp only [List.append_nil] at this
  rw [this]
  constructor
  · rintro ⟨u, v, rfl, hu, hm, hv⟩
    have : v = [] := by simpa [matchT] using hv
    subst this
    simpa using ⟨hu, hm⟩
  · rintro ⟨hs, hm⟩
    exact ⟨s, [], by simp, hs, hm, by simp [matchT]⟩

/-- the `**`-prefixed spec, unfolded along the string -/
theorem gm_dstar_step (p : PSeg) (ps : List PSeg) (s : Str) :
    gm (.dstar :: p :: ps) (splitOn '/' s) =
      (gm (p :: ps) (splitOn '/' s) ||
        match afterSlash s with
        | none => false
        | some t => gm (.dstar :: p :: ps) (splitOn '/' t)) := by
  rw [splitSlash_eq s]
  cases h : afterSlash s with
  | none =>
    simp only
    rw [gm.eq_4]
    intro head t tl hx; cases hx
  | some t =>
    simp only
    have := splitOn_ne_nil '/' t
    cases hst : splitOn '/' t with
    | nil => exact absurd hst this
    | cons a b => rw [gm.eq_3]

/-- the compiled regular expression decides the segment-wise glob, on every string -/
theorem matchT_compileSegs (ps : List PSeg) (hne : ps ≠ []) (hwf : WFSegs ps) :
    ∀ s, matchT (compileSegs ps) s = gm ps (splitOn '/' s) := by
  induction ps with
  | nil => exact absurd rfl hne
  | cons p ps ih =>
    cases ps with
    | nil =>
      cases p with
      | dstar =>
        intro s
        have h1 : matchT (compileSegs [.dstar]) s = true := by
          simp only [compileSegs, matchT]
          exact (dotLoop_iff _ s).mpr ⟨s, [], by simp, by simp⟩
        have h2 : gm [.dstar] (splitOn '/' s) = true := by
          have := splitOn_ne_nil '/' s
          rw [gm.eq_2]; cases h : splitOn '/' s with
          | nil => exact absurd h this
          | cons a b => simp
        rw [h1, h2]
      | seg as =>
        intro s
        have hw : NoSlashLit as := hwf.1
        simp only [compileSegs]
        rw [splitSlash_eq s]
        cases h : afterSlash s with
        | none =>
          have hns := afterSlash_none_noslash s h
          have hfs := (noslash_after s hns).2
          simp only [hfs]
          rw [gm.eq_5]
          cases hm : segMatch as s with
          | true => exact (toks_last as hw s).mpr ⟨hns, hm⟩
          | false =>
            cases hmt : matchT (toks as) s with
            | false => rfl
            | true => have := ((toks_last as hw s).mp hmt).2; simp [hm] at this
        | some t =>
          have hd := decomp s
          rw [h] at hd
          have hmf : matchT (toks as) s = false := by
            cases hmt : matchT (toks as) s with
            | false => rfl
            | true =>
              have := ((toks_last as hw s).mp hmt).1 '/' (by rw [hd]; simp)
              exact absurd rfl this
          rw [hmf]
          simp only
          have hne' := splitOn_ne_nil '/' t
          cases hst : splitOn '/' t with
          | nil => exact absurd hst hne'
          | cons a b =>
            rw [gm.eq_6]
            intro x hx; cases hx
    | cons q qs =>
      have ih' := ih (by simp) (by cases p <;> first | exact hwf | exact hwf.2)
      cases p with
      | dstar =>
        intro s
        induction hlen : s.length using Nat.strongRecOn generalizing s with
        | _ n IH =>
          have hC := compileSegs_dstar_cons q qs
          rw [hC]
          simp only [matchT]
          rw [gm_dstar_step, ih' s, dirsLoop_step _ s]
          cases h : afterSlash s with
          | none => rfl
          | some t =>
            have hd := decomp s
            rw [h] at hd
            have hlt : t.length < n := by
              rw [← hlen, hd]; simp; omega
            have := IH t.length hlt t rfl
            rw [hC] at this
            simp only [matchT] at this
            simp only
            rw [← this, ih' t]
      | seg as =>
        intro s
        have hw : NoSlashLit as := hwf.1
        have hC := compileSegs_seg_cons as q qs
        rw [hC, splitSlash_eq s]
        cases h : afterSlash s with
        | none =>
          have hns := afterSlash_none_noslash s h
          simp only
          rw [gm.eq_8 _ _ _ _ (by intro head t tl hx; cases hx)]
          cases hmt : matchT (toks as ++ Tok.lit '/' :: compileSegs (q :: qs)) s with
          | false => rfl
          | true =>
            obtain ⟨u, v, rfl, _, _, hv⟩ := (toks_append_iff as hw _ s).mp hmt
            cases v with
            | nil => simp [matchT] at hv
            | cons x v' =>
              simp only [matchT, Bool.and_eq_true, beq_iff_eq] at hv
              have := hns x (by simp)
              exact absurd hv.1 this
        | some t =>
          have hd := decomp s
          rw [h] at hd
          have hne' := splitOn_ne_nil '/' t
          have hfs := firstSeg_noslash s
          simp only
          cases hst : splitOn '/' t with
          | nil => exact absurd hst hne'
          | cons a b =>
            rw [gm.eq_7, ← hst, ← ih' t]
            cases hm : matchT (toks as ++ Tok.lit '/' :: compileSegs (q :: qs)) s with
            | true =>
              obtain ⟨u, v, huv, hu, hsm, hv⟩ := (toks_append_iff as hw _ s).mp hm
              cases v with
              | nil => simp [matchT] at hv
              | cons x v' =>
                simp only [matchT, Bool.and_eq_true, beq_iff_eq] at hv
                obtain ⟨rfl, hv'⟩ := hv
                obtain ⟨e1, e2⟩ := split_unique u v' s hu huv
                rw [h] at e2
                cases e2
                simp [e1, hsm, hv']
            | false =>
              cases h1 : segMatch as (firstSeg s) with
              | false => simp
              | true =>
                cases h2 : matchT (compileSegs (q :: qs)) t with
                | false => simp
                | true =>
                  have : matchT (toks as ++ Tok.lit '/' :: compileSegs (q :: qs)) s = true :=
                    (toks_append_iff as hw _ s).mpr
                      ⟨firstSeg s, '/' :: t, hd, hfs, h1, by simp [matchT, h2]⟩
                  rw [this] at hm; cases hm

/-- a rule with a well-formed stored pattern matches exactly the paths its specification selects -/
theorem ruleMatches_eq_specMatches (val : Str) (h : WFVal val) (n a : Bool) (path : Str) :
    ruleMatches ⟨val, n, a⟩ path = specMatches val path := by
  simp only [ruleMatches, compileRx_eq_compileSegs val h, specMatches]
  exact matchT_compileSegs _ (parsePat_ne_nil val) (wfSegs_parsePat val) path

/-! ### reading `gm` for the shapes of the default rules -/

theorem gm_cons_nil (p : PSeg) (ps : List PSeg) : gm (p :: ps) [] = false := by
  induction ps generalizing p with
  | nil =>
    cases p with
    | dstar => rw [gm.eq_2]; rfl
    | seg as => rw [gm.eq_6]; intro s hs; cases hs
  | cons q qs ih =>
    cases p with
    | dstar =>
      rw [gm.eq_4 _ _ _ (by intro _ _ _ hx; cases hx), ih q]; rfl
    | seg as => rw [gm.eq_8 _ _ _ _ (by intro _ _ _ hx; cases hx)]

/-- a leading `**` skips any number of leading path segments -/
theorem gm_dstar_iff (p : PSeg) (ps : List PSeg) (segs : List Str) :
    gm (.dstar :: p :: ps) segs = true ↔
      ∃ pre rest, segs = pre ++ rest ∧ gm (p :: ps) rest = true := by
  induction segs with
  | nil =>
    rw [gm.eq_4 _ _ _ (by intro _ _ _ hx; cases hx), gm_cons_nil]
    simp only [Bool.or_self, Bool.false_eq_true, false_iff]
    rintro ⟨pre, rest, h, hg⟩
    have : pre = [] ∧ rest = [] := by simpa using h.symm
    rw [this.2, gm_cons_nil] at hg; cases hg
  | cons a tl ih =>
    cases tl with
    | nil =>
      rw [gm.eq_4 _ _ _ (by intro _ _ _ hx; cases hx), Bool.or_false]
      constructor
      · intro h; exact ⟨[], [a], rfl, h⟩
      · rintro ⟨pre, rest, h, hg⟩
        cases pre with
        | nil => simp only [List.nil_append] at h; rw [h]; exact hg
        | cons x pre' =>
          simp only [List.cons_append, List.cons.injEq] at h
          have : pre' = [] ∧ rest = [] := by simpa using h.2.symm
          rw [this.2, gm_cons_nil] at hg; cases hg
    | cons t tl' =>
      rw [gm.eq_3, Bool.or_eq_true, ih]
      constructor
      · rintro (h | ⟨pre, rest, h, hg⟩)
        · exact ⟨[], _, rfl, h⟩
        · exact ⟨a :: pre, rest, by rw [h]; rfl, hg⟩
      · rintro ⟨pre, rest, h, hg⟩
        cases pre with
        | nil => left; simp only [List.nil_append] at h; rw [h]; exact hg
        | cons x pre' =>
          right
          simp only [List.cons_append, List.cons.injEq] at h
          exact ⟨pre', rest, h.2, hg⟩

theorem gm_seg_cons_iff (as : List Atom) (p : PSeg) (ps : List PSeg) (segs : List Str) :
    gm (.seg as :: p :: ps) segs = true ↔
      ∃ s rest, segs = s :: rest ∧ segMatch as s = true ∧ gm (p :: ps) rest = true := by
  cases segs with
  | nil =>
    rw [gm_cons_nil]; simp
  | cons s tl =>
    cases tl with
    | nil =>
      rw [gm.eq_8 _ _ _ _ (by intro _ _ _ hx; cases hx)]
      simp only [Bool.false_eq_true, false_iff]
      rintro ⟨s', rest, h, _, hg⟩
      simp only [List.cons.injEq] at h
      rw [← h.2, gm_cons_nil] at hg; cases hg
    | cons t tl' =>
      rw [gm.eq_7, Bool.and_eq_true]
      constructor
      · rintro ⟨h1, h2⟩; exact ⟨s, t :: tl', rfl, h1, h2⟩
      · rintro ⟨s', rest, h, h1, h2⟩
        simp only [List.cons.injEq] at h
        rw [h.1, h.2]; exact ⟨h1, h2⟩

theorem gm_dstar_last_iff (segs : List Str) : gm [.dstar] segs = true ↔ segs ≠ [] := by
  rw [gm.eq_2]; cases segs <;> simp

/-- a segment pattern made of literal characters matches exactly that name -/
theorem segMatch_lits_iff (name s : Str) : segMatch (name.map Atom.lit) s = true ↔ s = name := by
  induction name generalizing s with
  | nil => cases s <;> simp [segMatch]
  | cons c n ih =>
    cases s with
    | nil => simp [segMatch]
    | cons x s' => simp [segMatch, ih]

/-- `**/name/**`: `name` is a proper (non-last) path segment -/
theorem gm_dir_iff (name : Str) (segs : List Str) :
    gm [.dstar, .seg (name.map Atom.lit), .dstar] segs = true ↔
      ∃ pre post, segs = pre ++ name :: post ∧ post ≠ [] := by
  rw [gm_dstar_iff]
  constructor
  · rintro ⟨pre, rest, h, hg⟩
    obtain ⟨s, post, rfl, hs, hp⟩ := (gm_seg_cons_iff _ _ _ _).mp hg
    rw [segMatch_lits_iff] at hs
    subst hs
    exact ⟨pre, post, h, (gm_dstar_last_iff _).mp hp⟩
  · rintro ⟨pre, post, h, hp⟩
    exact ⟨pre, name :: post, h, (gm_seg_cons_iff _ _ _ _).mpr
      ⟨name, post, rfl, (segMatch_lits_iff _ _).mpr rfl, (gm_dstar_last_iff _).mpr hp⟩⟩

/-- `**/n1/n2/**`: `n1`, `n2` are consecutive path segments followed by something -/
theorem gm_dir2_iff (n1 n2 : Str) (segs : List Str) :
    gm [.dstar, .seg (n1.map Atom.lit), .seg (n2.map Atom.lit), .dstar] segs = true ↔
      ∃ pre post, segs = pre ++ n1 :: n2 :: post ∧ post ≠ [] := by
  rw [gm_dstar_iff]
  constructor
  · rintro ⟨pre, rest, h, hg⟩
    obtain ⟨s, rest', rfl, hs, hg'⟩ := (gm_seg_cons_iff _ _ _ _).mp hg
    obtain ⟨s2, post, rfl, hs2, hp⟩ := (gm_seg_cons_iff _ _ _ _).mp hg'
    rw [segMatch_lits_iff] at hs hs2
    subst hs; subst hs2
    exact ⟨pre, post, h, (gm_dstar_last_iff _).mp hp⟩
  · rintro ⟨pre, post, h, hp⟩
    exact ⟨pre, n1 :: n2 :: post, h, (gm_seg_cons_iff _ _ _ _).mpr
      ⟨n1, n2 :: post, rfl, (segMatch_lits_iff _ _).mpr rfl, (gm_seg_cons_iff _ _ _ _).mpr
        ⟨n2, post, rfl, (segMatch_lits_iff _ _).mpr rfl, (gm_dstar_last_iff _).mpr hp⟩⟩⟩

end Slug
