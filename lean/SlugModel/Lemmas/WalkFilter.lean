import SlugModel.Lemmas.RoundTrip
import SlugModel.Lemmas.SanitiseInv
import SlugModel.Lemmas.Prune
/-!
# Lemmas/WalkFilter — the ignore rules at the level of the walks

Helper lemmas for `Props/C03w`.
* `wf_visit_excluded`, `wf_visit_dir_excluded`: the Pack callback on a node whose ARCHIVE path (the
  path relative to `root` after the `src ↦ dst` replacement) is excluded — any options, any
  `root`/`src`/`dst` (the rules see the archive path: repair of finding F43);
  `wf_visit_excluded_same`, `wf_visit_eq`: for a walk without dereferencing (`root = src = dst`),
  where the archive path is the path relative to the source; the callback in normal form.
* `WfNew`, `WfShipOK`, `wf_walk_ship`, `wf_pack_ship`: every entry the walk writes passed the ignore
  tests (the secrecy direction; no hypothesis on the tree or the rules); `wf_walk_ship_all`,
  `wf_pack_ship_any`: the same for ANY options — dereferencing on, any nesting of dereferenced
  directories (the options are quantified inside the induction: a nested walk runs with a longer
  `visiting` list).
* `wfKept`, `wfPruned`, `wfOpenFrom`, `WfCtx`, `WfSub`, `wf_walk`, `wf_pack_ships`: for a physical
  source directory without dereferencing, exactly which nodes ship, for any rule set — own path not
  excluded and no ancestor directory skipped (the analogue of `rt_walk` with a rule set);
  `wf_open_of_kept`: under `MarkedOK` and `TailClosed` the second condition follows from the first.
* `wfShipB`, `wf_pack_filter`: the entry list with ignore processing on is the entry list with it off,
  filtered, in the same order.
* `wfTailClosedB`, `wf_tailClosed_of_check`: a decidable sufficient condition for `TailClosed` that
  also accepts patterns ending in a literal character or `?` (e.g. `*.key`).
* `wfRemovable`, `WfRem`, `wfRem_walk`: the bundle builder's removal walk deletes a binding only when
  a path at or above it is excluded (as itself, or as a directory with a trailing slash).
-/
namespace Slug

/-- the callback on a node whose ARCHIVE path `sub` (the path relative to `root` after the
`src ↦ dst` replacement — the name the entry would get) is excluded: nothing is written, the walk
goes on.  Any options, any `root`/`src`/`dst` (so also inside a dereferenced directory; before the
repair of finding F43 the rules were matched against `sub0`, the path relative to `src`). -/
theorem wf_visit_excluded (fs : FS) (cwd : Str) (o : PackOpts) (rules : Option (List Rule)) (root src dst : Str)
    (fuel : Nat) (path : Str) (node : Node) (st : PState) (sub0 sub : Str)
    (h1 : pathRel src path = some sub0) (h4 : pathRel root (replaceFirst path src dst) = some sub)
    (h2 : (ruleExcludes rules sub).1 = true) :
    visit fs cwd o rules root src dst (fuel + 1) path node st = (st, .cont) := by
  by_cases hdot : sub0 = dot
  · cases node <;> rw [visit] <;> first | (intro _ _ h; cases h) | simp [h1, hdot]
  · exact pk_visit_excluded_emits_nothing fs cwd o rules root src dst fuel path node st sub0 sub h1 hdot h4 h2

/-- `wf_visit_excluded` for a walk without dereferencing (`root = src = dst`): the archive path is
the path relative to the source -/
theorem wf_visit_excluded_same (fs : FS) (cwd : Str) (o : PackOpts) (rules : Option (List Rule)) (R : Str)
    (fuel : Nat) (path : Str) (node : Node) (st : PState) (sub : Str)
    (h1 : pathRel R path = some sub) (h2 : (ruleExcludes rules sub).1 = true) :
    visit fs cwd o rules R R R (fuel + 1) path node st = (st, .cont) :=
  wf_visit_excluded fs cwd o rules R R R fuel path node st sub sub h1 (by rw [rt_replaceFirst_same]; exact h1) h2

/-- a directory whose archive path with a trailing slash is excluded: nothing is written for it; the
walk skips it when the match dominates and descends otherwise -/
theorem wf_visit_dir_excluded (fs : FS) (cwd : Str) (o : PackOpts) (rules : Option (List Rule)) (root src dst : Str)
    (fuel : Nat) (path : Str) (perm : Nat) (mt : Int) (st : PState) (sub0 sub : Str)
    (h1 : pathRel src path = some sub0) (h4 : pathRel root (replaceFirst path src dst) = some sub)
    (h3 : (ruleExcludes rules (sub ++ ['/'])).1 = true) :
    visit fs cwd o rules root src dst (fuel + 1) path (.dir perm mt) st =
      (st, if sub0 = dot ∨ sub = dot ∨ (ruleExcludes rules sub).1 = true then .cont
           else if (ruleExcludes rules (sub ++ ['/'])).2 then .skipDir else .cont) := by
  rw [visit]
  by_cases hdot0 : sub0 = dot
  · simp [h1, hdot0]
  · by_cases hdot : sub = dot
    · simp [h1, h4, hdot0, hdot]
    · cases h2 : (ruleExcludes rules sub).1 <;> simp [h1, h4, hdot0, hdot, h2, h3]

def wfIsDir : Node → Bool
  | .dir _ _ => true
  | _ => false

/-- what the callback does with a node that passed the ignore tests (no dereferencing) -/
def wfEmit (fs : FS) (cwd : Str) (o : PackOpts) (R path sub : Str) (node : Node) (st : PState) : PState × WalkRes :=
  match node with
  | .special => (st, .cont)
  | .dir perm mt =>
    ({ entries := st.entries ++ [{ name := sub ++ ['/'], typ := tDir, mode := perm &&& 0o777, mtime := roundSec mt, link := [], body := [] }],
       pmeta := { files := st.pmeta.files ++ [sub ++ ['/']], size := st.pmeta.size } }, .cont)
  | .file perm mt content =>
    match fs.readFile path with
    | .error _ => (st, .stop .ioerr)
    | .ok body =>
      ({ entries := st.entries ++ [{ name := sub, typ := tReg, mode := perm &&& 0o777, mtime := roundSec mt, link := [], body := content }],
         pmeta := { files := st.pmeta.files ++ [sub], size := st.pmeta.size + utf8Len body } }, .cont)
  | .link target =>
    if validSymlink cwd o.allow R path target then
      ({ entries := st.entries ++ [{ name := sub, typ := tSymlink, mode := 0o777, mtime := 0, link := target, body := [] }],
         pmeta := { files := st.pmeta.files ++ [sub], size := st.pmeta.size } }, .cont)
    else (st, .stop .illegal)

theorem wf_visit_eq (fs : FS) (cwd : Str) (o : PackOpts) (rules : Option (List Rule)) (R : Str)
    (hd : o.dereference = false) (fuel : Nat) (path : Str) (node : Node) (st : PState) :
    visit fs cwd o rules R R R (fuel + 1) path node st =
      match pathRel R path with
      | none => (st, .stop .ioerr)
      | some sub =>
        if sub = dot then (st, .cont)
        else if (ruleExcludes rules sub).1 then (st, .cont)
        else if wfIsDir node && (ruleExcludes rules (sub ++ ['/'])).1 then
          (st, if (ruleExcludes rules (sub ++ ['/'])).2 then .skipDir else .cont)
        else wfEmit fs cwd o R path sub node st := by
  cases hrel : pathRel R path with
  | none =>
    cases node <;> rw [visit] <;> first | (intro _ _ h; cases h) | simp [hrel]
  | some sub =>
    by_cases h1 : sub = dot
    · cases node <;> rw [visit] <;> first | (intro _ _ h; cases h) | simp [hrel, h1]
    · cases h2 : (ruleExcludes rules sub).1 with
      | true =>
        rw [wf_visit_excluded_same fs cwd o rules R fuel path node st sub hrel h2]
        simp [h1, h2]
      | false =>
        cases node with
        | special =>
          rw [visit]
          · simp [hrel, h1, h2, rt_replaceFirst_same, wfIsDir, wfEmit]
          · intro _ _ h; cases h
        | dir perm mt =>
          rw [visit]
          cases h3 : (ruleExcludes rules (sub ++ ['/'])).1 <;>
            simp [hrel, h1, h2, h3, rt_replaceFirst_same, wfIsDir, wfEmit]
        | file perm mt c =>
          rw [visit]
          · cases hb : fs.readFile path <;> simp [hrel, h1, h2, rt_replaceFirst_same, wfIsDir, wfEmit, hb]
          · intro _ _ h; cases h
        | link t =>
          rw [visit]
          · simp [hrel, h1, h2, rt_replaceFirst_same, wfIsDir, wfEmit, hd]
          · intro _ _ h; cases h

/-! ## what the walk ships is not excluded -/

/-- the name without a trailing slash -/
def wfStrip (name : Str) : Str := if hasSuffix name ['/'] then name.dropLast else name

/-- `st'` is `st` with entries appended that all satisfy `P` -/
def WfNew (P : Entry → Prop) (st st' : PState) : Prop :=
  ∃ L, st'.entries = st.entries ++ L ∧ ∀ e ∈ L, P e

theorem WfNew.refl (P : Entry → Prop) (st : PState) : WfNew P st st := ⟨[], by simp, fun _ h => nomatch h⟩

theorem WfNew.trans {P : Entry → Prop} {a b c : PState} (h1 : WfNew P a b) (h2 : WfNew P b c) : WfNew P a c := by
  obtain ⟨L, e1, hL⟩ := h1
  obtain ⟨M, e2, hM⟩ := h2
  refine ⟨L ++ M, by rw [e2, e1, List.append_assoc], ?_⟩
  intro e he
  rcases List.mem_append.mp he with h | h
  · exact hL e h
  · exact hM e h

theorem wfNew_push (P : Entry → Prop) (st : PState) (e : Entry) (pm : PMeta) (h : P e) :
    WfNew P st { entries := st.entries ++ [e], pmeta := pm } :=
  ⟨[e], rfl, fun x hx => by simp only [List.mem_singleton] at hx; rw [hx]; exact h⟩

/-- the entry was written for a relative path `sub` that passed the ignore tests -/
def WfShipOK (rules : Option (List Rule)) (e : Entry) : Prop :=
  ∃ sub, sub ≠ [] ∧ hasSuffix sub ['/'] = false ∧ (ruleExcludes rules sub).1 = false ∧
    ((e.typ = tDir ∧ e.name = sub ++ ['/'] ∧ (ruleExcludes rules (sub ++ ['/'])).1 = false) ∨
     (e.typ ≠ tDir ∧ e.name = sub))

theorem wf_visit_ship (fs : FS) (cwd : Str) (o : PackOpts) (rules : Option (List Rule)) (R : Str)
    (hd : o.dereference = false) (fuel : Nat) (path : Str) (node : Node) (st : PState) :
    WfNew (WfShipOK rules) st (visit fs cwd o rules R R R fuel path node st).1 := by
  cases fuel with
  | zero => rw [visit]; exact .refl _ _
  | succ fuel =>
    rw [wf_visit_eq fs cwd o rules R hd]
    split
    · exact .refl _ _
    · rename_i sub hrel
      split
      · exact .refl _ _
      · rename_i hdot
        obtain ⟨hne, hsuf⟩ := rt_pathRel_sub R path sub hrel hdot
        split
        · exact .refl _ _
        · rename_i hex
          have hex' : (ruleExcludes rules sub).1 = false := by simpa using hex
          split
          · exact .refl _ _
          · rename_i hexd
            cases node with
            | special => exact .refl _ _
            | dir perm mt =>
              have hexd' : (ruleExcludes rules (sub ++ ['/'])).1 = false := by simpa [wfIsDir] using hexd
              exact wfNew_push _ _ _ _ ⟨sub, hne, hsuf, hex', Or.inl ⟨rfl, rfl, hexd'⟩⟩
            | file perm mt c =>
              simp only [wfEmit]
              split
              · exact .refl _ _
              · exact wfNew_push _ _ _ _ ⟨sub, hne, hsuf, hex', Or.inr ⟨by simp [tReg, tDir], rfl⟩⟩
            | link t =>
              simp only [wfEmit]
              split
              · exact wfNew_push _ _ _ _ ⟨sub, hne, hsuf, hex', Or.inr ⟨by simp [tSymlink, tDir], rfl⟩⟩
              · exact .refl _ _

theorem wf_walk_ship (fs : FS) (cwd : Str) (o : PackOpts) (rules : Option (List Rule)) (R : Str)
    (hd : o.dereference = false) :
    ∀ fuel : Nat,
      (∀ path node st, WfNew (WfShipOK rules) st (walkNode fs cwd o rules R R R fuel path node st).1) ∧
      (∀ path names st, WfNew (WfShipOK rules) st (walkChildren fs cwd o rules R R R fuel path names st).1) := by
  intro fuel
  induction fuel with
  | zero =>
    refine ⟨?_, ?_⟩
    · intro path node st; rw [walkNode]; exact .refl _ _
    · intro path names st; rw [walkChildren]; exact .refl _ _
  | succ fuel ih =>
    obtain ⟨ihN, ihC⟩ := ih
    refine ⟨?_, ?_⟩
    · intro path node st
      have hv := wf_visit_ship fs cwd o rules R hd fuel path node st
      cases node with
      | dir perm mt =>
        rw [walkNode]
        simp only
        split
        · split
          · exact hv
          · exact hv.trans (ihC _ _ _)
        · exact hv
      | file perm mt c => rw [walkNode]; exact hv; intro _ _ h; cases h
      | link t => rw [walkNode]; exact hv; intro _ _ h; cases h
      | special => rw [walkNode]; exact hv; intro _ _ h; cases h
    · intro path names st
      cases names with
      | nil => rw [walkChildren]; exact .refl _ _
      | cons name rest =>
        rw [walkChildren]
        simp only
        split
        · exact .refl _ _
        · rename_i child hc
          have hn := ihN (pathJoin path name) child st
          split
          · exact hn.trans (ihC _ _ _)
          · split
            · exact hn.trans (ihC _ _ _)
            · exact hn
          · exact hn

/-- what `WfShipOK` says in terms of the entry name alone -/
theorem WfShipOK.name {rules : Option (List Rule)} {e : Entry} (h : WfShipOK rules e) :
    (ruleExcludes rules (wfStrip e.name)).1 = false ∧
    (e.isDir = true → (ruleExcludes rules e.name).1 = false) ∧
    (hasSuffix e.name ['/'] = true → e.isDir = true) := by
  obtain ⟨sub, hne, hsuf, hex, h | h⟩ := h
  · obtain ⟨ht, hn, hexd⟩ := h
    have hs : hasSuffix (sub ++ ['/']) ['/'] = true := by simp [hasSuffix]
    refine ⟨?_, fun _ => by rw [hn]; exact hexd, fun _ => by simp [Entry.isDir, ht]⟩
    rw [hn, wfStrip, if_pos hs, List.dropLast_concat]
    exact hex
  · obtain ⟨ht, hn⟩ := h
    refine ⟨?_, fun hdir => absurd (by simpa [Entry.isDir] using hdir) ht, fun hs => ?_⟩
    · rw [hn, wfStrip, hsuf]; exact hex
    · rw [hn, hsuf] at hs; cases hs

/-- hence for an excluded path `p` the entry is named neither `p` nor `p/` -/
theorem WfShipOK.not_named {rules : Option (List Rule)} {e : Entry} (h : WfShipOK rules e) (p : Str)
    (hp : (ruleExcludes rules p).1 = true) : e.name ≠ p ∧ e.name ≠ p ++ ['/'] := by
  obtain ⟨h1, h2, h3⟩ := h.name
  refine ⟨?_, ?_⟩
  · intro hn
    by_cases hs : hasSuffix e.name ['/'] = true
    · have := h2 (h3 hs)
      rw [hn, hp] at this
      cases this
    · have hst : wfStrip e.name = p := by rw [wfStrip, if_neg hs, hn]
      rw [hst, hp] at h1
      cases h1
  · intro hn
    have hst : wfStrip e.name = p := by
      rw [hn, wfStrip, if_pos (by simp [hasSuffix]), List.dropLast_concat]
    rw [hst, hp] at h1
    cases h1

/-- every entry `Pack` writes without dereferencing passed the ignore tests of the rule set in force -/
theorem wf_pack_ship (fs : FS) (cwd : Str) (o : PackOpts) (src : Str) (hd : o.dereference = false) :
    ∀ e ∈ (pack fs cwd o src).1.entries, WfShipOK (pkRules fs cwd o src) e := by
  have h0 : WfNew (WfShipOK (pkRules fs cwd o src)) pkEmpty (pack fs cwd o src).1 := by
    rw [pk_pack_eq]
    split
    · exact .refl _ _
    · split
      · exact .refl _ _
      · rw [pkFinish_fst]
        exact (wf_walk_ship fs cwd o _ _ hd packFuel).1 _ _ _
  obtain ⟨L, e1, hL⟩ := h0
  intro e he
  rw [e1] at he
  exact hL e (by simpa [pkEmpty] using he)

/-! ### the same for any options (the rules see the archive path: repair of finding F43) -/

theorem wf_visit_ship_all (fs : FS) (cwd : Str) (rules : Option (List Rule)) (root : Str) (fuel : Nat)
    (ihN : ∀ (o : PackOpts) src dst path node st,
      WfNew (WfShipOK rules) st (walkNode fs cwd o rules root src dst fuel path node st).1) :
    ∀ (o : PackOpts) src dst path node st,
      WfNew (WfShipOK rules) st (visit fs cwd o rules root src dst (fuel + 1) path node st).1 := by
  intro o src dst path node st
  cases node <;> rw [visit] <;> first | (intro _ _ h; cases h) | skip
  all_goals simp only [↓reduceIte, Bool.false_eq_true]
  all_goals repeat' split
  all_goals first | exact .refl _ _ | exact ihN _ _ _ _ _ _ | skip
  all_goals
    have hrs := rt_pathRel_sub _ _ _ ‹pathRel root (replaceFirst _ _ _) = some _› ‹_›
  · rename_i hex hexd
    exact wfNew_push _ _ _ _ ⟨_, hrs.1, hrs.2, by simpa using hex, Or.inl ⟨rfl, rfl, by simpa using hexd⟩⟩
  · rename_i hex _ _ _
    exact wfNew_push _ _ _ _ ⟨_, hrs.1, hrs.2, by simpa using hex, Or.inr ⟨by simp [tReg, tDir], rfl⟩⟩
  · rename_i hex _
    exact wfNew_push _ _ _ _ ⟨_, hrs.1, hrs.2, by simpa using hex, Or.inr ⟨by simp [tSymlink, tDir], rfl⟩⟩
  · rename_i hex _ _ _ _ _ _ _ _ _ _ _ _
    exact wfNew_push _ _ _ _ ⟨_, hrs.1, hrs.2, by simpa using hex, Or.inr ⟨by simp [tReg, tDir], rfl⟩⟩

/-- every entry the walk appends — any options, any `src`/`dst`, any nesting of dereferenced
directories — was written for an archive path that passed the ignore tests (`WfShipOK`: the
strengthening of `PkNotExcluded` of Lemmas/PackInv by "the path is a result of `filepath.Rel`": not
empty, no trailing separator; and the entry type) -/
theorem wf_walk_ship_all (fs : FS) (cwd : Str) (rules : Option (List Rule)) (root : Str) :
    ∀ fuel : Nat,
      (∀ (o : PackOpts) src dst path node st,
        WfNew (WfShipOK rules) st (walkNode fs cwd o rules root src dst fuel path node st).1) ∧
      (∀ (o : PackOpts) src dst path names st,
        WfNew (WfShipOK rules) st (walkChildren fs cwd o rules root src dst fuel path names st).1) ∧
      (∀ (o : PackOpts) src dst path node st,
        WfNew (WfShipOK rules) st (visit fs cwd o rules root src dst fuel path node st).1) := by
  intro fuel
  induction fuel with
  | zero =>
    refine ⟨?_, ?_, ?_⟩
    · intro o src dst path node st; rw [walkNode]; exact .refl _ _
    · intro o src dst path names st; rw [walkChildren]; exact .refl _ _
    · intro o src dst path node st; rw [visit]; exact .refl _ _
  | succ fuel ih =>
    obtain ⟨ihN, ihC, ihV⟩ := ih
    refine ⟨?_, ?_, ?_⟩
    · intro o src dst path node st
      have hv := ihV o src dst path node st
      cases node with
      | dir perm mt =>
        rw [walkNode]
        simp only
        split
        · split
          · exact hv
          · exact hv.trans (ihC _ _ _ _ _ _)
        · exact hv
      | file perm mt c => rw [walkNode]; exact hv; intro _ _ h; cases h
      | link t => rw [walkNode]; exact hv; intro _ _ h; cases h
      | special => rw [walkNode]; exact hv; intro _ _ h; cases h
    · intro o src dst path names st
      cases names with
      | nil => rw [walkChildren]; exact .refl _ _
      | cons name rest =>
        rw [walkChildren]
        simp only
        split
        · exact .refl _ _
        · rename_i child hc
          have hn := ihN o src dst (pathJoin path name) child st
          split
          · exact hn.trans (ihC _ _ _ _ _ _)
          · split
            · exact hn.trans (ihC _ _ _ _ _ _)
            · exact hn
          · exact hn
    · exact wf_visit_ship_all fs cwd rules root fuel ihN

/-- every entry `Pack` writes — any options, dereferencing included — passed the ignore tests of the
rule set in force, under the name it has in the archive -/
theorem wf_pack_ship_any (fs : FS) (cwd : Str) (o : PackOpts) (src : Str) :
    ∀ e ∈ (pack fs cwd o src).1.entries, WfShipOK (pkRules fs cwd o src) e := by
  have h0 : WfNew (WfShipOK (pkRules fs cwd o src)) pkEmpty (pack fs cwd o src).1 := by
    rw [pk_pack_eq]
    split
    · exact .refl _ _
    · split
      · exact .refl _ _
      · rw [pkFinish_fst]
        exact (wf_walk_ship_all fs cwd _ _ packFuel).1 _ _ _ _ _ _
  obtain ⟨L, e1, hL⟩ := h0
  intro e he
  rw [e1] at he
  exact hL e (by simpa [pkEmpty] using he)

/-- `WfShipOK` implies the weaker `PkNotExcluded` of Lemmas/PackInv -/
theorem WfShipOK.notExcluded {rules : Option (List Rule)} {e : Entry} (h : WfShipOK rules e) :
    PkNotExcluded rules e := by
  obtain ⟨sub, _, _, hex, h | h⟩ := h
  · exact ⟨sub, hex, Or.inr h⟩
  · exact ⟨sub, hex, Or.inl h.2⟩

/-! ## exactly what ships (no dereferencing, physical source directory) -/

/-- the node's own path passes the ignore tests of the callback -/
def wfKept (rs : List Rule) (r : RelPath) (nd : Node) : Prop :=
  (excludes rs (joinWith '/' r)).1 = false ∧
  (wfIsDir nd = true → (excludes rs (joinWith '/' r ++ ['/'])).1 = false)

instance wfDecKept (rs : List Rule) (r : RelPath) (nd : Node) : Decidable (wfKept rs r nd) := by
  unfold wfKept; infer_instance

/-- the walk skips the directory `q`: not excluded itself, excluded as `q/` with a dominating match -/
def wfPruned (rs : List Rule) (q : RelPath) : Prop :=
  (excludes rs (joinWith '/' q)).1 = false ∧ excludes rs (joinWith '/' q ++ ['/']) = (true, true)

instance wfDecPruned (rs : List Rule) (q : RelPath) : Decidable (wfPruned rs q) := by
  unfold wfPruned; infer_instance

/-- no proper ancestor of `r` of length at least `k` is skipped -/
def wfOpenFrom (k : Nat) (rs : List Rule) (r : RelPath) : Prop :=
  ∀ q, q <+: r → q ≠ r → k ≤ q.length → ¬ wfPruned rs q

theorem wfOpenFrom_mono {k k' : Nat} {rs : List Rule} {r : RelPath} (h : wfOpenFrom k rs r) (hk : k ≤ k') :
    wfOpenFrom k' rs r := fun q h1 h2 h3 => h q h1 h2 (Nat.le_trans hk h3)

theorem wfOpenFrom_self (rs : List Rule) (r : RelPath) : wfOpenFrom r.length rs r := by
  intro q h1 h2 h3
  exact absurd (h1.eq_of_length (Nat.le_antisymm h1.length_le h3)) h2

/-- below `rel`: open from `rel` on iff `rel` is not skipped and open from the child on -/
theorem wfOpenFrom_step {rs : List Rule} {rel r : RelPath} (hpre : rel <+: r) (hne : r ≠ rel) :
    wfOpenFrom rel.length rs r ↔ ¬ wfPruned rs rel ∧ wfOpenFrom (rel.length + 1) rs r := by
  constructor
  · intro h
    exact ⟨h rel hpre (fun e => hne e.symm) (Nat.le_refl _), wfOpenFrom_mono h (Nat.le_succ _)⟩
  · rintro ⟨h1, h2⟩ q hq hqr hk
    by_cases hl : q.length = rel.length
    · have : q = rel := by
        have := List.prefix_of_prefix_length_le hq hpre (by omega)
        exact this.eq_of_length hl
      rw [this]; exact h1
    · exact h2 q hq hqr (by omega)

/-- decidable form of `wfOpenFrom` -/
def wfOpenB (k : Nat) (rs : List Rule) (r : RelPath) : Bool :=
  (List.range r.length).all fun i => decide (i < k) || !decide (wfPruned rs (r.take i))

theorem wfOpenFrom_of_check {k : Nat} {rs : List Rule} {r : RelPath} (h : wfOpenB k rs r = true) :
    wfOpenFrom k rs r := by
  intro q hq hne hk hp
  unfold wfOpenB at h
  rw [List.all_eq_true] at h
  have hl : q.length < r.length := by
    rcases Nat.lt_or_ge q.length r.length with h' | h'
    · exact h'
    · exact absurd (hq.eq_of_length (Nat.le_antisymm hq.length_le h')) hne
  have := h q.length (List.mem_range.mpr hl)
  rw [← List.prefix_iff_eq_take.mp hq] at this
  simp only [Bool.or_eq_true, decide_eq_true_eq, Bool.not_eq_true', decide_eq_false_iff_not] at this
  rcases this with h' | h'
  · omega
  · exact h' hp

/-- the hypotheses of the exact description of `Pack` with ignore processing -/
structure WfCtx (fs : FS) (cwd : Str) (o : PackOpts) (root : Str) (rs : List Rule) : Prop where
  noDeref : o.dereference = false
  rootClean : AbsClean root
  phys : RtPhys fs (pathSegs root)
  names : PackNamesOK fs
  depth : ∀ e ∈ fs, pathSegs root <+: e.1 → e.1.length < resolveFuel
  /-- links whose own path is not excluded are accepted -/
  links : ∀ r t, rtRaw fs (pathSegs root) r = some (.link t) → (excludes rs (joinWith '/' r)).1 = false →
    validSymlink cwd o.allow root (ofSegs (pathSegs root ++ r)) t = true

theorem wf_visit_kept {fs : FS} {cwd : Str} {o : PackOpts} {root : Str} {rs : List Rule}
    (ctx : WfCtx fs cwd o root rs) (fuel : Nat) (rel : RelPath) (nd : Node) (st : PState)
    (hraw : rtRaw fs (pathSegs root) rel = some nd) (hk : wfKept rs rel nd) :
    ∃ st', visit fs cwd o (some rs) root root root (fuel + 1) (ofSegs (pathSegs root ++ rel)) nd st = (st', .cont) ∧
      st'.entries = st.entries ++ (rtEmit rel nd).map rtEntryP := by
  have hne : rel ≠ [] := (rt_raw_some.mp hraw).1
  have hN := rt_raw_names ctx.names hraw
  have hrel : ∀ c ∈ rel, NameNS c := fun c hc => hN c (List.mem_append_right _ hc)
  have h1 := rt_pathRel_below root rel ctx.rootClean hne hrel
  have h2 := rt_joinWith_ne_dot rel hrel
  have hlen : (pathSegs root ++ rel).length < resolveFuel :=
    ctx.depth _ (rt_get_mem (rt_raw_some.mp hraw).2.2) (List.prefix_append _ _)
  have hl := rt_lstat_below fs _ rel nd ctx.phys ctx.names hraw hlen
  rw [wf_visit_eq fs cwd o (some rs) root ctx.noDeref]
  simp only [h1, h2, if_false, ruleExcludes, hk.1, Bool.false_eq_true]
  cases nd with
  | special => exact ⟨st, by simp [wfIsDir, wfEmit], by simp [rtEmit]⟩
  | dir perm mt =>
    have := hk.2 rfl
    simp only [wfIsDir, this, Bool.and_false, Bool.false_eq_true, if_false, wfEmit]
    exact ⟨_, rfl, rfl⟩
  | file perm mt c =>
    simp only [wfIsDir, Bool.false_and, Bool.false_eq_true, if_false, wfEmit, pk_readFile_of_lstat_file hl]
    exact ⟨_, rfl, rfl⟩
  | link t =>
    simp only [wfIsDir, Bool.false_and, Bool.false_eq_true, if_false, wfEmit, ctx.links rel t hraw hk.1, if_true]
    exact ⟨_, rfl, rfl⟩


/-- the callback on a reachable node below the source, in all cases -/
theorem wf_visit_at {fs : FS} {cwd : Str} {o : PackOpts} {root : Str} {rs : List Rule}
    (ctx : WfCtx fs cwd o root rs) (fuel : Nat) (rel : RelPath) (nd : Node) (st : PState)
    (hraw : rtRaw fs (pathSegs root) rel = some nd) :
    (wfPruned rs rel ∧ wfIsDir nd = true ∧
      visit fs cwd o (some rs) root root root (fuel + 1) (ofSegs (pathSegs root ++ rel)) nd st = (st, .skipDir)) ∨
    (¬ (wfPruned rs rel ∧ wfIsDir nd = true) ∧ ∃ st1 H,
      visit fs cwd o (some rs) root root root (fuel + 1) (ofSegs (pathSegs root ++ rel)) nd st = (st1, .cont) ∧
      st1.entries = st.entries ++ H.map rtEntryP ∧
      ((wfKept rs rel nd ∧ H = rtEmit rel nd) ∨ (¬ wfKept rs rel nd ∧ H = []))) := by
  have hne : rel ≠ [] := (rt_raw_some.mp hraw).1
  have hN := rt_raw_names ctx.names hraw
  have hrel : ∀ c ∈ rel, NameNS c := fun c hc => hN c (List.mem_append_right _ hc)
  have h1 := rt_pathRel_below root rel ctx.rootClean hne hrel
  have h2 := rt_joinWith_ne_dot rel hrel
  cases hex : (excludes rs (joinWith '/' rel)).1 with
  | true =>
    refine Or.inr ⟨fun hp => (by rw [hp.1.1] at hex; cases hex), st, [], ?_, by simp, Or.inr ⟨fun hk => (by rw [hk.1] at hex; cases hex), rfl⟩⟩
    exact wf_visit_excluded_same fs cwd o (some rs) root fuel _ nd st _ h1 hex
  | false =>
    have hkeptOf : (wfIsDir nd = true → (excludes rs (joinWith '/' rel ++ ['/'])).1 = false) → wfKept rs rel nd :=
      fun h => ⟨hex, h⟩
    have hfin : wfKept rs rel nd → ¬ (wfPruned rs rel ∧ wfIsDir nd = true) ∧ ∃ st1 H,
        visit fs cwd o (some rs) root root root (fuel + 1) (ofSegs (pathSegs root ++ rel)) nd st = (st1, .cont) ∧
        st1.entries = st.entries ++ H.map rtEntryP ∧
        ((wfKept rs rel nd ∧ H = rtEmit rel nd) ∨ (¬ wfKept rs rel nd ∧ H = [])) := by
      intro hk
      obtain ⟨st', hv, he⟩ := wf_visit_kept ctx fuel rel nd st hraw hk
      refine ⟨?_, st', rtEmit rel nd, hv, he, Or.inl ⟨hk, rfl⟩⟩
      rintro ⟨hp, hd⟩
      have := hk.2 hd
      rw [hp.2] at this; cases this
    by_cases hd : wfIsDir nd = true
    · cases hexd : (excludes rs (joinWith '/' rel ++ ['/'])).1 with
      | false => exact Or.inr (hfin (hkeptOf (fun _ => hexd)))
      | true =>
        cases nd with
        | file perm mt c => cases hd
        | link t => cases hd
        | special => cases hd
        | dir perm mt =>
          have hv := wf_visit_dir_excluded fs cwd o (some rs) root root root fuel _ perm mt st _ _ h1
            (by rw [rt_replaceFirst_same]; exact h1) hexd
          simp only [h2, ruleExcludes, hex, false_or, Bool.false_eq_true, if_false] at hv
          cases hdom : (excludes rs (joinWith '/' rel ++ ['/'])).2 with
          | true =>
            simp only [hdom, if_true] at hv
            exact Or.inl ⟨⟨hex, Prod.ext hexd hdom⟩, rfl, hv⟩
          | false =>
            simp only [hdom, Bool.false_eq_true, if_false] at hv
            refine Or.inr ⟨?_, st, [], hv, by simp, Or.inr ⟨?_, rfl⟩⟩
            · rintro ⟨hp, _⟩
              rw [hp.2] at hdom; cases hdom
            · intro hk
              have := hk.2 rfl
              rw [hexd] at this; cases this
    · exact Or.inr (hfin (hkeptOf (fun h => absurd h hd)))

/-! ### listings of what ships -/

/-- `M` lists the nodes of the region `S` that ship: reachable, not special, own path not excluded,
no ancestor of length at least `k` skipped -/
structure WfSub (fs : FS) (P : PPath) (rs : List Rule) (k : Nat) (S : RelPath → Prop)
    (M : List (RelPath × Node)) : Prop where
  sound : ∀ x ∈ M, S x.1 ∧ rtRaw fs P x.1 = some x.2 ∧ x.2 ≠ .special ∧ wfKept rs x.1 x.2 ∧ wfOpenFrom k rs x.1
  complete : ∀ r nd, S r → rtRaw fs P r = some nd → nd ≠ .special → wfKept rs r nd → wfOpenFrom k rs r →
    (r, nd) ∈ M
  sorted : (M.map (·.1)).Pairwise (· < ·)

/-- nothing is reachable below a node that is not a directory -/
theorem wf_leaf_only {fs : FS} {P : PPath} {rel r : RelPath} {nd nd' : Node}
    (hraw : rtRaw fs P rel = some nd) (hnd : wfIsDir nd = false) (hpre : rel <+: r)
    (hr : rtRaw fs P r = some nd') : r = rel := by
  have hne : rel ≠ [] := (rt_raw_some.mp hraw).1
  by_cases e : r = rel
  · exact e
  · have hl : rel.length < r.length := by
      rcases Nat.lt_or_ge rel.length r.length with h | h
      · exact h
      · exact absurd (hpre.eq_of_length (Nat.le_antisymm hpre.length_le h)).symm e
    obtain ⟨perm, mt, hd⟩ := rt_raw_prefix hr (rt_properPrefixes_of hne hpre hl)
    rw [hraw] at hd; cases hd; cases hnd

theorem wfSub_leaf {fs : FS} {P : PPath} {rs : List Rule} {rel : RelPath} {nd : Node} {H : List (RelPath × Node)}
    (hraw : rtRaw fs P rel = some nd) (hnd : wfIsDir nd = false)
    (hH : (wfKept rs rel nd ∧ H = rtEmit rel nd) ∨ (¬ wfKept rs rel nd ∧ H = [])) :
    WfSub fs P rs rel.length (fun r => rel <+: r) H := by
  refine ⟨?_, ?_, ?_⟩
  rotate_right
  · rcases hH with ⟨_, rfl⟩ | ⟨_, rfl⟩
    · rcases rt_emit_cases rel nd with e | e <;> rw [e] <;> simp
    · simp
  · intro x hx
    rcases hH with ⟨hk, rfl⟩ | ⟨_, rfl⟩
    · obtain ⟨e, hs⟩ := rt_emit_mem hx
      subst e
      exact ⟨List.prefix_refl _, hraw, hs, hk, wfOpenFrom_self rs rel⟩
    · cases hx
  · intro r nd' hS hr hs hk _
    have e := wf_leaf_only hraw hnd hS hr
    subst e
    rw [hraw] at hr; cases hr
    rcases hH with ⟨_, rfl⟩ | ⟨hnk, _⟩
    · exact rt_mem_emit hs
    · exact absurd hk hnk

theorem wfSub_pruned {fs : FS} {P : PPath} {rs : List Rule} {rel : RelPath} {perm : Nat} {mt : Int}
    (hraw : rtRaw fs P rel = some (.dir perm mt)) (hp : wfPruned rs rel) :
    WfSub fs P rs rel.length (fun r => rel <+: r) [] := by
  refine ⟨fun x hx => (nomatch hx), ?_, List.Pairwise.nil⟩
  intro r nd hS hr _ hk ho
  exfalso
  by_cases e : r = rel
  · subst e
    rw [hraw] at hr; cases hr
    have := hk.2 rfl
    rw [hp.2] at this; cases this
  · exact ho rel hS (fun e' => e e'.symm) (Nat.le_refl _) hp

theorem wfSub_dir {fs : FS} {P : PPath} {rs : List Rule} {rel : RelPath} {perm : Nat} {mt : Int} {names : List Str}
    {H Mc : List (RelPath × Node)} (hraw : rtRaw fs P rel = some (.dir perm mt)) (hnp : ¬ wfPruned rs rel)
    (hnames : ∀ n, (∃ nd, fs.get (P ++ (rel ++ [n])) = some nd) → n ∈ names)
    (hH : (wfKept rs rel (.dir perm mt) ∧ H = rtEmit rel (.dir perm mt)) ∨ (¬ wfKept rs rel (.dir perm mt) ∧ H = []))
    (hc : WfSub fs P rs (rel.length + 1) (fun r => ∃ n ∈ names, rel ++ [n] <+: r) Mc) :
    WfSub fs P rs rel.length (fun r => rel <+: r) (H ++ Mc) := by
  refine ⟨?_, ?_, ?_⟩
  rotate_right
  · rw [List.map_append, List.pairwise_append]
    refine ⟨?_, hc.sorted, ?_⟩
    · rcases hH with ⟨_, rfl⟩ | ⟨_, rfl⟩ <;> simp [rtEmit]
    · intro a ha b hb
      have ea : a = rel := by
        rcases hH with ⟨_, rfl⟩ | ⟨_, rfl⟩
        · simpa [rtEmit] using ha
        · simp at ha
      obtain ⟨x, hx, ex⟩ := List.mem_map.mp hb
      obtain ⟨⟨n, _, hp⟩, _⟩ := hc.sound x hx
      obtain ⟨a', ea'⟩ := rt_of_prefix_snoc hp
      rw [ea, ← ex, ea']
      exact rt_lt_below rel n a'
  · intro x hx
    rcases List.mem_append.mp hx with hx | hx
    · rcases hH with ⟨hk, rfl⟩ | ⟨_, rfl⟩
      · obtain ⟨e, hs⟩ := rt_emit_mem hx
        subst e
        exact ⟨List.prefix_refl _, hraw, hs, hk, wfOpenFrom_self rs rel⟩
      · cases hx
    · obtain ⟨⟨n, _, hp⟩, h2, h3, h4, h5⟩ := hc.sound x hx
      have hpre : rel <+: x.1 := (List.prefix_append _ _).trans hp
      have hne : x.1 ≠ rel := by
        intro e
        have := hp.length_le
        rw [e] at this; simp at this; omega
      exact ⟨hpre, h2, h3, h4, (wfOpenFrom_step hpre hne).mpr ⟨hnp, h5⟩⟩
  · intro r nd hS hr hs hk ho
    by_cases e : r = rel
    · subst e
      rw [hraw] at hr; cases hr
      rcases hH with ⟨_, rfl⟩ | ⟨hnk, _⟩
      · exact List.mem_append_left _ (rt_mem_emit hs)
      · exact absurd hk hnk
    · obtain ⟨n, r', e'⟩ := rt_prefix_proper hS e
      have hp : rel ++ [n] <+: r := ⟨r', by rw [e']; simp⟩
      have hn : n ∈ names := by
        apply hnames
        by_cases hr' : r' = []
        · subst hr'
          exact ⟨nd, by rw [e'] at hr; exact (rt_raw_some.mp hr).2.2⟩
        · have : rel ++ [n] ∈ properPrefixes r := by
            apply rt_properPrefixes_of (by simp) hp
            rw [e']
            cases r' with
            | nil => exact absurd rfl hr'
            | cons a l => simp
          obtain ⟨pm, t, h⟩ := (rt_raw_some.mp hr).2.1 _ this
          exact ⟨_, h⟩
      exact List.mem_append_right _ (hc.complete r nd ⟨n, hn, hp⟩ hr hs hk ((wfOpenFrom_step hS e).mp ho).2)

theorem wfSub_nil {fs : FS} {P : PPath} {rs : List Rule} {k : Nat} {rel : RelPath} :
    WfSub fs P rs k (fun r => ∃ n ∈ ([] : List Str), rel ++ [n] <+: r) [] := by
  refine ⟨fun x hx => (nomatch hx), ?_, List.Pairwise.nil⟩
  rintro r nd ⟨n, hn, _⟩; cases hn

theorem wfSub_cons {fs : FS} {P : PPath} {rs : List Rule} {k : Nat} {rel : RelPath} {n : Str} {rest : List Str}
    {M1 M2 : List (RelPath × Node)} (hlt : ∀ m ∈ rest, n < m)
    (h1 : WfSub fs P rs k (fun r => rel ++ [n] <+: r) M1)
    (h2 : WfSub fs P rs k (fun r => ∃ m ∈ rest, rel ++ [m] <+: r) M2) :
    WfSub fs P rs k (fun r => ∃ m ∈ n :: rest, rel ++ [m] <+: r) (M1 ++ M2) := by
  refine ⟨?_, ?_, ?_⟩
  rotate_right
  · rw [List.map_append, List.pairwise_append]
    refine ⟨h1.sorted, h2.sorted, ?_⟩
    intro a ha b hb
    obtain ⟨x, hx, ex⟩ := List.mem_map.mp ha
    obtain ⟨y, hy, ey⟩ := List.mem_map.mp hb
    obtain ⟨a', ea⟩ := rt_of_prefix_snoc (h1.sound x hx).1
    obtain ⟨m, hm, p2⟩ := (h2.sound y hy).1
    obtain ⟨b', eb⟩ := rt_of_prefix_snoc p2
    rw [← ex, ← ey, ea, eb]
    exact rt_lt_siblings rel a' b' (hlt m hm)
  · intro x hx
    rcases List.mem_append.mp hx with h | h
    · obtain ⟨a, b⟩ := h1.sound x h
      exact ⟨⟨n, by simp, a⟩, b⟩
    · obtain ⟨⟨m, hm, a⟩, b⟩ := h2.sound x h
      exact ⟨⟨m, List.mem_cons_of_mem _ hm, a⟩, b⟩
  · rintro r nd ⟨m, hm, hp⟩ hr hs hk ho
    rcases List.mem_cons.mp hm with e | hm
    · subst e; exact List.mem_append_left _ (h1.complete r nd hp hr hs hk ho)
    · exact List.mem_append_right _ (h2.complete r nd ⟨m, hm, hp⟩ hr hs hk ho)


/-! ### the walk -/

/-- outcome of a walk function: out of fuel (only below `bound`), or finished — with `cont`, or, for
a directory (`dirOK`), with `skipDir` — having appended the entries of a listing of what ships -/
def WfOut (fs : FS) (P : PPath) (rs : List Rule) (k : Nat) (S : RelPath → Prop) (st : PState) (fuel bound : Nat)
    (dirOK : Bool) (res : PState × WalkRes) : Prop :=
  (res.2 = .stop .diverged ∧ fuel < bound) ∨
    ((res.2 = .cont ∨ (res.2 = .skipDir ∧ dirOK = true)) ∧
      ∃ M, WfSub fs P rs k S M ∧ res.1.entries = st.entries ++ M.map rtEntryP)

theorem wf_walkChildren_skip_of_child (fs : FS) (cwd : Str) (o : PackOpts) (rules : Option (List Rule))
    (root src dst : Str) (fuel : Nat) (path name : Str) (rest : List Str) (perm : Nat) (mt : Int)
    (st st1 : PState) (hl : fs.lstat (pathJoin path name) = .ok (.dir perm mt))
    (h : walkNode fs cwd o rules root src dst fuel (pathJoin path name) (.dir perm mt) st = (st1, .skipDir)) :
    walkChildren fs cwd o rules root src dst (fuel + 1) path (name :: rest) st =
      walkChildren fs cwd o rules root src dst fuel path rest st1 := by
  rw [walkChildren]; simp [hl, h]

theorem wf_walkNode_dir_skip (fs : FS) (cwd : Str) (o : PackOpts) (rules : Option (List Rule))
    (root src dst : Str) (fuel : Nat) (path : Str) (perm : Nat) (mt : Int) (st st1 : PState)
    (h : visit fs cwd o rules root src dst fuel path (.dir perm mt) st = (st1, .skipDir)) :
    walkNode fs cwd o rules root src dst (fuel + 1) path (.dir perm mt) st = (st1, .skipDir) := by
  rw [walkNode]; simp [h]

theorem wf_walk {fs : FS} {cwd : Str} {o : PackOpts} {root : Str} {rs : List Rule}
    (ctx : WfCtx fs cwd o root rs) :
    ∀ fuel : Nat,
      (∀ rel nd st, rtRaw fs (pathSegs root) rel = some nd →
        WfOut fs (pathSegs root) rs rel.length (fun r => rel <+: r) st fuel
          (2 * rtCnt fs (pathSegs root ++ rel)) (wfIsDir nd)
          (walkNode fs cwd o (some rs) root root root fuel (ofSegs (pathSegs root ++ rel)) nd st)) ∧
      (∀ rel names st, RtDirAt fs (pathSegs root) rel → names.Nodup → names.Pairwise (· < ·) →
        (∀ n ∈ names, ∃ nd, fs.get (pathSegs root ++ (rel ++ [n])) = some nd) →
        WfOut fs (pathSegs root) rs (rel.length + 1) (fun r => ∃ n ∈ names, rel ++ [n] <+: r) st fuel
          (rtChildrenFuel fs (pathSegs root) rel names) false
          (walkChildren fs cwd o (some rs) root root root fuel (ofSegs (pathSegs root ++ rel)) names st)) := by
  intro fuel
  induction fuel with
  | zero =>
    refine ⟨?_, ?_⟩
    · intro rel nd st hraw
      rw [walkNode]
      have := rt_cnt_pos (rt_raw_some.mp hraw).2.2
      exact Or.inl ⟨rfl, by omega⟩
    · intro rel names st _ _ _ _; rw [walkChildren]; exact Or.inl ⟨rfl, by unfold rtChildrenFuel; omega⟩
  | succ fuel ih =>
    obtain ⟨ihN, ihC⟩ := ih
    refine ⟨?_, ?_⟩
    · intro rel nd st hraw
      have hpos := rt_cnt_pos (rt_raw_some.mp hraw).2.2
      have hleaf : wfIsDir nd = false →
          WfOut fs (pathSegs root) rs rel.length (fun r => rel <+: r) st (fuel + 1)
            (2 * rtCnt fs (pathSegs root ++ rel)) (wfIsDir nd)
            (visit fs cwd o (some rs) root root root fuel (ofSegs (pathSegs root ++ rel)) nd st) := by
        intro hnd
        cases fuel with
        | zero => rw [visit]; exact Or.inl ⟨rfl, by omega⟩
        | succ f =>
          rcases wf_visit_at ctx f rel nd st hraw with ⟨_, hd, _⟩ | ⟨_, st1, H, hv, he, hH⟩
          · rw [hnd] at hd; cases hd
          · rw [hv]
            exact Or.inr ⟨Or.inl rfl, H, wfSub_leaf hraw hnd hH, he⟩
      cases nd with
      | file perm mt c =>
        rw [walkNode]
        · exact hleaf rfl
        · intro _ _ h; cases h
      | link t =>
        rw [walkNode]
        · exact hleaf rfl
        · intro _ _ h; cases h
      | special =>
        rw [walkNode]
        · exact hleaf rfl
        · intro _ _ h; cases h
      | dir perm mt =>
        cases fuel with
        | zero =>
          rw [walkNode, visit]
          exact Or.inl ⟨rfl, by omega⟩
        | succ f =>
          rcases wf_visit_at ctx f rel _ st hraw with ⟨hp, _, hv⟩ | ⟨hnp, st1, H, hv, he, hH⟩
          · rw [wf_walkNode_dir_skip fs cwd o (some rs) root root root (f + 1) _ perm mt st st hv]
            exact Or.inr ⟨Or.inr ⟨rfl, rfl⟩, [], wfSub_pruned hraw hp, by simp⟩
          · have hnp' : ¬ wfPruned rs rel := fun hp => hnp ⟨hp, rfl⟩
            have hlen : (pathSegs root ++ rel).length < resolveFuel :=
              ctx.depth _ (rt_get_mem (rt_raw_some.mp hraw).2.2) (List.prefix_append _ _)
            have hp := (rt_resolve_below fs _ rel _ true ctx.phys ctx.names hraw hlen
              (by intro _ t h; cases h)).1
            rw [pk_walkNode_dir_cont fs cwd o (some rs) root root root (f + 1) _ perm mt st st1 _ hv hp]
            obtain ⟨hnd, hmem⟩ := rt_readdir_spec fs (pathSegs root ++ rel)
            have hmem' : ∀ n, n ∈ fs.readdir (pathSegs root ++ rel) ↔
                ∃ nd, fs.get (pathSegs root ++ (rel ++ [n])) = some nd := by
              intro n; rw [hmem, List.append_assoc]
            rcases ihC rel (fs.readdir (pathSegs root ++ rel)) st1 (Or.inr ⟨perm, mt, hraw⟩) hnd
              (rt_readdir_sorted fs _) (fun n hn => (hmem' n).mp hn) with ⟨h, hb⟩ | ⟨hc, Mc, hsub, hent⟩
            · refine Or.inl ⟨h, ?_⟩
              have := rt_cnt_children fs (pathSegs root ++ rel) _ hnd (rt_raw_some.mp hraw).2.2
              unfold rtChildrenFuel at hb
              omega
            · have hc' : (walkChildren fs cwd o (some rs) root root root (f + 1) (ofSegs (pathSegs root ++ rel))
                  (fs.readdir (pathSegs root ++ rel)) st1).2 = .cont := by
                rcases hc with h | ⟨_, h⟩
                · exact h
                · cases h
              refine Or.inr ⟨Or.inl hc', H ++ Mc, wfSub_dir hraw hnp' (fun n hn => (hmem' n).mpr hn) hH hsub, ?_⟩
              rw [hent, he]
              simp
    · intro rel names st hdir hnd hsorted hmem
      cases names with
      | nil =>
        rw [walkChildren]
        exact Or.inr ⟨Or.inl rfl, [], wfSub_nil, by simp⟩
      | cons n rest =>
        obtain ⟨child, hchild⟩ := hmem n (by simp)
        have hrawc : rtRaw fs (pathSegs root) (rel ++ [n]) = some child := by
          rw [rt_raw_child n hdir]; exact hchild
        have hN := rt_raw_names ctx.names hrawc
        have hN1 : ∀ c ∈ pathSegs root ++ rel, NameNS c := by
          intro c hc
          apply hN c
          rw [← List.append_assoc]; exact List.mem_append_left _ hc
        have hn : NameNS n := hN n (by simp)
        have hjoin : pathJoin (ofSegs (pathSegs root ++ rel)) n = ofSegs (pathSegs root ++ (rel ++ [n])) := by
          rw [rt_pathJoin_ofSegs _ n hN1 hn, List.append_assoc]
        have hlen : (pathSegs root ++ (rel ++ [n])).length < resolveFuel :=
          ctx.depth _ (rt_get_mem hchild) (List.prefix_append _ _)
        have hl : fs.lstat (pathJoin (ofSegs (pathSegs root ++ rel)) n) = .ok child := by
          rw [hjoin]; exact rt_lstat_below fs _ _ child ctx.phys ctx.names hrawc hlen
        have hnd' := List.nodup_cons.mp hnd
        have hposc := rt_cnt_pos hchild
        have hfuel : rtChildrenFuel fs (pathSegs root) rel (n :: rest) =
            2 * rtCnt fs (pathSegs root ++ (rel ++ [n])) + rtChildrenFuel fs (pathSegs root) rel rest := by
          unfold rtChildrenFuel
          rw [List.map_cons, List.sum_cons, List.append_assoc]
          omega
        have h1 := ihN (rel ++ [n]) child st hrawc
        have hlen1 : (rel ++ [n]).length = rel.length + 1 := by simp
        rw [hlen1, ← hjoin] at h1
        -- the loop goes on with the remaining names
        have hgo : ∀ st1 M1, WfSub fs (pathSegs root) rs (rel.length + 1) (fun r => rel ++ [n] <+: r) M1 →
            st1.entries = st.entries ++ M1.map rtEntryP →
            WfOut fs (pathSegs root) rs (rel.length + 1) (fun r => ∃ m ∈ n :: rest, rel ++ [m] <+: r) st (fuel + 1)
              (rtChildrenFuel fs (pathSegs root) rel (n :: rest)) false
              (walkChildren fs cwd o (some rs) root root root fuel (ofSegs (pathSegs root ++ rel)) rest st1) := by
          intro st1 M1 hsub1 hent1
          rcases ihC rel rest st1 hdir hnd'.2 (List.pairwise_cons.mp hsorted).2
              (fun m hm => hmem m (List.mem_cons_of_mem _ hm)) with
            ⟨h, hb⟩ | ⟨hc2, M2, hsub2, hent2⟩
          · refine Or.inl ⟨h, ?_⟩
            rw [hfuel]
            omega
          · refine Or.inr ⟨hc2, M1 ++ M2, wfSub_cons (List.pairwise_cons.mp hsorted).1 hsub1 hsub2, ?_⟩
            rw [hent2, hent1]; simp
        generalize hw : walkNode fs cwd o (some rs) root root root fuel
          (pathJoin (ofSegs (pathSegs root ++ rel)) n) child st = w at h1
        obtain ⟨st1, r1⟩ := w
        rcases h1 with ⟨h, hb⟩ | ⟨hc, M1, hsub1, hent1⟩
        · left
          simp only at h
          subst h
          rw [pk_walkChildren_stop_of_child fs cwd o (some rs) root root root fuel _ n rest child st _ .diverged hl hw]
          refine ⟨rfl, ?_⟩
          rw [hfuel]
          unfold rtChildrenFuel
          omega
        · simp only at hc hent1
          rcases hc with h | ⟨h, hd⟩
          · subst h
            rw [pk_walkChildren_cont_of_child fs cwd o (some rs) root root root fuel _ n rest child st _ hl hw]
            exact hgo st1 M1 hsub1 hent1
          · subst h
            cases child with
            | file perm mt c => cases hd
            | link t => cases hd
            | special => cases hd
            | dir perm mt =>
              rw [wf_walkChildren_skip_of_child fs cwd o (some rs) root root root fuel _ n rest perm mt st _ hl hw]
              exact hgo st1 M1 hsub1 hent1


/-! ### `Pack` -/

theorem wf_root_facts {fs : FS} {cwd : Str} {o : PackOpts} {root : Str} {rs : List Rule}
    (ctx : WfCtx fs cwd o root rs) :
    root = ofSegs (pathSegs root) ∧ (∀ c ∈ pathSegs root, NameNS c) ∧ (pathSegs root).length < resolveFuel ∧
    ∃ perm mt, fs.lstat root = .ok (.dir perm mt) := by
  have e := absClean_eq_ofSegs root ctx.rootClean
  have hP := absClean_segs root ctx.rootClean
  by_cases hp : pathSegs root = []
  · refine ⟨e, hP, by rw [hp]; decide, 0o755, 0, ?_⟩
    unfold FS.lstat FS.resolvePath
    rw [hp]
    rfl
  · obtain ⟨perm, mt, hg⟩ := ctx.phys _ hp (List.prefix_refl _)
    have hlen : (pathSegs root).length < resolveFuel := ctx.depth _ (rt_get_mem hg) (List.prefix_refl _)
    refine ⟨e, hP, hlen, perm, mt, ?_⟩
    have := rt_resolve_phys fs resolveFuel [] (pathSegs root) false hlen (fun s hs => (hP s hs).1.2.2)
      (by
        intro q hq
        obtain ⟨g1, g2, g3⟩ := rt_properPrefixes_spec hq
        rw [List.nil_append]; exact ctx.phys q g1 g2)
      (by intro h; cases h)
    rw [List.nil_append] at this
    unfold FS.lstat FS.resolvePath
    rw [this]
    simp only [FS.lookup, if_neg hp, hg]

/-- on the source root itself the callback does nothing, whatever the rules -/
theorem wf_visit_root (fs : FS) (cwd : Str) (o : PackOpts) (rules : Option (List Rule)) (root : Str)
    (fuel : Nat) (nd : Node) (st : PState) :
    visit fs cwd o rules root root root (fuel + 1) root nd st = (st, .cont) := by
  cases nd <;> rw [visit] <;> first | (intro _ _ h; cases h) | simp [rt_pathRel_self]

/-- the rule set `Pack` loads satisfies the marking invariant -/
theorem wf_loadIgnore_marked (fs : FS) (cwd s : Str) : MarkedOK (loadIgnore fs cwd s) := by
  unfold loadIgnore
  split
  · exact markedOK_readRules _
  · have h : readRules [] = defaultRules := by decide
    rw [← h]; exact markedOK_readRules _

theorem wf_pack_out {fs : FS} {cwd : Str} {o : PackOpts} {src : Str}
    (ctx : WfCtx fs cwd o src (loadIgnore fs cwd src)) (hon : o.applyIgnore = true) :
    ∃ res, pack fs cwd o src = pkFinish res ∧
      WfOut fs (pathSegs src) (loadIgnore fs cwd src) 1
        (fun r => ∃ n ∈ fs.readdir (pathSegs src), [] ++ [n] <+: r) pkEmpty (3998 + 1)
        (rtChildrenFuel fs (pathSegs src) [] (fs.readdir (pathSegs src))) false res := by
  obtain ⟨eroot, hP, hlenP, perm, mt, hl⟩ := wf_root_facts ctx
  have hinfo : pkRootInfo fs cwd src = .ok (.dir perm mt) := by
    rw [pk_rootInfo_absClean fs cwd src ctx.rootClean, hl]
  have hsrc1 : pkSrc1 fs cwd src = src := by unfold pkSrc1; rw [hinfo]
  have hroot : pkRoot fs cwd src = src := by
    unfold pkRoot; rw [hsrc1]; exact pathAbs_absClean cwd src ctx.rootClean
  have hrules : pkRules fs cwd o src = some (loadIgnore fs cwd src) := by
    unfold pkRules; rw [hon, hsrc1]; rfl
  have hpack : pack fs cwd o src =
      pkFinish (walkNode fs cwd o (some (loadIgnore fs cwd src)) src src src packFuel src (.dir perm mt) pkEmpty) := by
    rw [pk_pack_eq, hinfo, hroot, hrules, hl]
  have hres : fs.resolvePath src true = .ok (pathSegs src) := by
    have := rt_resolve_root fs (pathSegs src) ctx.phys hP hlenP
    rw [← eroot] at this; exact this
  have hwalk : walkNode fs cwd o (some (loadIgnore fs cwd src)) src src src packFuel src (.dir perm mt) pkEmpty =
      walkChildren fs cwd o (some (loadIgnore fs cwd src)) src src src (3998 + 1) (ofSegs (pathSegs src ++ []))
        (fs.readdir (pathSegs src)) pkEmpty := by
    rw [List.append_nil, ← eroot]
    exact pk_walkNode_dir_cont fs cwd o _ src src src (3998 + 1) src perm mt pkEmpty pkEmpty _
      (wf_visit_root fs cwd o _ src 3998 _ _) hres
  obtain ⟨hnd, hmem⟩ := rt_readdir_spec fs (pathSegs src)
  have hout := (wf_walk ctx (3998 + 1)).2 [] (fs.readdir (pathSegs src)) pkEmpty (Or.inl rfl) hnd
    (rt_readdir_sorted fs _) (fun n hn => (hmem n).mp hn)
  rw [← hwalk] at hout
  exact ⟨_, hpack, hout⟩

/-- **the entries of `Pack` with ignore processing** on a physical source directory, without
dereferencing: unless the model's fuel runs out the result is `ok` and the entry list is `rtEntry`
mapped over a list of exactly the reachable non-special nodes whose own path is not excluded and none
of whose ancestor directories is skipped -/
theorem wf_pack_listing {fs : FS} {cwd : Str} {o : PackOpts} {src : Str}
    (ctx : WfCtx fs cwd o src (loadIgnore fs cwd src)) (hon : o.applyIgnore = true)
    (hfuel : (pack fs cwd o src).2 ≠ .diverged) :
    (pack fs cwd o src).2 = .ok ∧
    ∃ M, (pack fs cwd o src).1.entries = M.map rtEntryP ∧
      WfSub fs (pathSegs src) (loadIgnore fs cwd src) 1 (fun r => r ≠ []) M := by
  obtain ⟨res, hpack, hout⟩ := wf_pack_out ctx hon
  obtain ⟨_, hmem⟩ := rt_readdir_spec fs (pathSegs src)
  rw [hpack] at hfuel ⊢
  rcases hout with ⟨h, _⟩ | ⟨hc, M, hsub, hent⟩
  · exact absurd (by unfold pkFinish; rw [h]) hfuel
  · have hc' : res.2 = .cont := by
      rcases hc with h | ⟨_, h⟩
      · exact h
      · cases h
    refine ⟨by unfold pkFinish; rw [hc'], M, by rw [pkFinish_fst, hent]; rfl, ?_, ?_, hsub.sorted⟩
    · intro x hx
      obtain ⟨_, h2, h3⟩ := hsub.sound x hx
      exact ⟨(rt_raw_some.mp h2).1, h2, h3⟩
    · intro r nd hr hraw hs hk ho
      cases r with
      | nil => exact absurd rfl hr
      | cons n r' =>
        obtain ⟨nd', hg⟩ := rt_raw_first hraw
        exact hsub.complete _ nd ⟨n, (hmem n).mpr ⟨nd', hg⟩, by simp⟩ hraw hs hk ho

/-- explicit sufficient fuel, as in `rt_pack_fuel` -/
theorem wf_pack_fuel {fs : FS} {cwd : Str} {o : PackOpts} {src : Str}
    (ctx : WfCtx fs cwd o src (loadIgnore fs cwd src)) (hon : o.applyIgnore = true)
    (hsize : 2 * fs.length + 2 ≤ packFuel) :
    (pack fs cwd o src).2 ≠ .diverged := by
  obtain ⟨res, hpack, hout⟩ := wf_pack_out ctx hon
  obtain ⟨hnd, _⟩ := rt_readdir_spec fs (pathSegs src)
  rw [hpack]
  rcases hout with ⟨_, hb⟩ | ⟨hc, _⟩
  · have := rt_cnt_children_root fs (pathSegs src ++ []) (fs.readdir (pathSegs src)) hnd
    unfold rtChildrenFuel at hb
    have hp : packFuel = 4000 := rfl
    omega
  · unfold pkFinish
    rcases hc with h | ⟨_, h⟩
    · rw [h]; intro h'; cases h'
    · cases h

/-- `wf_pack_listing` read off the entry list -/
theorem wf_pack_ships {fs : FS} {cwd : Str} {o : PackOpts} {src : Str}
    (ctx : WfCtx fs cwd o src (loadIgnore fs cwd src)) (hon : o.applyIgnore = true)
    (hfuel : (pack fs cwd o src).2 ≠ .diverged) :
    (pack fs cwd o src).2 = .ok ∧
    (∀ r, r ∈ (pack fs cwd o src).1.entries.map (fun e => entryRel e.name) ↔
      ∃ nd, rtRaw fs (pathSegs src) r = some nd ∧ nd ≠ .special ∧
        wfKept (loadIgnore fs cwd src) r nd ∧ wfOpenFrom 1 (loadIgnore fs cwd src) r) ∧
    (∀ e ∈ (pack fs cwd o src).1.entries, ∃ nd, rtRaw fs (pathSegs src) (entryRel e.name) = some nd ∧
      nd ≠ .special ∧ e = rtEntry (entryRel e.name) nd) ∧
    (∀ r nd, rtRaw fs (pathSegs src) r = some nd → nd ≠ .special →
      wfKept (loadIgnore fs cwd src) r nd → wfOpenFrom 1 (loadIgnore fs cwd src) r →
      rtEntry r nd ∈ (pack fs cwd o src).1.entries) := by
  obtain ⟨hok, M, hent, hsub⟩ := wf_pack_listing ctx hon hfuel
  have hnames : ∀ x ∈ M, ∀ c ∈ x.1, NameNS c := fun x hx c hc =>
    rt_raw_names ctx.names (hsub.sound x hx).2.1 c (List.mem_append_right _ hc)
  have hkey : ∀ x ∈ M, entryRel (rtEntryP x).name = x.1 := fun x hx =>
    rt_entryRel_rtEntry x.1 x.2 (hnames x hx)
  refine ⟨hok, ?_, ?_, ?_⟩
  · intro r
    rw [hent, List.map_map]
    constructor
    · intro hm
      obtain ⟨x, hx, e⟩ := List.mem_map.mp hm
      obtain ⟨_, h2, h3, h4, h5⟩ := hsub.sound x hx
      have : x.1 = r := by rw [← hkey x hx]; exact e
      exact ⟨x.2, by rw [← this]; exact h2, h3, by rw [← this]; exact h4, by rw [← this]; exact h5⟩
    · rintro ⟨nd, h1, h2, h3, h4⟩
      have hx := hsub.complete r nd (rt_raw_some.mp h1).1 h1 h2 h3 h4
      exact List.mem_map.mpr ⟨(r, nd), hx, hkey _ hx⟩
  · intro e he
    rw [hent] at he
    obtain ⟨x, hx, rfl⟩ := List.mem_map.mp he
    obtain ⟨_, h2, h3, _⟩ := hsub.sound x hx
    have hk := hkey x hx
    exact ⟨x.2, by rw [hk]; exact h2, h3, by rw [hk]; rfl⟩
  · intro r nd h1 h2 h3 h4
    rw [hent]
    exact List.mem_map.mpr ⟨(r, nd), hsub.complete r nd (rt_raw_some.mp h1).1 h1 h2 h3 h4, rfl⟩

/-! ### pruning loses nothing when the rules are tail-closed -/

theorem wf_pruned_excludes {rs : List Rule} (hm : MarkedOK rs) (ht : TailClosed rs) {q r : RelPath}
    (hq : q ≠ []) (hpre : q <+: r) (hne : q ≠ r) (hp : wfPruned rs q) :
    (excludes rs (joinWith '/' r)).1 = true := by
  obtain ⟨t, rfl⟩ := hpre
  have ht' : t ≠ [] := by
    intro e; apply hne; rw [e, List.append_nil]
  rw [ps_joinWith_append '/' q t hq ht']
  exact prune_sound rs hm ht _ _ hp.2

theorem wf_open_of_kept {rs : List Rule} (hm : MarkedOK rs) (ht : TailClosed rs) {r : RelPath}
    (hk : (excludes rs (joinWith '/' r)).1 = false) : wfOpenFrom 1 rs r := by
  intro q hpre hne hl hp
  have hq : q ≠ [] := by
    intro e; rw [e] at hl; simp at hl
  rw [wf_pruned_excludes hm ht hq hpre hne hp] at hk
  cases hk

/-! ## the bundle builder's walk removes only what the rules exclude -/

/-- a reason for the removal walk to delete the binding at `q`: some path `W ++ y` at or above it
(strictly below the work directory `W`) is excluded, or is a directory — in the tree the walk started
from — excluded with a trailing slash -/
def wfRemovable (rules : List Rule) (fs0 : FS) (W q : PPath) : Prop :=
  ∃ y, y ≠ [] ∧ W ++ y <+: q ∧
    ((excludes rules (joinWith '/' y)).1 = true ∨
     ((∃ pm mt, fs0.get (W ++ y) = some (.dir pm mt)) ∧ (excludes rules (joinWith '/' y ++ ['/'])).1 = true))

/-- `fs'` is `fs` with some bindings removed, each for a reason -/
def WfRem (rules : List Rule) (fs0 : FS) (W : PPath) (fs fs' : FS) : Prop :=
  ∀ q, fs'.get q = fs.get q ∨ (fs'.get q = none ∧ wfRemovable rules fs0 W q)

theorem WfRem.refl (rules : List Rule) (fs0 : FS) (W : PPath) (fs : FS) : WfRem rules fs0 W fs fs :=
  fun _ => Or.inl rfl

theorem WfRem.trans {rules : List Rule} {fs0 : FS} {W : PPath} {a b c : FS}
    (h1 : WfRem rules fs0 W a b) (h2 : WfRem rules fs0 W b c) : WfRem rules fs0 W a c := by
  intro q
  rcases h2 q with e | e
  · rcases h1 q with e' | ⟨e', hr⟩
    · exact Or.inl (e.trans e')
    · exact Or.inr ⟨e.trans e', hr⟩
  · exact Or.inr e

theorem WfRem.sub {rules : List Rule} {fs0 : FS} {W : PPath} {a b : FS} (h : WfRem rules fs0 W a b) : SnSub b a := by
  intro q
  rcases h q with e | ⟨e, _⟩
  · exact Or.inl e
  · exact Or.inr e

/-- the callback: nothing changes, or the visited path is excluded and removed -/
theorem wfRem_prepVisit {rules : List Rule} {work : Str} {fs0 fs : FS} {path : Str} {node : Node}
    (hc : AbsClean work) (hs : SnSub fs fs0) (hA : SanAt (pathSegs work) fs path)
    (hl : fs.lstat path = .ok node) :
    WfRem rules fs0 (pathSegs work) fs (prepVisit rules work fs path node).1 := by
  obtain ⟨rel, hrel, _, _, hcase⟩ := pathRel_under work path hc hA.clean hA.under
  rw [sn_prepVisit_eq]
  simp only [hrel]
  by_cases hdot : rel = dot
  · rw [if_pos hdot]; exact .refl _ _ _ _
  · rw [if_neg hdot]
    rcases hcase with ⟨_, e⟩ | ⟨hsegs, _⟩
    · exact absurd e hdot
    · have hy : splitOn '/' rel ≠ [] := splitOn_ne_nil '/' rel
      have hjoin : joinWith '/' (splitOn '/' rel) = rel := joinWith_splitOn '/' rel
      have hne : pathSegs path ≠ [] := by
        rw [hsegs]; intro e
        exact hy (List.append_eq_nil_iff.mp e).2
      have hrm : ∀ q, (fs.removeAll path).get q = fs.get q ∨
          ((fs.removeAll path).get q = none ∧ pathSegs work ++ splitOn '/' rel <+: q) := by
        intro q
        rw [sn_removeAll_eq hA hne hl, sn_get_delTree, ← hsegs]
        split
        · rename_i hp; exact Or.inr ⟨rfl, hp⟩
        · exact Or.inl rfl
      have hnode : fs0.get (pathSegs work ++ splitOn '/' rel) = some node := by
        have := (hA.lstat hl).2
        rw [lookup_ne_nil _ _ hne, hsegs] at this
        exact hs.get_some this
      split
      · rename_i hex
        intro q
        rcases hrm q with e | ⟨e, hp⟩
        · exact Or.inl e
        · exact Or.inr ⟨e, _, hy, hp, Or.inl (by rw [hjoin]; exact hex)⟩
      · split
        · rename_i hexd
          simp only [Bool.and_eq_true] at hexd
          intro q
          rcases hrm q with e | ⟨e, hp⟩
          · exact Or.inl e
          · refine Or.inr ⟨e, _, hy, hp, Or.inr ⟨?_, by rw [hjoin]; exact hexd.2⟩⟩
            cases node with
            | dir pm mt => exact ⟨pm, mt, hnode⟩
            | file pm mt c => exact absurd hexd.1 (by simp [snIsDir])
            | link t => exact absurd hexd.1 (by simp [snIsDir])
            | special => exact absurd hexd.1 (by simp [snIsDir])
        · exact .refl _ _ _ _

theorem wfRem_walk (rules : List Rule) (work : Str) (fs0 : FS) (hc : AbsClean work) :
    ∀ fuel : Nat,
      (∀ fs path node, SnSub fs fs0 → SanNames (pathSegs work) fs → SanAt (pathSegs work) fs path →
        fs.lstat path = .ok node →
        WfRem rules fs0 (pathSegs work) fs (prepWalk rules work fuel fs path node).1) ∧
      (∀ fs path names, SnSub fs fs0 → SanNames (pathSegs work) fs → SanAt (pathSegs work) fs path →
        (∀ t, fs.lookup (pathSegs path) ≠ some (.link t)) → (∀ n ∈ names, NameNS n) →
        WfRem rules fs0 (pathSegs work) fs (prepChildren rules work fuel fs path names).1) := by
  intro fuel
  induction fuel with
  | zero =>
    refine ⟨?_, ?_⟩
    · intro fs path node _ _ _ _; rw [prepWalk]; exact .refl _ _ _ _
    · intro fs path names _ _ _ _ _; rw [prepChildren]; exact .refl _ _ _ _
  | succ fuel ih =>
    obtain ⟨ihW, ihC⟩ := ih
    refine ⟨?_, ?_⟩
    · intro fs path node hs hN hA hl
      have hv := wfRem_prepVisit (rules := rules) hc hs hA hl
      cases node with
      | dir pm mt =>
        obtain ⟨hnames, hns, hnl⟩ := sn_walk_names hN hA hl
        rw [prepWalk]
        simp only [hnames]
        split
        · exact hv.trans (ihC _ _ _ (hs.trans hv.sub) (hN.sub hv.sub) (hA.sub hv.sub) (sn_notLink_sub hv.sub hnl) hns)
        · exact hv
      | file pm mt c => rw [prepWalk]; exact hv; intro _ _ h; cases h
      | link t => rw [prepWalk]; exact hv; intro _ _ h; cases h
      | special => rw [prepWalk]; exact hv; intro _ _ h; cases h
    · intro fs path names hs hN hA hnl hns
      cases names with
      | nil => rw [prepChildren]; exact .refl _ _ _ _
      | cons name rest =>
        rw [prepChildren]
        simp only
        split
        · exact .refl _ _ _ _
        · rename_i child hcl
          obtain ⟨hA', _⟩ := sanAt_child hA hnl (hns name (by simp))
          have hn := ihW fs (pathJoin path name) child hs hN hA' hcl
          have hrest : ∀ n ∈ rest, NameNS n := fun n hn => hns n (List.mem_cons_of_mem _ hn)
          have hgo := ihC _ path rest (hs.trans hn.sub) (hN.sub hn.sub) (hA.sub hn.sub) (sn_notLink_sub hn.sub hnl) hrest
          split
          · exact hn.trans hgo
          · split
            · exact hn.trans hgo
            · exact hn
          · exact hn

/-! ## a decidable sufficient condition for `TailClosed` -/

/-- the string ends in a character other than `/` -/
def WfEndsNoSlash (s : Str) : Prop := ∃ s' x, s = s' ++ [x] ∧ x ≠ '/'

theorem WfEndsNoSlash.cons {s : Str} (h : WfEndsNoSlash s) (y : Char) : WfEndsNoSlash (y :: s) := by
  obtain ⟨s', x, e, hx⟩ := h
  exact ⟨y :: s', x, by rw [e]; rfl, hx⟩

theorem wf_starLoop_ends (k : Str → Bool) (hk : ∀ t, k t = true → WfEndsNoSlash t) :
    ∀ s, starLoop k s = true → WfEndsNoSlash s := by
  intro s
  induction s with
  | nil => intro h; exact hk _ (by simpa [starLoop] using h)
  | cons c s ih =>
    intro h
    rw [starLoop] at h
    simp only [Bool.or_eq_true, Bool.and_eq_true] at h
    rcases h with h | ⟨_, h⟩
    · exact hk _ h
    · exact (ih h).cons c

theorem wf_dotLoop_ends (k : Str → Bool) (hk : ∀ t, k t = true → WfEndsNoSlash t) :
    ∀ s, dotLoop k s = true → WfEndsNoSlash s := by
  intro s
  induction s with
  | nil => intro h; exact hk _ (by simpa [dotLoop] using h)
  | cons c s ih =>
    intro h
    rw [dotLoop] at h
    simp only [Bool.or_eq_true, Bool.and_eq_true] at h
    rcases h with h | ⟨_, h⟩
    · exact hk _ h
    · exact (ih h).cons c

theorem wf_dirsLoop_ends (k : Str → Bool) (hk : ∀ t, k t = true → WfEndsNoSlash t) :
    ∀ s, dirsLoop k s = true → WfEndsNoSlash s := by
  intro s
  induction s with
  | nil => intro h; simp [dirsLoop] at h
  | cons c s ih =>
    intro h
    rw [dirsLoop] at h
    simp only [Bool.or_eq_true, Bool.and_eq_true] at h
    rcases h with ⟨_, h⟩ | ⟨_, h⟩
    · exact (hk _ h).cons c
    · exact (ih h).cons c

/-- a last token that consumes exactly one character other than `/` -/
def wfLastOK : Tok → Bool
  | .lit c => c != '/'
  | .any1 => true
  | _ => false

theorem wf_matchT_ends (t : Tok) (ht : wfLastOK t = true) :
    ∀ (ts : List Tok) (s : Str), matchT (ts ++ [t]) s = true → WfEndsNoSlash s := by
  intro ts
  induction ts with
  | nil =>
    intro s h
    cases t with
    | lit c =>
      cases s with
      | nil => simp [matchT] at h
      | cons x s' =>
        simp only [List.nil_append, matchT, Bool.and_eq_true, beq_iff_eq, List.isEmpty_iff] at h
        refine ⟨[], x, by rw [h.2]; rfl, ?_⟩
        rw [h.1]; simpa [wfLastOK] using ht
    | any1 =>
      cases s with
      | nil => simp [matchT] at h
      | cons x s' =>
        simp only [List.nil_append, matchT, Bool.and_eq_true, bne_iff_ne, ne_eq, List.isEmpty_iff] at h
        exact ⟨[], x, by rw [h.2]; rfl, h.1⟩
    | star => cases ht
    | dirs => cases ht
    | rest => cases ht
  | cons u ts ih =>
    intro s h
    cases u with
    | lit c =>
      cases s with
      | nil => simp [matchT] at h
      | cons x s' =>
        simp only [List.cons_append, matchT, Bool.and_eq_true] at h
        exact (ih s' h.2).cons x
    | any1 =>
      cases s with
      | nil => simp [matchT] at h
      | cons x s' =>
        simp only [List.cons_append, matchT, Bool.and_eq_true] at h
        exact (ih s' h.2).cons x
    | star =>
      simp only [List.cons_append, matchT] at h
      exact wf_starLoop_ends _ ih s h
    | rest =>
      simp only [List.cons_append, matchT] at h
      exact wf_dotLoop_ends _ ih s h
    | dirs =>
      simp only [List.cons_append, matchT, Bool.or_eq_true] at h
      rcases h with h | h
      · exact ih s h
      · exact wf_dirsLoop_ends _ ih s h

/-- every non-negated rule that compiles ends in `.*`, or in a token that consumes one character
other than `/` (a literal, or `?`) -/
def wfTailClosedB (rules : List Rule) : Bool :=
  rules.all fun r => r.negated ||
    match compileRx r.val with
    | none => true
    | some toks =>
      match toks.getLast? with
      | some .rest => true
      | some t => wfLastOK t
      | none => false

theorem wf_tailClosed_of_check (rules : List Rule) (h : wfTailClosedB rules = true) : TailClosed rules := by
  intro r hr hneg toks hc
  have := List.all_eq_true.mp h r hr
  simp only [hneg, hc, Bool.false_or] at this
  cases hl : toks.getLast? with
  | none => rw [hl] at this; cases this
  | some t =>
    obtain ⟨ts, e⟩ := List.getLast?_eq_some_iff.mp hl
    rw [hl] at this
    by_cases ht : t = .rest
    · subst ht; exact Or.inl ⟨ts, e⟩
    · right
      intro d
      have hok : wfLastOK t = true := by
        cases t <;> first | exact absurd rfl ht | exact this
      cases hm : matchT toks (d ++ ['/']) with
      | false => rfl
      | true =>
        rw [e] at hm
        obtain ⟨s', x, e', hx⟩ := wf_matchT_ends t hok ts _ hm
        have := List.append_inj_right' e' rfl
        simp only [List.cons.injEq, and_true] at this
        exact absurd this.symm hx

/-! ### ignore processing only removes entries -/

theorem wfOpenB_iff (k : Nat) (rs : List Rule) (r : RelPath) : wfOpenB k rs r = true ↔ wfOpenFrom k rs r := by
  refine ⟨wfOpenFrom_of_check, ?_⟩
  intro h
  unfold wfOpenB
  rw [List.all_eq_true]
  intro i hi
  have hi' : i < r.length := List.mem_range.mp hi
  simp only [Bool.or_eq_true, decide_eq_true_eq, Bool.not_eq_true', decide_eq_false_iff_not]
  by_cases hk : i < k
  · exact Or.inl hk
  · right
    apply h (r.take i) (List.take_prefix _ _)
    · intro e
      have := congrArg List.length e
      rw [List.length_take] at this
      omega
    · rw [List.length_take]; omega

/-- does the node at `r` ship? (`wfKept` and `wfOpenFrom 1` as one Boolean) -/
def wfShipB (rs : List Rule) (r : RelPath) (isDir : Bool) : Bool :=
  decide ((excludes rs (joinWith '/' r)).1 = false) &&
    (!isDir || decide ((excludes rs (joinWith '/' r ++ ['/'])).1 = false)) && wfOpenB 1 rs r

theorem wfShipB_iff (rs : List Rule) (r : RelPath) (nd : Node) :
    wfShipB rs r (wfIsDir nd) = true ↔ wfKept rs r nd ∧ wfOpenFrom 1 rs r := by
  unfold wfShipB wfKept
  rw [Bool.and_eq_true, Bool.and_eq_true, wfOpenB_iff]
  simp only [decide_eq_true_eq, Bool.or_eq_true, Bool.not_eq_true']
  constructor
  · rintro ⟨⟨h1, h2⟩, h3⟩
    refine ⟨⟨h1, fun hd => ?_⟩, h3⟩
    rcases h2 with h | h
    · rw [hd] at h; cases h
    · exact h
  · rintro ⟨⟨h1, h2⟩, h3⟩
    refine ⟨⟨h1, ?_⟩, h3⟩
    cases hd : wfIsDir nd with
    | false => exact Or.inl rfl
    | true => exact Or.inr (h2 hd)

/-- two lists sorted strictly by a key and with the same members are equal -/
theorem wf_sorted_ext {α : Type} (R : α → α → Prop) (hirr : ∀ a, ¬ R a a) (htr : ∀ a b c, R a b → R b c → R a c) :
    ∀ (l1 l2 : List α), l1.Pairwise R → l2.Pairwise R → (∀ x, x ∈ l1 ↔ x ∈ l2) → l1 = l2 := by
  intro l1
  induction l1 with
  | nil =>
    intro l2 _ _ h
    cases l2 with
    | nil => rfl
    | cons b l2 => exact absurd ((h b).mpr (by simp)) (by simp)
  | cons a l1 ih =>
    intro l2 h1 h2 h
    cases l2 with
    | nil => exact absurd ((h a).mp (by simp)) (by simp)
    | cons b l2 =>
      rw [List.pairwise_cons] at h1 h2
      have hab : a = b := by
        rcases List.mem_cons.mp ((h a).mp (by simp)) with e | ha
        · exact e
        · rcases List.mem_cons.mp ((h b).mpr (by simp)) with e | hb
          · exact e.symm
          · exact absurd (htr a b a (h1.1 b hb) (h2.1 a ha)) (hirr a)
      subst hab
      congr 1
      apply ih l2 h1.2 h2.2
      intro x
      constructor
      · intro hx
        rcases List.mem_cons.mp ((h x).mp (List.mem_cons_of_mem _ hx)) with e | hx'
        · rw [e] at hx; exact absurd (h1.1 a hx) (hirr a)
        · exact hx'
      · intro hx
        rcases List.mem_cons.mp ((h x).mpr (List.mem_cons_of_mem _ hx)) with e | hx'
        · rw [e] at hx; exact absurd (h2.1 a hx) (hirr a)
        · exact hx'

theorem wf_isDir_rtEntry (r : RelPath) (nd : Node) : (rtEntry r nd).isDir = wfIsDir nd := by
  cases nd <;> rfl

/-- **with ignore processing on, `Pack` writes the entries it writes with ignore processing off,
minus those that do not ship, in the same order** -/
theorem wf_pack_filter {fs : FS} {cwd : Str} {o : PackOpts} {src : Str} (ctx : RtCtx fs cwd o src)
    (hoff : o.applyIgnore = false)
    (hfuel : (pack fs cwd o src).2 ≠ .diverged)
    (hfuel' : (pack fs cwd { o with applyIgnore := true } src).2 ≠ .diverged) :
    (pack fs cwd { o with applyIgnore := true } src).1.entries =
      (pack fs cwd o src).1.entries.filter
        (fun e => wfShipB (loadIgnore fs cwd src) (entryRel e.name) e.isDir) := by
  have ctx' : WfCtx fs cwd { o with applyIgnore := true } src (loadIgnore fs cwd src) :=
    ⟨ctx.noDeref, ctx.rootClean, ctx.phys, ctx.names, ctx.depth, fun r t hr _ => ctx.links r t hr⟩
  obtain ⟨_, Moff, hoffE, hsubOff⟩ := rt_pack_listing ctx hoff hfuel
  obtain ⟨_, Mon, honE, hsubOn⟩ := wf_pack_listing ctx' rfl hfuel'
  have hnames : ∀ x ∈ Moff, ∀ c ∈ x.1, NameNS c := fun x hx c hc =>
    rt_raw_names ctx.names (hsubOff.sound x hx).2.1 c (List.mem_append_right _ hc)
  have hM : Mon = Moff.filter (fun x => wfShipB (loadIgnore fs cwd src) x.1 (wfIsDir x.2)) := by
    apply wf_sorted_ext (fun x y : RelPath × Node => x.1 < y.1) (fun a => List.lt_irrefl _)
      (fun a b c h1 h2 => List.lt_trans h1 h2)
    · exact (List.pairwise_map.mp hsubOn.sorted)
    · exact (List.pairwise_map.mp hsubOff.sorted).sublist List.filter_sublist
    · intro x
      rw [List.mem_filter, wfShipB_iff]
      constructor
      · intro hx
        obtain ⟨h1, h2, h3, h4, h5⟩ := hsubOn.sound x hx
        exact ⟨hsubOff.complete x.1 x.2 h1 h2 h3, h4, h5⟩
      · rintro ⟨hx, h4, h5⟩
        obtain ⟨h1, h2, h3⟩ := hsubOff.sound x hx
        exact hsubOn.complete x.1 x.2 h1 h2 h3 h4 h5
  rw [honE, hoffE, hM, List.filter_map]
  congr 1
  apply List.filter_congr
  intro x hx
  show wfShipB _ x.1 (wfIsDir x.2) = wfShipB _ (entryRel (rtEntryP x).name) (rtEntryP x).isDir
  rw [show (rtEntryP x).isDir = wfIsDir x.2 from wf_isDir_rtEntry x.1 x.2,
    show entryRel (rtEntryP x).name = x.1 from rt_entryRel_rtEntry x.1 x.2 (hnames x hx)]

end Slug
