import SlugModel.Builder
/-!
# Lemmas/BuilderLog — helper lemmas about the builder model

* `assoc` facts, `selectVersion` as a fold (`selStepL`), frame facts for `applyDecls`;
* the *bracket automaton* over the call log (`Phase`, `AState`, `step`, `runFrom`, `wf`, `scan`)
  and the invariant `LogOK` that ties the log to the memo tables of a `BState`;
* preservation of `LogOK` by every transition of the model.
-/
namespace Slug

/-! ## `assoc` -/

theorem assoc_nil {α β : Type} [DecidableEq α] (k : α) : assoc ([] : List (α × β)) k = none := rfl

theorem assoc_consL {α β : Type} [DecidableEq α] (a : α) (b : β) (l : List (α × β)) (k : α) :
    assoc ((a, b) :: l) k = if a = k then some b else assoc l k := rfl

theorem assoc_cons_self {α β : Type} [DecidableEq α] (a : α) (b : β) (l : List (α × β)) :
    assoc ((a, b) :: l) a = some b := by simp [assoc_consL]

theorem assoc_eq_none_iff {α β : Type} [DecidableEq α] (l : List (α × β)) (k : α) :
    assoc l k = none ↔ k ∉ l.map Prod.fst := by
  induction l with
  | nil => simp [assoc_nil]
  | cons x r ih =>
    obtain ⟨a, b⟩ := x
    rw [assoc_consL]
    by_cases h : a = k
    · simp [h]
    · simp only [h, if_false, ih, List.map_cons, List.mem_cons, not_or]
      exact ⟨fun h' => ⟨fun e => h e.symm, h'⟩, fun h' => h'.2⟩

theorem assoc_some_mem_keys {α β : Type} [DecidableEq α] (l : List (α × β)) (k : α) (b : β)
    (h : assoc l k = some b) : k ∈ l.map Prod.fst := by
  apply Classical.byContradiction
  intro hn
  rw [(assoc_eq_none_iff l k).mpr hn] at h
  cases h

/-! ## `selectVersion` as a fold -/

/-- one step of `selectVersion` -/
def selStepL (allowed : List VerS) (best : Option VerInfo) (v : VerInfo) : Option VerInfo :=
  if allowed.contains v.ver then
    match best with
    | none => some v
    | some b => if b.rank ≤ v.rank then some v else some b
  else best

theorem selectVersion_eq_foldl (offered : List VerInfo) (allowed : List VerS) :
    selectVersion offered allowed = offered.foldl (selStepL allowed) none := rfl

theorem selStepL_none (allowed : List VerS) (x : VerInfo) (hx : allowed.contains x.ver = true) :
    selStepL allowed none x = some x := by
  unfold selStepL; rw [if_pos hx]

theorem selStepL_le (allowed : List VerS) (b x : VerInfo) (hx : allowed.contains x.ver = true)
    (hlt : b.rank ≤ x.rank) : selStepL allowed (some b) x = some x := by
  unfold selStepL; rw [if_pos hx]; simp only [if_pos hlt]

theorem selStepL_nle (allowed : List VerS) (b x : VerInfo) (hx : allowed.contains x.ver = true)
    (hlt : ¬ b.rank ≤ x.rank) : selStepL allowed (some b) x = some b := by
  unfold selStepL; rw [if_pos hx]; simp only [if_neg hlt]

theorem selStepL_skip (allowed : List VerS) (best : Option VerInfo) (x : VerInfo)
    (hx : ¬ allowed.contains x.ver = true) : selStepL allowed best x = best := by
  unfold selStepL; rw [if_neg hx]

/-- what the fold returns, for an arbitrary starting value -/
theorem selFold_some (allowed : List VerS) (l : List VerInfo) (best : Option VerInfo) (v : VerInfo)
    (h : l.foldl (selStepL allowed) best = some v) :
    (best = some v ∨ (v ∈ l ∧ allowed.contains v.ver = true)) ∧
    (∀ b, best = some b → b.rank ≤ v.rank) ∧
    (∀ u ∈ l, allowed.contains u.ver = true → u.rank ≤ v.rank) := by
  induction l generalizing best with
  | nil =>
    simp only [List.foldl_nil] at h
    subst h
    refine ⟨Or.inl rfl, ?_, ?_⟩
    · intro b hb; cases hb; exact Nat.le_refl _
    · intro u hu; cases hu
  | cons x r ih =>
    simp only [List.foldl_cons] at h
    obtain ⟨h1, h2, h3⟩ := ih _ h
    by_cases hx : allowed.contains x.ver = true
    · cases best with
      | none =>
        have e := selStepL_none allowed x hx
        rw [e] at h1 h2
        refine ⟨Or.inr ?_, ?_, ?_⟩
        · rcases h1 with h1 | h1
          · cases h1; exact ⟨List.mem_cons_self, hx⟩
          · exact ⟨List.mem_cons_of_mem _ h1.1, h1.2⟩
        · intro b hb; cases hb
        · intro u hu hau
          rcases List.mem_cons.mp hu with rfl | hu
          · exact h2 _ rfl
          · exact h3 u hu hau
      | some b =>
        by_cases hlt : b.rank ≤ x.rank
        · have e := selStepL_le allowed b x hx hlt
          rw [e] at h1 h2
          refine ⟨Or.inr ?_, ?_, ?_⟩
          · rcases h1 with h1 | h1
            · cases h1; exact ⟨List.mem_cons_self, hx⟩
            · exact ⟨List.mem_cons_of_mem _ h1.1, h1.2⟩
          · intro b' hb'; cases hb'
            exact Nat.le_trans hlt (h2 _ rfl)
          · intro u hu hau
            rcases List.mem_cons.mp hu with rfl | hu
            · exact h2 _ rfl
            · exact h3 u hu hau
        · have e := selStepL_nle allowed b x hx hlt
          rw [e] at h1 h2
          refine ⟨?_, ?_, ?_⟩
          · rcases h1 with h1 | h1
            · exact Or.inl h1
            · exact Or.inr ⟨List.mem_cons_of_mem _ h1.1, h1.2⟩
          · intro b' hb'; cases hb'; exact h2 _ rfl
          · intro u hu hau
            rcases List.mem_cons.mp hu with rfl | hu
            · exact Nat.le_trans (Nat.le_of_lt (Nat.lt_of_not_le hlt)) (h2 _ rfl)
            · exact h3 u hu hau
    · have e := selStepL_skip allowed best x hx
      rw [e] at h1 h2
      refine ⟨?_, h2, ?_⟩
      · rcases h1 with h1 | h1
        · exact Or.inl h1
        · exact Or.inr ⟨List.mem_cons_of_mem _ h1.1, h1.2⟩
      · intro u hu hau
        rcases List.mem_cons.mp hu with rfl | hu
        · exact absurd hau hx
        · exact h3 u hu hau

theorem selFold_none (allowed : List VerS) (l : List VerInfo) (best : Option VerInfo) :
    l.foldl (selStepL allowed) best = none ↔
      best = none ∧ ∀ u ∈ l, allowed.contains u.ver = false := by
  induction l generalizing best with
  | nil => simp
  | cons x r ih =>
    simp only [List.foldl_cons, ih, List.mem_cons, forall_eq_or_imp]
    by_cases hx : allowed.contains x.ver = true
    · constructor
      · intro ⟨h, _⟩
        cases best with
        | none => rw [selStepL_none allowed x hx] at h; cases h
        | some b =>
          by_cases hlt : b.rank ≤ x.rank
          · rw [selStepL_le allowed b x hx hlt] at h; cases h
          · rw [selStepL_nle allowed b x hx hlt] at h; cases h
      · intro ⟨_, h, _⟩
        rw [h] at hx; cases hx
    · have e := selStepL_skip allowed best x hx
      rw [e]
      have hx' : allowed.contains x.ver = false := by simpa using hx
      exact ⟨fun ⟨a, b⟩ => ⟨a, hx', b⟩, fun ⟨a, _, b⟩ => ⟨a, b⟩⟩

/-! ## `findRegistrySource` in two named stages -/

/-- first stage of `findRegistrySource`: the version listing (cached per registry package) -/
def frsVersions (w : World) (st : BState) (pkg : RegPkg) : BState × Option (List VerInfo) :=
  match assoc st.regVersions pkg with
  | some vs => ({ st with log := .versAlready pkg :: st.log }, some vs)
  | none =>
    match assoc w.versions pkg with
    | some (some vs) =>
      ({ st with regVersions := (pkg, vs) :: st.regVersions,
                 log := .versOk pkg :: .versCall pkg :: .versStart pkg :: st.log }, some vs)
    | _ =>
      ({ st with log := .versFail pkg :: .versCall pkg :: .versStart pkg :: st.log }, none)

/-- the deprecation `findRegistrySource` records for a freshly resolved version -/
def frsDeprecation (vs : List VerInfo) (sel : VerInfo) : Option (Str × Str) :=
  match vs.find? (fun v => v.ver = sel.ver) with
  | some v => v.deprecation
  | none => none

/-- second stage of `findRegistrySource`: the real source of the selected version (cached) -/
def frsSource (w : World) (st1 : BState) (pkg : RegPkg) (vs : List VerInfo) (sel : VerInfo) :
    BState × Option RemoteSrc :=
  match assoc st1.resolved (pkg, sel.ver) with
  | some real => ({ st1 with log := .srcAlready pkg sel.ver :: st1.log }, some real)
  | none =>
    match assoc w.sources (pkg, sel.ver) with
    | some (some real) =>
      ({ st1 with resolved := ((pkg, sel.ver), real) :: st1.resolved,
                  deprec := ((pkg, sel.ver), frsDeprecation vs sel) :: st1.deprec,
                  log := .srcOk pkg sel.ver :: .srcCall pkg sel.ver :: .srcStart pkg sel.ver :: st1.log },
       some real)
    | _ =>
      ({ st1 with log := .srcFail pkg sel.ver :: .srcCall pkg sel.ver :: .srcStart pkg sel.ver :: st1.log }, none)

/-- `findRegistrySource` is the composition of its two stages (definitional) -/
theorem findRegistrySource_eqL (w : World) (st : BState) (src : RegSrc) (allowed : List VerS) :
    findRegistrySource w st src allowed =
      match frsVersions w st src.pkg with
      | (st1, none) => (st1, none)
      | (st1, some vs) =>
        match selectVersion vs allowed with
        | none => (st1, none)
        | some sel =>
          match frsSource w st1 src.pkg vs sel with
          | (st2, none) => (st2, none)
          | (st2, some real) => (st2, some { pkg := real.pkg, sub := finalSourceSub src.sub real.sub }) :=
  rfl

/-! ## generic invariants of the builder loop -/

/-- two states that differ only in the work queues and the poison flag -/
structure SameMemo (st st' : BState) : Prop where
  log : st'.log = st.log
  analyzed : st'.analyzed = st.analyzed
  pkgDirs : st'.pkgDirs = st.pkgDirs
  pkgMeta : st'.pkgMeta = st.pkgMeta
  resolved : st'.resolved = st.resolved
  deprec : st'.deprec = st.deprec
  regVersions : st'.regVersions = st.regVersions

theorem SameMemo.rfl' (st : BState) : SameMemo st st := ⟨rfl, rfl, rfl, rfl, rfl, rfl, rfl⟩

theorem SameMemo.trans {a b c : BState} (h1 : SameMemo a b) (h2 : SameMemo b c) : SameMemo a c :=
  ⟨h2.log.trans h1.log, h2.analyzed.trans h1.analyzed, h2.pkgDirs.trans h1.pkgDirs,
   h2.pkgMeta.trans h1.pkgMeta, h2.resolved.trans h1.resolved, h2.deprec.trans h1.deprec,
   h2.regVersions.trans h1.regVersions⟩

/-- `applyDecls` touches the two queues only -/
theorem applyDecls_sameMemo (base : RemoteSrc) (decls : List Decl) (st : BState) (ds : List Diag) :
    SameMemo st (applyDecls base decls st ds).1 := by
  induction decls generalizing st ds with
  | nil => exact SameMemo.rfl' st
  | cons d r ih =>
    cases d with
    | remote src f =>
      simp only [applyDecls]
      exact SameMemo.trans (b := { st with pendingRemote := st.pendingRemote ++ [(src, f)] })
        ⟨rfl, rfl, rfl, rfl, rfl, rfl, rfl⟩ (ih _ _)
    | registry src allowed f =>
      simp only [applyDecls]
      exact SameMemo.trans
        (b := { st with pendingRegistry := st.pendingRegistry ++ [(src, allowed, f)] })
        ⟨rfl, rfl, rfl, rfl, rfl, rfl, rfl⟩ (ih _ _)
    | loc rel f =>
      simp only [applyDecls]
      split
      · next sub _ =>
        exact SameMemo.trans
          (b := { st with pendingRemote := st.pendingRemote ++ [({ pkg := base.pkg, sub := sub }, f)] })
          ⟨rfl, rfl, rfl, rfl, rfl, rfl, rfl⟩ (ih _ _)
      · exact ih _ _
    | diag e s f => exact ih _ _

theorem applyDecls_poisoned (base : RemoteSrc) (decls : List Decl) (st : BState) (ds : List Diag) :
    (applyDecls base decls st ds).1.poisoned = st.poisoned := by
  induction decls generalizing st ds with
  | nil => rfl
  | cons d r ih =>
    cases d with
    | remote src f => exact ih _ _
    | registry src allowed f => exact ih _ _
    | loc rel f =>
      simp only [applyDecls]
      split
      · exact ih _ _
      · exact ih _ _
    | diag e s f => exact ih _ _

/-- what it takes for a state predicate to be an invariant of the whole builder: it ignores the
queues and the poison flag and survives each elementary transition -/
structure StepInv (w : World) (P : BState → Prop) : Prop where
  memo : ∀ st st', SameMemo st st' → P st → P st'
  versions : ∀ st pkg, P st → P (frsVersions w st pkg).1
  source : ∀ st pkg vs sel, P st → P (frsSource w st pkg vs sel).1
  ensure : ∀ st pkg, P st → P (ensurePackage w st pkg).1
  analyse : ∀ st src f, P st → st.analyzed.contains (src, f) = false →
    P { st with log := .analyse src f :: st.log, analyzed := (src, f) :: st.analyzed }
  trace : ∀ st n, P st → P { st with log := .traceDiags n :: st.log }

theorem findRegistrySource_inv {w : World} {P : BState → Prop} (hP : StepInv w P)
    (st : BState) (src : RegSrc) (allowed : List VerS) (h : P st) :
    P (findRegistrySource w st src allowed).1 := by
  rw [findRegistrySource_eqL]
  have h1 := hP.versions st src.pkg h
  split
  · next st1 e => rw [e] at h1; exact h1
  · next st1 vs e =>
    rw [e] at h1
    split
    · exact h1
    · next sel _ =>
      have h2 := hP.source st1 src.pkg vs sel h1
      split
      · next st2 e2 => rw [e2] at h2; exact h2
      · next st2 real e2 => rw [e2] at h2; exact h2

theorem applyDecls_inv {w : World} {P : BState → Prop} (hP : StepInv w P)
    (base : RemoteSrc) (decls : List Decl) (st : BState) (ds : List Diag) (h : P st) :
    P (applyDecls base decls st ds).1 :=
  hP.memo _ _ (applyDecls_sameMemo base decls st ds) h

theorem drain_invL {w : World} {P : BState → Prop} (hP : StepInv w P) (fuel : Nat) (ph : Bool)
    (st : BState) (ds : List Diag) (st' : BState) (ds' : List Diag)
    (h : P st) (hd : drain w fuel ph st ds = .done st' ds') : P st' := by
  induction fuel generalizing ph st ds with
  | zero => simp [drain] at hd
  | succ fuel ih =>
    cases ph with
    | false =>
      simp only [drain] at hd
      split at hd
      · exact ih _ _ _ h hd
      · next src allowed f _ =>
        have h0 : P { st with pendingRegistry := st.pendingRegistry.dropLast } :=
          hP.memo st _ ⟨rfl, rfl, rfl, rfl, rfl, rfl, rfl⟩ h
        have h1 := findRegistrySource_inv hP _ src allowed h0
        split at hd
        · next st1 e => rw [e] at h1; exact ih _ _ _ h1 hd
        · next st1 real e =>
          rw [e] at h1
          exact ih _ _ _ (hP.memo st1 { st1 with pendingRemote := st1.pendingRemote ++ [(real, f)] }
            ⟨rfl, rfl, rfl, rfl, rfl, rfl, rfl⟩ h1) hd
    | true =>
      simp only [drain] at hd
      split at hd
      · split at hd
        · cases hd; exact h
        · exact ih _ _ _ h hd
      · next src f _ =>
        have h0 : P { st with pendingRemote := st.pendingRemote.dropLast } :=
          hP.memo st _ ⟨rfl, rfl, rfl, rfl, rfl, rfl, rfl⟩ h
        have h1 := hP.ensure _ src.pkg h0
        split at hd
        · next st1 e => rw [e] at h1; exact ih _ _ _ h1 hd
        · next st1 content e =>
          rw [e] at h1
          split at hd
          · exact ih _ _ _ h1 hd
          · next hc =>
            have hc' : st1.analyzed.contains (src, f) = false := by simpa using hc
            have h2 := hP.analyse st1 src f h1 hc'
            refine ih _ _ _ ?_ hd
            have hm := applyDecls_sameMemo src ((assoc w.deps (content, src.sub, f)).getD [])
              { st1 with log := .analyse src f :: st1.log } ds
            generalize applyDecls src ((assoc w.deps (content, src.sub, f)).getD [])
              { st1 with log := .analyse src f :: st1.log } ds = r at hd hm
            have h3 : P { r.1 with analyzed := (src, f) :: r.1.analyzed } :=
              hP.memo { st1 with log := .analyse src f :: st1.log, analyzed := (src, f) :: st1.analyzed } _
                ⟨hm.log, by simp [hm.analyzed], hm.pkgDirs, hm.pkgMeta,
                  hm.resolved, hm.deprec, hm.regVersions⟩ h2
            split
            · exact h3
            · exact hP.trace _ _ h3

theorem applyOp_inv {w : World} {P : BState → Prop} (hP : StepInv w P) (fuel : Nat)
    (st : BState) (op : Op) (h : P st) : P (applyOp w fuel st op).1 := by
  unfold applyOp
  split
  · exact h
  · cases op with
    | addRemote src f =>
      simp only
      split
      · exact h
      · next st1 hq =>
        split at hq
        · cases hq
        · cases hq
          have h1 : P { st with pendingRemote := st.pendingRemote ++ [(src, f)] } :=
            hP.memo st _ ⟨rfl, rfl, rfl, rfl, rfl, rfl, rfl⟩ h
          split
          · exact h1
          · next st2 ds hd =>
            exact hP.memo st2 _ ⟨rfl, rfl, rfl, rfl, rfl, rfl, rfl⟩ (drain_invL hP _ _ _ _ _ _ h1 hd)
    | addRegistry src allowed f =>
      simp only
      have h1 : P { st with pendingRegistry := st.pendingRegistry ++ [(src, allowed, f)] } :=
        hP.memo st _ ⟨rfl, rfl, rfl, rfl, rfl, rfl, rfl⟩ h
      split
      · exact h1
      · next st2 ds hd =>
        exact hP.memo st2 _ ⟨rfl, rfl, rfl, rfl, rfl, rfl, rfl⟩ (drain_invL hP _ _ _ _ _ _ h1 hd)

theorem runOps_inv {w : World} {P : BState → Prop} (hP : StepInv w P) (fuel : Nat)
    (st : BState) (ops : List Op) (h : P st) : P (runOps w fuel st ops).1 := by
  induction ops generalizing st with
  | nil => exact h
  | cons op r ih =>
    simp only [runOps]
    exact ih _ (applyOp_inv hP fuel st op h)

/-! ## the bracket automaton over the call log -/

/-- what a bracketed piece of work is about: a package fetch, a registry version listing, the
source lookup of one registry package version -/
inductive LogKey
  | pkg (p : PkgAddr)
  | reg (r : RegPkg)
  | ver (r : RegPkg) (v : VerS)
  deriving DecidableEq, Repr

/-- the role an event plays -/
inductive EvRole
  | start (k : LogKey) | call (k : LogKey) | ok (k : LogKey) | fail (k : LogKey) | already (k : LogKey)
  | analyse (s : RemoteSrc) (f : FinderId)
  | note
  deriving DecidableEq, Repr

def Ev.cls : Ev → EvRole
  | .fetchStart p => .start (.pkg p)
  | .fetchCall p => .call (.pkg p)
  | .fetchOk p => .ok (.pkg p)
  | .fetchFail p => .fail (.pkg p)
  | .fetchAlready p => .already (.pkg p)
  | .versStart r => .start (.reg r)
  | .versCall r => .call (.reg r)
  | .versOk r => .ok (.reg r)
  | .versFail r => .fail (.reg r)
  | .versAlready r => .already (.reg r)
  | .srcStart r v => .start (.ver r v)
  | .srcCall r v => .call (.ver r v)
  | .srcOk r v => .ok (.ver r v)
  | .srcFail r v => .fail (.ver r v)
  | .srcAlready r v => .already (.ver r v)
  | .analyse s f => .analyse s f
  | .traceDiags _ => .note

inductive LogPhase
  | idle
  | started (k : LogKey)
  | called (k : LogKey)
  deriving DecidableEq, Repr

/-- automaton state: the open bracket (if any), the keys completed successfully so far, the
artefacts analysed so far -/
structure LogAuto where
  phase : LogPhase
  done : List LogKey
  analysed : List (RemoteSrc × FinderId)
  deriving DecidableEq, Repr

def LogAuto.init : LogAuto := { phase := .idle, done := [], analysed := [] }

/-- one event, read oldest-first.  `none` = the log is not well bracketed.
* `start k` only outside a bracket and only for a key not yet completed;
* `call k` only directly after `start k`; `ok k` / `fail k` only directly after `call k`;
* `already k` only outside a bracket and only for a completed key;
* `analyse s f` only outside a bracket and at most once per artefact. -/
def logStep (a : LogAuto) : EvRole → Option LogAuto
  | .start k => if a.phase = .idle ∧ k ∉ a.done then some { a with phase := .started k } else none
  | .call k => if a.phase = .started k then some { a with phase := .called k } else none
  | .ok k =>
    if a.phase = .called k ∧ k ∉ a.done then some { a with phase := .idle, done := k :: a.done }
    else none
  | .fail k => if a.phase = .called k then some { a with phase := .idle } else none
  | .already k => if a.phase = .idle ∧ k ∈ a.done then some a else none
  | .analyse s f =>
    if a.phase = .idle ∧ (s, f) ∉ a.analysed then some { a with analysed := (s, f) :: a.analysed }
    else none
  | .note => if a.phase = .idle then some a else none

/-- run the automaton over a log given oldest-first -/
def logRun (a : LogAuto) : List Ev → Option LogAuto
  | [] => some a
  | e :: r =>
    match logStep a e.cls with
    | none => none
    | some a' => logRun a' r

/-- **the bracket predicate**: the log (oldest first) is accepted and ends outside any bracket -/
def logWf (l : List Ev) : Bool :=
  match logRun LogAuto.init l with
  | some a => decide (a.phase = .idle)
  | none => false

theorem logRun_append (a : LogAuto) (l1 l2 : List Ev) :
    logRun a (l1 ++ l2) = (logRun a l1).bind (fun a' => logRun a' l2) := by
  induction l1 generalizing a with
  | nil => rfl
  | cons e r ih =>
    simp only [List.cons_append, logRun]
    cases logStep a e.cls with
    | none => rfl
    | some a' => exact ih a'

/-- the automaton state after a log given newest-first (as `BState.log` is) -/
def logScan (l : List Ev) : Option LogAuto := logRun LogAuto.init l.reverse

theorem logScan_nil : logScan [] = some LogAuto.init := rfl

theorem logScan_cons (e : Ev) (l : List Ev) :
    logScan (e :: l) = (logScan l).bind (fun a => logStep a e.cls) := by
  unfold logScan
  rw [List.reverse_cons, logRun_append]
  cases logRun LogAuto.init l.reverse with
  | none => rfl
  | some a =>
    simp only [Option.bind_some, logRun]
    cases logStep a e.cls <;> rfl

theorem logScan_cons_some (e : Ev) (l : List Ev) (a : LogAuto) (h : logScan (e :: l) = some a) :
    ∃ a0, logScan l = some a0 ∧ logStep a0 e.cls = some a := by
  rw [logScan_cons] at h
  cases h0 : logScan l with
  | none => rw [h0] at h; cases h
  | some a0 => rw [h0] at h; exact ⟨a0, rfl, h⟩

theorem logWf_reverse_iff (l : List Ev) :
    logWf l.reverse = true ↔ ∃ a, logScan l = some a ∧ a.phase = .idle := by
  unfold logWf logScan
  cases logRun LogAuto.init l.reverse with
  | none => simp
  | some a => simp

/-- a complete successful bracket -/
theorem logScan_bracket_ok (l : List Ev) (a : LogAuto) (e1 e2 e3 : Ev) (k : LogKey)
    (h1 : e1.cls = .start k) (h2 : e2.cls = .call k) (h3 : e3.cls = .ok k)
    (h : logScan l = some a) (hi : a.phase = .idle) (hk : k ∉ a.done) :
    logScan (e3 :: e2 :: e1 :: l) = some { a with done := k :: a.done } := by
  obtain ⟨ph, dn, an⟩ := a
  simp only at hi hk
  subst hi
  simp [logScan_cons, h, h1, h2, h3, logStep, hk]

/-- a complete failed bracket -/
theorem logScan_bracket_fail (l : List Ev) (a : LogAuto) (e1 e2 e3 : Ev) (k : LogKey)
    (h1 : e1.cls = .start k) (h2 : e2.cls = .call k) (h3 : e3.cls = .fail k)
    (h : logScan l = some a) (hi : a.phase = .idle) (hk : k ∉ a.done) :
    logScan (e3 :: e2 :: e1 :: l) = some a := by
  obtain ⟨ph, dn, an⟩ := a
  simp only at hi hk
  subst hi
  simp [logScan_cons, h, h1, h2, h3, logStep, hk]

theorem logScan_already (l : List Ev) (a : LogAuto) (e : Ev) (k : LogKey) (h1 : e.cls = .already k)
    (h : logScan l = some a) (hi : a.phase = .idle) (hk : k ∈ a.done) :
    logScan (e :: l) = some a := by
  simp [logScan_cons, h, h1, logStep, hi, hk]

theorem logScan_analyse (l : List Ev) (a : LogAuto) (s : RemoteSrc) (f : FinderId)
    (h : logScan l = some a) (hi : a.phase = .idle) (hk : (s, f) ∉ a.analysed) :
    logScan (.analyse s f :: l) = some { a with analysed := (s, f) :: a.analysed } := by
  simp [logScan_cons, h, Ev.cls, logStep, hi, hk]

theorem logScan_note (l : List Ev) (a : LogAuto) (n : Nat)
    (h : logScan l = some a) (hi : a.phase = .idle) :
    logScan (.traceDiags n :: l) = some a := by
  simp [logScan_cons, h, Ev.cls, logStep, hi]

/-! ## `LogOK`: the log and the memo tables agree -/

/-- the memo table entry a key stands for -/
def inTables (st : BState) : LogKey → Prop
  | .pkg p => p ∈ st.pkgDirs.map Prod.fst
  | .reg r => r ∈ st.regVersions.map Prod.fst
  | .ver r v => (r, v) ∈ st.resolved.map Prod.fst

/-- **the log invariant**: the log is well bracketed and closed; the keys with a successful
bracket are exactly the keys of the memo tables (`pkgDirs`, `regVersions`, `resolved`); the
artefacts with an `analyse` event are exactly `analyzed`, in the same order. -/
def LogOK (st : BState) : Prop :=
  ∃ a, logScan st.log = some a ∧ a.phase = .idle ∧ (∀ k, k ∈ a.done ↔ inTables st k) ∧
    a.analysed = st.analyzed

theorem logOK_init : LogOK BState.init :=
  ⟨LogAuto.init, rfl, rfl, by intro k; cases k <;> simp [LogAuto.init, inTables, BState.init], rfl⟩

theorem logOK_sameMemo (st st' : BState) (hm : SameMemo st st') (h : LogOK st) : LogOK st' := by
  obtain ⟨a, h1, h2, h3, h4⟩ := h
  refine ⟨a, by rw [hm.log]; exact h1, h2, ?_, by rw [hm.analyzed]; exact h4⟩
  intro k
  rw [h3 k]
  cases k <;> simp only [inTables, hm.pkgDirs, hm.regVersions, hm.resolved]

theorem logOK_stepInv (w : World) : StepInv w LogOK where
  memo := logOK_sameMemo
  versions := by
    intro st pkg ⟨a, h1, h2, h3, h4⟩
    unfold frsVersions
    split
    · next vs hv =>
      exact ⟨a, logScan_already _ a _ (.reg pkg) rfl h1 h2
        ((h3 _).mpr (assoc_some_mem_keys _ _ _ hv)), h2, h3, h4⟩
    · next hv =>
      have hk : LogKey.reg pkg ∉ a.done := fun hk => (assoc_eq_none_iff _ _).mp hv ((h3 _).mp hk)
      split
      · refine ⟨_, logScan_bracket_ok _ a _ _ _ (.reg pkg) rfl rfl rfl h1 h2 hk, h2, ?_, h4⟩
        intro k
        cases k <;> simp [inTables, h3]
      · exact ⟨a, logScan_bracket_fail _ a _ _ _ (.reg pkg) rfl rfl rfl h1 h2 hk, h2, h3, h4⟩
  source := by
    intro st pkg vs sel ⟨a, h1, h2, h3, h4⟩
    unfold frsSource
    split
    · next real hv =>
      exact ⟨a, logScan_already _ a _ (.ver pkg sel.ver) rfl h1 h2
        ((h3 _).mpr (assoc_some_mem_keys _ _ _ hv)), h2, h3, h4⟩
    · next hv =>
      have hk : LogKey.ver pkg sel.ver ∉ a.done :=
        fun hk => (assoc_eq_none_iff _ _).mp hv ((h3 _).mp hk)
      split
      · refine ⟨_, logScan_bracket_ok _ a _ _ _ (.ver pkg sel.ver) rfl rfl rfl h1 h2 hk, h2, ?_, h4⟩
        intro k
        cases k <;> simp [inTables, h3]
      · exact ⟨a, logScan_bracket_fail _ a _ _ _ (.ver pkg sel.ver) rfl rfl rfl h1 h2 hk, h2, h3, h4⟩
  ensure := by
    intro st pkg ⟨a, h1, h2, h3, h4⟩
    unfold ensurePackage
    split
    · next d hv =>
      exact ⟨a, logScan_already _ a _ (.pkg pkg) rfl h1 h2
        ((h3 _).mpr (assoc_some_mem_keys _ _ _ hv)), h2, h3, h4⟩
    · next hv =>
      have hk : LogKey.pkg pkg ∉ a.done := fun hk => (assoc_eq_none_iff _ _).mp hv ((h3 _).mp hk)
      split
      · refine ⟨_, logScan_bracket_ok _ a _ _ _ (.pkg pkg) rfl rfl rfl h1 h2 hk, h2, ?_, h4⟩
        intro k
        cases k <;> simp [inTables, h3]
      · exact ⟨a, logScan_bracket_fail _ a _ _ _ (.pkg pkg) rfl rfl rfl h1 h2 hk, h2, h3, h4⟩
  analyse := by
    intro st src f ⟨a, h1, h2, h3, h4⟩ hc
    have hk : (src, f) ∉ a.analysed := by
      rw [h4]; intro hm
      have : st.analyzed.contains (src, f) = true := by simpa using hm
      rw [hc] at this; cases this
    exact ⟨_, logScan_analyse _ a src f h1 h2 hk, h2, h3, by simp [h4]⟩
  trace := by
    intro st n ⟨a, h1, h2, h3, h4⟩
    exact ⟨a, logScan_note _ a n h1 h2, h2, h3, h4⟩

/-! ## counting events: what acceptance by the automaton implies -/

theorem logStep_start_some (a a' : LogAuto) (k : LogKey) :
    logStep a (.start k) = some a' ↔
      a.phase = .idle ∧ k ∉ a.done ∧ a' = { a with phase := .started k } := by
  show (if a.phase = .idle ∧ k ∉ a.done then some { a with phase := .started k } else none) = some a' ↔ _
  split
  · next h => simp [h.1, h.2, eq_comm]
  · next h => simp; intro h1 h2; exact absurd ⟨h1, h2⟩ h

theorem logStep_call_some (a a' : LogAuto) (k : LogKey) :
    logStep a (.call k) = some a' ↔ a.phase = .started k ∧ a' = { a with phase := .called k } := by
  show (if a.phase = .started k then some { a with phase := .called k } else none) = some a' ↔ _
  split
  · next h => simp [h, eq_comm]
  · next h => simp [h]

theorem logStep_ok_some (a a' : LogAuto) (k : LogKey) :
    logStep a (.ok k) = some a' ↔
      a.phase = .called k ∧ k ∉ a.done ∧ a' = { a with phase := .idle, done := k :: a.done } := by
  show (if a.phase = .called k ∧ k ∉ a.done then some { a with phase := .idle, done := k :: a.done }
    else none) = some a' ↔ _
  split
  · next h => simp [h.1, h.2, eq_comm]
  · next h => simp; intro h1 h2; exact absurd ⟨h1, h2⟩ h

theorem logStep_fail_some (a a' : LogAuto) (k : LogKey) :
    logStep a (.fail k) = some a' ↔ a.phase = .called k ∧ a' = { a with phase := .idle } := by
  show (if a.phase = .called k then some { a with phase := .idle } else none) = some a' ↔ _
  split
  · next h => simp [h, eq_comm]
  · next h => simp [h]

theorem logStep_already_some (a a' : LogAuto) (k : LogKey) :
    logStep a (.already k) = some a' ↔ a.phase = .idle ∧ k ∈ a.done ∧ a' = a := by
  show (if a.phase = .idle ∧ k ∈ a.done then some a else none) = some a' ↔ _
  split
  · next h => simp [h.1, h.2, eq_comm]
  · next h => simp; intro h1 h2; exact absurd ⟨h1, h2⟩ h

theorem logStep_analyse_some (a a' : LogAuto) (s : RemoteSrc) (f : FinderId) :
    logStep a (.analyse s f) = some a' ↔
      a.phase = .idle ∧ (s, f) ∉ a.analysed ∧ a' = { a with analysed := (s, f) :: a.analysed } := by
  show (if a.phase = .idle ∧ (s, f) ∉ a.analysed then some { a with analysed := (s, f) :: a.analysed }
    else none) = some a' ↔ _
  split
  · next h => simp [h.1, h.2, eq_comm]
  · next h => simp; intro h1 h2; exact absurd ⟨h1, h2⟩ h

theorem logStep_note_some (a a' : LogAuto) :
    logStep a .note = some a' ↔ a.phase = .idle ∧ a' = a := by
  show (if a.phase = .idle then some a else none) = some a' ↔ _
  split
  · next h => simp [h, eq_comm]
  · next h => simp [h]

/-- number of events of a given role -/
def cnt (c : EvRole) (l : List Ev) : Nat := l.countP (fun e => e.cls = c)

theorem cnt_nil (c : EvRole) : cnt c [] = 0 := rfl

theorem cnt_cons (c : EvRole) (e : Ev) (l : List Ev) :
    cnt c (e :: l) = cnt c l + if e.cls = c then 1 else 0 := by
  unfold cnt
  rw [List.countP_cons]
  simp

structure Counts (l : List Ev) (a : LogAuto) : Prop where
  ok : ∀ k, cnt (.ok k) l = if k ∈ a.done then 1 else 0
  call : ∀ k, cnt (.call k) l = cnt (.ok k) l + cnt (.fail k) l + if a.phase = .called k then 1 else 0
  start : ∀ k, cnt (.start k) l = cnt (.call k) l + if a.phase = .started k then 1 else 0
  analyse : ∀ s f, cnt (.analyse s f) l = if (s, f) ∈ a.analysed then 1 else 0
  already : ∀ k, 0 < cnt (.already k) l → k ∈ a.done

theorem logScan_counts (l : List Ev) (a : LogAuto) (h : logScan l = some a) : Counts l a := by
  induction l generalizing a with
  | nil =>
    cases h
    constructor <;> intros <;> simp_all [cnt_nil, LogAuto.init]
  | cons e l ih =>
    obtain ⟨a0, h0, hs⟩ := logScan_cons_some e l a h
    have c := ih a0 h0
    obtain ⟨ph0, dn0, an0⟩ := a0
    generalize hr : e.cls = r at hs
    cases r with
    | start k =>
      rw [logStep_start_some] at hs
      obtain ⟨h1, h2, rfl⟩ := hs
      simp only at h1 h2
      subst h1
      constructor
      · intro k'; simp [cnt_cons, hr, c.ok]
      · intro k'; have := c.call k'; simp [cnt_cons, hr] at this ⊢; omega
      · intro k'; have := c.start k'; simp [cnt_cons, hr] at this ⊢
        simp [this]
      · intro s f; simp [cnt_cons, hr, c.analyse]
      · intro k'; have := c.already k'; simpa [cnt_cons, hr] using this
    | call k =>
      rw [logStep_call_some] at hs
      obtain ⟨h1, rfl⟩ := hs
      simp only at h1
      subst h1
      constructor
      · intro k'; simp [cnt_cons, hr, c.ok]
      · intro k'; have := c.call k'; simp [cnt_cons, hr] at this ⊢
        simp [this]
      · intro k'; have := c.start k'; simp [cnt_cons, hr] at this ⊢
        by_cases hk : k = k' <;> simp [hk, this] <;> omega
      · intro s f; simp [cnt_cons, hr, c.analyse]
      · intro k'; have := c.already k'; simpa [cnt_cons, hr] using this
    | ok k =>
      rw [logStep_ok_some] at hs
      obtain ⟨h1, h2, rfl⟩ := hs
      simp only at h1 h2
      subst h1
      constructor
      · intro k'; have := c.ok k'; simp [cnt_cons, hr] at this ⊢
        by_cases hk : k = k'
        · subst hk; simp [this, h2]
        · have hk' : ¬ k' = k := fun e => hk e.symm
          simp [hk, hk', this]
      · intro k'; have := c.call k'; simp [cnt_cons, hr] at this ⊢
        by_cases hk : k = k' <;> simp [hk, this] <;> omega
      · intro k'; have := c.start k'; simpa [cnt_cons, hr] using this
      · intro s f; simp [cnt_cons, hr, c.analyse]
      · intro k' hp; have := c.already k'; simp [cnt_cons, hr] at this hp ⊢
        exact Or.inr (this hp)
    | fail k =>
      rw [logStep_fail_some] at hs
      obtain ⟨h1, rfl⟩ := hs
      simp only at h1
      subst h1
      constructor
      · intro k'; simp [cnt_cons, hr, c.ok]
      · intro k'; have := c.call k'; simp [cnt_cons, hr] at this ⊢
        by_cases hk : k = k' <;> simp [hk, this] <;> omega
      · intro k'; have := c.start k'; simpa [cnt_cons, hr] using this
      · intro s f; simp [cnt_cons, hr, c.analyse]
      · intro k'; have := c.already k'; simpa [cnt_cons, hr] using this
    | already k =>
      rw [logStep_already_some] at hs
      obtain ⟨h1, h2, rfl⟩ := hs
      simp only at h1 h2
      subst h1
      constructor
      · intro k'; simp [cnt_cons, hr, c.ok]
      · intro k'; have := c.call k'; simpa [cnt_cons, hr] using this
      · intro k'; have := c.start k'; simpa [cnt_cons, hr] using this
      · intro s f; simp [cnt_cons, hr, c.analyse]
      · intro k' hp; have := c.already k'; simp [cnt_cons, hr] at this hp ⊢
        by_cases hk : k = k'
        · subst hk; exact h2
        · simp [hk] at hp; exact this hp
    | analyse s f =>
      rw [logStep_analyse_some] at hs
      obtain ⟨h1, h2, rfl⟩ := hs
      simp only at h1 h2
      subst h1
      constructor
      · intro k'; simp [cnt_cons, hr, c.ok]
      · intro k'; have := c.call k'; simpa [cnt_cons, hr] using this
      · intro k'; have := c.start k'; simpa [cnt_cons, hr] using this
      · intro s' f'; have := c.analyse s' f'; simp [cnt_cons, hr] at this ⊢
        by_cases hk : s = s' ∧ f = f'
        · obtain ⟨rfl, rfl⟩ := hk; simp [this, h2]
        · have hk' : ¬ (s' = s ∧ f' = f) := fun e => hk ⟨e.1.symm, e.2.symm⟩
          simp [hk, hk', this]
      · intro k'; have := c.already k'; simpa [cnt_cons, hr] using this
    | note =>
      rw [logStep_note_some] at hs
      obtain ⟨h1, rfl⟩ := hs
      simp only at h1
      subst h1
      constructor
      · intro k'; simp [cnt_cons, hr, c.ok]
      · intro k'; have := c.call k'; simpa [cnt_cons, hr] using this
      · intro k'; have := c.start k'; simpa [cnt_cons, hr] using this
      · intro s f; simp [cnt_cons, hr, c.analyse]
      · intro k'; have := c.already k'; simpa [cnt_cons, hr] using this

/-! ## positional reading of the bracket predicate -/

theorem cnt_pos_iff (c : EvRole) (l : List Ev) : 0 < cnt c l ↔ ∃ e ∈ l, e.cls = c := by
  unfold cnt
  rw [List.countP_pos_iff]
  simp

theorem cnt_reverse (c : EvRole) (l : List Ev) : cnt c l.reverse = cnt c l := by
  unfold cnt; exact List.countP_reverse

/-- what the next event can be, given the open bracket -/
theorem logStep_from_started (a a' : LogAuto) (r : EvRole) (k : LogKey)
    (h : logStep a r = some a') (hp : a.phase = .started k) :
    r = .call k ∧ a'.phase = .called k := by
  cases r with
  | start k' => rw [logStep_start_some] at h; rw [hp] at h; cases h.1
  | call k' =>
    rw [logStep_call_some] at h
    obtain ⟨h1, rfl⟩ := h
    rw [hp] at h1; cases h1; exact ⟨rfl, rfl⟩
  | ok k' => rw [logStep_ok_some] at h; rw [hp] at h; cases h.1
  | fail k' => rw [logStep_fail_some] at h; rw [hp] at h; cases h.1
  | already k' => rw [logStep_already_some] at h; rw [hp] at h; cases h.1
  | analyse s f => rw [logStep_analyse_some] at h; rw [hp] at h; cases h.1
  | note => rw [logStep_note_some] at h; rw [hp] at h; cases h.1

theorem logStep_from_called (a a' : LogAuto) (r : EvRole) (k : LogKey)
    (h : logStep a r = some a') (hp : a.phase = .called k) :
    (r = .ok k ∨ r = .fail k) ∧ a'.phase = .idle := by
  cases r with
  | start k' => rw [logStep_start_some] at h; rw [hp] at h; cases h.1
  | call k' => rw [logStep_call_some] at h; rw [hp] at h; cases h.1
  | ok k' =>
    rw [logStep_ok_some] at h
    obtain ⟨h1, _, rfl⟩ := h
    rw [hp] at h1; cases h1; exact ⟨Or.inl rfl, rfl⟩
  | fail k' =>
    rw [logStep_fail_some] at h
    obtain ⟨h1, rfl⟩ := h
    rw [hp] at h1; cases h1; exact ⟨Or.inr rfl, rfl⟩
  | already k' => rw [logStep_already_some] at h; rw [hp] at h; cases h.1
  | analyse s f => rw [logStep_analyse_some] at h; rw [hp] at h; cases h.1
  | note => rw [logStep_note_some] at h; rw [hp] at h; cases h.1

/-- which event leads into which phase -/
theorem logStep_to_started (a a' : LogAuto) (r : EvRole) (k : LogKey)
    (h : logStep a r = some a') (hp : a'.phase = .started k) : r = .start k := by
  cases r with
  | start k' => rw [logStep_start_some] at h; obtain ⟨_, _, rfl⟩ := h; cases hp; rfl
  | call k' => rw [logStep_call_some] at h; obtain ⟨_, rfl⟩ := h; cases hp
  | ok k' => rw [logStep_ok_some] at h; obtain ⟨_, _, rfl⟩ := h; cases hp
  | fail k' => rw [logStep_fail_some] at h; obtain ⟨_, rfl⟩ := h; cases hp
  | already k' => rw [logStep_already_some] at h; obtain ⟨h1, _, rfl⟩ := h; rw [h1] at hp; cases hp
  | analyse s f => rw [logStep_analyse_some] at h; obtain ⟨h1, _, rfl⟩ := h; simp only at hp; rw [h1] at hp; cases hp
  | note => rw [logStep_note_some] at h; obtain ⟨h1, rfl⟩ := h; rw [h1] at hp; cases hp

theorem logStep_to_called (a a' : LogAuto) (r : EvRole) (k : LogKey)
    (h : logStep a r = some a') (hp : a'.phase = .called k) : r = .call k := by
  cases r with
  | start k' => rw [logStep_start_some] at h; obtain ⟨_, _, rfl⟩ := h; cases hp
  | call k' => rw [logStep_call_some] at h; obtain ⟨_, rfl⟩ := h; cases hp; rfl
  | ok k' => rw [logStep_ok_some] at h; obtain ⟨_, _, rfl⟩ := h; cases hp
  | fail k' => rw [logStep_fail_some] at h; obtain ⟨_, rfl⟩ := h; cases hp
  | already k' => rw [logStep_already_some] at h; obtain ⟨h1, _, rfl⟩ := h; rw [h1] at hp; cases hp
  | analyse s f => rw [logStep_analyse_some] at h; obtain ⟨h1, _, rfl⟩ := h; simp only at hp; rw [h1] at hp; cases hp
  | note => rw [logStep_note_some] at h; obtain ⟨h1, rfl⟩ := h; rw [h1] at hp; cases hp

/-- the phase required by each event -/
theorem logStep_needs (a a' : LogAuto) (r : EvRole) (h : logStep a r = some a') :
    match r with
    | .start k => a.phase = .idle ∧ k ∉ a.done
    | .call k => a.phase = .started k
    | .ok k => a.phase = .called k
    | .fail k => a.phase = .called k
    | .already k => a.phase = .idle ∧ k ∈ a.done
    | .analyse s f => a.phase = .idle ∧ (s, f) ∉ a.analysed
    | .note => a.phase = .idle := by
  cases r with
  | start k => rw [logStep_start_some] at h; exact ⟨h.1, h.2.1⟩
  | call k => rw [logStep_call_some] at h; exact h.1
  | ok k => rw [logStep_ok_some] at h; exact h.1
  | fail k => rw [logStep_fail_some] at h; exact h.1
  | already k => rw [logStep_already_some] at h; exact ⟨h.1, h.2.1⟩
  | analyse s f => rw [logStep_analyse_some] at h; exact ⟨h.1, h.2.1⟩
  | note => rw [logStep_note_some] at h; exact h.1

theorem logRun_cons_some (a af : LogAuto) (e : Ev) (r : List Ev) (h : logRun a (e :: r) = some af) :
    ∃ a', logStep a e.cls = some a' ∧ logRun a' r = some af := by
  simp only [logRun] at h
  cases hs : logStep a e.cls with
  | none => rw [hs] at h; cases h
  | some a' => rw [hs] at h; exact ⟨a', rfl, h⟩

theorem logWf_split (pre rest : List Ev) (h : logWf (pre ++ rest) = true) :
    ∃ a af, logRun LogAuto.init pre = some a ∧ logRun a rest = some af ∧ af.phase = .idle := by
  unfold logWf at h
  rw [logRun_append] at h
  cases h1 : logRun LogAuto.init pre with
  | none => rw [h1] at h; cases h
  | some a =>
    rw [h1] at h
    simp only [Option.bind_some] at h
    cases h2 : logRun a rest with
    | none => rw [h2] at h; cases h
    | some af =>
      rw [h2] at h
      exact ⟨a, af, rfl, h2, by simpa using h⟩

theorem logRun_eq_logScan (l : List Ev) : logRun LogAuto.init l = logScan l.reverse := by
  unfold logScan; rw [List.reverse_reverse]

/-- the completed keys are those with an `ok` event -/
theorem logRun_done_iff (pre : List Ev) (a : LogAuto) (h : logRun LogAuto.init pre = some a)
    (k : LogKey) : k ∈ a.done ↔ ∃ e ∈ pre, e.cls = .ok k := by
  rw [logRun_eq_logScan] at h
  have c := (logScan_counts _ a h).ok k
  rw [cnt_reverse] at c
  rw [← cnt_pos_iff, c]
  by_cases hk : k ∈ a.done <;> simp [hk]

/-- **bracket, forwards.** In a well-bracketed log (oldest first) every `start k` is immediately
followed by `call k` and then by `ok k` or `fail k`. -/
theorem logWf_start_followed (pre rest : List Ev) (e : Ev) (k : LogKey)
    (h : logWf (pre ++ e :: rest) = true) (he : e.cls = .start k) :
    ∃ e2 e3 rest', rest = e2 :: e3 :: rest' ∧ e2.cls = .call k ∧
      (e3.cls = .ok k ∨ e3.cls = .fail k) := by
  obtain ⟨a, af, _, h2, h3⟩ := logWf_split pre (e :: rest) h
  obtain ⟨a1, hs1, hr1⟩ := logRun_cons_some a af e rest h2
  rw [he, logStep_start_some] at hs1
  have hp1 : a1.phase = .started k := by rw [hs1.2.2]
  cases rest with
  | nil => cases hr1; rw [hp1] at h3; cases h3
  | cons e2 rest2 =>
    obtain ⟨a2, hs2, hr2⟩ := logRun_cons_some a1 af e2 rest2 hr1
    obtain ⟨hc2, hp2⟩ := logStep_from_started a1 a2 _ k hs2 hp1
    cases rest2 with
    | nil => cases hr2; rw [hp2] at h3; cases h3
    | cons e3 rest3 =>
      obtain ⟨a3, hs3, _⟩ := logRun_cons_some a2 af e3 rest3 hr2
      exact ⟨e2, e3, rest3, rfl, hc2, (logStep_from_called a2 a3 _ k hs3 hp2).1⟩

/-- the phase after a non-empty prefix tells its last event -/
theorem logRun_last (pre : List Ev) (a : LogAuto) (h : logRun LogAuto.init pre = some a) :
    (∀ k, a.phase = .started k → ∃ pre' e0, pre = pre' ++ [e0] ∧ e0.cls = .start k) ∧
    (∀ k, a.phase = .called k → ∃ pre' e0, pre = pre' ++ [e0] ∧ e0.cls = .call k) := by
  rw [logRun_eq_logScan] at h
  cases hr : pre.reverse with
  | nil =>
    rw [hr] at h; cases h
    exact ⟨fun k hk => by simp [LogAuto.init] at hk, fun k hk => by simp [LogAuto.init] at hk⟩
  | cons e0 l =>
    rw [hr] at h
    obtain ⟨a0, _, hs⟩ := logScan_cons_some e0 l a h
    have hpre : pre = l.reverse ++ [e0] := by
      have := congrArg List.reverse hr
      simpa using this
    exact ⟨fun k hk => ⟨l.reverse, e0, hpre, logStep_to_started a0 a _ k hs hk⟩,
      fun k hk => ⟨l.reverse, e0, hpre, logStep_to_called a0 a _ k hs hk⟩⟩

/-- **bracket, backwards.** Every `call k` is immediately preceded by `start k`; every `ok k` and
`fail k` by `call k` (so by `start k`, `call k`). -/
theorem logWf_call_preceded (pre rest : List Ev) (e : Ev) (k : LogKey)
    (h : logWf (pre ++ e :: rest) = true) (he : e.cls = .call k) :
    ∃ pre' e0, pre = pre' ++ [e0] ∧ e0.cls = .start k := by
  obtain ⟨a, af, h1, h2, _⟩ := logWf_split pre (e :: rest) h
  obtain ⟨a1, hs1, _⟩ := logRun_cons_some a af e rest h2
  rw [he, logStep_call_some] at hs1
  exact (logRun_last pre a h1).1 k hs1.1

theorem logWf_end_preceded (pre rest : List Ev) (e : Ev) (k : LogKey)
    (h : logWf (pre ++ e :: rest) = true) (he : e.cls = .ok k ∨ e.cls = .fail k) :
    ∃ pre' e0 e1, pre = pre' ++ [e0, e1] ∧ e0.cls = .start k ∧ e1.cls = .call k := by
  obtain ⟨a, af, h1, h2, _⟩ := logWf_split pre (e :: rest) h
  obtain ⟨a1, hs1, _⟩ := logRun_cons_some a af e rest h2
  have hp : a.phase = .called k := by
    rcases he with he | he
    · rw [he, logStep_ok_some] at hs1; exact hs1.1
    · rw [he, logStep_fail_some] at hs1; exact hs1.1
  obtain ⟨pre1, e1, hpre, hc⟩ := (logRun_last pre a h1).2 k hp
  have h' : logWf (pre1 ++ e1 :: (e :: rest)) = true := by
    rw [hpre] at h; simpa using h
  obtain ⟨pre0, e0, hpre0, hc0⟩ := logWf_call_preceded pre1 (e :: rest) e1 k h' hc
  exact ⟨pre0, e0, e1, by rw [hpre, hpre0]; simp, hc0, hc⟩

/-- **`already` only after success.** -/
theorem logWf_already_after_ok (pre rest : List Ev) (e : Ev) (k : LogKey)
    (h : logWf (pre ++ e :: rest) = true) (he : e.cls = .already k) :
    ∃ e' ∈ pre, e'.cls = .ok k := by
  obtain ⟨a, af, h1, h2, _⟩ := logWf_split pre (e :: rest) h
  obtain ⟨a1, hs1, _⟩ := logRun_cons_some a af e rest h2
  rw [he, logStep_already_some] at hs1
  exact (logRun_done_iff pre a h1 k).mp hs1.2.1

/-- **no work after success.** A `start k` never follows an `ok k`. -/
theorem logWf_start_not_after_ok (pre rest : List Ev) (e : Ev) (k : LogKey)
    (h : logWf (pre ++ e :: rest) = true) (he : e.cls = .start k) :
    ∀ e' ∈ pre, e'.cls ≠ .ok k := by
  obtain ⟨a, af, h1, h2, _⟩ := logWf_split pre (e :: rest) h
  obtain ⟨a1, hs1, _⟩ := logRun_cons_some a af e rest h2
  rw [he, logStep_start_some] at hs1
  intro e' hm hc
  exact hs1.2.1 ((logRun_done_iff pre a h1 k).mpr ⟨e', hm, hc⟩)

/-- **analyse at most once.** -/
theorem logWf_analyse_once (pre rest : List Ev) (e : Ev) (s : RemoteSrc) (f : FinderId)
    (h : logWf (pre ++ e :: rest) = true) (he : e.cls = .analyse s f) :
    ∀ e' ∈ pre, e'.cls ≠ .analyse s f := by
  obtain ⟨a, af, h1, h2, _⟩ := logWf_split pre (e :: rest) h
  obtain ⟨a1, hs1, _⟩ := logRun_cons_some a af e rest h2
  rw [he, logStep_analyse_some] at hs1
  intro e' hm hc
  rw [logRun_eq_logScan] at h1
  have c := (logScan_counts _ a h1).analyse s f
  rw [cnt_reverse] at c
  have : 0 < cnt (.analyse s f) pre := (cnt_pos_iff _ _).mpr ⟨e', hm, hc⟩
  rw [c] at this
  simp [hs1.2.1] at this

/-! ## `Ev` ↔ role -/

/-- the role determines the event (except for trace notes) -/
theorem Ev.cls_inj (e e' : Ev) (h : e.cls = e'.cls) (hn : e.cls ≠ .note) : e = e' := by
  cases e <;> cases e' <;> simp [Ev.cls] at h hn ⊢ <;> exact h

theorem count_eq_cnt (e : Ev) (l : List Ev) (hn : e.cls ≠ .note) : l.count e = cnt e.cls l := by
  unfold cnt List.count
  apply List.countP_congr
  intro x _
  simp only [beq_iff_eq, decide_eq_true_eq]
  exact ⟨fun h => by rw [h], fun h => Ev.cls_inj x e h (by rw [h]; exact hn)⟩

/-! ## diagnostics -/

/-- the diagnostic for a relative dependency that leaves its package -/
def escapeDiag (base : RemoteSrc) : Diag :=
  { isError := true, kind := 2, summary := [], file := [], rewritten := false, pkg := base.pkg }

/-- one per relative dependency of `decls` that escapes `base`, in order -/
def escapeDiags (base : RemoteSrc) (decls : List Decl) : List Diag :=
  decls.filterMap fun d =>
    match d with
    | .loc rel _ =>
      match joinSubPath base.sub rel with
      | some _ => none
      | none => some (escapeDiag base)
    | _ => none

theorem applyDecls_diags (base : RemoteSrc) (decls : List Decl) (st : BState) (ds : List Diag) :
    (applyDecls base decls st ds).2 = ds ++ escapeDiags base decls := by
  induction decls generalizing st ds with
  | nil => simp [applyDecls, escapeDiags]
  | cons d r ih =>
    cases d with
    | remote src f => simp only [applyDecls, ih]; simp [escapeDiags]
    | registry src allowed f => simp only [applyDecls, ih]; simp [escapeDiags]
    | loc rel f =>
      simp only [applyDecls]
      cases hj : joinSubPath base.sub rel with
      | some sub => simp only [ih]; simp [escapeDiags, hj]
      | none => simp only [ih]; simp [escapeDiags, hj, escapeDiag]
    | diag e s f => simp only [applyDecls, ih]; simp [escapeDiags]

/-- the wrapped form of one finder diagnostic -/
def finderDiagOf (pkg : PkgAddr) (isErr : Bool) (summary file : Str) : Diag :=
  match normalizeSubpath file with
  | some n => { isError := isErr, kind := 3, summary := summary, file := n, rewritten := true, pkg := pkg }
  | none => { isError := isErr, kind := 3, summary := summary, file := file, rewritten := false, pkg := pkg }

theorem finderDiags_eq (pkg : PkgAddr) (decls : List Decl) :
    finderDiags pkg decls = decls.filterMap fun d =>
      match d with
      | .diag e s f => some (finderDiagOf pkg e s f)
      | _ => none := by
  unfold finderDiags
  congr 1
  funext d
  cases d with
  | diag e s f => simp only [finderDiagOf]; cases normalizeSubpath f <;> rfl
  | _ => rfl

/-- the loop never drops a diagnostic: the result extends what was passed in -/
theorem drain_diags_prefix (w : World) (fuel : Nat) (ph : Bool) (st : BState) (ds : List Diag)
    (st' : BState) (ds' : List Diag) (hd : drain w fuel ph st ds = .done st' ds') :
    ∃ extra, ds' = ds ++ extra := by
  induction fuel generalizing ph st ds with
  | zero => simp [drain] at hd
  | succ fuel ih =>
    cases ph with
    | false =>
      simp only [drain] at hd
      split at hd
      · exact ih _ _ _ hd
      · split at hd
        · obtain ⟨x, hx⟩ := ih _ _ _ hd
          exact ⟨_, by rw [hx, List.append_assoc]⟩
        · exact ih _ _ _ hd
    | true =>
      simp only [drain] at hd
      split at hd
      · split at hd
        · cases hd; exact ⟨[], by simp⟩
        · exact ih _ _ _ hd
      · split at hd
        · obtain ⟨x, hx⟩ := ih _ _ _ hd
          exact ⟨_, by rw [hx, List.append_assoc]⟩
        · split at hd
          · exact ih _ _ _ hd
          · obtain ⟨x, hx⟩ := ih _ _ _ hd
            rw [applyDecls_diags] at hx
            exact ⟨_, by rw [hx, List.append_assoc, List.append_assoc]⟩

theorem hasErrors_appendL (a b : List Diag) : hasErrors (a ++ b) = (hasErrors a || hasErrors b) := by
  simp [hasErrors]

/-! ## cache coherence -/

/-- cache coherence: what the builder remembers is what the world answers -/
def CacheOK (w : World) (st : BState) : Prop :=
  (∀ r vs, assoc st.regVersions r = some vs → assoc w.versions r = some (some vs)) ∧
  (∀ k real, assoc st.resolved k = some real → assoc w.sources k = some (some real))

theorem cacheOK_init (w : World) : CacheOK w BState.init :=
  ⟨fun _ _ h => by simp [BState.init, assoc_nil] at h, fun _ _ h => by simp [BState.init, assoc_nil] at h⟩

/-- `CacheOK` survives every elementary transition of the builder -/
theorem cacheOK_stepInv (w : World) : StepInv w (CacheOK w) where
  memo := by
    intro st st' hm h
    unfold CacheOK
    rw [hm.regVersions, hm.resolved]
    exact h
  versions := by
    intro st pkg h
    unfold frsVersions
    split
    · exact h
    · split
      · next vs hw =>
        refine ⟨?_, h.2⟩
        intro r vs' hr
        simp only [assoc_consL] at hr
        split at hr
        · next e => cases hr; rw [← e]; exact hw
        · exact h.1 r vs' hr
      · exact h
  source := by
    intro st pkg vs sel h
    unfold frsSource
    split
    · exact h
    · split
      · next real hw =>
        refine ⟨h.1, ?_⟩
        intro k real' hr
        simp only [assoc_consL] at hr
        split at hr
        · next e => cases hr; rw [← e]; exact hw
        · exact h.2 k real' hr
      · exact h
  ensure := by
    intro st pkg h
    unfold ensurePackage
    split
    · exact h
    · split
      · exact h
      · exact h
  analyse := fun _ _ _ h _ => h
  trace := fun _ _ h => h

/-- the two stages under cache coherence -/
theorem frsVersions_some (w : World) (st st1 : BState) (pkg : RegPkg) (vs : List VerInfo)
    (hc : CacheOK w st) (h : frsVersions w st pkg = (st1, some vs)) :
    assoc w.versions pkg = some (some vs) ∧ st1.resolved = st.resolved := by
  unfold frsVersions at h
  split at h
  · next vs' hv => cases h; exact ⟨hc.1 _ _ hv, rfl⟩
  · split at h
    · next vs' hw => cases h; exact ⟨hw, rfl⟩
    · cases h

theorem frsSource_some (w : World) (st1 st2 : BState) (pkg : RegPkg) (vs : List VerInfo)
    (sel : VerInfo) (real : RemoteSrc)
    (hc : CacheOK w st1) (h : frsSource w st1 pkg vs sel = (st2, some real)) :
    assoc w.sources (pkg, sel.ver) = some (some real) := by
  unfold frsSource at h
  split at h
  · next real' hv => cases h; exact hc.2 _ _ hv
  · split at h
    · next real' hw => cases h; exact hw
    · cases h

/-! ## consequences of `LogOK` -/

/-- counts for one key, in a state satisfying the invariant: as many `start` as `call`; every
`call` ended by `ok` or `fail`; at most one `ok`, and one exactly when the key is in its memo
table -/
theorem LogOK.key_counts {st : BState} (h : LogOK st) (k : LogKey) :
    cnt (.start k) st.log = cnt (.call k) st.log ∧
    cnt (.call k) st.log = cnt (.ok k) st.log + cnt (.fail k) st.log ∧
    cnt (.ok k) st.log ≤ 1 ∧
    (0 < cnt (.ok k) st.log ↔ inTables st k) ∧
    (0 < cnt (.already k) st.log → inTables st k) := by
  obtain ⟨a, h1, h2, h3, _⟩ := h
  have c := logScan_counts _ a h1
  have cs := c.start k
  have cc := c.call k
  have co := c.ok k
  rw [h2] at cs cc
  simp only [reduceCtorEq, if_false, Nat.add_zero] at cs cc
  refine ⟨cs, cc, ?_, ?_, fun hp => (h3 k).mp (c.already k hp)⟩
  · rw [co]; split <;> omega
  · rw [co]
    by_cases hk : k ∈ a.done
    · simp [hk, (h3 k).mp hk]
    · simp only [hk, if_false, Nat.lt_irrefl, false_iff]
      exact fun h => hk ((h3 k).mpr h)

theorem LogOK.analyse_count {st : BState} (h : LogOK st) (s : RemoteSrc) (f : FinderId) :
    st.log.count (.analyse s f) = if (s, f) ∈ st.analyzed then 1 else 0 := by
  obtain ⟨a, h1, _, _, h4⟩ := h
  rw [count_eq_cnt _ _ (by simp [Ev.cls]), ← h4]
  exact (logScan_counts _ a h1).analyse s f

theorem Ev.cls_eq_iff (e e' : Ev) (hn : e'.cls ≠ .note) : e.cls = e'.cls ↔ e = e' :=
  ⟨fun h => Ev.cls_inj e e' h (by rw [h]; exact hn), fun h => by rw [h]⟩

/-! ## `runOps`, results -/

theorem runOps_append (w : World) (fuel : Nat) (st : BState) (a b : List Op) :
    runOps w fuel st (a ++ b) =
      ((runOps w fuel (runOps w fuel st a).1 b).1,
       (runOps w fuel st a).2 ++ (runOps w fuel (runOps w fuel st a).1 b).2) := by
  induction a generalizing st with
  | nil => simp [runOps]
  | cons op r ih => simp only [List.cons_append, runOps, ih, List.cons_append]

/-- what the caller sees of a result -/
def OpResult.diagsOf : OpResult → Option (List Diag)
  | .diags ds => some ds
  | _ => none

def OpResult.isRefused : OpResult → Bool
  | .refused => true
  | _ => false

/-! ## a small concrete world for the non-vacuity examples -/

def exPkgA : PkgAddr := "A".toList
def exPkgB : PkgAddr := "B".toList
def exReg : RegPkg := "R".toList

/-- two remote packages `A`, `B`; one registry package `R` listed in shuffled order (one entry
deprecated).  The root of `A` needs `B//sub`, the registry module `R` (1.0.0 or 1.1.0) and a local
child, and its finder emits a warning; `B//sub` needs the root of `A` again (a cycle);
`R` 1.1.0 lives in `B//modules/x`, which needs `B//other`; `B//deep` has a dependency that escapes
the package. -/
def exWorldL : World where
  fetch := [(exPkgA, some ("cA".toList, none)),
            (exPkgB, some ("cB".toList, some ("b".toList, "1".toList)))]
  versions := [(exReg, some [⟨"1.1.0".toList, 1, some ("old".toList, "http://x".toList)⟩,
                             ⟨"2.0.0".toList, 2, none⟩, ⟨"1.0.0".toList, 0, none⟩])]
  sources := [((exReg, "1.1.0".toList), some ⟨exPkgB, "modules/x".toList⟩),
              ((exReg, "2.0.0".toList), some ⟨exPkgB, []⟩)]
  deps := [(("cA".toList, [], 0),
             [.remote ⟨exPkgB, "sub".toList⟩ 0,
              .registry ⟨exReg, []⟩ ["1.0.0".toList, "1.1.0".toList] 0,
              .loc "./child".toList 0,
              .diag false "careful".toList "main.tf".toList]),
           (("cB".toList, "sub".toList, 0), [.remote ⟨exPkgA, []⟩ 0]),
           (("cB".toList, "modules/x".toList, 0), [.loc "../../other".toList 0]),
           (("cB".toList, "deep".toList, 0), [.loc "../..".toList 0])]

/-- a successful add, then a registry request no offered version satisfies, then one more add -/
def exOpsL : List Op :=
  [.addRemote ⟨exPkgA, []⟩ 0,
   .addRegistry ⟨exReg, []⟩ ["3.0.0".toList] 0,
   .addRemote ⟨exPkgB, []⟩ 0]

end Slug
