import SlugModel.Builder
/-!
# Lemmas/BuilderLog — helper lemmas about the builder model

* `assoc` facts, `selectVersion` as a fold (`selStep`), frame facts for `applyDecls`;
* the *bracket automaton* over the call log (`Phase`, `AState`, `step`, `runFrom`, `wf`, `scan`)
  and the invariant `LogOK` that ties the log to the memo tables of a `BState`;
* preservation of `LogOK` by every transition of the model.
-/
namespace Slug

/-! ## `assoc` -/

theorem assoc_nil {α β : Type} [DecidableEq α] (k : α) : assoc ([] : List (α × β)) k = none := rfl

theorem assoc_cons {α β : Type} [DecidableEq α] (a : α) (b : β) (l : List (α × β)) (k : α) :
    assoc ((a, b) :: l) k = if a = k then some b else assoc l k := rfl

theorem assoc_cons_self {α β : Type} [DecidableEq α] (a : α) (b : β) (l : List (α × β)) :
    assoc ((a, b) :: l) a = some b := by simp [assoc_cons]

theorem assoc_eq_none_iff {α β : Type} [DecidableEq α] (l : List (α × β)) (k : α) :
    assoc l k = none ↔ k ∉ l.map Prod.fst := by
  induction l with
  | nil => simp [assoc_nil]
  | cons x r ih =>
    obtain ⟨a, b⟩ := x
    rw [assoc_cons]
    by_cases h : a = k
    · simp [h]
    · simp only [h, if_false, ih, List.map_cons, List.mem_cons, not_or]
      exact ⟨fun h' => ⟨fun e => h e.symm, h'⟩, fun h' => h'.2⟩

theorem assoc_some_mem_keys {α β : Type} [DecidableEq α] (l : List (α × β)) (k : α) (b : β)
    (h : assoc l k = some b) : k ∈ l.map Prod.fst := by
  apply Classical.byContradiction
  intro hn
  rw [(assoc_eq_none_iff l k).mpr hn] at h
  cases h

/-! ## `selectVersion` as a fold -/

/-- one step of `selectVersion` -/
def selStep (allowed : List VerS) (best : Option VerInfo) (v : VerInfo) : Option VerInfo :=
  if allowed.contains v.ver then
    match best with
    | none => some v
    | some b => if b.rank < v.rank then some v else some b
  else best

theorem selectVersion_eq_foldl (offered : List VerInfo) (allowed : List VerS) :
    selectVersion offered allowed = offered.foldl (selStep allowed) none := rfl

theorem selStep_none (allowed : List VerS) (x : VerInfo) (hx : allowed.contains x.ver = true) :
    selStep allowed none x = some x := by
  unfold selStep; rw [if_pos hx]

theorem selStep_lt (allowed : List VerS) (b x : VerInfo) (hx : allowed.contains x.ver = true)
    (hlt : b.rank < x.rank) : selStep allowed (some b) x = some x := by
  unfold selStep; rw [if_pos hx]; simp only [if_pos hlt]

theorem selStep_nlt (allowed : List VerS) (b x : VerInfo) (hx : allowed.contains x.ver = true)
    (hlt : ¬ b.rank < x.rank) : selStep allowed (some b) x = some b := by
  unfold selStep; rw [if_pos hx]; simp only [if_neg hlt]

theorem selStep_skip (allowed : List VerS) (best : Option VerInfo) (x : VerInfo)
    (hx : ¬ allowed.contains x.ver = true) : selStep allowed best x = best := by
  unfold selStep; rw [if_neg hx]

/-- what the fold returns, for an arbitrary starting value -/
theorem selFold_some (allowed : List VerS) (l : List VerInfo) (best : Option VerInfo) (v : VerInfo)
    (h : l.foldl (selStep allowed) best = some v) :
    (best = some v ∨ (v ∈ l ∧ allowed.contains v.ver = true)) ∧
    (∀ b, best = some b → b.rank ≤ v.rank) ∧
    (∀ u ∈ l, allowed.contains u.ver = true → u.rank ≤ v.rank) := by
  induction l generalizing best with
  | nil =>
    simp only [List.foldl_nil] at h
    subst h
    refine ⟨Or.inl rfl, ?_, ?_⟩
    · intro b hb; cases hb; exact Nat.le_refl _
    · intro u hu; cases hu
  | cons x r ih =>
    simp only [List.foldl_cons] at h
    obtain ⟨h1, h2, h3⟩ := ih _ h
    by_cases hx : allowed.contains x.ver = true
    · cases best with
      | none =>
        have e := selStep_none allowed x hx
        rw [e] at h1 h2
        refine ⟨Or.inr ?_, ?_, ?_⟩
        · rcases h1 with h1 | h1
          · cases h1; exact ⟨List.mem_cons_self, hx⟩
          · exact ⟨List.mem_cons_of_mem _ h1.1, h1.2⟩
        · intro b hb; cases hb
        · intro u hu hau
          rcases List.mem_cons.mp hu with rfl | hu
          · exact h2 _ rfl
          · exact h3 u hu hau
      | some b =>
        by_cases hlt : b.rank < x.rank
        · have e := selStep_lt allowed b x hx hlt
          rw [e] at h1 h2
          refine ⟨Or.inr ?_, ?_, ?_⟩
          · rcases h1 with h1 | h1
            · cases h1; exact ⟨List.mem_cons_self, hx⟩
            · exact ⟨List.mem_cons_of_mem _ h1.1, h1.2⟩
          · intro b' hb'; cases hb'
            exact Nat.le_trans (Nat.le_of_lt hlt) (h2 _ rfl)
          · intro u hu hau
            rcases List.mem_cons.mp hu with rfl | hu
            · exact h2 _ rfl
            · exact h3 u hu hau
        · have e := selStep_nlt allowed b x hx hlt
          rw [e] at h1 h2
          refine ⟨?_, ?_, ?_⟩
          · rcases h1 with h1 | h1
            · exact Or.inl h1
            · exact Or.inr ⟨List.mem_cons_of_mem _ h1.1, h1.2⟩
          · intro b' hb'; cases hb'; exact h2 _ rfl
          · intro u hu hau
            rcases List.mem_cons.mp hu with rfl | hu
            · exact Nat.le_trans (Nat.le_of_not_lt hlt) (h2 _ rfl)
            · exact h3 u hu hau
    · have e := selStep_skip allowed best x hx
      rw [e] at h1 h2
      refine ⟨?_, h2, ?_⟩
      · rcases h1 with h1 | h1
        · exact Or.inl h1
        · exact Or.inr ⟨List.mem_cons_of_mem _ h1.1, h1.2⟩
      · intro u hu hau
        rcases List.mem_cons.mp hu with rfl | hu
        · exact absurd hau hx
        · exact h3 u hu hau

theorem selFold_none (allowed : List VerS) (l : List VerInfo) (best : Option VerInfo) :
    l.foldl (selStep allowed) best = none ↔
      best = none ∧ ∀ u ∈ l, allowed.contains u.ver = false := by
  induction l generalizing best with
  | nil => simp
  | cons x r ih =>
    simp only [List.foldl_cons, ih, List.mem_cons, forall_eq_or_imp]
    by_cases hx : allowed.contains x.ver = true
    · constructor
      · intro ⟨h, _⟩
        cases best with
        | none => rw [selStep_none allowed x hx] at h; cases h
        | some b =>
          by_cases hlt : b.rank < x.rank
          · rw [selStep_lt allowed b x hx hlt] at h; cases h
          · rw [selStep_nlt allowed b x hx hlt] at h; cases h
      · intro ⟨_, h, _⟩
        rw [h] at hx; cases hx
    · have e := selStep_skip allowed best x hx
      rw [e]
      have hx' : allowed.contains x.ver = false := by simpa using hx
      exact ⟨fun ⟨a, b⟩ => ⟨a, hx', b⟩, fun ⟨a, _, b⟩ => ⟨a, b⟩⟩

/-! ## `findRegistrySource` in two named stages -/

/-- first stage of `findRegistrySource`: the version listing (cached per registry package) -/
def frsVersions (w : World) (st : BState) (pkg : RegPkg) : BState × Option (List VerInfo) :=
  match assoc st.regVersions pkg with
  | some vs => ({ st with log := .versAlready pkg :: st.log }, some vs)
  | none =>
    match assoc w.versions pkg with
    | some (some vs) =>
      ({ st with regVersions := (pkg, vs) :: st.regVersions,
                 log := .versOk pkg :: .versCall pkg :: .versStart pkg :: st.log }, some vs)
    | _ =>
      ({ st with log := .versFail pkg :: .versCall pkg :: .versStart pkg :: st.log }, none)

/-- the deprecation `findRegistrySource` records for a freshly resolved version -/
def frsDeprecation (vs : List VerInfo) (sel : VerInfo) : Option (Str × Str) :=
  match vs.find? (fun v => v.rank = sel.rank) with
  | some v => v.deprecation
  | none => none

/-- second stage of `findRegistrySource`: the real source of the selected version (cached) -/
def frsSource (w : World) (st1 : BState) (pkg : RegPkg) (vs : List VerInfo) (sel : VerInfo) :
    BState × Option RemoteSrc :=
  match assoc st1.resolved (pkg, sel.ver) with
  | some real => ({ st1 with log := .srcAlready pkg sel.ver :: st1.log }, some real)
  | none =>
    match assoc w.sources (pkg, sel.ver) with
    | some (some real) =>
      ({ st1 with resolved := ((pkg, sel.ver), real) :: st1.resolved,
                  deprec := ((pkg, sel.ver), frsDeprecation vs sel) :: st1.deprec,
                  log := .srcOk pkg sel.ver :: .srcCall pkg sel.ver :: .srcStart pkg sel.ver :: st1.log },
       some real)
    | _ =>
      ({ st1 with log := .srcFail pkg sel.ver :: .srcCall pkg sel.ver :: .srcStart pkg sel.ver :: st1.log }, none)

/-- `findRegistrySource` is the composition of its two stages (definitional) -/
theorem findRegistrySource_eq (w : World) (st : BState) (src : RegSrc) (allowed : List VerS) :
    findRegistrySource w st src allowed =
      match frsVersions w st src.pkg with
      | (st1, none) => (st1, none)
      | (st1, some vs) =>
        match selectVersion vs allowed with
        | none => (st1, none)
        | some sel =>
          match frsSource w st1 src.pkg vs sel with
          | (st2, none) => (st2, none)
          | (st2, some real) => (st2, some { pkg := real.pkg, sub := finalSourceSub src.sub real.sub }) :=
  rfl

end Slug
