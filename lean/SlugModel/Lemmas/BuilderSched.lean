import SlugModel.Lemmas.BuilderClosure
/-!
# Lemmas/BuilderSched — concurrent `Add*` calls on one builder as schedules of atomic actions

`AddRemoteSource` / `AddRegistrySource` consist of two critical sections under `b.mu`:
the locked append to a pending queue (`enq`) and the whole of `resolvePending` (`drn`).
With several goroutines calling `Add*` on one builder an execution is therefore an interleaving
of the atomic actions `enq i`, `drn i` (one pair per call `i`) in which `enq i` precedes `drn i`.

* `schedEnq`, `schedDrn`: the two critical sections; `applyOp` is the one followed by the other.
* `Act`, `ValidSched`, `runSched`: schedules and their execution from the empty builder.
* `SchedInv`: soundness (`SInv`) and completeness (`CInv`, for the calls enqueued so far) hold
  after every prefix of a valid schedule whose drains came back without errors; at the end all
  calls are enqueued and both queues are empty, so the final state is `Good`.

Where the panic sits.  The real code checks `b.targetDir == ""` (the poison mark) at the top of
`Add*`, before the first critical section; `resolvePending` itself has no such check.  So a call
is refused when the builder is poisoned at the time it enqueues (it then neither enqueues nor
drains), while a drain always runs, and the poison mark is sticky.  (The model makes the check
part of the `enq` action; in the source it is a read of `b.targetDir` just before the lock is
taken.)  On runs without error diagnostics — the only ones the interleaving theorems speak
about — the mark is never set, so none of this matters there; `runOps` never drains a poisoned
builder, so `C13_sequential_is_schedule` does not depend on it either.
-/
namespace Slug

/-! ## 1. the two critical sections -/

/-- the call returns early without touching the queues (`AddRemoteSource` of an artefact that is
already analysed) -/
def schedEarly (st : BState) : Op → Bool
  | .addRemote src f => st.analyzed.contains (src, f)
  | .addRegistry _ _ _ => false

/-- the locked append of `Add*` -/
def schedEnq (st : BState) : Op → BState
  | .addRemote src f =>
    if st.analyzed.contains (src, f) then st
    else { st with pendingRemote := st.pendingRemote ++ [(src, f)] }
  | .addRegistry src allowed f =>
    { st with pendingRegistry := st.pendingRegistry ++ [(src, allowed, f)] }

/-- one `resolvePending`: drain both queues, then poison the builder if any error diagnostic was
produced (the mark is sticky) -/
def schedDrn (w : World) (fuel : Nat) (st : BState) : BState × OpResult :=
  match drain w fuel false st [] with
  | .diverged => (st, .diverged)
  | .done st2 ds => ({ st2 with poisoned := st.poisoned || hasErrors ds }, .diags ds)

theorem schedEnq_early {st : BState} {op : Op} (h : schedEarly st op = true) :
    schedEnq st op = st := by
  cases op with
  | addRemote src f =>
    simp only [schedEarly] at h
    show (if st.analyzed.contains (src, f) = true then st else _) = st
    rw [if_pos h]
  | addRegistry rs al f => simp [schedEarly] at h

@[simp] theorem schedEnq_poisoned (st : BState) (op : Op) :
    (schedEnq st op).poisoned = st.poisoned := by
  cases op with
  | addRemote src f => simp only [schedEnq]; split <;> rfl
  | addRegistry rs al f => rfl

/-- **`applyOp` is `enq` followed by `drn`** (on a builder that is not poisoned; a call that
returns early does not drain). -/
theorem applyOp_eq_sched (w : World) (fuel : Nat) (st : BState) (op : Op)
    (hp : st.poisoned = false) :
    applyOp w fuel st op =
      if schedEarly st op then (st, .diags []) else schedDrn w fuel (schedEnq st op) := by
  unfold applyOp
  have hp' : ¬ st.poisoned = true := by simp [hp]
  rw [if_neg hp']
  cases op with
  | addRemote src f =>
    by_cases ha : st.analyzed.contains (src, f) = true
    · simp only [ha, if_true, schedEarly]
    · simp only [ha, schedEarly, schedEnq, schedDrn, hp, Bool.false_or, Bool.false_eq_true, if_false]
      generalize drain w fuel false _ [] = o
      cases o <;> rfl
  | addRegistry rs al f =>
    simp only [schedEarly, schedEnq, schedDrn, hp, Bool.false_or, Bool.false_eq_true, if_false]
    generalize drain w fuel false _ [] = o
    cases o <;> rfl

/-- the form asked for: whenever the call does enqueue -/
theorem applyOp_eq_schedDrn (w : World) (fuel : Nat) (st : BState) (op : Op)
    (hp : st.poisoned = false) (he : schedEarly st op = false) :
    applyOp w fuel st op = schedDrn w fuel (schedEnq st op) := by
  rw [applyOp_eq_sched w fuel st op hp, he]; rfl

/-- a drain that finds both queues empty changes nothing and reports nothing (two units of fuel:
one look at each queue) -/
theorem schedDrn_idle (w : World) (fuel : Nat) (st : BState) (hr : st.pendingRemote = [])
    (hg : st.pendingRegistry = []) : schedDrn w (fuel + 2) st = (st, .diags []) := by
  cases st
  simp only at hr hg
  subst hr hg
  simp [schedDrn, drain, hasErrors]

/-- so between calls (both queues empty) `applyOp` is `enq` followed by `drn` in every case, the
early return included -/
theorem applyOp_eq_schedDrn_idle (w : World) (fuel : Nat) (st : BState) (op : Op)
    (hp : st.poisoned = false) (hr : st.pendingRemote = []) (hg : st.pendingRegistry = []) :
    applyOp w (fuel + 2) st op = schedDrn w (fuel + 2) (schedEnq st op) := by
  rw [applyOp_eq_sched w _ st op hp]
  by_cases he : schedEarly st op = true
  · rw [if_pos he, schedEnq_early he, schedDrn_idle w fuel st hr hg]
  · rw [if_neg he]

/-! ## 2. schedules -/

/-- the atomic actions of call number `i` -/
inductive Act
  | enq (i : Nat)
  | drn (i : Nat)
  deriving DecidableEq, Repr

def Act.isEnq : Act → Bool
  | .enq _ => true
  | .drn _ => false

def Act.isDrn : Act → Bool
  | .enq _ => false
  | .drn _ => true

/-- `[enq k, drn k, enq (k+1), drn (k+1), …]`, `m` calls -/
def seqSchedFrom (k : Nat) : Nat → List Act
  | 0 => []
  | m + 1 => .enq k :: .drn k :: seqSchedFrom (k + 1) m

/-- the sequential schedule of `n` calls: `[enq 0, drn 0, …, enq (n-1), drn (n-1)]` -/
def seqSched (n : Nat) : List Act := seqSchedFrom 0 n

/-- **Valid schedules** of `n` calls: a rearrangement of the sequential schedule (so every
`enq i` and `drn i` with `i < n` occurs exactly once and nothing else occurs) in which every call
still enqueues before it drains. -/
def ValidSched (n : Nat) (s : List Act) : Prop :=
  s.Perm (seqSched n) ∧ ∀ i, i < n → s.idxOf (.enq i) < s.idxOf (.drn i)

instance (n : Nat) (s : List Act) : Decidable (ValidSched n s) := by
  unfold ValidSched; infer_instance

/-- what a call did when it enqueued -/
inductive SchedStatus
  | refused     -- the builder was poisoned: the real code panics
  | early       -- already analysed: returns without enqueueing or draining
  | queued
  deriving DecidableEq, Repr

/-- the builder together with what each call that has started did -/
structure SchedSt where
  st : BState
  stat : List (Nat × SchedStatus)

/-- one atomic action; a `drn` yields what the call returns -/
def schedStep (w : World) (fuel : Nat) (ops : List Op) (σ : SchedSt) :
    Act → SchedSt × Option OpResult
  | .enq i =>
    match ops[i]? with
    | none => (σ, none)
    | some op =>
      if σ.st.poisoned then ({ σ with stat := (i, .refused) :: σ.stat }, none)
      else
        ({ st := schedEnq σ.st op,
           stat := (i, if schedEarly σ.st op then .early else .queued) :: σ.stat }, none)
  | .drn i =>
    match assoc σ.stat i with
    | some .queued => ({ σ with st := (schedDrn w fuel σ.st).1 }, some (schedDrn w fuel σ.st).2)
    | some .early => (σ, some (.diags []))
    | some .refused => (σ, some .refused)
    | none => (σ, none)      -- a drain of a call that has not started: not in a valid schedule

def runSchedFrom (w : World) (fuel : Nat) (ops : List Op) :
    SchedSt → List Act → SchedSt × List OpResult
  | σ, [] => (σ, [])
  | σ, a :: r =>
    let step := schedStep w fuel ops σ a
    let rest := runSchedFrom w fuel ops step.1 r
    (rest.1, match step.2 with
      | some x => x :: rest.2
      | none => rest.2)

/-- run a schedule from the empty builder: the final state and what the calls returned, in the
order in which they returned -/
def runSched (w : World) (fuel : Nat) (ops : List Op) (s : List Act) : BState × List OpResult :=
  ((runSchedFrom w fuel ops ⟨BState.init, []⟩ s).1.st, (runSchedFrom w fuel ops ⟨BState.init, []⟩ s).2)

/-! ## 3. the sequential run is the run of the sequential schedule -/

theorem schedStep_enq_none (w : World) (fuel : Nat) (ops : List Op) (σ : SchedSt) (i : Nat) :
    (schedStep w fuel ops σ (.enq i)).2 = none := by
  simp only [schedStep]
  split
  · rfl
  · split <;> rfl

/-- `enq i` immediately followed by `drn i` is `applyOp` -/
theorem schedStep_pair (w : World) (fuel : Nat) (ops : List Op) (σ : SchedSt) (i : Nat) (op : Op)
    (hop : ops[i]? = some op) :
    (schedStep w fuel ops (schedStep w fuel ops σ (.enq i)).1 (.drn i)).1.st =
      (applyOp w fuel σ.st op).1 ∧
    (schedStep w fuel ops (schedStep w fuel ops σ (.enq i)).1 (.drn i)).2 =
      some (applyOp w fuel σ.st op).2 := by
  by_cases hp : σ.st.poisoned = true
  · simp [schedStep, hop, hp, assoc_cons, applyOp]
  · have hp' : σ.st.poisoned = false := by simpa using hp
    rw [applyOp_eq_sched w fuel σ.st op hp']
    by_cases he : schedEarly σ.st op = true
    · simp [schedStep, hop, hp', assoc_cons, he, schedEnq_early he]
    · simp [schedStep, hop, hp', assoc_cons, he]

theorem runSchedFrom_seq (w : World) (fuel : Nat) (ops : List Op) :
    ∀ (r pre : List Op) (σ : SchedSt), ops = pre ++ r →
      (runSchedFrom w fuel ops σ (seqSchedFrom pre.length r.length)).1.st =
        (runOps w fuel σ.st r).1 ∧
      (runSchedFrom w fuel ops σ (seqSchedFrom pre.length r.length)).2 =
        (runOps w fuel σ.st r).2 := by
  intro r
  induction r with
  | nil => intro pre σ _; exact ⟨rfl, rfl⟩
  | cons op r ih =>
    intro pre σ hops
    have hop : ops[pre.length]? = some op := by rw [hops]; simp
    obtain ⟨h1, h2⟩ := schedStep_pair w fuel ops σ pre.length op hop
    have := ih (pre ++ [op])
      (schedStep w fuel ops (schedStep w fuel ops σ (.enq pre.length)).1 (.drn pre.length)).1
      (by rw [hops]; simp)
    simp only [List.length_append, List.length_cons, List.length_nil, Nat.zero_add] at this
    simp only [List.length_cons, seqSchedFrom, runSchedFrom, runOps,
      schedStep_enq_none, h2]
    rw [h1] at this
    exact ⟨this.1, by rw [this.2]⟩

/-! ## 4. what validity gives -/

theorem mem_seqSchedFrom (a : Act) : ∀ (m k : Nat),
    a ∈ seqSchedFrom k m ↔ ∃ i, k ≤ i ∧ i < k + m ∧ (a = .enq i ∨ a = .drn i) := by
  intro m
  induction m with
  | zero =>
    intro k
    constructor
    · intro h; cases h
    · rintro ⟨i, h1, h2, _⟩; omega
  | succ m ih =>
    intro k
    simp only [seqSchedFrom, List.mem_cons, ih]
    constructor
    · rintro (rfl | rfl | ⟨i, h1, h2, h3⟩)
      · exact ⟨k, Nat.le_refl _, by omega, Or.inl rfl⟩
      · exact ⟨k, Nat.le_refl _, by omega, Or.inr rfl⟩
      · exact ⟨i, by omega, by omega, h3⟩
    · rintro ⟨i, h1, h2, h3⟩
      by_cases hik : i = k
      · subst hik
        rcases h3 with rfl | rfl
        · exact Or.inl rfl
        · exact Or.inr (Or.inl rfl)
      · exact Or.inr (Or.inr ⟨i, by omega, by omega, h3⟩)

theorem nodup_seqSchedFrom : ∀ (m k : Nat), (seqSchedFrom k m).Nodup := by
  intro m
  induction m with
  | zero => intro k; exact List.nodup_nil
  | succ m ih =>
    intro k
    simp only [seqSchedFrom, List.nodup_cons, List.mem_cons, mem_seqSchedFrom]
    refine ⟨?_, ?_, ih (k + 1)⟩
    · rintro (h | ⟨i, h1, h2, h3 | h3⟩)
      · cases h
      · cases h3; omega
      · cases h3
    · rintro ⟨i, h1, h2, h3 | h3⟩
      · cases h3
      · cases h3; omega

theorem seqSchedFrom_enq_count : ∀ (m k : Nat),
    ((seqSchedFrom k m).filter Act.isEnq).length = m := by
  intro m
  induction m with
  | zero => intro k; rfl
  | succ m ih => intro k; simp [seqSchedFrom, List.filter_cons, Act.isEnq, ih]

namespace ValidSched
variable {n : Nat} {s : List Act}

theorem nodup (h : ValidSched n s) : s.Nodup := (h.1.nodup_iff).mpr (nodup_seqSchedFrom n 0)

theorem mem_iff (h : ValidSched n s) (a : Act) :
    a ∈ s ↔ ∃ i, i < n ∧ (a = .enq i ∨ a = .drn i) := by
  rw [h.1.mem_iff, seqSched, mem_seqSchedFrom]
  constructor
  · rintro ⟨i, _, h2, h3⟩; exact ⟨i, by omega, h3⟩
  · rintro ⟨i, h2, h3⟩; exact ⟨i, Nat.zero_le _, by omega, h3⟩

theorem enq_count (h : ValidSched n s) : (s.filter Act.isEnq).length = n :=
  (h.1.filter _).length_eq.trans (seqSchedFrom_enq_count n 0)

theorem enq_lt (h : ValidSched n s) {i : Nat} (hm : Act.enq i ∈ s) : i < n := by
  obtain ⟨j, hj, e | e⟩ := (h.mem_iff _).mp hm
  · cases e; exact hj
  · cases e

theorem drn_lt (h : ValidSched n s) {i : Nat} (hm : Act.drn i ∈ s) : i < n := by
  obtain ⟨j, hj, e | e⟩ := (h.mem_iff _).mp hm
  · cases e
  · cases e; exact hj

/-- when call `i` enqueues it has neither enqueued nor drained before -/
theorem enq_split (h : ValidSched n s) {s1 s2 : List Act} {i : Nat}
    (e : s = s1 ++ Act.enq i :: s2) : i < n ∧ Act.enq i ∉ s1 ∧ Act.drn i ∉ s1 := by
  have hi : i < n := h.enq_lt (by rw [e]; simp)
  have hnd := h.nodup
  rw [e, List.nodup_append] at hnd
  have h1 : Act.enq i ∉ s1 := fun hm => hnd.2.2 _ hm _ List.mem_cons_self rfl
  refine ⟨hi, h1, fun hm => ?_⟩
  have ho := h.2 i hi
  rw [e, List.idxOf_append, List.idxOf_append, if_neg h1, if_pos hm, List.idxOf_cons_self] at ho
  have := List.idxOf_lt_length_of_mem hm
  omega

/-- when call `i` drains it has enqueued before, and has not drained before -/
theorem drn_split (h : ValidSched n s) {s1 s2 : List Act} {i : Nat}
    (e : s = s1 ++ Act.drn i :: s2) : i < n ∧ Act.enq i ∈ s1 ∧ Act.drn i ∉ s1 := by
  have hi : i < n := h.drn_lt (by rw [e]; simp)
  have hnd := h.nodup
  rw [e, List.nodup_append] at hnd
  have h1 : Act.drn i ∉ s1 := fun hm => hnd.2.2 _ hm _ List.mem_cons_self rfl
  refine ⟨hi, ?_, h1⟩
  apply Classical.byContradiction
  intro hm
  have ho := h.2 i hi
  rw [e, List.idxOf_append, List.idxOf_append, if_neg h1, if_neg hm, List.idxOf_cons_self] at ho
  omega

end ValidSched

/-! ## 5. the invariant of a schedule run -/

/-- the calls that have enqueued so far -/
def schedStarted (ops : List Op) (stat : List (Nat × SchedStatus)) : List Op :=
  stat.filterMap fun e => ops[e.1]?

/-- what holds after the prefix `s1` of a valid schedule when no drain has reported an error:
soundness, completeness for the calls that have enqueued, and the bookkeeping that empties the
queues at the end. -/
structure SchedInv (w : World) (ops : List Op) (s1 : List Act) (σ : SchedSt) : Prop where
  s : SInv w ops σ.st
  c : CInv w (schedStarted ops σ.stat) σ.st
  ok : σ.st.poisoned = false
  keys : ∀ i, assoc σ.stat i ≠ none ↔ Act.enq i ∈ s1
  nrf : ∀ i, assoc σ.stat i ≠ some .refused
  /-- if anything is pending, some call that enqueued has yet to drain -/
  wait : (σ.st.pendingRemote = [] ∧ σ.st.pendingRegistry = []) ∨
    ∃ i, assoc σ.stat i = some .queued ∧ Act.drn i ∉ s1
  len : σ.st.pendingRemote.length + σ.st.pendingRegistry.length ≤ (s1.filter Act.isEnq).length

theorem SchedInv.init (w : World) (ops : List Op) : SchedInv w ops [] ⟨BState.init, []⟩ where
  s := SInv.init w ops
  c := CInv.init w
  ok := rfl
  keys i := by simp
  nrf i := by simp
  wait := Or.inl ⟨rfl, rfl⟩
  len := by simp [BState.init]

theorem sc_sinv_enq {w : World} {ops : List Op} {st : BState} {op : Op} (h : SInv w ops st)
    (hop : op ∈ ops) : SInv w ops (schedEnq st op) := by
  cases op with
  | addRemote src f =>
    simp only [schedEnq]
    split
    · exact h
    · refine h.setRemote _ (fun a ha' => ?_)
      rcases List.mem_append.mp ha' with ha' | ha'
      · exact h.rem a ha'
      · simp at ha'; subst ha'; exact .start _ _ hop (.remote src f)
  | addRegistry rs al f =>
    refine h.setRegistry _ (fun r hr => ?_)
    rcases List.mem_append.mp hr with hr | hr
    · exact h.reg r hr
    · simp at hr; subst hr; exact .op rs al f hop

theorem sc_cinv_enq {w : World} {P : List Op} {st : BState} {op : Op} (h : CInv w P st) :
    CInv w (op :: P) (schedEnq st op) := by
  cases op with
  | addRemote src f =>
    simp only [schedEnq]
    split
    · rename_i ha
      exact
        { h with
          opsR := fun s g hm => by
            rcases List.mem_cons.mp hm with e | hm
            · cases e; exact Or.inl (by simpa using ha)
            · exact h.opsR s g hm
          opsG := fun rs al g hm => by
            rcases List.mem_cons.mp hm with e | hm
            · cases e
            · exact h.opsG rs al g hm }
    · have g : Grows w st { st with pendingRemote := st.pendingRemote ++ [(src, f)] } :=
        ⟨fun _ h => h, fun _ h => Or.inr (List.mem_append_left _ h), fun _ h => Or.inl h,
          fun _ h => h⟩
      have c0 := h.mono g (fun a ha' hna => absurd ha' hna) (fun a ha' hna => absurd ha' hna)
      exact
        { c0 with
          opsR := fun s g hm => by
            rcases List.mem_cons.mp hm with e | hm
            · cases e; exact Or.inr (by simp)
            · exact c0.opsR s g hm
          opsG := fun rs al g hm => by
            rcases List.mem_cons.mp hm with e | hm
            · cases e
            · exact c0.opsG rs al g hm }
  | addRegistry rs al f =>
    have g : Grows w st { st with pendingRegistry := st.pendingRegistry ++ [(rs, al, f)] } :=
      ⟨fun _ h => h, fun _ h => Or.inr h, fun _ h => Or.inl (List.mem_append_left _ h),
        fun _ h => h⟩
    have c0 := h.mono g (fun a ha' hna => absurd ha' hna) (fun a ha' hna => absurd ha' hna)
    exact
      { c0 with
        opsR := fun s g hm => by
          rcases List.mem_cons.mp hm with e | hm
          · cases e
          · exact c0.opsR s g hm
        opsG := fun rs' al' g hm => by
          rcases List.mem_cons.mp hm with e | hm
          · cases e
            exact Or.inl (show _ ∈ st.pendingRegistry ++ [_] from
              List.mem_append_right _ List.mem_cons_self)
          · exact c0.opsG rs' al' g hm }

theorem sc_enq_len (st : BState) (op : Op) :
    (schedEnq st op).pendingRemote.length + (schedEnq st op).pendingRegistry.length ≤
      st.pendingRemote.length + st.pendingRegistry.length + 1 := by
  cases op with
  | addRemote src f =>
    simp only [schedEnq]
    split
    · omega
    · simp; omega
  | addRegistry rs al f => simp [schedEnq]; omega

/-- an `enq` step keeps the invariant -/
theorem SchedInv.enq {w : World} {fuel : Nat} {ops : List Op} {s1 : List Act} {σ : SchedSt}
    {i : Nat} {op : Op} (h : SchedInv w ops s1 σ) (hop : ops[i]? = some op)
    (h1 : Act.enq i ∉ s1) (h2 : Act.drn i ∉ s1) :
    SchedInv w ops (s1 ++ [.enq i]) (schedStep w fuel ops σ (.enq i)).1 := by
  have hmem : op ∈ ops := List.mem_of_getElem? hop
  have hstep : (schedStep w fuel ops σ (.enq i)).1 =
      ⟨schedEnq σ.st op, (i, if schedEarly σ.st op then .early else .queued) :: σ.stat⟩ := by
    simp [schedStep, hop, h.ok]
  rw [hstep]
  have hold : ∀ j, assoc σ.stat j ≠ none → i ≠ j := fun j hj e => h1 (e ▸ (h.keys j).mp hj)
  exact
    { s := sc_sinv_enq h.s hmem
      c := by
        have : schedStarted ops ((i, if schedEarly σ.st op then .early else .queued) :: σ.stat) =
            op :: schedStarted ops σ.stat := by simp [schedStarted, hop]
        rw [this]; exact sc_cinv_enq h.c
      ok := by simp [h.ok]
      keys := fun j => by
        simp only [assoc_cons, List.mem_append, List.mem_singleton]
        by_cases hij : i = j
        · subst hij; simp
        · simp only [hij, if_false]
          rw [h.keys j]
          constructor
          · exact Or.inl
          · rintro (hm | hm)
            · exact hm
            · cases hm; exact absurd rfl hij
      nrf := fun j => by
        simp only [assoc_cons]
        split
        · split <;> simp
        · exact h.nrf j
      wait := by
        by_cases he : schedEarly σ.st op = true
        · simp only [schedEnq_early he]
          rcases h.wait with hw | ⟨j, hj, hd⟩
          · exact Or.inl hw
          · refine Or.inr ⟨j, ?_, ?_⟩
            · have := hold j (by rw [hj]; simp)
              simp [assoc_cons, this, hj]
            · simp [hd]
        · exact Or.inr ⟨i, by simp [assoc_cons, he], by simp [h2]⟩
      len := by
        have := sc_enq_len σ.st op
        have := h.len
        simp only [List.filter_append, List.length_append, List.filter_cons, Act.isEnq, if_true,
          List.filter_nil, List.length_cons, List.length_nil]
        omega }

/-- a `drn` step whose call comes back without errors keeps the invariant -/
theorem SchedInv.drn {w : World} {fuel : Nat} {ops : List Op} {s1 : List Act} {σ : SchedSt}
    {i : Nat} (h : SchedInv w ops s1 σ) (h1 : Act.enq i ∈ s1)
    (hcl : ∀ r, (schedStep w fuel ops σ (.drn i)).2 = some r → r.clean = true) :
    SchedInv w ops (s1 ++ [.drn i]) (schedStep w fuel ops σ (.drn i)).1 := by
  have hkeys : ∀ j, assoc σ.stat j ≠ none ↔ Act.enq j ∈ s1 ++ [Act.drn i] := fun j => by
    rw [h.keys j]; simp
  have hlen : ((s1 ++ [Act.drn i]).filter Act.isEnq).length = (s1.filter Act.isEnq).length := by
    simp [List.filter_append, Act.isEnq]
  cases hst : assoc σ.stat i with
  | none => exact absurd hst ((h.keys i).mpr h1)
  | some x =>
    cases x with
    | refused => exact absurd hst (h.nrf i)
    | early =>
      have hstep : (schedStep w fuel ops σ (.drn i)).1 = σ := by simp [schedStep, hst]
      rw [hstep]
      exact
        { s := h.s, c := h.c, ok := h.ok, keys := hkeys, nrf := h.nrf
          wait := by
            rcases h.wait with hw | ⟨j, hj, hd⟩
            · exact Or.inl hw
            · refine Or.inr ⟨j, hj, ?_⟩
              have : j ≠ i := fun e => by rw [e, hst] at hj; cases hj
              simp [hd, this]
          len := by rw [hlen]; exact h.len }
    | queued =>
      have hstep : schedStep w fuel ops σ (.drn i) =
          ({ σ with st := (schedDrn w fuel σ.st).1 }, some (schedDrn w fuel σ.st).2) := by
        simp [schedStep, hst]
      rw [hstep] at hcl ⊢
      have hc := hcl _ rfl
      unfold schedDrn at hc ⊢
      cases hd : drain w fuel false σ.st [] with
      | diverged => rw [hd] at hc; cases hc
      | done st2 ds =>
        rw [hd] at hc
        have hne : hasErrors ds = false := by simpa [OpResult.clean] using hc
        obtain ⟨s2, r2, g2⟩ := drain_sinv h.s hd
        have c2 := drain_cinv h.s h.c hd hne
        exact
          { s := s2.setPoisoned _, c := c2.setPoisoned _, ok := by simp [h.ok, hne]
            keys := hkeys, nrf := h.nrf, wait := Or.inl ⟨r2, g2⟩
            len := by simp [r2, g2] }

/-- at the end of a valid schedule every call has enqueued and drained: the builder is `Good` -/
theorem SchedInv.good {w : World} {ops : List Op} {s : List Act} {σ : SchedSt}
    (hv : ValidSched ops.length s) (h : SchedInv w ops s σ) : Good w ops ops σ.st := by
  have hq : σ.st.pendingRemote = [] ∧ σ.st.pendingRegistry = [] := by
    rcases h.wait with hw | ⟨i, hi, hd⟩
    · exact hw
    · have he : Act.enq i ∈ s := (h.keys i).mp (by rw [hi]; simp)
      have hlt := hv.enq_lt he
      exact absurd ((hv.mem_iff _).mpr ⟨i, hlt, Or.inr rfl⟩) hd
  refine ⟨h.s, h.c.subset (fun op hop => ?_), hq.1, hq.2⟩
  obtain ⟨i, hi, rfl⟩ := List.mem_iff_getElem.mp hop
  have he : Act.enq i ∈ s := (hv.mem_iff _).mpr ⟨i, hi, Or.inl rfl⟩
  have hk := (h.keys i).mpr he
  cases hst : assoc σ.stat i with
  | none => exact absurd hst hk
  | some x =>
    unfold schedStarted
    rw [List.mem_filterMap]
    exact ⟨(i, x), assoc_mem hst, List.getElem?_eq_getElem hi⟩

/-- **the run of a valid schedule whose calls all came back without errors ends `Good`** -/
theorem runSchedFrom_inv {w : World} {fuel : Nat} {ops : List Op} {s : List Act}
    (hv : ValidSched ops.length s) :
    ∀ (s2 s1 : List Act) (σ : SchedSt), s = s1 ++ s2 → SchedInv w ops s1 σ →
      ErrorFree (runSchedFrom w fuel ops σ s2).2 →
      SchedInv w ops s (runSchedFrom w fuel ops σ s2).1 := by
  intro s2
  induction s2 with
  | nil =>
    intro s1 σ e h _
    rw [List.append_nil] at e
    subst e; exact h
  | cons a r ih =>
    intro s1 σ e h hef
    simp only [runSchedFrom] at hef ⊢
    have e' : s = (s1 ++ [a]) ++ r := by simp [e]
    cases a with
    | enq i =>
      obtain ⟨hi, h1, h2⟩ := hv.enq_split e
      have hop : ops[i]? = some ops[i] := List.getElem?_eq_getElem hi
      refine ih _ _ e' (h.enq hop h1 h2) ?_
      rw [schedStep_enq_none] at hef; exact hef
    | drn i =>
      obtain ⟨hi, h1, h2⟩ := hv.drn_split e
      have hcl : ∀ x, (schedStep w fuel ops σ (.drn i)).2 = some x → x.clean = true :=
        fun x hx => hef x (by rw [hx]; exact List.mem_cons_self)
      refine ih _ _ e' (h.drn h1 hcl) (fun x hx => hef x ?_)
      cases (schedStep w fuel ops σ (.drn i)).2 with
      | none => exact hx
      | some y => exact List.mem_cons_of_mem _ hx

theorem runSched_good {w : World} {fuel : Nat} {ops : List Op} {s : List Act}
    (hv : ValidSched ops.length s) (h : ErrorFree (runSched w fuel ops s).2) :
    Good w ops ops (runSched w fuel ops s).1 :=
  (runSchedFrom_inv hv s [] _ rfl (SchedInv.init w ops) h).good hv

/-! ## 6. on a clean world every call of every valid schedule comes back without errors -/

/-- fuel for a drain that may find up to `n` queued calls: the bound for one call (C14) plus three
units per call -/
def schedFuelBound (w : World) (n : Nat) : Nat := fuelBound w + 3 * n

theorem sc_drn_clean {w : World} {ops : List Op} {fuel n : Nat} {st : BState} (hc : Clean w ops)
    (h : SInv w ops st) (hlen : st.pendingRemote.length + st.pendingRegistry.length ≤ n)
    (hf : schedFuelBound w n ≤ fuel) :
    (schedDrn w fuel st).2.clean = true ∧ (schedDrn w fuel st).2.finished = true := by
  have hm : drainMeasure w false st ≤ fuel - 1 := by
    have h1 := Nat.mul_le_mul_right (pushWeight w) (todo_le (pushers w) st.analyzed)
    simp only [drainMeasure, schedFuelBound, fuelBound, Bool.false_eq_true, if_false] at *
    omega
  obtain ⟨st', ds', hd⟩ := drain_terminates w (fuel - 1) false st [] h.dirsCoh hm
  have e : fuel - 1 + 1 = fuel := by unfold schedFuelBound fuelBound at hf; omega
  rw [e] at hd
  have := drain_inv w (fun _ st ds => SInv w ops st ∧ hasErrors ds = false)
    (fun _ _ _ _ _ _ hs hi => ⟨hs.sinv hi.1, hs.clean hi.1 hc hi.2⟩)
    _ _ _ _ _ _ ⟨h, rfl⟩ hd
  simp [schedDrn, hd, OpResult.clean, OpResult.finished, this.1.2]

theorem sc_step_drn_clean {w : World} {ops : List Op} {fuel n : Nat} {s1 : List Act}
    {σ : SchedSt} {i : Nat} (hc : Clean w ops) (h : SchedInv w ops s1 σ)
    (hn : (s1.filter Act.isEnq).length ≤ n) (hf : schedFuelBound w n ≤ fuel) :
    ∀ r, (schedStep w fuel ops σ (.drn i)).2 = some r → r.clean = true := by
  intro r hr
  cases hst : assoc σ.stat i with
  | none => simp [schedStep, hst] at hr
  | some x =>
    cases x with
    | refused => exact absurd hst (h.nrf i)
    | early => simp [schedStep, hst] at hr; subst hr; rfl
    | queued =>
      simp only [schedStep, hst, Option.some.injEq] at hr
      subst hr
      exact (sc_drn_clean hc h.s (Nat.le_trans h.len hn) hf).1

theorem runSchedFrom_clean {w : World} {fuel : Nat} {ops : List Op} {s : List Act}
    (hc : Clean w ops) (hf : schedFuelBound w ops.length ≤ fuel)
    (hv : ValidSched ops.length s) :
    ∀ (s2 s1 : List Act) (σ : SchedSt), s = s1 ++ s2 → SchedInv w ops s1 σ →
      ErrorFree (runSchedFrom w fuel ops σ s2).2 := by
  intro s2
  induction s2 with
  | nil => intro s1 σ _ _ r hr; simp [runSchedFrom] at hr
  | cons a r ih =>
    intro s1 σ e h
    simp only [runSchedFrom]
    have e' : s = (s1 ++ [a]) ++ r := by simp [e]
    cases a with
    | enq i =>
      obtain ⟨hi, h1, h2⟩ := hv.enq_split e
      have hop : ops[i]? = some ops[i] := List.getElem?_eq_getElem hi
      rw [schedStep_enq_none]
      exact ih _ _ e' (h.enq hop h1 h2)
    | drn i =>
      obtain ⟨hi, h1, h2⟩ := hv.drn_split e
      have hn : (s1.filter Act.isEnq).length ≤ ops.length := by
        rw [← hv.enq_count, e, List.filter_append, List.length_append]; omega
      have hcl := sc_step_drn_clean (i := i) hc h hn hf
      have hrest := ih _ _ e' (h.drn h1 hcl)
      intro x hx
      cases hs : (schedStep w fuel ops σ (.drn i)).2 with
      | none => rw [hs] at hx; exact hrest x hx
      | some y =>
        rw [hs] at hx
        rcases List.mem_cons.mp hx with rfl | hx
        · exact hcl _ hs
        · exact hrest x hx

theorem runSched_clean {w : World} {fuel : Nat} {ops : List Op} {s : List Act}
    (hc : Clean w ops) (hf : schedFuelBound w ops.length ≤ fuel)
    (hv : ValidSched ops.length s) : ErrorFree (runSched w fuel ops s).2 :=
  runSchedFrom_clean hc hf hv s [] _ rfl (SchedInv.init w ops)

/-! ## 7. any schedule at all: soundness; valid schedules: every call returns exactly once -/

theorem schedStep_sinv {w : World} {fuel : Nat} {ops : List Op} {σ : SchedSt} (a : Act)
    (h : SInv w ops σ.st) : SInv w ops (schedStep w fuel ops σ a).1.st := by
  cases a with
  | enq i =>
    simp only [schedStep]
    split
    · exact h
    · rename_i op hop
      split
      · exact h
      · exact sc_sinv_enq h (List.mem_of_getElem? hop)
  | drn i =>
    simp only [schedStep]
    split
    · show SInv w ops (schedDrn w fuel σ.st).1
      unfold schedDrn
      cases hd : drain w fuel false σ.st [] with
      | diverged => exact h
      | done st2 ds => exact (drain_sinv h hd).1.setPoisoned _
    · exact h
    · exact h
    · exact h

/-- soundness survives every action of every schedule, valid or not, whatever the calls return -/
theorem runSchedFrom_sinv {w : World} {fuel : Nat} {ops : List Op} :
    ∀ (s : List Act) (σ : SchedSt), SInv w ops σ.st →
      SInv w ops (runSchedFrom w fuel ops σ s).1.st := by
  intro s
  induction s with
  | nil => intro σ h; exact h
  | cons a r ih => intro σ h; exact ih _ (schedStep_sinv a h)

theorem seqSchedFrom_drn_count : ∀ (m k : Nat),
    ((seqSchedFrom k m).filter Act.isDrn).length = m := by
  intro m
  induction m with
  | zero => intro k; rfl
  | succ m ih => intro k; simp [seqSchedFrom, List.filter_cons, Act.isDrn, ih]

theorem ValidSched.drn_count {n : Nat} {s : List Act} (h : ValidSched n s) :
    (s.filter Act.isDrn).length = n :=
  (h.1.filter _).length_eq.trans (seqSchedFrom_drn_count n 0)

/-- in a valid schedule every `drn` yields a result (the call has started): the run reports one
result per call -/
theorem runSchedFrom_results_length {w : World} {fuel : Nat} {ops : List Op} {s : List Act}
    (hv : ValidSched ops.length s) :
    ∀ (s2 s1 : List Act) (σ : SchedSt), s = s1 ++ s2 →
      (∀ i, assoc σ.stat i ≠ none ↔ Act.enq i ∈ s1) →
      (runSchedFrom w fuel ops σ s2).2.length = (s2.filter Act.isDrn).length := by
  intro s2
  induction s2 with
  | nil => intro s1 σ _ _; rfl
  | cons a r ih =>
    intro s1 σ e hk
    have e' : s = (s1 ++ [a]) ++ r := by simp [e]
    simp only [runSchedFrom]
    cases a with
    | enq i =>
      obtain ⟨hi, h1, h2⟩ := hv.enq_split e
      have hop : ops[i]? = some ops[i] := List.getElem?_eq_getElem hi
      rw [schedStep_enq_none]
      simp only [List.filter_cons, Act.isDrn, Bool.false_eq_true, if_false]
      refine ih _ _ e' (fun j => ?_)
      have hstat : ∃ x, (schedStep w fuel ops σ (.enq i)).1.stat = (i, x) :: σ.stat := by
        simp only [schedStep, hop]
        split
        · exact ⟨_, rfl⟩
        · exact ⟨_, rfl⟩
      obtain ⟨x, hx⟩ := hstat
      rw [hx]
      simp only [assoc_cons, List.mem_append, List.mem_singleton]
      by_cases hij : i = j
      · subst hij; simp
      · simp only [hij, if_false]
        rw [hk j]
        constructor
        · exact Or.inl
        · rintro (hm | hm)
          · exact hm
          · cases hm; exact absurd rfl hij
    | drn i =>
      obtain ⟨hi, h1, h2⟩ := hv.drn_split e
      have hne := (hk i).mpr h1
      have hstat : (schedStep w fuel ops σ (.drn i)).1.stat = σ.stat ∧
          (schedStep w fuel ops σ (.drn i)).2 ≠ none := by
        simp only [schedStep]
        split
        · exact ⟨rfl, by simp⟩
        · exact ⟨rfl, by simp⟩
        · exact ⟨rfl, by simp⟩
        · rename_i hn; exact absurd hn hne
      have := ih (s1 ++ [.drn i]) (schedStep w fuel ops σ (.drn i)).1 e' (fun j => by
        rw [hstat.1, hk j]; simp)
      cases hs : (schedStep w fuel ops σ (.drn i)).2 with
      | none => exact absurd hs hstat.2
      | some y =>
        simp only [List.filter_cons, Act.isDrn, if_true, List.length_cons]
        rw [this]

theorem runSched_results_length {w : World} {fuel : Nat} {ops : List Op} {s : List Act}
    (hv : ValidSched ops.length s) : (runSched w fuel ops s).2.length = ops.length := by
  have := runSchedFrom_results_length (w := w) (fuel := fuel) hv s [] ⟨BState.init, []⟩ rfl
    (fun i => by simp)
  rw [hv.drn_count] at this
  exact this

end Slug
