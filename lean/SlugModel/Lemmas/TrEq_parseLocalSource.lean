import SlugModel.Generated.Tr_parseLocalSource
import SlugModel.Addr
import SlugModel.Lemmas.TrEq_looksLikeLocalSource
/-!
# `parseLocalSource`: the model function equals the translation of the Go function

The definition `Slug.Gen.parseLocalSource` (Generated/Tr_parseLocalSource.lean) is rewritten from /repo by harness/cmd/go2lean on
every run; the theorem here is re-checked against it.
-/
namespace Slug

theorem gen_parseLocalSource (s : Str) :
    Gen.parseLocalSource s = (match parseLocal s with | some r => (r, false) | none => ([], true)) := by
  unfold Gen.parseLocalSource parseLocal
  simp only [gen_looksLikeLocalSource, Go.pathClean, Go.containsAny]
  have e1 : (fun c : Char => [':', '\\'].contains c) = (fun c => decide (c = ':') || decide (c = '\\')) := by
    funext c; simp
  rw [e1]
  by_cases h1 : (List.any s fun c => decide (c = ':') || decide (c = '\\')) = true
  · simp [h1, Id.run]; rfl
  · have e2 : (!looksLikeLocal s && s != ['.'] && s != ['.', '.']) =
        (!looksLikeLocal s && decide (s ≠ dot) && decide (s ≠ dotdot)) := by
      have a : (s != ['.']) = decide (s ≠ dot) := by by_cases a : s = ['.'] <;> simp [a, dot]
      have b : (s != ['.', '.']) = decide (s ≠ dotdot) := by by_cases b : s = ['.', '.'] <;> simp [b, dotdot]
      rw [a, b]
    rw [e2]
    by_cases h2 : (!looksLikeLocal s && decide (s ≠ dot) && decide (s ≠ dotdot)) = true
    · simp only [h1, h2, if_true]; rfl
    · simp only [h1, h2, if_false, Bool.false_eq_true]
      have l1 : looksLikeLocal ['.', '.', '/'] = true := by decide
      have l2 : looksLikeLocal ['.', '/'] = true := by decide
      have n1 : (['.'] : Str) ≠ ['.', '.'] := by decide
      by_cases h3 : pathClean s = ['.', '.']
      · simp only [h3, l1, dotdot, beq_self_eq_true, if_true, Bool.not_true, Bool.false_eq_true, if_false]
        by_cases h6 : ['.', '.', '/'] = s
        · simp [h6, Id.run]; rfl
        · simp [h6, Id.run]; rfl
      · by_cases h4 : pathClean s = ['.']
        · simp only [h4, l2, n1, dot, dotdot, beq_self_eq_true, if_true, Bool.not_true, Bool.false_eq_true,
            if_false, beq_iff_eq]
          by_cases h6 : ['.', '/'] = s
          · simp [h6, Id.run]; rfl
          · simp [h6, Id.run]; rfl
        · by_cases h5 : looksLikeLocal (pathClean s) = true
          · simp only [h3, h4, h5, dot, dotdot, beq_iff_eq, Bool.not_true, Bool.false_eq_true, if_false]
            by_cases h6 : pathClean s = s
            · simp [h6, Id.run]; rfl
            · simp [h6, Id.run]; rfl
          · simp only [h3, h4, h5, dot, dotdot, beq_iff_eq, if_true, Bool.not_false, if_false]
            by_cases h6 : '.' :: '/' :: pathClean s = s
            · simp [h6, Id.run]; rfl
            · simp [h6, Id.run]; rfl

end Slug
