import SlugModel.Lemmas.BuilderTerm
/-!
# Lemmas/BuilderClosure — the invariants behind C08 / C13

* `selectVersion_spec`: the selected version is an allowed entry of maximal rank.
* `SInv` (soundness + cache coherence): holds in every state of every run; everything queued or
  analysed is reachable, every memo table agrees with the world.
* `CInv` (completeness): everything a processed call started and everything an analysed artefact
  yields is analysed or still queued; preserved by every step that adds no error.
* `Final`: what the two give when the queues are empty.
-/
namespace Slug

/-! ## 0. small things -/

theorem opt_ext {α : Type} {a b : Option α} (h : ∀ v, a = some v ↔ b = some v) : a = b := by
  cases a with
  | none =>
    cases b with
    | none => rfl
    | some y => exact absurd ((h y).mpr rfl) (by simp)
  | some x => exact ((h x).mp rfl).symm

theorem hasErrors_append (a b : List Diag) : hasErrors (a ++ b) = (hasErrors a || hasErrors b) := by
  simp [hasErrors, List.any_append]

/-! ## 1. version selection -/

/-- one step of the selection fold -/
def selStep (al : List VerS) (best : Option VerInfo) (v : VerInfo) : Option VerInfo :=
  if al.contains v.ver then
    match best with
    | none => some v
    | some b => if b.rank ≤ v.rank then some v else some b
  else best

theorem selectVersion_eq (vs : List VerInfo) (al : List VerS) :
    selectVersion vs al = vs.foldl (selStep al) none := rfl

/-- `best` is an allowed entry of `seen` of maximal rank, or nothing in `seen` is allowed -/
def SelInv (al : List VerS) (seen : List VerInfo) (best : Option VerInfo) : Prop :=
  match best with
  | none => ∀ v ∈ seen, al.contains v.ver = false
  | some b => b ∈ seen ∧ al.contains b.ver = true ∧
      ∀ v ∈ seen, al.contains v.ver = true → v.rank ≤ b.rank

theorem selStep_inv (al : List VerS) (seen : List VerInfo) (best : Option VerInfo) (v : VerInfo)
    (h : SelInv al seen best) : SelInv al (seen ++ [v]) (selStep al best v) := by
  unfold selStep
  by_cases hv : al.contains v.ver = true
  · simp only [hv, if_true]
    cases best with
    | none =>
      simp only [SelInv] at h ⊢
      refine ⟨by simp, hv, fun x hx hax => ?_⟩
      rcases List.mem_append.mp hx with hx | hx
      · rw [h x hx] at hax; cases hax
      · simp at hx; subst hx; exact Nat.le_refl _
    | some b =>
      simp only [SelInv] at h
      obtain ⟨hb, hab, hmax⟩ := h
      by_cases hlt : b.rank ≤ v.rank
      · simp only [hlt, if_true, SelInv]
        refine ⟨by simp, hv, fun x hx hax => ?_⟩
        rcases List.mem_append.mp hx with hx | hx
        · have := hmax x hx hax; omega
        · simp at hx; subst hx; exact Nat.le_refl _
      · simp only [hlt, if_false, SelInv]
        refine ⟨by simp [hb], hab, fun x hx hax => ?_⟩
        rcases List.mem_append.mp hx with hx | hx
        · exact hmax x hx hax
        · simp at hx; subst hx; omega
  · have hv' : al.contains v.ver = false := by simpa using hv
    simp only [hv', Bool.false_eq_true, if_false]
    cases best with
    | none =>
      simp only [SelInv] at h ⊢
      intro x hx
      rcases List.mem_append.mp hx with hx | hx
      · exact h x hx
      · simp at hx; subst hx; exact hv'
    | some b =>
      simp only [SelInv] at h ⊢
      obtain ⟨hb, hab, hmax⟩ := h
      refine ⟨by simp [hb], hab, fun x hx hax => ?_⟩
      rcases List.mem_append.mp hx with hx | hx
      · exact hmax x hx hax
      · simp at hx; subst hx; rw [hv'] at hax; cases hax

theorem selFold_inv (al : List VerS) (vs : List VerInfo) :
    ∀ (seen : List VerInfo) (best : Option VerInfo), SelInv al seen best →
      SelInv al (seen ++ vs) (vs.foldl (selStep al) best) := by
  induction vs with
  | nil => intro seen best h; simpa using h
  | cons v r ih =>
    intro seen best h
    have := ih (seen ++ [v]) (selStep al best v) (selStep_inv al seen best v h)
    simpa using this

/-- the selected version is an allowed entry of the listing of maximal rank -/
theorem selectVersion_spec {vs : List VerInfo} {al : List VerS} {sel : VerInfo}
    (h : selectVersion vs al = some sel) :
    sel ∈ vs ∧ al.contains sel.ver = true ∧
      ∀ v ∈ vs, al.contains v.ver = true → v.rank ≤ sel.rank := by
  have := selFold_inv al vs [] none (by simp [SelInv])
  rw [← selectVersion_eq, h] at this
  simpa [SelInv] using this

/-- two requests that select the same version string of the same listing select the same rank -/
theorem selectVersion_rank_unique {vs : List VerInfo} {al al' : List VerS} {s s' : VerInfo}
    (h : selectVersion vs al = some s) (h' : selectVersion vs al' = some s') (hv : s.ver = s'.ver) :
    s.rank = s'.rank := by
  obtain ⟨m1, a1, x1⟩ := selectVersion_spec h
  obtain ⟨m2, a2, x2⟩ := selectVersion_spec h'
  have := x1 s' m2 (by rw [← hv]; exact a1)
  have := x2 s m1 (by rw [hv]; exact a2)
  omega

/-! ## 2. the specification's functions -/

theorem mem_remotePushes {base : RemoteSrc} {decls : List Decl} {a : Art} :
    a ∈ remotePushes base decls ↔
      (∃ s g, Decl.remote s g ∈ decls ∧ a = (s, g)) ∨
      (∃ rel g sub', Decl.loc rel g ∈ decls ∧ joinSubPath base.sub rel = some sub' ∧
        a = ({ pkg := base.pkg, sub := sub' }, g)) := by
  induction decls with
  | nil => simp [remotePushes]
  | cons d r ih =>
    cases d with
    | remote s f =>
      simp only [remotePushes, List.mem_cons, ih]
      constructor
      · rintro (rfl | ⟨s', g, h, rfl⟩ | ⟨rel, g, sub', h, hj, rfl⟩)
        · exact Or.inl ⟨s, f, Or.inl rfl, rfl⟩
        · exact Or.inl ⟨s', g, Or.inr h, rfl⟩
        · exact Or.inr ⟨rel, g, sub', Or.inr h, hj, rfl⟩
      · rintro (⟨s', g, h | h, rfl⟩ | ⟨rel, g, sub', h | h, hj, rfl⟩)
        · cases h; exact Or.inl rfl
        · exact Or.inr (Or.inl ⟨s', g, h, rfl⟩)
        · cases h
        · exact Or.inr (Or.inr ⟨rel, g, sub', h, hj, rfl⟩)
    | registry rs al f =>
      simp only [remotePushes, List.mem_cons, ih]
      constructor
      · rintro (⟨s', g, h, rfl⟩ | ⟨rel, g, sub', h, hj, rfl⟩)
        · exact Or.inl ⟨s', g, Or.inr h, rfl⟩
        · exact Or.inr ⟨rel, g, sub', Or.inr h, hj, rfl⟩
      · rintro (⟨s', g, h | h, rfl⟩ | ⟨rel, g, sub', h | h, hj, rfl⟩)
        · cases h
        · exact Or.inl ⟨s', g, h, rfl⟩
        · cases h
        · exact Or.inr ⟨rel, g, sub', h, hj, rfl⟩
    | diag e su fi =>
      simp only [remotePushes, List.mem_cons, ih]
      constructor
      · rintro (⟨s', g, h, rfl⟩ | ⟨rel, g, sub', h, hj, rfl⟩)
        · exact Or.inl ⟨s', g, Or.inr h, rfl⟩
        · exact Or.inr ⟨rel, g, sub', Or.inr h, hj, rfl⟩
      · rintro (⟨s', g, h | h, rfl⟩ | ⟨rel, g, sub', h | h, hj, rfl⟩)
        · cases h
        · exact Or.inl ⟨s', g, h, rfl⟩
        · cases h
        · exact Or.inr ⟨rel, g, sub', h, hj, rfl⟩
    | loc rel0 f =>
      simp only [remotePushes]
      cases hj0 : joinSubPath base.sub rel0 with
      | none =>
        simp only [ih, List.mem_cons]
        constructor
        · rintro (⟨s', g, h, rfl⟩ | ⟨rel, g, sub', h, hj, rfl⟩)
          · exact Or.inl ⟨s', g, Or.inr h, rfl⟩
          · exact Or.inr ⟨rel, g, sub', Or.inr h, hj, rfl⟩
        · rintro (⟨s', g, h | h, rfl⟩ | ⟨rel, g, sub', h | h, hj, rfl⟩)
          · cases h
          · exact Or.inl ⟨s', g, h, rfl⟩
          · cases h; rw [hj0] at hj; cases hj
          · exact Or.inr ⟨rel, g, sub', h, hj, rfl⟩
      | some sub0 =>
        simp only [ih, List.mem_cons]
        constructor
        · rintro (rfl | ⟨s', g, h, rfl⟩ | ⟨rel, g, sub', h, hj, rfl⟩)
          · exact Or.inr ⟨rel0, f, sub0, Or.inl rfl, hj0, rfl⟩
          · exact Or.inl ⟨s', g, Or.inr h, rfl⟩
          · exact Or.inr ⟨rel, g, sub', Or.inr h, hj, rfl⟩
        · rintro (⟨s', g, h | h, rfl⟩ | ⟨rel, g, sub', h | h, hj, rfl⟩)
          · cases h
          · exact Or.inr (Or.inl ⟨s', g, h, rfl⟩)
          · cases h; rw [hj0] at hj; cases hj; exact Or.inl rfl
          · exact Or.inr (Or.inr ⟨rel, g, sub', h, hj, rfl⟩)

theorem mem_regPushes {decls : List Decl} {r : RegReq} :
    r ∈ regPushes decls ↔ Decl.registry r.1 r.2.1 r.2.2 ∈ decls := by
  obtain ⟨rs, al, f⟩ := r
  induction decls with
  | nil => simp [regPushes]
  | cons d t ih =>
    cases d <;> simp [regPushes, ih]

theorem declsOf_eq {w : World} {src : RemoteSrc} {f : FinderId} {c : ContentId}
    (h : fetchContent w src.pkg = some c) :
    declsOf w (src, f) = (assoc w.deps (c, src.sub, f)).getD [] := by
  simp [declsOf, h]

theorem reach_of_push {w : World} {ops : List Op} {a b : Art} (ha : Reach w ops a)
    (hb : b ∈ remotePushes a.1 (declsOf w a)) : Reach w ops b := by
  rcases mem_remotePushes.mp hb with ⟨s, g, h, rfl⟩ | ⟨rel, g, sub', h, hj, rfl⟩
  · exact .step a _ ha (.remote s g h)
  · exact .step a _ ha (.loc rel g sub' h hj)

theorem ReqMet.reach {w : World} {ops : List Op} {rs : RegSrc} {al : List VerS} {f : FinderId}
    {r : RemoteSrc} (h : ReqMet w ops (rs, al, f)) (hr : resolveReg w rs al = some r) :
    Reach w ops (r, f) := by
  cases h with
  | op _ _ _ hm => exact .start _ _ hm (.registry rs al f r hr)
  | decl a _ _ _ ha hd => exact .step a _ ha (.registry rs al f r hd hr)

/-- the pieces of a successful resolution -/
theorem resolveReg_some {w : World} {rs : RegSrc} {al : List VerS} {r : RemoteSrc}
    (h : resolveReg w rs al = some r) :
    ∃ vs sel real, assoc w.versions rs.pkg = some (some vs) ∧ selectVersion vs al = some sel ∧
      assoc w.sources (rs.pkg, sel.ver) = some (some real) ∧
      regKey w rs al = some (rs.pkg, sel.ver) ∧
      r = { pkg := real.pkg, sub := finalSourceSub rs.sub real.sub } := by
  unfold resolveReg at h
  split at h
  · rename_i sel hsel
    split at h
    · rename_i real hreal
      cases h
      have hk : regKey w rs al = some (rs.pkg, sel.ver) := by simp [regKey, hsel]
      unfold regSel at hsel
      split at hsel
      · rename_i vs hvs
        unfold regSource at hreal
        split at hreal
        · rename_i real' hsrc
          cases hreal
          exact ⟨vs, sel, real, hvs, hsel, hsrc, hk, rfl⟩
        · cases hreal
      · cases hsel
    · cases h
  · cases h

theorem regKey_some {w : World} {rs : RegSrc} {al : List VerS} {k : RegPkg × VerS}
    (h : regKey w rs al = some k) :
    ∃ vs sel, assoc w.versions rs.pkg = some (some vs) ∧ selectVersion vs al = some sel ∧
      k = (rs.pkg, sel.ver) := by
  unfold regKey at h
  cases hs : regSel w rs al with
  | none => rw [hs] at h; cases h
  | some sel =>
    rw [hs] at h
    cases h
    unfold regSel at hs
    split at hs
    · rename_i vs hvs; exact ⟨vs, sel, hvs, hs, rfl⟩
    · cases hs

theorem regKey_of {w : World} {rs : RegSrc} {al : List VerS} {vs : List VerInfo} {sel : VerInfo}
    (hv : assoc w.versions rs.pkg = some (some vs)) (hs : selectVersion vs al = some sel) :
    regKey w rs al = some (rs.pkg, sel.ver) := by
  simp [regKey, regSel, hv, hs]

theorem regDeprec_of {w : World} {rs : RegSrc} {al : List VerS} {vs : List VerInfo} {sel : VerInfo}
    (hv : assoc w.versions rs.pkg = some (some vs)) (hs : selectVersion vs al = some sel) :
    regDeprec w rs al = depOf vs sel := by
  simp only [regDeprec, hv, hs, depOf]
  cases List.find? (fun v => decide (v.ver = sel.ver)) vs <;> rfl

theorem resolveReg_of {w : World} {rs : RegSrc} {al : List VerS} {vs : List VerInfo} {sel : VerInfo}
    (hv : assoc w.versions rs.pkg = some (some vs)) (hs : selectVersion vs al = some sel) :
    resolveReg w rs al = (regSource w (rs.pkg, sel.ver)).map fun real =>
      { pkg := real.pkg, sub := finalSourceSub rs.sub real.sub } := by
  simp only [resolveReg, regSel, hv, hs]
  cases regSource w (rs.pkg, sel.ver) <;> rfl

/-- the deprecation notice is a function of the (package, version) key -/
theorem regDeprec_key_unique {w : World} {rs rs' : RegSrc} {al al' : List VerS}
    {k : RegPkg × VerS} (h : regKey w rs al = some k) (h' : regKey w rs' al' = some k) :
    regDeprec w rs al = regDeprec w rs' al' := by
  obtain ⟨vs, sel, hv, hs, rfl⟩ := regKey_some h
  obtain ⟨vs', sel', hv', hs', hk⟩ := regKey_some h'
  simp only [Prod.mk.injEq] at hk
  obtain ⟨hp, hver⟩ := hk
  rw [← hp, hv] at hv'
  cases hv'
  rw [regDeprec_of hv hs, regDeprec_of (hp ▸ hv) hs']
  simp [depOf, hver]

/-! ## 3. soundness and cache coherence: holds in every state of every run -/

structure SInv (w : World) (ops : List Op) (st : BState) : Prop where
  /-- the directory table holds the fetcher's content, the metadata table the fetcher's metadata -/
  dirs : ∀ p c, assoc st.pkgDirs p = some c →
    ∃ pm, assoc w.fetch p = some (some (c, pm)) ∧ assoc st.pkgMeta p = pm
  meta_none : ∀ p, assoc st.pkgDirs p = none → assoc st.pkgMeta p = none
  dirs_reach : ∀ p c, assoc st.pkgDirs p = some c → ∃ a, Reach w ops a ∧ a.1.pkg = p
  vers : ∀ p vs, assoc st.regVersions p = some vs → assoc w.versions p = some (some vs)
  res : ∀ k real, assoc st.resolved k = some real →
    assoc w.sources k = some (some real) ∧
    ∃ rs al f, ReqMet w ops (rs, al, f) ∧ regKey w rs al = some k
  dep : ∀ k d, assoc st.deprec k = some d →
    ∃ rs al f, ReqMet w ops (rs, al, f) ∧ regKey w rs al = some k ∧ regDeprec w rs al = d
  dep_keys : ∀ k, assoc st.deprec k = none ↔ assoc st.resolved k = none
  rem : ∀ a ∈ st.pendingRemote, Reach w ops a
  reg : ∀ r ∈ st.pendingRegistry, ReqMet w ops r
  an : ∀ a ∈ st.analyzed, Reach w ops a
  an_dirs : ∀ a ∈ st.analyzed, ∃ c, assoc st.pkgDirs a.1.pkg = some c

theorem SInv.init (w : World) (ops : List Op) : SInv w ops BState.init := by
  constructor <;> simp [BState.init]

theorem SInv.mono_ops {w : World} {ops ops' : List Op} {st : BState} (h : SInv w ops st)
    (hsub : ∀ op ∈ ops, op ∈ ops') : SInv w ops' st := by
  have hr : ∀ a, Reach w ops a → Reach w ops' a := by
    intro a ha
    induction ha with
    | start op a hm hs => exact .start op a (hsub op hm) hs
    | step a b _ hy ih => exact .step a b ih hy
  have hq : ∀ r, ReqMet w ops r → ReqMet w ops' r := by
    intro r hr'
    cases hr' with
    | op rs al f hm => exact .op rs al f (hsub _ hm)
    | decl a rs al f ha hd => exact .decl a rs al f (hr a ha) hd
  exact
    { h with
      dirs_reach := fun p c hp => by
        obtain ⟨a, ha, e⟩ := h.dirs_reach p c hp; exact ⟨a, hr a ha, e⟩
      res := fun k real hk => by
        obtain ⟨h1, rs, al, f, h2, h3⟩ := h.res k real hk; exact ⟨h1, rs, al, f, hq _ h2, h3⟩
      dep := fun k d hk => by
        obtain ⟨rs, al, f, h2, h3⟩ := h.dep k d hk; exact ⟨rs, al, f, hq _ h2, h3⟩
      rem := fun a ha => hr a (h.rem a ha)
      reg := fun r hr' => hq r (h.reg r hr')
      an := fun a ha => hr a (h.an a ha) }

theorem SInv.setLog {w : World} {ops : List Op} {st : BState} (h : SInv w ops st) (l : List Ev) :
    SInv w ops { st with log := l } := { h with }

theorem SInv.setPoisoned {w : World} {ops : List Op} {st : BState} (h : SInv w ops st) (b : Bool) :
    SInv w ops { st with poisoned := b } := { h with }

theorem SInv.setRemote {w : World} {ops : List Op} {st : BState} (h : SInv w ops st)
    (q : List Art) (hq : ∀ a ∈ q, Reach w ops a) :
    SInv w ops { st with pendingRemote := q } := { h with rem := hq }

theorem SInv.setRegistry {w : World} {ops : List Op} {st : BState} (h : SInv w ops st)
    (q : List RegReq) (hq : ∀ r ∈ q, ReqMet w ops r) :
    SInv w ops { st with pendingRegistry := q } := { h with reg := hq }

/-- `ensurePackage` for the package of a reachable artefact -/
theorem SInv.ensure {w : World} {ops : List Op} {st st1 : BState} {p : PkgAddr}
    {r : Option ContentId} (h : SInv w ops st) (hp : ∃ a, Reach w ops a ∧ a.1.pkg = p)
    (he : ensurePackage w st p = (st1, r)) :
    SInv w ops st1 ∧
    (∀ c, r = some c → fetchContent w p = some c ∧ assoc st1.pkgDirs p = some c) ∧
    (r = none → fetchContent w p = none) := by
  rcases ensurePackage_cases he with ⟨d, l, hd, rfl, rfl⟩ | ⟨c, pm, l, hd, hf, rfl, rfl⟩ |
      ⟨l, hd, hf, rfl, rfl⟩
  · refine ⟨h.setLog l, fun c hc => ?_, fun hn => by cases hn⟩
    cases hc
    obtain ⟨pm, h1, _⟩ := h.dirs p d hd
    exact ⟨fetchContent_of_assoc h1, hd⟩
  · refine ⟨?_, fun c' hc => ?_, fun hn => by cases hn⟩
    · exact
        { h with
          dirs := fun q c' hq => by
            simp only [assoc_cons] at hq
            by_cases hpq : p = q
            · subst hpq
              simp only [if_true] at hq
              cases hq
              refine ⟨pm, hf, ?_⟩
              cases pm with
              | none => exact h.meta_none p hd
              | some m => simp [assoc_cons]
            · simp only [hpq, if_false] at hq
              obtain ⟨pm', h1, h2⟩ := h.dirs q c' hq
              refine ⟨pm', h1, ?_⟩
              cases pm with
              | none => exact h2
              | some m => simpa [assoc_cons, hpq] using h2
          meta_none := fun q hq => by
            simp only [assoc_cons] at hq
            by_cases hpq : p = q
            · simp [hpq] at hq
            · simp only [hpq, if_false] at hq
              have := h.meta_none q hq
              cases pm with
              | none => exact this
              | some m => simpa [assoc_cons, hpq] using this
          dirs_reach := fun q c' hq => by
            simp only [assoc_cons] at hq
            by_cases hpq : p = q
            · subst hpq; exact hp
            · simp only [hpq, if_false] at hq
              exact h.dirs_reach q c' hq
          an_dirs := fun a ha => by
            simp only [assoc_cons]
            by_cases hpq : p = a.1.pkg
            · exact ⟨c, by simp [hpq]⟩
            · simp only [hpq, if_false]; exact h.an_dirs a ha }
    · cases hc
      exact ⟨fetchContent_of_assoc hf, by simp [assoc_cons]⟩
  · exact ⟨h.setLog l, fun c hc => (by cases hc), fun _ => hf⟩

theorem SInv.listVersions {w : World} {ops : List Op} {st st1 : BState} {p : RegPkg}
    {o : Option (List VerInfo)} (h : SInv w ops st) (he : listVersions w st p = (st1, o)) :
    SInv w ops st1 ∧ st1.resolved = st.resolved ∧
    (∀ vs, o = some vs → assoc w.versions p = some (some vs)) ∧
    (o = none → ∀ vs, assoc w.versions p ≠ some (some vs)) := by
  rcases listVersions_cases he with ⟨vs, l, hv, rfl, rfl⟩ | ⟨vs, l, hv, hw, rfl, rfl⟩ |
      ⟨l, hv, hw, rfl, rfl⟩
  · refine ⟨h.setLog l, rfl, fun vs' e => ?_, fun e => by cases e⟩
    cases e; exact h.vers p vs hv
  · refine ⟨?_, rfl, fun vs' e => ?_, fun e => by cases e⟩
    · exact
        { h with
          vers := fun q vs' hq => by
            simp only [assoc_cons] at hq
            by_cases hpq : p = q
            · subst hpq; simp only [if_true] at hq; cases hq; exact hw
            · simp only [hpq, if_false] at hq; exact h.vers q vs' hq }
    · cases e; exact hw
  · exact ⟨h.setLog l, rfl, fun vs' e => (by cases e), fun _ => hw⟩

theorem regSource_of {w : World} {k : RegPkg × VerS} {real : RemoteSrc}
    (h : assoc w.sources k = some (some real)) : regSource w k = some real := by
  simp [regSource, h]

theorem regSource_none {w : World} {k : RegPkg × VerS}
    (h : ∀ real, assoc w.sources k ≠ some (some real)) : regSource w k = none := by
  unfold regSource
  split
  · rename_i real hr; exact absurd hr (h real)
  · rfl

theorem SInv.lookupSource {w : World} {ops : List Op} {st1 st2 : BState} {rs : RegSrc}
    {al : List VerS} {f : FinderId} {vs : List VerInfo} {sel : VerInfo} {o : Option RemoteSrc}
    (h : SInv w ops st1) (hreq : ReqMet w ops (rs, al, f))
    (hv : assoc w.versions rs.pkg = some (some vs)) (hs : selectVersion vs al = some sel)
    (he : lookupSource w st1 vs rs.pkg sel = (st2, o)) :
    SInv w ops st2 ∧ o = regSource w (rs.pkg, sel.ver) ∧
    (∀ k, (assoc st1.resolved k).isSome → (assoc st2.resolved k).isSome) ∧
    (o ≠ none → (assoc st2.resolved (rs.pkg, sel.ver)).isSome) := by
  rcases lookupSource_cases he with ⟨real, l, hr, rfl, rfl⟩ | ⟨real, l, hr, hw, rfl, rfl⟩ |
      ⟨l, hr, hw, rfl, rfl⟩
  · refine ⟨h.setLog l, ?_, fun k hk => hk, fun _ => by simp [hr]⟩
    exact (regSource_of (h.res _ _ hr).1).symm
  · refine ⟨?_, (regSource_of hw).symm, fun k hk => ?_, fun _ => by simp [assoc_cons]⟩
    · exact
        { h with
          res := fun k real' hk => by
            simp only [assoc_cons] at hk
            by_cases hkk : (rs.pkg, sel.ver) = k
            · subst hkk
              simp only [if_true] at hk
              cases hk
              exact ⟨hw, rs, al, f, hreq, regKey_of hv hs⟩
            · simp only [hkk, if_false] at hk
              exact h.res k real' hk
          dep := fun k d hk => by
            simp only [assoc_cons] at hk
            by_cases hkk : (rs.pkg, sel.ver) = k
            · subst hkk
              simp only [if_true] at hk
              cases hk
              exact ⟨rs, al, f, hreq, regKey_of hv hs, regDeprec_of hv hs⟩
            · simp only [hkk, if_false] at hk
              exact h.dep k d hk
          dep_keys := fun k => by
            simp only [assoc_cons]
            by_cases hkk : (rs.pkg, sel.ver) = k
            · simp [hkk]
            · simp only [hkk, if_false]; exact h.dep_keys k }
    · simp only [assoc_cons]
      by_cases hkk : (rs.pkg, sel.ver) = k
      · simp [hkk]
      · simpa [hkk] using hk
  · exact ⟨h.setLog l, (regSource_none hw).symm, fun k hk => hk, fun hn => absurd rfl hn⟩

/-- `findRegistrySource` computes `resolveReg`, keeps the tables coherent and records the key -/
theorem SInv.findReg {w : World} {ops : List Op} {st st2 : BState} {rs : RegSrc}
    {al : List VerS} {f : FinderId} {r : Option RemoteSrc}
    (h : SInv w ops st) (hreq : ReqMet w ops (rs, al, f))
    (he : findRegistrySource w st rs al = (st2, r)) :
    SInv w ops st2 ∧ r = resolveReg w rs al ∧
    (∀ k, (assoc st.resolved k).isSome → (assoc st2.resolved k).isSome) ∧
    (r ≠ none → ∀ k, regKey w rs al = some k → (assoc st2.resolved k).isSome) := by
  obtain ⟨st1, o, h1, h2⟩ := findRegistrySource_cases he
  obtain ⟨hs1, hres, hsome, hnone⟩ := h.listVersions h1
  rcases h2 with ⟨rfl, rfl, rfl⟩ | ⟨vs, rfl, hsel, rfl, rfl⟩ | ⟨vs, sel, o2, rfl, hsel, h3, rfl⟩
  · refine ⟨hs1, ?_, fun k hk => by rwa [hres], fun hn => absurd rfl hn⟩
    have hn := hnone rfl
    have : regSel w rs al = none := by
      unfold regSel
      split
      · rename_i vs hvs; exact absurd hvs (hn vs)
      · rfl
    simp [resolveReg, this]
  · refine ⟨hs1, ?_, fun k hk => by rwa [hres], fun hn => absurd rfl hn⟩
    have hv := hsome vs rfl
    simp [resolveReg, regSel, hv, hsel]
  · have hv := hsome vs rfl
    obtain ⟨hs2, ho2, hmono, hkey⟩ := hs1.lookupSource hreq hv hsel h3
    refine ⟨hs2, ?_, fun k hk => hmono k (by rwa [hres]), fun hn k hk => ?_⟩
    · rw [resolveReg_of hv hsel, ho2]
    · rw [regKey_of hv hsel] at hk
      cases hk
      apply hkey
      intro e; apply hn; rw [e]; rfl

theorem SInv.analysed {w : World} {ops : List Op} {st1 : BState} {src : RemoteSrc}
    {f : FinderId} {c : ContentId} (h : SInv w ops st1) (hr : Reach w ops (src, f))
    (hd : assoc st1.pkgDirs src.pkg = some c) :
    SInv w ops (analysedState st1 src f (declsOf w (src, f))) :=
  { h with
    rem := fun a ha => by
      rcases List.mem_append.mp ha with ha | ha
      · exact h.rem a ha
      · exact reach_of_push hr ha
    reg := fun r hr' => by
      rcases List.mem_append.mp hr' with hr' | hr'
      · exact h.reg r hr'
      · obtain ⟨rs, al, g⟩ := r
        exact .decl (src, f) rs al g hr (mem_regPushes.mp hr')
    an := fun a ha => by
      rcases List.mem_cons.mp ha with rfl | ha
      · exact hr
      · exact h.an a ha
    an_dirs := fun a ha => by
      rcases List.mem_cons.mp ha with rfl | ha
      · exact ⟨c, hd⟩
      · exact h.an_dirs a ha }

/-- every step preserves soundness and coherence -/
theorem Step.sinv {w : World} {ops : List Op} {ph ph' : Bool} {st st' : BState}
    {ds ds' : List Diag} (hs : Step w ph st ds ph' st' ds') (h : SInv w ops st) :
    SInv w ops st' := by
  cases hs with
  | regEmpty _ _ hq => exact h
  | regFail _ _ q rs al f st1 hq hf =>
    have hreq : ReqMet w ops (rs, al, f) := h.reg _ (by simp [hq])
    have h0 := h.setRegistry q (fun r hr => h.reg r (by simp [hq, hr]))
    exact (h0.findReg hreq hf).1
  | regOk _ _ q rs al f st1 real hq hf =>
    have hreq : ReqMet w ops (rs, al, f) := h.reg _ (by simp [hq])
    have h0 := h.setRegistry q (fun r hr => h.reg r (by simp [hq, hr]))
    obtain ⟨h1, hr, _⟩ := h0.findReg hreq hf
    refine h1.setRemote _ (fun a ha => ?_)
    rcases List.mem_append.mp ha with ha | ha
    · exact h1.rem a ha
    · simp at ha; subst ha; exact hreq.reach hr.symm
  | switch _ _ hr hg => exact h
  | fetchFail _ _ q src f st1 hq hf =>
    have hreach : Reach w ops (src, f) := h.rem _ (by simp [hq])
    have h0 := h.setRemote q (fun a ha => h.rem a (by simp [hq, ha]))
    exact (h0.ensure ⟨(src, f), hreach, rfl⟩ hf).1
  | skip _ _ q src f st1 c hq hf ha =>
    have hreach : Reach w ops (src, f) := h.rem _ (by simp [hq])
    have h0 := h.setRemote q (fun a ha => h.rem a (by simp [hq, ha]))
    exact (h0.ensure ⟨(src, f), hreach, rfl⟩ hf).1
  | analyse _ _ q src f st1 c decls hq hf ha hd =>
    have hreach : Reach w ops (src, f) := h.rem _ (by simp [hq])
    have h0 := h.setRemote q (fun a ha => h.rem a (by simp [hq, ha]))
    obtain ⟨h1, hc, _⟩ := h0.ensure ⟨(src, f), hreach, rfl⟩ hf
    obtain ⟨hfc, hdir⟩ := hc c rfl
    rw [hd, ← declsOf_eq hfc]
    exact h1.analysed hreach hdir

/-! ## 4. completeness: nothing that was asked for is forgotten -/

/-- analysed or waiting in the remote queue -/
def PendR (st : BState) (a : Art) : Prop := a ∈ st.analyzed ∨ a ∈ st.pendingRemote

/-- waiting in the registry queue, or resolved (key recorded) with the resulting artefact
analysed or waiting -/
def PendG (w : World) (st : BState) (r : RegReq) : Prop :=
  r ∈ st.pendingRegistry ∨
  ∃ real, resolveReg w r.1 r.2.1 = some real ∧ PendR st (real, r.2.2) ∧
    ∀ k, regKey w r.1 r.2.1 = some k → (assoc st.resolved k).isSome

structure CInv (w : World) (P : List Op) (st : BState) : Prop where
  opsR : ∀ s f, Op.addRemote s f ∈ P → PendR st (s, f)
  opsG : ∀ rs al f, Op.addRegistry rs al f ∈ P → PendG w st (rs, al, f)
  declR : ∀ a ∈ st.analyzed, ∀ b ∈ remotePushes a.1 (declsOf w a), PendR st b
  declG : ∀ a ∈ st.analyzed, ∀ r ∈ regPushes (declsOf w a), PendG w st r

/-- `st'` has not forgotten anything `st` knew -/
structure Grows (w : World) (st st' : BState) : Prop where
  an : ∀ a ∈ st.analyzed, a ∈ st'.analyzed
  rem : ∀ a ∈ st.pendingRemote, PendR st' a
  reg : ∀ r ∈ st.pendingRegistry, PendG w st' r
  res : ∀ k, (assoc st.resolved k).isSome → (assoc st'.resolved k).isSome

theorem Grows.refl (w : World) (st : BState) : Grows w st st :=
  ⟨fun _ h => h, fun _ h => Or.inr h, fun _ h => Or.inl h, fun _ h => h⟩

theorem PendR.mono {w : World} {st st' : BState} {a : Art} (g : Grows w st st')
    (h : PendR st a) : PendR st' a := by
  rcases h with h | h
  · exact Or.inl (g.an a h)
  · exact g.rem a h

theorem PendG.mono {w : World} {st st' : BState} {r : RegReq} (g : Grows w st st')
    (h : PendG w st r) : PendG w st' r := by
  rcases h with h | ⟨real, h1, h2, h3⟩
  · exact g.reg r h
  · exact Or.inr ⟨real, h1, h2.mono g, fun k hk => g.res k (h3 k hk)⟩

theorem CInv.mono {w : World} {P : List Op} {st st' : BState} (h : CInv w P st)
    (g : Grows w st st')
    (hnewR : ∀ a ∈ st'.analyzed, a ∉ st.analyzed →
      ∀ b ∈ remotePushes a.1 (declsOf w a), PendR st' b)
    (hnewG : ∀ a ∈ st'.analyzed, a ∉ st.analyzed →
      ∀ r ∈ regPushes (declsOf w a), PendG w st' r) : CInv w P st' where
  opsR s f hm := (h.opsR s f hm).mono g
  opsG rs al f hm := (h.opsG rs al f hm).mono g
  declR a ha b hb := by
    by_cases hold : a ∈ st.analyzed
    · exact (h.declR a hold b hb).mono g
    · exact hnewR a ha hold b hb
  declG a ha r hr := by
    by_cases hold : a ∈ st.analyzed
    · exact (h.declG a hold r hr).mono g
    · exact hnewG a ha hold r hr

theorem CInv.init (w : World) : CInv w [] BState.init := by
  constructor <;> simp [BState.init]

/-- every step that adds no error diagnostic preserves completeness -/
theorem Step.cinv {w : World} {ops P : List Op} {ph ph' : Bool} {st st' : BState}
    {ds ds' : List Diag} (hs : Step w ph st ds ph' st' ds') (h : SInv w ops st)
    (hc : CInv w P st) : CInv w P st' ∨ hasErrors ds' = true := by
  cases hs with
  | regEmpty _ _ hq => exact Or.inl hc
  | regFail _ _ q rs al f st1 hq hf =>
    exact Or.inr (by simp [hasErrors, regErr])
  | regOk _ _ q rs al f st1 real hq hf =>
    left
    have hreq : ReqMet w ops (rs, al, f) := h.reg _ (by simp [hq])
    have h0 := h.setRegistry q (fun r hr => h.reg r (by simp [hq, hr]))
    obtain ⟨_, hr, hmono, hkey⟩ := h0.findReg hreq hf
    obtain ⟨e1, e2, e3, _⟩ := findRegistrySource_frame hf
    refine hc.mono ⟨fun a ha => ?_, fun a ha => ?_, fun r hr' => ?_, fun k hk => hmono k hk⟩
      (fun a ha hna => ?_) (fun a ha hna => ?_)
    · show a ∈ st1.analyzed
      rw [e3]; exact ha
    · refine Or.inr ?_
      show a ∈ st1.pendingRemote ++ [(real, f)]
      rw [e1]; exact List.mem_append_left _ ha
    · rw [hq] at hr'
      rcases List.mem_append.mp hr' with hr' | hr'
      · refine Or.inl ?_
        show r ∈ st1.pendingRegistry
        rw [e2]; exact hr'
      · simp at hr'; subst hr'
        refine Or.inr ⟨real, hr.symm, Or.inr ?_, fun k hk => hkey (by simp) k hk⟩
        show (real, f) ∈ st1.pendingRemote ++ [(real, f)]
        simp
    · exact absurd (show a ∈ st.analyzed by rw [← e3]; exact ha) hna
    · exact absurd (show a ∈ st.analyzed by rw [← e3]; exact ha) hna
  | switch _ _ hr hg => exact Or.inl hc
  | fetchFail _ _ q src f st1 hq hf =>
    exact Or.inr (by simp [hasErrors, fetchErr])
  | skip _ _ q src f st1 c hq hf ha =>
    left
    obtain ⟨e1, e2, e3, e4, _⟩ := ensurePackage_frame hf
    refine hc.mono ⟨fun a ha' => ?_, fun a ha' => ?_, fun r hr' => ?_, fun k hk => ?_⟩
      (fun a ha' hna => ?_) (fun a ha' hna => ?_)
    · rw [e3]; exact ha'
    · rw [hq] at ha'
      rcases List.mem_append.mp ha' with ha' | ha'
      · exact Or.inr (by rw [e1]; exact ha')
      · simp at ha'; subst ha'; exact Or.inl ha
    · exact Or.inl (by rw [e2]; exact hr')
    · rw [e4]; exact hk
    · exact absurd (show a ∈ st.analyzed by rw [← e3]; exact ha') hna
    · exact absurd (show a ∈ st.analyzed by rw [← e3]; exact ha') hna
  | analyse _ _ q src f st1 c decls hq hf ha hd =>
    left
    have hreach : Reach w ops (src, f) := h.rem _ (by simp [hq])
    have h0 := h.setRemote q (fun a ha => h.rem a (by simp [hq, ha]))
    obtain ⟨_, hcc, _⟩ := h0.ensure ⟨(src, f), hreach, rfl⟩ hf
    obtain ⟨hfc, _⟩ := hcc c rfl
    have hdecls : decls = declsOf w (src, f) := by rw [hd, declsOf_eq hfc]
    obtain ⟨e1, e2, e3, e4, _⟩ := ensurePackage_frame hf
    have hnew : ∀ a, a ∈ (src, f) :: st1.analyzed → a ∉ st.analyzed → a = (src, f) := by
      intro a ha' hna
      rcases List.mem_cons.mp ha' with rfl | ha'
      · rfl
      · exact absurd (show a ∈ st.analyzed by rw [← e3]; exact ha') hna
    refine hc.mono ⟨fun a ha' => ?_, fun a ha' => ?_, fun r hr' => ?_, fun k hk => ?_⟩
      (fun a ha' hna => ?_) (fun a ha' hna => ?_)
    · show a ∈ (src, f) :: st1.analyzed
      rw [e3]; exact List.mem_cons_of_mem _ ha'
    · rw [hq] at ha'
      rcases List.mem_append.mp ha' with ha' | ha'
      · refine Or.inr ?_
        show a ∈ st1.pendingRemote ++ remotePushes src decls
        rw [e1]; exact List.mem_append_left _ ha'
      · simp at ha'; subst ha'
        exact Or.inl (show (src, f) ∈ (src, f) :: st1.analyzed from List.mem_cons_self)
    · refine Or.inl ?_
      show r ∈ st1.pendingRegistry ++ regPushes decls
      rw [e2]; exact List.mem_append_left _ hr'
    · show (assoc st1.resolved k).isSome
      rw [e4]; exact hk
    · have := hnew a ha' hna
      subst this
      intro b hb
      refine Or.inr ?_
      show b ∈ st1.pendingRemote ++ remotePushes src decls
      rw [hdecls]; exact List.mem_append_right _ hb
    · have := hnew a ha' hna
      subst this
      intro r hr'
      refine Or.inl ?_
      show r ∈ st1.pendingRegistry ++ regPushes decls
      rw [hdecls]; exact List.mem_append_right _ hr'

/-! ## 5. whole calls and whole runs -/

theorem Step.ds_grows {w : World} {ph ph' : Bool} {st st' : BState} {ds ds' : List Diag}
    (hs : Step w ph st ds ph' st' ds') : ∃ more, ds' = ds ++ more := by
  cases hs with
  | regEmpty _ _ hq => exact ⟨[], by simp⟩
  | regFail _ _ q rs al f st1 hq hf => exact ⟨_, rfl⟩
  | regOk _ _ q rs al f st1 real hq hf => exact ⟨[], by simp⟩
  | switch _ _ hr hg => exact ⟨[], by simp⟩
  | fetchFail _ _ q src f st1 hq hf => exact ⟨_, rfl⟩
  | skip _ _ q src f st1 c hq hf ha => exact ⟨[], by simp⟩
  | analyse _ _ q src f st1 c decls hq hf ha hd => exact ⟨_, List.append_assoc _ _ _⟩

theorem drain_sinv {w : World} {ops : List Op} {n : Nat} {ph : Bool} {st st' : BState}
    {ds ds' : List Diag} (h : SInv w ops st) (hd : drain w n ph st ds = .done st' ds') :
    SInv w ops st' ∧ st'.pendingRemote = [] ∧ st'.pendingRegistry = [] :=
  drain_inv w (fun _ st _ => SInv w ops st) (fun _ _ _ _ _ _ hs hi => hs.sinv hi)
    n ph st ds st' ds' h hd

theorem drain_cinv {w : World} {ops P : List Op} {n : Nat} {ph : Bool} {st st' : BState}
    {ds ds' : List Diag} (h : SInv w ops st) (hc : CInv w P st)
    (hd : drain w n ph st ds = .done st' ds') (hne : hasErrors ds' = false) : CInv w P st' := by
  have := drain_inv w (fun _ st ds => SInv w ops st ∧ (hasErrors ds = true ∨ CInv w P st))
    (fun _ _ _ _ _ _ hs hi => by
      refine ⟨hs.sinv hi.1, ?_⟩
      rcases hi.2 with he | hc
      · obtain ⟨more, rfl⟩ := hs.ds_grows
        exact Or.inl (by simp [hasErrors_append, he])
      · exact (hs.cinv hi.1 hc).symm)
    n ph st ds st' ds' ⟨h, Or.inr hc⟩ hd
  rcases this.1.2 with he | hc'
  · rw [hne] at he; cases he
  · exact hc'

theorem CInv.subset {w : World} {P P' : List Op} {st : BState} (h : CInv w P st)
    (hsub : ∀ op ∈ P', op ∈ P) : CInv w P' st :=
  { h with
    opsR := fun s f hm => h.opsR s f (hsub _ hm)
    opsG := fun rs al f hm => h.opsG rs al f (hsub _ hm) }

theorem CInv.setPoisoned {w : World} {P : List Op} {st : BState} (h : CInv w P st) (b : Bool) :
    CInv w P { st with poisoned := b } := { h with }

/-- soundness survives any call, whatever its outcome -/
theorem applyOp_sinv {w : World} {ops : List Op} {fuel : Nat} {st : BState} {op : Op}
    (h : SInv w ops st) (hop : op ∈ ops) : SInv w ops (applyOp w fuel st op).1 := by
  unfold applyOp
  by_cases hp : st.poisoned = true
  · simp only [hp, if_true]; exact h
  · rw [if_neg hp]
    have key : ∀ st1 : BState, SInv w ops st1 →
        SInv w ops (match drain w fuel false st1 [] with
          | .diverged => (st1, OpResult.diverged)
          | .done st2 ds => ({ st2 with poisoned := hasErrors ds }, .diags ds)).1 := by
      intro st1 h1
      cases hd : drain w fuel false st1 [] with
      | diverged => exact h1
      | done st2 ds => exact (drain_sinv h1 hd).1.setPoisoned _
    cases op with
    | addRemote src f =>
      by_cases ha : st.analyzed.contains (src, f) = true
      · simp only [ha, if_true]; exact h
      · simp only [ha]
        refine key _ (h.setRemote _ (fun a ha' => ?_))
        rcases List.mem_append.mp ha' with ha' | ha'
        · exact h.rem a ha'
        · simp at ha'; subst ha'; exact .start _ _ hop (.remote src f)
    | addRegistry rs al f =>
      simp only
      refine key _ (h.setRegistry _ (fun r hr => ?_))
      rcases List.mem_append.mp hr with hr | hr
      · exact h.reg r hr
      · simp at hr; subst hr; exact .op rs al f hop

theorem runOps_sinv {w : World} {ops : List Op} {fuel : Nat} (ops' : List Op) :
    ∀ st, SInv w ops st → (∀ op ∈ ops', op ∈ ops) → SInv w ops (runOps w fuel st ops').1 := by
  induction ops' with
  | nil => intro st h _; exact h
  | cons op r ih =>
    intro st h hsub
    simp only [runOps]
    exact ih _ (applyOp_sinv h (hsub op List.mem_cons_self))
      (fun o ho => hsub o (List.mem_cons_of_mem _ ho))

/-- an idle builder in which nothing asked for so far has been forgotten -/
structure Good (w : World) (ops P : List Op) (st : BState) : Prop where
  s : SInv w ops st
  c : CInv w P st
  rem : st.pendingRemote = []
  reg : st.pendingRegistry = []

/-- a call that comes back without errors keeps the builder `Good` -/
theorem applyOp_good {w : World} {ops P : List Op} {fuel : Nat} {st : BState} {op : Op}
    (h : Good w ops P st) (hop : op ∈ ops) (hcl : (applyOp w fuel st op).2.clean = true) :
    Good w ops (op :: P) (applyOp w fuel st op).1 := by
  have hs' := applyOp_sinv (fuel := fuel) h.s hop
  revert hcl hs'
  unfold applyOp
  by_cases hp : st.poisoned = true
  · simp only [hp, if_true]
    intro hcl; cases hcl
  · rw [if_neg hp]
    have key : ∀ st1 : BState, SInv w ops st1 → CInv w (op :: P) st1 →
        (match drain w fuel false st1 [] with
          | .diverged => (st1, OpResult.diverged)
          | .done st2 ds => ({ st2 with poisoned := hasErrors ds }, .diags ds)).2.clean = true →
        Good w ops (op :: P) (match drain w fuel false st1 [] with
          | .diverged => (st1, OpResult.diverged)
          | .done st2 ds => ({ st2 with poisoned := hasErrors ds }, .diags ds)).1 := by
      intro st1 h1 c1 hcl
      cases hd : drain w fuel false st1 [] with
      | diverged => rw [hd] at hcl; cases hcl
      | done st2 ds =>
        rw [hd] at hcl
        have hne : hasErrors ds = false := by simpa [OpResult.clean] using hcl
        obtain ⟨s2, r2, g2⟩ := drain_sinv h1 hd
        exact ⟨s2.setPoisoned _, (drain_cinv h1 c1 hd hne).setPoisoned _, r2, g2⟩
    cases op with
    | addRemote src f =>
      by_cases ha : st.analyzed.contains (src, f) = true
      · simp only [ha, if_true]
        intro _ _
        refine ⟨h.s, ?_, h.rem, h.reg⟩
        exact
          { h.c with
            opsR := fun s g hm => by
              rcases List.mem_cons.mp hm with e | hm
              · cases e; exact Or.inl (by simpa using ha)
              · exact h.c.opsR s g hm
            opsG := fun rs al g hm => by
              rcases List.mem_cons.mp hm with e | hm
              · cases e
              · exact h.c.opsG rs al g hm }
      · simp only [ha]
        intro hcl hs'
        refine key _ (h.s.setRemote _ (fun a ha' => ?_)) ?_ hcl
        · rcases List.mem_append.mp ha' with ha' | ha'
          · exact h.s.rem a ha'
          · simp at ha'; subst ha'; exact .start _ _ hop (.remote src f)
        · have g : Grows w st { st with pendingRemote := st.pendingRemote ++ [(src, f)] } :=
            ⟨fun _ h => h, fun _ h => Or.inr (List.mem_append_left _ h), fun _ h => Or.inl h,
              fun _ h => h⟩
          have c0 := h.c.mono g (fun a ha' hna => absurd ha' hna) (fun a ha' hna => absurd ha' hna)
          exact
            { c0 with
              opsR := fun s g hm => by
                rcases List.mem_cons.mp hm with e | hm
                · cases e; exact Or.inr (by simp)
                · exact c0.opsR s g hm
              opsG := fun rs al g hm => by
                rcases List.mem_cons.mp hm with e | hm
                · cases e
                · exact c0.opsG rs al g hm }
    | addRegistry rs al f =>
      simp only
      intro hcl hs'
      refine key _ (h.s.setRegistry _ (fun r hr => ?_)) ?_ hcl
      · rcases List.mem_append.mp hr with hr | hr
        · exact h.s.reg r hr
        · simp at hr; subst hr; exact .op rs al f hop
      · have g : Grows w st { st with pendingRegistry := st.pendingRegistry ++ [(rs, al, f)] } :=
          ⟨fun _ h => h, fun _ h => Or.inr h, fun _ h => Or.inl (List.mem_append_left _ h),
            fun _ h => h⟩
        have c0 := h.c.mono g (fun a ha' hna => absurd ha' hna) (fun a ha' hna => absurd ha' hna)
        exact
          { c0 with
            opsR := fun s g hm => by
              rcases List.mem_cons.mp hm with e | hm
              · cases e
              · exact c0.opsR s g hm
            opsG := fun rs' al' g hm => by
              rcases List.mem_cons.mp hm with e | hm
              · cases e; exact Or.inl (by simp)
              · exact c0.opsG rs' al' g hm }

theorem runOps_good {w : World} {ops : List Op} {fuel : Nat} (ops' : List Op) :
    ∀ st P, Good w ops P st → (∀ op ∈ ops', op ∈ ops) → ErrorFree (runOps w fuel st ops').2 →
      Good w ops (ops' ++ P) (runOps w fuel st ops').1 := by
  induction ops' with
  | nil => intro st P h _ _; exact h
  | cons op r ih =>
    intro st P h hsub hef
    simp only [runOps] at hef ⊢
    have h1 := applyOp_good (fuel := fuel) h (hsub op List.mem_cons_self)
      (hef _ List.mem_cons_self)
    have h2 := ih _ _ h1 (fun o ho => hsub o (List.mem_cons_of_mem _ ho))
      (fun x hx => hef x (List.mem_cons_of_mem _ hx))
    exact ⟨h2.s, h2.c.subset (fun o ho => by
      simp only [List.cons_append, List.mem_cons, List.mem_append] at ho ⊢
      rcases ho with rfl | ho | ho
      · exact Or.inr (Or.inl rfl)
      · exact Or.inl ho
      · exact Or.inr (Or.inr ho)), h2.rem, h2.reg⟩

/-- the final state of an error-free run from the empty builder -/
theorem runOps_final {w : World} {ops : List Op} {fuel : Nat}
    (h : ErrorFree (runOps w fuel BState.init ops).2) :
    Good w ops ops (runOps w fuel BState.init ops).1 := by
  have := runOps_good (w := w) (ops := ops) (fuel := fuel) ops BState.init []
    ⟨SInv.init w ops, CInv.init w, rfl, rfl⟩ (fun _ h => h) h
  exact ⟨this.s, this.c.subset (fun o ho => by simp [ho]), this.rem, this.reg⟩

/-! ## 6. what a `Good` builder that has seen all calls looks like -/

namespace Good
variable {w : World} {ops : List Op} {st : BState}

theorem pendR (h : Good w ops ops st) {a : Art} (hp : PendR st a) : a ∈ st.analyzed := by
  rcases hp with hp | hp
  · exact hp
  · rw [h.rem] at hp; cases hp

theorem pendG (h : Good w ops ops st) {r : RegReq} (hp : PendG w st r) :
    ∃ real, resolveReg w r.1 r.2.1 = some real ∧ (real, r.2.2) ∈ st.analyzed ∧
      ∀ k, regKey w r.1 r.2.1 = some k → (assoc st.resolved k).isSome := by
  rcases hp with hp | ⟨real, h1, h2, h3⟩
  · rw [h.reg] at hp; cases hp
  · exact ⟨real, h1, h.pendR h2, h3⟩

/-- closure: every reachable artefact has been analysed -/
theorem complete (h : Good w ops ops st) {a : Art} (hr : Reach w ops a) : a ∈ st.analyzed := by
  induction hr with
  | start op a hm hs =>
    cases hs with
    | remote s f => exact h.pendR (h.c.opsR s f hm)
    | registry rs al f r hres =>
      obtain ⟨real, h1, h2, _⟩ := h.pendG (h.c.opsG rs al f hm)
      simp only at h1 h2
      rw [hres] at h1; cases h1; exact h2
  | step a b _ hy ih =>
    cases hy with
    | remote s g hd =>
      exact h.pendR (h.c.declR a ih _ (mem_remotePushes.mpr (Or.inl ⟨s, g, hd, rfl⟩)))
    | loc rel g sub' hd hj =>
      exact h.pendR (h.c.declR a ih _ (mem_remotePushes.mpr (Or.inr ⟨rel, g, sub', hd, hj, rfl⟩)))
    | registry rs al g r hd hres =>
      obtain ⟨real, h1, h2, _⟩ := h.pendG (h.c.declG a ih (rs, al, g) (mem_regPushes.mpr hd))
      simp only at h1 h2
      rw [hres] at h1; cases h1; exact h2

theorem analyzed_iff (h : Good w ops ops st) (a : Art) : a ∈ st.analyzed ↔ Reach w ops a :=
  ⟨h.s.an a, h.complete⟩

/-- every registry request met has been resolved, its key recorded, its artefact analysed -/
theorem req_done (h : Good w ops ops st) {rs : RegSrc} {al : List VerS} {f : FinderId}
    (hr : ReqMet w ops (rs, al, f)) :
    ∃ real, resolveReg w rs al = some real ∧ (real, f) ∈ st.analyzed ∧
      ∀ k, regKey w rs al = some k → (assoc st.resolved k).isSome := by
  cases hr with
  | op _ _ _ hm => exact h.pendG (h.c.opsG rs al f hm)
  | decl a _ _ _ ha hd =>
    exact h.pendG (h.c.declG a (h.complete ha) (rs, al, f) (mem_regPushes.mpr hd))

theorem dirs_iff (h : Good w ops ops st) (p : PkgAddr) (c : ContentId) :
    assoc st.pkgDirs p = some c ↔
      (∃ a, Reach w ops a ∧ a.1.pkg = p) ∧ fetchContent w p = some c := by
  constructor
  · intro hd
    obtain ⟨pm, h1, _⟩ := h.s.dirs p c hd
    exact ⟨h.s.dirs_reach p c hd, fetchContent_of_assoc h1⟩
  · rintro ⟨⟨a, ha, rfl⟩, hf⟩
    obtain ⟨c', hc'⟩ := h.s.an_dirs a (h.complete ha)
    obtain ⟨pm, h1, _⟩ := h.s.dirs _ c' hc'
    rw [fetchContent_of_assoc h1] at hf
    cases hf; exact hc'

theorem meta_iff (h : Good w ops ops st) (p : PkgAddr) (m : Str × Str) :
    assoc st.pkgMeta p = some m ↔
      (∃ a, Reach w ops a ∧ a.1.pkg = p) ∧ fetchMeta w p = some m := by
  constructor
  · intro hm
    cases hd : assoc st.pkgDirs p with
    | none => rw [h.s.meta_none p hd] at hm; cases hm
    | some c =>
      obtain ⟨pm, h1, h2⟩ := h.s.dirs p c hd
      refine ⟨h.s.dirs_reach p c hd, ?_⟩
      rw [hm] at h2
      simp [fetchMeta, h1, h2]
  · rintro ⟨⟨a, ha, rfl⟩, hf⟩
    obtain ⟨c', hc'⟩ := h.s.an_dirs a (h.complete ha)
    obtain ⟨pm, h1, h2⟩ := h.s.dirs _ c' hc'
    rw [h2]
    simpa [fetchMeta, h1] using hf

theorem resolved_iff (h : Good w ops ops st) (k : RegPkg × VerS) (real : RemoteSrc) :
    assoc st.resolved k = some real ↔
      (∃ rs al f, ReqMet w ops (rs, al, f) ∧ regKey w rs al = some k) ∧
      regSource w k = some real := by
  constructor
  · intro hk
    obtain ⟨h1, h2⟩ := h.s.res k real hk
    exact ⟨h2, regSource_of h1⟩
  · rintro ⟨⟨rs, al, f, hreq, hkey⟩, hsrc⟩
    obtain ⟨_, _, _, h3⟩ := h.req_done hreq
    have := h3 k hkey
    cases hk : assoc st.resolved k with
    | none => rw [hk] at this; cases this
    | some real' =>
      have := regSource_of (h.s.res k real' hk).1
      rw [hsrc] at this
      cases this; rfl

theorem deprec_iff (h : Good w ops ops st) (k : RegPkg × VerS) (d : Option (Str × Str)) :
    assoc st.deprec k = some d ↔
      ∃ rs al f, ReqMet w ops (rs, al, f) ∧ regKey w rs al = some k ∧ regDeprec w rs al = d := by
  constructor
  · exact h.s.dep k d
  · rintro ⟨rs, al, f, hreq, hkey, hdep⟩
    obtain ⟨_, _, _, h3⟩ := h.req_done hreq
    have hres := h3 k hkey
    cases hk : assoc st.deprec k with
    | none =>
      rw [(h.s.dep_keys k).mp hk] at hres; cases hres
    | some d' =>
      obtain ⟨rs', al', f', _, hkey', hdep'⟩ := h.s.dep k d' hk
      rw [← hdep, ← hdep', regDeprec_key_unique hkey hkey']

end Good

/-! ## 7. on a clean world every call comes back without errors -/

theorem relErrs_nil {base : RemoteSrc} {decls : List Decl}
    (h : ∀ rel g, Decl.loc rel g ∈ decls → joinSubPath base.sub rel ≠ none) :
    relErrs base decls = [] := by
  induction decls with
  | nil => rfl
  | cons d r ih =>
    have ih' := ih (fun rel g hm => h rel g (List.mem_cons_of_mem _ hm))
    cases d with
    | remote s f => simpa [relErrs] using ih'
    | registry rs al f => simpa [relErrs] using ih'
    | diag e su fi => simpa [relErrs] using ih'
    | loc rel f =>
      simp only [relErrs]
      cases hj : joinSubPath base.sub rel with
      | none => exact absurd hj (h rel f List.mem_cons_self)
      | some sub => exact ih'

theorem finderDiags_clean {p : PkgAddr} {decls : List Decl}
    (h : ∀ s file, Decl.diag true s file ∉ decls) : hasErrors (finderDiags p decls) = false := by
  induction decls with
  | nil => rfl
  | cons d r ih =>
    have ih' := ih (fun s file hm => h s file (List.mem_cons_of_mem _ hm))
    cases d with
    | remote s f => simpa [finderDiags, hasErrors] using ih'
    | registry rs al f => simpa [finderDiags, hasErrors] using ih'
    | loc rel f => simpa [finderDiags, hasErrors] using ih'
    | diag e su fi =>
      have he : e = false := by
        cases e with
        | false => rfl
        | true => exact absurd List.mem_cons_self (h su fi)
      subst he
      simp only [finderDiags, hasErrors, List.filterMap_cons] at ih' ⊢
      cases normalizeSubpath fi <;> simpa using ih'

theorem Step.clean {w : World} {ops : List Op} {ph ph' : Bool} {st st' : BState}
    {ds ds' : List Diag} (hs : Step w ph st ds ph' st' ds') (h : SInv w ops st)
    (hc : Clean w ops) (hne : hasErrors ds = false) : hasErrors ds' = false := by
  cases hs with
  | regEmpty _ _ hq => exact hne
  | regFail _ _ q rs al f st1 hq hf =>
    have hreq : ReqMet w ops (rs, al, f) := h.reg _ (by simp [hq])
    have h0 := h.setRegistry q (fun r hr => h.reg r (by simp [hq, hr]))
    have := (h0.findReg hreq hf).2.1
    exact absurd this.symm (hc.reg_ok rs al f hreq)
  | regOk _ _ q rs al f st1 real hq hf => exact hne
  | switch _ _ hr hg => exact hne
  | fetchFail _ _ q src f st1 hq hf =>
    have hreach : Reach w ops (src, f) := h.rem _ (by simp [hq])
    have h0 := h.setRemote q (fun a ha => h.rem a (by simp [hq, ha]))
    have := (h0.ensure ⟨(src, f), hreach, rfl⟩ hf).2.2 rfl
    exact absurd this (hc.fetch_ok (src, f) hreach)
  | skip _ _ q src f st1 c hq hf ha => exact hne
  | analyse _ _ q src f st1 c decls hq hf ha hd =>
    have hreach : Reach w ops (src, f) := h.rem _ (by simp [hq])
    have h0 := h.setRemote q (fun a ha => h.rem a (by simp [hq, ha]))
    obtain ⟨_, hcc, _⟩ := h0.ensure ⟨(src, f), hreach, rfl⟩ hf
    obtain ⟨hfc, _⟩ := hcc c rfl
    have hdecls : decls = declsOf w (src, f) := by rw [hd, declsOf_eq hfc]
    have h1 : relErrs src decls = [] :=
      relErrs_nil (fun rel g hm => hc.rel_ok (src, f) rel g hreach (hdecls ▸ hm))
    have h2 : hasErrors (finderDiags src.pkg decls) = false :=
      finderDiags_clean (fun s file hm => hc.no_err_diag (src, f) s file hreach (hdecls ▸ hm))
    simp [hasErrors_append, hne, h1, h2]

theorem SInv.dirsCoh {w : World} {ops : List Op} {st : BState} (h : SInv w ops st) :
    DirsCoh w st := fun p c hp => by
  obtain ⟨pm, h1, _⟩ := h.dirs p c hp
  exact fetchContent_of_assoc h1

/-- idle, coherent, not poisoned -/
structure Ready (w : World) (ops : List Op) (st : BState) : Prop where
  s : SInv w ops st
  rem : st.pendingRemote = []
  reg : st.pendingRegistry = []
  ok : st.poisoned = false

theorem applyOp_clean {w : World} {ops : List Op} {fuel : Nat} {st : BState} {op : Op}
    (hc : Clean w ops) (hf : fuelBound w ≤ fuel) (h : Ready w ops st) (hop : op ∈ ops) :
    (applyOp w fuel st op).2.clean = true ∧ Ready w ops (applyOp w fuel st op).1 := by
  unfold applyOp
  have hp : ¬ st.poisoned = true := by simp [h.ok]
  rw [if_neg hp]
  have key : ∀ st1 : BState, SInv w ops st1 → drainMeasure w false st1 < fuelBound w →
      st1.poisoned = false →
      (match drain w fuel false st1 [] with
        | .diverged => (st1, OpResult.diverged)
        | .done st2 ds => ({ st2 with poisoned := hasErrors ds }, .diags ds)).2.clean = true ∧
      Ready w ops (match drain w fuel false st1 [] with
        | .diverged => (st1, OpResult.diverged)
        | .done st2 ds => ({ st2 with poisoned := hasErrors ds }, .diags ds)).1 := by
    intro st1 h1 hm hp1
    obtain ⟨st', ds', hd, _⟩ := drain_fuel w fuel st1 hf h1.dirsCoh hm
    rw [hd]
    have := drain_inv w (fun _ st ds => SInv w ops st ∧ hasErrors ds = false)
      (fun _ _ _ _ _ _ hs hi => ⟨hs.sinv hi.1, hs.clean hi.1 hc hi.2⟩)
      _ _ _ _ _ _ ⟨h1, rfl⟩ hd
    obtain ⟨⟨s2, hne⟩, r2, g2⟩ := this
    exact ⟨by simp [OpResult.clean, hne], s2.setPoisoned _, r2, g2, hne⟩
  cases op with
  | addRemote src f =>
    by_cases ha : st.analyzed.contains (src, f) = true
    · simp only [ha, if_true]
      exact ⟨rfl, h⟩
    · simp only [ha]
      refine key _ (h.s.setRemote _ (fun a ha' => ?_)) ?_ h.ok
      · rcases List.mem_append.mp ha' with ha' | ha'
        · exact h.s.rem a ha'
        · simp at ha'; subst ha'; exact .start _ _ hop (.remote src f)
      · exact idle_measure w st (st.pendingRemote ++ [(src, f)]) st.pendingRegistry
          (by simp [h.rem, h.reg])
  | addRegistry rs al f =>
    simp only
    refine key _ (h.s.setRegistry _ (fun r hr => ?_)) ?_ h.ok
    · rcases List.mem_append.mp hr with hr | hr
      · exact h.s.reg r hr
      · simp at hr; subst hr; exact .op rs al f hop
    · exact idle_measure w st st.pendingRemote (st.pendingRegistry ++ [(rs, al, f)])
        (by simp [h.rem, h.reg])

theorem runOps_clean {w : World} {ops : List Op} {fuel : Nat} (hc : Clean w ops)
    (hf : fuelBound w ≤ fuel) (ops' : List Op) :
    ∀ st, Ready w ops st → (∀ op ∈ ops', op ∈ ops) → ErrorFree (runOps w fuel st ops').2 := by
  induction ops' with
  | nil => intro st _ _ r hr; simp [runOps] at hr
  | cons op r ih =>
    intro st h hsub x hx
    simp only [runOps] at hx
    obtain ⟨h1, h2⟩ := applyOp_clean (fuel := fuel) hc hf h (hsub op List.mem_cons_self)
    rcases List.mem_cons.mp hx with rfl | hx
    · exact h1
    · exact ih _ h2 (fun o ho => hsub o (List.mem_cons_of_mem _ ho)) x hx

theorem ready_init (w : World) (ops : List Op) : Ready w ops BState.init :=
  ⟨SInv.init w ops, rfl, rfl, rfl⟩

end Slug
