import SlugModel.Lemmas.Path
import SlugModel.Spec.SubPath
/-! `joinSubPath` on segments is the failing segment stack (core of C11). -/
namespace Slug

/-- what the code does, on segments: `path.Join` then `fs.ValidPath` -/
def joinSub (a b : List Seg) : Option (List Seg) :=
  if dotdot ∈ run false [] (a ++ b) then none else some (run false [] (a ++ b)).reverse

def AllPlain (st : List Seg) : Prop := ∀ s ∈ st, Plain s

theorem run_nil (r : Bool) (st : List Seg) : run r st [] = st := rfl
theorem run_cons (r : Bool) (st : List Seg) (s : Seg) (b : List Seg) :
    run r st (s :: b) = run r (step r st s) b := rfl
theorem applyRel_nil (acc : Option (List Seg)) : applyRel acc [] = acc := rfl
theorem applyRel_cons (acc : Option (List Seg)) (s : Seg) (b : List Seg) :
    applyRel acc (s :: b) = applyRel (applyStep acc s) b := rfl

theorem applyRel_none (b : List Seg) : applyRel none b = none := by
  induction b with
  | nil => rfl
  | cons s b ih => rw [applyRel_cons]; exact ih

theorem allPlain_cons {s : Seg} {st : List Seg} (hs : Plain s) (h : AllPlain st) : AllPlain (s :: st) := by
  intro y hy
  rcases List.mem_cons.mp hy with rfl | hy
  · exact hs
  · exact h y hy

theorem allPlain_tail {s : Seg} {st : List Seg} (h : AllPlain (s :: st)) : AllPlain st :=
  fun y hy => h y (List.mem_cons_of_mem _ hy)

/-- a block of `..` at the bottom of the machine's stack is never removed -/
theorem dd_persist (b : List Seg) : ∀ (top dots : List Seg), AllPlain top → dots ≠ [] →
    (∀ s ∈ dots, s = dotdot) → dotdot ∈ run false (top ++ dots) b := by
  induction b with
  | nil =>
    intro top dots _ hne hall
    rw [run_nil]
    cases dots with
    | nil => exact absurd rfl hne
    | cons x xs => have := hall x (by simp); subst this; simp
  | cons s b ih =>
    intro top dots htop hne hall
    rw [run_cons]
    by_cases h1 : s = [] ∨ s = dot
    · have : step false (top ++ dots) s = top ++ dots := by simp [step, h1]
      rw [this]; exact ih top dots htop hne hall
    · by_cases h2 : s = dotdot
      · subst h2
        cases top with
        | nil =>
          cases dots with
          | nil => exact absurd rfl hne
          | cons x xs =>
            have hx := hall x (by simp)
            subst hx
            have : step false ([] ++ dotdot :: xs) dotdot = [] ++ (dotdot :: dotdot :: xs) := by
              simp [step]
            rw [this]
            exact ih [] (dotdot :: dotdot :: xs) (by intro y hy; cases hy) (by simp) (by
              intro y hy
              simp only [List.mem_cons] at hy
              rcases hy with rfl | rfl | hy
              · rfl
              · rfl
              · exact hall y (by simp [hy]))
        | cons t ts =>
          have ht : t ≠ dotdot := (htop t (by simp)).2.2
          have : step false ((t :: ts) ++ dots) dotdot = ts ++ dots := by
            simp [step, ht]
          rw [this]
          exact ih ts dots (allPlain_tail htop) hne hall
      · have hp : Plain s := ⟨fun e => h1 (Or.inl e), fun e => h1 (Or.inr e), h2⟩
        have : step false (top ++ dots) s = (s :: top) ++ dots := by
          simp [step, h1, h2]
        rw [this]
        exact ih (s :: top) dots (allPlain_cons hp htop) hne hall

/-- machine vs. specification, from any stack of plain names -/
theorem run_vs_apply (b : List Seg) : ∀ st : List Seg, AllPlain st →
    match applyRel (some st) b with
    | some r => run false st b = r ∧ AllPlain r
    | none => dotdot ∈ run false st b := by
  induction b with
  | nil =>
    intro st hst
    rw [applyRel_nil, run_nil]
    exact ⟨rfl, hst⟩
  | cons s b ih =>
    intro st hst
    rw [applyRel_cons, run_cons]
    by_cases h1 : s = [] ∨ s = dot
    · have e1 : applyStep (some st) s = some st := by simp [applyStep, h1]
      have e2 : step false st s = st := by simp [step, h1]
      rw [e1, e2]; exact ih st hst
    · by_cases h2 : s = dotdot
      · subst h2
        cases st with
        | nil =>
          have e1 : applyStep (some []) dotdot = none := by simp [applyStep]
          have e2 : step false [] dotdot = [dotdot] := by simp [step]
          rw [e1, e2, applyRel_none]
          have := dd_persist b [] [dotdot] (by intro y hy; cases hy) (by simp) (by simp)
          simpa using this
        | cons t ts =>
          have ht : t ≠ dotdot := (hst t (by simp)).2.2
          have e1 : applyStep (some (t :: ts)) dotdot = some ts := by simp [applyStep]
          have e2 : step false (t :: ts) dotdot = ts := by simp [step, ht]
          rw [e1, e2]; exact ih ts (allPlain_tail hst)
      · have hp : Plain s := ⟨fun e => h1 (Or.inl e), fun e => h1 (Or.inr e), h2⟩
        have e1 : applyStep (some st) s = some (s :: st) := by simp [applyStep, h1, h2]
        have e2 : step false st s = s :: st := by simp [step, h1, h2]
        rw [e1, e2]; exact ih (s :: st) (allPlain_cons hp hst)

theorem plain_no_dd (st : List Seg) (h : AllPlain st) : dotdot ∉ st :=
  fun hm => (h dotdot hm).2.2 rfl

theorem normal_of_allPlain (l : List Seg) (hl : AllPlain l) : Normal false l := by
  induction l with
  | nil => exact Normal.nil
  | cons y ys ih => exact Normal.name y ys (hl y (by simp)) (ih (allPlain_tail hl))

/-- C11 core: for a valid base sub-path `a` (plain segments), joining `b` succeeds exactly when
the stack never underflows, and then yields the stack's content. -/
theorem joinSub_spec (a b : List Seg) (ha : AllPlain a) :
    joinSub a b = (applyRel (some a.reverse) b).map List.reverse := by
  have hrev : AllPlain a.reverse := fun s hs => ha s (List.mem_reverse.mp hs)
  have hstart : run false [] (a ++ b) = run false a.reverse b := by
    rw [run_append]
    have := replay false a.reverse (normal_of_allPlain _ hrev)
    rw [List.reverse_reverse] at this
    rw [this]
  unfold joinSub
  rw [hstart]
  have := run_vs_apply b a.reverse hrev
  cases hap : applyRel (some a.reverse) b with
  | none =>
    rw [hap] at this
    simp [this]
  | some r =>
    rw [hap] at this
    obtain ⟨e, hr⟩ := this
    simp [e, plain_no_dd r hr]




end Slug
