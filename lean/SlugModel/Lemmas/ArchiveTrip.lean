import SlugModel.Props.C02
import SlugModel.Props.C15r
/-!
# ArchiveTrip — the Pack/Unpack round trip with dereferencing switched on

`Bundle.WriteArchive` packs with `DereferenceSymlinks()`; the theorems of Props/C02 are stated for
`dereference = false`.  In `packWalkFn` (slug.go, symlink case) — and in `visit` (Pack.lean) — the
flag is consulted only after `validSymlink` has *rejected* a link: an accepted link is written as a
link entry either way.  So on a tree all of whose links are accepted the flag is irrelevant.

* `at_visit_deref`, `at_walk_deref`: by induction on the fuel of the mutual recursion
  `walkNode`/`walkChildren`/`visit` (the scheme of `pk_walk_illegal`, Lemmas/PackInv): a walk
  without dereferencing that does not end in "illegal slug" is, step for step, the walk with
  dereferencing — the only place the two differ is the branch that returns "illegal slug".
* `pack_deref_of_not_illegal`, `pack_deref_irrelevant_disk`, `pack_deref_irrelevant`: the same for
  `pack`, with the hypothesis in three forms (result not illegal / every link on disk accepted / the
  `linksAccepted` clause of `C02Scope` on a physical clean source).
* `at_validSymlink_of_tidy`: a relative, tidy target that stays below the root is accepted, so the
  link clause follows from the tidy-target condition of `C02_pack_wellformed`.
* `ArchiveScope` = `C02Scope` without `noDeref`; `at_pack_preorder`, `at_pack_untar`,
  `at_pack_wellformed`, `at_roundtrip`: the theorems of Props/C02 (the last with
  `C15_refines_partial` plugged in, as in `C02_roundtrip_filtered_partial`) for either value of the flag.
-/
namespace Slug

/-- the option set with the dereference flag replaced -/
abbrev PackOpts.der (o : PackOpts) (b : Bool) : PackOpts := { o with dereference := b }

section
variable (fs : FS) (cwd : Str) (o : PackOpts) (rules : Option (List Rule)) (root : Str)

/-- the callback: unless it answers "illegal slug" without dereferencing, it does the same with
dereferencing (the flag is read only after `validSymlink` said no) -/
theorem at_visit_deref (fuel : Nat) (src dst path : Str) (node : Node) (st : PState)
    (h : (visit fs cwd (o.der false) rules root src dst fuel path node st).2 ≠ .stop .illegal) :
    visit fs cwd (o.der true) rules root src dst fuel path node st =
      visit fs cwd (o.der false) rules root src dst fuel path node st := by
  cases fuel with
  | zero => rw [visit, visit]
  | succ f =>
    cases node with
    | special => rw [visit, visit] <;> (intro _ _ h; cases h)
    | dir pm mt => rw [visit, visit]
    | file pm mt c => rw [visit, visit] <;> (intro _ _ h; cases h)
    | link t =>
      rw [visit] at h ⊢
      rw [visit]
      · simp only [] at h ⊢
        cases h1 : pathRel src path with
        | none => rfl
        | some sub0 =>
          simp only [h1] at h ⊢
          by_cases h2 : sub0 = dot
          · simp only [h2, if_true]
          · simp only [h2, if_false] at h ⊢
            cases h3 : pathRel root (replaceFirst path src dst) with
            | none => rfl
            | some sub =>
              simp only [h3] at h ⊢
              by_cases h4 : sub = dot
              · simp only [h4, if_true]
              · simp only [h4, if_false] at h ⊢
                by_cases h5 : (ruleExcludes rules sub).fst = true
                · simp only [h5, if_true]
                · simp only [h5, if_false, Bool.false_eq_true] at h ⊢
                  by_cases hv : validSymlink cwd o.allow root path t = true
                  · simp only [hv, if_true]
                  · exfalso
                    apply h
                    simp [hv]
      all_goals (intro _ _ h; cases h)

/-- the walk: by induction on the fuel, for `walkNode` and `walkChildren` together (an "illegal slug"
from a callback or a child travels up unchanged, so a walk that does not end in it never met one) -/
theorem at_walk_deref : ∀ fuel : Nat,
    (∀ src dst path node st,
      (walkNode fs cwd (o.der false) rules root src dst fuel path node st).2 ≠ .stop .illegal →
      walkNode fs cwd (o.der true) rules root src dst fuel path node st =
        walkNode fs cwd (o.der false) rules root src dst fuel path node st) ∧
    (∀ src dst path names st,
      (walkChildren fs cwd (o.der false) rules root src dst fuel path names st).2 ≠ .stop .illegal →
      walkChildren fs cwd (o.der true) rules root src dst fuel path names st =
        walkChildren fs cwd (o.der false) rules root src dst fuel path names st) := by
  intro fuel
  induction fuel with
  | zero =>
    refine ⟨?_, ?_⟩
    · intro src dst path node st _; rw [walkNode, walkNode]
    · intro src dst path names st _; rw [walkChildren, walkChildren]
  | succ fuel ih =>
    obtain ⟨ihN, ihC⟩ := ih
    refine ⟨?_, ?_⟩
    · intro src dst path node st h
      have hv : visit fs cwd (o.der true) rules root src dst fuel path node st =
          visit fs cwd (o.der false) rules root src dst fuel path node st := by
        apply at_visit_deref
        intro hx
        apply h
        rw [pk_walkNode_stop_of_visit fs cwd (o.der false) rules root src dst fuel path node st _ .illegal
          (Prod.ext rfl hx)]
      cases node with
      | file perm mt c => rw [walkNode, walkNode]; exact hv; all_goals (intro _ _ h; cases h)
      | link t => rw [walkNode, walkNode]; exact hv; all_goals (intro _ _ h; cases h)
      | special => rw [walkNode, walkNode]; exact hv; all_goals (intro _ _ h; cases h)
      | dir perm mt =>
        rw [walkNode] at h ⊢
        rw [walkNode]
        simp only [hv] at h ⊢
        generalize visit fs cwd (o.der false) rules root src dst fuel path (Node.dir perm mt) st = x at h ⊢
        obtain ⟨st1, r⟩ := x
        cases r with
        | cont =>
          simp only at h ⊢
          cases hp : fs.resolvePath path true with
          | error e => rfl
          | ok p =>
            simp only [hp] at h ⊢
            exact ihC _ _ _ _ _ h
        | skipDir => rfl
        | stop x => rfl
    · intro src dst path names st h
      cases names with
      | nil => rw [walkChildren, walkChildren]
      | cons name rest =>
        rw [walkChildren] at h ⊢
        rw [walkChildren]
        simp only at h ⊢
        cases hl : fs.lstat (pathJoin path name) with
        | error e => rfl
        | ok child =>
          simp only [hl] at h ⊢
          have hn : walkNode fs cwd (o.der true) rules root src dst fuel (pathJoin path name) child st =
              walkNode fs cwd (o.der false) rules root src dst fuel (pathJoin path name) child st := by
            apply ihN
            intro hx
            apply h
            rw [hx]
          simp only [hn] at h ⊢
          generalize walkNode fs cwd (o.der false) rules root src dst fuel (pathJoin path name) child st = x at h ⊢
          obtain ⟨st1, r⟩ := x
          cases r with
          | cont => exact ihC _ _ _ _ _ h
          | skipDir =>
            cases child with
            | dir pm mt => exact ihC _ _ _ _ _ h
            | file pm mt c => rfl
            | link t => rfl
            | special => rfl
          | stop x => rfl

end

/-- the rule set `Pack` walks with does not depend on the dereference flag -/
theorem pk_rules_der (fs : FS) (cwd : Str) (o : PackOpts) (src : Str) (b : Bool) :
    pkRules fs cwd (o.der b) src = pkRules fs cwd o src := rfl

/-- unless `Pack` without dereferencing reports an illegal slug, switching dereferencing on changes
nothing: same entries, same `Meta`, same result -/
theorem pack_deref_of_not_illegal (fs : FS) (cwd : Str) (o : PackOpts) (src : Str)
    (h : (pack fs cwd { o with dereference := false } src).2 ≠ .illegal) :
    pack fs cwd { o with dereference := true } src = pack fs cwd { o with dereference := false } src := by
  rw [pk_pack_eq] at h ⊢
  rw [pk_pack_eq fs cwd (o.der false)]
  cases hi : pkRootInfo fs cwd src with
  | error e => rfl
  | ok info =>
    simp only [hi] at h ⊢
    cases hn : fs.lstat (pkRoot fs cwd src) with
    | error e => rfl
    | ok n =>
      simp only [hn] at h ⊢
      have hw := (at_walk_deref fs cwd o (pkRules fs cwd o src) (pkRoot fs cwd src) packFuel).1
        (pkRoot fs cwd src) (pkRoot fs cwd src) (pkRoot fs cwd src) n pkEmpty (by
          intro hx
          apply h
          unfold pkFinish
          rw [pk_rules_der, hx])
      rw [pk_rules_der, hw]
      rfl

/-- the same with the hypothesis on the filesystem: every symlink on disk is accepted for the walk root -/
theorem pack_deref_irrelevant_disk (fs : FS) (cwd : Str) (o : PackOpts) (src : Str)
    (hacc : ∀ path t, fs.lstat path = .ok (.link t) →
      validSymlink cwd o.allow (pkRoot fs cwd src) path t = true) :
    pack fs cwd { o with dereference := true } src = pack fs cwd { o with dereference := false } src := by
  apply pack_deref_of_not_illegal
  intro h
  obtain ⟨_, path, t, hl, hv⟩ := pk_pack_illegal fs cwd (o.der false) src h
  rw [hacc path t hl] at hv
  cases hv

/-- the hypotheses of the lemma layer under C02 (`RtCtx`) for the flag switched off -/
theorem at_ctx {fs : FS} {cwd : Str} {o : PackOpts} {src : Str}
    (hclean : AbsClean src)
    (hphys : ∀ q, q ≠ [] → q <+: pathSegs src → ∃ perm mt, fs.get q = some (.dir perm mt))
    (hnames : PackNamesOK fs) (hdepth : ∀ e ∈ fs, pathSegs src <+: e.1 → e.1.length < resolveFuel)
    (hlinks : ∀ r t, srcNode fs (pathSegs src) r = some (.link t) →
      validSymlink cwd o.allow src (ofSegs (pathSegs src ++ r)) t = true) :
    RtCtx fs cwd (o.der false) src :=
  ⟨rfl, hclean, hphys, hnames, hdepth, fun r t hr => hlinks r t (rt_srcNode_link.mpr hr)⟩

/-- **`pack_deref_irrelevant`.** On a source directory that is an absolute clean path of real directories,
with plain names, bounded depth and no ignore processing: if every link of the source tree is accepted by
`validSymlink` (the `linksAccepted` clause of `C02Scope`), `Pack` with dereferencing on and off return
the same thing — same entries, same `Meta`, same result.  No fuel hypothesis: when the model's fuel runs
out it runs out at the same place in both. -/
theorem pack_deref_irrelevant {fs : FS} {cwd : Str} {o : PackOpts} {src : Str}
    (hign : o.applyIgnore = false) (hclean : AbsClean src)
    (hphys : ∀ q, q ≠ [] → q <+: pathSegs src → ∃ perm mt, fs.get q = some (.dir perm mt))
    (hnames : PackNamesOK fs) (hdepth : ∀ e ∈ fs, pathSegs src <+: e.1 → e.1.length < resolveFuel)
    (hlinks : ∀ r t, srcNode fs (pathSegs src) r = some (.link t) →
      validSymlink cwd o.allow src (ofSegs (pathSegs src ++ r)) t = true) :
    pack fs cwd { o with dereference := true } src = pack fs cwd { o with dereference := false } src := by
  apply pack_deref_of_not_illegal
  obtain ⟨res, hpack, hout⟩ := rt_pack_out (at_ctx hclean hphys hnames hdepth hlinks) hign
  show (pack fs cwd (o.der false) src).2 ≠ .illegal
  rw [hpack]
  unfold pkFinish
  rcases hout with ⟨h, _⟩ | ⟨h, _⟩ <;> rw [h] <;> intro e <;> cases e

/-- a relative link target that is tidy (all `..` first) and climbs fewer levels than the link's
depth below `root` is accepted by `validSymlink`, whatever the allow-list: the test `Pack` applies
(link path absolute) -/
theorem at_validSymlink_of_tidy (cwd : Str) (allow : List Str) {root : Str} (hroot : AbsClean root)
    {r : RelPath} (hr : r ≠ []) (hNr : ∀ x ∈ r, NameNS x) {t : Str} (habs : isAbs t = false)
    {ups : Nat} {names : List Seg}
    (hseg : pathSegs t = List.replicate ups dotdot ++ names) (hnames : ∀ s ∈ names, s ≠ dotdot)
    (hups : ups < r.length) :
    validSymlink cwd allow root (ofSegs (pathSegs root ++ r)) t = true := by
  have hND := absClean_segs root hroot
  have hNP := ur_names_append hND hNr
  have hpc : AbsClean (ofSegs (pathSegs root ++ r)) := absClean_ofSegs _ hNP
  have hsegs : pathSegs (ofSegs (pathSegs root ++ r)) = pathSegs root ++ r := pathSegs_ofSegs _ hNP
  have hdir := pathDir_absClean _ hpc
  have hw : isWithin root (pathJoin (pathDir (ofSegs (pathSegs root ++ r))) t) = true := by
    rw [isWithin_iff root _ hroot (pathJoin_absClean _ t hdir.1), pathSegs_pathJoin _ t hdir.1,
      pathSegs_pathDir _ hpc, hsegs, List.dropLast_append_of_ne_nil hr, hseg]
    have hnp : ∀ x ∈ names, Plain x := by
      intro x hx
      have hm : x ∈ pathSegs t := by rw [hseg]; exact List.mem_append_right _ hx
      obtain ⟨_, h2, h3⟩ := pathSegs_mem t x hm
      exact ⟨h2, h3, hnames x hx⟩
    apply ur_clean_ups _ _ hnp
    · intro x hx
      rcases List.mem_append.mp hx with h | h
      · exact (hND x h).1
      · exact (hNr x (List.dropLast_subset r h)).1
    · rw [List.length_dropLast]; omega
  unfold validSymlink
  simp only [pathAbs_absClean cwd root hroot, hpc.1, if_true, habs, Bool.false_eq_true, if_false, hw]

/-- the scope of C02 (`C02Scope`, Props/C02) with the dereference flag left open: no ignore processing;
the source an absolute clean path of real directories; plain names; bounded depth; every link of the
source tree accepted by `validSymlink`; the model's fuel suffices (for the option set as given) -/
structure ArchiveScope (fs : FS) (cwd : Str) (o : PackOpts) (src : Str) : Prop where
  noIgnore : o.applyIgnore = false
  srcClean : AbsClean src
  srcPhysical : ∀ q, q ≠ [] → q <+: pathSegs src → ∃ perm mt, fs.get q = some (.dir perm mt)
  names : PackNamesOK fs
  depth : ∀ e ∈ fs, pathSegs src <+: e.1 → e.1.length < resolveFuel
  linksAccepted : ∀ r t, srcNode fs (pathSegs src) r = some (.link t) →
    validSymlink cwd o.allow src (ofSegs (pathSegs src ++ r)) t = true
  fuel : (pack fs cwd o src).2 ≠ .diverged

/-- replacing the flag by itself -/
theorem PackOpts.der_self (o : PackOpts) : o.der o.dereference = o := rfl

/-- in scope the flag does not matter -/
theorem ArchiveScope.pack_eq {fs : FS} {cwd : Str} {o : PackOpts} {src : Str} (h : ArchiveScope fs cwd o src) :
    pack fs cwd o src = pack fs cwd { o with dereference := false } src := by
  cases hd : o.dereference with
  | false => rw [← hd]
  | true =>
    rw [← pack_deref_irrelevant h.noIgnore h.srcClean h.srcPhysical h.names h.depth h.linksAccepted, ← hd]

/-- … and the scope of C02 holds for the option set with the flag off -/
theorem ArchiveScope.toC02 {fs : FS} {cwd : Str} {o : PackOpts} {src : Str} (h : ArchiveScope fs cwd o src) :
    C02Scope fs cwd { o with dereference := false } src :=
  ⟨h.noIgnore, rfl, h.srcClean, h.srcPhysical, h.names, h.depth, h.linksAccepted, by
    rw [← h.pack_eq]; exact h.fuel⟩

/-- the link clause from the tidy-target condition -/
theorem at_links_of_tidy {fs : FS} {src : Str} (cwd : Str) (allow : List Str)
    (hclean : AbsClean src) (hnames : PackNamesOK fs)
    (htidy : ∀ r t, srcNode fs (pathSegs src) r = some (.link t) → t ≠ [] ∧ isAbs t = false ∧
      ∃ ups names, pathSegs t = List.replicate ups dotdot ++ names ∧ (∀ s ∈ names, s ≠ dotdot) ∧ ups < r.length) :
    ∀ r t, srcNode fs (pathSegs src) r = some (.link t) →
      validSymlink cwd allow src (ofSegs (pathSegs src ++ r)) t = true := by
  intro r t hr
  obtain ⟨_, habs, ups, names, hseg, hn, hups⟩ := htidy r t hr
  have hraw := rt_srcNode_link.mp hr
  exact at_validSymlink_of_tidy cwd allow hclean (rt_raw_some.mp hraw).1
    (fun c hc => rt_raw_names hnames hraw c (List.mem_append_right _ hc)) habs hseg hn hups

/-- the fuel clause from a size bound -/
theorem ArchiveScope.of_size {fs : FS} {cwd : Str} {o : PackOpts} {src : Str}
    (h1 : o.applyIgnore = false) (h3 : AbsClean src)
    (h4 : ∀ q, q ≠ [] → q <+: pathSegs src → ∃ perm mt, fs.get q = some (.dir perm mt))
    (h5 : PackNamesOK fs) (h6 : ∀ e ∈ fs, pathSegs src <+: e.1 → e.1.length < resolveFuel)
    (h7 : ∀ r t, srcNode fs (pathSegs src) r = some (.link t) →
      validSymlink cwd o.allow src (ofSegs (pathSegs src ++ r)) t = true)
    (hsize : 2 * fs.length + 2 ≤ packFuel) : ArchiveScope fs cwd o src := by
  refine ⟨h1, h3, h4, h5, h6, h7, ?_⟩
  have hf := C02_fuel_sufficient fs cwd (o.der false) src h1 rfl h3 h4 h5 h6 h7 hsize
  cases hd : o.dereference with
  | false => rw [← o.der_self, hd]; exact hf
  | true => rw [← o.der_self, hd, pack_deref_irrelevant h1 h3 h4 h5 h6 h7]; exact hf

section
variable {fs : FS} {cwd : Str} {o : PackOpts} {src : Str}

/-- `C02_pack_preorder` for either value of the dereference flag -/
theorem at_pack_preorder (h : ArchiveScope fs cwd o src) :
    (pack fs cwd o src).2 = .ok ∧
    ((pack fs cwd o src).1.entries.map (fun e => entryRel e.name)).Nodup ∧
    (∀ r, r ∈ (pack fs cwd o src).1.entries.map (fun e => entryRel e.name) ↔
      (srcNode fs (pathSegs src) r).isSome = true) ∧
    (∀ e ∈ (pack fs cwd o src).1.entries, ∃ nd, rtRaw fs (pathSegs src) (entryRel e.name) = some nd ∧
      nd ≠ .special ∧ e = rtEntry (entryRel e.name) nd) ∧
    (∀ A e B, (pack fs cwd o src).1.entries = A ++ e :: B → ∀ q ∈ properPrefixes (entryRel e.name),
      ∃ d ∈ A, d.isDir = true ∧ entryRel d.name = q) ∧
    ((pack fs cwd o src).1.entries.map (fun e => entryRel e.name)).Pairwise (· < ·) := by
  rw [h.pack_eq]
  exact C02_pack_preorder _ _ _ _ h.toC02

/-- `C02_pack_untar` for either value of the dereference flag -/
theorem at_pack_untar (h : ArchiveScope fs cwd o src) :
    ∃ t, untar (pack fs cwd o src).1.entries = some t ∧
      ∀ r, r ≠ [] → treeGet t r = srcNode fs (pathSegs src) r := by
  rw [h.pack_eq]
  exact C02_pack_untar _ _ _ _ h.toC02

/-- `C02_pack_wellformed` for either value of the dereference flag -/
theorem at_pack_wellformed (h : ArchiveScope fs cwd o src)
    (htidy : ∀ r t, srcNode fs (pathSegs src) r = some (.link t) → t ≠ [] ∧ isAbs t = false ∧
      ∃ ups names, pathSegs t = List.replicate ups dotdot ++ names ∧ (∀ s ∈ names, s ≠ dotdot) ∧ ups < r.length) :
    WellFormedArchive (pack fs cwd o src).1.entries ∧
    (∀ e ∈ (pack fs cwd o src).1.entries, e.isTypeX = false) := by
  rw [h.pack_eq]
  exact C02_pack_wellformed _ _ _ _ h.toC02 htidy

/-- **the round trip for either value of the dereference flag**, against the Unpack model itself
(`C02_roundtrip_model_partial` with `C15_refines_partial` plugged in, as `C02_roundtrip_filtered_partial`
does): in scope, with tidy relative in-tree links, for a destination `dst` (absolute, clean, not `/`)
that is an existing empty real directory of `fs'` and extraction paths shorter than the resolver's fuel,
`Unpack` of `Pack`'s output succeeds and at every non-empty relative path below `dst` the filesystem has
exactly the source node as the archive records it (`srcNode`). -/
theorem at_roundtrip (h : ArchiveScope fs cwd o src)
    (htidy : ∀ r t, srcNode fs (pathSegs src) r = some (.link t) → t ≠ [] ∧ isAbs t = false ∧
      ∃ ups names, pathSegs t = List.replicate ups dotdot ++ names ∧ (∀ s ∈ names, s ≠ dotdot) ∧ ups < r.length)
    (cwd' dst : Str) (priv : Bool) (fs' : FS)
    (hdst : DstOK dst) (hreal : RealDir fs' (pathSegs dst))
    (hempty : ∀ q, pathSegs dst <+: q → q ≠ pathSegs dst → fs'.get q = none)
    (hshallow : ∀ r, (srcNode fs (pathSegs src) r).isSome = true →
      (pathSegs dst).length + r.length < resolveFuel) :
    (unpack cwd' [] priv dst .none fs' (pack fs cwd o src).1.entries).2 = .ok ∧
    ∀ r, r ≠ [] →
      ((unpack cwd' [] priv dst .none fs' (pack fs cwd o src).1.entries).1).get (pathSegs dst ++ r) =
        srcNode fs (pathSegs src) r := by
  rw [h.pack_eq]
  exact C02_roundtrip_model_partial _ _ _ _ h.toC02 htidy cwd' dst priv fs' hshallow
    (fun _ _ hwf hx hsh hu => C15_refines_partial (cwd := cwd') (priv := priv) hdst hreal hempty hwf
      (UrXFlat.free hx) hsh hu)

end

end Slug
