import SlugModel.Generated.Tr_readRules
import SlugModel.Ignore
/-!
# `readRules`: the model function equals the translation of the Go function

The definition `Slug.Gen.readRules` (Generated/Tr_readRules.lean) is rewritten from /repo by harness/cmd/go2lean on
every run; the theorem here is re-checked against it.

The translation takes the lines `bufio.Scanner` delivers and returns `(rules, error non-nil)`; the model's
`readRules` takes the content of the rule file, splits it with `scanLines` and folds `readLine` over the lines,
with the rule list reversed (most recent rule first).  The equality holds for every list of lines
(`gen_readRules_lines`), hence for the lines of every content (`gen_readRules`); the error result is never set
(the scanner's error is not modelled).

The line loop: its state is `(rules, currentRuleIndex)`; with `acc` the model's reversed accumulator the invariant
is `rules = acc.reverse` and `currentRuleIndex = len(rules) - 1` (`rr_lines_forIn`: a loop whose body maps
`(acc.reverse, |acc| - 1)` to `((readLine acc line).reverse, |readLine acc line| - 1)` computes the fold of
`readLine`).  Initially `copy(make([]rule, n), defaultExclusions)` is `defaultRules` (`rr_copy_zero`).
The `continue` cases of the body are the cases in which `readLine` returns `acc` unchanged (empty line, blank
line, comment, a lone `!`).
The marking loop `for i := currentRuleIndex; i >= 0; i--` walks the rule list from its last element backwards
and sets `negationsAfter` until it meets a rule that has it already: on the reversed list that is `markBack`
(`markBack_loop`, by induction on the reversed list with the rules already visited as an untouched suffix).
The pattern normalisation that ends an iteration is `normPat` (`rr_tail_ifs`), the expression of `readLine`
(`readLine_cons`).
-/
namespace Slug

/-- the values of `for i := n-1; i >= 0; i--` -/
theorem rangeDown_pred (n : Nat) :
    Go.rangeDown ((n : Int) - 1) = ((List.range n).map (fun (k : Nat) => Int.ofNat k)).reverse := by
  unfold Go.rangeDown
  cases n with
  | zero => simp
  | succ m =>
    have h1 : ¬ (((m + 1 : Nat) : Int) - 1 < 0) := by omega
    have h2 : (((m + 1 : Nat) : Int) - 1).toNat + 1 = m + 1 := by omega
    simp only [h1, h2, if_false]

/-- … the first of them is `n`, when the loop starts at `n` -/
theorem rangeDown_succ (n : Nat) :
    Go.rangeDown (((n + 1 : Nat) : Int) - 1) = (n : Int) :: Go.rangeDown ((n : Int) - 1) := by
  rw [rangeDown_pred, rangeDown_pred, List.range_succ]
  simp

/-- `rs[len(xs)]` of `xs ++ r :: suf` -/
theorem ruleAt_mid (xs suf : List Rule) (r : Rule) :
    Go.ruleAt (xs ++ r :: suf) (xs.length : Int) = r := by
  have h : ¬ ((xs.length : Int) < 0) := by omega
  simp [Go.ruleAt, h]

/-- `rs[len(xs)].field = v` on `xs ++ r :: suf` -/
theorem setRuleAt_mid (xs suf : List Rule) (r : Rule) (f : Rule → Rule) :
    Go.setRuleAt (xs ++ r :: suf) (xs.length : Int) f = xs ++ f r :: suf := by
  have h : ¬ ((xs.length : Int) < 0) := by omega
  have h2 : (xs ++ r :: suf).modify xs.length f = xs ++ f r :: suf := by
    induction xs with
    | nil => simp
    | cons x xs ih => simp [ih]
  simp [Go.setRuleAt, h, h2]

/-- the body of the marking loop -/
def markBody (i : Int) (rules : List Rule) : Id (ForInStep (List Rule)) :=
  if (Go.ruleAt rules i).negAfter = true then pure (ForInStep.done rules)
  else pure (ForInStep.yield (Go.setRuleAt rules i fun r => { val := r.val, negated := r.negated, negAfter := true }))

/-- the marking loop started at the last rule of `acc.reverse`, with the rules after it (`suf`) untouched,
is `markBack` on the reversed list -/
theorem markBack_loop_gen (acc suf : List Rule) :
    forIn (m := Id) (Go.rangeDown ((acc.length : Int) - 1)) (acc.reverse ++ suf) markBody =
      pure ((markBack acc).reverse ++ suf) := by
  induction acc generalizing suf with
  | nil => simp [Go.rangeDown, markBack]
  | cons r rs ih =>
    rw [List.length_cons, rangeDown_succ, List.forIn_cons, List.reverse_cons, List.append_assoc,
      List.singleton_append]
    have hl : (rs.length : Int) = (rs.reverse.length : Int) := by simp
    unfold markBody
    rw [hl, ruleAt_mid, setRuleAt_mid, ← hl]
    by_cases hn : r.negAfter = true
    · simp [hn, markBack]
    · simp only [hn, markBack]
      have := ih ({ val := r.val, negated := r.negated, negAfter := true } :: suf)
      unfold markBody at this
      simp [this]

/-- the marking loop `for i := len(rules)-1; i >= 0; i--` is `markBack` on the reversed list -/
theorem markBack_loop (acc : List Rule) :
    forIn (m := Id) (Go.rangeDown ((acc.length : Int) - 1)) acc.reverse markBody =
      pure (markBack acc).reverse := by
  have := markBack_loop_gen acc []
  simpa using this

/-- `copy(make([]rule, len(rs)), rs)` is `rs` -/
theorem rr_copy_zero (rs : List Rule) : Go.copyRules (Go.zeroRules (Go.lenRules rs)) rs = rs := by
  simp [Go.copyRules, Go.zeroRules, Go.lenRules]

/-- the pattern normalisation at the end of an iteration (trailing `/` ⇒ `**`, leading `/` anchors,
otherwise an implicit `**/`), as `readLine` writes it -/
def normPat (p1 : Str) : Str :=
  let p2 := if p1.getLast? = some '/' then p1 ++ ['*', '*'] else p1
  match p2 with
  | '/' :: r => r
  | _ => '*' :: '*' :: '/' :: p2

/-- `len(p) == 0` -/
theorem goLen_eq_zero (p : Str) : (Go.len p == 0) = decide (p = []) := by
  cases p with
  | nil => simp [Go.len]
  | cons c r => simp [Go.len]; omega

theorem byteAt_cons_zero (c : Char) (r : Str) : Go.byteAt (c :: r) 0 = c := by simp [Go.byteAt]

theorem sliceFrom_cons_one (c : Char) (r : Str) : Go.sliceFrom (c :: r) 1 = r := by simp [Go.sliceFrom]

/-- `p[len(p)-1] == '/'` for a non-empty `p` -/
theorem byteAt_last_slash (p : Str) (h : p ≠ []) :
    (Go.byteAt p (Go.len p - 1) == '/') = decide (p.getLast? = some '/') := by
  have h0 : 0 < p.length := List.length_pos_iff.mpr h
  have h1 : ¬ ((p.length : Int) - 1 < 0) := by omega
  have h2 : ((p.length : Int) - 1).toNat = p.length - 1 := by omega
  have h3 : p.length - 1 < p.length := by omega
  simp only [Go.byteAt, Go.len, h1, h2, if_false, List.getElem?_eq_getElem h3, Option.getD_some,
    List.getLast?_eq_getElem?, Option.some.injEq]
  rfl

/-- the two `if`s at the end of an iteration, with the rest of the iteration as `g` -/
theorem rr_tail_ifs {α : Type} (g : Str → α) (p1 : Str) (h : p1 ≠ []) :
    (if (Go.byteAt p1 (Go.len p1 - 1) == '/') = true then
        if (Go.byteAt (p1 ++ ['*', '*']) 0 == '/') = true then g (Go.sliceFrom (p1 ++ ['*', '*']) 1)
        else g (['*', '*'] ++ ['/'] ++ (p1 ++ ['*', '*']))
      else
        if (Go.byteAt p1 0 == '/') = true then g (Go.sliceFrom p1 1)
        else g (['*', '*'] ++ ['/'] ++ p1)) = g (normPat p1) := by
  rw [byteAt_last_slash p1 h]
  unfold normPat
  cases p1 with
  | nil => exact absurd rfl h
  | cons c r =>
    simp only [List.cons_append, byteAt_cons_zero, sliceFrom_cons_one]
    by_cases hl : (c :: r).getLast? = some '/'
    · by_cases hc : c = '/'
      · subst hc; simp [hl]
      · simp [hl, hc]
    · by_cases hc : c = '/'
      · subst hc; simp [hl]
      · simp [hl, hc]

/-- `readLine` on a line whose trimmed form is `c :: rest`, not a comment -/
theorem readLine_cons (acc : List Rule) (line : Str) (c : Char) (rest : Str) (hl : line ≠ [])
    (hp : trimSpace line = c :: rest) (hc : c ≠ '#') :
    readLine acc line =
      if c = '!' then
        if rest = [] then acc
        else { val := normPat rest, negated := true, negAfter := false } :: markBack acc
      else { val := normPat (c :: rest), negated := false, negAfter := false } :: acc := by
  unfold readLine
  simp only [hl, if_false, hp]
  by_cases hn : c = '!'
  · by_cases hr : rest = []
    · simp [hn, hr]
    · simp [hn, hr, normPat]; rfl
  · simp [hn, normPat]; rfl

/-- a loop over the lines whose body takes `(acc.reverse, |acc| - 1)` to the same for `readLine acc line`
computes the fold of `readLine` -/
theorem rr_lines_forIn (f : Str → List Rule × Int → Id (ForInStep (List Rule × Int)))
    (h : ∀ acc line, f line (acc.reverse, (acc.length : Int) - 1) =
      pure (ForInStep.yield ((readLine acc line).reverse, ((readLine acc line).length : Int) - 1)))
    (ls : List Str) (acc : List Rule) :
    forIn (m := Id) ls (acc.reverse, (acc.length : Int) - 1) f =
      pure ((ls.foldl readLine acc).reverse, ((ls.foldl readLine acc).length : Int) - 1) := by
  induction ls generalizing acc with
  | nil => simp
  | cons l ls ih =>
    rw [List.forIn_cons, h]
    simp only [List.foldl_cons]
    exact ih _

/-- marking does not change the number of rules -/
theorem markBack_length (acc : List Rule) : (markBack acc).length = acc.length := by
  induction acc with
  | nil => rfl
  | cons r rs ih =>
    unfold markBack
    by_cases h : r.negAfter = true
    · simp [h]
    · simp [h, ih]

theorem rr_idx_succ (n : Nat) : (n : Int) - 1 + 1 = ((n + 1 : Nat) : Int) - 1 := by omega

/-- the translated `readRules` on any list of lines is the fold of `readLine` from the default rules -/
theorem gen_readRules_lines (ls : List Str) :
    Gen.readRules ls = ((ls.foldl readLine defaultRules.reverse).reverse, false) := by
  unfold Gen.readRules
  have hinit : Go.copyRules (Go.zeroRules (Go.lenRules Go.defaultExclusions)) Go.defaultExclusions =
      defaultRules.reverse.reverse := by rw [rr_copy_zero]; simp [Go.defaultExclusions]
  have hidx : Go.lenRules Go.defaultExclusions - 1 = ((defaultRules.reverse.length : Nat) : Int) - 1 := by
    simp [Go.lenRules, Go.defaultExclusions]
  simp only [hinit, hidx]
  rw [rr_lines_forIn]
  · rfl
  · intro acc line
    simp only [goLen_eq_zero, Go.trimSpace, decide_eq_true_eq]
    by_cases hl : line = []
    · simp [hl, readLine]
    · simp only [hl, if_false]
      have hp : trimSpace line = [] ∨ ∃ c rest, trimSpace line = c :: rest := by
        cases trimSpace line <;> simp
      rcases hp with hp | ⟨c, rest, hp⟩
      · simp [readLine, hl, hp]
      · have h0 : ¬ (trimSpace line = []) := by simp [hp]
        have h1 : (Go.byteAt (trimSpace line) 0 == '#') = decide (c = '#') := by
          rw [hp, byteAt_cons_zero]; rfl
        have h2 : (Go.byteAt (trimSpace line) 0 == '!') = decide (c = '!') := by
          rw [hp, byteAt_cons_zero]; rfl
        have h3 : Go.sliceFrom (trimSpace line) 1 = rest := by rw [hp, sliceFrom_cons_one]
        simp only [h0, h1, h2, if_false, decide_eq_true_eq]
        by_cases hc : c = '#'
        · subst hc; simp [readLine, hl, hp]
        · rw [readLine_cons acc line c rest hl hp hc]
          simp only [hc, if_false]
          by_cases hn : c = '!'
          · simp only [hn, if_true, h3]
            by_cases hr : rest = []
            · simp only [hr, if_true]
            · simp only [hr, if_false]
              have hm := markBack_loop acc
              unfold markBody at hm
              rw [hm, pure_bind]
              refine (rr_tail_ifs (α := Id (ForInStep (List Rule × Int)))
                (fun v => pure (ForInStep.yield ((markBack acc).reverse ++
                  [{ val := v, negated := true, negAfter := Go.zeroRule.negAfter }], (acc.length : Int) - 1 + 1)))
                rest hr).trans ?_
              simp only [List.reverse_cons, List.length_cons, markBack_length, rr_idx_succ, Go.zeroRule]
          · simp only [hn, if_false]
            refine (rr_tail_ifs (α := Id (ForInStep (List Rule × Int)))
              (fun v => pure (ForInStep.yield (acc.reverse ++
                [{ val := v, negated := Go.zeroRule.negated, negAfter := Go.zeroRule.negAfter }],
                (acc.length : Int) - 1 + 1)))
              (trimSpace line) h0).trans ?_
            simp only [List.reverse_cons, List.length_cons, rr_idx_succ, Go.zeroRule, hp]

/-- the translated `readRules` on the lines of a rule file's content is the model's `readRules` -/
theorem gen_readRules (content : Str) : Gen.readRules (scanLines content) = (readRules content, false) :=
  gen_readRules_lines (scanLines content)

end Slug
