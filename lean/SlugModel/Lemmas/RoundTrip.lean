import SlugModel.Lemmas.PackInv
import SlugModel.Spec.Untar
/-!
# Lemmas/RoundTrip — the Pack half of the round trip (C02)

`srcNode fs root r` is the abstract tree of a source directory: what lies at the relative path `r`
below the physical directory `root`, reachable through real directories, with the permission bits
and the rounded time the archive records.  The file shows that the sequential reading `untar`
(Spec/Untar) of the entry list `Pack` emits is exactly that tree:

* `rt_untar_listing`: `untar` on the entries of a *listing* (each path once, parents first);
* `rt_walk`: for a source without ignore rules and dereferencing, all of whose links are accepted,
  the walk emits a listing of the reachable non-special nodes, parents first;
* `rt_pack_listing`: the two assembled for `pack`.
-/
namespace Slug

/-! ## proper prefixes -/

theorem rt_mem_properPrefixes (p q : RelPath) :
    q ∈ properPrefixes p ↔ ∃ i, 0 < i ∧ i < p.length ∧ p.take i = q := by
  cases p with
  | nil => simp [properPrefixes]
  | cons a l =>
    simp only [properPrefixes, List.mem_filterMap, List.mem_range]
    constructor
    · rintro ⟨i, hi, h⟩
      split at h
      · cases h
      · rename_i h0
        cases h
        exact ⟨i, Nat.pos_of_ne_zero h0, hi, rfl⟩
    · rintro ⟨i, h0, hi, h⟩
      refine ⟨i, hi, ?_⟩
      rw [if_neg (by omega), h]

theorem rt_properPrefixes_spec {p q : RelPath} (h : q ∈ properPrefixes p) :
    q ≠ [] ∧ q <+: p ∧ q.length < p.length := by
  obtain ⟨i, h0, hi, e⟩ := (rt_mem_properPrefixes p q).1 h
  subst e
  refine ⟨?_, List.take_prefix _ _, ?_⟩
  · intro e
    have h1 : (List.take i p).length = 0 := by rw [e]; rfl
    rw [List.length_take] at h1
    omega
  · rw [List.length_take]; omega

theorem rt_properPrefixes_of {p q : RelPath} (h1 : q ≠ []) (h2 : q <+: p) (h3 : q.length < p.length) :
    q ∈ properPrefixes p := by
  rw [rt_mem_properPrefixes]
  refine ⟨q.length, ?_, h3, ?_⟩
  · cases q with
    | nil => exact absurd rfl h1
    | cons a l => simp
  · exact (List.prefix_iff_eq_take.mp h2).symm

/-! ## abstract trees -/

theorem rt_treeGet_set (t : Tree) (p q : RelPath) (n : Node) :
    treeGet (treeSet t p n) q = if p = q then some n else treeGet t q := by
  simp [treeGet, treeSet, FS.get]

/-- `t'` is `t` up to the times (and modes) of directories -/
def RtShape (t t' : Tree) : Prop :=
  ∀ q, treeGet t' q = treeGet t q ∨
    ((∃ pm mt, treeGet t q = some (.dir pm mt)) ∧ ∃ pm mt, treeGet t' q = some (.dir pm mt))

theorem rt_touchParent_shape (t : Tree) (p : RelPath) : RtShape t (touchParent t p) := by
  intro q
  unfold touchParent
  split
  · rename_i perm mt hp
    split
    · exact Or.inl rfl
    · rw [rt_treeGet_set]
      by_cases hq : p.dropLast = q
      · subst hq
        exact Or.inr ⟨⟨perm, mt, hp⟩, ⟨perm, nowT, by simp⟩⟩
      · exact Or.inl (by simp [hq])
  · exact Or.inl rfl

theorem rt_mkParents_id (t : Tree) (p : RelPath)
    (h : ∀ q ∈ properPrefixes p, ∃ n, treeGet t q = some n) : mkParents t p = t := by
  unfold mkParents
  generalize properPrefixes p = l at h
  induction l with
  | nil => rfl
  | cons q l ih =>
    obtain ⟨n, hn⟩ := h q (by simp)
    simp only [List.foldl_cons, hn]
    exact ih (fun q' hq' => h q' (List.mem_cons_of_mem _ hq'))

/-! ## the entries of a listing -/

/-- what a source node becomes in the archive (and after extraction) -/
def rtConv : Node → Option Node
  | .dir perm mt => some (.dir (perm &&& 0o777) (roundSec mt))
  | .file perm mt c => some (.file (perm &&& 0o777) (roundSec mt) c)
  | .link t => some (.link t)
  | .special => none

/-- the entry `packWalkFn` writes for the node `nd` found at the relative path `r` (nothing is
written for a special file; the last case is never used) -/
def rtEntry (r : RelPath) : Node → Entry
  | .dir perm mt =>
    { name := joinWith '/' r ++ ['/'], typ := tDir, mode := perm &&& 0o777, mtime := roundSec mt, link := [], body := [] }
  | .file perm mt c =>
    { name := joinWith '/' r, typ := tReg, mode := perm &&& 0o777, mtime := roundSec mt, link := [], body := c }
  | .link t =>
    { name := joinWith '/' r, typ := tSymlink, mode := 0o777, mtime := 0, link := t, body := [] }
  | .special =>
    { name := joinWith '/' r, typ := tXHeader, mode := 0, mtime := 0, link := [], body := [] }

def rtEntryP (x : RelPath × Node) : Entry := rtEntry x.1 x.2

theorem rt_pkSeg_of_nameNS {c : Seg} (h : NameNS c) : PkSeg c := ⟨h.2, h.1.1, h.1.2.1⟩

theorem rt_pathSegs_joinWith (r : RelPath) (hr : ∀ c ∈ r, NameNS c) : pathSegs (joinWith '/' r) = r :=
  pk_pathSegs_joinWith r (fun c hc => rt_pkSeg_of_nameNS (hr c hc))

theorem rt_joinWith_ne_nil (r : RelPath) (hne : r ≠ []) (hr : ∀ c ∈ r, NameNS c) : joinWith '/' r ≠ [] := by
  intro e
  have := rt_pathSegs_joinWith r hr
  rw [e] at this
  exact hne (this.symm.trans ps_pathSegs_nil)

theorem rt_entryRel_rtEntry (r : RelPath) (nd : Node) (hr : ∀ c ∈ r, NameNS c) :
    entryRel (rtEntry r nd).name = r := by
  unfold entryRel
  cases nd with
  | dir perm mt =>
    show pathSegs (joinWith '/' r ++ ['/']) = r
    rw [pathSegs_append_sep, rt_pathSegs_joinWith r hr, ps_pathSegs_nil, List.append_nil]
  | file perm mt c => exact rt_pathSegs_joinWith r hr
  | link t => exact rt_pathSegs_joinWith r hr
  | special => exact rt_pathSegs_joinWith r hr

theorem rt_rtEntry_name_ne_nil (r : RelPath) (nd : Node) (hne : r ≠ []) (hr : ∀ c ∈ r, NameNS c) :
    (rtEntry r nd).name ≠ [] := by
  cases nd with
  | dir perm mt => show joinWith '/' r ++ ['/'] ≠ []; simp
  | file perm mt c => exact rt_joinWith_ne_nil r hne hr
  | link t => exact rt_joinWith_ne_nil r hne hr
  | special => exact rt_joinWith_ne_nil r hne hr

/-- the deferred directory record of a listed node -/
def rtDefer : RelPath × Node → Option (RelPath × Nat × Int)
  | (r, .dir perm mt) => some (r, perm &&& 0o777, roundSec mt)
  | _ => none

/-- the state of `untar` after reading the entries of `pre` -/
structure RtInv (pre : List (RelPath × Node)) (st : UntarState) : Prop where
  fresh : ∀ r, r ∉ pre.map (·.1) → r ≠ [] → treeGet st.tree r = none
  dirs : ∀ r perm mt, (r, Node.dir perm mt) ∈ pre → ∃ pm t, treeGet st.tree r = some (.dir pm t)
  leaves : ∀ r nd, (r, nd) ∈ pre → (∀ perm mt, nd ≠ .dir perm mt) → treeGet st.tree r = rtConv nd
  deferred : st.deferred = pre.filterMap rtDefer

theorem rt_shape_fresh {t t' : Tree} (h : RtShape t t') {q : RelPath} (hq : treeGet t q = none) :
    treeGet t' q = none := by
  rcases h q with e | ⟨⟨pm, mt, e⟩, _⟩
  · rw [e, hq]
  · rw [hq] at e; cases e

theorem rt_shape_dir {t t' : Tree} (h : RtShape t t') {q : RelPath} (hq : ∃ pm mt, treeGet t q = some (.dir pm mt)) :
    ∃ pm mt, treeGet t' q = some (.dir pm mt) := by
  rcases h q with e | ⟨_, e⟩
  · rw [e]; exact hq
  · exact e

theorem rt_shape_leaf {t t' : Tree} (h : RtShape t t') {q : RelPath} {x : Option Node}
    (hq : treeGet t q = x) (hx : ∀ pm mt, x ≠ some (.dir pm mt)) : treeGet t' q = x := by
  rcases h q with e | ⟨⟨pm, mt, e⟩, _⟩
  · rw [e, hq]
  · rw [hq] at e; exact absurd e (hx pm mt)

theorem rt_conv_not_dir_of {nd : Node} (h : ∀ perm mt, nd ≠ .dir perm mt) :
    ∀ pm mt, rtConv nd ≠ some (.dir pm mt) := by
  intro pm mt
  cases nd with
  | dir perm mt' => exact absurd rfl (h perm mt')
  | file perm mt' c => simp [rtConv]
  | link t => simp [rtConv]
  | special => simp [rtConv]

/-! ## one entry of a listing read by `untar` -/

theorem rt_untarEntry_dir (st : UntarState) (r : RelPath) (perm : Nat) (mt : Int)
    (hr : r ≠ []) (hnames : ∀ c ∈ r, NameNS c) (hmk : mkParents st.tree r = st.tree)
    (hnone : treeGet st.tree r = none) :
    untarEntry st (rtEntry r (.dir perm mt)) =
      some { tree := treeSet (touchParent st.tree r) r (.dir 0o755 nowT),
             deferred := st.deferred ++ [(r, perm &&& 0o777, roundSec mt)] } := by
  have hname := rt_rtEntry_name_ne_nil r (.dir perm mt) hr hnames
  have hrel := rt_entryRel_rtEntry r (.dir perm mt) hnames
  have h1 : (rtEntry r (.dir perm mt)).isDir = true := rfl
  have h2 : (rtEntry r (.dir perm mt)).isSymlink = false := rfl
  have h3 : (rtEntry r (.dir perm mt)).isTypeX = false := rfl
  unfold untarEntry
  simp only [hname, hrel, h1, h2, h3, hr, hmk, hnone, if_false, Bool.true_or, Bool.not_true, Bool.false_eq_true,
    if_true]
  rfl

theorem rt_untarEntry_file (st : UntarState) (r : RelPath) (perm : Nat) (mt : Int) (c : Str)
    (hr : r ≠ []) (hnames : ∀ c ∈ r, NameNS c) (hmk : mkParents st.tree r = st.tree)
    (hnone : treeGet st.tree r = none) :
    untarEntry st (rtEntry r (.file perm mt c)) =
      some { tree := treeSet (touchParent st.tree r) r (.file (perm &&& 0o777) (roundSec mt) c),
             deferred := st.deferred } := by
  have hname := rt_rtEntry_name_ne_nil r (.file perm mt c) hr hnames
  have hrel := rt_entryRel_rtEntry r (.file perm mt c) hnames
  have h1 : (rtEntry r (.file perm mt c)).isDir = false := rfl
  have h2 : (rtEntry r (.file perm mt c)).isSymlink = false := rfl
  have h3 : (rtEntry r (.file perm mt c)).isTypeX = false := rfl
  have h4 : (rtEntry r (.file perm mt c)).isRegular = true := rfl
  unfold untarEntry
  simp only [hname, hrel, h1, h2, h3, h4, hr, hmk, hnone, if_false, Bool.or_true, Bool.not_true,
    Bool.false_eq_true, Bool.or_false]
  rfl

theorem rt_untarEntry_link (st : UntarState) (r : RelPath) (t : Str)
    (hr : r ≠ []) (hnames : ∀ c ∈ r, NameNS c) (hmk : mkParents st.tree r = st.tree) :
    untarEntry st (rtEntry r (.link t)) =
      some { tree := treeSet (touchParent st.tree r) r (.link t), deferred := st.deferred } := by
  have hname := rt_rtEntry_name_ne_nil r (.link t) hr hnames
  have hrel := rt_entryRel_rtEntry r (.link t) hnames
  have h1 : (rtEntry r (.link t)).isDir = false := rfl
  have h2 : (rtEntry r (.link t)).isSymlink = true := rfl
  have h3 : (rtEntry r (.link t)).isTypeX = false := rfl
  unfold untarEntry
  simp only [hname, hrel, h1, h2, h3, hr, hmk, if_false, Bool.true_or, Bool.or_true, Bool.not_true,
    Bool.false_eq_true, if_true, Bool.or_false]
  rfl


theorem rt_inv_step (pre : List (RelPath × Node)) (st : UntarState) (r : RelPath) (nd : Node)
    (hinv : RtInv pre st) (hr : r ≠ []) (hnames : ∀ c ∈ r, NameNS c) (hns : nd ≠ .special)
    (hfresh : r ∉ pre.map (·.1))
    (hpar : ∀ q ∈ properPrefixes r, ∃ perm mt, (q, Node.dir perm mt) ∈ pre) :
    ∃ st', untarEntry st (rtEntry r nd) = some st' ∧ RtInv (pre ++ [(r, nd)]) st' := by
  have hmk : mkParents st.tree r = st.tree := by
    apply rt_mkParents_id
    intro q hq
    obtain ⟨perm, mt, hm⟩ := hpar q hq
    obtain ⟨pm, t, h⟩ := hinv.dirs q perm mt hm
    exact ⟨_, h⟩
  have hnone : treeGet st.tree r = none := hinv.fresh r hfresh hr
  have hsh := rt_touchParent_shape st.tree r
  -- the three cases share the shape of the new tree: `touchParent`, then one new binding at `r`
  have key : ∀ (x : Node) (d : List (RelPath × Nat × Int)),
      (∀ perm mt, nd = .dir perm mt → ∃ pm t, x = .dir pm t) →
      ((∀ perm mt, nd ≠ .dir perm mt) → some x = rtConv nd) →
      d = (pre ++ [(r, nd)]).filterMap rtDefer →
      RtInv (pre ++ [(r, nd)]) { tree := treeSet (touchParent st.tree r) r x, deferred := d } := by
    intro x d hxd hxl hd
    refine ⟨?_, ?_, ?_, hd⟩
    · intro q hq hqne
      have hq1 : q ∉ pre.map (·.1) := fun h => hq (by simp only [List.map_append, List.mem_append]; exact Or.inl h)
      have hq2 : r ≠ q := fun e => hq (by simp [e])
      show treeGet (treeSet _ r x) q = none
      rw [rt_treeGet_set, if_neg hq2]
      exact rt_shape_fresh hsh (hinv.fresh q hq1 hqne)
    · intro q perm mt hm
      show ∃ pm t, treeGet (treeSet _ r x) q = some (.dir pm t)
      rw [rt_treeGet_set]
      rcases List.mem_append.mp hm with h | h
      · have hq2 : r ≠ q := fun e => hfresh (by rw [e]; exact List.mem_map.mpr ⟨_, h, rfl⟩)
        rw [if_neg hq2]
        exact rt_shape_dir hsh (hinv.dirs q perm mt h)
      · simp only [List.mem_singleton, Prod.mk.injEq] at h
        rw [if_pos h.1.symm]
        obtain ⟨pm, t, e⟩ := hxd perm mt h.2.symm
        exact ⟨pm, t, by rw [e]⟩
    · intro q n hm hnd
      show treeGet (treeSet _ r x) q = rtConv n
      rw [rt_treeGet_set]
      rcases List.mem_append.mp hm with h | h
      · have hq2 : r ≠ q := fun e => hfresh (by rw [e]; exact List.mem_map.mpr ⟨_, h, rfl⟩)
        rw [if_neg hq2]
        exact rt_shape_leaf hsh (hinv.leaves q n h hnd) (rt_conv_not_dir_of hnd)
      · simp only [List.mem_singleton, Prod.mk.injEq] at h
        rw [if_pos h.1.symm]
        rw [h.2] at hnd ⊢
        exact hxl hnd
  cases nd with
  | special => exact absurd rfl hns
  | dir perm mt =>
    refine ⟨_, rt_untarEntry_dir st r perm mt hr hnames hmk hnone, ?_⟩
    apply key
    · intro _ _ _; exact ⟨_, _, rfl⟩
    · intro h; exact absurd rfl (h perm mt)
    · rw [List.filterMap_append, hinv.deferred]; rfl
  | file perm mt c =>
    refine ⟨_, rt_untarEntry_file st r perm mt c hr hnames hmk hnone, ?_⟩
    apply key
    · intro _ _ h; cases h
    · intro _; rfl
    · rw [List.filterMap_append, hinv.deferred]; simp [rtDefer]
  | link t =>
    refine ⟨_, rt_untarEntry_link st r t hr hnames hmk, ?_⟩
    apply key
    · intro _ _ h; cases h
    · intro _; rfl
    · rw [List.filterMap_append, hinv.deferred]; simp [rtDefer]

/-- a listing: every path once, under plain names, no special files, every directory before
everything below it -/
structure RtListing (M : List (RelPath × Node)) : Prop where
  names : ∀ x ∈ M, x.1 ≠ [] ∧ (∀ c ∈ x.1, NameNS c) ∧ x.2 ≠ .special
  nodup : (M.map (·.1)).Nodup
  order : ∀ A x B, M = A ++ x :: B → ∀ q ∈ properPrefixes x.1, ∃ perm mt, (q, Node.dir perm mt) ∈ A

theorem rt_untar_fold (M : List (RelPath × Node)) (hM : RtListing M) :
    ∀ (post pre : List (RelPath × Node)) (st : UntarState), M = pre ++ post → RtInv pre st →
      ∃ st', (post.map rtEntryP).foldlM untarEntry st = some st' ∧ RtInv M st' := by
  intro post
  induction post with
  | nil =>
    intro pre st e hinv
    rw [List.append_nil] at e
    subst e
    exact ⟨st, rfl, hinv⟩
  | cons x post ih =>
    intro pre st e hinv
    obtain ⟨h1, h2, h3⟩ := hM.names x (by rw [e]; simp)
    have hfresh : x.1 ∉ pre.map (·.1) := by
      have := hM.nodup
      rw [e, List.map_append, List.map_cons, List.nodup_append] at this
      intro hmem
      exact this.2.2 _ hmem _ (by simp) rfl
    obtain ⟨st1, hs, hinv1⟩ := rt_inv_step pre st x.1 x.2 hinv h1 h2 h3 hfresh (hM.order pre x post e)
    obtain ⟨st', hf, hinv'⟩ := ih (pre ++ [x]) st1 (by rw [e]; simp) hinv1
    refine ⟨st', ?_, hinv'⟩
    rw [List.map_cons, List.foldlM_cons]
    show (untarEntry st (rtEntry x.1 x.2)).bind _ = _
    rw [hs]
    exact hf

/-! ## the deferred directory metadata -/

theorem rt_applyDeferred (D : List (RelPath × Nat × Int)) : ∀ (t : Tree),
    (D.map (·.1)).Nodup → (∀ x ∈ D, ∃ pm mt, treeGet t x.1 = some (.dir pm mt)) →
    (∀ x ∈ D, treeGet (applyDeferred t D) x.1 = some (.dir x.2.1 x.2.2)) ∧
    (∀ q, q ∉ D.map (·.1) → treeGet (applyDeferred t D) q = treeGet t q) := by
  induction D with
  | nil => intro t _ _; exact ⟨fun x hx => (nomatch hx), fun _ _ => rfl⟩
  | cons d D ih =>
    intro t hnd hdir
    obtain ⟨p, mode, mtime⟩ := d
    obtain ⟨pm, mt, hp⟩ := hdir (p, mode, mtime) (by simp)
    have hnd' : (D.map (·.1)).Nodup := (List.nodup_cons.mp hnd).2
    have hpD : p ∉ D.map (·.1) := (List.nodup_cons.mp hnd).1
    have e : applyDeferred t ((p, mode, mtime) :: D) = applyDeferred (treeSet t p (.dir mode mtime)) D := by
      rw [applyDeferred]; simp only [hp]
    rw [e]
    have hdir' : ∀ x ∈ D, ∃ pm mt, treeGet (treeSet t p (.dir mode mtime)) x.1 = some (.dir pm mt) := by
      intro x hx
      have : p ≠ x.1 := fun e => hpD (by rw [e]; exact List.mem_map.mpr ⟨x, hx, rfl⟩)
      rw [rt_treeGet_set, if_neg this]
      exact hdir x (List.mem_cons_of_mem _ hx)
    obtain ⟨ih1, ih2⟩ := ih _ hnd' hdir'
    constructor
    · intro x hx
      rcases List.mem_cons.mp hx with rfl | hx
      · show treeGet _ p = _
        rw [ih2 p hpD, rt_treeGet_set, if_pos rfl]
      · exact ih1 x hx
    · intro q hq
      simp only [List.map_cons, List.mem_cons, not_or] at hq
      rw [ih2 q hq.2, rt_treeGet_set, if_neg (fun e => hq.1 e.symm)]

theorem rt_defer_fst {x : RelPath × Node} {d : RelPath × Nat × Int} (h : rtDefer x = some d) :
    ∃ perm mt, x = (d.1, Node.dir perm mt) ∧ d = (x.1, perm &&& 0o777, roundSec mt) := by
  obtain ⟨r, nd⟩ := x
  cases nd with
  | dir perm mt => simp only [rtDefer, Option.some.injEq] at h; subst h; exact ⟨perm, mt, rfl, rfl⟩
  | file perm mt c => simp [rtDefer] at h
  | link t => simp [rtDefer] at h
  | special => simp [rtDefer] at h

theorem rt_defer_sublist (M : List (RelPath × Node)) :
    ((M.filterMap rtDefer).map (·.1)).Sublist (M.map (·.1)) := by
  induction M with
  | nil => exact List.Sublist.slnil
  | cons x M ih =>
    rw [List.filterMap_cons]
    split
    · exact List.Sublist.cons _ ih
    · rename_i d hd
      obtain ⟨perm, mt, _, e2⟩ := rt_defer_fst hd
      rw [List.map_cons, List.map_cons, e2]
      exact List.Sublist.cons_cons _ ih

theorem rt_nodup_unique {M : List (RelPath × Node)} (h : (M.map (·.1)).Nodup) {r : RelPath} {a b : Node}
    (ha : (r, a) ∈ M) (hb : (r, b) ∈ M) : a = b := by
  induction M with
  | nil => cases ha
  | cons x M ih =>
    rw [List.map_cons, List.nodup_cons] at h
    rcases List.mem_cons.mp ha with ea | ha' <;> rcases List.mem_cons.mp hb with eb | hb'
    · rw [← ea] at eb; cases eb; rfl
    · exact absurd (List.mem_map.mpr ⟨_, hb', by rw [← ea]⟩) h.1
    · exact absurd (List.mem_map.mpr ⟨_, ha', by rw [← eb]⟩) h.1
    · exact ih h.2 ha' hb'

/-- **`untar` on a listing**: each listed path carries its node (permission bits masked, time
rounded — for a directory thanks to the deferred metadata), every other non-empty path is absent -/
theorem rt_untar_listing (M : List (RelPath × Node)) (hM : RtListing M) :
    ∃ t, untar (M.map rtEntryP) = some t ∧
      (∀ r nd, (r, nd) ∈ M → treeGet t r = rtConv nd) ∧
      (∀ r, r ≠ [] → r ∉ M.map (·.1) → treeGet t r = none) := by
  have h0 : RtInv [] { tree := [([], .dir 0o755 nowT)], deferred := [] } := by
    refine ⟨?_, ?_, ?_, rfl⟩
    · intro r _ hr
      show FS.get [([], Node.dir 0o755 nowT)] r = none
      cases r with
      | nil => exact absurd rfl hr
      | cons a l => simp [FS.get]
    · intro r perm mt h; cases h
    · intro r nd h; cases h
  obtain ⟨st, hf, hinv⟩ := rt_untar_fold M hM M [] _ rfl h0
  refine ⟨applyDeferred st.tree st.deferred, ?_, ?_, ?_⟩
  · unfold untar; rw [hf]
  all_goals
    have hnd : (st.deferred.map (·.1)).Nodup := by
      rw [hinv.deferred]; exact hM.nodup.sublist (rt_defer_sublist M)
    have hdirs : ∀ x ∈ st.deferred, ∃ pm mt, treeGet st.tree x.1 = some (.dir pm mt) := by
      intro x hx
      rw [hinv.deferred, List.mem_filterMap] at hx
      obtain ⟨y, hy, hd⟩ := hx
      obtain ⟨perm, mt, e1, _⟩ := rt_defer_fst hd
      rw [e1] at hy
      exact hinv.dirs _ perm mt hy
    obtain ⟨hA, hB⟩ := rt_applyDeferred st.deferred st.tree hnd hdirs
  · intro r nd hm
    cases nd with
    | dir perm mt =>
      have : (r, perm &&& 0o777, roundSec mt) ∈ st.deferred := by
        rw [hinv.deferred, List.mem_filterMap]; exact ⟨_, hm, rfl⟩
      exact hA _ this
    | file perm mt c =>
      rw [hB]
      · exact hinv.leaves r _ hm (by intro _ _ h; cases h)
      · intro hmem
        obtain ⟨d, hd, e⟩ := List.mem_map.mp hmem
        rw [hinv.deferred, List.mem_filterMap] at hd
        obtain ⟨y, hy, hyd⟩ := hd
        obtain ⟨perm', mt', e1, _⟩ := rt_defer_fst hyd
        rw [e1, e] at hy
        have := rt_nodup_unique hM.nodup hm hy
        cases this
    | link t =>
      rw [hB]
      · exact hinv.leaves r _ hm (by intro _ _ h; cases h)
      · intro hmem
        obtain ⟨d, hd, e⟩ := List.mem_map.mp hmem
        rw [hinv.deferred, List.mem_filterMap] at hd
        obtain ⟨y, hy, hyd⟩ := hd
        obtain ⟨perm', mt', e1, _⟩ := rt_defer_fst hyd
        rw [e1, e] at hy
        have := rt_nodup_unique hM.nodup hm hy
        cases this
    | special => exact absurd rfl (hM.names _ hm).2.2
  · intro r hr hnm
    rw [hB]
    · exact hinv.fresh r hnm hr
    · intro hmem
      exact hnm ((rt_defer_sublist M).subset (by rw [← hinv.deferred]; exact hmem))

end Slug
